----------------------------- MODULE RefGrammar -----------------------------
(***************************************************************************)
(* C15 - image references.  Token-level grammar model of types/ref         *)
(* (ref.go: New, NewHost, CommonName, SetTag, SetDigest, AddDigest),       *)
(* written independently of the regular expressions in ref.go.             *)
(*                                                                         *)
(* A reference is a choice of one lexeme per slot (scheme, host, 1-3 path  *)
(* components, tag, digest / layout path, tag, digest); each lexeme        *)
(* belongs to a class that is valid or not.  The recogniser Expect says    *)
(* whether the assembled string is inside the grammar and, if so, which    *)
(* components Docker-style normalisation yields.  TLC enumerates the       *)
(* scenario space (RefGen) and checks every result recorded from the real  *)
(* parser against Expect (RefTrace).  TLA+ has no string operations except *)
(* concatenation and equality, so the concrete lexemes live here and the   *)
(* expected components are built by concatenation.                         *)
(*                                                                         *)
(* Deliberate limits: IPv6 hosts, host-only strings given to New           *)
(* ("localhost:5000"), underscore hosts (first component with a dot that   *)
(* is not a valid host) are not in the scenario space.                     *)
(***************************************************************************)
EXTENDS Naturals, Sequences, FiniteSets, TLC

H8 == "01234567"
H32 == H8 \o "89abcdef" \o H8 \o "89abcdef"
H64 == H32 \o H32
T16 == "abcdefgh12345678"
T64 == T16 \o T16 \o T16 \o T16
T128 == T64 \o T64

\* ---- lexemes per class: <<class, lexeme, valid>>
Hosts == {
  <<"absent", "", TRUE>>,
  <<"dotted", "example.com", TRUE>>, <<"dotted", "a.b-c.example.org", TRUE>>,
  <<"dotted_upper", "Registry.Example.COM", TRUE>>,
  <<"dotted_port", "example.com:5000", TRUE>>,
  <<"trailing_dot", "example.com.", TRUE>>, <<"trailing_dot", "registry.", TRUE>>,
  <<"trailing_dot_port", "example.com.:443", TRUE>>,
  <<"ipv4", "127.0.0.1", TRUE>>, <<"ipv4_port", "10.0.0.1:8443", TRUE>>,
  <<"localhost", "localhost", TRUE>>, <<"localhost_port", "localhost:5000", TRUE>>,
  <<"single_port", "registry:5000", TRUE>>,
  <<"upper", "Example", TRUE>>, <<"upper", "myHost", TRUE>>,
  <<"hub", "docker.io", TRUE>>, <<"hub_legacy", "index.docker.io", TRUE>>, <<"hub_dns", "registry-1.docker.io", TRUE>>,
  <<"bad_underscore_port", "exa_mple.com:5000", FALSE>>,
  <<"bad_leading_dash", "-bad.example.com", FALSE>>,
  <<"bad_empty_port", "example.com:", FALSE>>,
  <<"bad_alpha_port", "example.com:http", FALSE>>,
  \* exactly one illegal character directly in front of the port colon
  <<"bad_dash_before_port", "docker-:5000", FALSE>>, <<"bad_underscore_before_port", "registry_:5000", FALSE>>,
  <<"bad_colon_before_port", "example::5000", FALSE>>, <<"bad_at_before_port", "example@:5000", FALSE>>,
  <<"bad_dotdot_before_port", "example..:5000", FALSE>> }
CoreComps == {
  <<"lower", "alpine", TRUE>>, <<"lower", "r2d2", TRUE>>,
  <<"sep", "my-repo_x.y", TRUE>>, <<"sep", "a__b--c", TRUE>>,
  <<"upper", "Alpine", FALSE>>, <<"empty", "", FALSE>>, <<"leading_sep", "-repo", FALSE>>,
  <<"trailing_sep", "repo_", FALSE>>, <<"triple_underscore", "a___b", FALSE>>, <<"bad_char", "re po", FALSE>> }
\* words that have a meaning in another slot: only the exact first component "localhost" is a host,
\* "library" is only ever added, never recognised
WordComps == {
  <<"lh_prefix", "localhostess", TRUE>>, <<"lh_prefix", "localhost2", TRUE>>, <<"lh_prefix", "localhost-dev", TRUE>>,
  <<"lh_prefix", "localhost.x", TRUE>>, <<"lh_suffix", "mylocalhost", TRUE>>,
  <<"localhost_word", "localhost", TRUE>>, <<"library_word", "library", TRUE>>,
  <<"hub_word", "docker", TRUE>> }
Comps == CoreComps \cup WordComps
Tags == {
  <<"absent", "", TRUE>>,
  <<"len1", "a", TRUE>>, <<"len1", "_", TRUE>>, <<"normal", "v1.2-x_Y", TRUE>>, <<"numeric", "5000", TRUE>>,
  <<"len128", T128, TRUE>>,
  <<"len129", T128 \o "x", FALSE>>, <<"leading_dot", ".x", FALSE>>, <<"leading_dash", "-x", FALSE>>,
  <<"bad_char", "a!b", FALSE>>, <<"empty", "", FALSE>> }
Digests == {
  <<"absent", "", TRUE>>,
  <<"sha256", "sha256:" \o H64, TRUE>>, <<"sha512", "sha512:" \o H64 \o H64, TRUE>>,
  <<"other_alg", "md5:" \o H32, TRUE>>, <<"multi_alg", "sha256+b64u.x1:" \o H32, TRUE>>,
  <<"upper_hex", "sha256:" \o "ABCDEF01" \o "ABCDEF01" \o "ABCDEF01" \o "ABCDEF01" \o H32, TRUE>>,
  <<"hex31", "sha256:" \o H8 \o H8 \o H8 \o "0123456", FALSE>>,
  <<"non_hex", "sha256:" \o H32 \o "zz" \o H32, FALSE>>,
  <<"no_alg", ":" \o H64, FALSE>>, <<"no_colon", "sha256" \o H64, FALSE>>, <<"empty", "", FALSE>> }
Paths == {
  <<"plain", "dir/sub", TRUE>>, <<"spaces", "my dir/sub dir", TRUE>>, <<"dots", "./a.b/c", TRUE>>,
  <<"dotdot", "../up/../x", TRUE>>, <<"absolute", "/tmp/layout", TRUE>>, <<"tilde_plus", "~user/a+b", TRUE>>,
  <<"upper", "Some/Dir_1", TRUE>>, <<"tarfile", "path/to/file.tgz", TRUE>>,
  <<"root", "/", TRUE>>, <<"double_slash", "//", TRUE>>, <<"trailing_slash", "dir/sub/", TRUE>>,
  <<"bad_char", "dir|x", FALSE>>, <<"bad_star", "dir*x", FALSE>>, <<"bad_colon", "c:/x", FALSE>> }
Schemes == {<<"none", "", TRUE>>, <<"ocidir", "ocidir", TRUE>>, <<"ocifile", "ocifile", TRUE>>,
            <<"unknown", "http", FALSE>>, <<"unknown", "reg", FALSE>>, <<"upper", "OCIDIR", FALSE>>,
            <<"empty", "", FALSE>>, <<"digit", "oci2", FALSE>>}

Join(s, sep) == LET F[i \in 0..Len(s)] == IF i = 0 THEN "" ELSE IF i = 1 THEN s[1] ELSE F[i-1] \o sep \o s[i]
                IN F[Len(s)]

(* A scenario:  [kind, sc, scl, hc, h, pcc, pcs, tc, t, dc, d]                                   *)
(*   kind "reg"  : host hc/h, path components pcc/pcs (classes / lexemes), tag tc/t, digest dc/d *)
(*   kind "dir"  : scheme sc/scl, layout path in pcc[1]/pcs[1], tag, digest                      *)
(*   kind "host" : NewHost on host h (scheme none) or on a layout path with scheme                *)
Suffix(x) == (IF x.tc = "absent" THEN "" ELSE ":" \o x.t) \o (IF x.dc = "absent" THEN "" ELSE "@" \o x.d)
Str(x) ==
  CASE x.kind = "reg" -> (IF x.hc = "absent" THEN "" ELSE x.h \o "/") \o Join(x.pcs, "/") \o Suffix(x)
    [] x.kind = "dir" -> (IF x.sc = "none" THEN "" ELSE x.scl \o "://") \o x.pcs[1] \o Suffix(x)
    [] x.kind = "host" -> (IF x.sc = "none" THEN x.h ELSE x.scl \o "://" \o x.pcs[1])

Valid(set, c, lex) == \E e \in set : e[1] = c /\ e[2] = lex /\ e[3]
Known(set, c, lex) == \E e \in set : e[1] = c /\ e[2] = lex

InGrammar(x) ==
  CASE x.kind = "reg" -> /\ Valid(Hosts, x.hc, x.h)
                         /\ \A i \in 1..Len(x.pcs) : Valid(Comps, x.pcc[i], x.pcs[i])
                         /\ Valid(Tags, x.tc, x.t) /\ Valid(Digests, x.dc, x.d)
    [] x.kind = "dir" -> /\ Valid(Schemes, x.sc, x.scl) /\ x.sc \in {"ocidir", "ocifile"}
                         /\ Valid(Paths, x.pcc[1], x.pcs[1])
                         /\ Valid(Tags, x.tc, x.t) /\ Valid(Digests, x.dc, x.d)
    [] x.kind = "host" -> IF x.sc = "none" THEN Valid(Hosts, x.hc, x.h) /\ x.hc # "absent"
                          ELSE Valid(Schemes, x.sc, x.scl) /\ x.sc \in {"ocidir", "ocifile"} /\ Valid(Paths, x.pcc[1], x.pcs[1])
WellFormed(x) ==
  CASE x.kind = "reg" -> /\ Known(Hosts, x.hc, x.h) /\ Len(x.pcs) \in 1..3 /\ Len(x.pcc) = Len(x.pcs)
                         /\ \A i \in 1..Len(x.pcs) : Known(Comps, x.pcc[i], x.pcs[i])
                         /\ Known(Tags, x.tc, x.t) /\ Known(Digests, x.dc, x.d)
    [] x.kind = "dir" -> Known(Schemes, x.sc, x.scl) /\ Known(Paths, x.pcc[1], x.pcs[1]) /\ Known(Tags, x.tc, x.t) /\ Known(Digests, x.dc, x.d)
    [] x.kind = "host" -> IF x.sc = "none" THEN Known(Hosts, x.hc, x.h) ELSE Known(Schemes, x.sc, x.scl) /\ Known(Paths, x.pcc[1], x.pcs[1])

\* ---- expected components for strings inside the grammar (Docker normalisation)
ExpRegistry(x) == IF x.hc \in {"absent", "hub", "hub_legacy", "hub_dns"} THEN "docker.io" ELSE x.h
ExpRepo(x) == IF ExpRegistry(x) = "docker.io" /\ Len(x.pcs) = 1 THEN "library/" \o x.pcs[1] ELSE Join(x.pcs, "/")
ExpTag(x) == IF x.kind = "reg" /\ x.tc = "absent" /\ x.dc = "absent" THEN "latest" ELSE x.t
Expect(x) ==
  CASE x.kind = "reg" -> [scheme |-> "reg", registry |-> ExpRegistry(x), repository |-> ExpRepo(x),
                          tag |-> ExpTag(x), digest |-> x.d, path |-> ""]
    [] x.kind = "dir" -> [scheme |-> x.scl, registry |-> "", repository |-> "", tag |-> x.t, digest |-> x.d,
                          path |-> x.pcs[1]]
    [] x.kind = "host" -> IF x.sc = "none"
                          THEN [scheme |-> "reg", registry |-> x.h, repository |-> "", tag |-> "", digest |-> "", path |-> ""]
                          ELSE [scheme |-> x.scl, registry |-> "", repository |-> "", tag |-> "", digest |-> "", path |-> x.pcs[1]]

\* ---- the scenario space: everything valid, plus exactly one invalid slot
Lex(set, ok) == {e \in set : e[3] = ok}
NInvalid(x) == (IF Valid(Hosts, x.hc, x.h) THEN 0 ELSE 1) + (IF Valid(Tags, x.tc, x.t) THEN 0 ELSE 1)
               + (IF Valid(Digests, x.dc, x.d) THEN 0 ELSE 1)
               + Cardinality({i \in 1..Len(x.pcs) : ~Valid(Comps, x.pcc[i], x.pcs[i])})
Alp == <<"lower", "alpine", TRUE>>
CompSeqs == [1..1 -> CoreComps] \cup {<<a, b>> : a \in Lex(CoreComps, TRUE), b \in CoreComps} \cup
            {<<a, b>> : a \in CoreComps, b \in {Alp}} \cup
            {<<a, b, c>> : a \in Lex(CoreComps, TRUE), b \in {Alp}, c \in CoreComps} \cup
            \* the words in every position
            {<<w>> : w \in WordComps} \cup {<<w, Alp>> : w \in WordComps} \cup {<<Alp, w>> : w \in WordComps} \cup
            {<<w, Alp, Alp>> : w \in WordComps} \cup {<<Alp, Alp, w>> : w \in WordComps} \cup
            {<<w, w>> : w \in WordComps}
RegScenarios ==
  {x \in {[kind |-> "reg", sc |-> "none", scl |-> "", hc |-> h[1], h |-> h[2],
           pcc |-> [i \in 1..Len(p) |-> p[i][1]], pcs |-> [i \in 1..Len(p) |-> p[i][2]],
           tc |-> t[1], t |-> t[2], dc |-> d[1], d |-> d[2]] : h \in Hosts, p \in CompSeqs, t \in Tags, d \in Digests}
     : /\ NInvalid(x) <= 1
       \* the one ambiguity of the grammar: a first component that is a valid host token IS the host
       /\ ~(x.hc = "absent" /\ Len(x.pcs) > 1 /\ x.pcc[1] = "upper")
       \* the same string as host class "localhost" / the host-only limit above; a dotted first component is a host
       /\ ~(x.hc = "absent" /\ x.pcc[1] = "localhost_word")
       /\ ~(x.hc = "absent" /\ x.pcs[1] = "localhost.x")}
DirScenarios ==
  {x \in {[kind |-> "dir", sc |-> s[1], scl |-> s[2], hc |-> "absent", h |-> "", pcc |-> <<p[1]>>, pcs |-> <<p[2]>>,
           tc |-> t[1], t |-> t[2], dc |-> d[1], d |-> d[2]] : s \in Schemes \ {<<"none", "", TRUE>>}, p \in Paths, t \in Tags, d \in Digests}
     : (IF Valid(Schemes, x.sc, x.scl) THEN 0 ELSE 1) + (IF x.pcc[1] \in {"bad_char", "bad_star", "bad_colon"} THEN 1 ELSE 0)
       + (IF Valid(Tags, x.tc, x.t) THEN 0 ELSE 1) + (IF Valid(Digests, x.dc, x.d) THEN 0 ELSE 1) <= 1}
HostScenarios ==
  {[kind |-> "host", sc |-> "none", scl |-> "", hc |-> h[1], h |-> h[2], pcc |-> <<"plain">>, pcs |-> <<"dir/sub">>,
    tc |-> "absent", t |-> "", dc |-> "absent", d |-> ""] : h \in Hosts \ {<<"absent", "", TRUE>>}} \cup
  {[kind |-> "host", sc |-> s[1], scl |-> s[2], hc |-> "absent", h |-> "", pcc |-> <<p[1]>>, pcs |-> <<p[2]>>,
    tc |-> "absent", t |-> "", dc |-> "absent", d |-> ""] : s \in Schemes \ {<<"none", "", TRUE>>}, p \in Paths}
Scenarios == RegScenarios \cup DirScenarios \cup HostScenarios
=============================================================================

CONSTANTS
 MaxLen = 4
 ReadSizes = {1, 2, 3, 7}
 MaxDrops = 2
 MaxFails = 1
 MaxSeeks = 2
 MaxAgain = 1
 RetryLimit = 3
 Schemes = {"reg", "ocidir"}
 Vias = {"reader"}
 Withs = {TRUE, FALSE}
 Chunks = {1, 2, 7}
 LyingSizes = TRUE
 LieMax = 2
 InlineData = TRUE
 Conc = 3
 Probes = TRUE
 Exts = {0, 1, 2}
 KeepSlots = FALSE
 TarUnverified = FALSE
 MTs = {TRUE, FALSE}
 DigestHdrs = {"absent", "echo", "served"}
 Trailers = {FALSE}
 Sts = {"std", "alt"}
 DropKinds = {"ueof"}
INIT GInit
NEXT GNext
INVARIANTS Emit
CHECK_DEADLOCK FALSE
CONSTANTS
 Replies <- NoDropReplies

\* link archives with the verdict of the model under "links materialised unconditionally": esc = 1 marks the dangerous ones
CONSTANTS TitleClean = "rooted" ExtractGuard = "reroot" Whiteout = "none" LinkPolicy = "raw" DeleteValidates = TRUE MaxFull = 1 MaxCore = 1
  Eps = {"lnk"}
CONSTANT WithVerdict = TRUE
INIT Init
NEXT Next
INVARIANT Emit
CHECK_DEADLOCK FALSE

----------------------------- MODULE LayoutFSMC -----------------------------
(* Model-checking instance of LayoutFS: the operation x start-state list   *)
(* (the same list drives harness/cmd/c07drv, see tools/props/c07.py).      *)
EXTENDS LayoutFS
Sc(start, kind, t, o, gc) == [start |-> start, kind |-> kind, t |-> t, o |-> o, gc |-> gc, f |-> NoF]
\* a history of two operations: the first is interrupted, then fk (import / copy) of image fo under tag ft
ScF(start, kind, t, o, gc, fk, ft, fo) == [Sc(start, kind, t, o, gc) EXCEPT !.f = [kind |-> fk, t |-> ft, o |-> fo]]
FromEmpty == {Sc("E", "blob_put", "", "L3", FALSE), Sc("E", "blob_put", "", "L4", FALSE), Sc("E", "put_tag", "v1", "M1", FALSE),
              Sc("E", "put_digest", "", "M2", FALSE), Sc("E", "put_child", "", "M2", FALSE), Sc("E", "put_index", "ix", "IX", FALSE),
              Sc("E", "put_ref", "art", "A1", FALSE), Sc("E", "copy", "v1", "M1", TRUE), Sc("E", "copy", "ix", "IX", TRUE),
              Sc("E", "import", "v2", "M2", TRUE), Sc("E", "import", "v3", "M3", TRUE), Sc("E", "import", "ix", "IX", TRUE),
              Sc("E0", "blob_put", "", "L3", FALSE), Sc("E0", "put_tag", "v1", "M1", FALSE), Sc("E0", "copy", "v1", "M1", TRUE)}
OneTag == {Sc("P1", "blob_put", "", "L3", FALSE), Sc("P1", "blob_put", "", "L1", FALSE), Sc("P1", "put_tag", "v2", "M2", FALSE),
           Sc("P1", "put_tag", "v1", "M2", FALSE), Sc("P1", "put_tag", "v1", "M1", TRUE), Sc("P1", "put_digest", "", "M2", FALSE),
           Sc("P1", "put_child", "", "M2", FALSE), Sc("P1", "put_index", "ix", "IX", FALSE), Sc("P1", "put_ref", "art", "A1", FALSE),
           Sc("P1", "put_refd", "", "A1", FALSE), Sc("P1", "tag_delete", "v1", "", FALSE), Sc("P1", "tag_delete", "v1", "", TRUE),
           Sc("P1", "man_delete", "", "M1", FALSE), Sc("P1", "man_delete", "", "M1", TRUE), Sc("P1", "copy", "v2", "M2", TRUE),
           Sc("P1", "copy", "ix", "IX", TRUE), Sc("P1", "import", "v2", "M2", TRUE), Sc("P1", "import", "v3", "M3", TRUE)}
TwoTags == {Sc("P2", "put_tag", "v3", "M3", FALSE), Sc("P2", "put_tag", "v2", "M1", FALSE), Sc("P2", "tag_delete", "v2", "", FALSE),
            Sc("P2", "tag_delete", "v2", "", TRUE), Sc("P2", "man_delete", "", "M2", FALSE), Sc("P2", "man_delete", "", "M2", TRUE),
            Sc("P2", "put_ref", "art", "A1", TRUE), Sc("P2", "copy", "v3", "M3", TRUE), Sc("P2", "copy", "v1", "M2", TRUE),
            Sc("P2", "import", "ix", "IX", TRUE)}
WithIndex == {Sc("PX", "tag_delete", "ix", "", TRUE), Sc("PX", "man_delete", "", "IX", TRUE), Sc("PX", "put_tag", "v2", "M2", FALSE),
              Sc("PX", "copy", "v2", "M2", TRUE), Sc("PX", "tag_delete", "v1", "", TRUE)}
WithReferrers == {Sc("PR", "put_refd", "", "A2", FALSE), Sc("PR", "put_ref", "art2", "A2", TRUE), Sc("PR", "man_delete", "", "A1", FALSE),
                  Sc("PR", "man_delete", "", "A1", TRUE), Sc("PR", "tag_delete", "v1", "", TRUE), Sc("PR", "man_delete", "", "M1", FALSE),
                  Sc("PR2", "man_delete", "", "A1", FALSE), Sc("PR2", "man_delete", "", "A2", TRUE), Sc("PR2", "put_refd", "", "A1", FALSE)}
WithLeftovers == {Sc("PT", "put_tag", "v3", "M3", TRUE), Sc("PT", "tag_delete", "v2", "", TRUE), Sc("PT", "copy", "v3", "M3", TRUE),
                  Sc("PT", "blob_delete", "", "L4", FALSE)}
\* content that does not match its descriptor (o = the bytes sent), boundary sizes
BadContent == {Sc("P1", "blob_bad", "", "L2", FALSE), Sc("E", "blob_bad", "", "L4", FALSE), Sc("P1", "blob_bad", "", "L4", FALSE),
               Sc("E0", "blob_bad", "", "L3", FALSE), Sc("P2", "man_bad", "", "M2", FALSE)}
Boundaries == {Sc("P1", "blob_put", "", "L0", FALSE), Sc("E", "blob_put", "", "L0", FALSE), Sc("P1", "blob_put", "", "LK", FALSE),
               Sc("P1", "blob_put", "", "LK1", FALSE)}
\* shape of the stored content: a tag on a cache-export index (blob entries) and on a nested index
Shapes == {Sc("PB", "put_tag", "v2", "M2", TRUE), Sc("PB", "tag_delete", "v1", "", TRUE), Sc("PB", "man_delete", "", "IB", TRUE),
           Sc("PB", "blob_put", "", "L3", FALSE), Sc("PB", "tag_delete", "cache", "", TRUE), Sc("PB", "retag", "c2", "IB", TRUE),
           Sc("PB", "tag_delete", "nest", "", TRUE), Sc("E", "copy", "cache", "IB", TRUE), Sc("P1", "copy", "cache", "IB", TRUE),
           Sc("PB", "import", "v3", "M3", TRUE)}
\* histories: crash state of the first operation (deletes + GC, interrupted pushes), then import / copy of the image
Histories == {ScF("P2", "tag_delete", "v2", "", TRUE, "import", "v2", "M2"), ScF("P2", "tag_delete", "v2", "", TRUE, "copy", "v2", "M2"),
              ScF("P2", "man_delete", "", "M2", TRUE, "import", "v2", "M2"), ScF("P2", "man_delete", "", "M2", TRUE, "copy", "v2", "M2"),
              ScF("PX", "tag_delete", "ix", "", TRUE, "import", "ix", "IX"), ScF("PX", "man_delete", "", "IX", TRUE, "import", "ix", "IX"),
              ScF("P1", "put_tag", "v2", "M2", FALSE, "copy", "v2", "M2"), ScF("P1", "put_tag", "v2", "M2", FALSE, "import", "v2", "M2"),
              ScF("P1", "copy", "v2", "M2", TRUE, "import", "v2", "M2"), ScF("P1", "import", "v2", "M2", TRUE, "copy", "v2", "M2"),
              ScF("P2", "retag", "v2", "M1", TRUE, "import", "w", "M2")}
\* quick tier: one fault
FaultQ == {Sc("P1", "put_tag", "v2", "M1", FALSE), Sc("PX", "put_index", "ix2", "IX", FALSE), Sc("P1", "copy", "v2", "M1", TRUE),
           Sc("P2", "put_tag", "v2", "M1", FALSE), Sc("P2", "tag_delete", "v2", "", TRUE)}
\* copy of an index after a sweep that was killed between a child's blob and the child's manifest: the child is
\* skipped because its manifest file exists (findings/C07-3.md) - counterexample of FollowOK / CrashStateOK expected
GcThenCopy == {ScF("PX", "man_delete", "", "IX", TRUE, "copy", "ix", "IX"), ScF("PX", "tag_delete", "ix", "", TRUE, "copy", "ix", "IX")}
Retags == {Sc("P2", "retag", "v3", "M1", FALSE), Sc("P2", "retag", "v2", "M1", TRUE)}
\* the digest being written is already in the layout under another tag (second tag, copy / import of an image that is
\* there, an index whose children are there, a child shared with an index)
Shared == {Sc("P1", "put_tag", "v2", "M1", FALSE), Sc("PX", "put_index", "ix2", "IX", FALSE), Sc("P1", "copy", "v2", "M1", TRUE),
           Sc("P1", "import", "v2", "M1", TRUE), Sc("PX", "put_child", "", "M1", FALSE)}
\* interruption without death, up to two faults: the copies (goroutines: a cancelled context fails several blob
\* tasks), the pushes onto shared digests, deletes with GC (the sweep after a failed index write)
FaultSet == Shared \cup {Sc("E", "copy", "v1", "M1", TRUE), Sc("P1", "copy", "v2", "M2", TRUE), Sc("P2", "copy", "v1", "M2", TRUE),
                         Sc("P2", "put_tag", "v2", "M1", FALSE), Sc("P1", "put_tag", "v1", "M1", TRUE), Sc("P2", "tag_delete", "v2", "", TRUE),
                         Sc("P2", "man_delete", "", "M2", TRUE), Sc("P1", "import", "v2", "M2", TRUE), Sc("PR", "man_delete", "", "A1", TRUE),
                         Sc("P1", "put_ref", "art", "A1", FALSE), Sc("PB", "retag", "c2", "IB", TRUE)}
\* image copy with referrers: kept apart, its interrupted form is not repaired by a repetition (findings/C07-2.md)
RefCopy == {Sc("E", "copy_ref", "v1", "M1", TRUE), Sc("P1", "copy_ref", "v1", "M1", TRUE)}
RefCopyQ == {Sc("P1", "copy_ref", "v1", "M1", TRUE)}
Main == FromEmpty \cup OneTag \cup TwoTags \cup WithIndex \cup WithReferrers \cup WithLeftovers \cup Retags \cup BadContent \cup Boundaries
        \cup Shapes \cup Shared
Populated == (OneTag \cup TwoTags \cup WithIndex \cup WithReferrers \cup WithLeftovers \cup Retags \cup BadContent \cup Boundaries
             \cup Shapes) \ {s \in BadContent \cup Boundaries \cup Shapes : s.start \in {"E", "E0"}}
All == Main \cup RefCopy
IxCopy == {Sc("E", "copy", "ix", "IX", TRUE), Sc("P1", "copy", "ix", "IX", TRUE), Sc("E", "copy", "nest", "IN", TRUE)}
\* quick tier: without the two scenarios that copy a two-image index from scratch with one goroutine per blob
Quick == Main \ {Sc("E", "copy", "ix", "IX", TRUE), Sc("P1", "copy", "ix", "IX", TRUE)}
=============================================================================

------------------------------- MODULE CheckBase -------------------------------
(***************************************************************************)
(* X06 - (D) design spec: the decision procedure of                        *)
(* regclient.ImageCheckBase (/repo/image.go) transcribed branch by branch  *)
(* over an abstract world of two small image graphs.  One action per       *)
(* branch group of the code:                                               *)
(*   AOpts      option functions applied to a fresh imageOpt               *)
(*              (ImageWithCheckBaseRef / Digest / SkipConfig / Platform;   *)
(*              in the recursive call: opts + ImageWithPlatform(d.Platform))*)
(*   AAnnot     `if opt.checkBaseRef == ""`: rc.ManifestGet(r), Annotator, *)
(*              GetAnnotations, base.name / base.digest lookup (the digest *)
(*              annotation overrides the option)                           *)
(*   AParseRef  ref.New(opt.checkBaseRef)                                  *)
(*   ADigest    `if opt.checkBaseDigest != ""`: rc.ManifestHead(baseR,      *)
(*              RequireDigest), digest.Parse, comparison -> nil / mismatch *)
(*   AGetImg    `if m == nil`: rc.ManifestGet(r)                           *)
(*   APlatImg   `if m.IsList() && opt.platform != ""`: platform.Parse,     *)
(*              manifest.GetPlatformDesc, rc.ManifestGet(r@digest)         *)
(*   AIsList    `if m.IsList()`: loop over GetManifestList, recursive call *)
(*              per entry (d.Platform.String() on a nil platform panics)   *)
(*   ARetNext   return of a recursive call with nil: next entry / nil      *)
(*   AGetBase   rc.ManifestGet(baseR)                                      *)
(*   APlatBase  `if baseM.IsList() && opt.platform != ""`: GetPlatformDesc,*)
(*              rc.ManifestGet(baseR, WithManifestDesc); else the Imager    *)
(*              type assertion ("base image manifest must be an image")    *)
(*   ACmpLayers `len(baseLayers) <= 0`, the layer loop (Descriptor.Same)   *)
(*   ACfgImg / ACfgBase   rc.BlobGetOCIConfig of image / base              *)
(*   ACmpHist   the history loop (five fields; Created dereferenced)       *)
(* and Fail(..) for every error return.  Environment: w.fault names one    *)
(* resource class whose every request the registry refuses.                *)
(* Deliberate deviations: platform matching is exact string equality (no   *)
(* variant compatibility: C16 covers types/platform); one base reference;  *)
(* nested indexes, docker schema1/2 media types (no annotations), the      *)
(* warning/slog side effects and rc.Close are not modelled; Descriptor.Same*)
(* is digest equality (sizes and media types follow the digest here).      *)
(* Switches: FewerIsMismatch / NilCreatedSafe / NilPlatformSafe = FALSE is *)
(* the code as found (findings X06-1..3), TRUE the repaired behaviour;     *)
(* Mut = "" or the name of a design mutant (model sanity).                 *)
(***************************************************************************)
EXTENDS CheckBaseMeaning

CONSTANTS FewerIsMismatch, NilCreatedSafe, NilPlatformSafe, Mut, Level

VARIABLES w, pc, cur, lo, ms, mi, bi, reqs, refd, res
vars == <<w, pc, cur, lo, ms, mi, bi, reqs, refd, res>>

-----------------------------------------------------------------------------
\* the abstract world
P1 == "linux/amd64"
P2 == "linux/arm64"
P3 == "linux/s390x"
H(id)  == [id |-> id, e |-> 0, nc |-> 0]
HE(id) == [id |-> id, e |-> 1, nc |-> 0]
HN(id) == [id |-> id, e |-> 0, nc |-> 1]
Man(l, h) == [layers |-> l, hist |-> h]

BShape(n) ==
  CASE n = "b1"  -> Man(<<"a">>, <<H("x")>>)
    [] n = "b2"  -> Man(<<"a", "b">>, <<H("x"), HE("e"), H("y")>>)
    [] n = "b0"  -> Man(<<>>, <<HE("e")>>)                        \* no layers at all
    [] n = "b3"  -> Man(<<"c">>, <<H("x")>>)                      \* rebuilt: other layer, same steps
    [] n = "b4"  -> Man(<<"a">>, <<H("x2")>>)                     \* same layers, other history
    [] n = "b5"  -> Man(<<"a">>, <<H("x"), HE("e")>>)             \* same layers, one more (empty) step
    [] n = "b6"  -> Man(<<"a", "b">>, <<H("x"), H("e"), H("y")>>) \* differs from b2 in empty_layer only
    [] n = "b7"  -> Man(<<"a">>, <<HN("x")>>)                     \* history entry without `created`
    [] n = "b8"  -> Man(<<"a", "d", "f">>, <<H("x"), H("z"), H("q")>>) \* image is a proper prefix of it
IShape(n) ==
  CASE n = "i1"  -> Man(<<"a", "d">>, <<H("x"), H("z")>>)
    [] n = "i2"  -> Man(<<"a", "b", "d">>, <<H("x"), HE("e"), H("y"), H("z")>>)
    [] n = "i3"  -> Man(<<"a">>, <<H("x")>>)                      \* the base itself, retagged
    [] n = "i4"  -> Man(<<"a", "d">>, <<H("x"), HE("e"), H("z")>>)
    [] n = "i5"  -> Man(<<"d", "a">>, <<H("z"), H("x")>>)         \* base layers present but not first
    [] n = "i7"  -> Man(<<"a", "d">>, <<HN("x"), H("z")>>)        \* history entry without `created`
    [] n = "i8"  -> Man(<<"a", "d">>, <<H("x")>>)                 \* squashed history

Ent(p, a, m) == [plat |-> p, ann |-> a, layers |-> m.layers, hist |-> m.hist]
ISingle(s, a) == [kind |-> "single", ann |-> a, ents |-> <<Ent("", a, IShape(s))>>]
IIndex(a, ca, s1, s2) == [kind |-> "index", ann |-> a, ents |-> <<Ent(P1, ca, IShape(s1)), Ent(P2, ca, IShape(s2))>>]
INoPlat(a, ca) == [kind |-> "index", ann |-> a, ents |-> <<Ent(P1, ca, IShape("i1")), Ent("", ca, IShape("i1"))>>]
Missing == [kind |-> "missing", ann |-> "none", ents |-> <<>>]
BSingle(s) == [kind |-> "single", ann |-> "none", ents |-> <<Ent("", "none", BShape(s))>>]
BIndex(s1, s2) == [kind |-> "index", ann |-> "none", ents |-> <<Ent(P1, "none", BShape(s1)), Ent(P2, "none", BShape(s2))>>]
BIndex1(s1) == [kind |-> "index", ann |-> "none", ents |-> <<Ent(P1, "none", BShape(s1))>>]

\* Level 0 (model sanity) / 1 (quick) / 2 (thorough): the pools the worlds are drawn from
ISingles == CASE Level = 0 -> {"i1", "i3", "i7"} [] Level = 1 -> {"i1", "i2", "i3", "i7"}
              [] OTHER -> {"i1", "i2", "i3", "i4", "i5", "i7", "i8"}
IPairs == CASE Level = 0 -> {<<"i1", "i2">>} [] Level = 1 -> {<<"i1", "i1">>, <<"i1", "i2">>}
            [] OTHER -> {<<"i1", "i1">>, <<"i1", "i2">>, <<"i2", "i1">>, <<"i3", "i4">>, <<"i7", "i1">>}
BSingles == CASE Level = 0 -> {"b1", "b3", "b4", "b8"} [] Level = 1 -> {"b1", "b2", "b3", "b4", "b5", "b8", "b0"}
              [] OTHER -> {"b1", "b2", "b0", "b3", "b4", "b5", "b6", "b7", "b8"}
BPairs == CASE Level = 0 -> {<<"b3", "b1">>} [] Level = 1 -> {<<"b1", "b1">>, <<"b3", "b1">>, <<"b1", "b3">>}
            [] OTHER -> {<<"b1", "b1">>, <<"b3", "b1">>, <<"b1", "b3">>, <<"b2", "b1">>, <<"b1", "b8">>, <<"b4", "b1">>}
Anns == CASE Level = 0 -> {"none", "name"} [] Level = 1 -> {"none", "name", "cur", "old"}
          [] OTHER -> {"none", "name", "cur", "old", "baddig", "badname"}
CAnns == CASE Level = 0 -> {"name"} [] Level = 1 -> {"none", "name"} [] OTHER -> {"none", "name", "cur", "old"}
Digs == CASE Level = 0 -> {""} [] Level = 1 -> {"", "cur", "old"} [] OTHER -> {"", "cur", "old", "baddig"}
Plats == {"", P1, P2, P3}
Faults == {"none", "img", "imgc", "base", "basec", "icfg", "bcfg"}

ImgGraphs == {ISingle(s, a) : s \in ISingles, a \in Anns}
             \cup {IIndex(a, ca, p[1], p[2]) : p \in IPairs, a \in Anns, ca \in CAnns}
             \cup {INoPlat(a, ca) : a \in {"none", "name"}, ca \in {"name"}}
             \cup {Missing}
BaseGraphs == {BSingle(s) : s \in BSingles} \cup {BIndex(p[1], p[2]) : p \in BPairs}
              \cup {BIndex1("b1"), Missing}
Opts == [ref : {0, 1}, dig : Digs, skip : {0, 1}, plat : Plats]
\* refusals are combined with the layer / history route and one digest route only
FaultOk(o, f) == f = "none" \/ (o.skip = 0 /\ o.dig \in {"", "cur"})
Worlds == {x \in [opt : Opts, img : ImgGraphs, base : BaseGraphs, fault : Faults] : FaultOk(x.opt, x.fault)}

-----------------------------------------------------------------------------
\* helpers
img == w.img
base == w.base
Refused(k) == w.fault = k
Req(r) == reqs' = Append(reqs, r)
\* an error return (of the call itself or, wrapped with %w, of the recursive call in the loop)
Fail(r) == res' = r /\ pc' = "done"
\* `return nil`: of a recursive call -> back in the loop of the caller; else the result
RetNil == IF cur > 0 THEN pc' = "retnext" /\ res' = res ELSE res' = "nil" /\ pc' = "done"
PlatIdx(g, p) == IF Mut = "ignoreplatform" THEN {1} ELSE {k \in DOMAIN g.ents : g.ents[k].plat = p}
ImgNode == IF cur = 0 THEN "img" ELSE "imgc:" \o img.ents[cur].plat
ImgFaultKey == IF cur = 0 THEN "img" ELSE "imgc"

Init == /\ w \in Worlds
        /\ pc = "opts" /\ cur = 0
        /\ lo = [name |-> "", dig |-> "", skip |-> 0, plat |-> ""]
        /\ ms = "nil" /\ mi = 0 /\ bi = 0 /\ reqs = <<>> /\ refd = FALSE /\ res = ""

AOpts ==
  /\ pc = "opts"
  /\ lo' = [name |-> IF w.opt.ref = 1 THEN "ok" ELSE "", dig |-> w.opt.dig, skip |-> w.opt.skip,
            plat |-> IF cur = 0 THEN w.opt.plat ELSE img.ents[cur].plat]
  /\ ms' = "nil" /\ mi' = 0 /\ bi' = 0
  /\ pc' = IF w.opt.ref = 1 THEN "parseref" ELSE "annot"
  /\ UNCHANGED <<w, cur, reqs, refd, res>>

\* loading the manifest r names: the top reference, or in a recursive call the entry by digest
LoadImg(next) ==
  /\ Req("GET " \o ImgNode)
  /\ IF Refused(ImgFaultKey) THEN refd' = TRUE /\ Fail("err") /\ UNCHANGED <<ms, mi>>
     ELSE /\ refd' = refd
          /\ IF img.kind = "missing" THEN Fail("err") /\ UNCHANGED <<ms, mi>>
             ELSE /\ ms' = IF cur = 0 /\ img.kind = "index" THEN "list" ELSE "img"
                  /\ mi' = IF cur > 0 THEN cur ELSE IF img.kind = "single" THEN 1 ELSE 0
                  /\ next

AAnnot ==
  /\ pc = "annot"
  /\ LET a == IF cur = 0 THEN img.ann ELSE img.ents[cur].ann
         got == ~Refused(ImgFaultKey) /\ img.kind # "missing"
     IN /\ LoadImg(IF a = "none" THEN Fail("err") ELSE pc' = "parseref" /\ res' = res)
        /\ lo' = IF got /\ a # "none"
                 THEN [lo EXCEPT !.name = IF a = "badname" THEN "bad" ELSE "ok",
                                 !.dig = IF a \in {"cur", "old", "baddig"} THEN a ELSE lo.dig]
                 ELSE lo
  /\ UNCHANGED <<w, cur, bi>>

AParseRef ==
  /\ pc = "parseref"
  /\ IF lo.name = "bad" THEN Fail("err")
     ELSE pc' = (IF lo.dig # "" THEN "digest" ELSE "getimg") /\ res' = res
  /\ UNCHANGED <<w, cur, lo, ms, mi, bi, reqs, refd>>

ADigest ==
  /\ pc = "digest"
  /\ Req("HEAD base")
  /\ IF Refused("base") THEN refd' = TRUE /\ Fail("err")
     ELSE /\ refd' = refd
          /\ IF base.kind = "missing" \/ lo.dig = "baddig" THEN Fail("err")
             ELSE IF lo.dig = "cur" THEN RetNil
             ELSE Fail("mismatch")
  /\ UNCHANGED <<w, cur, lo, ms, mi, bi>>

AGetImg ==
  /\ pc = "getimg"
  /\ IF ms = "nil" THEN LoadImg(pc' = "platimg" /\ res' = res)
     ELSE pc' = "platimg" /\ UNCHANGED <<ms, mi, reqs, refd, res>>
  /\ UNCHANGED <<w, cur, lo, bi>>

APlatImg ==
  /\ pc = "platimg"
  /\ IF ms = "list" /\ lo.plat # ""
     THEN LET es == PlatIdx(img, lo.plat) IN
          IF es = {} THEN Fail("err") /\ UNCHANGED <<ms, mi, reqs, refd>>
          ELSE LET k == CHOOSE k \in es : TRUE IN
               /\ Req("GET imgc:" \o img.ents[k].plat)
               /\ IF Refused("imgc") THEN refd' = TRUE /\ Fail("err") /\ UNCHANGED <<ms, mi>>
                  ELSE refd' = refd /\ ms' = "img" /\ mi' = k /\ pc' = "islist" /\ res' = res
     ELSE pc' = "islist" /\ UNCHANGED <<ms, mi, reqs, refd, res>>
  /\ UNCHANGED <<w, cur, lo, bi>>

\* entering the recursive call for entry k (or the panic of d.Platform.String() on a nil platform)
Enter(k) == IF img.ents[k].plat = "" /\ ~NilPlatformSafe
            THEN Fail("panic") /\ cur' = cur
            ELSE cur' = k /\ pc' = "opts" /\ res' = res

AIsList ==
  /\ pc = "islist"
  /\ IF ms = "list" THEN Enter(1) ELSE pc' = "getbase" /\ UNCHANGED <<cur, res>>
  /\ UNCHANGED <<w, lo, ms, mi, bi, reqs, refd>>

ARetNext ==
  /\ pc = "retnext"
  /\ IF cur < Len(img.ents) THEN Enter(cur + 1) ELSE res' = "nil" /\ pc' = "done" /\ cur' = cur
  /\ UNCHANGED <<w, lo, ms, mi, bi, reqs, refd>>

AGetBase ==
  /\ pc = "getbase"
  /\ Req("GET base")
  /\ IF Refused("base") THEN refd' = TRUE /\ Fail("err")
     ELSE /\ refd' = refd
          /\ IF base.kind = "missing" THEN Fail("err") ELSE pc' = "platbase" /\ res' = res
  /\ UNCHANGED <<w, cur, lo, ms, mi, bi>>

APlatBase ==
  /\ pc = "platbase"
  /\ IF base.kind = "index" /\ lo.plat # ""
     THEN LET es == PlatIdx(base, lo.plat) IN
          IF es = {} THEN Fail("err") /\ UNCHANGED <<bi, reqs, refd>>
          ELSE LET k == CHOOSE k \in es : TRUE IN
               /\ Req("GET basec:" \o base.ents[k].plat)
               /\ IF Refused("basec") THEN refd' = TRUE /\ Fail("err") /\ bi' = bi
                  ELSE refd' = refd /\ bi' = k /\ pc' = "cmplayers" /\ res' = res
     ELSE IF base.kind = "index" THEN Fail("err") /\ UNCHANGED <<bi, reqs, refd>>   \* not an Imager
     ELSE bi' = 1 /\ pc' = "cmplayers" /\ UNCHANGED <<reqs, refd, res>>
  /\ UNCHANGED <<w, cur, lo, ms, mi>>

\* the layer loop: first index at which the loop body returns
ACmpLayers ==
  /\ pc = "cmplayers"
  /\ LET bl == base.ents[bi].layers
         il == img.ents[mi].layers
         stop == {i \in 1..Len(bl) : i > Len(il) \/ il[i] # bl[i]}
         first == CHOOSE i \in stop : \A j \in stop : i <= j
         good == CASE Mut = "lengthonly" -> Len(bl) <= Len(il)
                   [] Mut = "prefixreversed" -> IsPre(il, bl)
                   [] OTHER -> stop = {}
     IN IF Len(bl) = 0 THEN Fail("err")
        ELSE IF good THEN (IF lo.skip = 1 THEN RetNil ELSE pc' = "cfgimg" /\ res' = res)
        ELSE IF Mut = "" /\ first > Len(il) THEN Fail(IF FewerIsMismatch THEN "mismatch" ELSE "err")
        ELSE Fail("mismatch")
  /\ UNCHANGED <<w, cur, lo, ms, mi, bi, reqs, refd>>

ACfgImg ==
  /\ pc = "cfgimg"
  /\ Req("GET icfg")
  /\ IF Refused("icfg") THEN refd' = TRUE /\ Fail("err") ELSE refd' = refd /\ pc' = "cfgbase" /\ res' = res
  /\ UNCHANGED <<w, cur, lo, ms, mi, bi>>

ACfgBase ==
  /\ pc = "cfgbase"
  /\ Req("GET bcfg")
  /\ IF Refused("bcfg") THEN refd' = TRUE /\ Fail("err") ELSE refd' = refd /\ pc' = "cmphist" /\ res' = res
  /\ UNCHANGED <<w, cur, lo, ms, mi, bi>>

\* the history loop: i >= len -> plain error; the field comparison dereferences both Created pointers
ACmpHist ==
  /\ pc = "cmphist"
  /\ LET bh == base.ents[bi].hist
         ih == img.ents[mi].hist
         stop == {i \in 1..Len(bh) : i > Len(ih) \/ ih[i] # bh[i] \/ (~NilCreatedSafe /\ (ih[i].nc = 1 \/ bh[i].nc = 1))}
         first == CHOOSE i \in stop : \A j \in stop : i <= j
     IN IF stop = {} \/ Mut = "nohistory" THEN RetNil
        ELSE IF first > Len(ih) THEN Fail(IF FewerIsMismatch THEN "mismatch" ELSE "err")
        ELSE IF ~NilCreatedSafe /\ (ih[first].nc = 1 \/ bh[first].nc = 1) THEN Fail("panic")
        ELSE Fail("mismatch")
  /\ UNCHANGED <<w, cur, lo, ms, mi, bi, reqs, refd>>

Next == AOpts \/ AAnnot \/ AParseRef \/ ADigest \/ AGetImg \/ APlatImg \/ AIsList \/ ARetNext
        \/ AGetBase \/ APlatBase \/ ACmpLayers \/ ACfgImg \/ ACfgBase \/ ACmpHist
Spec == Init /\ [][Next]_vars

-----------------------------------------------------------------------------
\* the transcription agrees with the meaning on every world: checked when a call has finished
Wrote == FALSE       \* every request of the design is a GET or a HEAD
PWorld == [opt |-> w.opt, img |-> w.img, base |-> w.base]
Verdict == Judge(PWorld, refd, Wrote, 0, res)
Holds == pc = "done" => Verdict = ""
TypeOk == /\ pc \in {"opts", "annot", "parseref", "digest", "getimg", "platimg", "islist", "retnext", "getbase",
                     "platbase", "cmplayers", "cfgimg", "cfgbase", "cmphist", "done"}
          /\ res \in {"", "nil", "mismatch", "err", "panic"}
          /\ (pc = "done") = (res # "")
          /\ Len(reqs) <= 12
\* a refusal is only ever reported as an error
RefusedIsErr == (pc = "done" /\ refd) => res = "err"
=============================================================================

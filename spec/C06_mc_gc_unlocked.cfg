CONSTANTS
 Tags = {"t1", "t2"}
 Mans = {"m1", "m2"}
 TagOrder <- MCTagOrder
 Procs = {"p1", "p2"}
 Confs <- GcUnlocked
 MaxOps = 1
 OpTags = {"t1", "t2"}
 OpMans = {"m1", "m2"}
 OpKinds <- GcRaceKinds
 UseMutex = TRUE
 FreshPH = TRUE
SPECIFICATION Spec
INVARIANTS NoViol Glue Quiescent LayoutGlue WellFormed CacheCoherent GetStable HeadStable
CHECK_DEADLOCK FALSE

CONSTANTS
 Procs = {"p1", "p2", "p3"}
 Queues = {"q1", "q2", "q3"}
 MaxMax = 1
 MultiLens = {3}
 Confs <- AllConfs
INIT Init
NEXT Next
INVARIANTS Bound NoOrphan QueuedWait FailedClean QuiescentNoWaiters NoIdleSlotWhileWaiting

---------------------------- MODULE ConfFileTrace ----------------------------
(***************************************************************************)
(* Trace spec of area X02: replays the ndjson facts recorded around the    *)
(* real regclient (strace of regctl / harness/cmd/x02drv + prefix replayer *)
(* + independent parser + fresh-reader probes, tools/props/x02.py) through *)
(* the monitor ConfFileProp.  Mirrors no code.                             *)
(* Deviation from the skeleton in CONVENTIONS.md (same as LayoutFSTrace):  *)
(* every trace of the batch is its own behaviour (one initial state per    *)
(* "reset" line), `bad` is not latched and TLC runs with -continue, so     *)
(* EVERY violating observation of EVERY trace is reported.  All monitor    *)
(* actions are total: a trace is accepted when its "done" line was         *)
(* consumed (printed as DONE) and no invariant violation names it.         *)
(***************************************************************************)
EXTENDS ConfFileProp, Json, IOUtils
Log == ndJsonDeserialize(IOEnv.VERIF_TRACE)
VARIABLE l          \* next line to consume
Ev == Log[l]
Starts == {i \in 1..Len(Log) : Log[i].ev = "reset"}
TInit == PInit /\ l \in Starts
TNext ==
  /\ l <= Len(Log)
  /\ (Ev.ev = "reset") => mode = ""             \* a behaviour stops at the next trace's header
  /\ l' = l + 1
  /\ \/ Ev.ev = "reset" /\ PReset(Ev)
     \/ Ev.ev = "cmd" /\ PCmd(Ev)
     \/ Ev.ev = "sys" /\ PSys(Ev)
     \/ Ev.ev = "end" /\ PEnd(Ev)
     \/ Ev.ev = "raceend" /\ PRaceEnd(Ev)
     \/ Ev.ev = "fresh" /\ PFresh(Ev)
     \/ Ev.ev = "retry" /\ PRetry(Ev)
     \/ Ev.ev = "done" /\ PrintT(<<"DONE", Ev.trace>>) /\ bad' = <<>>
                       /\ UNCHANGED <<id, mode, rdok, pv, news, last, cur, bases, cmds, okn, k>>
     \/ Ev.ev \notin {"reset", "cmd", "sys", "end", "raceend", "fresh", "retry", "done"} /\ PUnknown
TSpec == TInit /\ [][TNext]_<<pvars, l>>
=============================================================================

CONSTANTS
 B = 3
 C = 2
 UL = 2
 Guard = TRUE
 MaxLen = 3
INIT GInit
NEXT GNext
INVARIANTS Emit
CHECK_DEADLOCK FALSE

\* as-found switch, crash inside the marker window, only O6: RetryOK counterexample EXPECTED (tags lost by the retry; not part of the runs, kept for findings/C07-1.md)
CONSTANTS
 Scenarios <- Populated
 MaxCrash = 1
 MarkerMode = "rewrite"
 MarkerWindow = TRUE
 MaxFault = 0
INIT Init
NEXT Next
INVARIANTS RetryOK
CHECK_DEADLOCK FALSE

SPECIFICATION Spec
CONSTANTS
 FewerIsMismatch = TRUE
 NilCreatedSafe = TRUE
 NilPlatformSafe = FALSE
 Mut = ""
 Level = 0
INVARIANTS Holds
CHECK_DEADLOCK FALSE

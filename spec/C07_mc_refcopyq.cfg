CONSTANTS
 Scenarios <- RefCopyQ
 MaxCrash = 1
 MarkerMode = "rewrite"
 MarkerWindow = FALSE
INIT Init
NEXT Next
INVARIANTS TypeOK NoStuck CrashStateOK ReturnOK RetryOK
CHECK_DEADLOCK FALSE

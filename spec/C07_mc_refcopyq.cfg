\* baseline, image copy with referrers: RetryOK counterexample EXPECTED (known finding C07-referrer-copy-retry)
CONSTANTS
 Scenarios <- RefCopyQ
 MaxCrash = 1
 MarkerMode = "ifbad"
 MarkerWindow = TRUE
 MaxFault = 0
INIT Init
NEXT Next
INVARIANTS TypeOK NoStuck CrashStateOK ReturnOK RetryOK
CHECK_DEADLOCK FALSE

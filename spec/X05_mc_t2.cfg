INIT MCInit
NEXT MCNext
INVARIANTS Ok MutexSane
CONSTRAINT Bounded
CHECK_DEADLOCK FALSE
CONSTANTS
 Hosts <- H2
 CredOf <- CredID
 Reqs <- ReqsH2
 NProcs = 1
 NCalls = 3
 RegMoods <- MoodsAll
 TokKinds <- KindsAll
 Budget = 2
 RetryLimit = 5
 MaxTok = 8
 Fix <- AllFix
 Mut = {}

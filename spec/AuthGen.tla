------------------------------- MODULE AuthGen -------------------------------
(* Scenario generator for C11: every finished behaviour of Auth.tla is       *)
(* printed once as a JSON scenario (configuration, the replies the servers   *)
(* chose = the script replayed by harness/cmd/c11drv, the predicted messages *)
(* and the predicted result).  Run without VIEW (histories are part of the   *)
(* state) either exhaustively (small MaxFaults) or with -simulate.           *)
EXTENDS AuthMC, Json
Emit == Terminated =>
  PrintT(<<"SCN", ToJson([conf |-> cf, script |-> script, wire |-> wire,
                          res |-> IF pc = 0 THEN "fail" ELSE "ok"])>>)
=============================================================================

----------------------------- MODULE BlobPutMC -----------------------------
(* Configuration spaces for model checking spec/BlobPut.tla (C05).  A       *)
(* configuration fixes the input (length, declared descriptor, seekable),   *)
(* the client settings (BlobChunk, BlobMax) and what kind of destination it *)
(* is (location style, minimum chunk length, what already exists under the  *)
(* declared digest, which liberties the server may take).  part / early /   *)
(* refuse are permissions: the server may, but need not, use them.          *)
(* A destination that enforces its minimum chunk length never accepts a     *)
(* chunk partially and never keeps part of a request it fails (part =       *)
(* ~enforce) except in S13Confs.                                            *)
EXTENDS BlobPut

Decls == {"none", "right", "wrongdig", "sizeplus", "sizeminus", "digonly", "sizeonly",
          "sizeonlyplus", "sizeonlyminus", "prefix", "baddig"}
Minus == {"sizeminus", "sizeonlyminus", "prefix"}          \* declared size = length - 1, kept > 0
NoDigest == {"none", "sizeonly", "sizeonlyplus", "sizeonlyminus", "baddig"}   \* nothing can exist under it
MinsQ == {<<0, FALSE>>, <<2, FALSE>>, <<2, TRUE>>}
MinsT == {<<0, FALSE>>, <<2, FALSE>>, <<2, TRUE>>, <<3, FALSE>>, <<3, TRUE>>}

Reg(lens, chunks, bmaxs, mins, seeks, decls, exs, locs) ==
  {c \in {[dest |-> "reg", len |-> l, chunk |-> ch, bmax |-> b, min |-> m[1], enforce |-> m[2], part |-> ~m[2],
           early |-> TRUE, refuse |-> TRUE, seek |-> s, decl |-> d, exists |-> e, loc |-> lo] :
            l \in lens, ch \in chunks, b \in bmaxs, m \in mins, s \in seeks, d \in decls, e \in exs, lo \in locs} :
     (c.decl \in Minus => c.len >= 2) /\ (c.decl \in NoDigest => c.exists = "else")}

Oci(lens, decls) ==
  {c \in {[dest |-> "ocidir", len |-> l, chunk |-> 1, bmax |-> -1, min |-> 0, enforce |-> FALSE, part |-> FALSE,
           early |-> FALSE, refuse |-> FALSE, seek |-> FALSE, decl |-> d, exists |-> e, loc |-> "plain"] :
            l \in lens, d \in decls, e \in {"none", "repo"}} :
     (c.decl \in Minus => c.len >= 2) /\ (c.decl \in NoDigest => c.exists = "none")}

QuickConfs == Reg(0..4, 1..3, {-1, 2}, {<<0, FALSE>>, <<2, TRUE>>}, BOOLEAN, Decls, {"else", "repo"}, {"query"})
              \cup Oci(0..3, Decls)
\* thorough tier, three cuts through the space: all lengths / settings / descriptors with partial
\* acceptances but no faults (ThoroughConfs), the same up to length 6 with one fault
\* (Thorough1Confs), and two faults on a smaller space (FaultConfs)
ThoroughConfs == Reg(0..7, 1..3, {-1, 2, 4}, MinsT, BOOLEAN, Decls, {"else", "repo"}, {"query"})
                 \cup Oci(0..4, Decls)
Thorough1Confs == Reg(0..5, 1..3, {-1, 2, 4}, MinsT, BOOLEAN, Decls, {"else", "repo"}, {"query"})
FaultConfs == Reg(0..5, 1..3, {-1, 2}, {<<0, FALSE>>, <<2, TRUE>>}, BOOLEAN, {"none", "right", "wrongdig", "sizeplus"},
                  {"else"}, {"query"})
\* liveness (termination) on a smaller space
LiveConfs == Reg(0..4, 1..3, {-1, 2}, {<<0, FALSE>>, <<2, TRUE>>}, {TRUE}, {"none", "right", "wrongdig"}, {"else"}, {"query"})
\* S13: a destination that enforces its minimum and nevertheless accepts partially
S13Confs == {[c EXCEPT !.part = TRUE] : c \in Reg(0..6, {3}, {-1}, {<<2, TRUE>>}, {TRUE}, {"none"}, {"else"}, {"query"})}
\* a declared digest that does not validate is ignored (finding C05-2)
BadDigConfs == Reg({2}, {1}, {-1}, {<<0, FALSE>>}, {TRUE}, {"baddig"}, {"else"}, {"query"}) \cup Oci({2}, {"baddig"})
\* the refused single request upload left the whole blob in the session (finding C05-3)
KeptAllConfs == Reg({3}, {2}, {-1}, {<<0, FALSE>>}, {TRUE}, {"right"}, {"else"}, {"query"})
\* the anonymous mount short cut with a descriptor the stream does not match
MountConfs == Reg({2}, {1}, {-1}, {<<0, FALSE>>}, {TRUE}, {"wrongdig", "sizeplus"}, {"else", "repo"}, {"query"})
=============================================================================

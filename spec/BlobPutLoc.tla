----------------------------- MODULE BlobPutLoc -----------------------------
(***************************************************************************)
(* (D) for the URLs of one upload session (C05): where the next request of *)
(* the session goes when the destination redirects requests and names the  *)
(* session by URI references.                                              *)
(*                                                                         *)
(* Mirrors (file:function per action)                                      *)
(*   Send     scheme/reg/blob.go: blobMount / blobGetUploadURL (POST),     *)
(*            blobPutUploadChunked (PATCH with DirectURL = chunkURL,       *)
(*            closing PUT), blobUploadStatus (GET)                         *)
(*   Hop      net/http Client.Do: a 307 / 308 reply is followed with the   *)
(*            same method and body (reghttp sets GetBody); the redirect's  *)
(*            Location is resolved against the URL that was redirected;    *)
(*            resp.Request.URL is the URL of the last hop                  *)
(*   Answer   the destination (front door or upload node) serves the       *)
(*            request and names the session for the next one: Location =   *)
(*            URI reference in one of the forms of RFC 3986 section 4.2    *)
(*   Resolve  blob.go: postURL.Parse(location) with postURL =              *)
(*            resp.Request.URL (POST), prevURL.Parse(location) with        *)
(*            prevURL = httpResp.Request.URL (PATCH / status GET)          *)
(*                                                                         *)
(* A URL is [h, p, q]: host, path as a sequence of segments, query (the    *)
(* token of the session when the destination keeps it there).  The front   *)
(* door speaks the API paths (v2 / uploads / <id> [/ t<n>]); the upload    *)
(* node has its own path space of another depth (node / <id> / s [/ t<n>]) *)
(* on another host or on the same host, or the same paths on another host. *)
(* Every token of the session has these two names, nothing else reaches    *)
(* the session (404).                                                      *)
(*                                                                         *)
(* Deliberate deviations: the scheme, escaping and the spelling of the     *)
(* query are left to the harness (c05drv: qshape, TLS); dot segments are   *)
(* modelled by the form "dots", which names the same target as "rel"       *)
(* through the parent directory; one session, NReq requests after the      *)
(* POST; no faults (see BlobPut.tla for those).                            *)
(*                                                                         *)
(* Base = "answered" is the code; Base = "requested" (resolve against the  *)
(* URL the client asked for) is kept as the expected counterexample        *)
(* spec/C05_mc_known_locbase.cfg: it differs exactly when a redirect and a *)
(* reference without a host come together.                                 *)
(***************************************************************************)
EXTENDS Integers, Sequences, TLC

CONSTANTS Base,   \* "answered" | "requested"
          NReq    \* requests of the session after the POST

Targets == {"host", "path", "hostsame"}
Forms   == {"url", "path", "rel", "dots", "net"}
Spaces  == {"node", "front"}
Styles  == {"query", "move"}          \* token in the query / in a path segment that moves

VARIABLES cfg,      \* [to, form, space, style, redir]: redir = set of request indices 0..NReq the front door redirects
          tok,      \* token the session is at
          n,        \* index of the request being sent (0 = POST)
          cur,      \* URL the client sends the next request to (putURL / chunkURL)
          asked,    \* URL the client asked for (first hop)
          at,       \* URL that is being served (last hop)
          pc, lost
lvars == <<cfg, tok, n, cur, asked, at, pc, lost>>

Seg(t) == <<"t0", "t1", "t2", "t3", "t4", "t5", "t6">>[t + 1]   \* a path segment that carries the token
FrontPost == [h |-> "front", p |-> <<"v2", "uploads", "">>, q |-> -1]
FrontOf(t) == IF cfg.style = "move" THEN [h |-> "front", p |-> <<"v2", "uploads", "up", Seg(t)>>, q |-> -1]
              ELSE [h |-> "front", p |-> <<"v2", "uploads", "up">>, q |-> t]
\* the same resource in the upload node's space
ToNode(u) ==
  LET host == IF cfg.to = "path" THEN u.h ELSE "node" IN
  IF cfg.to = "hostsame" THEN [u EXCEPT !.h = "node"]
  ELSE IF u.p = FrontPost.p THEN [u EXCEPT !.h = host, !.p = <<"node", "">>]
  ELSE [u EXCEPT !.h = host, !.p = <<"node", "up", "s">> \o SubSeq(u.p, 4, Len(u.p))]
IsPost(u) == u \in {FrontPost, ToNode(FrontPost)}
IsFront(u) == u = FrontPost \/ \E t \in 0..NReq : u = FrontOf(t)
Names(t) == {FrontOf(t), ToNode(FrontOf(t))}

\* ---- URI references (RFC 3986 4.2) and their resolution (5.2), at segment level
Dir(p) == SubSeq(p, 1, Len(p) - 1)
IsPrefix(a, b) == Len(a) <= Len(b) /\ SubSeq(b, 1, Len(a)) = a
Ref(form, base, target) ==
  LET d == Dir(base.p)
      f == IF target.h # base.h /\ form # "net" THEN "url"                 \* another host needs an authority
           ELSE IF form \in {"rel", "dots"} /\ ~(IsPrefix(d, target.p) /\ Len(target.p) > Len(d)) THEN "path"
           ELSE IF form = "dots" /\ Len(d) < 1 THEN "rel" ELSE form
  IN CASE f \in {"url", "net"} -> [k |-> f, h |-> target.h, p |-> target.p, q |-> target.q]
       [] f = "path" -> [k |-> f, h |-> "", p |-> target.p, q |-> target.q]
       [] f = "rel" -> [k |-> f, h |-> "", p |-> SubSeq(target.p, Len(d) + 1, Len(target.p)), q |-> target.q]
       [] OTHER -> [k |-> f, h |-> "", p |-> <<d[Len(d)]>> \o SubSeq(target.p, Len(d) + 1, Len(target.p)), q |-> target.q]
Resolve(b, r) ==
  CASE r.k \in {"url", "net"} -> [h |-> r.h, p |-> r.p, q |-> r.q]
    [] r.k = "path" -> [h |-> b.h, p |-> r.p, q |-> r.q]
    [] r.k = "rel" -> [h |-> b.h, p |-> Dir(b.p) \o r.p, q |-> r.q]
    [] OTHER -> [h |-> b.h, p |-> Dir(Dir(b.p)) \o r.p, q |-> r.q]          \* "../" + r.p

LInit ==
  /\ cfg \in [to : Targets, form : Forms, space : Spaces, style : Styles, redir : SUBSET (0..NReq)]
  /\ tok = 0 /\ n = 0 /\ cur = FrontPost /\ asked = FrontPost /\ at = FrontPost
  /\ pc = "send" /\ lost = FALSE

\* the client sends request n to cur
Send == pc = "send" /\ n <= NReq /\ asked' = cur /\ at' = cur /\ pc' = "hop"
        /\ UNCHANGED <<cfg, tok, n, cur, lost>>
\* the front door redirects it (the redirect is an absolute URL or path: net/http resolves it)
Hop == /\ pc = "hop" /\ IsFront(at) /\ n \in cfg.redir
       /\ at' = ToNode(at)
       /\ pc' = "serve"
       /\ UNCHANGED <<cfg, tok, n, cur, asked, lost>>
NoHop == pc = "hop" /\ ~(IsFront(at) /\ n \in cfg.redir) /\ pc' = "serve" /\ UNCHANGED <<cfg, tok, n, cur, asked, at, lost>>
\* whoever got the request serves it, if it names the session, and names the session for the next request
Answer ==
  /\ pc = "serve"
  /\ IF (n = 0 /\ IsPost(at)) \/ (n > 0 /\ at \in Names(tok))
     THEN LET t2 == IF n = 0 THEN 0 ELSE tok + 1
              \* the node names the session in its own space or by the front door URL
              tgt == IF ~IsFront(at) /\ cfg.space = "node" THEN ToNode(FrontOf(t2)) ELSE FrontOf(t2)
              b == IF Base = "answered" THEN at ELSE asked
          IN /\ cur' = Resolve(b, Ref(cfg.form, at, tgt))
             /\ tok' = t2 /\ lost' = lost
     ELSE cur' = cur /\ tok' = tok /\ lost' = TRUE
  /\ n' = n + 1 /\ pc' = "send"
  /\ UNCHANGED <<cfg, asked, at>>
LNext == Send \/ Hop \/ NoHop \/ Answer
LSpec == LInit /\ [][LNext]_lvars

\* every request of the session reaches the session
Reached == ~lost
\* the client always holds a valid name of the session at its current token
HoldsName == (pc = "send" /\ n > 0 /\ ~lost) => cur \in Names(tok)
=============================================================================

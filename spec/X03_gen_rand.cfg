INIT GInit
NEXT GNext
CONSTANTS
 DescPlatStrict = TRUE
 PlatLookupStrict = FALSE
 ReadFaults = FALSE
 EqualAnnStrict = TRUE
 PutFirst = FALSE
 DedupByDigest = FALSE
 DeleteKeepsOne = FALSE
 Faults = FALSE
 GenMode = "rand"
INVARIANTS Emit
CHECK_DEADLOCK FALSE

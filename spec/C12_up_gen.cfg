CONSTANTS
 B = 3
 C = 2
 UL = 2
 Guard = FALSE
 MaxLen = 2
INIT GInit
NEXT GNext
INVARIANTS Emit
CHECK_DEADLOCK FALSE

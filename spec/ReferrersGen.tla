---------------------------- MODULE ReferrersGen ----------------------------
(***************************************************************************)
(* Scenario generator for C10: behaviours of the design spec (D) Referrers *)
(* at the granularity the harness can impose on the real code.  The gate   *)
(* in the model registry holds every manifest / referrers request of an    *)
(* updater goroutine, so a schedule is a sequence of coarse steps          *)
(*    launch p k a   start goroutine p with ManifestPut / ManifestDelete   *)
(*    rel p <rq>     release the request p holds (rq = ReqOf(p), what (D)  *)
(*                   predicts p is sending)                                *)
(*    wake p         p acquires the lock it was blocked on                 *)
(* each followed by p's client-local steps up to its next request, a busy  *)
(* lock or its return (`turn`).  At a quiescent point (`q`) the harness    *)
(* either observes (obs = 1: stored fact, every listing of ObsSeq in this  *)
(* order, the raw tags, a re-fetch of every index ever stored) or goes on  *)
(* (obs = 0); the last quiescent point always observes.  What (D) predicts *)
(* for each listing (xl) and re-fetch (xf) is recorded too, so that the    *)
(* runner can report where the design spec and the code disagree (drift).  *)
(* Script, when not empty, fixes the sequence of calls: the first          *)
(* SerialPrefix calls run one after the other, the remaining ones are all  *)
(* launched before any of their requests is released, and BFS enumerates   *)
(* every request-level schedule of them; otherwise use -simulate.          *)
(***************************************************************************)
EXTENDS Referrers, Json
CONSTANTS Modes, Caches, Pages, TagDels, SubjSel, Spells, Dopts, Script, SerialPrefix, ObsPolicy, EmitOnly,
          Inits,   \* initial states left by another client: records [seq, dup]
          NAs      \* sets of artifacts without annotations
VARIABLES hist, turn, obsI, needq, fetched, lockq
gvars == <<dvars, hist, turn, obsI, needq, fetched, lockq>>

WithInit(c, i, n) == [f \in DOMAIN c \cup {"init", "idup", "na"} |->
                         CASE f = "init" -> i.seq [] f = "idup" -> i.dup [] f = "na" -> n [] OTHER -> c[f]]
GenConfs == {WithInit(c, i, n) : c \in ConfSpace(Modes, Caches, Pages, TagDels, SubjSel, Spells, Dopts),
                                  i \in Inits, n \in NAs}
\* initial states: nothing; another client pushed two / three referrers and listed them in an order this
\* client would not produce; ... and listed each twice
I0 == [seq |-> <<>>, dup |-> 0]
InitsNone == {I0}
InitsRev == {I0, [seq |-> <<"a2", "a1">>, dup |-> 0], [seq |-> <<"a3", "a1", "a2">>, dup |-> 0]}
InitsAll == InitsRev \cup {[seq |-> <<"a2", "a1">>, dup |-> 1], [seq |-> <<"a3", "a2">>, dup |-> 1]}
InitsDup == {[seq |-> <<"a2", "a1">>, dup |-> 1], [seq |-> <<"a2", "a1", "a3">>, dup |-> 1]}
NAsNone == {{}}
NAsSome == {{}, {"a1"}, {"a2", "a3"}, {"a1", "a2", "a3"}}
\* an index that lists a referrer twice answers a listing with a duplicate whatever this client does:
\* the harness observes only once every duplicated entry is gone (deleted through this client)
NoDupTags == \A s \in Subj : ~HasDup(srvTag[s].v)
P1 == <<"p1">>
P2 == <<"p1", "p2">>
P3 == <<"p1", "p2", "p3">>
P4 == <<"p1", "p2", "p3", "p4">>
NoScript == <<>>
\* two deletes meet on one fall-back tag (S7), with and without a third referrer left
ScriptDD == << <<"put", "a1">>, <<"put", "a2">>, <<"del", "a1">>, <<"del", "a2">> >>
ScriptDD3 == << <<"put", "a1">>, <<"put", "a2">>, <<"put", "a3">>, <<"del", "a1">>, <<"del", "a2">> >>
\* a delete meets a push
ScriptDDD == << <<"put", "a1">>, <<"put", "a2">>, <<"put", "a3">>, <<"del", "a1">>, <<"del", "a2">>, <<"del", "a3">> >>
ScriptPD == << <<"put", "a1">>, <<"del", "a1">>, <<"put", "a2">> >>
ScriptPDP == << <<"put", "a1">>, <<"put", "a2">>, <<"del", "a1">>, <<"put", "a3">> >>
\* three updates of one subject overlapping, pushes and deletes mixed
ScriptMix1 == << <<"put", "a3">>, <<"put", "a1">>, <<"put", "a2">>, <<"del", "a3">> >>
ScriptMix2 == << <<"put", "a1">>, <<"put", "a2">>, <<"del", "a1">>, <<"del", "a2">>, <<"put", "a3">> >>
\* one long-lived client: pushes of manifests without a subject between referrer updates
ScriptPlain == << <<"put", "a1">>, <<"plain", "n1">>, <<"put", "a2">>, <<"plain", "n1">>, <<"del", "a1">> >>
\* re-push (a retry, a second copy) of what is already stored and listed, delete, push again
ScriptRe == << <<"put", "a1">>, <<"put", "a1">>, <<"put", "a3">>, <<"put", "a3">>, <<"put", "a2">>, <<"put", "a2">> >>
ScriptRe2 == << <<"put", "a2">>, <<"put", "a1">>, <<"del", "a2">>, <<"put", "a1">>, <<"put", "a2">>, <<"put", "a2">> >>
\* updates of an index another client wrote: deletes first (entries listed twice), then pushes
ScriptFD == << <<"del", "a1">>, <<"del", "a2">>, <<"put", "a1">>, <<"del", "a3">> >>
ScriptFD2 == << <<"del", "a2">>, <<"put", "a3">>, <<"del", "a1">>, <<"put", "a2">> >>
\* pushes only (the lock of referrerPut), re-push of the same artifact
ScriptPP == << <<"put", "a1">>, <<"put", "a2">>, <<"put", "a1">> >>
ScriptPPP == << <<"put", "a1">>, <<"put", "a2">>, <<"put", "a3">> >>

SubjSeq == <<"s1", "s2", "a1">>
FilterSeq == <<"none", "t1", "t2", "x", "y", "k", "sa", "sd", "t1x", "t1y", "t2x", "t1p", "none">>
ObsSeq == [i \in 1..(Len(SubjSeq) * Len(FilterSeq)) |->
             <<SubjSeq[((i - 1) \div Len(FilterSeq)) + 1], FilterSeq[((i - 1) % Len(FilterSeq)) + 1]>>]

\* Go hands a contended mutex to its waiters in arrival order when nobody else is running (the gate
\* parks everybody else), so the generator wakes blocked goroutines first-come first-served (per lock
\* object) and before anything else moves; (D) itself lets any waiter (or a newcomer) win.
NeedsLock(l) == (l = "p_lock" /\ LockPut) \/ l = "d_lock"
\* p stands in front of a mutex somebody else holds (primed / unprimed state)
BlockedN(p) == NeedsLock(pc'[p]) /\ Tgt(want', p) # "" /\ lkheld'[Tgt(want', p)] \notin {"", p}
Free(p) == NeedsLock(pc[p]) /\ (Tgt(want, p) = "" \/ lkheld[Tgt(want, p)] = "")
\* can p go on by itself after this step (primed state)?
CanLocal(p) == pc'[p] # "idle" /\ pc'[p] \notin ReqPcs /\ ~BlockedN(p)
InQ(p) == \E i \in 1..Len(lockq) : lockq[i] = p
Pass(p) == /\ turn' = IF CanLocal(p) THEN p ELSE ""
           /\ lockq' = IF BlockedN(p) /\ ~InQ(p) THEN Append(lockq, p)
                        ELSE IF InQ(p) /\ ~BlockedN(p) THEN SelectSeq(lockq, LAMBDA x : x # p)
                        ELSE lockq
WakeDue == \E i \in 1..Len(lockq) : Free(lockq[i])
FirstFree == lockq[CHOOSE i \in 1..Len(lockq) : Free(lockq[i]) /\ \A j \in 1..(i - 1) : ~Free(lockq[j])]
Rec(e) == hist' = Append(hist, e)
Nth == MaxOps - left + 1

GInit == Init /\ hist = <<>> /\ turn = "" /\ obsI = 0 /\ needq = FALSE /\ fetched = {} /\ lockq = <<>>

GLaunch(p, k, a) ==
  /\ turn = "" /\ obsI = 0 /\ left > 0 /\ ~WakeDue
  /\ AllIdle => ~needq
  /\ Script # <<>> => <<k, a>> = Script[Nth] /\ (Nth <= SerialPrefix + 1 => AllIdle)
  \* random histories: delete only what some earlier call pushed (deleting a manifest that never
  \* existed is one error path, covered by deleting twice)
  /\ (Script = <<>> /\ k = "del") =>
        (a \in Range(InitSeq) \/ \E i \in 1..Len(hist) : (hist[i].t = "launch" /\ hist[i].k = "put" /\ hist[i].a = a))
  /\ Launch(p, k, a)
  /\ Rec([t |-> "launch", p |-> p, k |-> k, a |-> a])
  /\ Pass(p) /\ needq' = TRUE
  /\ UNCHANGED <<obsI, fetched>>

\* scripted: nothing moves while calls of the overlapping part are still to be launched
Frozen == Script # <<>> /\ left > 0 /\ Nth > SerialPrefix + 1
GRel(p) ==
  /\ turn = "" /\ obsI = 0 /\ pc[p] \in ReqPcs /\ ~Frozen /\ ~WakeDue
  /\ ReqStep(p)
  /\ Rec([t |-> "rel", p |-> p, m |-> ReqOf(p)[1], w |-> ReqOf(p)[2], x |-> ReqOf(p)[3]])
  /\ Pass(p)
  /\ UNCHANGED <<obsI, needq, fetched>>

GWake(p) ==
  /\ turn = "" /\ obsI = 0 /\ pc[p] \in LockPcs /\ ~Frozen /\ WakeDue /\ p = FirstFree
  /\ LocalStep(p)
  /\ Rec([t |-> "wake", p |-> p])
  /\ Pass(p)
  /\ UNCHANGED <<obsI, needq, fetched>>

GLocal ==
  /\ turn # "" /\ LocalStep(turn)
  /\ Pass(turn)
  /\ UNCHANGED <<hist, obsI, needq, fetched>>

GObserve ==
  /\ turn = "" /\ obsI = 0 /\ needq /\ (ObsPolicy = "end" => left = 0) /\ NoDupTags
  /\ Quiesce
  /\ Rec([t |-> "q", obs |-> 1])
  /\ obsI' = 1 /\ needq' = FALSE
  /\ UNCHANGED <<turn, fetched, lockq>>

GSkip ==
  /\ turn = "" /\ obsI = 0 /\ needq /\ AllIdle /\ left > 0
  /\ Rec([t |-> "q", obs |-> 0])
  /\ needq' = FALSE
  /\ UNCHANGED <<dvars, turn, obsI, fetched, lockq>>

\* the observation block: every listing of ObsSeq, then a re-fetch of every stored index
GList ==
  /\ obsI \in 1..Len(ObsSeq)
  /\ IF lpc = "idle"
     THEN ListStart(ObsSeq[obsI][1], ObsSeq[obsI][2]) /\ UNCHANGED <<hist, obsI>>
     ELSE /\ ListStep
          /\ IF lpc' = "idle"
             THEN Rec([t |-> "xl", s |-> out'.s, f |-> out'.f, res |-> out'.res, err |-> out'.err]) /\ obsI' = obsI + 1
             ELSE UNCHANGED <<hist, obsI>>
  /\ UNCHANGED <<turn, needq, fetched, lockq>>

GFetch ==
  /\ obsI = Len(ObsSeq) + 1
  /\ IF srvIdx \ fetched = {}
     THEN obsI' = 0 /\ fetched' = {} /\ UNCHANGED <<dvars, hist>>
     ELSE LET d == CHOOSE x \in srvIdx \ fetched : TRUE IN
          /\ Fetch(d)
          /\ Rec([t |-> "xf", asked |-> d, got |-> out'.got])
          /\ fetched' = fetched \cup {d}
          /\ UNCHANGED obsI
  /\ UNCHANGED <<turn, needq, lockq>>

GNext ==
  \/ \E p \in Procs, o \in Ops : GLaunch(p, o[1], o[2])
  \/ \E p \in Procs : GRel(p) \/ GWake(p)
  \/ GLocal \/ GObserve \/ GSkip \/ GList \/ GFetch
GSpec == GInit /\ [][GNext]_gvars

Terminal == left = 0 /\ AllIdle /\ ~needq /\ obsI = 0 /\ turn = ""
\* EmitOnly = "bad": print only the schedules after which the fall-back tag is wrong in THIS variant of
\* the design (used with the defective lock styles: every printed schedule is one the defect needs)
Emit == (Terminal /\ (EmitOnly = "bad" => ~TagExact)) => PrintT(<<"SCN", ToJson([conf |-> conf, steps |-> hist])>>)
=============================================================================

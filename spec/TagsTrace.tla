---------------------------- MODULE TagsTrace ----------------------------
(* Trace spec for C06: replays an ndjson log recorded by harness/cmd/c06drv *)
(* (regclient.RegClient on the model registry simreg / on a real OCI layout *)
(* directory) through the monitor TagsProp.  One line per event:            *)
(*   reset   header of a trace: mode, backend, alist, adel and the          *)
(*           abstraction of the initial content (tags0, amb0, mans0)        *)
(*   op      seq mode: one complete operation and its outcome               *)
(*   call / ret   conc mode: start / end of an operation (real-time order)  *)
(*   obs     TagList + ManifestHead + ManifestGet of every tag and digest   *)
(*   rawreg  the registry model's own state                                 *)
(*   rawidx  index.json decoded independently + manifest files on disk      *)
(*   note    ignored (request log excerpts, drift notes)                    *)
(* PLin is the only silent step (does not consume a line).                  *)
EXTENDS TagsProp, Json, IOUtils, Integers
Log == ndJsonDeserialize(IOEnv.VERIF_TRACE)
VARIABLE l
Ev == Log[l]
TInit == PInit /\ l = 1
TNext ==
  \/ /\ l <= Len(Log)
     /\ l' = l + 1
     /\ \/ Ev.ev = "reset" /\ PReset(Ev.mode, Ev.backend, Ev.alist, Ev.adel, Ev.tags0, Ev.amb0, Ev.mans0, Ev.fallback, Ev.withman, Ev.subj, Ev.mdelok)
        \/ Ev.ev = "op" /\ POp(Ev.kind, Ev.tag, Ev.man, Ev.res, Ev.list)
        \/ Ev.ev = "call" /\ PCall(Ev.id, Ev.kind, Ev.tag, Ev.man)
        \/ Ev.ev = "ret" /\ PRet(Ev.id, Ev.res, Ev.list)
        \/ Ev.ev = "obs" /\ PObs(Ev.list, Ev.head, Ev.get, Ev.ft)
        \/ Ev.ev = "rawreg" /\ PRawReg(Ev.tags, Ev.xtags, Ev.mans)
        \/ Ev.ev = "rawidx" /\ PRawIdx(Ev.valid, Ev.ent, Ev.files)
        \/ Ev.ev = "note" /\ PNote
  \/ /\ l <= Len(Log)
     /\ cf.mode = "conc"
     /\ l' = l
     /\ \E id \in DOMAIN pend : PLin(id)
TSpec == TInit /\ [][TNext]_<<pvars, l>>
HW == TLCSet(1, IF TLCGet(1) > l THEN TLCGet(1) ELSE l)
Accepted == PrintT(<<"HIGHWATER", TLCGet(1), Len(Log)>>)
ASSUME TLCSet(1, 0)
=============================================================================

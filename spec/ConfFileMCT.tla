----------------------------- MODULE ConfFileMCT -----------------------------
(***************************************************************************)
(* The large scenario sets of the thorough tier for ConfFile (area X02),   *)
(* kept apart from ConfFileMC because TLC evaluates every constant         *)
(* definition of the modules it loads before it starts.  Mirrors no code.  *)
(***************************************************************************)
EXTENDS ConfFileMC
\* one command (every kind, every fault point, put of 0..3 chunks) on every start state, as root and as a user,
\* under umask 022 / 077 / 000
OneCmdAll == UNION {{Scn("seq", st, id, um, <<c>>) : st \in Starts(id), c \in WithFaults(Commands \cup Puts), um \in {18, 63, 0}}
                    : id \in {Root, User}}
\* sequences of two commands, the first possibly faulted, and of three commands
Seq2 == {Scn("seq", st, User, 18, <<a, b>>) : st \in SeqStarts, a \in WithFaults(Commands), b \in Commands}
Seq3 == {Scn("seq", st, User, 18, <<a, b, c>>) : st \in {St(1, 0, NoCfg, 0)}, a \in Commands, b \in Commands, c \in Commands}
SeqSet == OneCmdAll \cup Seq2 \cup Seq3
=============================================================================

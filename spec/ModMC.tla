------------------------------- MODULE ModMC -------------------------------
(* Model-checking configurations of Mod.tla for C13: the image and option   *)
(* universes the cfg files choose from, and the generator history is kept   *)
(* out (see ModGen).  Mirrors nothing by itself.                            *)
EXTENDS Mod

\* every history pattern with n layers and at most e empty entries
RECURSIVE Pats(_, _)
Pats(n, e) == IF n = 0 /\ e = 0 THEN {<<>>}
              ELSE (IF n > 0 THEN {<<"L">> \o p : p \in Pats(n - 1, e)} ELSE {})
                   \cup (IF e > 0 THEN {<<"E">> \o p : p \in Pats(n, e - 1)} ELSE {})
AllPats(n, maxE) == UNION {Pats(n, e) : e \in 0..maxE}

ImgA(n, h, shape, fam, comp, data, refs, alg) ==
  [n |-> n, hist |-> h, shape |-> shape, fam |-> fam, comp |-> comp, data |-> data, refs |-> refs, alg |-> alg, ut |-> FALSE]
UT(i) == [i EXCEPT !.ut = TRUE]      \* the same image with every time stamp set to one instant
Img(n, h, shape, fam, comp, data, refs) == ImgA(n, h, shape, fam, comp, data, refs, "sha256")

\* the alignment universe: every image with <= 3 layers and every placement of <= 2 empty history entries
ImagesAlign == UNION {{Img(n, h, "image", "oci", "gzip", FALSE, FALSE) : h \in AllPats(n, 2)} : n \in 1..3}
ImagesShapes == {Img(2, <<"L", "E", "L">>, sh, fam, comp, data, refs) :
                   sh \in {"image", "index"}, fam \in {"oci", "docker"}, comp \in {"gzip", "none"}, data \in BOOLEAN, refs \in BOOLEAN}
                \cup {Img(1, <<>>, "image", "oci", "gzip", FALSE, FALSE)}
                \cup {ImgA(2, <<"L", "E", "L">>, sh, "oci", "gzip", data, TRUE, "sha512") : sh \in {"image", "index"}, data \in BOOLEAN}
                \cup {UT(Img(2, <<"L", "E", "L">>, sh, fam, comp, FALSE, FALSE)) : sh \in {"image", "index"}, fam \in {"oci", "docker"}, comp \in {"gzip", "none"}}

O(k) == [k |-> k, a |-> "", v |-> "", i |-> 0, s |-> {}, f |-> ""]
Oavf(k, a, v, f) == [O(k) EXCEPT !.a = a, !.v = v, !.f = f]
Oa(k, a) == [O(k) EXCEPT !.a = a]
Oav(k, a, v) == [O(k) EXCEPT !.a = a, !.v = v]
Oi(k, i) == [O(k) EXCEPT !.i = i]
Os(k, s, re) == [O(k) EXCEPT !.s = s, !.a = re]

\* options that move layers, diff ids and history
OptsAlign == {Oa("AddLayer", ""), Oi("RmIndex", 0), Oi("RmIndex", 1), Oi("RmIndex", 2),
              Os("RmCreatedBy", {"L1"}, "^ADD L1$"), Os("RmCreatedBy", {"L2"}, "^ADD L2$"), Os("RmCreatedBy", {"L3"}, "^ADD L3$"),
              Os("RmCreatedBy", {"L1", "L3"}, "^ADD L(1|3)$"), Os("RmCreatedBy", {"L2", "L3"}, "^ADD L(2|3)$"),
              Oa("StripFile", "l1"), Oa("StripFile", "l2"), Oa("StripFile", "l3"), Oa("StripFile", "l1/data.txt"),
              Oa("LayerTime", "set"), Oa("Compress", "zstd"), Oa("BuildArgRm", "a1"), O("Rebase")}
\* one or two representatives of every other option kind
OptsMeta == {Oa("AddLayer", "linux/amd64"), Os("RmCreatedBy", {}, "^nomatch$"), Oa("StripFile", "nosuch"), Oa("StripFile", "add"),
             Oa("Compress", "gzip"), Oa("Compress", "none"), O("Reproducible"), Oa("LayerTime", "after"), Oa("LayerTime", "base1"),
             Oa("FileTarTime", "set"), Oa("DigestAlgo", "sha512"), Oa("DigestAlgo", "sha256"), Oa("LayerDigest", "sha512"),
             Oa("ConfigDigest", "sha512"), Oa("ManifestDigest", "sha512"), O("ToOCI"), O("ToDocker"),
             Oa("Data", "all"), Oa("Data", "zero"), Oa("Data", "keep"),
             Oav("Annotation", "x", "y"), Oav("Annotation", "[*]x", "y"), Oav("Annotation", "[linux/amd64]x", "y"),
             Oav("Annotation", "keep.anno", "v"), Oav("Annotation", "nosuch", ""), O("AnnotationBase"), O("AnnotationPromote"),
             O("LabelToAnnotation"), Oav("Label", "x", "y"), Oav("Label", "keep", "v"), Oav("Label", "[linux/arm64]x", "y"),
             Oav("Label", "nosuch", ""), Oav("Env", "x", "y"), Oav("Env", "E1", "v1"), Oav("Env", "E1", ""),
             Oa("Cmd", "/bin/app"), Oa("Cmd", "/bin/other"), Oa("Entrypoint", "/e"), Oa("ExposeAdd", "80/tcp"), Oa("ExposeRm", "80/tcp"),
             Oa("VolumeAdd", "/v"), Oa("VolumeRm", "/v"), Oa("BuildArgRm", "zz"), Oa("ConfigTime", "set"), Oa("ConfigTime", "after"),
             \* second round: parameters and spellings that were held constant before
             Oav("AddLayer", "", "application/vnd.oci.image.layer.v1.tar+zstd"), Oav("AddLayer", "", "application/vnd.oci.image.layer.v1.tar"),
             Oav("AddLayer", "", "application/vnd.docker.image.rootfs.diff.tar.gzip"),
             Oav("Annotation", "keep.anno", ""), Oav("Label", "keep", ""), Oa("Platform", "linux/amd64"), Oa("Platform", "linux/riscv64"),
             Oa("ConfigTime", "label"), Oa("ConfigTime", "base1"), Oa("ConfigTime", "baseref"), Oa("ConfigTime", "fromlabel"),
             Oa("LayerTime", "label"), Oa("LayerTime", "baseref"), Oa("LayerTime", "max"), Oa("LayerTime", "fromlabel"),
             Oa("FileTarTime", "after"), Oa("StripFile", "/l3/"),
             \* round 4: "set X to the value it already has" for every option that takes a value
             Oa("ConfigTime", "same"), Oa("ConfigTime", "samezone"), Oa("ConfigTime", "samelocal"), Oa("ConfigTime", "sameafter"),
             Oa("LayerTime", "same"), Oa("LayerTime", "samezone"), Oa("LayerTime", "samelocal"), Oa("LayerTime", "sameafter"),
             Oa("FileTarTime", "same"), Oa("FileTarTime", "samezone"),
             Oa("Entrypoint", "/entry"), Oa("ExposeAdd", "8080/tcp"), Oa("ExposeRm", "8080/tcp"), Oa("VolumeAdd", "/data"), Oa("VolumeRm", "/data")}
\* round 5: the form of the stream handed to WithLayerAddTar (already compressed in every format archive.Decompress
\* knows, a tar without entries, a tar without end-of-archive blocks) x media type argument x platform
MtZstd == "application/vnd.oci.image.layer.v1.tar+zstd"
MtTar == "application/vnd.oci.image.layer.v1.tar"
MtDGzip == "application/vnd.docker.image.rootfs.diff.tar.gzip"
OptsForms == {Oavf("AddLayer", "", "", f) : f \in {"gzip", "gzipalt", "zstd", "xz", "bzip2", "empty", "notrailer"}}
             \cup {Oavf("AddLayer", "", MtZstd, f) : f \in {"gzip", "zstd", "empty"}}
             \cup {Oavf("AddLayer", "", MtTar, f) : f \in {"empty", "notrailer"}}
             \cup {Oavf("AddLayer", "", MtDGzip, "gzip"), Oavf("AddLayer", "linux/amd64", "", "gzip"), Oavf("AddLayer", "linux/amd64", "", "zstd")}
OptsAll == OptsAlign \cup OptsMeta \cup OptsForms
\* the interaction core for deeper programs
OptsCore == {Oa("AddLayer", ""), Oi("RmIndex", 0), Oi("RmIndex", 1), Os("RmCreatedBy", {"L1", "L3"}, "^ADD L(1|3)$"),
             Oa("StripFile", "l2"), Oa("StripFile", "l1/data.txt"), Oa("StripFile", "nosuch"), Oa("LayerTime", "set"),
             Oa("Compress", "zstd"), Oa("LayerDigest", "sha512"), Oa("BuildArgRm", "a1"), O("Rebase"), Oa("Data", "all"),
             Oav("Label", "x", "y")}
OptsCoreQ == {Oa("AddLayer", ""), Oi("RmIndex", 0), Oi("RmIndex", 1), Os("RmCreatedBy", {"L1", "L3"}, "^ADD L(1|3)$"),
              Oa("StripFile", "l2"), Oa("StripFile", "nosuch"), Oa("LayerTime", "set"), Oa("Compress", "zstd"),
              Oa("BuildArgRm", "a1"), O("Rebase")}
ImagesData == {Img(2, <<"L", "E", "L">>, sh, "oci", "gzip", TRUE, FALSE) : sh \in {"image", "index"}}
\* minimal programs that show each repaired defect when its switch is off (C13_mc_asis_*.cfg)
OptsAsisData == {Oa("Data", "all")}
OptsAsisWriter == {Oa("Compress", "zstd"), Oa("LayerTime", "set")}
OptsAsisAdded == {Oa("AddLayer", ""), Oa("StripFile", "nosuch")}
OptsAsisTag == {Oa("Data", "keep")}
OptsAsisDesc == {Oa("ManifestDigest", "sha512")}
ImagesDataRefs == {Img(2, <<"L", "E", "L">>, "index", "oci", "gzip", TRUE, TRUE)}
OptsAsisClose == {Oa("LayerDigest", "sha512"), Oa("Compress", "zstd")}
\* the universe of C13_gen_forms / C13_mc_forms: every form with the options that read or rewrite the added layer
OptsFormsWith == OptsForms \cup {Oa("AddLayer", ""), Oa("Compress", "zstd"), Oa("Compress", "none"),
                                 Oa("LayerDigest", "sha512"), Oa("LayerTime", "set"), Oa("StripFile", "nosuch"), Oa("StripFile", "add"),
                                 O("Reproducible"), Oi("RmIndex", 0), Oa("Data", "all"), Oav("Label", "x", "y"), O("Rebase")}
ImagesFormsQ == {Img(2, <<"L", "E", "L">>, "image", "oci", "gzip", FALSE, FALSE), Img(2, <<"L", "L", "E">>, "index", "docker", "none", FALSE, TRUE)}
ImagesForms == ImagesFormsQ \cup {Img(1, <<>>, "image", "oci", "zstd", FALSE, FALSE), ImgA(1, <<"E", "L">>, "index", "oci", "gzip", FALSE, FALSE, "sha512")}
AllPlaces == {"same-digest", "same-tag", "same-replace", "cross"}
=============================================================================

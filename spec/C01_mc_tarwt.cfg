CONSTANTS
 MaxLen = 2
 ReadSizes = {5}
 MaxDrops = 1
 MaxFails = 0
 MaxSeeks = 0
 MaxAgain = 1
 RetryLimit = 3
 Schemes = {"reg", "ocidir"}
 Vias = {"tarwalk", "tarraw"}
 Withs = {TRUE}
 Chunks = {1, 5}
 LyingSizes = FALSE
 LieMax = 1
 InlineData = FALSE
 Conc = 3
 Probes = FALSE
 Exts = {0}
 KeepSlots = FALSE
 TarUnverified = FALSE
 MTs = {TRUE}
 DigestHdrs = {"served"}
 Trailers = {TRUE}
 Sts = {"std"}
 DropKinds = {"ueof"}
INIT Init
NEXT Next
VIEW View
INVARIANTS TypeOK PCleanOk HashIsGot CountIsGot Bounded EofVerified EofSized NeverSelfBlocked NoLeftover WantIsAsked
CHECK_DEADLOCK FALSE

CONSTANTS
 B = 3
 C = 2
 UL = 2
 Guard = FALSE
 MaxLen = 3
SPECIFICATION Spec
INVARIANTS TypeOK NoEndlessRepeat
CONSTRAINT Bounded
CHECK_DEADLOCK FALSE

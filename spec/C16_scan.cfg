CONSTANT N = 4
INIT Init
NEXT Next
INVARIANTS Maximal Found
CHECK_DEADLOCK FALSE

\* random programs of length 0..5 over the whole vocabulary, any image, placement class and source kind (-simulate)
CONSTANTS
 Images <- ImagesGen
 Options <- OptsGen
 MaxProg = 5
 Places <- AllPlaces
 FixData = TRUE
 FixWriter = TRUE
 FixAdded = TRUE
 FixTag = TRUE
 FixClose = TRUE
 FixDesc = TRUE
 SrcKinds = {"reg", "dir"}
 Fine = FALSE
SPECIFICATION Spec
INVARIANT Emit
CHECK_DEADLOCK FALSE

---------------------------- MODULE TokenLifeDefs ----------------------------
(***************************************************************************)
(* X05 - definitions shared by the design spec (TokenLife) and the monitor *)
(* (TokenLifeProp).  A scope is a pair <<repository, action>>; the string  *)
(* "repository:a:pull,push" of the wire is the set {<<a,pull>>,<<a,push>>} *)
(* (a scope string the code cannot parse is <<string, "raw">>).            *)
(*  Need(m)  what the model registry demands for a request with method m   *)
(*  Conv(m)  the Docker convention scope internal/reghttp/http.go (Resp.   *)
(*           next) announces with Auth.AddScope before every attempt       *)
(***************************************************************************)
EXTENDS Integers, Sequences, FiniteSets, TLC

Need(m) == CASE m \in {"GET", "HEAD"} -> {"pull"}
             [] m = "DELETE" -> {"delete"}
             [] OTHER -> {"pull", "push"}
Conv(m) == IF m \in {"GET", "HEAD"} THEN {"pull"} ELSE {"pull", "push"}
Sc(repo, acts) == {<<repo, a>> : a \in acts}

(* token replies that carry a usable token *)
GoodKinds == {"ok", "okr", "oka", "okpast", "okshort", "oknoiat", "okfut", "part"}
=============================================================================

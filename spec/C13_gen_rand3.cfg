\* random programs of length <= 3 over the whole vocabulary (-simulate)
CONSTANTS
 Images <- ImagesGen
 Options <- OptsGen
 MaxProg = 3
 Places <- AllPlaces
 FixData = FALSE
 FixWriter = FALSE
 FixAdded = FALSE
 FixTag = FALSE
 Fine = FALSE
SPECIFICATION Spec
INVARIANT Emit
CHECK_DEADLOCK FALSE

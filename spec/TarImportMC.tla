----------------------------- MODULE TarImportMC -----------------------------
(***************************************************************************)
(* Properties for model checking TarImport (C09): the property monitor (P)  *)
(* ExportImportProp evaluated on the terminal states of the design, for the  *)
(* scenario ids selected by the configuration (CONSTANT Ids <- QuickIds ...).*)
(* The design's own invariants (Ordered, PassBound) are in TarImport.        *)
(* Default of every mc / gen configuration: the switches are FALSE (current  *)
(* code); the as-found settings live in C09_mc_asfound_quick.cfg (PropExact) *)
(* and in the expected-counterexample configs C09_mc_s6 / _links / _duppath. *)
(***************************************************************************)
EXTENDS TarImport

P == INSTANCE ExportImportProp WITH src <- 0, arc <- 0, dka <- 0, cur <- 0, st <- 0, bad <- 0

(* ------------------------------ properties ----------------------------- *)
Dg(n) == "sha256:" \o n
SrcRec == [objs |-> {[d |-> Dg(n), sha |-> n, a |-> "sha256", h |-> n] : n \in DOMAIN sc.nodes},
           edges |-> UNION {{[p |-> Dg(n), c |-> Dg(sc.nodes[n].kids[i].n), role |-> "x", i |-> i] :
                              i \in 1..Len(sc.nodes[n].kids)} : n \in DOMAIN sc.nodes},
           top |-> Dg(sc.want), tag |-> "", single |-> FALSE]
ImpRec == [ok |-> phase = "done",
           objs |-> {[d |-> Dg(n), sha |-> n, a |-> "sha256", h |-> n] : n \in tgt.blobs \cup tgt.mans},
           top |-> Dg(tgt.tag), allow |-> IF sc.want = "" THEN {} ELSE {Dg(sc.want)}, must |-> sc.want # ""]
DkRec == [ok |-> phase = "done", found |-> tgt.tag = "dkman" /\ tgt.dk.cfg \in tgt.blobs /\ Range(tgt.dk.layers) \subseteq tgt.blobs,
          cfg |-> tgt.dk.cfg, layers |-> tgt.dk.layers]
Terminal == phase \in {"done", "failed"}
Verdict == IF sc.kind = "oci" THEN P!O2(SrcRec, ImpRec) ELSE P!O3(sc.dkwant, DkRec)

\* the design as it is now (DrainBug, LinkCode, DupPathBug all FALSE; /repo commits ad30bfd, a529ea7, 72bf6e2,
\* 4eaa9ce): the property holds for every scenario
PropHolds == Terminal => Verdict = ""
\* the design as it was found: each switch set to TRUE brings back one class of failures (sc.bad names the
\* class a scenario belongs to).  For ANY setting of the switches: the property fails exactly on the scenarios
\* of a class whose switch is on.  With all switches off this is PropHolds; with switches on it says that the
\* as-found design fails there (what findings C09-1..4 and the seeds seeded/fixrev-C09-* show on real code)
\* and nowhere else.
ExpectedBad == \/ sc.bad = "drain" /\ DrainBug
               \/ sc.bad = "link" /\ LinkCode
               \/ sc.bad = "duppath" /\ DupPathBug
PropExact == Terminal => ((Verdict = "") <=> ~ExpectedBad)
\* while the import runs the target never holds a manifest without its children
Ordered == Closed /\ TagComplete /\ Sorted
=============================================================================

----------------------------- MODULE TarImportMC -----------------------------
(***************************************************************************)
(* Properties for model checking TarImport (C09): the property monitor (P)  *)
(* ExportImportProp evaluated on the terminal states of the design, for the  *)
(* scenario ids selected by the configuration (CONSTANT Ids <- QuickIds ...).*)
(* The design's own invariants (Ordered, PassBound) are in TarImport.        *)
(***************************************************************************)
EXTENDS TarImport

P == INSTANCE ExportImportProp WITH src <- 0, arc <- 0, dka <- 0, cur <- 0, st <- 0, bad <- 0

(* ------------------------------ properties ----------------------------- *)
Dg(n) == "sha256:" \o n
SrcRec == [objs |-> {[d |-> Dg(n), sha |-> n, a |-> "sha256", h |-> n] : n \in DOMAIN sc.nodes},
           edges |-> UNION {{[p |-> Dg(n), c |-> Dg(sc.nodes[n].kids[i].n), role |-> "x", i |-> i] :
                              i \in 1..Len(sc.nodes[n].kids)} : n \in DOMAIN sc.nodes},
           top |-> Dg(sc.want), tag |-> "", single |-> FALSE]
ImpRec == [ok |-> phase = "done",
           objs |-> {[d |-> Dg(n), sha |-> n, a |-> "sha256", h |-> n] : n \in tgt.blobs \cup tgt.mans},
           top |-> Dg(tgt.tag), want |-> Dg(sc.want)]
DkRec == [ok |-> phase = "done", found |-> tgt.tag = "dkman" /\ tgt.dk.cfg \in tgt.blobs /\ Range(tgt.dk.layers) \subseteq tgt.blobs,
          cfg |-> tgt.dk.cfg, layers |-> tgt.dk.layers]
Terminal == phase \in {"done", "failed"}
Verdict == IF sc.kind = "oci" THEN P!O2(SrcRec, ImpRec) ELSE P!O3(sc.dkwant, DkRec)

\* the repaired design (DrainBug, LinkCode, DupPathBug all FALSE): the property holds for every scenario
PropHolds == Terminal => Verdict = ""
\* the design as implemented: the property holds except for the recorded classes, and those really fail
PropHoldsButKnown == Terminal /\ sc.bad = "" => Verdict = ""
KnownReproduced == Terminal /\ sc.bad # "" => Verdict # ""
\* while the import runs the target never holds a manifest without its children
Ordered == Closed /\ TagComplete /\ Sorted
=============================================================================

\* programs of length 0..1 over the whole vocabulary (-simulate; the runner keeps one scenario per option)
CONSTANTS
 Images <- ImagesGen
 Options <- OptsGen
 MaxProg = 1
 Places <- AllPlaces
 FixData = FALSE
 FixWriter = FALSE
 FixAdded = FALSE
 FixTag = FALSE
 FixClose = FALSE
 SrcKinds = {"reg", "dir"}
 Fine = FALSE
SPECIFICATION Spec
INVARIANT Emit
CHECK_DEADLOCK FALSE

\* programs of length 0..1 over the whole vocabulary (-simulate; the runner keeps one scenario per option)
CONSTANTS
 Images <- ImagesGen
 Options <- OptsGen
 MaxProg = 1
 Places <- AllPlaces
 FixData = TRUE
 FixWriter = TRUE
 FixAdded = TRUE
 FixTag = TRUE
 FixClose = TRUE
 FixDesc = TRUE
 SrcKinds = {"reg", "dir"}
 Fine = FALSE
SPECIFICATION Spec
INVARIANT Emit
CHECK_DEADLOCK FALSE

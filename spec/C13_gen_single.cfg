\* every option on its own (and the empty program) on every image and placement class
CONSTANTS
 Images <- ImagesGen
 Options <- OptsGen
 MaxProg = 1
 Places <- AllPlaces
 FixData = FALSE
 FixWriter = FALSE
 FixAdded = FALSE
 FixTag = FALSE
 Fine = FALSE
SPECIFICATION Spec
INVARIANT Emit
CHECK_DEADLOCK FALSE

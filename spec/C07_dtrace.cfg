\* recorded call sequences of the real code must be behaviours of LayoutFS with MarkerMode = "ifbad" (baseline)
CONSTANTS
 Scenarios = {}
 MaxCrash = 0
 MarkerMode = "ifbad"
 MarkerWindow = TRUE
 MaxFault = 0
SPECIFICATION DSpec
CONSTRAINT HW
POSTCONDITION Reached
CHECK_DEADLOCK FALSE

CONSTANTS
 Procs = {"p1", "p2", "p3", "p4"}
 Queues = {"q1", "q2", "q3"}
 MaxMax = 2
 MultiLens = {2, 3}
 Confs <- AllConfs
INIT GInit
NEXT GNext
INVARIANTS Emit Bound
CHECK_DEADLOCK FALSE
CONSTANTS
 Pick <- PickOldest
 CancelAt <- CancelWhileWaiting

------------------------------- MODULE AuthObl -------------------------------
(***************************************************************************)
(* The obligations of property C11 as constant level operators, shared by  *)
(* the property monitor (P) AuthProp.tla and, for the invariants of the    *)
(* design spec, by (D) Auth.tla.  Nothing here knows how the client works. *)
(*                                                                         *)
(*   O1  a secret of registry o (user name, password, identity token,      *)
(*       access / refresh token issued for o) may be in a message to host  *)
(*       `to` only if `to` is o's own host or the host of a realm that o   *)
(*       itself named in a challenge                                       *)
(*   O2  no secret in a message that is not sent over https to a host      *)
(*       configured for TLS                                                *)
(*   O3  no secret in log output, nor in the error values the client       *)
(*       returns to its caller (which callers print and log)               *)
(* Mirrors: no code; deviations: none (statement of the property).         *)
(***************************************************************************)
O1Allowed(named, o, to) == to = o \/ <<o, to>> \in named
O1Bad(named, owners, to) == {o \in owners : ~O1Allowed(named, o, to)}
O2Bad(tlsHosts, scheme, to, owners) == scheme # "https" /\ to \in tlsHosts /\ owners # {}
O3Bad(owners) == owners # {}
=============================================================================

------------------------------ MODULE HostConf ------------------------------
(***************************************************************************)
(* X04 (D) - design spec of how regclient resolves the effective           *)
(* per-registry host configuration.  Implementation shaped: one operator    *)
(* per function of the code, one action per configuration source.          *)
(*                                                                         *)
(* Code mirrored (file:function -> operator / action):                     *)
(*  config/host.go:parseName            -> PN (table over Names)           *)
(*  config/host.go:HostValidate         -> HostValidate                    *)
(*  config/host.go:HostNew              -> HostNew                         *)
(*  config/host.go:HostNewDefName       -> HostNewDefName                  *)
(*  config/host.go:Host.Merge           -> Merge (MergeCred = the two      *)
(*                                         "unset" blocks at its top)      *)
(*  config/host.go:Host.GetCred,                                           *)
(*  config/credhelper.go:get            -> CredSource / HelperServer       *)
(*  config/host.go Host JSON tags       -> JsonRoundTrip                   *)
(*  config/docker.go:dockerParse        -> DockerHosts                     *)
(*  config/docker.go:dockerAuthToHost   -> DockerAuthHost                  *)
(*  config/credhelper.go:list           -> DockerStoreHost                 *)
(*  regclient.go:New                    -> Init (Docker Hub injection)     *)
(*  regclient.go:WithConfigHost(s)      -> ApplyHost   (hostLoad/hostSet)  *)
(*  regclient.go:WithConfigHostDefault  -> ApplyDefault                    *)
(*  regclient.go:WithDockerCredsFile    -> ApplyDocker (hostLoad/hostSet)  *)
(*  regclient.go:hostLoad               -> HostLoadEntry                   *)
(*  regclient.go:hostSet                -> HostSet                         *)
(*  regclient.go:New (hostList) +                                          *)
(*  scheme/reg/reg.go:WithConfigHosts   -> BuiltSet (last writer wins on   *)
(*                                         equal Host.Name, map order)     *)
(*  scheme/reg/reg.go:hostGet           -> RegHostGet                      *)
(*  internal/reghttp/http.go:getHost,                                      *)
(*  Resp.next (url, mirrors, auth)      -> ObsOf / PingObs / HeadObs       *)
(*  cmd/regctl/config.go:ConfigLoadConfFile -> RegctlLoadHost              *)
(*  cmd/regctl/root.go:newRegClient     -> RegctlSources (option order)    *)
(*                                                                         *)
(* Fix is the set of repaired behaviours; Fix = {} is the code as found    *)
(* at /repo HEAD 69e13de:                                                  *)
(*   "mergeToken"  Merge tests newHost.Token (not host.Token) when it      *)
(*                 decides to unset an existing credential helper          *)
(*   "hubDefault"  New creates the Docker Hub entry after the options, so  *)
(*                 that a WithConfigHostDefault applies to it              *)
(*   "legacyAlias" parseName knows index.docker.io as a Docker Hub alias   *)
(*                                                                         *)
(* Deliberate deviations: see HostConfDefs (finite name universe, string   *)
(* functions as tables, abstract APIOpts / Mirrors / durations); the order *)
(* of the entries of one docker config.json (a Go map, random in the code) *)
(* is the order of the sequences given; log output (slog warnings) and     *)
(* the credential refresh timer are not modelled; a failing credential     *)
(* helper is not modelled (every helper answers).                          *)
(***************************************************************************)
EXTENDS HostConfDefs
CONSTANT Fix

\* ------------------------------------------------------------ config/host.go
Docker3 == {DockerName, DockerDNS, DockerAuth}

\* parseName: <<scheme, registry, path>>
PN(n) ==
  CASE n \in Docker3 -> [scheme |-> "https", reg |-> DockerName, path |-> ""]
    [] n = DockerLegacy -> IF "legacyAlias" \in Fix
                            THEN [scheme |-> "https", reg |-> DockerName, path |-> ""]
                            ELSE [scheme |-> "https", reg |-> DockerLegacy, path |-> ""]
    [] n \in {"http://r1.test", "http://r1.test/"} -> [scheme |-> "http", reg |-> "r1.test", path |-> ""]
    [] n = "https://r2.test" -> [scheme |-> "https", reg |-> "r2.test", path |-> ""]
    [] n = "r1.test/ns" -> [scheme |-> "https", reg |-> "r1.test", path |-> "ns"]
    [] OTHER -> [scheme |-> "https", reg |-> n, path |-> ""]

HostValidate(n) == PN(n).path = "" /\ PN(n).scheme \in {"http", "https"}

HostNew == [Z EXCEPT !.tls = "enabled", !.conc = 3]

HostNewDefName(def, n) ==
  LET base == IF def = NoDef THEN HostNew
              ELSE [def EXCEPT !.tls = IF def.tls = "" THEN "enabled" ELSE def.tls,
                               !.conc = IF def.conc = 0 THEN 3 ELSE def.conc]
      pn == PN(n)
      b1 == IF pn.scheme = "http" THEN [base EXCEPT !.tls = "disabled"] ELSE base
  IN IF pn.reg = DockerName
     THEN [b1 EXCEPT !.name = DockerName, !.hostname = DockerDNS, !.credhost = DockerAuth]
     ELSE [b1 EXCEPT !.name = pn.reg, !.hostname = pn.reg,
                     !.credhost = IF n # pn.reg THEN n ELSE b1.credhost]

\* the two blocks at the top of Merge that switch the kind of credential
MergeCred(h, n) ==
  LET tok == IF "mergeToken" \in Fix THEN n.token ELSE h.token
      dropHelper == n.helper = "" /\ (n.pass # "" \/ tok # "")
      dropUPT == n.helper # "" /\ n.user = "" /\ n.pass = "" /\ n.token = ""
      h1 == IF dropHelper THEN [h EXCEPT !.helper = "", !.expire = 0] ELSE h
  IN IF dropUPT THEN [h1 EXCEPT !.user = "", !.pass = "", !.token = ""] ELSE h1

Ov(h, n, f) == IF n[f] # Z[f] THEN n[f] ELSE h[f]

Merge(h, n) ==
  LET c == MergeCred(h, n) IN
  [name |-> IF h.name = "" THEN n.name ELSE h.name,
   user |-> Ov(c, n, "user"), pass |-> Ov(c, n, "pass"), token |-> Ov(c, n, "token"),
   helper |-> Ov(c, n, "helper"), expire |-> Ov(c, n, "expire"), credhost |-> Ov(c, n, "credhost"),
   tls |-> Ov(c, n, "tls"), regcert |-> Ov(c, n, "regcert"), ccert |-> Ov(c, n, "ccert"),
   ckey |-> Ov(c, n, "ckey"), hostname |-> Ov(c, n, "hostname"),
   prefix |-> IF n.prefix # "" THEN TrimSlash(n.prefix) ELSE c.prefix,
   mirrors |-> Ov(c, n, "mirrors"), prio |-> Ov(c, n, "prio"),
   repoauth |-> IF n.repoauth = 1 THEN 1 ELSE c.repoauth,
   api |-> c.api, scheme |-> c.scheme,           \* deprecated: warning only, never copied
   ao1 |-> Ov(c, n, "ao1"), ao2 |-> Ov(c, n, "ao2"),
   chunk |-> IF n.chunk > 0 THEN n.chunk ELSE c.chunk,
   bmax |-> Ov(c, n, "bmax"), rps |-> Ov(c, n, "rps"),
   conc |-> IF n.conc > 0 THEN n.conc ELSE c.conc]

\* GetCred: where the credentials of a request come from
CredSource(h) == IF h.helper # "" THEN "helper" ELSE "direct"
HelperServer(h) == IF h.credhost # "" THEN h.credhost ELSE h.hostname

\* Host JSON: every field but Name has an omitempty tag, Name is `json:"-"`
JsonRoundTrip(h) == [h EXCEPT !.name = ""]

\* ---------------------------------------------------------- config/docker.go
\* a docker config.json: [auths : Seq([key, user, pass, token]), helpers : Seq([key, helper]),
\*                        store : label or "", list : Seq([key, user])]
EmptyDocker == [auths |-> <<>>, helpers |-> <<>>, store |-> "", list |-> <<>>]
HelperFor(dc, key) == IF \E i \in 1..Len(dc.helpers) : dc.helpers[i].key = key
                      THEN dc.helpers[CHOOSE i \in 1..Len(dc.helpers) : dc.helpers[i].key = key].helper
                      ELSE ""
HasAuth(dc, key) == \E i \in 1..Len(dc.auths) : dc.auths[i].key = key

DockerAuthOK(dc, a) ==
  /\ HostValidate(a.key)
  /\ ~((a.user = "" \/ a.pass = "") /\ a.token = "" /\ HelperFor(dc, a.key) = "")
DockerAuthHost(dc, a) ==
  [HostNewDefName(NoDef, a.key) EXCEPT !.user = a.user, !.pass = a.pass, !.token = a.token,
                                       !.helper = HelperFor(dc, a.key)]
DockerHelperOK(dc, e) == HostValidate(e.key) /\ ~HasAuth(dc, e.key)
DockerHelperHost(e) == [HostNewDefName(NoDef, e.key) EXCEPT !.helper = e.helper]
DockerStoreOK(e) == HostValidate(e.key)
DockerStoreHost(dc, e) == [HostNewDefName(NoDef, e.key) EXCEPT !.user = e.user, !.helper = dc.store]

MapSeq(s, F(_)) == [i \in 1..Len(s) |-> F(s[i])]

DockerHosts(dc) ==
  LET AOk(a) == DockerAuthOK(dc, a)
      AH(a) == DockerAuthHost(dc, a)
      HOk(e) == DockerHelperOK(dc, e)
      HH(e) == DockerHelperHost(e)
      SOk(e) == DockerStoreOK(e)
      SH(e) == DockerStoreHost(dc, e)
  IN MapSeq(SelectSeq(dc.auths, AOk), AH) \o MapSeq(SelectSeq(dc.helpers, HOk), HH)
     \o (IF dc.store = "" THEN <<>> ELSE MapSeq(SelectSeq(dc.list, SOk), SH))

\* --------------------------------------------------------------- regclient.go
HostSet(hs, def, e) ==
  IF e.name \in DOMAIN hs THEN [hs EXCEPT ![e.name] = Merge(@, e)]
  ELSE hs @@ (e.name :> Merge(HostNewDefName(def, e.name), e))

HostLoadEntry(hs, def, e) ==
  IF e.name = "" THEN hs
  ELSE IF e.name \in Docker3
       THEN HostSet(hs, def, [e EXCEPT !.name = DockerName,
                                       !.hostname = IF e.hostname \in {"", DockerName, DockerAuth}
                                                    THEN DockerDNS ELSE e.hostname])
       ELSE HostSet(hs, def, e)

RECURSIVE HostLoad(_, _, _, _)
HostLoad(hs, def, es, i) == IF i > Len(es) THEN hs
                            ELSE HostLoad(HostLoadEntry(hs, def, es[i]), def, es, i + 1)

HubEntry == HostNewDefName(NoDef, DockerAuth)
NoHosts == [k \in {} |-> Z]

VARIABLES hosts,      \* RegClient.hosts while the options run: key -> host record
          def,        \* RegClient.hostDefault
          nopt        \* number of options applied
dvars == <<hosts, def, nopt>>

Init == /\ hosts = IF "hubDefault" \in Fix THEN NoHosts ELSE HostSet(NoHosts, NoDef, HubEntry)
        /\ def = NoDef
        /\ nopt = 0

ApplyHost(es) == /\ hosts' = HostLoad(hosts, def, es, 1)
                 /\ nopt' = nopt + 1
                 /\ UNCHANGED def
ApplyDefault(d) == /\ def' = d
                   /\ nopt' = nopt + 1
                   /\ UNCHANGED hosts
ApplyDocker(dc) == /\ hosts' = HostLoad(hosts, def, DockerHosts(dc), 1)
                   /\ nopt' = nopt + 1
                   /\ UNCHANGED def

Apply(s) == \/ s.k = "host" /\ ApplyHost(s.es)
            \/ s.k = "default" /\ ApplyDefault(s.d)
            \/ s.k = "docker" /\ ApplyDocker(s.dc)

\* end of New: with "hubDefault" the Docker Hub entry is created now unless an option made it
FinalHosts(hs, d) == IF "hubDefault" \in Fix /\ DockerName \notin DOMAIN hs
                     THEN HostSet(hs, d, HubEntry) ELSE hs

\* reg.WithConfigHosts: r.hosts[host.Name] = host over a list in map order; entries whose keys
\* differ but whose Name is equal overwrite each other, any of them may survive
BuiltSet(hs) ==
  LET nm == {hs[k].name : k \in DOMAIN hs} \ {""}
      pick == {f \in [nm -> DOMAIN hs] : \A v \in nm : hs[f[v]].name = v}
  IN {[v \in nm |-> hs[f[v]]] : f \in pick}

\* scheme/reg/reg.go:hostGet
RegHostGet(rh, d, r) ==
  IF r \in DOMAIN rh THEN rh[r]
  ELSE LET nh == HostNewDefName(d, r) IN
       IF nh.name # r /\ nh.name \in DOMAIN rh THEN rh[nh.name] ELSE nh

\* what one request of reghttp shows on the wire for the host record h
\* (Basic credentials are only sent when user and password are both set)
ObsOf(h) ==
  LET viaHelper == CredSource(h) = "helper"
      both == h.user # "" /\ h.pass # ""
  IN [addr |-> h.hostname, scheme |-> IF h.tls = "disabled" THEN "http" ELSE "https",
      prefix |-> h.prefix,
      hasked |-> h.helper, hserver |-> IF viaHelper THEN HelperServer(h) ELSE "",
      huser |-> IF viaHelper THEN "HU" ELSE "", hpass |-> IF viaHelper THEN "HP" ELSE "",
      htok |-> "",
      user |-> IF viaHelper THEN "HU" ELSE IF both THEN h.user ELSE "",
      pass |-> IF viaHelper THEN "HP" ELSE IF both THEN h.pass ELSE "",
      token |-> IF viaHelper THEN "" ELSE h.token]

\* Ping (NoMirrors): one host; ManifestHead on an empty registry: every mirror and the upstream
PingObs(rh, d, r) == {ObsOf(RegHostGet(rh, d, r))}
HeadObs(rh, d, r) ==
  LET h == RegHostGet(rh, d, r) IN
  {ObsOf(h)} \cup {ObsOf(RegHostGet(rh, d, m)) : m \in MirrorSet(h.mirrors)}

\* all observation sets the options applied so far can lead to (one per surviving-entry choice)
ObsSetsOf(hs, d, kind, r) ==
  {IF kind = "ping" THEN PingObs(rh, d, r) ELSE HeadObs(rh, d, r) : rh \in BuiltSet(FinalHosts(hs, d))}
ObsSets(kind, r) == ObsSetsOf(hosts, def, kind, r)

\* ------------------------------------------------------------- cmd/regctl
\* ConfigLoadConfFile: what the loader makes of the entry h stored under key k
RegctlLoadHost(k, h) ==
  LET h1 == [h EXCEPT !.name = IF h.name = "" THEN k ELSE h.name,
                      !.hostname = IF h.hostname = "" THEN k ELSE h.hostname,
                      !.tls = IF h.tls = "" THEN "enabled" ELSE h.tls]
  IN IF k \in Docker3
     THEN [h1 EXCEPT !.name = DockerName,
                     !.hostname = IF h1.hostname = k THEN DockerDNS ELSE h1.hostname,
                     !.credhost = IF h1.credhost = k THEN DockerAuth ELSE h1.credhost]
     ELSE h1

\* newRegClient: docker creds first, then the host default, then the hosts of the config file
\* (conf = [docker : docker config or NoDef, def : host record or NoDef, hosts : Seq([k, h])])
RegctlSources(conf) ==
  (IF conf.docker = NoDef THEN <<>> ELSE <<[k |-> "docker", dc |-> conf.docker]>>)
  \o (IF conf.def = NoDef THEN <<>> ELSE <<[k |-> "default", d |-> conf.def]>>)
  \o (IF Len(conf.hosts) = 0 THEN <<>>
      ELSE <<[k |-> "host",
              es |-> [i \in 1..Len(conf.hosts) |-> RegctlLoadHost(conf.hosts[i].k, conf.hosts[i].h)]]>>)
=============================================================================

------------------------------ MODULE HostConf ------------------------------
(***************************************************************************)
(* X04 (D) - design spec of how regclient resolves the effective           *)
(* per-registry host configuration.  Implementation shaped: one operator    *)
(* per function of the code, one action per configuration source.          *)
(*                                                                         *)
(* Code mirrored (file:function -> operator / action):                     *)
(*  config/host.go:parseName            -> PN (table over Names)           *)
(*  config/host.go:HostValidate         -> HostValidate                    *)
(*  config/host.go:HostNew              -> HostNew                         *)
(*  config/host.go:HostNewDefName       -> HostNewDefName                  *)
(*  config/host.go:Host.Merge           -> Merge (MergeCred = the two      *)
(*                                         "unset" blocks at its top)      *)
(*  config/host.go:Host.GetCred,                                           *)
(*  config/credhelper.go:get            -> CredSource / HelperServer       *)
(*  config/host.go Host JSON tags       -> JsonRoundTrip                   *)
(*  config/docker.go:dockerParse        -> DockerHosts                     *)
(*  config/docker.go:dockerAuthToHost   -> DockerAuthHost                  *)
(*  config/credhelper.go:list           -> DockerStoreHost                 *)
(*  regclient.go:New                    -> NewState / Init, FinalHosts     *)
(*                                         (Docker Hub injection)          *)
(*  regclient.go:WithConfigHost(s),                                        *)
(*  WithConfigHostDefault,                                                 *)
(*  WithDockerCredsFile                 -> StepSrc (one arm per option),   *)
(*                                         action Apply                    *)
(*  regclient.go:hostLoad               -> HostLoadEntry                   *)
(*  regclient.go:hostSet                -> HostSet                         *)
(*  regclient.go:New (hostList) +                                          *)
(*  scheme/reg/reg.go:WithConfigHosts   -> BuiltSet (last writer wins on   *)
(*                                         equal Host.Name, map order)     *)
(*  scheme/reg/reg.go:hostGet           -> RegHostGet                      *)
(*  types/ref/ref.go:New (registry)     -> RefNew                          *)
(*  internal/reghttp/http.go:getHost,                                      *)
(*  Resp.next (url, mirrors, auth)      -> ObsOf / PingObs / HeadObs       *)
(*  internal/reghttp/http.go:getHost    -> TlsAfter / TlsObs (TLS client   *)
(*                                         config per host / shared)       *)
(*  cmd/regctl/config.go:ConfigLoadConfFile -> RegctlLoadHost              *)
(*  cmd/regctl/root.go:newRegClient     -> RegctlSources (option order)    *)
(*                                                                         *)
(* Fix is the set of repaired behaviours; Fix = {} is the code as found    *)
(* at /repo 69e13de.  mergeToken (8cb3b1d) and cloneTransport (2d99b41)    *)
(* are in /repo by now: the configurations use them by default, the        *)
(* as-found behaviour stays available by leaving the switch out (cfgs      *)
(* X04_mc_*_asfound: expected counterexamples):                            *)
(*   "mergeToken"  Merge tests newHost.Token (not host.Token) when it      *)
(*                 decides to unset an existing credential helper          *)
(*   "hubDefault"  New creates the Docker Hub entry after the options, so  *)
(*                 that a WithConfigHostDefault applies to it              *)
(*   "hubHostname" hostLoad leaves an empty Hostname of a Docker Hub entry  *)
(*                 empty (as found it fills in registry-1.docker.io, which *)
(*                 then overrides a hostname configured earlier)           *)
(*   "cloneTransport" reghttp.getHost clones a transport given by the user  *)
(*                 before it stores a host's TLS settings in it            *)
(*   "legacyAlias" parseName, hostLoad and the regctl loader know           *)
(*                 index.docker.io as a Docker Hub alias (types/ref        *)
(*                 already maps it to docker.io)                           *)
(*                                                                         *)
(* Deliberate deviations: see HostConfDefs (finite name universe, string   *)
(* functions as tables, abstract APIOpts / Mirrors / durations); the order *)
(* of the entries of one docker config.json (a Go map, random in the code) *)
(* is the order of the sequences given; log output (slog warnings) and     *)
(* the credential refresh timer are not modelled; a failing credential     *)
(* helper is not modelled (every helper answers).                          *)
(***************************************************************************)
EXTENDS HostConfDefs
CONSTANT Fix

\* ------------------------------------------------------------ config/host.go
Docker3 == {DockerName, DockerDNS, DockerAuth}

\* parseName: <<scheme, registry, path>>
PN(n) ==
  CASE n \in Docker3 -> [scheme |-> "https", reg |-> DockerName, path |-> ""]
    [] n = DockerLegacy -> IF "legacyAlias" \in Fix
                            THEN [scheme |-> "https", reg |-> DockerName, path |-> ""]
                            ELSE [scheme |-> "https", reg |-> DockerLegacy, path |-> ""]
    [] n \in {"http://r1.test", "http://r1.test/"} -> [scheme |-> "http", reg |-> "r1.test", path |-> ""]
    [] n = "https://r2.test" -> [scheme |-> "https", reg |-> "r2.test", path |-> ""]
    [] n = "r1.test/ns" -> [scheme |-> "https", reg |-> "r1.test", path |-> "ns"]
    [] OTHER -> [scheme |-> "https", reg |-> n, path |-> ""]

HostValidate(n) == PN(n).path = "" /\ PN(n).scheme \in {"http", "https"}

HostNew == [Z EXCEPT !.tls = "enabled", !.conc = 3]

HostNewDefName(def, n) ==
  LET base == IF def = NoDef THEN HostNew
              ELSE [def EXCEPT !.tls = IF def.tls = "" THEN "enabled" ELSE def.tls,
                               !.conc = IF def.conc = 0 THEN 3 ELSE def.conc]
      pn == PN(n)
      b1 == IF pn.scheme = "http" THEN [base EXCEPT !.tls = "disabled"] ELSE base
  IN IF pn.reg = DockerName
     THEN [b1 EXCEPT !.name = DockerName, !.hostname = DockerDNS, !.credhost = DockerAuth]
     ELSE [b1 EXCEPT !.name = pn.reg, !.hostname = pn.reg,
                     !.credhost = IF n # pn.reg THEN n ELSE b1.credhost]

\* the two blocks at the top of Merge that switch the kind of credential
MergeCred(h, n) ==
  LET tok == IF "mergeToken" \in Fix THEN n.token ELSE h.token
      dropHelper == n.helper = "" /\ (n.pass # "" \/ tok # "")
      dropUPT == n.helper # "" /\ n.user = "" /\ n.pass = "" /\ n.token = ""
      h1 == IF dropHelper THEN [h EXCEPT !.helper = "", !.expire = 0] ELSE h
  IN IF dropUPT THEN [h1 EXCEPT !.user = "", !.pass = "", !.token = ""] ELSE h1

Ov(h, n, f) == IF n[f] # Z[f] THEN n[f] ELSE h[f]

Merge(h, n) ==
  LET c == MergeCred(h, n) IN
  [name |-> IF h.name = "" THEN n.name ELSE h.name,
   user |-> Ov(c, n, "user"), pass |-> Ov(c, n, "pass"), token |-> Ov(c, n, "token"),
   helper |-> Ov(c, n, "helper"), expire |-> Ov(c, n, "expire"), credhost |-> Ov(c, n, "credhost"),
   tls |-> Ov(c, n, "tls"), regcert |-> Ov(c, n, "regcert"), ccert |-> Ov(c, n, "ccert"),
   ckey |-> Ov(c, n, "ckey"), hostname |-> Ov(c, n, "hostname"),
   prefix |-> IF n.prefix # "" THEN TrimSlash(n.prefix) ELSE c.prefix,
   mirrors |-> Ov(c, n, "mirrors"), prio |-> Ov(c, n, "prio"),
   repoauth |-> IF n.repoauth = 1 THEN 1 ELSE c.repoauth,
   api |-> c.api, scheme |-> c.scheme,           \* deprecated: warning only, never copied
   ao1 |-> Ov(c, n, "ao1"), ao2 |-> Ov(c, n, "ao2"),
   chunk |-> IF n.chunk > 0 THEN n.chunk ELSE c.chunk,
   bmax |-> Ov(c, n, "bmax"), rps |-> Ov(c, n, "rps"),
   conc |-> IF n.conc > 0 THEN n.conc ELSE c.conc]

\* GetCred: where the credentials of a request come from
CredSource(h) == IF h.helper # "" THEN "helper" ELSE "direct"
HelperServer(h) == IF h.credhost # "" THEN h.credhost ELSE h.hostname

\* Host JSON: every field but Name has an omitempty tag, Name is `json:"-"`
JsonRoundTrip(h) == [h EXCEPT !.name = ""]

\* ---------------------------------------------------------- config/docker.go
\* a docker config.json: [auths : Seq([key, user, pass, token]), helpers : Seq([key, helper]),
\*                        store : label or "", list : Seq([key, user])]
EmptyDocker == [auths |-> <<>>, helpers |-> <<>>, store |-> "", list |-> <<>>]
HelperFor(dc, key) == IF \E i \in 1..Len(dc.helpers) : dc.helpers[i].key = key
                      THEN dc.helpers[CHOOSE i \in 1..Len(dc.helpers) : dc.helpers[i].key = key].helper
                      ELSE ""
HasAuth(dc, key) == \E i \in 1..Len(dc.auths) : dc.auths[i].key = key

DockerAuthOK(dc, a) ==
  /\ HostValidate(a.key)
  /\ ~((a.user = "" \/ a.pass = "") /\ a.token = "" /\ HelperFor(dc, a.key) = "")
DockerAuthHost(dc, a) ==
  [HostNewDefName(NoDef, a.key) EXCEPT !.user = a.user, !.pass = a.pass, !.token = a.token,
                                       !.helper = HelperFor(dc, a.key)]
DockerHelperOK(dc, e) == HostValidate(e.key) /\ ~HasAuth(dc, e.key)
DockerHelperHost(e) == [HostNewDefName(NoDef, e.key) EXCEPT !.helper = e.helper]
DockerStoreOK(e) == HostValidate(e.key)
DockerStoreHost(dc, e) == [HostNewDefName(NoDef, e.key) EXCEPT !.user = e.user, !.helper = dc.store]

MapSeq(s, F(_)) == [i \in 1..Len(s) |-> F(s[i])]

DockerHosts(dc) ==
  LET AOk(a) == DockerAuthOK(dc, a)
      AH(a) == DockerAuthHost(dc, a)
      HOk(e) == DockerHelperOK(dc, e)
      HH(e) == DockerHelperHost(e)
      SOk(e) == DockerStoreOK(e)
      SH(e) == DockerStoreHost(dc, e)
  IN MapSeq(SelectSeq(dc.auths, AOk), AH) \o MapSeq(SelectSeq(dc.helpers, HOk), HH)
     \o (IF dc.store = "" THEN <<>> ELSE MapSeq(SelectSeq(dc.list, SOk), SH))

\* --------------------------------------------------------------- regclient.go
HostSet(hs, def, e) ==
  IF e.name \in DOMAIN hs THEN [hs EXCEPT ![e.name] = Merge(@, e)]
  ELSE hs @@ (e.name :> Merge(HostNewDefName(def, e.name), e))

\* hostnames hostLoad replaces by registry-1.docker.io in an entry for Docker Hub
HubHostnames == {DockerName, DockerAuth} \cup (IF "hubHostname" \in Fix THEN {} ELSE {""})
HostLoadEntry(hs, def, e) ==
  IF e.name = "" THEN hs
  ELSE IF e.name \in Docker3 \cup (IF "legacyAlias" \in Fix THEN {DockerLegacy} ELSE {})
       THEN HostSet(hs, def, [e EXCEPT !.name = DockerName,
                                       !.hostname = IF e.hostname \in HubHostnames
                                                    THEN DockerDNS ELSE e.hostname])
       ELSE HostSet(hs, def, e)

RECURSIVE HostLoad(_, _, _, _)
HostLoad(hs, def, es, i) == IF i > Len(es) THEN hs
                            ELSE HostLoad(HostLoadEntry(hs, def, es[i]), def, es, i + 1)

HubEntry == HostNewDefName(NoDef, DockerAuth)
NoHosts == [k \in {} |-> Z]

VARIABLES hosts,      \* RegClient.hosts while the options run: key -> host record
          def,        \* RegClient.hostDefault
          nopt        \* number of options applied
dvars == <<hosts, def, nopt>>



\* one configuration source applied to st = [hosts, def]
StepSrc(st, s) ==
  CASE s.k = "host" -> [st EXCEPT !.hosts = HostLoad(st.hosts, st.def, s.es, 1)]          \* WithConfigHost
    [] s.k = "default" -> [st EXCEPT !.def = s.d]                                          \* WithConfigHostDefault
    [] s.k = "docker" -> [st EXCEPT !.hosts = HostLoad(st.hosts, st.def, DockerHosts(s.dc), 1)]  \* WithDockerCredsFile
RECURSIVE RunSrcs(_, _, _)
RunSrcs(st, ss, i) == IF i > Len(ss) THEN st ELSE RunSrcs(StepSrc(st, ss[i]), ss, i + 1)
NewState == [hosts |-> IF "hubDefault" \in Fix THEN NoHosts ELSE HostSet(NoHosts, NoDef, HubEntry), def |-> NoDef]

Init == /\ hosts = NewState.hosts
        /\ def = NewState.def
        /\ nopt = 0

Apply(s) == LET st == StepSrc([hosts |-> hosts, def |-> def], s) IN
            /\ hosts' = st.hosts
            /\ def' = st.def
            /\ nopt' = nopt + 1

\* end of New: with "hubDefault" the Docker Hub entry is created now unless an option made it
FinalHosts(hs, d) == IF "hubDefault" \in Fix /\ DockerName \notin DOMAIN hs
                     THEN hs @@ (DockerName :> HostNewDefName(d, DockerName)) ELSE hs

\* reg.WithConfigHosts: r.hosts[host.Name] = host over a list in map order; entries whose keys
\* differ but whose Name is equal overwrite each other, any of them may survive
BuiltSet(hs) ==
  LET nm == {hs[k].name : k \in DOMAIN hs} \ {""}
      pick == {f \in [nm -> DOMAIN hs] : \A v \in nm : hs[f[v]].name = v}
  IN {[v \in nm |-> hs[f[v]]] : f \in pick}

\* scheme/reg/reg.go:hostGet
RegHostGet(rh, d, r) ==
  IF r \in DOMAIN rh THEN rh[r]
  ELSE LET nh == HostNewDefName(d, r) IN
       IF nh.name # r /\ nh.name \in DOMAIN rh THEN rh[nh.name] ELSE nh

\* what one request of reghttp shows on the wire for the host record h
\* (Basic credentials are only sent when user and password are both set)
ObsOf(h) ==
  LET viaHelper == CredSource(h) = "helper"
      both == h.user # "" /\ h.pass # ""
  IN [addr |-> h.hostname, scheme |-> IF h.tls = "disabled" THEN "http" ELSE "https",
      prefix |-> h.prefix,
      hasked |-> h.helper, hserver |-> IF viaHelper THEN HelperServer(h) ELSE "",
      huser |-> IF viaHelper THEN "HU" ELSE "", hpass |-> IF viaHelper THEN "HP" ELSE "",
      htok |-> "",
      user |-> IF viaHelper THEN "HU" ELSE IF both THEN h.user ELSE "",
      pass |-> IF viaHelper THEN "HP" ELSE IF both THEN h.pass ELSE "",
      token |-> IF viaHelper THEN "" ELSE h.token]

\* Ping (NoMirrors): one host; ManifestHead on an empty registry: every mirror and the upstream
PingObs(rh, d, r) == {ObsOf(RegHostGet(rh, d, r))}
HeadObs(rh, d, r) ==
  LET h == RegHostGet(rh, d, r) IN
  {ObsOf(h)} \cup {ObsOf(RegHostGet(rh, d, m)) : m \in MirrorSet(h.mirrors)}

\* types/ref/ref.go:New maps the registry of an image reference: "", registry-1.docker.io and
\* index.docker.io become docker.io (ref.NewHost, used for a ping, keeps the name as written)
RefNew(r) == IF r \in {"", DockerDNS, DockerLegacy} THEN DockerName ELSE r

\* all observation sets the options applied so far can lead to (one per surviving-entry choice)
ObsSetsOf(hs, d, kind, r) ==
  {IF kind = "ping" THEN PingObs(rh, d, r) ELSE HeadObs(rh, d, RefNew(r)) : rh \in BuiltSet(FinalHosts(hs, d))}
ObsSets(kind, r) == ObsSetsOf(hosts, def, kind, r)

\* ---------------------------------------- internal/reghttp/http.go:getHost (TLS)
\* The TLS client configuration a connection is made with.  getHost builds it per host from a
\* clone of the TLSClientConfig of the transport it was given and stores it back into that
\* transport: a transport the user passed (reg.WithTransport / WithHTTPClient) is one object
\* shared by all hosts ("shared"), the default transport is cloned per host ("default").
\*   "cloneTransport" (repair): getHost clones a user transport before it changes it
NoTlsCfg == [skip |-> FALSE, roots |-> {}, cert |-> ""]
PairOK(h) == h.ccert # "" /\ h.ckey = KeyOf(h.ccert)
NeedsTls(h) == h.tls = "insecure" \/ h.regcert # "" \/ (h.ccert # "" /\ h.ckey # "")
HostTlsCfg(cur, h) ==
  LET c1 == IF h.tls = "insecure" THEN [cur EXCEPT !.skip = TRUE]
            ELSE [cur EXCEPT !.roots = IF h.regcert = "" THEN {} ELSE {h.regcert}]
  IN IF PairOK(h) THEN [c1 EXCEPT !.cert = h.ccert] ELSE c1
\* st = [tc : config of the shared transport, own : name -> config of the hosts created so far]
TlsInitState == [tc |-> NoTlsCfg, own |-> [k \in {} |-> NoTlsCfg]]
SharedLive(tmode) == tmode = "shared" /\ "cloneTransport" \notin Fix
TlsAfter(st, h, tmode) ==
  IF h.name \in DOMAIN st.own THEN st
  ELSE LET from == IF SharedLive(tmode) THEN st.tc ELSE NoTlsCfg
           cfg == IF NeedsTls(h) THEN HostTlsCfg(from, h) ELSE from
       IN [tc |-> IF SharedLive(tmode) /\ NeedsTls(h) THEN cfg ELSE st.tc,
           own |-> st.own @@ (h.name :> cfg)]
TlsObs(st1, h, tmode) ==          \* st1 = state after getHost(h)
  LET cfg == IF SharedLive(tmode) THEN st1.tc ELSE st1.own[h.name]
      conn == IF h.tls = "disabled" THEN "plain"
              ELSE IF cfg.skip \/ CertOf(h.hostname) \in cfg.roots THEN "tls-ok" ELSE "tls-verify-fail"
  IN [addr |-> h.hostname, conn |-> conn, ccert |-> IF conn = "tls-ok" THEN cfg.cert ELSE ""]
\* the observations of a sequence of pings rs on one client built from (hs, d)
RECURSIVE TlsRun(_, _, _, _, _, _)
TlsRun(rh, d, tmode, rs, i, st) ==
  IF i > Len(rs) THEN <<>>
  ELSE LET h == RegHostGet(rh, d, rs[i])
           st1 == TlsAfter(st, h, tmode)
       IN <<TlsObs(st1, h, tmode)>> \o TlsRun(rh, d, tmode, rs, i + 1, st1)

\* ------------------------------------------------------------- cmd/regctl
\* ConfigLoadConfFile: what the loader makes of the entry h stored under key k
RegctlLoadHost(k, h) ==
  LET h1 == [h EXCEPT !.name = IF h.name = "" THEN k ELSE h.name,
                      !.hostname = IF h.hostname = "" THEN k ELSE h.hostname,
                      !.tls = IF h.tls = "" THEN "enabled" ELSE h.tls]
  IN IF k \in Docker3 \cup (IF "legacyAlias" \in Fix THEN {DockerLegacy} ELSE {})
     THEN [h1 EXCEPT !.name = DockerName,
                     !.hostname = IF h1.hostname = k THEN DockerDNS ELSE h1.hostname,
                     !.credhost = IF h1.credhost = k THEN DockerAuth ELSE h1.credhost]
     ELSE h1

\* newRegClient: docker creds first, then the host default, then one WithConfigHost with the
\* hosts of the config file followed by the --host flags
\* (conf = [docker : docker config or NoDef, def : host record or NoDef, hosts : Seq([k, h]),
\*          flags : Seq(host record with name, user, pass, tls)])
RegctlSources(conf) ==
  (IF conf.docker = NoDef THEN <<>> ELSE <<[k |-> "docker", dc |-> conf.docker]>>)
  \o (IF conf.def = NoDef THEN <<>> ELSE <<[k |-> "default", d |-> conf.def]>>)
  \o (IF Len(conf.hosts) + Len(conf.flags) = 0 THEN <<>>
      ELSE <<[k |-> "host",
              es |-> [i \in 1..Len(conf.hosts) |-> RegctlLoadHost(conf.hosts[i].k, conf.hosts[i].h)]
                     \o conf.flags]>>)
RegctlState(conf) == RunSrcs(NewState, RegctlSources(conf), 1)
=============================================================================

------------------------------ MODULE RegHttpGen ------------------------------
(***************************************************************************)
(* Scenario generator for C12, layer 1: behaviours of RegHttp (composed    *)
(* with the monitor) with a history of everything the design emits.  The   *)
(* history is at the same time the script for the driver (API calls of the *)
(* caller, the reply of every attempt by its raw kind, the passing of      *)
(* time) and the prediction the driver compares the real run with (drift). *)
(* A finished behaviour (every logical request closed, or the client stuck  *)
(* in the throttle for good) is printed once.                              *)
(***************************************************************************)
EXTENDS RegHttpMC, Json
VARIABLE hist
gvars == <<mvars, hist>>

GInit == MCInit /\ hist = <<>>
\* nothing is scripted after the last close
GNext == /\ \E i \in Ids : rs[i].st # "closed"
         /\ ~Blocked
         /\ MCNext
         /\ hist' = hist \o obs'
GSpec == GInit /\ [][GNext]_gvars

Finished == call = NoCall /\ \A i \in Ids : rs[i].st = "closed"
ConfJson == [R |-> conf.R, dmax |-> conf.dmax, up |-> Up, hosts |-> HostSeq,
             prio |-> [i \in 1..Len(HostSeq) |-> conf.prio[HostSeq[i]]],
             n |-> N, conc |-> Conc, req |-> conf.req]
Emit == (Finished \/ Blocked) =>
          PrintT(<<"SCN", ToJson([conf |-> ConfJson, steps |-> hist, blocked |-> IF Blocked THEN 1 ELSE 0])>>)
=============================================================================

------------------------------ MODULE RegHttpGen ------------------------------
(***************************************************************************)
(* Scenario generator for C12, layer 1: behaviours of RegHttp (composed    *)
(* with the monitor) with a history of everything the design emits.  The   *)
(* history is at the same time the script for the driver (API calls of the *)
(* caller, the reply of every attempt by its raw kind, the passing of      *)
(* time) and the prediction the driver compares the real run with (drift). *)
(* A finished behaviour (every logical request closed) is printed once.    *)
(***************************************************************************)
EXTENDS RegHttpMC, Json
VARIABLE hist
gvars == <<mvars, hist>>

GInit == MCInit /\ hist = <<>>
GNext == MCNext /\ hist' = hist \o obs'
         \* nothing to script after the last close
         /\ (\A i \in Ids : rs[i].st = "closed") => FALSE
GSpec == GInit /\ [][GNext]_gvars

Finished == call = NoCall /\ \A i \in Ids : rs[i].st = "closed"
ConfJson == [R |-> conf.R, dmax |-> conf.dmax, up |-> Up, hosts |-> HostSeq,
             prio |-> [i \in 1..Len(HostSeq) |-> conf.prio[HostSeq[i]]],
             n |-> N, req |-> conf.req]
Emit == Finished => PrintT(<<"SCN", ToJson([conf |-> ConfJson, steps |-> hist])>>)
=============================================================================

SPECIFICATION Spec
CONSTANTS
 FewerIsMismatch = TRUE
 NilCreatedSafe = TRUE
 NilPlatformSafe = TRUE
 Mut = "nohistory"
 Level = 0
INVARIANTS Holds
CHECK_DEADLOCK FALSE

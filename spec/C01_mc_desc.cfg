CONSTANTS
 MaxLen = 2
 ReadSizes = {1, 5}
 MaxDrops = 0
 MaxFails = 0
 MaxSeeks = 0
 MaxAgain = 1
 RetryLimit = 3
 Schemes = {"reg"}
 Vias = {"reader"}
 Withs = {TRUE, FALSE}
 Chunks = {5}
 LyingSizes = TRUE
 LieMax = 1
 InlineData = TRUE
 Conc = 3
 Probes = FALSE
 Exts = {0}
 KeepSlots = FALSE
 TarUnverified = FALSE
 MTs = {TRUE, FALSE}
 DigestHdrs = {"absent", "served"}
 Trailers = {FALSE}
 Sts = {"std", "alt"}
 DropKinds = {"ueof"}
INIT Init
NEXT Next
VIEW View
INVARIANTS TypeOK PCleanOk HashIsGot CountIsGot Bounded EofVerified EofSized NeverSelfBlocked NoLeftover WantIsAsked
CHECK_DEADLOCK FALSE

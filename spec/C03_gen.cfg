CONSTANTS
 Confs <- MCConfs
 FixWaitErr = TRUE
 Reduce = FALSE
 MCShapes = {"dup", "idx2", "nested", "art", "artidx", "dtag", "bentry", "docker", "dupentry", "inlinebad", "sha512", "diamond"}
 MCPairs = {"tworeg", "samereg", "samerepo", "reg2dir", "dir2reg", "dir2dir"}
 MCOpts <- MCOptsCore
 MCFeats <- MCFeatsCore
 MCInit = "corners"
 MCTag0 = {"none", "stale", "same"}
 MCByDigest = {FALSE, TRUE}
 MCTgtByDigest = {FALSE}
 MaxFaults = 0
 AllowCancel = FALSE
 AllowCrash = FALSE
 Cap = 0
 Rare = 25
INIT GInit
NEXT GNext
INVARIANTS Emit
CHECK_DEADLOCK FALSE

CONSTANTS
 Tags = {"t1", "t2", "t3"}
 Mans = {"m1", "m2", "m3"}
 TagOrder <- MCTagOrder3
 Procs = {"p1", "p2"}
 Confs <- RegConfs3
 MaxOps = 2
 OpTags = {"t1", "t2"}
 OpMans = {"m1", "m2"}
 OpKinds <- AllKinds
 UseMutex = TRUE
 FreshPH = TRUE
SPECIFICATION Spec
INVARIANTS NoViol Glue Quiescent LayoutGlue WellFormed CacheCoherent GetStable HeadStable
CHECK_DEADLOCK FALSE

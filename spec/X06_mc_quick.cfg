SPECIFICATION Spec
CONSTANTS
 FewerIsMismatch = TRUE
 NilCreatedSafe = TRUE
 NilPlatformSafe = TRUE
 Mut = ""
 Level = 1
INVARIANTS Holds TypeOk RefusedIsErr
CHECK_DEADLOCK FALSE

----------------------------- MODULE ConfFileMC -----------------------------
(***************************************************************************)
(* Model-checking instance of ConfFile (area X02): the scenario space.     *)
(* A scenario = start state of the directory x identity of the process x   *)
(* umask x a sequence (or a racing pair) of commands, each with at most    *)
(* one fault point.  Mirrors no code; the sets below are the bounds of the *)
(* exhaustive check (design.d/X02.md lists them with the state counts).    *)
(***************************************************************************)
EXTENDS ConfFile

V0 == << <<"u1", "enabled">>, <<>>, "0" >>        \* the config every populated start state holds: A logged in
VP == << <<"u2", "disabled">>, <<"tok", "enabled">>, "1" >>   \* the value a "put" writes
VQ == << <<>>, <<"u1", "insecure">>, "0" >>         \* the value the second racing "put" writes
NoFault == [at |-> "none", k |-> 0]

CfgFile(mode, uid, gid) == [kind |-> "file", c |-> V0, n |-> 1, sz |-> 1, mode |-> mode, uid |-> uid, gid |-> gid]
CfgDir(uid, gid) == [kind |-> "dir", c |-> EmptyVal, n |-> 0, sz |-> 0, mode |-> 493, uid |-> uid, gid |-> gid]
St(miss, dm, cfg, stale) == [miss |-> miss, dir_mode |-> dm, cfg |-> cfg, stale |-> stale]
Root == [uid |-> 0, gid |-> 0]
User == [uid |-> 1000, gid |-> 1000]

\* start states for a process of identity id (owner of an existing file: the process itself or somebody else)
StartsNoFile == {St(1, 0, NoCfg, 0), St(2, 0, NoCfg, 0), St(0, 448, NoCfg, 0), St(0, 493, NoCfg, 1)}
StartsFile(id) ==
  {St(0, 448, CfgFile(m, id.uid, id.gid), s) : m \in {384, 420, 416}, s \in {0, 1}}
  \cup {St(0, 493, CfgFile(420, 2000, 2000), 0), St(0, 493, CfgFile(384, 1000, 1000), 0)}
\* a directory in the way, and a truncated (unparsable) file left by some other tool
StartsOdd(id) == {St(0, 448, CfgDir(id.uid, id.gid), 0), St(0, 448, [CfgFile(384, id.uid, id.gid) EXCEPT !.n = 0], 0)}
\* existing files whose owner or group is root while the other is not (finding X02-1, fixed in c56fb15), for a root process
StartsRootGroup == {St(0, 493, CfgFile(432, 0, 2000), 0), St(0, 493, CfgFile(416, 1000, 0), 0)}

C(kind, h, u, v) == [kind |-> kind, h |-> h, u |-> u, v |-> v, val |-> EmptyVal, n |-> 1, fault |-> NoFault]
Put(val, n) == [kind |-> "put", h |-> "", u |-> "", v |-> "", val |-> val, n |-> n, fault |-> NoFault]
Commands == {C("login", "A", "u2", ""), C("login", "B", "u1", ""), C("login", "B", "tok", ""), C("logout", "A", "", ""),
             C("logout", "B", "", ""), C("set", "A", "", "disabled"), C("set", "B", "", "insecure"), C("cset", "", "", "1")}
Puts == {Put(VP, n) : n \in 0..3}

FaultsOf(c) == {NoFault} \cup {[at |-> a, k |-> 0] : a \in {"mkdir", "creat", "close", "stat", "chmod", "chown", "rename"}}
               \cup (IF c.kind = "put" THEN {[at |-> "read", k |-> k] : k \in 0..c.n} ELSE {}) \cup {[at |-> "write", k |-> k] : k \in 0..(c.n - 1)}
WithFaults(cs) == UNION {{[c EXCEPT !.fault = f] : f \in FaultsOf(c)} : c \in cs}

Scn(mode, st, id, um, ws) == [mode |-> mode, start |-> st, id |-> id, umask |-> um, ws |-> ws]
Starts(id) == StartsNoFile \cup StartsFile(id) \cup StartsOdd(id)

\* one command (every kind, every fault point) on every start state, as root and as a user
OneCmdQuick == UNION {{Scn("seq", st, id, 18, <<c>>) : st \in Starts(id), c \in WithFaults(Commands \cup {Put(VP, 2)})}
                      : id \in {Root, User}}
\* sequences of two / three commands, the first possibly faulted
SeqStarts == {St(1, 0, NoCfg, 0), St(0, 448, CfgFile(384, 1000, 1000), 0), St(0, 448, CfgFile(420, 1000, 1000), 1)}
Seq2Quick == {Scn("seq", st, User, 18, <<a, b>>) : st \in SeqStarts, a \in Commands, b \in Commands}
\* two racing saves: two puts of different content, and two commands that load first
RaceStarts == {St(1, 0, NoCfg, 0), St(0, 448, CfgFile(420, 1000, 1000), 0)}
RacePut(n) == {Scn("race", st, User, 18, <<Put(VP, n), Put(VQ, n)>>) : st \in RaceStarts}
RaceCmd == {Scn("race", st, User, 18, <<a, b>>) : st \in RaceStarts,
                                                 a \in {C("login", "A", "u2", ""), C("logout", "A", "", "")},
                                                 b \in {C("login", "B", "u1", ""), C("set", "A", "", "disabled")}}
RaceFault == {Scn("race", st, User, 18, <<a, Put(VQ, 1)>>) : st \in RaceStarts, a \in WithFaults({Put(VP, 1)})}
\* the owner classes of finding X02-1 (hold with Variant = "code"; a counterexample is expected with "asfound")
RootGroup == {Scn("seq", st, Root, 18, <<c>>) : st \in StartsRootGroup, c \in {C("login", "B", "u1", ""), Put(VP, 1)}}

QuickSet == OneCmdQuick \cup Seq2Quick \cup RacePut(1) \cup RaceCmd \cup RootGroup
\* the quick tier splits that product: every fault point without a crash, every unfaulted scenario with crashes
QuickFaultSet == OneCmdQuick
QuickCrashSet == {s \in OneCmdQuick : s.ws[1].fault.at = "none"} \cup Seq2Quick \cup RacePut(1) \cup RaceCmd \cup RootGroup
RaceSet == RacePut(2) \cup RaceCmd \cup RaceFault
\* what the generator prints for the real-code side
GenSeq == OneCmdQuick \cup Seq2Quick \cup RootGroup
GenRace1 == RacePut(1) \cup RaceFault
GenRace2 == RacePut(2)
MutSet == {Scn("seq", st, User, 18, <<c>>) : st \in {St(1, 0, NoCfg, 0), St(0, 448, CfgFile(416, 1000, 1000), 0)},
                                            c \in WithFaults({C("login", "B", "u1", ""), Put(VP, 2)})}
=============================================================================

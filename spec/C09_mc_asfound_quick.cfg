SPECIFICATION Spec
CONSTANTS
 DrainBug = TRUE
 LinkCode = TRUE
 DupPathBug = TRUE
 Ids <- QuickIds
INVARIANTS PropExact Ordered PassBound
CHECK_DEADLOCK TRUE

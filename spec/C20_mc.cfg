\* the design as intended (ManifestDelete validates): all entry points, full name space
CONSTANTS TitleClean = "rooted" ExtractGuard = "reroot" Whiteout = "none" LinkPolicy = "skip" DeleteValidates = TRUE MaxFull = 3 MaxCore = 5
  Eps = {"art", "tar", "lnk", "imp", "lay"}
SPECIFICATION Spec
INVARIANTS Containment Agree
CHECK_DEADLOCK FALSE

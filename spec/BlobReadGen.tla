---------------------------- MODULE BlobReadGen ----------------------------
(* Scenario generator for C01: behaviours of BlobRead (the design spec) with  *)
(* a history of the caller's calls, of the registry's replies (one entry per *)
(* request attempt, in request order, with the concrete body the reply       *)
(* carries) and of the values the design spec predicts each call returns.    *)
(* Used with -simulate (random behaviours) or breadth first with small       *)
(* constants; each finished behaviour is printed once as a JSON scenario.    *)
(* HonestReplies / NoisyReplies restrict the registry's choices so that the  *)
(* random walks spend their time on different regions (cfg: Replies <- ...). *)
EXTENDS BlobRead, Json
VARIABLES calls, replies, rets
gvars == <<vars, calls, replies, rets>>

\* a registry that answers what was asked (the stored content may still be corrupt)
HonestReplies == {r \in AllReplies : r.src = "served" /\ r.start = readCur /\ r.cl \in {"right", "absent"}
                                  /\ r.st = "std"
                                  /\ r.cr = "honest"}
\* a registry that keeps its connections up but lies
NoDropReplies == {r \in AllReplies : r.cut = NoCut}

\* a registry that is honest about offsets and lengths but may serve either content on any request
\* (first pass good, pass after a rewind corrupted, and the other way round)
SwitchReplies == {r \in AllReplies : r.start = readCur /\ r.cl \in {"right", "absent"} /\ r.cr = "honest"
                                   /\ r.st = "std"
                                   /\ r.cut = NoCut}

\* whole-blob replies only: the registry (a confused mirror or cache) serves the stored or the intended
\* blob completely, with every announcement of its digest (the descriptor-shape x digest-header family)
HdrReplies == {r \in AllReplies : r.start = readCur /\ r.cut = NoCut /\ r.cr = "honest" /\ r.st = "std"
                                /\ r.cl \in (IF scn.size = 0 THEN {"right", "absent"} ELSE {"absent"})}

\* whole-blob replies that announce the digest of what they serve: the stated-size family
\* (C01_gen_size.cfg: size right / unknown / larger / smaller x scheme x access path x content)
SizeReplies == {r \in HdrReplies : r.dh = "served"}

RecRet == rets' = IF ret'.seq # ret.seq
                  THEN Append(rets, [op |-> ret'.op, n |-> ret'.n, err |-> ret'.err])
                  ELSE rets
ReplyRec(kind, r) ==
  LET full == Drop(SrcOf(r.src), r.start)
      body == IF r.cut = NoCut THEN full ELSE Take(full, r.cut)
  IN [kind |-> kind, src |-> r.src, start |-> r.start, cl |-> r.cl, cr |-> r.cr, dh |-> r.dh,
      body |-> body, total |-> Len(SrcOf(r.src)), full |-> Len(full),
      end |-> IF r.cut = NoCut THEN "eof" ELSE IF r.dk = "reset" THEN "reset" ELSE "drop",
      range |-> IF RangeReq THEN 1 ELSE 0, off |-> readCur, max |-> readMax,
      ext |-> extused, st |-> r.st]
NoReply == [src |-> "served", start |-> 0, cl |-> "absent", cr |-> "absent", cut |-> 0, dh |-> "absent",
            st |-> "std", dk |-> "ueof"]

GInit == Init /\ calls = <<>> /\ replies = <<>> /\ rets = <<>>
GNext ==
  /\ \/ Open /\ UNCHANGED <<calls, replies>>
     \/ OpenFailed /\ UNCHANGED <<calls, replies>>
     \/ Failed /\ UNCHANGED <<calls, replies>>
     \/ TarStop /\ UNCHANGED <<calls, replies>>
     \/ TarWalkEnd /\ UNCHANGED <<calls, replies>>
     \/ \E k \in KS : Read(k) /\ calls' = Append(calls, [op |-> "read", k |-> k]) /\ UNCHANGED replies
     \/ Seek0 /\ calls' = Append(calls, [op |-> "seek0", k |-> 0]) /\ UNCHANGED replies
     \/ Tell /\ calls' = Append(calls, [op |-> "tell", k |-> 0]) /\ UNCHANGED replies
     \/ SeekBad /\ calls' = Append(calls, [op |-> "seekbad", k |-> 0]) /\ UNCHANGED replies
     \/ Stop /\ UNCHANGED <<calls, replies>>
     \/ GiveUp /\ UNCHANGED <<calls, replies>>
     \/ \E kind \in {"neterr", "http500", "http404"} :
          ServeErr(kind) /\ replies' = Append(replies, ReplyRec(kind, NoReply)) /\ UNCHANGED calls
     \/ \E r \in Replies :
          ServeOK(r) /\ replies' = Append(replies, ReplyRec("ok", r)) /\ UNCHANGED calls
  /\ RecRet
GSpec == GInit /\ [][GNext]_gvars

Emit == Done => PrintT(<<"SCN", ToJson([scn |-> scn, calls |-> calls, replies |-> replies,
                                        rets |-> rets, final |-> cst, got |-> got])>>)
=============================================================================

CONSTANTS
 Copies = {"c1", "c2"}
 Confs <- SameTgtConfs
 MaxCloses = 2
 MaxOps = 1
 KeyMode = "resolve"
 LockRefTgt = TRUE
 CtxKinds = {"bg", "cancelled"}
 MarkCtx = FALSE
 Eager = FALSE
SPECIFICATION Spec
INVARIANTS TypeOK LocksNonNeg LocksExact MarkIsReach FallbackPresent CopyKeeps
PROPERTIES O1 O2 O3 O4 OnlyCloseDeletes
CHECK_DEADLOCK FALSE

----------------------------- MODULE IndexEditMC -----------------------------
(***************************************************************************)
(* X03 - model checking of (D) IndexEdit against (P) IndexEditProp: every  *)
(* sequence of up to MaxCmds commands of an alphabet, from every initial   *)
(* state of the target (5) x registry / layout x target inside the source  *)
(* repository or not x referrers by API or fallback tag.  The monitor runs *)
(* in lock step: Begin = PCmd, every step that changes the repository =    *)
(* PObs, Close = PDone; invariant: the monitor never objects (bad = "").   *)
(* Mirrors no code beyond IndexEdit.                                       *)
(***************************************************************************)
EXTENDS IndexEditAlpha, IndexEditProp, SequencesExt

CONSTANTS Alphabet, MaxCmds
VARIABLE ncmd
mvars == <<vars, pvars, ncmd>>

\* deep audit of the index under the tag
MissingNow(t, m) ==
  IF t.k # "idx" THEN <<>>
  ELSE SetToSeq(UNION {Reach(t.v.ents[i].id) : i \in DOMAIN t.v.ents} \ m)

MBegin == /\ ncmd < MaxCmds /\ \E c \in Alphabet : Allowed(c) /\ Begin(c) /\ PCmd(c)
          /\ ncmd' = ncmd + 1
\* the monitor's part of a step of (D)
Mon ==
  /\ ncmd' = ncmd
  /\ IF pc = "close"
     THEN PDone(IF out = "ok" THEN 0 ELSE 1, IF rf THEN 1 ELSE 0, tag', MissingNow(tag', tman'),
                SetToSeq(tman'), SetToSeq(xt'),
                IF out = "ok" /\ cmd.op = "create" /\ cmd.bydig THEN [k |-> "idx", v |-> newv] ELSE [k |-> "none"])
     ELSE IF <<tman', tidx', tag', xt'>> # <<tman, tidx, tag, xt>> THEN PObs(tag', MissingNow(tag', tman'))
     ELSE UNCHANGED pvars
\* one named action per action of (D), so that TLC's -coverage shows that each of them is taken
MCheckType == CheckType /\ Mon
MLoad == Load /\ Mon
MParsePlats == ParsePlats /\ Mon
MRefHead == RefHead /\ Mon
MCopyBegin == CopyBegin /\ Mon
MCopyStep == CopyStep /\ Mon
MCopyEnd == CopyEnd /\ Mon
MHeads == Heads /\ Mon
MMerge == Merge /\ Mon
MPut == Put /\ Mon
MClose == Close /\ Mon
MRefuse == pc \in {"copying", "put"} /\ Refuse /\ Mon
MInitP == Init /\ ncmd = 0 /\ pcur = tag /\ phave = tman /\ pcmd = NoCmd /\ pwant = None /\ pnew = FALSE /\ bad = ""
MNext == MBegin \/ MCheckType \/ MLoad \/ MParsePlats \/ MRefHead \/ MCopyBegin \/ MCopyStep \/ MCopyEnd \/ MHeads
           \/ MMerge \/ MPut \/ MClose \/ MRefuse
MSpec == MInitP /\ [][MNext]_mvars

Holds == bad = ""
\* the design never leaves a command half way: every behaviour can go on until it is idle again
TypeOk == pc \in {"idle", "type", "load", "plats", "refs", "copy", "copying", "heads", "merge", "put", "close"}
=============================================================================

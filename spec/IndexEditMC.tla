----------------------------- MODULE IndexEditMC -----------------------------
(***************************************************************************)
(* X03 - model checking of (D) IndexEdit against (P) IndexEditProp: every  *)
(* sequence of up to MaxCmds commands of an alphabet, from every initial   *)
(* state of the target (5) x registry / layout x target inside the source  *)
(* repository or not x referrers by API or fallback tag.  The monitor runs *)
(* in lock step: Begin = PCmd, every step that changes the repository =    *)
(* PObs, Close = PDone; invariant: the monitor never objects (bad = "").   *)
(* Mirrors no code beyond IndexEdit.                                       *)
(***************************************************************************)
EXTENDS IndexEdit, IndexEditProp, SequencesExt

CONSTANTS Alphabet, MaxCmds
VARIABLE ncmd
mvars == <<vars, pvars, ncmd>>

C0 == Cmd("add", <<>>, <<>>, <<>>, <<>>, "", "", <<>>, "", "", FALSE, FALSE, FALSE)
Create(refs, plats) == [C0 EXCEPT !.op = "create", !.mt = "oci", !.refs = refs, !.plats = plats]
Add(refs, plats) == [C0 EXCEPT !.refs = refs, !.plats = plats]
Del(digs, plats) == [C0 EXCEPT !.op = "delete", !.digs = digs, !.plats = plats]

AlphaCore == {
  Create(<<"S1:ix1">>, <<"linux/amd64", "linux/arm/v7">>),
  Create(<<"S1:a64", "S1:arm64">>, <<>>),
  [Create(<<"S2:dl1">>, <<"linux/amd64">>) EXCEPT !.mt = "docker", !.ann = <<KV("a", "1")>>, !.at = "application/vnd.example.idx"],
  [Create(<<>>, <<>>) EXCEPT !.digs = <<"armv7", "armv7">>],
  [Create(<<"S1:a64">>, <<>>) EXCEPT !.mt = "bad"],
  [Create(<<"S1:a64">>, <<>>) EXCEPT !.bydig = TRUE],
  [Create(<<"S1:art">>, <<>>) EXCEPT !.subj = "a64", !.at = "application/vnd.example.idx", !.ann = <<KV("org.example.keep", "1")>>],
  [Create(<<>>, <<>>) EXCEPT !.subj = "v1"],
  Add(<<"S1:arm64">>, <<>>),
  [Add(<<"S1:a64">>, <<>>) EXCEPT !.dann = <<KV("a", "1")>>],
  [Add(<<"S1:ix1">>, <<"linux/arm64", "unknown/unknown">>) EXCEPT !.rfr = TRUE],
  [Add(<<"S1:a64">>, <<>>) EXCEPT !.dtags = TRUE],
  Add(<<"S1:nosuch">>, <<>>),
  Add(<<"S1:a64", "S1:nosuch">>, <<>>),
  Add(<<"S2:ixw">>, <<"windows/amd64,osver=10.0.17763", "linux/amd64">>),
  [Add(<<"S1:a64">>, <<>>) EXCEPT !.dplat = "linux/arm64/v8"],
  [Add(<<>>, <<>>) EXCEPT !.digs = <<"ghost">>],
  [Add(<<"S2:ixn">>, <<>>) EXCEPT !.digs = <<"armv8">>],
  Add(<<"S1:a64">>, <<"linux/amd64/bad!">>),
  Del(<<"a64">>, <<>>),
  Del(<<>>, <<"linux/amd64">>),
  Del(<<>>, <<"linux/arm", "windows/amd64,osver=10.0.17763.5458">>),
  Del(<<"art", "d64">>, <<"linux/arm64">>),
  Del(<<>>, <<"lin ux/amd64">>)
}
\* a source that cannot be copied completely (only when the target is not that source repository)
AlphaBroken == {Add(<<"S1:ixb">>, <<>>), Add(<<"S1:ixb">>, <<"linux/arm64">>), Add(<<"S1:arm64", "S1:ixb">>, <<>>)}
\* an unparsable --desc-platform: as found it is swallowed (finding X03-1)
AlphaDescPlat == {[Add(<<"S1:a64">>, <<>>) EXCEPT !.dplat = "linux/amd64/bad!"],
                  [Create(<<"S1:a64">>, <<>>) EXCEPT !.dplat = "lin ux/amd64"]}
AlphaSmall == {Create(<<"S1:ix1">>, <<"linux/amd64", "linux/arm/v7">>), Add(<<"S1:arm64">>, <<>>),
               [Add(<<"S1:a64">>, <<>>) EXCEPT !.dann = <<KV("a", "1")>>], Add(<<"S1:a64", "S1:nosuch">>, <<>>),
               Del(<<"a64">>, <<>>), Del(<<>>, <<"linux/amd64">>), Add(<<"S1:ixb">>, <<>>)}
AlphaAll == AlphaCore \cup AlphaBroken
AlphaKnown == AlphaSmall \cup AlphaDescPlat

Allowed(c) == ~(same /\ \E i \in DOMAIN c.refs : c.refs[i] = "S1:ixb")

\* deep audit of the index under the tag
MissingNow(t, m) ==
  IF t.k # "idx" THEN <<>>
  ELSE SetToSeq(UNION {Reach(t.v.ents[i].id) : i \in DOMAIN t.v.ents} \ m)

MInit == Init /\ PInit /\ ncmd = 0
MBegin == /\ ncmd < MaxCmds /\ \E c \in Alphabet : Allowed(c) /\ Begin(c) /\ PCmd(c)
          /\ ncmd' = ncmd + 1
MStep ==
  /\ Step
  /\ ncmd' = ncmd
  /\ IF pc = "close"
     THEN PDone(IF out = "ok" THEN 0 ELSE 1, IF out = "fail:refused" THEN 1 ELSE 0, tag', MissingNow(tag', tman'),
                SetToSeq(tman'), SetToSeq(xt'),
                IF out = "ok" /\ cmd.op = "create" /\ cmd.bydig THEN [k |-> "idx", v |-> newv] ELSE [k |-> "none"])
     ELSE IF <<tman', tidx', tag', xt'>> # <<tman, tidx, tag, xt>> THEN PObs(tag', MissingNow(tag', tman'))
     ELSE UNCHANGED pvars
\* the first observation: the state the target was set up in
MSetup == /\ pc = "idle" /\ ncmd = 0 /\ pcmd = None /\ pcur = [k |-> "none"] /\ phave = {} /\ tag.k # "none"
          /\ PReset(tag, SetToSeq(tman)) /\ UNCHANGED <<vars, ncmd>>
MInitP == Init /\ ncmd = 0 /\ pcur = tag /\ phave = tman /\ pcmd = None /\ pwant = None /\ pnew = FALSE /\ bad = ""
MNext == MBegin \/ MStep
MSpec == MInitP /\ [][MNext]_mvars

Holds == bad = ""
\* the design never leaves a command half way: every behaviour can go on until it is idle again
TypeOk == pc \in {"idle", "type", "load", "plats", "refs", "copy", "copying", "heads", "merge", "put", "close"}
=============================================================================

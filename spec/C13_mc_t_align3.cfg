\* thorough: as C13_mc_quick with programs of length <= 3
CONSTANTS
 Images <- ImagesAlign
 Options <- OptsAlign
 MaxProg = 3
 Places = {"same-tag"}
 SrcKinds = {"reg"}
 FixData = TRUE
 FixWriter = TRUE
 FixAdded = TRUE
 FixTag = TRUE
 FixClose = TRUE
 FixDesc = TRUE
 Fine = TRUE
SPECIFICATION Spec
INVARIANTS TypeOK PostAligned PostTruthful PostResolves PostNoop PostNoopIff
CHECK_DEADLOCK FALSE

\* as-found switch, crash inside the marker window: CrashStateOK counterexample EXPECTED (finding C07-1 / seeds fixrev-C07-marker-*)
CONSTANTS
 Scenarios <- Populated
 MaxCrash = 1
 MarkerMode = "rewrite"
 MarkerWindow = TRUE
 MaxFault = 0
INIT Init
NEXT Next
INVARIANTS TypeOK NoStuck CrashStateOK ReturnOK RetryOK
CHECK_DEADLOCK FALSE

------------------------------- MODULE Mod -------------------------------
(***************************************************************************)
(* (D) design spec for C13: mod.Apply as implemented in /repo/mod.         *)
(*                                                                         *)
(* Mirrors (file:function -> action / operator):                           *)
(*   mod/mod.go:Apply, option loop            -> ChooseOpt, LoadOptions    *)
(*     (`want` options are passed; `place` is the target form WithRefTgt   *)
(*     selects, `src` whether the source is a registry or an OCI layout)   *)
(*     (every option only registers steps in one of four lists; the lists  *)
(*     are run phase by phase, so only the relative order inside a list    *)
(*     matters: RegM / RegC / RegL / RegF)                                 *)
(*   mod/dag.go:dagWalkManifests + the stepsManifest closures of           *)
(*     mod/layer.go (WithLayerAddTar, WithLayerRmIndex,                    *)
(*     WithLayerRmCreatedBy) and mod/manifest.go (WithAnnotation*,         *)
(*     WithLabelToAnnotation, WithManifestDigestAlgo, WithManifestToOCI,   *)
(*     WithManifestToDocker, rebaseAddStep)   -> ManifestPhase (MStep)     *)
(*   mod/dag.go:dagWalkOCIConfig + mod/config.go closures (WithLabel,      *)
(*     WithEnv, WithConfigCmd, ..., WithBuildArgRm, WithConfigTimestamp,   *)
(*     WithConfigDigestAlgo)                  -> ConfigPhase (CStep)       *)
(*   mod/mod.go:Apply, the closure passed to dagWalkLayers, with           *)
(*     mod/layer.go:WithLayerCompression, WithLayerDigestAlgo (stream      *)
(*     steps) and WithLayerStripFile, WithLayerReproducible,               *)
(*     WithLayerTimestamp, WithFileTarTime (per file steps)                *)
(*                                            -> LayerPhase (LayerWalk)    *)
(*   mod/dag.go:dagPut, image branch: first pass (add / replace), second   *)
(*     pass in reverse (delete), the iConfig alignment of the history,     *)
(*     config push, config data field         -> PutIter (P1Iter, P2Iter), *)
(*                                               PutChild                  *)
(*   mod/dag.go:dagPut, index branch incl. the data field of the child     *)
(*     descriptors, referrers (same repository only), the push condition   *)
(*     of the top manifest                    -> PutTop                    *)
(*                                                                         *)
(* The image is abstract: a layer is a token [id, cv, mt, wc, alg, ok]     *)
(* (identity, content version, announced compression = media type, actual  *)
(* compression of the stored bytes, digest algorithm, "the stored bytes    *)
(* are the layer"); a diff id is [id, cv]; a history entry is empty or     *)
(* names the layer it describes.  An index has two such images.            *)
(*                                                                         *)
(* Deliberate deviations: bytes, sizes and JSON are not modelled (the      *)
(* harness audits them); the data field is a tag (none / right / parent);  *)
(* option parameters are restricted to the vocabulary of the catalogue in  *)
(* harness/cmd/c13drv (static effect tables ChgM / ChgC / FileEff written   *)
(* from the option documentation for exactly those images); attestation    *)
(* children, foreign layers and WithManifestToOCIReferrers are driven on    *)
(* the real code but not predicted here.  The six Fix* constants switch     *)
(* between the code before the repair commits 1c05a04, b052c11, 29901b5,    *)
(* 72c6cba, ccb0066, 27c13f3 (FALSE) and the code as it is now (TRUE):      *)
(* Round 5: the stream handed to WithLayerAddTar has a form (field f of the  *)
(* option: "" plain tar, already compressed gzip / gzipalt / zstd / xz /     *)
(* bzip2, "empty" = no entries, "notrailer" = no end-of-archive blocks).     *)
(* WithLayerAddTar digests the stream as it comes (io.TeeReader in front of  *)
(* archive.Compress), so the diff id is the digest of the layer with the     *)
(* compression its media type announces removed whatever the stream is; what *)
(* the form changes: the per-file walk (archive/tar) of an added layer whose *)
(* payload is a compressed stream fails ("unexpected EOF"), and an added tar *)
(* without entries is "emptied" (deleted) by any per-file step.  Gigo: the   *)
(* caller has a compressed stream announced as an uncompressed tar (media    *)
(* type argument or WithLayerCompression(none)): the stored bytes carry a    *)
(* compression magic the media type denies by the caller's own doing -       *)
(* outside the property, the generator flags such programs and the runner    *)
(* does not drive them.                                                      *)
(*   FixData   dagPut index branch takes the child's body for `data`        *)
(*   FixWriter the per-file rewrite compresses by the current media type    *)
(*   FixAdded  a layer added by WithLayerAddTar carries its descriptor as   *)
(*             newDesc, is read from the target, and a rewrite that changed *)
(*             nothing does not re-push from the consumed reader            *)
(*   FixTag    an unchanged image is still pushed when the target names a   *)
(*             new tag in the same repository                               *)
(*   FixDesc   WithManifestDigestAlgo builds the descriptor of the re-created *)
(*             manifest from the media type alone (before: the descriptor   *)
(*             it was loaded with, whose inline data then went stale into   *)
(*             the subject of the child's referrers)                        *)
(*   FixClose  the layer reader is closed once (before: a second, deferred  *)
(*             Close re-runs the stream steps' close functions; with an OCI *)
(*             layout source that second Close fails half way and leaves    *)
(*             the digest of an inner digest step in newDesc)               *)
(***************************************************************************)
EXTENDS Integers, Sequences, SequencesExt, FiniteSets, TLC

CONSTANTS Images,    \* source images: [n, hist, shape, fam, comp, data, refs, alg, ut]  (ut: every time stamp is one instant)
          Options,   \* option records [k, a, v, i, s, f] a program is built from (f: form of the stream of AddLayer)
          MaxProg,   \* maximal program length
          Places,    \* subset of {"same-digest", "same-tag", "same-replace", "cross"}
          SrcKinds,  \* subset of {"reg", "dir"}: the source is a registry or an OCI layout
          FixData, FixWriter, FixAdded, FixTag, FixClose, FixDesc,
          Fine       \* TRUE: one action per iteration of dagPut's loops

VARIABLES img, place, src, want, prog, pc, kids, topm, st, w, err
vars == <<img, place, src, want, prog, pc, kids, topm, st, w, err>>

----------------------------------------------------------------------------
(* sequences *)
InsAt(s, i, e) == SubSeq(s, 1, i - 1) \o <<e>> \o SubSeq(s, i, Len(s))
DelAt(s, i)    == SubSeq(s, 1, i - 1) \o SubSeq(s, i + 1, Len(s))
PutAt(s, i, e) == [s EXCEPT ![i] = e]
FoldL(f(_, _), acc, s) == FoldLeft(f, acc, s)
RECURSIVE SetToSortedSeq(_)
SetToSortedSeq(S) == IF S = {} THEN <<>> ELSE LET m == CHOOSE x \in S : \A y \in S : x <= y
                                              IN <<m>> \o SetToSortedSeq(S \ {m})

----------------------------------------------------------------------------
(* tokens *)
Tok(id, cv, mt, wc, alg, ok) == [id |-> id, cv |-> cv, mt |-> mt, wc |-> wc, alg |-> alg, ok |-> ok]
Diff(id, cv)  == [id |-> id, cv |-> cv]
NoDiff        == Diff("", -1)
DiffOf(t)     == IF t.ok THEN Diff(t.id, t.cv) ELSE Diff("garbage", 0)
HL(id)        == [e |-> FALSE, id |-> id]      \* history entry of a layer
HE(name)      == [e |-> TRUE, id |-> name]     \* empty_layer entry ("a1", "a2": ARG a<k>)
NewDesc(has, dig, t) == [has |-> has, dig |-> dig, t |-> t]   \* has: MediaType # "", dig: Digest # ""
NoDesc        == NewDesc(FALSE, FALSE, Tok("", 0, "", "", "", TRUE))
\* inl: the descriptor carries inline data, so BlobGet serves the layer from memory, not from the repository
\* form: what the stream of a layer added by WithLayerAddTar was ("" for every other layer)
DagLayer(mod, desc, nd, uc, base) == [mod |-> mod, desc |-> desc, nd |-> nd, uc |-> uc, base |-> base, inl |-> FALSE, form |-> ""]
ZForms == {"gzip", "gzipalt", "zstd", "xz", "bzip2"}      \* the stream is a compressed tar, not a tar

CompOf(im, i) == IF im.comp = "mixed" THEN <<"gzip", "zstd", "none">>[((i - 1) % 3) + 1] ELSE im.comp
LayerId(tag, i) == tag \o <<"1", "2", "3">>[i]
SrcTok(im, tag, i) == LET c == CompOf(im, i) IN Tok(LayerId(tag, i), 0, c, c, im.alg, TRUE)

RECURSIVE HistOf(_, _, _, _)
HistOf(pat, tag, li, ei) ==
  IF pat = <<>> THEN <<>>
  ELSE IF Head(pat) = "L" THEN <<HL(LayerId(tag, li + 1))>> \o HistOf(Tail(pat), tag, li + 1, ei)
       ELSE <<HE(<<"a1", "a2", "a3">>[ei + 1])>> \o HistOf(Tail(pat), tag, li, ei + 1)

Plats(im) == IF im.shape = "image" THEN <<"p1">> ELSE <<"p1", "p2">>

\* dagGet: one child image as loaded
Child(im, p) ==
  [plat |-> p, mod |-> "unchanged", fail |-> "", cfgmod |-> FALSE, nohist |-> (im.hist = <<>>),
   L |-> [i \in 1..im.n |-> SrcTok(im, "L", i)],
   D |-> [i \in 1..im.n |-> Diff(LayerId("L", i), 0)],
   H |-> HistOf(im.hist, "L", 0, 0),
   dls |-> [i \in 1..im.n |-> [DagLayer("unchanged", SrcTok(im, "L", i), NoDesc, NoDiff, FALSE) EXCEPT !.inl = im.data /\ i = 1]],
   ddata |-> im.data,          \* the manifest's own descriptor (from the index entry) carries inline data
   stale |-> FALSE,            \* ... which no longer is the body of the manifest
   subj |-> "none",            \* data in the subject descriptor written into this child's referrer: none / right / stale
   annos |-> {},               \* annotation groups added by this run: "l2a", "x", "base" (for WithAnnotationPromoteCommon)
   cdata |-> (IF im.data THEN "right" ELSE "none"),    \* inline data of the config descriptor
   ldata |-> [i \in 1..im.n |-> IF im.data /\ i = 1 THEN "right" ELSE "none"],
   cfgalg |-> im.alg, malg |-> im.alg, pushed |-> FALSE, cfgpushed |-> FALSE]

Same == place # "cross"

----------------------------------------------------------------------------
(* option vocabulary: which step lists an option registers in *)
RegM(o) == o.k \in {"AddLayer", "RmIndex", "RmCreatedBy", "Annotation", "AnnotationBase", "AnnotationPromote",
                    "LabelToAnnotation", "ManifestDigest", "DigestAlgo", "ToOCI", "ToDocker", "Rebase",
                    "ToOCIReferrers", "ExternalURLsRm"}      \* (the last two: no-ops on the images modelled here)
RegC(o) == \/ o.k \in {"Label", "Env", "Cmd", "Entrypoint", "Platform", "ExposeAdd", "ExposeRm", "VolumeAdd", "VolumeRm",
                       "BuildArgRm", "ConfigTime", "ConfigDigest", "DigestAlgo"}
           \/ o.k \in {"LayerTime", "FileTarTime"} /\ o.a \in {"label", "fromlabel"}
RegL(o) == o.k \in {"Compress", "LayerDigest", "DigestAlgo"}
RegF(o) == o.k \in {"StripFile", "Reproducible", "LayerTime", "FileTarTime"}
Steps(R(_)) == SelectSeq(prog, R)
\* WithData: the last one wins; "keep" = -1 (the default), "zero" = 0, "all" = larger than everything
MaxData == LET ds == SelectSeq(prog, LAMBDA o : o.k = "Data") IN IF ds = <<>> THEN "keep" ELSE ds[Len(ds)].a

\* time option variants that name the instant every time stamp of a uniform-time image already has (UTC, a fixed
\* zone, the local zone, with an earlier `after`): no-ops on such an image, ordinary changes on any other
SameT == {"same", "samezone", "samelocal", "sameafter"}
(* static effect tables for the catalogue images (labels keep=v stamp=..., env PATH E1=v1, cmd /bin/app,  *)
(* entrypoint /entry, port 8080/tcp, volume /data;                                                         *)
(* OCI manifests carry keep.anno=v, children of an index also common.anno=c; Docker manifests carry none)   *)
\* does manifest step o change manifest m (m = "top" | platform) ?  scope of WithAnnotation: no prefix = top only
IsTop(m) == m = "top" \/ img.shape = "image"
IsList(m) == m = "top" /\ img.shape = "index"
ChgM(o, m) ==
  CASE o.k = "Annotation" ->
         LET all == o.a \in {"[*]x"}
             p1 == o.a \in {"[linux/amd64]x"}
             applies == IF all THEN TRUE ELSE IF p1 THEN ~IsList(m) /\ (m = "p1" \/ img.shape = "image") ELSE IsTop(m)
         IN applies /\ CASE o.a = "nosuch" -> FALSE                                  \* delete a missing key
                          [] o.a = "keep.anno" /\ o.v = "" -> img.fam = "oci"       \* delete: only OCI manifests carry it
                          [] o.a = "keep.anno" -> img.fam = "docker"                \* set: already there on OCI manifests
                          [] OTHER -> TRUE
    [] o.k = "AnnotationBase" -> TRUE
    [] o.k = "AnnotationPromote" -> IsList(m) /\ img.fam = "oci"                    \* common.anno is pulled up (TopStep refines)
    [] o.k = "LabelToAnnotation" -> ~IsList(m)
    [] o.k \in {"ManifestDigest", "DigestAlgo"} -> o.a # img.alg
    [] o.k = "ToOCI" -> img.fam = "docker"
    [] o.k = "ToDocker" -> img.fam = "oci"
    [] OTHER -> FALSE
\* does config step o change the config of platform p ?
ChgC(o, p, ch) ==
  CASE o.k = "Label" -> CASE o.a = "keep" -> o.v = ""                               \* delete; keep=v is already set
                          [] o.a = "[linux/arm64]x" -> p = "p2"
                          [] o.v = "" -> FALSE
                          [] OTHER -> TRUE
    [] o.k = "Env" -> ~(o.a = "E1" /\ o.v = "v1")
    [] o.k = "Cmd" -> o.a # "/bin/app"
    [] o.k = "Entrypoint" -> o.a # "/entry"
    [] o.k = "ExposeAdd" -> o.a # "8080/tcp"
    [] o.k = "VolumeAdd" -> o.a # "/data"
    [] o.k = "ExposeRm" -> o.a = "8080/tcp"
    [] o.k = "VolumeRm" -> o.a = "/data"
    [] o.k = "Platform" -> ~(o.a = "linux/amd64" /\ p = "p1")                        \* platform.Match with the config's own
    [] o.k = "BuildArgRm" -> \E j \in 1..Len(ch.H) : ch.H[j].e /\ ch.H[j].id = o.a
    [] o.k = "ConfigTime" -> o.a # "after" /\ ~(o.a \in SameT /\ img.ut)
    [] o.k \in {"ConfigDigest", "DigestAlgo"} -> ch.cfgalg # o.a
    [] OTHER -> FALSE                                                               \* the label readers
\* effect of per-file step o on a layer with identity id: "nop" | "chg" (headers or content rewritten) |
\* "del" (some file deleted) | "all" (every file deleted)
FileEff(o, id) ==
  CASE o.k = "StripFile" -> CASE o.a = "l1" /\ id = "L1" -> "all" [] o.a = "l2" /\ id = "L2" -> "all"
                              [] o.a \in {"l3", "/l3/"} /\ id = "L3" -> "all" [] o.a = "add" /\ id = "NEW" -> "all"
                              [] o.a = "l1/data.txt" /\ id = "L1" -> "del" [] OTHER -> "nop"
    [] o.k = "Reproducible" -> "chg"
    [] o.k = "LayerTime" -> CASE o.a = "after" -> "nop"
                              [] o.a \in SameT /\ img.ut /\ id # "NEW" -> "nop"      \* (the added tar has its own times)
                              [] o.a \in {"base1", "baseref"} /\ id = "L1" -> "nop"
                              [] OTHER -> "chg"
    [] o.k = "FileTarTime" -> IF id = "L1" /\ o.a # "after" /\ ~(o.a \in SameT /\ img.ut) THEN "chg" ELSE "nop"
    [] OTHER -> "nop"

\* "options that change nothing": by the documented meaning of the option on the catalogue image, not by the marks
StaticNoop(o) ==
  LET ms == {"top"} \cup {Plats(img)[c] : c \in 1..Len(Plats(img))}
      ids == {LayerId("L", i) : i \in 1..img.n}
  IN CASE o.k \in {"AddLayer", "RmIndex", "RmCreatedBy", "Rebase"} -> FALSE
       [] o.k = "Data" -> o.a = "keep" \/ (o.a = "zero" /\ ~img.data)
       [] o.k = "Compress" -> \A i \in 1..img.n : CompOf(img, i) = o.a
       [] o.k \in {"LayerDigest", "ConfigDigest", "ManifestDigest", "DigestAlgo"} -> o.a = img.alg
       [] RegF(o) -> \A id \in ids : FileEff(o, id) = "nop"
       [] RegM(o) -> \A m \in ms : ~ChgM(o, m)
       [] RegC(o) -> \A c \in 1..Len(Plats(img)) : ~ChgC(o, Plats(img)[c], Child(img, Plats(img)[c]))
       [] OTHER -> TRUE
\* (of several WithData options only the last one counts)
\* the compression WithLayerAddTar applies for its media type argument ("" = gzip of the manifest's family)
AddComp(mt) == CASE mt = "application/vnd.oci.image.layer.v1.tar+zstd" -> "zstd"
                 [] mt \in {"application/vnd.oci.image.layer.v1.tar", "application/vnd.docker.image.rootfs.diff.tar"} -> "none"
                 [] OTHER -> "gzip"
\* garbage in: a compressed stream that the caller has announced as an uncompressed tar
Gigo == \E j \in 1..Len(prog) : /\ prog[j].k = "AddLayer" /\ prog[j].f \in ZForms
                                /\ \/ AddComp(prog[j].v) = "none"
                                   \/ \E q \in 1..Len(prog) : prog[q].k = "Compress" /\ prog[q].a = "none"
NoopProg == \A j \in 1..Len(prog) :
              (prog[j].k = "Data" /\ (\E q \in (j + 1)..Len(prog) : prog[q].k = "Data")) \/ StaticNoop(prog[j])

----------------------------------------------------------------------------
(* manifest phase: dagWalkManifests runs every manifest step on the children first, then on the top *)
\* SetOrig / SetAnnotation / manifest.New(WithOrig) give the manifest a fresh descriptor: inline data is gone
Mark(ch) == [ch EXCEPT !.mod = IF @ = "unchanged" THEN "replaced" ELSE @, !.ddata = FALSE]
\* WithManifestDigestAlgo re-created the manifest with its old descriptor (manifest.WithDesc): inline data stayed,
\* although the body is re-serialised (stale); repaired: a fresh descriptor
MarkKeep(ch) == IF FixDesc THEN Mark(ch)
                ELSE [ch EXCEPT !.mod = IF @ = "unchanged" THEN "replaced" ELSE @, !.stale = ch.ddata]
Fail(ch, why) == [ch EXCEPT !.fail = why]
Failed(ch) == ch.fail # ""

\* WithLayerRmIndex / WithLayerRmCreatedBy: the k-th (from 0) layer that was not added by this run
RECURSIVE NthOrig(_, _, _)
NthOrig(dls, k, from) == IF from > Len(dls) THEN 0
                         ELSE IF dls[from].mod = "added" THEN NthOrig(dls, k, from + 1)
                         ELSE IF k = 0 THEN from ELSE NthOrig(dls, k - 1, from + 1)
NonEmptyIds(H) == LET s == SelectSeq(H, LAMBDA h : ~h.e) IN [j \in 1..Len(s) |-> s[j].id]
RECURSIVE DelAll(_, _)
DelAll(ch, ks) == IF ks = <<>> \/ Failed(ch) THEN ch
                  ELSE LET at == NthOrig(ch.dls, Head(ks), 1)
                       IN IF at = 0 THEN Fail(ch, "layers missing")
                          ELSE DelAll([ch EXCEPT !.dls[at].mod = "deleted"], Tail(ks))

\* the base images of the rebase option: old = <<L1>> with the history prefix up to it, new = N1 E N2
BaseOldHist(ch) == LET firstL == CHOOSE j \in 1..Len(ch.H) : ~ch.H[j].e /\ \A q \in 1..(j - 1) : ch.H[q].e
                   IN SubSeq(ch.H, 1, firstL)
RECURSIVE Prune(_, _, _)
Prune(dls, num, at) == IF num = 0 \/ at > Len(dls) THEN dls
                       ELSE IF dls[at].mod = "added" THEN Prune(dls, num, at + 1)
                       ELSE Prune(DelAt(dls, at), num - 1, at)
Rebase(ch) ==
  \* rebaseAddStep validates against the manifest's own layers and the config as loaded / modified so far
  IF img.hist = <<>> \/ Len(ch.L) < 1 \/ ch.L[1].id # "L1" \/ ch.L[1].cv # 0 \/ Len(ch.D) < 1
     \/ ch.D[1] # Diff("L1", 0) \/ Len(ch.H) < Len(BaseOldHist(Child(img, ch.plat)))
     \/ SubSeq(ch.H, 1, Len(BaseOldHist(Child(img, ch.plat)))) # BaseOldHist(Child(img, ch.plat))
  THEN Fail(ch, "rebase mismatch")
  ELSE LET nb == [i \in 1..2 |-> SrcTok(img, "N", i)]
           oh == Len(BaseOldHist(Child(img, ch.plat)))
       IN Mark([ch EXCEPT !.dls = [i \in 1..2 |-> DagLayer("unchanged", nb[i], NoDesc, Diff(LayerId("N", i), 0), TRUE)]
                                   \o Prune(ch.dls, 1, 1),
                          !.L = nb \o Tail(ch.L),
                          !.ldata = <<"none", "none">> \o Tail(ch.ldata),
                          !.D = <<Diff("N1", 0), Diff("N2", 0)>> \o Tail(ch.D),
                          !.H = <<HL("N1"), HE("a1"), HL("N2")>> \o SubSeq(ch.H, oh + 1, Len(ch.H)),
                          !.cfgmod = TRUE])

AnnoGroup(o) == CASE o.k = "LabelToAnnotation" -> {"l2a"} [] o.k = "AnnotationBase" -> {"base"}
                  [] o.k = "Annotation" /\ o.a = "[*]x" -> {"x"} [] OTHER -> {}
\* one manifest step on one image manifest (not a list)
MStep(ch, o) ==
  IF Failed(ch) THEN ch
  ELSE CASE o.k = "AddLayer" ->
              IF ch.mod = "deleted" \/ (o.a # "" /\ ch.plat # "p1") THEN ch
              ELSE LET c == AddComp(o.v)        \* the media type argument: "" = gzip of the manifest's family
                       t == Tok("NEW", 0, c, c, ch.malg, TRUE)
                   \* ucDigest = digest of the stream as handed in = the layer without the compression added here
                   IN [ch EXCEPT !.dls = Append(@, [DagLayer("added", t, IF FixAdded THEN NewDesc(TRUE, TRUE, t) ELSE NoDesc,
                                                             Diff("NEW", 0), FALSE) EXCEPT !.form = o.f])]
         [] o.k = "RmIndex" ->
              IF img.shape # "image" THEN Fail(ch, "remove layer by index requires v2 image manifest")
              ELSE LET at == NthOrig(ch.dls, o.i, 1)
                   IN IF at = 0 THEN Fail(ch, "layer not found") ELSE [ch EXCEPT !.dls[at].mod = "deleted"]
         [] o.k = "RmCreatedBy" ->
              LET ids == NonEmptyIds(ch.H)
                  hit == {j \in 1..Len(ids) : ids[j] \in o.s}
              IN IF hit = {} THEN Fail(ch, "no layers match expression")
                 ELSE DelAll(ch, [j \in 1..Cardinality(hit) |-> SetToSortedSeq(hit)[j] - 1])
         [] o.k = "Rebase" -> IF ch.mod = "deleted" THEN ch ELSE Rebase(ch)
         [] o.k \in {"ManifestDigest", "DigestAlgo"} ->
              IF ch.malg = o.a THEN ch ELSE MarkKeep([ch EXCEPT !.malg = o.a])
         [] OTHER -> IF ChgM(o, ch.plat)
                     THEN Mark([ch EXCEPT !.annos = @ \cup AnnoGroup(o)])
                     ELSE ch

\* steps on the index itself (after all children).  WithAnnotationPromoteCommon hands an OCI index to SetOrig,
\* which a Docker manifest list refuses.
TopStep(ks, t, o) ==
  IF t.fail # "" THEN t
  ELSE CASE o.k \in {"ManifestDigest", "DigestAlgo"} -> (IF t.malg = o.a THEN t ELSE [t EXCEPT !.mod = "replaced", !.malg = o.a])
         [] o.k = "AnnotationPromote" ->
              \* annotations every child carries and the index does not have yet
              LET common == {g \in {"l2a", "x", "base"} : \A c \in 1..Len(ks) : g \in ks[c].annos}
                  new == (common \ t.annos) \cup (IF img.fam = "oci" /\ "promoted" \notin t.annos THEN {"promoted"} ELSE {})
              IN IF new = {} THEN t
                 ELSE IF t.fam = "docker" THEN [t EXCEPT !.fail = "unsupported media type"]
                 ELSE [t EXCEPT !.mod = "replaced", !.annos = @ \cup new]
         [] o.k = "ToOCI" -> IF t.fam = "docker" THEN [t EXCEPT !.mod = "replaced", !.fam = "oci"] ELSE t
         [] o.k = "ToDocker" -> IF t.fam = "oci" THEN [t EXCEPT !.mod = "replaced", !.fam = "docker"] ELSE t
         [] OTHER -> IF ChgM(o, "top") THEN [t EXCEPT !.mod = "replaced", !.annos = @ \cup AnnoGroup(o)] ELSE t

----------------------------------------------------------------------------
(* config phase *)
CStep(ch, o) ==
  IF Failed(ch) THEN ch
  ELSE IF ~ChgC(o, ch.plat, ch) THEN ch
  ELSE CASE o.k = "BuildArgRm" -> [ch EXCEPT !.cfgmod = TRUE, !.H = SelectSeq(@, LAMBDA h : ~(h.e /\ h.id = o.a))]
         [] o.k \in {"ConfigDigest", "DigestAlgo"} -> [ch EXCEPT !.cfgmod = TRUE, !.cfgalg = o.a]
         [] OTHER -> [ch EXCEPT !.cfgmod = TRUE]

----------------------------------------------------------------------------
(* layer phase: the closure in Apply, for one dagLayer.  rdr: "nil" | "fresh" | "wrapped" (a stream step    *)
(* finalises newDesc.Digest when it is closed; "wrappedD": the outermost is a digest step, "wrappedDC": a      *)
(* digest step sits inside a compression step) | "tmp" (the re-tarred temp file) | "used" | "usedwrapped"     *)
CurMT(dl) == IF dl.nd.has THEN dl.nd.t.mt ELSE dl.desc.mt
CurAlg(dl) == IF dl.nd.dig THEN dl.nd.t.alg ELSE dl.desc.alg
Replaced(dl) == IF dl.mod = "unchanged" THEN "replaced" ELSE dl.mod

\* WithLayerCompression / WithLayerDigestAlgo on <<dl, rdr>>
LStep(x, o) ==
  LET dl == x[1] rdr == x[2] IN
  IF o.k = "Compress" THEN
       \* desc := dl.desc, or dl.newDesc when that has a media type; same or unknown compression: reader passed through
       IF CurMT(dl) = o.a \/ CurMT(dl) = "" THEN x
       ELSE LET base == IF dl.nd.has THEN dl.nd.t ELSE dl.desc
            IN <<[dl EXCEPT !.mod = Replaced(dl),
                            !.nd = NewDesc(TRUE, TRUE, [base EXCEPT !.mt = o.a, !.wc = o.a]),
                            !.uc = Diff(base.id, base.cv)],
              IF rdr \in {"wrappedD", "wrappedDC"} THEN "wrappedDC" ELSE "wrapped">>    \* a digest step inside a compression step
  ELSE \* LayerDigest / DigestAlgo: newDesc is initialised from desc only for an unchanged layer
       IF CurAlg(dl) = o.a THEN x
       ELSE LET base == IF dl.mod = "unchanged" THEN dl.desc
                        ELSE IF dl.nd.has THEN dl.nd.t ELSE [dl.desc EXCEPT !.mt = ""]
                has == dl.mod = "unchanged" \/ dl.nd.has
            IN <<[dl EXCEPT !.mod = Replaced(dl),
                            !.nd = NewDesc(has, TRUE, [base EXCEPT !.alg = o.a]),
                            !.uc = Diff(base.id, base.cv)], "wrappedD">>

LayerWalk(dl, sL, sF) ==
  IF dl.mod = "deleted" THEN [dl |-> dl, err |-> ""]
  ELSE
  LET srcOK == ~(dl.mod = "added" /\ ~Same /\ ~FixAdded)      \* BlobGet(rSrc, desc of a layer pushed to rTgt)
      \* stream steps
      a == IF sL = <<>> THEN <<dl, "nil">> ELSE FoldL(LStep, <<dl, "fresh">>, sL)
      dlA == a[1] rdrA == a[2]
      \* per file steps
      \* (a tar without entries: no file for a step to act on, and the walk ends with `empty` still true)
      effs == IF dl.form = "empty" THEN {} ELSE {FileEff(sF[j], dl.desc.id) : j \in 1..Len(sF)}
      doF == sF # <<>>
      empty == "all" \in effs \/ (doF /\ dl.form = "empty")
      \* archive/tar on a payload that is itself a compressed stream (one level is removed by the media type only)
      formErr == doF /\ dl.form \in ZForms
      changed == effs \ {"nop"} # {}
      cur == IF dlA.nd.has THEN dlA.nd.t ELSE dlA.desc
      \* a deleted file is skipped by archive/tar with Seek when the reader is the blob reader itself (uncompressed layer,
      \* no stream step in front): BlobReader.Seek refuses ("unable to seek to arbitrary position")
      seekErr == doF /\ effs \cap {"del", "all"} # {} /\ cur.mt = "none" /\ rdrA \in {"nil", "fresh"}
      Wrapped(r) == r \in {"wrapped", "wrappedD", "wrappedDC"}
      wcomp == IF FixWriter THEN cur.mt ELSE dl.desc.mt
      rew == [cur EXCEPT !.cv = @ + 1, !.wc = wcomp]
      useTmp == changed \/ (FixAdded /\ Wrapped(rdrA))      \* repaired: a pending stream step also pushes the temp file
      dlB == IF ~doF THEN dlA
             ELSE IF empty THEN [dlA EXCEPT !.mod = "deleted"]
             ELSE IF useTmp THEN [dlA EXCEPT !.mod = Replaced(dlA), !.nd = NewDesc(cur.mt # "", TRUE, IF changed THEN rew ELSE [cur EXCEPT !.wc = wcomp]),
                                             !.uc = Diff(cur.id, IF changed THEN cur.cv + 1 ELSE cur.cv)]
             ELSE dlA
      rdrB == IF ~doF \/ empty THEN rdrA
              ELSE IF useTmp THEN "tmp"
              ELSE IF FixAdded THEN "nil"                                            \* repaired: nothing to push, reader closed
              ELSE IF Wrapped(rdrA) THEN "usedwrapped" ELSE "used"
      push == dlB.mod \in {"added", "replaced"} /\ rdrB # "nil"
  IN IF (sL # <<>> \/ doF) /\ ~srcOK THEN [dl |-> dl, err |-> "failed to get blob"]
     ELSE IF formErr THEN [dl |-> dl, err |-> "unexpected EOF"]
     ELSE IF seekErr THEN [dl |-> dl, err |-> "unable to seek to arbitrary position"]
     ELSE IF ~push \/ dlB.mod = "deleted" THEN [dl |-> dlB, err |-> ""]
     ELSE CASE rdrB = "usedwrapped" -> [dl |-> dlB, err |-> "layer digest mismatch"]
            [] rdrB = "used" ->        \* the rest of a consumed reader is pushed under an empty descriptor
                 [dl |-> [dlB EXCEPT !.nd = NewDesc(FALSE, TRUE, [dlB.desc EXCEPT !.mt = "", !.ok = FALSE])], err |-> ""]
            [] rdrB = "fresh" ->       \* an added layer re-pushed unchanged: newDesc gets digest and size only
                 [dl |-> [dlB EXCEPT !.nd = IF dlB.nd.has THEN dlB.nd ELSE NewDesc(FALSE, TRUE, [dlB.desc EXCEPT !.mt = ""])], err |-> ""]
            [] rdrB = "wrappedDC" /\ src = "dir" /\ ~dl.inl /\ ~FixClose ->   \* the deferred second Close (of a file) leaves the inner step's digest
                 [dl |-> [dlB EXCEPT !.nd.t.ok = FALSE], err |-> ""]
            [] OTHER -> [dl |-> dlB, err |-> ""]

\* the descriptor dagPut writes for a layer
PutDesc(dl) == IF dl.mod # "unchanged" /\ dl.nd.dig THEN dl.nd.t ELSE dl.desc

----------------------------------------------------------------------------
(* dagPut, image branch.  ic is the code's iConfig + 1 (0 = no history)  *)
DataWanted(has) == MaxData = "all" \/ (MaxData = "keep" /\ has)
SkipE(H, ic) == IF ic = 0 THEN 0
                ELSE CHOOSE j \in ic..(Len(H) + 1) : (j > Len(H) \/ ~H[j].e) /\ \A q \in ic..(j - 1) : H[q].e

\* working state of the two passes over one child: [c, pass, i, ic, L, D, H, ld, changed, err]
P1Iter(x, dls) ==
  LET i == x.i
      dl == dls[i]
      ic1 == SkipE(x.H, x.ic)
      ran == x.ic >= 1 /\ x.ic <= Len(x.H) /\ x.H[x.ic].e          \* the alignment loop iterated at least once
      d == PutDesc(dl)
      wantData == DataWanted(i <= Len(x.ld) /\ x.ld[i] # "none" /\ dl.mod # "added")
      newld == IF wantData THEN "right" ELSE "none"
      nxt(ic) == IF ic >= 1 THEN ic + 1 ELSE ic
  IN IF i > Len(x.L) /\ dl.mod # "added" THEN [x EXCEPT !.err = "manifest does not have enough layers"]
     ELSE IF ran /\ ic1 > Len(x.H) /\ dl.mod # "added" THEN [x EXCEPT !.err = "config history does not have enough entries"]
     ELSE IF dl.mod = "deleted" THEN [x EXCEPT !.i = i + 1, !.ic = nxt(ic1)]
     ELSE IF dl.mod = "added" THEN
            [x EXCEPT !.i = i + 1, !.changed = TRUE,
                      !.L = IF Len(x.L) = i - 1 THEN Append(x.L, d) ELSE InsAt(x.L, i, d),
                      !.ld = IF Len(x.L) = i - 1 THEN Append(x.ld, newld) ELSE InsAt(x.ld, i, newld),
                      !.D = IF Len(x.L) = i - 1 THEN (IF Len(x.D) = i - 1 THEN Append(x.D, dl.uc) ELSE x.D)
                            ELSE (IF Len(x.D) >= i - 1 THEN InsAt(x.D, i, dl.uc) ELSE x.D),
                      !.H = IF ic1 = 0 THEN x.H ELSE IF ic1 > Len(x.H) THEN Append(x.H, HL("NEW")) ELSE InsAt(x.H, ic1, HL("NEW")),
                      !.ic = nxt(ic1)]
     ELSE IF dl.mod = "replaced" \/ x.ld[i] # newld THEN
            [x EXCEPT !.i = i + 1, !.changed = TRUE, !.L = PutAt(x.L, i, d), !.ld = PutAt(x.ld, i, newld),
                      !.D = IF Len(x.D) >= i /\ dl.uc # NoDiff THEN PutAt(x.D, i, dl.uc) ELSE x.D,
                      !.ic = nxt(ic1)]
     ELSE [x EXCEPT !.i = i + 1, !.ic = nxt(ic1)]

RECURSIVE BackE(_, _)
BackE(H, ic) == IF ic >= 1 /\ H[ic].e THEN BackE(H, ic - 1) ELSE ic
P2Iter(x, dls) ==
  LET i == x.i
      dl == dls[i]
      ic1 == BackE(x.H, x.ic)
      prv(ic) == IF ic >= 1 THEN ic - 1 ELSE ic
  IN IF dl.mod # "deleted" THEN [x EXCEPT !.i = i - 1, !.ic = prv(ic1)]
     ELSE [x EXCEPT !.i = i - 1, !.changed = TRUE, !.L = DelAt(x.L, i), !.ld = DelAt(x.ld, i),
                    !.D = IF Len(x.D) >= i THEN DelAt(x.D, i) ELSE x.D,
                    !.H = IF ic1 >= 1 THEN DelAt(x.H, ic1) ELSE x.H,
                    !.ic = prv(ic1)]

StartPut(c) == LET ch == kids[c] IN
  [c |-> c, pass |-> 1, i |-> 1, ic |-> IF ch.nohist THEN 0 ELSE 1, L |-> ch.L, D |-> ch.D, H |-> ch.H, ld |-> ch.ldata,
   changed |-> FALSE, err |-> ""]
PutIter(x) ==
  LET dls == kids[x.c].dls IN
  IF x.err # "" \/ x.pass = 3 THEN x
  ELSE IF x.pass = 1 THEN (IF x.i > Len(dls) THEN [x EXCEPT !.pass = 2, !.i = Len(dls), !.ic = Len(x.H)] ELSE P1Iter(x, dls))
  ELSE (IF x.i < 1 THEN [x EXCEPT !.pass = 3] ELSE P2Iter(x, dls))
RECURSIVE PutRun(_)
PutRun(x) == IF x.err # "" \/ x.pass = 3 THEN x ELSE PutRun(PutIter(x))

\* after the passes: config push, config data field, manifest re-serialisation, manifest push
PutChild(x) ==
  LET ch == kids[x.c]
      cfgmod == ch.cfgmod \/ x.changed
      cwant == DataWanted(ch.cdata # "none")
      cdata == IF cwant THEN "right" ELSE "none"
      changed == x.changed \/ cfgmod \/ cdata # ch.cdata
      mod == IF changed /\ ch.mod = "unchanged" THEN "replaced" ELSE ch.mod
  IN [ch EXCEPT !.L = x.L, !.D = x.D, !.H = x.H, !.ldata = x.ld, !.cfgmod = cfgmod, !.cdata = cdata, !.mod = mod,
                !.ddata = ch.ddata /\ ~changed,
                \* referrers of a rewritten child get dm.m.GetDescriptor() as subject (same repository only; the catalogue
                \* puts a referrer on the first child of an index)
                !.subj = IF img.refs /\ Same /\ img.shape = "index" /\ x.c = 1 /\ mod = "replaced" /\ ch.ddata /\ ~changed
                         THEN (IF ch.stale THEN "stale" ELSE "right") ELSE "none",
                !.cfgpushed = cfgmod \/ ~Same,
                !.pushed = mod \in {"replaced", "added"} \/ (mod = "unchanged" /\ ~Same)
                           \/ (FixTag /\ img.shape = "image" /\ place = "same-tag")]

----------------------------------------------------------------------------
(* dagPut, index branch and the top level *)
EntryData(c) == \* the data field dagPut puts into the index entry of child c
  LET had == kids[c].ddata                                \* the descriptor of a re-serialised child is a fresh one
      inl == DataWanted(had)
  IN IF ~inl THEN "none" ELSE IF FixData THEN "right" ELSE "parent"
PutTop ==
  LET ents == [c \in 1..Len(kids) |-> [data |-> EntryData(c),
                                       fresh |-> kids[c].mod = "replaced" \/ EntryData(c) # (IF img.data THEN "right" ELSE "none")]]
      changed == \E c \in 1..Len(kids) : ents[c].fresh
      mod == IF changed THEN "replaced" ELSE topm.mod
  IN [topm EXCEPT !.mod = mod, !.ents = ents,
                  !.pushed = mod = "replaced" \/ ~Same \/ (FixTag /\ place = "same-tag"),
                  !.refs = IF img.refs /\ Same /\ mod = "replaced" THEN "rewritten" ELSE IF img.refs /\ Same THEN "kept" ELSE "none"]

----------------------------------------------------------------------------
(* the run *)
Init ==
  /\ img \in Images
  /\ place \in Places
  /\ src \in SrcKinds
  /\ want \in 0..MaxProg          \* number of options Apply is called with
  /\ prog = <<>>
  /\ pc = "opts"
  /\ kids = [c \in 1..Len(Plats(img)) |-> Child(img, Plats(img)[c])]
  /\ topm = [mod |-> "unchanged", fail |-> "", fam |-> img.fam, annos |-> {}, malg |-> img.alg, ents |-> <<>>, pushed |-> FALSE, refs |-> "none"]
  /\ st = [sM |-> <<>>, sC |-> <<>>, sL |-> <<>>, sF |-> <<>>]
  /\ w = [c |-> 0, pass |-> 3, i |-> 0, ic |-> 0, L |-> <<>>, D |-> <<>>, H |-> <<>>, ld |-> <<>>, changed |-> FALSE, err |-> ""]
  /\ err = ""

ChooseOpt(o) ==
  /\ pc = "opts" /\ Len(prog) < want
  /\ prog' = Append(prog, o)
  /\ UNCHANGED <<img, place, src, want, pc, kids, topm, st, w, err>>

\* for _, opt := range opts { opt(&dc, dm) }
LoadOptions ==
  /\ pc = "opts" /\ Len(prog) = want
  /\ st' = [sM |-> Steps(RegM), sC |-> Steps(RegC), sL |-> Steps(RegL), sF |-> Steps(RegF)]
  /\ pc' = "manifest"
  /\ UNCHANGED <<img, place, src, want, prog, kids, topm, w, err>>

FirstErr(ks) == LET bad == {c \in 1..Len(ks) : Failed(ks[c])}
                IN IF bad = {} THEN "" ELSE LET c == CHOOSE c \in bad : \A q \in bad : c <= q
                                            IN ks[c].fail
ManifestPhase ==
  /\ pc = "manifest"
  /\ LET ks == [c \in 1..Len(kids) |-> FoldL(MStep, kids[c], st.sM)]
         e == FirstErr(ks)
         t == IF img.shape = "index" THEN FoldL(LAMBDA t, o : TopStep(ks, t, o), topm, st.sM) ELSE topm
     IN IF e # "" THEN err' = e /\ pc' = "done" /\ UNCHANGED <<kids, topm>>
        ELSE IF t.fail # "" THEN err' = t.fail /\ pc' = "done" /\ UNCHANGED <<kids, topm>>
        ELSE /\ kids' = ks
             /\ topm' = t
             /\ pc' = "config" /\ err' = ""
  /\ UNCHANGED <<img, place, src, want, prog, st, w>>

\* the label readers (WithConfigTimestamp / WithLayerTimestamp FromLabel) never fail on catalogue images
ConfigPhase ==
  /\ pc = "config"
  /\ kids' = [c \in 1..Len(kids) |-> FoldL(CStep, kids[c], st.sC)]
  /\ pc' = "layers"
  /\ UNCHANGED <<img, place, src, want, prog, topm, st, w, err>>

\* dagWalkLayers: children in order, layers in order; the first error aborts Apply
WalkNeeded == st.sL # <<>> \/ st.sF # <<>> \/ ~Same \/ \E c \in 1..Len(kids) : \E j \in 1..Len(kids[c].dls) : kids[c].dls[j].base
LayerPhase ==
  /\ pc = "layers"
  /\ LET res == [c \in 1..Len(kids) |-> [j \in 1..Len(kids[c].dls) |->
                    IF WalkNeeded THEN LayerWalk(kids[c].dls[j], st.sL, st.sF) ELSE [dl |-> kids[c].dls[j], err |-> ""]]]
         bad == {p \in UNION {{<<c, j>> : j \in 1..Len(res[c])} : c \in 1..Len(kids)} : res[p[1]][p[2]].err # ""}
     IN IF bad # {}
        THEN LET f == CHOOSE p \in bad : \A q \in bad : p[1] < q[1] \/ (p[1] = q[1] /\ p[2] <= q[2])
             IN err' = res[f[1]][f[2]].err /\ pc' = "done" /\ UNCHANGED <<kids, w>>
        ELSE /\ kids' = [c \in 1..Len(kids) |-> [kids[c] EXCEPT !.dls = [j \in 1..Len(res[c]) |-> res[c][j].dl]]]
             /\ w' = StartPut(1) /\ pc' = "put" /\ err' = ""
  /\ UNCHANGED <<img, place, src, want, prog, topm, st>>

\* dagPut on child w.c: one loop iteration (Fine) or the whole child at once
PutStep ==
  /\ pc = "put"
  /\ LET x == IF Fine THEN PutIter(w) ELSE PutRun(w)
     IN IF x.err # "" THEN err' = x.err /\ pc' = "done" /\ w' = x /\ UNCHANGED kids
        ELSE IF x.pass # 3 THEN w' = x /\ UNCHANGED <<kids, pc, err>>
        ELSE /\ kids' = [kids EXCEPT ![x.c] = PutChild(x)]
             /\ IF x.c < Len(kids) THEN w' = StartPut(x.c + 1) /\ pc' = "put" ELSE w' = x /\ pc' = "top"
             /\ err' = ""
  /\ UNCHANGED <<img, place, src, want, prog, topm, st>>

TopPhase ==
  /\ pc = "top"
  /\ topm' = (IF img.shape = "index" THEN PutTop
              ELSE [topm EXCEPT !.mod = kids[1].mod, !.pushed = kids[1].pushed,
                                !.refs = IF img.refs /\ Same /\ kids[1].mod = "replaced" THEN "rewritten" ELSE IF img.refs /\ Same THEN "kept" ELSE "none"])
  /\ pc' = "done"
  /\ UNCHANGED <<img, place, src, want, prog, kids, st, w, err>>

Next == \/ \E o \in Options : ChooseOpt(o)
        \/ LoadOptions \/ ManifestPhase \/ ConfigPhase \/ LayerPhase \/ PutStep \/ TopPhase
Spec == Init /\ [][Next]_vars

----------------------------------------------------------------------------
(* what the run produced, in the terms of the property *)
Done == pc = "done"
OK == Done /\ err = ""
Unchanged == topm.mod = "unchanged" /\ \A c \in 1..Len(kids) : kids[c].mod = "unchanged" /\ ~kids[c].cfgmod

\* O2: diff ids are the digests of the uncompressed layers; non-empty history lines up with the layers
AlignedChild(ch) ==
  /\ Len(ch.D) = Len(ch.L)
  /\ \A i \in 1..Len(ch.L) : ch.D[i] = DiffOf(ch.L[i])
  /\ ch.nohist \/ NonEmptyIds(ch.H) = [i \in 1..Len(ch.L) |-> ch.L[i].id]
\* O1 (what the model can see of it): announced media type = stored compression, stored bytes are the layer
TruthfulChild(ch) == /\ \A i \in 1..Len(ch.L) : ch.L[i].ok /\ ch.L[i].mt = ch.L[i].wc /\ ch.L[i].mt # ""
                     /\ ch.subj # "stale"
\* O1 data / O3: index entries carry the child's own body, and a rewritten child is named (pushed and entered)
TruthfulTop == img.shape = "index" => \A c \in 1..Len(kids) : topm.ents[c].data \in {"none", "right"}
\* the reference Apply returns resolves: the top manifest exists at the target under the name returned
Resolves == topm.pushed \/ place \in {"same-digest", "same-replace"}

PostAligned == OK => \A c \in 1..Len(kids) : AlignedChild(kids[c])
PostTruthful == OK => (TruthfulTop /\ \A c \in 1..Len(kids) : TruthfulChild(kids[c]))
PostResolves == OK => Resolves
\* O5 in the model: an unchanged DAG pushes nothing new
PostNoop == (OK /\ Unchanged) => \A c \in 1..Len(kids) : kids[c].L = Child(img, kids[c].plat).L /\ kids[c].H = Child(img, kids[c].plat).H

\* the marks agree with the meaning: nothing is marked iff no option changes anything
PostNoopIff == OK => (Unchanged <=> NoopProg)

TypeOK == pc \in {"opts", "manifest", "config", "layers", "put", "top", "done"}
=============================================================================

---------------------------- MODULE PathSafeProp ----------------------------
(***************************************************************************)
(* C20 (P): observation-level monitor.  It knows nothing about regclient:  *)
(* per scenario the harness declares the directory the user designated     *)
(* (plus its own declared scratch, e.g. the source layout it built), and   *)
(* every fact recorded while the real code ran is checked against it:      *)
(*   PWrite   one successful creating / modifying / removing system call   *)
(*            of the traced process tree (openat with a write or create    *)
(*            flag, mkdir*, unlink*, rmdir, rename* (both paths), link*,   *)
(*            symlink*, truncate, chmod) - the path as resolved by the     *)
(*            kernel (physical) and as written (lexical), as segments      *)
(*   PRead    a successful read-only open below the harness tree by a      *)
(*            layout operation ("a layout reference only reads inside its  *)
(*            own directory")                                              *)
(*   PChange  an entry of the before / after listing of the guard          *)
(*            directory and of the scratch root that is new, changed or    *)
(*            gone (second, independent fact)                              *)
(*   PVictim  whether the file placed next to the designated directory     *)
(*            still has its bytes, inode and link count                    *)
(* Obligation (the property statement): each of these lies inside the      *)
(* designated directory (or declared scratch).  bad latches the first      *)
(* violated obligation of the current scenario (it is cleared when the     *)
(* next scenario starts); the invariant is bad = "".                       *)
(***************************************************************************)
EXTENDS Sequences, Integers
VARIABLES allow,   \* sequence of directories (segment sequences): allow[1] = the designated directory
          bad

IsPrefixP(b, p) == Len(p) >= Len(b) /\ SubSeq(p, 1, Len(b)) = b
InsideP(base, p) == IsPrefixP(base, p)
Allowed(p) == \E i \in 1..Len(allow) : InsideP(allow[i], p)
Latch(v) == bad' = IF bad # "" THEN bad ELSE v

PInit == allow = <<>> /\ bad = ""
PScenario(dirs) == allow' = dirs /\ bad' = (IF Len(dirs) = 0 THEN "tooling: no designated directory" ELSE "")
PWrite(call, phys, lex) == /\ UNCHANGED allow
                           /\ Latch(IF ~Allowed(phys) THEN "escape: " \o call \o " outside the designated directory"
                                    ELSE IF ~Allowed(lex) THEN "escape-lexical: " \o call \o " names a path outside the designated directory"
                                    ELSE "")
PRead(phys) == UNCHANGED allow /\ Latch(IF ~Allowed(phys) THEN "read-escape: layout operation opened a file outside its directory" ELSE "")
PChange(what, path) == UNCHANGED allow /\ Latch(IF ~Allowed(path) THEN "audit: entry outside the designated directory is " \o what ELSE "")
PVictim(same) == UNCHANGED allow /\ Latch(IF same # 1 THEN "victim: the file next to the designated directory was modified" ELSE "")
PSkip == UNCHANGED allow /\ Latch("")
POk == bad = ""
=============================================================================

\* repaired design, image / index x OCI / Docker x gzip / none x data x referrers, every single option of the vocabulary, every placement class and source kind
CONSTANTS
 Images <- ImagesShapes
 Options <- OptsAll
 MaxProg = 1
 Places = {"same-digest", "same-tag", "same-replace", "cross"}
 SrcKinds = {"reg", "dir"}
 FixData = TRUE
 FixWriter = TRUE
 FixAdded = TRUE
 FixTag = TRUE
 FixClose = TRUE
 FixDesc = TRUE
 Fine = FALSE
SPECIFICATION Spec
INVARIANTS TypeOK PostAligned PostTruthful PostResolves PostNoop PostNoopIff
CHECK_DEADLOCK FALSE

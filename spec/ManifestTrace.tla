---------------------------- MODULE ManifestTrace ----------------------------
(***************************************************************************)
(* Trace spec / property monitor for C02 over logs recorded from the real  *)
(* types/manifest, scheme/reg and scheme/ocidir code by                    *)
(* harness/cmd/c02drv.  Hashes and lengths in the log are computed by the  *)
(* driver independently (crypto/sha256, crypto/sha512, encoding/json).     *)
(*                                                                         *)
(* "fetch" lines (stateless): a body was offered under a combination of    *)
(*   expected-digest sources; ok = a manifest was returned.                *)
(*     O1 returned only if the governing digest names the served bytes     *)
(*     O2 reported digest / size are hash / length of RawBody(); media     *)
(*        type does not contradict the body's                              *)
(*     O3 RawBody(), MarshalJSON() and what a re-push sends are the served *)
(*        bytes                                                            *)
(* "reset"/"init"/"op" lines (stateful): a setter program on one object.   *)
(*     O4 after every call: descriptor = hash/length of RawBody() =        *)
(*        MarshalJSON(); RawBody() re-parses to the getters' values; an    *)
(*        accepted call changed only the field it names (to the value      *)
(*        given), a refused call changed nothing.                          *)
(***************************************************************************)
EXTENDS Manifest, Json, IOUtils, Integers
Log == ndJsonDeserialize(IOEnv.VERIF_TRACE)
VARIABLES l, bad, cur     \* cur: getter values and digest after the previous call of the program
Ev == Log[l]
First(checks) == IF \E i \in 1..Len(checks) : checks[i][1]
                 THEN checks[CHOOSE i \in 1..Len(checks) : checks[i][1] /\ \A j \in 1..(i-1) : ~checks[j][1]][2]
                 ELSE ""
Wrong == "sha256:" \o "0000000000000000000000000000000000000000000000000000000000000000"
\* raw_len = length of the raw bytes; for a signed schema1 manifest either the length of the document or
\* of its payload is accepted as "the size" (the registry reports the former, the digest names the latter).
\* canon_* = hash/length of the bytes the digest is defined over (the raw bytes, except for a signed
\* schema1 manifest where it is the signed payload, extracted by the driver on its own)
DigestOf(cls, e) == CASE cls = "right256" -> "sha256:" \o e.canon_sha256
                      [] cls = "right512" -> "sha512:" \o e.canon_sha512
                      [] OTHER -> Wrong
Names(dig, s256, s512) == dig = "sha256:" \o s256 \/ dig = "sha512:" \o s512

Sc(e) == [kind |-> e.kind, variant |-> e.variant, desc |-> e.desc, ref |-> e.ref, hdr |-> e.hdr, hdrmt |-> e.hdrmt, via |-> e.via, form |-> e.form]
FetchBad(e) ==
  LET x == Sc(e) IN
  IF x \notin FetchScenarios THEN "tooling:fetch-scenario"
  ELSE IF e.ok = 0 THEN ""
  ELSE First(<<
    <<~MayReturn(x), "fetch: manifest returned although the governing digest does not name the served bytes">>,
    <<Governing(x) # "absent" /\ e.rep_digest # DigestOf(Governing(x), e), "fetch: reported digest is not the expected digest">>,
    \* the digest names the raw bytes (or, for a signed schema1 document, its payload; a signed body served
    \* under another content type is an unsigned document of that type: then the raw bytes)
    <<~(Names(e.rep_digest, e.canon_sha256, e.canon_sha512) \/ Names(e.rep_digest, e.served_sha256, e.served_sha512)),
      "descriptor: digest is not the hash of the raw bytes">>,
    <<e.rep_size \notin {e.canon_len, e.raw_len}, "descriptor: size is not the length of the raw bytes">>,
    <<e.raw_sha256 # e.servedp_sha256, "raw: RawBody() differs from the served bytes">>,
    <<e.mj_sha256 # e.servedp_sha256, "raw: MarshalJSON() differs from the served bytes">>,
    <<e.body_mt # "" /\ e.rep_mt # e.body_mt, "mediatype: reported media type contradicts the body">>,
    <<e.put_done = 1 /\ e.put_sha256 # e.servedp_sha256, "raw: re-push sent different bytes">>,
    <<e.put_done = 1 /\ e.put_digest # e.rep_digest, "raw: re-push changed the digest">> >>)

G(e) == [ann |-> e.g_ann, config |-> e.g_config, layers |-> e.g_layers, mlist |-> e.g_mlist, subject |-> e.g_subject]
R(e) == [ann |-> e.r_ann, config |-> e.r_config, layers |-> e.r_layers, mlist |-> e.r_mlist, subject |-> e.r_subject]
\* O2/O4 coherence of one observed object state
Coherent(e) == <<
    <<~Names(e.rep_digest, e.canon_sha256, e.canon_sha512), "descriptor: digest is not the hash of the serialisation">>,
    <<e.rep_size \notin {e.canon_len, e.raw_len}, "descriptor: size is not the length of the serialisation">>,
    <<e.mj_sha256 # e.raw_sha256, "raw: MarshalJSON() differs from RawBody()">>,
    <<G(e) # R(e), "reparse: serialisation does not parse back to the getters' values">>,
    <<e.body_mt # "" /\ e.rep_mt # e.body_mt, "mediatype: reported media type contradicts the serialisation">> >>
OpBad(e) ==
  LET op == <<e.op, e.arg>> IN
  IF op \notin Ops THEN "tooling:op"
  ELSE IF e.err # 0
       THEN First(<< <<G(e) # cur.g \/ e.rep_digest # cur.digest, "frame: a refused call changed the manifest">> >> \o Coherent(e))
       ELSE First(Coherent(e) \o <<
              <<\E f \in Fields \ Frame(op) : G(e)[f] # cur.g[f], "frame: setter changed a field it does not name">>,
              <<op[1] # "orig" /\ G(e)[op[1]] # e.want, "frame: getter does not return the value that was set">> >>)

TInit == l = 1 /\ bad = "" /\ cur = [g |-> [ann |-> "", config |-> "", layers |-> "", mlist |-> "", subject |-> ""], digest |-> ""]
TNext ==
  /\ l <= Len(Log)
  /\ l' = l + 1
  /\ \/ Ev.ev = "fetch" /\ bad' = FetchBad(Ev) /\ UNCHANGED cur
     \/ Ev.ev = "reset" /\ bad' = "" /\ UNCHANGED cur
     \/ Ev.ev = "init" /\ bad' = First(Coherent(Ev)) /\ cur' = [g |-> G(Ev), digest |-> Ev.rep_digest]
     \/ Ev.ev = "op" /\ bad' = OpBad(Ev) /\ cur' = [g |-> G(Ev), digest |-> Ev.rep_digest]
     \/ Ev.ev = "skip" /\ bad' = "" /\ UNCHANGED cur
TSpec == TInit /\ [][TNext]_<<l, bad, cur>>
Ok == bad = ""
HW == TLCSet(1, IF TLCGet(1) > l THEN TLCGet(1) ELSE l)
Accepted == PrintT(<<"HIGHWATER", TLCGet(1), Len(Log)>>)
ASSUME TLCSet(1, 0)
=============================================================================

CONSTANTS TitleClean = "rooted" ExtractGuard = "reroot" Whiteout = "none" LinkPolicy = "skip" DeleteValidates = TRUE MaxFull = 3 MaxCore = 4
  Eps = {"art", "tar", "lnk", "imp", "lay"}
SPECIFICATION Spec
INVARIANTS Containment Agree
CHECK_DEADLOCK FALSE

CONSTANTS
  Ops <- MCOps
  Hosts <- MCHosts
  Confs <- MCConfs
  RetryLimit <- MCRetry
  LeakOn <- MCLeak
  NOps = 2
  MaxFail = 1
  MaxRestart = 1
  Limits = {1}
  Leak = ""
SPECIFICATION FairSpec
PROPERTY Terminates
CHECK_DEADLOCK FALSE

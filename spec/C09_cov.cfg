INIT Init
NEXT CovNext
CONSTANTS
 DrainBug = FALSE
 LinkCode = FALSE
 DupPathBug = FALSE
 Ids <- QuickIds
POSTCONDITION Report
CHECK_DEADLOCK TRUE

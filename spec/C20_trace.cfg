CONSTANTS TitleClean = "rooted" ExtractGuard = "reroot" Whiteout = "none" LinkPolicy = "skip" DeleteValidates = TRUE MaxFull = 1 MaxCore = 1
SPECIFICATION TSpec
CONSTRAINT HW
INVARIANT Ok
POSTCONDITION Accepted
CHECK_DEADLOCK FALSE

---------------------------- MODULE ReferrersTrace ----------------------------
(***************************************************************************)
(* Trace spec for C10: replays an ndjson log recorded by harness/cmd/c10drv *)
(* from the real regclient (RegClient.ManifestPut / ManifestDelete with     *)
(* WithManifestCheckReferrers / ReferrerList / ManifestGet on simreg or on  *)
(* an OCI layout) through the monitor ReferrersProp.  One event per line;   *)
(* every trace starts with a reset line carrying the header (mode and the   *)
(* subject map sa1, sa2, sa3).  The monitor is deterministic, overlapping   *)
(* calls are resolved inside it (any linearisation is accepted).            *)
(***************************************************************************)
EXTENDS ReferrersProp, Json, IOUtils, Integers
Log == ndJsonDeserialize(IOEnv.VERIF_TRACE)
VARIABLE l
Ev == Log[l]
\* JSON arrays arrive as tuples; an empty array may arrive as an empty record/tuple
AsSeq(x) == IF DOMAIN x = {} THEN <<>> ELSE x
AsSet(x) == IF DOMAIN x = {} THEN {} ELSE Range(x)
SubjOf(e) == [a \in Arts |-> CASE a = "a1" -> e.sa1 [] a = "a2" -> e.sa2 [] OTHER -> e.sa3]
TInit == PInit /\ l = 1
TNext ==
  /\ l <= Len(Log)
  /\ l' = l + 1
  /\ \/ Ev.ev = "reset" /\ PReset(Ev.mode, SubjOf(Ev))
     \/ Ev.ev = "call" /\ PCall(Ev.id, Ev.k, Ev.a)
     \/ Ev.ev = "ret" /\ PRet(Ev.id, Ev.res)
     \/ Ev.ev = "stored" /\ PStored(AsSet(Ev.set))
     \/ Ev.ev = "list" /\ PList(Ev.s, Ev.f, AsSeq(Ev.res), AsSeq(Ev.types), AsSeq(Ev.anns), Ev.err)
     \/ Ev.ev = "tag" /\ PTag(Ev.s, AsSeq(Ev.res), AsSeq(Ev.types), AsSeq(Ev.anns))
     \/ Ev.ev = "fetch" /\ PFetch(IF Ev.got = Ev.asked THEN "same"
                                     ELSE IF Ev.got \in {"notfound", "error"} THEN Ev.got ELSE "other")
     \/ Ev.ev = "note" /\ PNote
TSpec == TInit /\ [][TNext]_<<pvars, l>>
HW == TLCSet(1, IF TLCGet(1) > l THEN TLCGet(1) ELSE l)
Accepted == PrintT(<<"HIGHWATER", TLCGet(1), Len(Log)>>)
ASSUME TLCSet(1, 0)
=============================================================================

---------------------------- MODULE ReferrersTrace ----------------------------
(***************************************************************************)
(* Trace spec for C10: replays an ndjson log recorded by harness/cmd/c10drv *)
(* from the real regclient (RegClient.ManifestPut / ManifestDelete with     *)
(* WithManifestCheckReferrers / ReferrerList / ManifestGet on simreg or on  *)
(* an OCI layout) through the monitor ReferrersProp.  One event per line;   *)
(* every trace starts with a reset line carrying the header (mode and the   *)
(* subject map sa1, sa2, sa3).  The monitor is deterministic and total,     *)
(* overlapping calls are resolved inside it (any linearisation accepted).   *)
(*   TSpec     stops at the first violated obligation (INVARIANT Ok): the   *)
(*             standard path (vlib validate_batch).                         *)
(*   TSpecAll  same steps, but a violated obligation is printed             *)
(*             (<<"REJ", trace, line, obligation>>) and cleared, so one     *)
(*             pass reports every rejection of a large batch.               *)
(***************************************************************************)
EXTENDS ReferrersProp, Json, IOUtils, Integers
Log == ndJsonDeserialize(IOEnv.VERIF_TRACE)
VARIABLES l, tid
Ev == Log[l]
\* JSON arrays arrive as tuples; an empty array as an empty function
AsSeq(x) == IF DOMAIN x = {} THEN <<>> ELSE x
AsSet(x) == IF DOMAIN x = {} THEN {} ELSE Range(x)
HdrSubj(e) == [a \in Arts |-> CASE a = "a1" -> e.sa1 [] a = "a2" -> e.sa2 [] OTHER -> e.sa3]
\* header field na: the artifacts without annotations (absent in logs of older drivers)
HdrNa(e) == IF "na" \in DOMAIN e THEN AsSet(e.na) ELSE {}
TInit == PInit /\ l = 1 /\ tid = ""
TNext ==
  /\ l <= Len(Log)
  /\ l' = l + 1
  /\ tid' = IF Ev.ev = "reset" THEN Ev.trace ELSE tid
  /\ \/ Ev.ev = "reset" /\ PReset(Ev.mode, HdrSubj(Ev), HdrNa(Ev))
     \/ Ev.ev = "call" /\ PCall(Ev.id, Ev.k, Ev.a)
     \/ Ev.ev = "ret" /\ PRet(Ev.id, Ev.res)
     \/ Ev.ev = "stored" /\ PStored(AsSet(Ev.set))
     \/ Ev.ev = "list" /\ PList(Ev.s, Ev.f, AsSeq(Ev.res), AsSeq(Ev.types), AsSeq(Ev.anns), Ev.err)
     \/ Ev.ev = "tag" /\ PTag(Ev.s, AsSeq(Ev.res), AsSeq(Ev.types), AsSeq(Ev.anns))
     \/ Ev.ev = "fetch" /\ PFetch(IF Ev.got = Ev.asked THEN "same"
                                     ELSE IF Ev.got \in {"notfound", "error"} THEN Ev.got ELSE "other", Ev.view)
     \/ Ev.ev = "note" /\ PNote
TSpec == TInit /\ [][TNext]_<<pvars, l, tid>>
\* report-and-continue: the event at line l-1 violated obligation `bad`
TNextAll ==
  IF bad # ""
  THEN /\ PrintT(<<"REJ", tid, l - 1, bad>>)
       /\ bad' = ""
       /\ UNCHANGED <<subj, mode, na, pend, poss, cur, quiet, l, tid>>
  ELSE TNext
TSpecAll == TInit /\ [][TNextAll]_<<pvars, l, tid>>
HW == TLCSet(1, IF TLCGet(1) > l THEN TLCGet(1) ELSE l)
Accepted == PrintT(<<"HIGHWATER", TLCGet(1), Len(Log)>>)
ASSUME TLCSet(1, 0)
=============================================================================

------------------------------ MODULE BlobRead ------------------------------
(***************************************************************************)
(* (D) design spec for C01: the blob reader stack of regclient as one      *)
(* state machine.  One unit = one content symbol (the driver maps a symbol *)
(* to a 1-byte or a 512-byte block; with 1-byte blocks the model is byte   *)
(* exact, including the +1 probe byte of LimitRead).                       *)
(*                                                                         *)
(* Code mirrored (file:function per action / operator)                     *)
(*   Open        blob.go:RegClient.BlobGet (inline Data first, else the    *)
(*               scheme), types/descriptor/descriptor.go:GetData,          *)
(*               scheme/ocidir/blob.go:BlobGet (open file, size from stat  *)
(*               when the descriptor has none), scheme/reg/blob.go:BlobGet *)
(*               (reghttp.Do with ExpectLen = descriptor size),            *)
(*               types/blob/reader.go:NewReader (size from Content-Length  *)
(*               when the descriptor has none; LimitRead only when size>0) *)
(*   OpenFailed  scheme/reg/blob.go:BlobGet: fall back to descriptor.URLs   *)
(*   Failed      BlobGet (status other than 200) / Seek return their error  *)
(*   ServeOK     environment: one 2xx reply of the registry, then          *)
(*               internal/reghttp/http.go:Resp.next lines 481-505          *)
(*               (Content-Length check only at offset 0, Content-Range     *)
(*               presence check on a Range request)                        *)
(*   ServeErr    environment: transport error / 5xx (back-off, same host   *)
(*               again) or 404 (host dropped); Resp.next lines 427-479,    *)
(*               512-535, Resp.backoffSet                                  *)
(*   GiveUp      Resp.next line 274: retryCount > retryLimit               *)
(*   Read(k)     types/blob/reader.go:BReader.Read -> io.TeeReader ->      *)
(*               internal/limitread/limitread.go:LimitRead.Read ->         *)
(*               internal/reghttp/http.go:Resp.Read (readCur/readMax, done,*)
(*               short read => backoffSet + next() with Range) -> body;    *)
(*               for ocidir / inline data the body is *os.File /           *)
(*               *bytes.Reader.  When Resp.Read has to resume, the action  *)
(*               stops at pc = "req" with the partial result in `pend` and *)
(*               is completed by the reply (Succeed / Fail).               *)
(*   Deliver     the way back up: LimitRead accounting (limitread.go:24),  *)
(*               TeeReader hash write, BReader.Read EOF-time size and      *)
(*               digest comparison (reader.go:112-127)                     *)
(*   Seek0       BReader.Seek(0, io.SeekStart) -> Resp.Seek (re-request    *)
(*               when readCur # 0, retryCount--) / File.Seek /             *)
(*               bytes.Reader.Seek; reset of LimitRead, digester, readBytes*)
(*   Tell        BReader.Seek(0, io.SeekCurrent): position = readBytes      *)
(*   SeekBad     BReader.Seek elsewhere: refused without side effect        *)
(*   TarStop     archive/tar.Reader.Next returns io.EOF at the end-of-      *)
(*               archive marker without reading the blob to its end         *)
(*   TarWalkEnd  BTarReader.ReadFile over such an archive: drain, ignore    *)
(*               the drain's error, compare the digest only                 *)
(*   Stop        the caller stops after an end (clean or error)            *)
(*   via tar*    types/blob/reader.go:ToTarReader hands the BReader itself *)
(*               (reduced to Read) to types/blob/tar.go:NewTarReader, so   *)
(*               the tar paths read through BReader.Read and its EOF-time  *)
(*               checks: tarraw = BTarReader.RawBody (io.ReadAll), tarwalk *)
(*               = BTarReader.ReadFile of an absent name (walk to the end, *)
(*               only io.EOF itself ends it), tariter = GetTarReader +     *)
(*               Next() until io.EOF.  TarUnverified = TRUE is the code as *)
(*               found (findings/C01-1.md, repaired by d52d44b): the inner *)
(*               reader Tee(LimitRead(src)) was handed over, BReader.Read  *)
(*               was bypassed; RawBody / ReadFile compared the digest only *)
(*               and the iteration compared nothing.                       *)
(*                                                                         *)
(* The digest is an ideal hash: digest(x) = digest(y) iff x = y, so the    *)
(* digester state is the sequence hashed so far.                           *)
(*                                                                         *)
(* The host throttle (internal/pqueue through Resp.next / Resp.Close) is    *)
(* modelled as the number of slots the response holds (`held`): one for a  *)
(* successful request, given back when the response restarts its request.  *)
(* With KeepSlots = TRUE (the code before the repair of findings/C01-2) the *)
(* slot is not given back and NeverSelfBlocked fails with Conc = 3.         *)
(*                                                                         *)
(* Deliberate deviations: one host, no mirrors, no auth round trips, no    *)
(* Retry-After header; backoffReset's "more than 5 successes" branch is    *)
(* not reachable within the bounds and is left out; the doubled            *)
(* LimitRead/TeeReader of the tar path is modelled once (both limits move  *)
(* in lock step); wall-clock back-off delays are not modelled; Close is    *)
(* not modelled (no effect on what is delivered).  A caller that gets an   *)
(* error from BlobGet or Seek stops.                                       *)
(***************************************************************************)
EXTENDS Integers, Sequences, FiniteSets, TLC

CONSTANTS
  MaxLen,      \* longest intended content, in symbols
  ReadSizes,   \* caller buffer sizes (units) for via = "reader"
  MaxDrops,    \* mid-body connection drops the registry may inject
  MaxFails,    \* failed requests (transport error / 5xx / 404) it may inject
  MaxSeeks,    \* Seek(0, SeekStart) calls the caller may make
  MaxAgain,    \* reads the caller may make after the stream has ended
  RetryLimit,  \* reghttp retryLimit (the driver configures the same value)
  Schemes,     \* subset of {"reg", "ocidir"}
  Vias,        \* subset of {"reader", "tarraw", "tarwalk", "tariter"}
  Withs,       \* subset of BOOLEAN: body returns EOF together with the last data
  Chunks,      \* max units one body read returns (1 = byte-wise source, Big = all)
  LyingSizes,  \* BOOLEAN: also descriptors whose size contradicts the digest
  LieMax,      \* ... by up to this many symbols, larger or smaller
  InlineData,  \* BOOLEAN: also descriptors with an inline Data field
  Conc,        \* config.Host.ReqConcurrent of the registry (regclient's default is 3)
  Probes,      \* BOOLEAN: the caller may also ask for its position / try an arbitrary seek
  Exts,        \* subset of 0..2: number of external URLs of the descriptor (descriptor.URLs)
  KeepSlots,   \* BOOLEAN: TRUE = throttle handling before the repair (findings/C01-2.md)
  TarUnverified, \* BOOLEAN: TRUE = tar paths as found, bypassing BReader.Read (findings/C01-1.md)
  MTs,         \* subset of BOOLEAN: the descriptor carries a media type (FALSE + size 0 = digest only)
  Trailers,    \* subset of BOOLEAN: the tar access paths read an archive that ends with the
               \* end-of-archive marker (two zero blocks), as every real layer does
  Sts,         \* status of a 2xx reply: subset of {"std" (200, 206 for a Range request), "alt"
               \* (206 for a plain request, 200 for a Range request)}
  DropKinds,   \* how a cut body fails: subset of {"ueof" (io.ErrUnexpectedEOF), "reset" (another error)}
  DigestHdrs   \* Docker-Content-Digest of a 2xx reply: subset of {"absent", "echo" (what was asked
               \* for), "served" (digest of what the reply's source holds), "servedother" (the same
               \* with the other algorithm), "garbage"}

VARIABLES
  scn,       \* the scenario: descriptor, stored content, scheme, access path (constant)
  pc,        \* "closed" | "req" (a request is in flight) | "openfailed" | "ready" | "stopped"
  why,       \* why the request in flight was sent: "open" | "resume" | "seek"
  pend,      \* partial result of the Resp.Read that is resuming
  src,       \* "http" (reghttp.Resp) | "file" (*os.File) | "mem" (*bytes.Reader)
  conn,      \* current body: [data |-> units not yet read, end |-> "eof" | "drop"]
  readCur, readMax, rdone, retry,   \* reghttp.Resp: readCur, readMax, done, retryCount
  backoff,   \* reghttp.clientHost.backoffCur
  held,      \* throttle slots of the host held by this response (pqueue, via Resp.throttleDone)
  drops, fails,                     \* environment budgets used so far
  lim,       \* limitread.LimitRead.Limit, NoLim when there is no LimitRead
  rbytes,    \* blob.BReader.readBytes
  bsize,     \* blob.BReader.desc.Size (set at EOF when it was 0)
  hashed,    \* input of blob.BReader.digester so far
  bdig,      \* blob.BReader.desc.Digest, as the content it names
  got,       \* what the caller has been handed since the last rewind (observation)
  cst,       \* "reading" | "clean" | "error" (observation: how the stream ended)
  ret,       \* last return value seen by the caller
  seeks, again,
  extused    \* how many external URLs of the descriptor have been tried (scheme/reg/blob.go:66)

tvars == <<conn, readCur, readMax, rdone, retry, backoff, held, drops, fails>>
rvars == <<lim, rbytes, bsize, hashed, bdig>>
vars == <<scn, pc, why, pend, src, tvars, rvars, got, cst, ret, seeks, again, extused>>

Sym == {"a", "b"}
Other(s) == IF s = "a" THEN "b" ELSE "a"
SeqsUpTo(n) == UNION {[1..k -> Sym] : k \in 0..n}
Content == SeqsUpTo(MaxLen)
Big == MaxLen + 5
NoLim == -9
NoCut == -1
NoData == <<"-">>
\* the end-of-archive marker of a tar stream: two zero blocks (symbol "z", only ever a suffix)
Trailer(tr) == IF tr THEN <<"z", "z">> ELSE <<>>
NoPend == [n |-> 0, data |-> <<>>, err |-> "none"]

Min(a, b) == IF a < b THEN a ELSE b
Max(a, b) == IF a > b THEN a ELSE b
Take(s, n) == SubSeq(s, 1, Min(n, Len(s)))
Drop(s, n) == SubSeq(s, Min(n, Len(s)) + 1, Len(s))
Flip(c, i) == [c EXCEPT ![i] = Other(c[i])]
Subst(c) == IF c = <<>> THEN <<"b">> ELSE [i \in 1..Len(c) |-> Other(c[i])]

\* what the store may hold in place of the intended content: the content itself, one symbol
\* flipped, every proper prefix, one extra trailing symbol, a different blob altogether
ServedOf(c) == {c} \cup {Flip(c, i) : i \in 1..Len(c)} \cup {Take(c, i) : i \in 0..(Len(c) - 1)}
               \cup {Append(c, s) : s \in Sym} \cup {Subst(c)}
SizesOf(c) == {0, Len(c)} \cup (IF LyingSizes
                                 THEN {Len(c) + d : d \in 1..LieMax} \cup ({Len(c) - d : d \in 1..LieMax} \cap (1..MaxLen))
                                 ELSE {})
DataOf(c) == IF InlineData
             THEN {NoData, c, Append(c, "a")} \cup {Flip(c, i) : i \in {1} \cap (1..Len(c))}
             ELSE {NoData}

\* the blob file of a layout: with scn.late it still holds the intended content when it is opened
\* and is overwritten with the corrupted content before the caller rewinds (the registry side of
\* the same story is a seek-restart reply served from another source)
FileAtOpen == IF scn.late THEN scn.intended ELSE scn.served
Inline == IF scn.data = NoData THEN <<>> ELSE scn.data
\* types/descriptor/descriptor.go:GetData
DataOK == Len(Inline) = scn.size /\ Inline = scn.intended
\* which end-of-stream comparison the access path performs
Check == CASE scn.via = "reader" \/ ~TarUnverified -> "full"
           [] scn.via \in {"tarraw", "tarwalk"} -> "digest"
           [] OTHER -> "none"
KS == IF scn.via = "reader" THEN ReadSizes ELSE {Big}

R(op, n, err) == [seq |-> ret.seq + 1, op |-> op, n |-> n, err |-> err]
ByErr(e) == IF e = "none" THEN "reading" ELSE IF e = "eof" THEN "clean" ELSE "error"

Init ==
  /\ \E v \in Vias : \E tr \in (IF v = "reader" THEN {FALSE} ELSE Trailers) :
     \E c \in Content : \E sz \in (IF tr THEN {0, Len(c) + 2} ELSE SizesOf(c)) : \E sv \in ServedOf(c) :
     \E d \in DataOf(c \o Trailer(tr)) : \E sch \in Schemes :
     \E w \in (IF sch = "reg" THEN Withs ELSE {FALSE}) : \E ch \in (IF sch = "reg" THEN Chunks ELSE {Big}) :
     \E lt \in (IF sch = "ocidir" /\ sv # c THEN BOOLEAN ELSE {FALSE}) :
     \E ex \in (IF sch = "reg" THEN Exts ELSE {0}) :
     \E mt \in (IF sch = "reg" THEN MTs ELSE {TRUE}) :
        scn = [intended |-> c \o Trailer(tr), size |-> sz, served |-> sv \o Trailer(tr), data |-> d,
               scheme |-> sch, via |-> v, with |-> w, chunk |-> ch, late |-> lt, ext |-> ex, mt |-> mt,
               trailer |-> tr]
  /\ pc = "closed" /\ why = "open" /\ pend = NoPend /\ src = "none"
  /\ conn = [data |-> <<>>, end |-> "eof"]
  /\ readCur = 0 /\ readMax = 0 /\ rdone = FALSE /\ retry = 0 /\ backoff = 0
  /\ held = 0 /\ drops = 0 /\ fails = 0
  /\ lim = NoLim /\ rbytes = 0 /\ bsize = 0 /\ hashed = <<>> /\ bdig = <<>>
  /\ got = <<>> /\ cst = "reading" /\ ret = [seq |-> 0, op |-> "none", n |-> 0, err |-> "none"]
  /\ seeks = 0 /\ again = 0 /\ extused = 0

\* types/blob/reader.go:NewReader: LimitRead + TeeReader + digester.  The descriptor is completed
\* from the response headers field by field (reader.go:48-60): the media type from Content-Type when
\* it has none (scn.mt; no effect on the stream), the size from Content-Length when it is 0 (the
\* caller passes sz accordingly), the digest from Docker-Content-Digest only when it has none --
\* the descriptors of C01 always carry one, so whatever the reply announces (r.dh) the reader
\* expects the content the caller asked for
SetupReader(sz) ==
  /\ bdig' = scn.intended
  /\ bsize' = sz
  /\ lim' = IF sz > 0 THEN sz ELSE NoLim
  /\ rbytes' = 0
  /\ hashed' = <<>>

\* ------------------------------------------------------------------ the way up
\* LimitRead accounting, TeeReader, BReader.Read bookkeeping and EOF-time checks, applied to the
\* return (n, data, err) of the reader below LimitRead
Deliver(n, data, err) ==
  LET lim2 == IF lim = NoLim THEN NoLim ELSE lim - n
      e1 == IF lim # NoLim /\ lim2 < 0 THEN "limit" ELSE err
      h2 == hashed \o data
      rb2 == rbytes + n
      atEOF == e1 = "eof"
      full == Check = "full"
      bs2 == IF full /\ atEOF /\ bsize = 0 THEN rb2 ELSE bsize
      szErr == IF full /\ atEOF /\ bsize # 0
               THEN (IF rb2 < bsize THEN "short" ELSE IF rb2 > bsize THEN "long" ELSE "")
               ELSE ""
      dgErr == atEOF /\ Check # "none" /\ h2 # bdig                  \* reader.go:122-126
      e2 == IF ~atEOF THEN e1
            ELSE IF dgErr THEN (CASE szErr = "short" -> "digest+short" [] szErr = "long" -> "digest+long"
                                  [] OTHER -> "digest")
            ELSE IF szErr # "" THEN szErr ELSE "eof"
  IN /\ lim' = lim2 /\ hashed' = h2 /\ rbytes' = rb2 /\ bsize' = bs2 /\ bdig' = bdig
     /\ got' = got \o data
     /\ cst' = IF cst = "error" THEN "error" ELSE ByErr(e2)
     /\ ret' = R("read", n, e2)

\* one Read of the current body (http.Response.Body, *os.File, *bytes.Reader)
BodyRead(k, with, chunk) ==
  LET n == Min(Min(k, Len(conn.data)), chunk)
      rest == Drop(conn.data, n)
      fin == rest = <<>> /\ (n = 0 \/ with)
  IN [n |-> n, data |-> Take(conn.data, n), rest |-> rest,
      err |-> IF fin THEN (CASE conn.end = "eof" -> "eof" [] conn.end = "reset" -> "reset"
                                [] OTHER -> "ueof")
              ELSE "none"]

\* Resp.next, first lines: a response that restarts its request (resume, Seek) gives back the
\* throttle slot it kept for the previous request.  KeepSlots = TRUE is the code before the repair
\* (commit "release the host throttle before a response restarts its request"): the slot was
\* forgotten, not released, and the third restart waited for its own stream (findings/C01-2.md).
ReleaseAtRestart == IF KeepSlots THEN held ELSE 0

\* reghttp.Resp.backoffReset (without the success counter)
BackoffReset == IF backoff > RetryLimit THEN backoff - 1 ELSE backoff

\* ------------------------------------------------------------------ caller
Open ==
  /\ pc = "closed"
  /\ UNCHANGED <<scn, why, pend, readCur, rdone, retry, backoff, held, drops, fails, got, cst,
                 seeks, again, extused>>
  /\ IF DataOK
     THEN /\ src' = "mem" /\ pc' = "ready"
          /\ conn' = [data |-> Inline, end |-> "eof"]
          /\ SetupReader(scn.size)
          /\ ret' = R("open", 0, "none")
          /\ UNCHANGED readMax
     ELSE IF scn.scheme = "ocidir"
     THEN /\ src' = "file" /\ pc' = "ready"
          /\ conn' = [data |-> FileAtOpen, end |-> "eof"]
          /\ SetupReader(IF scn.size <= 0 THEN Len(FileAtOpen) ELSE scn.size)
          /\ ret' = R("open", 0, "none")
          /\ UNCHANGED readMax
     ELSE /\ src' = "http" /\ pc' = "req"
          /\ readMax' = scn.size
          /\ UNCHANGED <<conn, rvars, ret>>

PlainRead(k) ==
  LET b == BodyRead(k, FALSE, Big) IN
  /\ conn' = [conn EXCEPT !.data = b.rest]
  /\ Deliver(b.n, b.data, b.err)
  /\ UNCHANGED <<readCur, readMax, rdone, retry, backoff, held, drops, fails, pc, why, pend>>

\* internal/reghttp/http.go:Resp.Read
RespRead(k) ==
  IF rdone
  THEN /\ Deliver(0, <<>>, "eof")
       /\ UNCHANGED <<tvars, pc, why, pend>>
  ELSE LET b == BodyRead(k, scn.with, scn.chunk)
           cur2 == readCur + b.n
       IN /\ conn' = [conn EXCEPT !.data = b.rest]
          /\ readCur' = cur2
          /\ UNCHANGED <<readMax, retry, drops, fails>>
          /\ IF b.err = "none"
             THEN /\ Deliver(b.n, b.data, "none")
                  /\ UNCHANGED <<rdone, backoff, pc, why, pend, held>>
             ELSE IF b.err = "reset"   \* neither io.EOF nor io.ErrUnexpectedEOF: passed on (http.go:591)
             THEN /\ Deliver(b.n, b.data, "reset")
                  /\ UNCHANGED <<rdone, backoff, pc, why, pend, held>>
             ELSE IF cur2 >= readMax
             THEN /\ rdone' = TRUE /\ backoff' = BackoffReset
                  /\ Deliver(b.n, b.data, b.err)
                  /\ UNCHANGED <<pc, why, pend, held>>
             ELSE \* short read: backoffSet, then next() with a Range header
                  /\ backoff' = backoff + 1
                  /\ IF backoff + 1 >= RetryLimit
                     THEN /\ rdone' = TRUE
                          /\ Deliver(b.n, b.data, b.err)
                          /\ UNCHANGED <<pc, why, pend, held>>
                     ELSE /\ pc' = "req" /\ why' = "resume"
                          /\ held' = ReleaseAtRestart
                          /\ pend' = [n |-> b.n, data |-> b.data, err |-> b.err]
                          /\ UNCHANGED <<rdone, rvars, got, cst, ret>>

\* archive/tar.Reader.Next returns io.EOF as soon as it has parsed the end-of-archive marker; it
\* does not read on to the end of the blob, so BReader.Read never sees io.EOF and its checks do not
\* run; an error that arrived together with the marker's bytes stays in the bufio.Reader of
\* pkg/archive.Decompress and is never looked at (findings/C01-3.md)
\* (the tar paths use 512-byte symbols: of a unit beyond the LimitRead limit only the probe byte is
\* handed over, so a marker block there is never complete)
MarkerSeen == scn.trailer
              /\ \E i \in 1..(Len(got) - 1) : got[i] = "z" /\ got[i + 1] = "z" /\ (bsize = 0 \/ i + 1 <= bsize)
TarSawEnd == scn.via = "tariter" /\ MarkerSeen
TarStop ==
  /\ pc = "ready" /\ TarSawEnd /\ cst # "clean"
  /\ cst' = "clean" /\ ret' = R("read", 0, "eof")
  /\ UNCHANGED <<scn, pc, why, pend, src, tvars, rvars, got, seeks, again, extused>>

\* types/blob/tar.go:ReadFile of an absent name over such an archive: the walk ends at the marker
\* (whatever error came with its bytes stays in the bufio.Reader), the rest is drained with
\* io.Copy(io.Discard, ...) whose error is ignored, and only the BTarReader's own digest comparison
\* decides (tar.go:155-163)
WalkDrained == scn.via = "tarwalk" /\ MarkerSeen
TarWalkEnd ==
  /\ pc = "ready" /\ WalkDrained /\ cst # "reading" /\ ret.op # "walkend"
  /\ cst' = IF hashed = bdig THEN "clean" ELSE "error"
  /\ ret' = R("walkend", 0, IF hashed = bdig THEN "eof" ELSE "digest")
  /\ UNCHANGED <<scn, pc, why, pend, src, tvars, rvars, got, seeks, again, extused>>

Read(k) ==
  /\ pc = "ready" /\ ~TarSawEnd /\ ret.op # "walkend"
  /\ cst = "reading" \/ again < MaxAgain
  /\ again' = IF cst = "reading" THEN again ELSE again + 1
  /\ UNCHANGED <<scn, src, seeks, extused>>
  /\ IF lim # NoLim /\ lim < 0
     THEN /\ Deliver(0, <<>>, "limit")                         \* limitread.go:17
          /\ UNCHANGED <<tvars, pc, why, pend>>
     ELSE LET k2 == IF lim = NoLim THEN k ELSE Min(k, lim + 1) IN   \* limitread.go:20
          IF src = "http" THEN RespRead(k2) ELSE PlainRead(k2)

ResetReader ==
  /\ lim' = IF bsize > 0 THEN bsize ELSE NoLim
  /\ hashed' = <<>> /\ rbytes' = 0 /\ UNCHANGED <<bsize, bdig>>
  /\ got' = <<>> /\ cst' = "reading" /\ ret' = R("seek", 0, "none")

Seek0 ==
  /\ pc = "ready" /\ seeks < MaxSeeks /\ scn.via = "reader"
  /\ seeks' = seeks + 1
  /\ UNCHANGED <<scn, src, again, pend, readMax, rdone, backoff, drops, fails, extused>>
  /\ IF src = "http" /\ readCur # 0
     THEN /\ readCur' = 0 /\ retry' = retry - 1                 \* http.go:Resp.Seek
          /\ pc' = "req" /\ why' = "seek"
          /\ held' = ReleaseAtRestart
          /\ UNCHANGED <<conn, rvars, got, cst, ret>>
     ELSE /\ conn' = IF src = "http" THEN conn
                     ELSE [data |-> IF src = "mem" THEN Inline ELSE scn.served, end |-> "eof"]
          /\ ResetReader
          /\ UNCHANGED <<readCur, retry, pc, why, held>>

\* BReader.Seek(0, io.SeekCurrent): reports readBytes, changes nothing (reader.go:138)
Tell ==
  /\ Probes /\ pc = "ready" /\ scn.via = "reader" /\ ret.op \notin {"tell", "seekbad"}
  /\ ret' = R("tell", rbytes, "none")
  /\ UNCHANGED <<scn, pc, why, pend, src, tvars, rvars, got, cst, seeks, again, extused>>

\* BReader.Seek to any other position: refused, changes nothing (reader.go:142)
SeekBad ==
  /\ Probes /\ pc = "ready" /\ scn.via = "reader" /\ ret.op \notin {"tell", "seekbad"}
  /\ ret' = R("seekbad", rbytes, "error")
  /\ UNCHANGED <<scn, pc, why, pend, src, tvars, rvars, got, cst, seeks, again, extused>>

Stop ==
  /\ pc = "ready" /\ cst # "reading" /\ (TarSawEnd => cst = "clean") /\ (WalkDrained => ret.op = "walkend")
  /\ pc' = "stopped"
  /\ UNCHANGED <<scn, why, pend, src, tvars, rvars, got, cst, ret, seeks, again, extused>>

\* ------------------------------------------------------------------ requests
\* the request in flight has failed for good: Resp.next returns an error
Fail ==
  CASE why = "resume" ->
         /\ pc' = "ready" /\ rdone' = TRUE /\ pend' = NoPend
         /\ Deliver(pend.n, pend.data, pend.err)                \* http.go:577-582
    [] why = "open" ->
         /\ pc' = "openfailed"
         /\ UNCHANGED <<rvars, got, cst, ret, rdone, pend>>
    [] OTHER ->   \* Seek returns the error (the caller stops: Failed)
         /\ pc' = "failing"
         /\ UNCHANGED <<rvars, got, cst, ret, rdone, pend>>

\* the call in progress (BlobGet refused a 2xx status other than 200, Seek could not restart the
\* request) returns its error and the caller stops
Failed ==
  /\ pc = "failing"
  /\ pc' = "stopped" /\ cst' = "error" /\ ret' = R(why, 0, "error")
  /\ UNCHANGED <<scn, why, pend, src, tvars, rvars, got, seeks, again, extused>>

\* scheme/reg/blob.go:66-87: reghttp.Do failed; a descriptor with URLs is tried once more at the
\* external URL (a new Resp: retryCount, readCur, readMax start over; the host's back-off stays)
OpenFailed ==
  /\ pc = "openfailed"
  /\ UNCHANGED <<scn, why, pend, src, conn, rdone, backoff, held, drops, fails, rvars, got, seeks, again>>
  /\ IF extused < scn.ext
     THEN /\ extused' = extused + 1 /\ pc' = "req"
          /\ retry' = 0 /\ readCur' = 0 /\ readMax' = scn.size
          /\ UNCHANGED <<cst, ret>>
     ELSE /\ pc' = "stopped" /\ cst' = "error" /\ ret' = R("open", 0, "error")
          /\ UNCHANGED <<extused, retry, readCur, readMax>>

\* the request in flight got a usable reply
Succeed(body, end, clv, st) ==
  /\ conn' = [data |-> body, end |-> end]
  /\ rdone' = FALSE
  /\ pend' = NoPend
  /\ pc' = IF why = "open" /\ st = "alt" THEN "failing" ELSE "ready"
  /\ CASE why = "open" /\ st = "alt" ->   \* scheme/reg/blob.go:92: a 2xx other than 200 is refused
            UNCHANGED <<rvars, got, cst, ret>>
       [] why = "open" ->
            /\ SetupReader(IF scn.size = 0 THEN Max(clv, 0) ELSE scn.size)   \* reader.go:53
            /\ ret' = R("open", 0, "none")
            /\ UNCHANGED <<got, cst>>
       [] why = "resume" -> Deliver(pend.n, pend.data, "none")               \* http.go:584
       [] OTHER -> ResetReader                                               \* reader.go:153-163

GiveUp ==
  /\ pc = "req" /\ retry > RetryLimit                                        \* http.go:274
  /\ Fail
  /\ UNCHANGED <<scn, why, src, conn, readCur, readMax, retry, backoff, held, drops, fails,
                 seeks, again, extused>>

ServeErr(kind) ==
  /\ pc = "req" /\ retry <= RetryLimit /\ fails < MaxFails
  /\ held < Conc                              \* pqueue.Acquire; released again after the failed attempt
  /\ retry' = retry + 1 /\ fails' = fails + 1 /\ UNCHANGED held
  /\ UNCHANGED <<scn, why, src, conn, readCur, readMax, drops, seeks, again, extused>>
  /\ IF kind = "http404"
     THEN Fail /\ UNCHANGED backoff                                          \* dropHost
     ELSE /\ backoff' = backoff + 1                                          \* backoffSet
          /\ IF backoff + 1 >= RetryLimit
             THEN Fail
             ELSE UNCHANGED <<pc, pend, rdone, rvars, got, cst, ret>>

RangeReq == readCur > 0 /\ readMax > 0                                       \* http.go:375
SrcOf(x) == IF x = "served" THEN scn.served ELSE scn.intended
Srcs == IF scn.served = scn.intended THEN {"served"} ELSE {"served", "intended"}
AllReplies ==
  IF RangeReq
  THEN [src : Srcs, start : {readCur, 0, readCur + 1}, cl : {"right"},
        cr : {"honest", "lying", "absent"}, cut : {NoCut} \cup 0..(MaxLen + 1), dh : DigestHdrs,
        st : Sts, dk : DropKinds]
  ELSE [src : Srcs, start : {0}, cl : {"right", "absent", "garbage", "plus", "minus"},
        cr : {"honest"}, cut : {NoCut} \cup 0..(MaxLen + 1), dh : DigestHdrs,
        st : Sts, dk : DropKinds]

\* what the registry may answer; generator configs narrow it (Replies <- HonestReplies)
Replies == AllReplies

ServeOK(r) ==
  LET full == Drop(SrcOf(r.src), r.start)
      body == IF r.cut = NoCut THEN full ELSE Take(full, r.cut)
      clv == CASE r.cl \in {"absent", "garbage"} -> -1 [] r.cl = "right" -> Len(full)   \* unparsable = none
               [] r.cl = "plus" -> Len(full) + 1 [] OTHER -> Len(full) - 1
  IN
  /\ pc = "req" /\ retry <= RetryLimit
  /\ r.start <= Len(SrcOf(r.src))
  /\ r.cut # NoCut => (drops < MaxDrops /\ r.cut <= Len(full))
  /\ r.cl = "minus" => Len(full) > 0
  /\ r.cr = "lying" => r.start # readCur
  /\ r.cut = NoCut => r.dk = (CHOOSE d \in DropKinds : TRUE)      \* dk only matters for a cut body
  /\ drops' = IF r.cut = NoCut THEN drops ELSE drops + 1
  /\ held < Conc                                                             \* pqueue.Acquire
  /\ retry' = retry + 1
  /\ UNCHANGED <<scn, why, src, readCur, backoff, fails, seeks, again, extused>>
  /\ IF readCur = 0 /\ clv >= 0 /\ readMax > 0 /\ readMax # clv
     THEN \* http.go:493 unexpected content-length: plain error, the loop tries again
          UNCHANGED <<pc, pend, conn, readMax, rdone, rvars, got, cst, ret, held>>
     ELSE /\ readMax' = IF readCur = 0 /\ clv >= 0 /\ readMax <= 0 THEN clv ELSE readMax
          /\ IF RangeReq /\ r.cr = "absent"
             THEN Fail /\ UNCHANGED <<conn, held>>                           \* http.go:500
             ELSE \* resp.throttleDone = throttleDone: the slot of this request is kept until Close
                  \* or until the response restarts its request
                  /\ held' = held + 1
                  /\ Succeed(body, IF r.cut = NoCut THEN "eof" ELSE IF r.dk = "reset" THEN "reset" ELSE "drop",
                             clv, r.st)

ReadAny == \E k \in KS : Read(k)
ServeErrAny == \E kind \in {"neterr", "http500", "http404"} : ServeErr(kind)
ServeOKAny == \E r \in Replies : ServeOK(r)
Next == Open \/ OpenFailed \/ Failed \/ TarStop \/ TarWalkEnd \/ ReadAny \/ Seek0 \/ Tell \/ SeekBad \/ Stop \/ GiveUp \/ ServeErrAny \/ ServeOKAny

Done == pc = "stopped"
Spec == Init /\ [][Next]_vars

\* ------------------------------------------------------------------ design invariants
TypeOK ==
  /\ pc \in {"closed", "req", "openfailed", "failing", "ready", "stopped"}
  /\ cst \in {"reading", "clean", "error"}
  /\ lim = NoLim \/ lim >= -1
  /\ readCur >= 0 /\ rbytes >= 0
\* the digester has been fed exactly what the caller was handed
HashIsGot == hashed = got
CountIsGot == pc = "ready" => (rbytes = Len(got) /\ (src = "http" => readCur = Len(got)))
\* LimitRead never lets more than one probe unit beyond the stated size through
Bounded == lim # NoLim => Len(got) <= bsize + 1
\* the reader expects the digest the caller asked for, never one taken from a reply
WantIsAsked == pc = "ready" => bdig = scn.intended
\* every return of io.EOF by BReader.Read / RawBody / ReadFile-walk is verified, also after an error
EofVerified == (ret.op = "read" /\ ret.err = "eof" /\ Check # "none") => got = scn.intended
\* a request of the stream never waits for throttle slots that only the stream itself holds
\* (false with KeepSlots = TRUE and Conc = 3: C01_mc_throttle_old.cfg, findings/C01-2.md)
NeverSelfBlocked == ~(pc = "req" /\ retry <= RetryLimit /\ held >= Conc)
\* a clean end never leaves part of the current body / file / inline data unread
NoLeftover == (cst = "clean" /\ pc = "ready") => conn.data = <<>>
EofSized == (ret.op = "read" /\ ret.err = "eof" /\ Check = "full" /\ scn.size > 0) => Len(got) = scn.size
=============================================================================

\* random programs of length <= 2 over the whole vocabulary (-simulate)
CONSTANTS
 Images <- ImagesGen
 Options <- OptsGen
 MaxProg = 2
 Places <- AllPlaces
 FixData = FALSE
 FixWriter = FALSE
 FixAdded = FALSE
 FixTag = FALSE
 Fine = FALSE
SPECIFICATION Spec
INVARIANT Emit
CHECK_DEADLOCK FALSE

---------------------------- MODULE TarImportTrace ----------------------------
(***************************************************************************)
(* Trace spec for C09: replays the ndjson log (env VERIF_TRACE) recorded by *)
(* harness/cmd/c09drv from the real regclient.ImageExport / ImageImport      *)
(* through the property monitor ExportImportProp.                            *)
(*   src         raw source store: od/os/oa/oh objects (digest, sha256 of    *)
(*               bytes, algorithm of the digest, hash with that algorithm),  *)
(*               ep/ec/er/ei edges (parent, child, role, position), top, tag *)
(*   tar         independent archive/tar parse of the exported stream        *)
(*   export      ImageExport returned                         -> O1          *)
(*   imp_begin / imp_result / imp_target   one import of a re-packed archive *)
(*               into a fresh target, raw target store        -> O2          *)
(*   dk_archive / dk_begin / dk_result / dk_target   Docker format -> O3     *)
(*   skip        a neutralised line (reported before)                        *)
(* A line with "skip":1 keeps its place in the protocol but is not judged    *)
(* again (the runner sets it after reporting the rejection).                 *)
(***************************************************************************)
EXTENDS ExportImportProp, Json, IOUtils, Integers
Log == ndJsonDeserialize(IOEnv.VERIF_TRACE)
VARIABLE l
Ev == Log[l]

Objs(e) == {[d |-> e.od[i], sha |-> e.os[i], a |-> e.oa[i], h |-> e.oh[i]] : i \in 1..Len(e.od)}
Edges(e) == {[p |-> e.ep[i], c |-> e.ec[i], role |-> e.er[i], i |-> e.ei[i]] : i \in 1..Len(e.ep)}
SrcOf(e) == [objs |-> Objs(e), edges |-> Edges(e), top |-> e.top, tag |-> e.tag, single |-> e.single = 1]
TarOf(e) == [names |-> e.names, types |-> e.types, alg |-> e.alg, hex |-> e.hex, calc |-> e.calc, sha |-> e.sha,
             layoutN |-> e.layoutN, layoutV |-> e.layoutV, indexN |-> e.indexN, idigs |-> e.idigs, irefs |-> e.irefs,
             dockN |-> e.dockN, dcfg |-> e.dcfg, dlayers |-> e.dlayers, dtags |-> e.dtags, dforms |-> e.dforms]

\* imp_begin: want = the digest to bring over (req = ""), or the request and what index.json says per entry
SelOf(e) == [req |-> e.req, reqtag |-> e.reqtag, ids |-> e.ids, refs |-> e.refs, reftags |-> e.reftags,
             names |-> e.names, nametags |-> e.nametags]
TInit == PInit /\ l = 1
TNext ==
  /\ l <= Len(Log)
  /\ l' = l + 1
  /\ \/ Ev.ev = "src" /\ PSrc(SrcOf(Ev))
     \/ Ev.ev = "tar" /\ PTar(TarOf(Ev))
     \/ Ev.ev = "export" /\ PExport(Ev.ok = 1, Ev.skip = 1)
     \/ Ev.ev = "imp_begin" /\ PImpBegin(Ev.id, IF Ev.req = "" THEN {Ev.want} ELSE SelAllowed(SelOf(Ev)),
                                          IF Ev.req = "" THEN TRUE ELSE SelMust(SelOf(Ev)))
     \/ Ev.ev = "imp_result" /\ PImpResult(Ev.id, Ev.ok = 1)
     \/ Ev.ev = "imp_target" /\ PImpTarget(Ev.id, Objs(Ev), Ev.top, Ev.skip = 1)
     \/ Ev.ev = "dk_archive" /\ PDkArchive([cfg |-> Ev.cfg, layers |-> Ev.layers])
     \/ Ev.ev = "dk_begin" /\ PDkBegin(Ev.id)
     \/ Ev.ev = "dk_result" /\ PDkResult(Ev.id, Ev.ok = 1)
     \/ Ev.ev = "dk_target" /\ PDkTarget(Ev.id, Ev.found = 1, Ev.cfg, Ev.layers, Ev.skip = 1)
     \/ Ev.ev = "skip" /\ PNote
TSpec == TInit /\ [][TNext]_<<pvars, l>>
\* collecting variant of the invariant (C09_trace_collect.cfg): every rejected line is printed and the run
\* goes on, so that one pass lists all rejections; the runner neutralises them ("skip":1) and the strict
\* configuration (INVARIANT Ok) then has to accept the whole log
Collect == bad = "" \/ PrintT(<<"REJECT", l - 1, bad>>)
HW == TLCSet(1, IF TLCGet(1) > l THEN TLCGet(1) ELSE l)
Accepted == PrintT(<<"HIGHWATER", TLCGet(1), Len(Log)>>)
ASSUME TLCSet(1, 0)
=============================================================================

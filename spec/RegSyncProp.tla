---------------------------- MODULE RegSyncProp ----------------------------
(***************************************************************************)
(* (P) property monitor for C18.  Observation shaped: it sees the abstract  *)
(* configuration the binary was given, the tag tables (with independently   *)
(* established completeness) and raw-byte hashes of all model registries    *)
(* before and after a run, every tag-level write in serving order, the      *)
(* number of state-changing requests and the exit status.  It knows nothing *)
(* about cmd/regsync/root.go; the obligations are the property statement:   *)
(*   O1 mirror     run reports success => every source tag passing allow-   *)
(*                 then-deny (bound to both ends) and the media type list   *)
(*                 is at the target with the source digest (the configured  *)
(*                 platform's digest), complete                              *)
(*   O2 untouched  ... and every other tag, repository and registry is as   *)
(*                 it was (tags excluded by the filters, other repositories,*)
(*                 target tags without source counterpart, the source), and *)
(*                 nothing that existed before is lost                      *)
(*   O3 backup     with a backup name configured the image a target tag     *)
(*                 pointed to is under that name when the tag is overwritten*)
(*                 (evaluated at the overwriting write, in serving order)   *)
(*   O4 check      a check-only run writes nothing                          *)
(* `once --missing` runs are held to O2-O4 only (the statement's O1 is about *)
(* the plain one-shot run).  The first violated obligation is latched.      *)
(***************************************************************************)
EXTENDS RegSyncDefs
VARIABLES conf,     \* abstract configuration of the scenario
          mode,     \* "" between runs, else once | missing | check
          before,   \* tag table at the start of the current run
          repB,     \* repository hashes at the start of the current run
          cur,      \* tag table as the writes observed so far imply
          puts,     \* references written during the current run
          bad
pvars == <<conf, mode, before, repB, cur, puts, bad>>

Latch(b) == IF bad # "" THEN bad ELSE b

PInit == conf = <<>> /\ mode = "" /\ before = {} /\ repB = {} /\ cur = {} /\ puts = {} /\ bad = ""
PReset(c, imgs) ==
  /\ conf' = c /\ mode' = "" /\ before' = {} /\ repB' = {} /\ cur' = {} /\ puts' = {}
  /\ bad' = IF imgs # ImgTable THEN "tooling: image table of the driver differs from RegSyncDefs" ELSE ""

\* the environment moved a source tag between two runs
PEnv == mode = "" /\ UNCHANGED pvars

PBegin(m, tags, repos) ==
  /\ mode = ""
  /\ mode' = m /\ before' = tags /\ repB' = repos /\ cur' = tags /\ puts' = {}
  /\ UNCHANGED <<conf, bad>>

\* a manifest PUT (or DELETE: img = "") by tag reached a registry and was served
PTagPut(r, img, c) ==
  /\ mode # ""
  /\ cur' = SetTag(cur, r, img, c)
  /\ puts' = puts \cup {r}
  /\ bad' = Latch(IF mode = "check" THEN "check: a check-only run wrote to a registry"
                  ELSE OverwriteBad(conf, before, cur, r, img))
  /\ UNCHANGED <<conf, mode, before, repB>>

\* the completeness of a tag's image changed although the tag did not move (a blob it references
\* arrived with another copy into the same repository)
PCompl(r, c) ==
  /\ mode # "" /\ Has(cur, r)
  /\ cur' = SetTag(cur, r, Img(cur, r), c)
  /\ UNCHANGED <<conf, mode, before, repB, puts, bad>>

PEnd(m, exit, tags, repos, lost, nwr, nmut) ==
  /\ mode = m
  /\ mode' = "" /\ before' = {} /\ repB' = {} /\ cur' = {} /\ puts' = {}
  /\ bad' = Latch(First(<<
              <<cur # tags, "tooling: the tag writes seen do not add up to the final tag table">>,
              <<TRUE, LET b == EndBad(conf, m, exit, before, tags, puts, nwr, nmut)
                      IN IF b # "" THEN b ELSE RepoBad(conf, exit, before, repB, repos, lost)>> >>))
  /\ UNCHANGED conf

Ok == bad = ""
=============================================================================

--------------------------- MODULE LayoutFSDTrace ---------------------------
(***************************************************************************)
(* Binding of the design spec to the code: every system-call sequence      *)
(* recorded from the real regclient (uninterrupted run of one operation of *)
(* harness/cmd/c07drv under strace; only calls that change the layout      *)
(* directory, classified by tools/props/c07.py) must be a behaviour of the *)
(* corresponding LayoutFS program: each recorded call is matched by a      *)
(* system-call primitive with the same label <<call, target class,         *)
(* object>> of some thread, silent steps (locks, goroutine start / join,   *)
(* ordering choices) in between are searched by TLC.  A trace that cannot  *)
(* be matched is DRIFT between (D) and the code - reported in the evidence,*)
(* never a violation.  Every trace of the batch is its own behaviour (one  *)
(* initial state per "reset" line); TLCGet(h) keeps the high-water mark of *)
(* the trace whose header is line h.                                       *)
(***************************************************************************)
EXTENDS LayoutFS, Json, IOUtils, Integers
Log == ndJsonDeserialize(IOEnv.VERIF_TRACE)
VARIABLES l, h
Ev == Log[l]
Starts == {i \in 1..Len(Log) : Log[i].ev = "reset"}
ScenOf(e) == [start |-> e.start, kind |-> e.kind, t |-> e.t, o |-> e.o, gc |-> (e.gc = 1), f |-> NoF]
DInit == \E i \in Starts :
           /\ h = i /\ l = i + 1
           /\ fs = StartFS(Log[i].start)
           /\ pr = FreshProc(OpProg(ScenOf(Log[i])))
           /\ ctl = [phase |-> "run", crashes |-> 0, scen |-> ScenOf(Log[i]), res |-> "", fol |-> FALSE, faults |-> 0, rt |-> FALSE]

ClsMatch(lc, ec) == lc = ec \/ (lc = "casman" /\ ec = "cas")
\* objects whose digest the harness does not know (referrer lists written by regclient) are logged as "x..."
ObjMatch(lo, e) == lo = "" \/ lo = e.obj \/ (lo \in RLs /\ e.cls = "cas")
LabelMatch(L, e) == L[1] = e.call /\ ClsMatch(L[2], e.cls) /\ ObjMatch(L[3], e)

HeadOf(t) == LET st == Norm(pr.thr[t]) IN IF st = <<>> THEN Ins("Nop") ELSE st[1]
SweepLeft(x) == x.i = "Sweep" /\ (x.s # {} \/ x.u # {})
\* thread t performs the recorded system call e
DSys(t, e) ==
  LET x == HeadOf(t) IN
  \/ /\ x.i \in SysPrims /\ LabelMatch(Label(t, x), e) /\ Do(t)
  \/ /\ SweepLeft(x) /\ e.call = "unlink" /\ Do(t)
     /\ \/ e.cls \in {"blobtmp", "mantmp"} /\ fs'.cas = fs.cas
        \/ e.cls \in {"casblob", "casman", "cas"} /\ fs'.tmps = fs.tmps
           /\ \E o \in fs.cas \ fs'.cas : ObjMatch(o, e) /\ ClsMatch(CasCls(o), e.cls)
\* how many write calls a blob takes is a buffering detail (32 KiB copy buffer, tar block boundaries): a further
\* write to a blob temp file that already received one is accepted without a step of (D)
DMoreWrite(e) == /\ e.call = "write" /\ e.cls = "blobtmp"
                 /\ \E t \in Thr : /\ HeadOf(t).i \in {"WriteTmp", "RenameCas"} /\ pr.loc[t] \in DOMAIN fs.tmps
                                   /\ fs.tmps[pr.loc[t]].cls = "blob" /\ fs.tmps[pr.loc[t]].w >= 1
                 /\ UNCHANGED vars
DSilent(t) == LET x == HeadOf(t) IN x.i \notin SysPrims /\ ~SweepLeft(x) /\ Do(t)

DNext ==
  /\ l <= Len(Log)
  /\ h' = h
  /\ \/ Ev.ev = "dsys" /\ l' = l + 1 /\ \E t \in Thr : DSys(t, Ev)
     \/ Ev.ev = "dsys" /\ l' = l + 1 /\ DMoreWrite(Ev)
     \/ l' = l /\ \E t \in Thr : DSilent(t)
     \/ Ev.ev = "dend" /\ l' = l + 1 /\ PrintT(<<"DONE", Log[h].trace>>)
        /\ \/ Return
           \/ ctl.phase = "done" /\ UNCHANGED vars       \* the operation ended with an error (Fail)
DSpec == DInit /\ [][DNext]_<<vars, l, h>>
HW == TLCSet(h, IF TLCGet(h) > l THEN TLCGet(h) ELSE l)              \* CONSTRAINT: per-trace high-water mark
Reached == PrintT(<<"HIGHWATER", [i \in Starts |-> TLCGet(i)]>>)     \* POSTCONDITION (always TRUE)
ASSUME \A i \in Starts : TLCSet(i, 0)
=============================================================================

SPECIFICATION Spec
CONSTANTS
 DrainBug = TRUE
 LinkCode = TRUE
 DupPathBug = TRUE
 Ids <- MidBfsIds
INVARIANTS PropHoldsButKnown KnownReproduced Ordered PassBound
CHECK_DEADLOCK TRUE

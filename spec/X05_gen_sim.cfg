INIT GInit
NEXT GNext
INVARIANTS Emit
CONSTRAINT Bounded
CHECK_DEADLOCK FALSE
CONSTANTS
 Hosts <- H2
 CredOf <- CredID
 Reqs <- ReqsAll
 NProcs = 1
 NCalls = 4
 RegMoods <- MoodsAll
 TokKinds <- KindsAll
 Budget = 3
 RetryLimit = 5
 MaxTok = 12
 Fix <- TreeFix
 Mut = {}

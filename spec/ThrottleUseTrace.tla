-------------------------- MODULE ThrottleUseTrace --------------------------
(* Trace spec for X01: replays an ndjson event log recorded from real regclient operations       *)
(* (harness/cmd/x01drv: pqueue hooks + tracing RoundTripper) through the monitor ThrottleUseProp. *)
EXTENDS ThrottleUseProp, Json, IOUtils, Integers
Log == ndJsonDeserialize(IOEnv.VERIF_TRACE)
VARIABLE l
Ev == Log[l]
TInit == PInit /\ l = 1
TNext ==
  /\ l <= Len(Log)
  /\ l' = l + 1
  /\ \/ Ev.ev = "reset" /\ PReset
     \/ Ev.ev = "conf" /\ PConf(Ev.host, Ev.max)
     \/ Ev.ev = "calib" /\ PCalib(Ev.host, Ev.q, Ev.max)
     \/ Ev.ev \in {"acq_fast", "try_ok"} /\ PAdmit(Ev.q, Ev.e, Ev.g)
     \/ Ev.ev = "enqueue" /\ PEnqueue(Ev.q, Ev.e, Ev.g)
     \/ Ev.ev = "promote" /\ PPromote(Ev.q, Ev.e)
     \/ Ev.ev = "cancel_rm" /\ PCancelRemove(Ev.q, Ev.e)
     \/ Ev.ev = "released" /\ PReleased(Ev.q, Ev.e)
     \/ Ev.ev = "send" /\ PSend(Ev.host, Ev.g, Ev.r)
     \/ Ev.ev = "read" /\ PRead(Ev.r)
     \/ Ev.ev = "final" /\ PFinal
     \/ Ev.ev = "stuck" /\ PStuck
     \/ Ev.ev \in {"wake", "cancel_pass", "try_fail", "resp", "bclose", "op", "opret", "note"} /\ PNote
TSpec == TInit /\ [][TNext]_<<pvars, l>>
HW == TLCSet(1, IF TLCGet(1) > l THEN TLCGet(1) ELSE l)
Accepted == PrintT(<<"HIGHWATER", TLCGet(1), Len(Log)>>)
ASSUME TLCSet(1, 0)
=============================================================================

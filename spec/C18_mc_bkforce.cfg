CONSTANTS
 Space = "bkforce"
 Scenarios <- SpaceScns
 Anchoring = "fixed"
 PlatMatch = "asis"
 Chars <- CharsDef
 NameOrder <- NameOrderDef
INIT Init
NEXT Next
INVARIANTS PostOk BackupOk ThrottleBound HeldInSection CheckWritesNothing

CONSTANTS
 Scenarios <- MutSet
 MaxCrash = 1
 Variant = "inplace"
INIT Init
NEXT Next
INVARIANTS StateOk EndOk RaceEndOk FreshOk RetryOk TypeOk
CHECK_DEADLOCK FALSE

----------------------------- MODULE TarImportCat -----------------------------
(***************************************************************************)
(* Catalogue and environment for C09 (TarImport):                           *)
(*   Graphs       image graphs (what ImageExport walks,                      *)
(*                image.go:imageExportDescriptor) and Docker-save archives;  *)
(*                the driver c09drv builds the concrete bytes from the very  *)
(*                records emitted by TarImportGen, so there is one catalogue *)
(*   BaseEntries  the complete archive of a graph = what the audited real    *)
(*                export yields (obligation O1 is checked on the real        *)
(*                archive by TarImportTrace; the export side is not a state  *)
(*                machine here)                                              *)
(*   WithLink     link / naming patterns applied to one entry                *)
(*   Mk           scenario record = graph x pattern x import selection       *)
(*   AllTable     id -> scenario record; *Ids the id sets of the tiers       *)
(* Paths are sequences of segments; "#x" stands for the hex digest of node x.*)
(* No RECURSIVE operator is used on the way to AllTable and TarImport refers *)
(* to AllTable directly: TLC pre-computes a constant definition only then    *)
(* (not for recursive operators, not through a `<-` override).               *)
(***************************************************************************)
EXTENDS Naturals, Sequences, FiniteSets, TLC

(* ------------------------------ catalogue ------------------------------ *)
Bl(a) == [k |-> "blob", f |-> "", kids |-> <<>>, a |-> a, subj |-> ""]
K(n, t) == [n |-> n, t |-> t]
Im(f, kids, a, subj) == [k |-> "image", f |-> f, kids |-> kids, a |-> a, subj |-> subj]
Ix(f, kids) == [k |-> "index", f |-> f, kids |-> kids, a |-> "", subj |-> ""]
\* a manifests[] entry of index.json: node, media type class, tag it is stored / exported under, and ref = the value
\* of the org.opencontainers.image.ref.name annotation (the bare tag, unless another tool wrote a full image name)
Rt(n, tag) == [n |-> n, t |-> "man", tag |-> tag, ref |-> tag]
RtF(n, tag, ref) == [n |-> n, t |-> "man", tag |-> tag, ref |-> ref]
IxA(a) == [k |-> "index", f |-> "oci", kids |-> <<>>, a |-> a, subj |-> ""]     \* an empty index told apart by an annotation
TagNodes == [r1 |-> IxA("t1"), r2 |-> IxA("t2"), r3 |-> IxA("t3")]
NoDocker == <<>>

\* nodes: name -> node; roots: the manifests[] of index.json; victim: the entry link patterns are applied to
Graphs == [
  single1 |-> [nodes |-> [m |-> Im("oci", <<K("c", "cfg"), K("l1", "lay")>>, "", ""), c |-> Bl("cfg"), l1 |-> Bl("norm")],
               roots |-> <<Rt("m", "v1")>>, victim |-> "l1"],
  \* an index without entries: the smallest archive there is (oci-layout, index.json, one blob)
  eidx |-> [nodes |-> [i |-> Ix("oci", <<>>)], roots |-> <<Rt("i", "v1")>>, victim |-> "i"],
  single1m |-> [nodes |-> [m |-> Im("oci", <<K("c", "cfg"), K("l1", "lay")>>, "", ""), c |-> Bl("cfg"), l1 |-> Bl("norm")],
               roots |-> <<Rt("m", "v1")>>, victim |-> "m"],
  single2 |-> [nodes |-> [m |-> Im("oci", <<K("c", "cfg"), K("l1", "lay"), K("l2", "lay")>>, "", ""),
                          c |-> Bl("cfg"), l1 |-> Bl("norm"), l2 |-> Bl("norm")],
               roots |-> <<Rt("m", "v1")>>, victim |-> "l2"],
  emptyl |-> [nodes |-> [m |-> Im("oci", <<K("c", "cfg"), K("l0", "lay")>>, "", ""), c |-> Bl("cfg"), l0 |-> Bl("empty")],
              roots |-> <<Rt("m", "v1")>>, victim |-> "l0"],
  inline |-> [nodes |-> [m |-> Im("oci", <<K("c", "cfg"), K("l1", "inl")>>, "", ""), c |-> Bl("cfg"), l1 |-> Bl("norm")],
              roots |-> <<Rt("m", "v1")>>, victim |-> "l1"],
  extl |-> [nodes |-> [m |-> Im("oci", <<K("c", "cfg"), K("l1", "lay"), K("lx", "ext")>>, "", ""),
                       c |-> Bl("cfg"), l1 |-> Bl("norm"), lx |-> Bl("norm")],
            roots |-> <<Rt("m", "v1")>>, victim |-> "lx"],
  \* a layer addressed by a sha512 digest (blobs/sha512/<hex>)
  alg512 |-> [nodes |-> [m |-> Im("oci", <<K("c", "cfg"), K("l5", "lay")>>, "", ""), c |-> Bl("cfg"), l5 |-> Bl("sha512")],
              roots |-> <<Rt("m", "v1")>>, victim |-> "l5"],
  \* an index whose entry names an image manifest by a sha512 digest
  man512 |-> [nodes |-> [i |-> Ix("oci", <<K("m5", "man")>>), m5 |-> Im("oci", <<K("c", "cfg"), K("l", "lay")>>, "", ""),
                         c |-> Bl("cfg"), l |-> Bl("norm")],
              roots |-> <<Rt("i", "v1")>>, victim |-> "l"],
  dimg |-> [nodes |-> [m |-> Im("docker", <<K("c", "cfg"), K("l1", "lay")>>, "", ""), c |-> Bl("cfg"), l1 |-> Bl("norm")],
            roots |-> <<Rt("m", "v1")>>, victim |-> "l1"],
  \* artifact: config and the only layer are the same blob {} ; it has a subject that is not part of it
  art |-> [nodes |-> [a |-> Im("oci", <<K("e", "cfg"), K("e", "lay")>>, "art", "s"), e |-> Bl("emptyjson"),
                      s |-> Im("oci", <<K("sc", "cfg"), K("sl", "lay")>>, "", ""), sc |-> Bl("cfg"), sl |-> Bl("norm")],
           roots |-> <<Rt("a", "v1")>>, victim |-> "e"],
  idx2 |-> [nodes |-> [i |-> Ix("oci", <<K("m1", "man"), K("m2", "man")>>),
                       m1 |-> Im("oci", <<K("c1", "cfg"), K("ls", "lay")>>, "", ""),
                       m2 |-> Im("oci", <<K("c2", "cfg"), K("ls", "lay")>>, "", ""),
                       c1 |-> Bl("cfg"), c2 |-> Bl("cfg"), ls |-> Bl("norm")],
            roots |-> <<Rt("i", "v1")>>, victim |-> "ls"],
  \* two manifests with the same config and layer (they differ in an annotation)
  idxsame |-> [nodes |-> [i |-> Ix("oci", <<K("m1", "man"), K("m2", "man")>>),
                          m1 |-> Im("oci", <<K("c", "cfg"), K("l", "lay")>>, "va", ""),
                          m2 |-> Im("oci", <<K("c", "cfg"), K("l", "lay")>>, "vb", ""),
                          c |-> Bl("cfg"), l |-> Bl("norm")],
               roots |-> <<Rt("i", "v1")>>, victim |-> "l"],
  nested |-> [nodes |-> [o |-> Ix("oci", <<K("i", "man")>>), i |-> Ix("oci", <<K("m", "man")>>),
                         m |-> Im("oci", <<K("c", "cfg"), K("l", "lay")>>, "", ""), c |-> Bl("cfg"), l |-> Bl("norm")],
              roots |-> <<Rt("o", "v1")>>, victim |-> "l"],
  \* index with an entry that is a blob (layer media type): suspicion S6
  blobent |-> [nodes |-> [i |-> Ix("oci", <<K("m", "man"), K("b", "lay")>>),
                          m |-> Im("oci", <<K("c", "cfg"), K("l", "lay")>>, "", ""), c |-> Bl("cfg"), l |-> Bl("norm"), b |-> Bl("norm")],
               roots |-> <<Rt("i", "v1")>>, victim |-> "b"],
  \* the same with an entry of a media type nobody knows
  unkent |-> [nodes |-> [i |-> Ix("oci", <<K("m", "man"), K("u", "unk")>>),
                         m |-> Im("oci", <<K("c", "cfg"), K("l", "lay")>>, "", ""), c |-> Bl("cfg"), l |-> Bl("norm"), u |-> Bl("norm")],
              roots |-> <<Rt("i", "v1")>>, victim |-> "u"],
  \* blob-typed entry of size 0: the drained reader happens to hold the right content
  emptyent |-> [nodes |-> [i |-> Ix("oci", <<K("m", "man"), K("z", "lay")>>),
                           m |-> Im("oci", <<K("c", "cfg"), K("l", "lay")>>, "", ""), c |-> Bl("cfg"), l |-> Bl("norm"), z |-> Bl("empty")],
                roots |-> <<Rt("i", "v1")>>, victim |-> "l"],
  \* blob-typed entry that is also a layer of the image next to it (already uploaded when its entry handler runs, or not)
  sharedent |-> [nodes |-> [i |-> Ix("oci", <<K("m", "man"), K("l", "lay")>>),
                            m |-> Im("oci", <<K("c", "cfg"), K("l", "lay")>>, "", ""), c |-> Bl("cfg"), l |-> Bl("norm")],
                 roots |-> <<Rt("i", "v1")>>, victim |-> "l"],
  dock |-> [nodes |-> [dl |-> Ix("docker", <<K("m1", "man"), K("m2", "man")>>),
                       m1 |-> Im("docker", <<K("c1", "cfg"), K("l", "lay")>>, "", ""),
                       m2 |-> Im("docker", <<K("c2", "cfg"), K("l", "lay")>>, "", ""),
                       c1 |-> Bl("cfg"), c2 |-> Bl("cfg"), l |-> Bl("norm")],
            roots |-> <<Rt("dl", "v1")>>, victim |-> "l"],
  \* archives of other tools with several tagged entries in index.json whose names are related: suffix and prefix,
  \* substring and case, and a full image name (as skopeo / podman write it) next to bare tags.  The order of the
  \* entries is a scenario dimension (patterns o1..o6, see Orders).
  tagsuf |-> [nodes |-> TagNodes, roots |-> <<Rt("r1", "rc-latest"), Rt("r2", "latest"), Rt("r3", "latest-rc")>>, victim |-> "r1"],
  tagsub |-> [nodes |-> TagNodes, roots |-> <<Rt("r1", "xlatestx"), Rt("r2", "latest"), Rt("r3", "Latest")>>, victim |-> "r1"],
  tagfull |-> [nodes |-> TagNodes, roots |-> <<Rt("r1", "rc-latest"), RtF("r2", "full", "registry.example/repo:latest"),
                                               Rt("r3", "test")>>, victim |-> "r1"],
  \* REPEATED DIGESTS (round 5).  A manifest may list the same layer digest more than once (old Docker built images:
  \* the empty layer of every metadata instruction; identical COPY layers); an index may list the same manifest for
  \* two platforms; an index.json may carry two tags for one image.  The archive holds each blob once, but every
  \* LIST derived from the manifest (manifest.json Layers, the imported manifest, the handlers of the importer)
  \* has to keep all positions.  Shapes of the layer sequence: AA, ABA, AAB (Docker media types), AEE (E = empty blob).
  rep2 |-> [nodes |-> [m |-> Im("oci", <<K("c", "cfg"), K("l1", "lay"), K("l1", "lay")>>, "", ""), c |-> Bl("cfg"), l1 |-> Bl("norm")],
            roots |-> <<Rt("m", "v1")>>, victim |-> "l1"],
  rep3 |-> [nodes |-> [m |-> Im("oci", <<K("c", "cfg"), K("l1", "lay"), K("l2", "lay"), K("l1", "lay")>>, "", ""),
                       c |-> Bl("cfg"), l1 |-> Bl("norm"), l2 |-> Bl("norm")],
            roots |-> <<Rt("m", "v1")>>, victim |-> "l1"],
  drep |-> [nodes |-> [m |-> Im("docker", <<K("c", "cfg"), K("l1", "lay"), K("l1", "lay"), K("l2", "lay")>>, "", ""),
                       c |-> Bl("cfg"), l1 |-> Bl("norm"), l2 |-> Bl("norm")],
            roots |-> <<Rt("m", "v1")>>, victim |-> "l2"],
  repe |-> [nodes |-> [m |-> Im("oci", <<K("c", "cfg"), K("l1", "lay"), K("l0", "lay"), K("l0", "lay")>>, "", ""),
                       c |-> Bl("cfg"), l1 |-> Bl("norm"), l0 |-> Bl("empty")],
            roots |-> <<Rt("m", "v1")>>, victim |-> "l0"],
  \* an index that lists one manifest twice (the entries differ in their platform only)
  idxrep |-> [nodes |-> [i |-> Ix("oci", <<K("m", "man"), K("m", "man")>>),
                         m |-> Im("oci", <<K("c", "cfg"), K("l", "lay")>>, "", ""), c |-> Bl("cfg"), l |-> Bl("norm")],
              roots |-> <<Rt("i", "v1")>>, victim |-> "m"],
  \* archive of another tool: index.json names ONE image under two tags
  multisame |-> [nodes |-> [m1 |-> Im("oci", <<K("c1", "cfg"), K("ls", "lay")>>, "", ""), c1 |-> Bl("cfg"), ls |-> Bl("norm")],
                 roots |-> <<Rt("m1", "v1"), Rt("m1", "v2")>>, victim |-> "ls"],
  \* archive of another tool: index.json with two images sharing a layer
  multi |-> [nodes |-> [m1 |-> Im("oci", <<K("c1", "cfg"), K("ls", "lay")>>, "", ""),
                        m2 |-> Im("oci", <<K("c2", "cfg"), K("ls", "lay")>>, "", ""),
                        c1 |-> Bl("cfg"), c2 |-> Bl("cfg"), ls |-> Bl("norm")],
             roots |-> <<Rt("m1", "v1"), Rt("m2", "v2")>>, victim |-> "ls"] ]

\* Docker-save format archives: manifest.json entries and the files (path -> content)
DkE(cfg, layers, tags) == [cfg |-> cfg, layers |-> layers, tags |-> tags]
L1 == <<"l1", "layer.tar">>
L2 == <<"l2", "layer.tar">>
L3 == <<"l3", "layer.tar">>
F(name, c) == [name |-> name, kind |-> "file", ln |-> <<>>, abs |-> FALSE, c |-> c]
Sym(name, ln) == [name |-> name, kind |-> "sym", ln |-> ln, abs |-> FALSE, c |-> ""]
SymAbs(name, ln) == [name |-> name, kind |-> "sym", ln |-> ln, abs |-> TRUE, c |-> ""]
Hard(name, ln) == [name |-> name, kind |-> "hard", ln |-> ln, abs |-> FALSE, c |-> ""]
DkGraphs == [
  dk1 |-> [docker |-> <<DkE(<<"cfg.json">>, <<L1, L2>>, <<"r:a", "r:b">>)>>,
           files |-> {F(<<"cfg.json">>, "CFG"), F(L1, "LA"), F(L2, "LB")},
           want |-> [cfg |-> "CFG", layers |-> <<"LA", "LB">>]],
  \* two images sharing a layer; the second one is asked for by name
  dk2 |-> [docker |-> <<DkE(<<"cfg.json">>, <<L1, L2>>, <<"r:a">>), DkE(<<"cfg2.json">>, <<L1, L3>>, <<"q:z", "q:y">>)>>,
           files |-> {F(<<"cfg.json">>, "CFG"), F(<<"cfg2.json">>, "CFG2"), F(L1, "LA"), F(L2, "LB"), F(L3, "LC")},
           want |-> [cfg |-> "CFG2", layers |-> <<"LA", "LC">>]],
  \* docker save (before the containerd store): a repeated layer is a symlink to the first copy
  dksym |-> [docker |-> <<DkE(<<"cfg.json">>, <<L1, L2>>, <<"r:a">>)>>,
             files |-> {F(<<"cfg.json">>, "CFG"), F(L1, "LA"), Sym(L2, <<"..", "l1", "layer.tar">>)},
             want |-> [cfg |-> "CFG", layers |-> <<"LA", "LA">>]],
  \* archives that name layer files by digest list a repeated layer under the same path
  dksame |-> [docker |-> <<DkE(<<"cfg.json">>, <<L1, L2, L1>>, <<"r:a">>)>>,
              files |-> {F(<<"cfg.json">>, "CFG"), F(L1, "LA"), F(L2, "LB")},
              want |-> [cfg |-> "CFG", layers |-> <<"LA", "LB", "LA">>]],
  \* "./" in front of the names inside manifest.json
  dkdot |-> [docker |-> <<DkE(<<".", "cfg.json">>, <<<<".", "l1", "layer.tar">>>>, <<"r:a">>)>>,
             files |-> {F(<<"cfg.json">>, "CFG"), F(L1, "LA")},
             want |-> [cfg |-> "CFG", layers |-> <<"LA">>]] ]

(* -------------------------- archives of a graph ------------------------ *)
\* (no RECURSIVE operator on the way to the scenario tables: TLC pre-computes a constant definition
\* only when SANY can give it a level, which it cannot for recursive operators)
StepN(nodes, X) == X \cup UNION {{nodes[n].kids[i].n : i \in 1..Len(nodes[n].kids)} : n \in X}
Lvl(nodes, n, k) == CASE k = 0 -> {n}
                      [] k = 1 -> StepN(nodes, {n})
                      [] k = 2 -> StepN(nodes, StepN(nodes, {n}))
                      [] k = 3 -> StepN(nodes, StepN(nodes, StepN(nodes, {n})))
                      [] k = 4 -> StepN(nodes, StepN(nodes, StepN(nodes, StepN(nodes, {n}))))
ClosureN(nodes, n) == Lvl(nodes, n, 4)                       \* graphs are at most 4 levels deep
RootNodes(g) == {g.roots[i].n : i \in 1..Len(g.roots)}
Exported(g) == UNION {ClosureN(g.nodes, r) : r \in RootNodes(g)}
DepthN(nodes, n) == 1 + Cardinality({k \in 1..4 : Lvl(nodes, n, k) # Lvl(nodes, n, k - 1)})
\* by convention of the catalogue the nodes named in Sha512Nodes are addressed by a sha512 digest
Sha512Nodes == {"l5", "m5"}
BPath(n) == <<"blobs", IF n \in Sha512Nodes THEN "sha512" ELSE "sha256", "#" \o n>>
\* manifest.json is written by ImageExport when the exported manifest is a single image
SingleImage(g) == Len(g.roots) = 1 /\ g.nodes[g.roots[1].n].k = "image"
DockerOf(g) == IF SingleImage(g)
               THEN LET m == g.nodes[g.roots[1].n]
                    IN <<DkE(BPath(m.kids[1].n), [i \in 1..(Len(m.kids) - 1) |-> BPath(m.kids[i + 1].n)], <<"x:" \o g.roots[1].tag>>)>>
               ELSE NoDocker
BaseEntries(g) == {F(<<"oci-layout">>, "layout"), F(<<"index.json">>, "index")}
                  \cup (IF SingleImage(g) THEN {F(<<"manifest.json">>, "docker")} ELSE {})
                  \cup {F(BPath(n), n) : n \in Exported(g)}

LinkOK == {"none", "symroot", "symabs", "hardext", "chain2", "idxlink", "dotslash", "junk", "dirs"}
LinkBad == {"symsib", "symup", "hardshared", "chain3"}      \* were resolved wrongly as found (C09-2, C09-3; switch LinkCode)
Dot(e) == [e EXCEPT !.name = <<".">> \o @]
WithLink(E, v, lp) ==
  LET bp == BPath(v)
      E0 == E \ {F(bp, v)}
      hv == "#" \o v
      data == <<"data", hv>>
  IN CASE lp = "none" -> E
       [] lp = "symroot" -> E0 \cup {F(data, v), Sym(bp, <<"..", "..", "data", hv>>)}
       [] lp = "symabs" -> E0 \cup {F(data, v), SymAbs(bp, data)}
       [] lp = "hardext" -> E0 \cup {F(data, v), Hard(bp, data)}
       [] lp = "symsib" -> E0 \cup {F(<<"blobs", "sha256", "x" \o hv>>, v), Sym(bp, <<"x" \o hv>>)}
       [] lp = "symup" -> E0 \cup {F(<<"blobs", "other", hv>>, v), Sym(bp, <<"..", "other", hv>>)}
       [] lp = "hardshared" -> E0 \cup {F(<<"blobs", "other", hv>>, v), Hard(bp, <<"blobs", "other", hv>>)}
       [] lp = "chain2" -> E0 \cup {F(data, v), Sym(<<"a1">>, data), Sym(bp, <<"..", "..", "a1">>)}
       [] lp = "chain3" -> E0 \cup {F(data, v), Sym(<<"a1">>, data), Sym(<<"a2">>, <<"a1">>), Sym(bp, <<"..", "..", "a2">>)}
       [] lp = "idxlink" -> (E \ {F(<<"index.json">>, "index")}) \cup {F(<<"idx2.json">>, "index"), Sym(<<"index.json">>, <<"idx2.json">>)}
       [] lp = "dotslash" -> {Dot(e) : e \in E}
       [] lp = "junk" -> E \cup {F(<<"junk.txt">>, "junk")}
       [] lp = "dirs" -> E \cup {[name |-> <<"blobs", "sha256">>, kind |-> "dir", ln |-> <<>>, abs |-> FALSE, c |-> ""]}

\* import selection and the state of the target before the import (pre: none | blobs = every blob of the
\* image is there already | all = everything but the tag), so that the BlobHead / ManifestHead short cuts run
Sels == [def |-> [by |-> "tag", v |-> "imp", pre |-> "none"],        \* plain import to repo:imp
         tag1 |-> [by |-> "tag", v |-> "v1", pre |-> "none"], tag2 |-> [by |-> "tag", v |-> "v2", pre |-> "none"],
         name2 |-> [by |-> "name", v |-> "v2", pre |-> "none"], dig2 |-> [by |-> "digest", v |-> "m2", pre |-> "none"],
         dkname |-> [by |-> "name", v |-> "q:z", pre |-> "none"],
         dkrest |-> [by |-> "name", v |-> "x:v1", pre |-> "none"],
         \* multi entry archives with related names: by the tag of the target reference, by its default tag (reference
         \* without tag), by ImageWithImportName (a tag, the longer tag, a full image name), by digest
         tlatest |-> [by |-> "tag", v |-> "latest", pre |-> "none"], tdefault |-> [by |-> "default", v |-> "latest", pre |-> "none"],
         nlatest |-> [by |-> "name", v |-> "latest", pre |-> "none"], nrc |-> [by |-> "name", v |-> "rc-latest", pre |-> "none"],
         nfull |-> [by |-> "name", v |-> "registry.example/repo:latest", pre |-> "none"],
         dsel |-> [by |-> "digest", v |-> "r2", pre |-> "none"],
         preblobs |-> [by |-> "tag", v |-> "imp", pre |-> "blobs"], preall |-> [by |-> "tag", v |-> "imp", pre |-> "all"],
         \* the tag exists at the target and names something else
         prestale |-> [by |-> "tag", v |-> "imp", pre |-> "stale"],
         \* a single image archive imported to a reference that carries only a digest (pushed by digest, nothing tagged)
         dig1 |-> [by |-> "digest", v |-> "m", pre |-> "none"]]
\* the orders of three index.json entries
Orders == [o1 |-> <<1, 2, 3>>, o2 |-> <<1, 3, 2>>, o3 |-> <<2, 1, 3>>, o4 |-> <<2, 3, 1>>, o5 |-> <<3, 1, 2>>, o6 |-> <<3, 2, 1>>]
RootsOf(g, lp) == IF lp \in DOMAIN Orders THEN [i \in 1..3 |-> g.roots[Orders[lp][i]]] ELSE g.roots
\* the entry the import has to bring over: the only one, the one with the digest, or the (first) one whose ref.name
\* annotation IS the requested tag / name; "" when the archive names nothing so (the import then has to fail)
WantOf(roots, sel) == IF Len(roots) = 1 THEN roots[1].n
                      ELSE IF sel.by = "digest" THEN sel.v
                      ELSE LET M == {i \in 1..Len(roots) : roots[i].ref = sel.v}
                           IN IF M = {} THEN "" ELSE roots[CHOOSE i \in M : \A j \in M : i <= j].n
NLinks(E) == Cardinality({e \in E : e.kind \in {"sym", "hard"}})
\* an index entry that the importer treats as a blob: as found it was uploaded from a drained reader (S6, C09-1;
\* switch DrainBug) and failed unless the blob was empty
DrainClass(g, want) == \E n \in ClosureN(g.nodes, want) :
                          /\ g.nodes[n].k = "index"
                          /\ \E i \in 1..Len(g.nodes[n].kids) :
                                /\ g.nodes[n].kids[i].t \in {"lay", "unk"}
                                /\ g.nodes[g.nodes[n].kids[i].n].a # "empty"

Mk(gn, lp, sn) ==
  IF gn \in DOMAIN Graphs /\ lp = "dkrest"
  THEN \* the Docker format remainder of the export of a single image: oci-layout and index.json stripped, what is
       \* left (manifest.json + blobs/...) imported by the name in RepoTags ("x:<tag>" stands for the export name)
       LET g == Graphs[gn]
           m == g.nodes[g.roots[1].n]
           E == {e \in BaseEntries(g) : e.c \notin {"layout", "index"}}
       IN [kind |-> "docker", g |-> gn, lp |-> lp, sel |-> Sels[sn], nodes |-> g.nodes, roots |-> g.roots,
           docker |-> DockerOf(g), entries |-> E, want |-> "",
           dkwant |-> [cfg |-> m.kids[1].n, layers |-> [i \in 1..(Len(m.kids) - 1) |-> m.kids[i + 1].n]],
           maxpass |-> 2, pretag |-> "", preblobs |-> {}, premans |-> {},
           \* a repeated layer is a repeated PATH in the Layers list of manifest.json (as found: C09-4)
           bad |-> IF \E i, j \in 2..Len(m.kids) : i # j /\ m.kids[i].n = m.kids[j].n THEN "duppath" ELSE ""]
  ELSE IF gn \in DOMAIN Graphs
  THEN LET g == Graphs[gn]
           E == WithLink(BaseEntries(g), g.victim, IF lp \in DOMAIN Orders THEN "none" ELSE lp)
           roots == RootsOf(g, lp)
           want == WantOf(roots, Sels[sn])
       IN [kind |-> "oci", g |-> gn, lp |-> lp, sel |-> Sels[sn], nodes |-> g.nodes, roots |-> roots,
           docker |-> DockerOf(g), entries |-> E, want |-> want, dkwant |-> [cfg |-> "", layers |-> <<>>],
           maxpass |-> (IF want = "" THEN 1 ELSE DepthN(g.nodes, want) + 1) + NLinks(E),
           pretag |-> IF Sels[sn].pre = "stale" THEN "stale" ELSE "",
           preblobs |-> IF Sels[sn].pre \in {"none", "stale"} \/ want = "" THEN {} ELSE {n \in ClosureN(g.nodes, want) : g.nodes[n].k = "blob"},
           premans |-> IF Sels[sn].pre = "all" /\ want # "" THEN {n \in ClosureN(g.nodes, want) : g.nodes[n].k # "blob"} ELSE {},
           bad |-> IF lp \in LinkBad THEN "link" ELSE IF want # "" /\ DrainClass(g, want) /\ Sels[sn].pre = "none" THEN "drain" ELSE ""]
  ELSE LET d == DkGraphs[gn]
           E == WithLink({F(<<"manifest.json">>, "docker")} \cup d.files, "", lp)
       IN [kind |-> "docker", g |-> gn, lp |-> lp, sel |-> Sels[sn], nodes |-> [none |-> Bl("norm")], roots |-> <<>>,
           docker |-> d.docker, entries |-> E, want |-> "", dkwant |-> d.want,
           maxpass |-> 2 + NLinks(E) + (IF gn = "dksym" THEN 1 ELSE 0), pretag |-> "", preblobs |-> {}, premans |-> {},
           bad |-> IF gn = "dksame" THEN "duppath" ELSE ""]

OciSmall == {"eidx", "single1", "emptyl", "inline", "dimg", "art", "alg512", "man512", "rep2", "idxrep"}   \* archives of <= 6 entries
OciMid == {"single1m", "single2", "extl", "nested", "blobent", "unkent", "emptyent", "sharedent", "idxsame",
           "rep3", "drep", "repe"}   \* 7
OciBig == {"idx2", "dock", "multi"}                                        \* 8
LinkAll == (LinkOK \cup LinkBad) \ {"none"}
DkIds == ({"dk1", "dksym", "dksame", "dkdot"} \X {"none"} \X {"def"})
         \cup ({"dk2"} \X {"none"} \X {"dkname"}) \cup ({"dk1"} \X {"dotslash", "junk"} \X {"def"})
MultiSameIds == {"multisame"} \X {"none"} \X {"tag1", "tag2", "name2"}
MultiIds == ({"multi"} \X {"none"} \X {"tag1", "tag2", "name2", "dig2"}) \cup MultiSameIds
\* related tag names x every order of the index.json entries x selection
OrderNames == DOMAIN Orders
TagIds == ({"tagsuf"} \X OrderNames \X {"tlatest", "nlatest", "nrc", "dsel"})
          \cup ({"tagsub"} \X OrderNames \X {"tlatest", "tdefault"})
          \cup ({"tagfull"} \X OrderNames \X {"tlatest", "nfull"})
TagQuickIds == {"tagsuf"} \X {"o1", "o4"} \X {"tlatest", "nrc"}
DkRestIds(G) == G \X {"dkrest"} \X {"dkrest"}

\* quick: every order of the archives of three representative graphs, every link pattern on the smallest
\* archive, a few on a 5 entry one, all Docker format archives
QuickIds == ({"eidx", "single1", "art"} \X {"none"} \X {"def"})
            \cup ({"eidx"} \X LinkAll \X {"def"})
            \cup ({"art"} \X {"symroot", "symsib"} \X {"def"})
            \cup DkIds \cup DkRestIds({"single1", "rep2"}) \cup TagQuickIds
\* small: the other archives of <= 6 entries
SmallIds == ((OciSmall \ {"eidx", "single1", "art"}) \X {"none"} \X {"def"})
            \cup ({"art"} \X {"symabs", "hardext", "symup", "hardshared", "idxlink", "dotslash", "junk", "dirs"} \X {"def"})
            \cup ({"single1"} \X {"none"} \X {"preblobs", "preall", "prestale", "dig1"})
            \cup ({"alg512"} \X {"symroot"} \X {"def"})
            \cup DkRestIds({"emptyl", "dimg", "alg512", "extl", "rep3", "drep", "repe"})
            \cup MultiSameIds
            \cup ({"rep2"} \X {"symroot", "dotslash"} \X {"def"}) \cup ({"rep2"} \X {"none"} \X {"preblobs", "preall"})
            \cup TagIds
\* mid: archives of 7 entries
MidIds == (OciMid \X {"none"} \X {"def"})
          \cup ({"art"} \X {"chain2"} \X {"def"})
          \cup ({"blobent"} \X {"none"} \X {"preblobs", "preall"}) \cup ({"nested", "idxsame"} \X {"none"} \X {"preall"})
          \cup ({"single1"} \X {"symroot", "symsib", "idxlink"} \X {"def"})
          \cup ({"single1m"} \X {"symroot", "hardext", "symsib"} \X {"def"})
\* big: archives of 8 entries (one of them explored exhaustively, all of them by random orders)
BigIds == ((OciBig \ {"multi"}) \X {"none"} \X {"def"}) \cup MultiIds
          \cup ({"rep3"} \X {"symroot", "hardext"} \X {"def"})
          \cup ({"art"} \X {"chain3"} \X {"def"})
          \cup ({"nested", "blobent", "single2"} \X {"symroot", "dotslash"} \X {"def"})
BigBfsIds == {"idx2"} \X {"none"} \X {"def"}         \* (C09_mc_big.cfg: 0.87 M states, run by hand)
\* the 7 entry archives explored exhaustively in the thorough tier; the others (same automaton up to blob
\* attributes) and the 8 entry ones are explored by random orders (C09_sim_big.cfg)
MidBfsIds == ({"single2", "nested", "blobent", "unkent", "emptyent", "sharedent", "idxsame", "rep3"} \X {"none"} \X {"def"})
             \cup ({"art"} \X {"chain2"} \X {"def"})
             \cup ({"blobent"} \X {"none"} \X {"preblobs"}) \cup ({"nested"} \X {"none"} \X {"preall"})
             \cup ({"single1"} \X {"symroot", "symsib"} \X {"def"}) \cup ({"single1m"} \X {"symroot"} \X {"def"})
SimIds == MidIds \cup BigIds
ThoroughIds == QuickIds \cup SmallIds \cup MidIds \cup BigIds
\* scenario generation: every order for archives of <= 6 entries, random orders (-simulate) for the rest
\* (the related-name archives vary in the order of index.json, not of the tar entries: random tar orders only)
GenSmallIds == {x \in ThoroughIds \ TagIds : Cardinality(Mk(x[1], x[2], x[3]).entries) <= 6}
GenLargeIds == ThoroughIds \ GenSmallIds
\* (quick: the two-tags-one-image archive only by random orders, every order in the thorough tier)
GenTinyIds == {x \in ThoroughIds \ (TagIds \cup MultiSameIds) : Cardinality(Mk(x[1], x[2], x[3]).entries) <= 5}
\* the classes on which the importer failed as found (expected counterexamples of the as-found switches) and liveness
S6Ids == {"blobent", "unkent", "sharedent"} \X {"none"} \X {"def"}
LinkBadIds == {"eidx"} \X LinkBad \X {"def"}
DupPathIds == {"dksame"} \X {"none"} \X {"def"}
LiveIds == ({"eidx"} \X (LinkAll \cup {"none"}) \X {"def"}) \cup ({"dk1", "dksym", "dksame"} \X {"none"} \X {"def"})
AllIds == ThoroughIds
AllTable == [x \in AllIds |-> Mk(x[1], x[2], x[3])]
=============================================================================

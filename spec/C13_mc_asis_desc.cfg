\* before the repair (FixDesc off): the subject of a child's referrer carries the stale inline data of the old descriptor
CONSTANTS
 Images <- ImagesDataRefs
 Options <- OptsAsisDesc
 MaxProg = 2
 Places = {"same-tag"}
 SrcKinds = {"reg"}
 FixData = TRUE
 FixWriter = TRUE
 FixAdded = TRUE
 FixTag = TRUE
 FixClose = TRUE
 FixDesc = FALSE
 Fine = FALSE
SPECIFICATION Spec
INVARIANTS PostTruthful
CHECK_DEADLOCK FALSE

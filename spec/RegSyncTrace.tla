---------------------------- MODULE RegSyncTrace ----------------------------
(***************************************************************************)
(* Trace spec for C18: replays the ndjson log (env VERIF_TRACE) recorded by *)
(* harness/cmd/c18drv around the real regsync binary through the monitor    *)
(* RegSyncProp.  One line per event:                                        *)
(*   reset   trace id, conf (the abstract configuration, echoed), imgs      *)
(*   env     the environment moved / deleted a source tag (between runs)    *)
(*   begin   mode, tags [[reg,repo,tag,img,complete]], repos [[reg,repo,h]] *)
(*   tagput  reg, repo, tag, img ("" = deleted), complete - serving order   *)
(*   compl   reg, repo, tag, complete: completeness changed, tag unmoved    *)
(*   end     mode, exit, tags, repos, lost [[reg,repo]], nwr, nmut          *)
(* No deviation from the monitor: every event maps to exactly one action.   *)
(***************************************************************************)
EXTENDS RegSyncProp, Json, IOUtils, TLC, Integers
Log == ndJsonDeserialize(IOEnv.VERIF_TRACE)
VARIABLE l
Ev == Log[l]
TInit == PInit /\ l = 1
TNext ==
  /\ l <= Len(Log)
  /\ l' = l + 1
  /\ \/ Ev.ev = "reset" /\ PReset(Ev.conf, Ev.imgs)
     \/ Ev.ev = "env" /\ PEnv
     \/ Ev.ev = "begin" /\ PBegin(Ev.mode, SeqSet(Ev.tags), SeqSet(Ev.repos))
     \/ Ev.ev = "tagput" /\ PTagPut(<<Ev.reg, Ev.repo, Ev.tag>>, Ev.img, Ev.complete)
     \/ Ev.ev = "compl" /\ PCompl(<<Ev.reg, Ev.repo, Ev.tag>>, Ev.complete)
     \/ Ev.ev = "end" /\ PEnd(Ev.mode, Ev.exit, SeqSet(Ev.tags), SeqSet(Ev.repos), SeqSet(Ev.lost), Ev.nwr, Ev.nmut)
TSpec == TInit /\ [][TNext]_<<pvars, l>>
HW == TLCSet(1, IF TLCGet(1) > l THEN TLCGet(1) ELSE l)
Accepted == PrintT(<<"HIGHWATER", TLCGet(1), Len(Log)>>)
ASSUME TLCSet(1, 0)
=============================================================================

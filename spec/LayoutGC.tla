------------------------------ MODULE LayoutGC ------------------------------
(***************************************************************************)
(* (D) design spec for C08: the garbage collector of an OCI layout          *)
(* (scheme/ocidir) and the lock that keeps it from running under an image   *)
(* copy.  Implementation shaped: one action per critical section of         *)
(* OCIDir.mu / per request an ImageCopy sends to its source.                *)
(*                                                                          *)
(* State mirrored                                                           *)
(*   files    the names under <layout>/blobs/<alg>/ (digest named files and *)
(*            *.tmp files)                                                  *)
(*   idx      index.json: set of <<ref.name annotation or "", digest>>;     *)
(*            hasidx: the file exists (the first manifestPut creates it;    *)
(*            a BlobPut only creates oci-layout)                            *)
(*   modRefs  OCIDir.modRefs: gcKey(r) -> ociGC{mod, locks} (ex = key       *)
(*            present); gcKey normalizes the path (KeyMode "clean"; the     *)
(*            literal r.Path of the tree as found and a symlink resolving   *)
(*            variant are kept as switches for expected counterexamples)    *)
(*   gcr      the collection running inside Close (close.go): its key, the  *)
(*            digest list dl of the mark phase, the blobs/<alg> directories *)
(*            listed and not swept yet; dirs: the blobs/<alg> directories   *)
(*            that exist                                                    *)
(*   per ImageCopy call c (image.go): cst (idle / call = waiting in GCLock  *)
(*   for OCIDir.mu / run / fail / ok / err),                                *)
(*   act (running imageCopyOpt instances), need (looked up in the layout,   *)
(*   not there: to be fetched from the source), hit (what the target tag    *)
(*   named when the copy looked), got (source manifests fetched), tmpf      *)
(*   (BlobPut between CreateTemp and Rename), fin (opt.seen entries that    *)
(*   are done), rl (referrer lists fetched)                                 *)
(*                                                                          *)
(* Actions -> code                                                          *)
(*   CopyBegin        image.go:ImageCopy, GCLock (ocidir.go:GCLock) of the   *)
(*                    target and of a separate referrer target (conf rt:    *)
(*                    ImageWithReferrerTgt; the image then goes to another  *)
(*                    layout "q" of which only the lock entry is modelled,  *)
(*                    its referrers are written here)                       *)
(*   CopyCheck        imageCopyOpt: ManifestHead(tgt): by tag for the root  *)
(*                    (the digest found is remembered), by digest for a     *)
(*                    child (already in the layout -> not descended into)   *)
(*   CopyHeadSame     imageCopyOpt: the tag was found, the source HEAD has  *)
(*                    the same digest -> nothing is written                 *)
(*   CopyFetch        imageCopyOpt: ManifestGet(src); children started      *)
(*   CopyBlobCheck    blob.go:BlobCopy, BlobHead(tgt): hit -> done          *)
(*   CopyBlobStart    BlobCopy: BlobGet(src) + ocidir/blob.go:BlobPut up to *)
(*                    the temp file                                         *)
(*   CopyBlobCommit   BlobPut: rename + refMod (fails when the temp file is *)
(*                    gone)                                                 *)
(*   CopyRefList      imageCopyOpt: ReferrerList(src), referrers started    *)
(*   CopyPutManifest  imageCopyOpt: ManifestPut(tgt) (child | top) ->       *)
(*                    ocidir/manifest.go:manifestPut, updateIndex/indexSet, *)
(*                    refMod, referrerPut for a manifest with a subject     *)
(*   CopyEnd          ImageCopy returns nil; deferred GCUnlock              *)
(*   CopyAbort        a source request fails, ImageCopy returns the error;  *)
(*   CopyFailEnd      deferred GCUnlock runs on the error path as well      *)
(*   Close            ocidir/close.go:Close, with any context, that skips   *)
(*                    (gc off / no entry / not mod / locks>0) or fails      *)
(*                    (no index.json)                                       *)
(*   CloseBegin       Close that collects: OCIDir.mu taken, lock check,     *)
(*                    mark = closeProcManifest from index.json, ReadDir of  *)
(*                    blobs/ (the algorithm directories there are)          *)
(*   SweepDir         Close: ReadDir of the next blobs/<alg> (sorted), every *)
(*                    entry not marked is removed                           *)
(*   CloseEnd         Close: the modRefs entry is deleted, OCIDir.mu released *)
(*                    (deferred Unlock).  The mutex is held from CloseBegin *)
(*                    to CloseEnd (SweepLocked): nothing else that takes    *)
(*                    OCIDir.mu happens in between; a call made meanwhile   *)
(*                    waits:                                                *)
(*   CopyCall         ImageCopy called while a collection holds OCIDir.mu:   *)
(*                    it waits in GCLock (CopyBegin follows once the mutex  *)
(*                    is free)                                              *)
(*   TagDelete        ocidir/tag.go:tagDelete (every entry of the tag)      *)
(*   ManifestDelete   ocidir/manifest.go:ManifestDelete (referrerDelete for *)
(*                    a manifest with a subject, index entries, file)       *)
(*   Retag            image.go:ImageCopy inside the layout (same repository: *)
(*                    GCLock, ManifestGet and ManifestPut under the new tag,*)
(*                    GCUnlock; no request to a registry, so the call runs  *)
(*                    through without a point where others could interleave *)
(*                    except between its critical sections, which is not    *)
(*                    modelled: one step)                                   *)
(*   PushBlob         ocidir/blob.go:BlobPut outside a copy (no lock)       *)
(*   PushBlobBad      BlobPut whose content fails verification: the temp    *)
(*                    file stays, refMod is not reached                     *)
(*   PushManifest     ocidir/manifest.go:ManifestPut outside a copy, by     *)
(*                    tag, by digest (untagged entry) or as child           *)
(*                    (referrerPut when the manifest has a subject)         *)
(*                                                                          *)
(* Mark mirrors closeProcManifest case by case (Indexer -> listed digests   *)
(* and recursion, Imager -> config if any + layers / blobs / fsLayers);     *)
(* Reach is the statement's notion (everything the index reaches through    *)
(* files that are present).  The invariants compare the two.                *)
(*                                                                          *)
(* Deliberate deviations: the image graph is a fixed catalogue (Cat);       *)
(* contents are names (ideal hash); the fall-back referrer index of the one *)
(* subject (M1) is one of the catalogue nodes R1 / R2 / R12 according to    *)
(* the set it lists; rename and refMod of a BlobPut are one step; a         *)
(* ManifestHead on the layout is folded into the step that follows it; the  *)
(* (ManifestHead holds OCIDir.mu from the index lookup to the file check,    *)
(* so the fold loses nothing); the                                          *)
(* put throttle (3 per path) and the order in which goroutines of one copy  *)
(* are admitted are not modelled (any order is allowed); I/O errors other   *)
(* than a vanished temp file and a missing index.json are not modelled;     *)
(* index.json entries form a set (duplicate entries: C06).                  *)
(***************************************************************************)
EXTENDS Naturals, Integers, FiniteSets, Sequences, TLC

CONSTANTS Copies,     \* ids of the ImageCopy calls, e.g. {"c1", "c2"}
          Confs,      \* configurations to explore (LayoutGCMC)
          MaxCloses,  \* number of rc.Close calls
          MaxOps,     \* number of other events (deletes, pushes, a failing source request)
          KeyMode,    \* how modRefs is keyed (ocidir.go:gcKey):
                      \*  "resolve"  Clean + Abs + symlinks of the longest existing parent resolved
                      \*             (fixes 333d01d, 8db2746: the code as it is): every spelling of the
                      \*             directory is one key
                      \*  "clean"    Clean + Abs only (333d01d without 8db2746, finding C08-2)
                      \*  "literal"  the literal r.Path, as found (finding C08-1)
                      \*  "symlinks" Clean + Abs + EvalSymlinks, keeping the unresolved key while the
                      \*             layout does not exist yet (seeded change C08-3)
                      \* all but "resolve" exist for expected-counterexample configurations only
          LockRefTgt, \* TRUE: ImageCopy also takes the GC lock of a separate referrer target (image.go,
                      \* fix ed2957a); FALSE: only of refTgt, as found (finding C08-3)
          CtxKinds,   \* the contexts rc.Close is called with: "bg" (live), "cancelled", "expired"
                      \* (deadline already passed), "late" (shared with the call before, cancelled after it)
          MarkCtx,    \* FALSE: the mark phase does not look at the context (close.go, manifest.go:
                      \* manifestGet ignores it: the code as it is); TRUE: manifestGet fails on a finished
                      \* context and closeProcManifest swallows the error (seeded change C08-6): only the
                      \* digests index.json lists are marked.  TRUE exists for an expected counterexample.
          Eager       \* TRUE: steps of a copy that wait for nothing run before anything else
                      \* (hand-made partial order reduction for the graph-shape configurations;
                      \* the lock configurations are explored with every interleaving)

VARIABLES conf, files, idx, hasidx, modRefs, cst, act, need, hit, got, tmpf, fin, rl, closes, ops,
          gcr,    \* the collection in progress inside Close: [on, k (its key), mark (digest list dl),
                  \* todo (algorithm directories listed by ReadDir(blobs/) and not swept yet)]
          dirs    \* the directories blobs/<alg> that exist (nothing ever removes one)
vars == <<conf, files, idx, hasidx, modRefs, cst, act, need, hit, got, tmpf, fin, rl, closes, ops, gcr, dirs>>

\* TRUE: Close holds OCIDir.mu from the lock check to the end of the sweep (deferred Unlock: the code
\* as it is).  FALSE (overridden in an expected-counterexample configuration only, seeded C08-9): the
\* entry is deleted and the mutex released once the mark phase is done, the sweep runs without it.
SweepLocked == TRUE

-----------------------------------------------------------------------------
(* The catalogue of image graphs held by the source registry.               *)
Man(k, c, l, s, j) == [kind |-> k, cfg |-> c, lay |-> l, sub |-> s, subj |-> j]
Cat == [
  M1  |-> Man("image",    {"C1"}, {"L1", "L2"}, {}, ""),
  M2  |-> Man("image",    {"C2"}, {"L2", "L3"}, {}, ""),      \* shares L2 with M1
  M3  |-> Man("image",    {"C3"}, {"L4"}, {}, ""),            \* body without mediaType (duck typed)
  M4  |-> Man("image",    {"C4"}, {"L4"}, {}, ""),            \* shares L4 with M3
  M5  |-> Man("image",    {"C5"}, {"L5"}, {}, ""),            \* its layer is addressed by sha512
  S1  |-> Man("schema1",  {}, {"L1", "L4"}, {}, ""),          \* docker schema1: fsLayers, no config
  I1  |-> Man("index",    {}, {}, {"M1", "M2"}, ""),
  N1  |-> Man("index",    {}, {}, {"I1", "M3"}, ""),          \* nested index
  X1  |-> Man("index",    {}, {}, {"M4", "L3"}, ""),          \* index that lists a layer blob directly
  U1  |-> Man("image",    {"E1"}, {"M4"}, {}, ""),            \* artifact whose layer IS the manifest of M4
  U2  |-> Man("artifact", {}, {"I1", "B2"}, {}, ""),          \* artifact whose blob IS the index I1
  A1  |-> Man("image",    {"E1"}, {"B1"}, {}, "M1"),          \* artifact packaged as image manifest + subject
  A2  |-> Man("artifact", {}, {"B1", "B2"}, {}, "M1"),        \* OCI artifact manifest: blobs + subject
  R1  |-> Man("index",    {}, {}, {"A1"}, ""),                \* fall-back referrer indexes of M1
  R2  |-> Man("index",    {}, {}, {"A2"}, ""),
  R12 |-> Man("index",    {}, {}, {"A1", "A2"}, ""),
  R0  |-> Man("index",    {}, {}, {}, "") ]
Mans == DOMAIN Cat
IsMan(n) == n \in Mans
Kids(n) == Cat[n].sub \cup Cat[n].cfg \cup Cat[n].lay
Blb(n) == Cat[n].cfg \cup Cat[n].lay \cup (Cat[n].sub \ Mans)   \* copied with BlobCopy
FB == "fb-M1"                               \* the fall-back tag sha256-<M1>
RName(S) == IF S = {"A1"} THEN "R1" ELSE IF S = {"A2"} THEN "R2"
            ELSE IF S = {"A1", "A2"} THEN "R12" ELSE "R0"
Referrers(n) == {a \in Mans : Cat[a].subj = n}
Nodes == Mans \cup UNION {Kids(n) : n \in Mans}
Tmp(c, b) == "tmp-" \o c \o "-" \o b        \* BlobPut temp file of copy c for blob b
\* the algorithm directory a file lives in: L5 is addressed by sha512, and so is the temp file of its put
Alg(x) == IF x = "L5" \/ x \in {"tmp-" \o c \o "-L5" : c \in Copies} THEN "sha512" ELSE "sha256"
TmpNames == {Tmp(c, b) : c \in Copies, b \in Nodes} \cup {"tmp-bad", "tmp-plant", "tmp-plant-man"}
IsTmp(x) == x \in TmpNames
\* ocidir.go:gcKey: filepath.Clean + Abs; the spellings used here are the path ("p") and the path
\* with a trailing slash ("p/")
\* the layout directory exists (conf.fresh: it does not when the history starts; the first BlobPut
\* or ManifestPut creates it, nothing removes index.json or the last file without an index)
Exists == ~conf.fresh \/ hasidx \/ files # {}
\* spellings: "p" the real (absolute) path, "p/" with a trailing slash, "r" relative to the working
\* directory, "l" through a symbolic link
Norm(k) == IF k \in {"p/", "r"} THEN "p" ELSE k
Resolve(k) == IF k = "l" THEN "p" ELSE Norm(k)
KeyIf(k, ex) == CASE KeyMode = "literal" -> k
                  [] KeyMode = "clean" -> Norm(k)
                  [] KeyMode = "resolve" -> Resolve(k)
                  [] KeyMode = "symlinks" -> IF ex THEN Resolve(k) ELSE Norm(k)
GcKey(k) == KeyIf(k, Exists)      \* GCLock, GCUnlock, Close: the directory as it is now
KeyW(k) == KeyIf(k, TRUE)         \* refMod: always called after a write, the directory exists
\* "q" is another layout: the target of a copy whose referrers go to this layout
\* (conf.cp[c].rt, ImageWithReferrerTgt); nothing else about it is modelled
Keys == UNION {{k, Norm(k), Resolve(k)} : k \in {conf.cp[c].key : c \in Copies} \cup conf.ckeys \cup {conf.okey}
                                              \cup ({conf.cp[c].rk : c \in Copies} \ {""})}
        \cup {"q"}
\* what a copy with a separate referrer target writes into this layout: the referrers of M1, their
\* config and blobs, and the fall-back index; the image itself goes to "q"
HereNodes == {"A1", "A2", "E1", "B1", "B2", "R0", "R1", "R2", "R12"}

-----------------------------------------------------------------------------
(* Statement level reachability and the code's mark phase.                  *)
(* A digest is read as a manifest only where it is listed as one (index entry, entry of a nested    *)
(* index); named as config / layer / blob it is a leaf, even when the file happens to be a manifest *)
(* (U1, U2).                                                                                        *)
RECURSIVE ClosureM(_, _, _)
ClosureM(f, todo, seen) ==      \* the digests reached in the role of a manifest
  IF todo = {} THEN seen
  ELSE LET n == CHOOSE x \in todo : TRUE
           kids == IF n \in f /\ IsMan(n) THEN Cat[n].sub ELSE {}
       IN ClosureM(f, (todo \cup kids) \ (seen \cup {n}), seen \cup {n})
Closure(f, roots) == LET M == ClosureM(f, roots, {})
                     IN M \cup UNION {Cat[n].cfg \cup Cat[n].lay : n \in {m \in M : m \in f /\ IsMan(m)}}
Reach(f, i) == Closure(f, {e[2] : e \in i})

RECURSIVE MarkMan(_, _)
MarkMan(f, n) ==      \* closeProcManifest on the loaded manifest n
  (IF Cat[n].kind = "index"                                        \* manifest.Indexer
   THEN UNION {{d} \cup (IF d \in f /\ IsMan(d) THEN MarkMan(f, d) ELSE {}) : d \in Cat[n].sub}
   ELSE {})
  \cup (IF Cat[n].kind \in {"image", "schema1", "artifact"}        \* manifest.Imager
        THEN Cat[n].cfg \cup Cat[n].lay ELSE {})
MarkAll(f, i) == UNION {{e[2]} \cup (IF e[2] \in f /\ IsMan(e[2]) THEN MarkMan(f, e[2]) ELSE {}) : e \in i}

-----------------------------------------------------------------------------
(* modRefs primitives (ocidir.go)                                           *)
NoEntry == [ex |-> FALSE, mod |-> FALSE, locks |-> 0]
GCLock(m, k) == IF m[k].ex THEN [m EXCEPT ![k].locks = @ + 1]
                ELSE [m EXCEPT ![k] = [ex |-> TRUE, mod |-> FALSE, locks |-> 1]]
GCUnlock(m, k) == IF m[k].ex /\ m[k].locks > 0 THEN [m EXCEPT ![k].locks = @ - 1] ELSE m
RefMod(m, k) == IF m[k].ex THEN [m EXCEPT ![k].mod = TRUE]
                ELSE [m EXCEPT ![k] = [ex |-> TRUE, mod |-> TRUE, locks |-> 0]]

(* index.json primitives (ocidir.go:indexSet, indexGet)                     *)
IndexSet(i, t, d) == (i \ {e \in i : (e[1] = "" /\ e[2] = d) \/ (t # "" /\ e[1] = t)}) \cup {<<t, d>>}
TagAt(i, t) == IF \E e \in i : e[1] = t THEN (CHOOSE e \in i : e[1] = t)[2] ELSE "none"

(* referrer.go:referrerPut / referrerDelete on the fall-back tag.  Result:  *)
(* [ok, files, idx].  The list is read through manifestGet of the tag: an   *)
(* index entry whose file is gone is an error (not "not found").            *)
RefCur(i) == TagAt(i, FB)
RefPut(f, i, a) ==
  LET cur == RefCur(i) IN
  IF cur # "none" /\ cur \notin f THEN [ok |-> FALSE, files |-> f, idx |-> i]
  ELSE LET S == (IF cur = "none" THEN {} ELSE Cat[cur].sub) \cup {a}
       IN [ok |-> TRUE, files |-> f \cup {RName(S)}, idx |-> IndexSet(i, FB, RName(S))]
RefDel(f, i, a) ==
  LET cur == RefCur(i) IN
  IF cur = "none" \/ cur \notin f \/ a \notin Cat[cur].sub THEN [ok |-> FALSE, files |-> f, idx |-> i]
  ELSE LET S == Cat[cur].sub \ {a}
       IN IF S = {} THEN [ok |-> TRUE, files |-> f, idx |-> {e \in i : e[1] # FB}]
          ELSE [ok |-> TRUE, files |-> f \cup {RName(S)}, idx |-> IndexSet(i, FB, RName(S))]

(* manifestPut: file, index entry unless child, referrerPut for a subject   *)
ManPut(f, i, n, t, child) ==
  LET f1 == f \cup {n}
      i1 == IF child THEN i ELSE IndexSet(i, t, n)
  IN IF Cat[n].subj = "" THEN [ok |-> TRUE, files |-> f1, idx |-> i1] ELSE RefPut(f1, i1, n)

-----------------------------------------------------------------------------
CP(c) == conf.cp[c]
Here(c, n) == ~CP(c).rt \/ n \in HereNodes
\* ImageCopy: GCLock(refTgt), and of the referrer target when it is a separate one
\* (rk # "": ImageWithReferrerTgt names this very layout, spelled rk: it is locked a second time and
\* unlocked a second time, the count is per lock not per copy)
LockAll(m, c) == IF CP(c).rt THEN (IF LockRefTgt THEN GCLock(GCLock(m, "q"), GcKey(CP(c).key)) ELSE GCLock(m, "q"))
                 ELSE IF CP(c).rk # "" /\ LockRefTgt THEN GCLock(GCLock(m, GcKey(CP(c).key)), GcKey(CP(c).rk))
                 ELSE GCLock(m, GcKey(CP(c).key))
UnlockAll(m, c) == IF CP(c).rt THEN (IF LockRefTgt THEN GCUnlock(GCUnlock(m, "q"), GcKey(CP(c).key)) ELSE GCUnlock(m, "q"))
                   ELSE IF CP(c).rk # "" /\ LockRefTgt THEN GCUnlock(GCUnlock(m, GcKey(CP(c).key)), GcKey(CP(c).rk))
                   ELSE GCUnlock(m, GcKey(CP(c).key))
InProg(c) == cst[c] \in {"run", "fail"}          \* between GCLock and GCUnlock
Sel(c, n) == (Cat[n].sub \cap Mans) \ CP(c).skip   \* child manifests kept by ImageWithPlatforms
PreFiles == Closure(Nodes, {p[1] : p \in conf.pre})

NoGC == [on |-> FALSE, k |-> "", mark |-> {}, todo |-> {}]
MutexFree == ~gcr.on \/ ~SweepLocked      \* OCIDir.mu is not held by a collection
Init ==
  /\ conf \in Confs
  /\ files = PreFiles \cup conf.plant
  /\ idx = {<<p[2], p[1]>> : p \in conf.pre}
  /\ hasidx = (conf.pre # {})
  /\ modRefs = [k \in Keys |-> NoEntry]
  /\ cst = [c \in Copies |-> "idle"]
  /\ act = [c \in Copies |-> {}]
  /\ need = [c \in Copies |-> {}]
  /\ hit = [c \in Copies |-> "none"]
  /\ got = [c \in Copies |-> {}]
  /\ tmpf = [c \in Copies |-> {}]
  /\ fin = [c \in Copies |-> {}]
  /\ rl = [c \in Copies |-> {}]
  /\ closes = 0
  /\ ops = 0
  /\ gcr = NoGC
  /\ dirs = {Alg(x) : x \in PreFiles \cup conf.plant}

Done == (\A c \in Copies : cst[c] \in {"ok", "err"}) /\ closes = MaxCloses /\ ~gcr.on

\* ---- copies ----
\* ImageCopy is called while a collection holds the mutex: GCLock waits
CopyCall(c) ==
  /\ gcr.on /\ cst[c] = "idle"
  /\ cst' = [cst EXCEPT ![c] = "call"]
  /\ UNCHANGED <<conf, files, idx, hasidx, modRefs, act, need, hit, got, tmpf, fin, rl, closes, ops>>

CopyBegin(c) ==
  /\ cst[c] \in {"idle", "call"}
  /\ cst' = [cst EXCEPT ![c] = "run"]
  /\ act' = [act EXCEPT ![c] = {CP(c).root}]
  /\ modRefs' = LockAll(modRefs, c)
  /\ UNCHANGED <<conf, files, idx, hasidx, need, hit, got, tmpf, fin, rl, closes, ops>>

\* ManifestHead on the layout.  Root: by tag, the digest found is kept for the comparison with the
\* source.  Child: by digest; a file that is already there is not descended into.
TagHitNow(c) == IF hasidx /\ TagAt(idx, CP(c).tag) # "none" /\ TagAt(idx, CP(c).tag) \in files
                THEN TagAt(idx, CP(c).tag) ELSE "none"
Unchecked(c, n) == n \in act[c] /\ n \notin need[c] /\ n \notin got[c]
CopyCheck(c, n) ==
  /\ cst[c] = "run" /\ Unchecked(c, n)
  /\ IF n = CP(c).root
     THEN /\ hit' = [hit EXCEPT ![c] = IF CP(c).rt THEN "none" ELSE TagHitNow(c)]
          /\ need' = [need EXCEPT ![c] = @ \cup {n}]
          /\ UNCHANGED <<act, fin>>
     ELSE IF n \in files /\ ~CP(c).refs
          THEN /\ act' = [act EXCEPT ![c] = @ \ {n}]
               /\ fin' = [fin EXCEPT ![c] = @ \cup {n}]
               /\ UNCHANGED <<need, hit>>
          ELSE /\ need' = [need EXCEPT ![c] = @ \cup {n}]
               /\ UNCHANGED <<act, fin, hit>>
  /\ UNCHANGED <<conf, files, idx, hasidx, modRefs, cst, got, tmpf, rl, closes, ops>>

\* the tag already named this digest: source HEAD, then nothing to do
SameAsTarget(c) == ~CP(c).refs /\ hit[c] = CP(c).root
CopyHeadSame(c) ==
  LET n == CP(c).root IN
  /\ cst[c] = "run" /\ n \in act[c] /\ n \in need[c] /\ n \notin got[c] /\ SameAsTarget(c)
  /\ act' = [act EXCEPT ![c] = @ \ {n}]
  /\ need' = [need EXCEPT ![c] = @ \ {n}]
  /\ fin' = [fin EXCEPT ![c] = @ \cup {n}]
  /\ UNCHANGED <<conf, files, idx, hasidx, modRefs, cst, hit, got, tmpf, rl, closes, ops>>

CopyFetch(c, n) ==
  /\ cst[c] = "run" /\ n \in act[c] /\ n \in need[c] /\ n \notin got[c]
  /\ n = CP(c).root => ~SameAsTarget(c)
  /\ got' = [got EXCEPT ![c] = @ \cup {n}]
  /\ need' = [need EXCEPT ![c] = @ \ {n}]
  /\ act' = [act EXCEPT ![c] = @ \cup (Sel(c, n) \ fin[c])]
  /\ UNCHANGED <<conf, files, idx, hasidx, modRefs, cst, hit, tmpf, fin, rl, closes, ops>>

\* BlobHead on the layout when the blob's goroutine starts; the GET may wait a long time after it
BlobWanted(c, b) == \E n \in act[c] \cap got[c] : b \in Blb(n)
\* b waits for its source GET as a blob (a manifest can be the layer of an artifact: U1, U2)
BlobNeed(c, b) == b \in need[c] /\ b \notin act[c]
CopyBlobCheck(c, b) ==
  /\ cst[c] = "run" /\ BlobWanted(c, b) /\ b \notin fin[c] /\ b \notin tmpf[c] /\ b \notin need[c]
  /\ IF Here(c, b) /\ b \in files
     THEN fin' = [fin EXCEPT ![c] = @ \cup {b}] /\ need' = need
     ELSE need' = [need EXCEPT ![c] = @ \cup {b}] /\ fin' = fin
  /\ UNCHANGED <<conf, files, idx, hasidx, modRefs, cst, act, hit, got, tmpf, rl, closes, ops>>

CopyBlobStart(c, b) ==
  /\ cst[c] = "run" /\ BlobNeed(c, b)
  /\ need' = [need EXCEPT ![c] = @ \ {b}]
  /\ IF Here(c, b)
     THEN /\ tmpf' = [tmpf EXCEPT ![c] = @ \cup {b}]
          /\ files' = files \cup {Tmp(c, b)}
          /\ fin' = fin
     ELSE /\ fin' = [fin EXCEPT ![c] = @ \cup {b}]        \* written to the other layout
          /\ UNCHANGED <<tmpf, files>>
  /\ UNCHANGED <<conf, idx, hasidx, modRefs, cst, act, hit, got, rl, closes, ops>>

CopyBlobCommit(c, b) ==
  /\ cst[c] = "run" /\ b \in tmpf[c]
  /\ tmpf' = [tmpf EXCEPT ![c] = @ \ {b}]
  /\ IF Tmp(c, b) \in files
     THEN /\ files' = (files \ {Tmp(c, b)}) \cup {b}
          /\ modRefs' = RefMod(modRefs, KeyW(CP(c).key))
          /\ fin' = [fin EXCEPT ![c] = @ \cup {b}]
          /\ cst' = cst
     ELSE /\ cst' = [cst EXCEPT ![c] = "fail"]          \* rename: no such file
          /\ UNCHANGED <<files, modRefs, fin>>
  /\ UNCHANGED <<conf, idx, hasidx, act, need, hit, got, rl, closes, ops>>

\* the referrer list is asked for while the children and blobs of n are still being copied
CopyRefList(c, n) ==
  /\ cst[c] = "run" /\ CP(c).refs /\ n \in act[c] /\ n \in got[c] /\ n \notin rl[c]
  /\ rl' = [rl EXCEPT ![c] = @ \cup {n}]
  /\ act' = [act EXCEPT ![c] = @ \cup (Referrers(n) \ fin[c])]
  /\ UNCHANGED <<conf, files, idx, hasidx, modRefs, cst, need, hit, got, tmpf, fin, closes, ops>>

ContentDone(c, n) == /\ n \in got[c] /\ Sel(c, n) \subseteq fin[c] /\ Blb(n) \subseteq fin[c]
                     /\ CP(c).refs => (n \in rl[c] /\ Referrers(n) \subseteq fin[c])
CopyPutManifest(c, n) ==
  /\ cst[c] = "run" /\ n \in act[c] /\ ContentDone(c, n)
  /\ IF Here(c, n)
     THEN /\ LET r == ManPut(files, idx, n, CP(c).tag, n # CP(c).root) IN
             /\ files' = r.files
             /\ idx' = r.idx
             /\ cst' = IF r.ok THEN cst ELSE [cst EXCEPT ![c] = "fail"]
          /\ hasidx' = TRUE
          /\ modRefs' = RefMod(modRefs, KeyW(CP(c).key))
     ELSE UNCHANGED <<files, idx, cst, hasidx, modRefs>>   \* pushed to the other layout
  /\ act' = [act EXCEPT ![c] = @ \ {n}]
  /\ fin' = [fin EXCEPT ![c] = @ \cup {n}]
  /\ UNCHANGED <<conf, need, hit, got, tmpf, rl, closes, ops>>

CopyEnd(c) ==
  /\ cst[c] = "run" /\ act[c] = {} /\ tmpf[c] = {}
  /\ cst' = [cst EXCEPT ![c] = "ok"]
  /\ modRefs' = UnlockAll(modRefs, c)
  /\ UNCHANGED <<conf, files, idx, hasidx, act, need, hit, got, tmpf, fin, rl, closes, ops>>

\* a request to the source fails (counted as one of the MaxOps other events): the error is
\* returned once the running puts have finished (CopyFailDrain)
SrcPending(c) == \E n \in act[c] : (n \in need[c] /\ n \notin got[c]) \/ (CP(c).refs /\ n \in got[c] /\ n \notin rl[c])
                 \/ \E b \in need[c] : BlobNeed(c, b)
CopyAbort(c) ==
  /\ cst[c] = "run" /\ conf.faults /\ ops < MaxOps /\ SrcPending(c)
  /\ ops' = ops + 1
  /\ cst' = [cst EXCEPT ![c] = "fail"]
  /\ UNCHANGED <<conf, files, idx, hasidx, modRefs, act, need, hit, got, tmpf, fin, rl, closes>>

CopyFailEnd(c) ==
  /\ cst[c] = "fail" /\ tmpf[c] = {}
  /\ cst' = [cst EXCEPT ![c] = "err"]
  /\ act' = [act EXCEPT ![c] = {}]
  /\ need' = [need EXCEPT ![c] = {}]
  /\ modRefs' = UnlockAll(modRefs, c)
  /\ UNCHANGED <<conf, files, idx, hasidx, hit, got, tmpf, fin, rl, closes, ops>>

\* a put that was between temp file and rename when the copy failed still finishes (or fails)
CopyFailDrain(c, b) ==
  /\ cst[c] = "fail" /\ b \in tmpf[c]
  /\ tmpf' = [tmpf EXCEPT ![c] = @ \ {b}]
  /\ IF Tmp(c, b) \in files
     THEN /\ files' = (files \ {Tmp(c, b)}) \cup {b}
          /\ modRefs' = RefMod(modRefs, KeyW(CP(c).key))
     ELSE UNCHANGED <<files, modRefs>>
  /\ UNCHANGED <<conf, idx, hasidx, cst, act, need, hit, got, fin, rl, closes, ops>>

\* ---- the collector ----
\* (readIndex fails while index.json does not exist: Close returns the error, nothing changes)
GCRuns(k) == conf.gc /\ modRefs[k].ex /\ modRefs[k].mod /\ modRefs[k].locks = 0 /\ hasidx
\* x: the context of the call.  Close never checks it and neither does anything the mark phase calls,
\* so the result does not depend on it (unless MarkCtx).
Close(kk, x) ==        \* a close that does not collect
  LET k == GcKey(kk) IN
  /\ closes < MaxCloses /\ ~GCRuns(k)
  /\ closes' = closes + 1
  /\ UNCHANGED <<conf, files, modRefs, idx, hasidx, cst, act, need, hit, got, tmpf, fin, rl, ops>>

CloseBegin(kk, x) ==   \* lock check passed: mark phase, ReadDir(blobs/)
  LET k == GcKey(kk) IN
  /\ closes < MaxCloses /\ GCRuns(k) /\ ~gcr.on
  /\ closes' = closes + 1
  /\ gcr' = [on |-> TRUE, k |-> k, todo |-> dirs,
             mark |-> IF MarkCtx /\ x # "bg" THEN {e[2] : e \in idx} ELSE MarkAll(files, idx)]
  /\ modRefs' = IF SweepLocked THEN modRefs ELSE [modRefs EXCEPT ![k] = NoEntry]
  /\ UNCHANGED <<conf, files, idx, hasidx, cst, act, need, hit, got, tmpf, fin, rl, ops>>

NextDir == IF "sha256" \in gcr.todo THEN "sha256" ELSE "sha512"      \* os.ReadDir sorts
SweepDir ==            \* ReadDir(blobs/<alg>) and the removal of everything in it that is not marked
  /\ gcr.on /\ gcr.todo # {}
  /\ files' = {f \in files : Alg(f) # NextDir \/ f \in gcr.mark}
  /\ gcr' = [gcr EXCEPT !.todo = @ \ {NextDir}]
  /\ UNCHANGED <<conf, idx, hasidx, modRefs, cst, act, need, hit, got, tmpf, fin, rl, closes, ops>>

CloseEnd ==
  /\ gcr.on /\ gcr.todo = {}
  /\ gcr' = NoGC
  /\ modRefs' = IF SweepLocked THEN [modRefs EXCEPT ![gcr.k] = NoEntry] ELSE modRefs
  /\ UNCHANGED <<conf, files, idx, hasidx, cst, act, need, hit, got, tmpf, fin, rl, closes, ops>>

\* ---- other calls through the same client (no GC lock) ----
Op == ops < MaxOps /\ ops' = ops + 1
CopyVars == <<cst, act, need, hit, got, tmpf, fin, rl>>
TagDelete(t) ==
  /\ Op /\ t # "" /\ t \in conf.tdels /\ hasidx /\ \E e \in idx : e[1] = t
  /\ idx' = {e \in idx : e[1] # t}
  /\ modRefs' = RefMod(modRefs, KeyW(conf.okey))
  /\ UNCHANGED <<conf, files, hasidx, CopyVars, closes>>

ManifestDelete(n) ==
  /\ Op /\ n \in conf.dels /\ hasidx /\ n \in files
  /\ LET r == IF Cat[n].subj = "" THEN [ok |-> FALSE, files |-> files, idx |-> idx] ELSE RefDel(files, idx, n) IN
     /\ idx' = {e \in r.idx : e[2] # n}
     /\ files' = r.files \ {n}
  /\ modRefs' = RefMod(modRefs, KeyW(conf.okey))
  /\ UNCHANGED <<conf, hasidx, CopyVars, closes>>

\* p = <<from tag, to tag>>: the manifest file is rewritten with the same content, the new tag
\* is set; lock and unlock cancel out
Retag(p) ==
  /\ Op /\ p \in conf.retags /\ hasidx /\ TagAt(idx, p[1]) # "none" /\ TagAt(idx, p[1]) \in files
  /\ TagAt(idx, p[2]) # TagAt(idx, p[1])
  /\ LET r == ManPut(files, idx, TagAt(idx, p[1]), p[2], FALSE) IN
     /\ files' = r.files
     /\ idx' = r.idx
  /\ modRefs' = GCUnlock(RefMod(GCLock(modRefs, GcKey(conf.okey)), KeyW(conf.okey)), GcKey(conf.okey))
  /\ UNCHANGED <<conf, hasidx, CopyVars, closes>>

PushBlob(b) ==
  /\ Op /\ b \in conf.pblobs
  /\ files' = files \cup {b}
  /\ modRefs' = RefMod(modRefs, KeyW(conf.okey))
  /\ UNCHANGED <<conf, idx, hasidx, CopyVars, closes>>

PushBlobBad ==
  /\ Op /\ conf.badput /\ "tmp-bad" \notin files
  /\ files' = files \cup {"tmp-bad"}
  /\ UNCHANGED <<conf, idx, hasidx, modRefs, CopyVars, closes>>

\* p = <<manifest, tag | "" (by digest) | "child">>
PushManifest(p) ==
  /\ Op /\ p \in conf.pmans
  /\ LET r == ManPut(files, idx, p[1], IF p[2] = "child" THEN "" ELSE p[2], p[2] = "child") IN
     /\ files' = r.files
     /\ idx' = r.idx
  /\ hasidx' = TRUE
  /\ modRefs' = RefMod(modRefs, KeyW(conf.okey))
  /\ UNCHANGED <<conf, CopyVars, closes>>

-----------------------------------------------------------------------------
\* steps that wait for nothing outside the process (run as soon as they are enabled)
Internal(c) == \/ \E n \in Mans : CopyCheck(c, n) \/ CopyPutManifest(c, n)
               \/ \E b \in Nodes : CopyBlobCheck(c, b) \/ CopyBlobCommit(c, b) \/ CopyFailDrain(c, b)
               \/ CopyEnd(c) \/ CopyFailEnd(c)
               \/ (cst[c] = "call" /\ CopyBegin(c))        \* GCLock gets the mutex
\* steps that wait for a reply of the source registry
Gated(c) == \/ CopyHeadSame(c) \/ CopyAbort(c)
            \/ \E n \in Mans : CopyFetch(c, n) \/ CopyRefList(c, n)
            \/ \E b \in Nodes : CopyBlobStart(c, b)
\* calls made by other goroutines of the program
Calls == \/ \E c \in Copies : cst[c] = "idle" /\ CopyBegin(c)
         \/ \E k \in conf.ckeys, x \in CtxKinds : Close(k, x)
         \/ \E t \in {e[1] : e \in idx} : TagDelete(t)
         \/ \E n \in Mans : ManifestDelete(n)
         \/ \E p \in conf.retags : Retag(p)
         \/ \E b \in Nodes : PushBlob(b)
         \/ PushBlobBad
         \/ \E p \in conf.pmans : PushManifest(p)

AnyInternal == MutexFree /\ \E c \in Copies : ENABLED Internal(c)
\* everything above takes OCIDir.mu (or follows something that does) and leaves the collection alone
Old == IF Eager /\ AnyInternal THEN \E c \in Copies : Internal(c)
       ELSE Calls \/ \E c \in Copies : Internal(c) \/ Gated(c)
\* the steps of a collecting Close and the calls made while it holds the mutex
Collect == \/ \E k \in conf.ckeys, x \in CtxKinds : CloseBegin(k, x)
           \/ SweepDir \/ CloseEnd
DirsNext == dirs' = dirs \cup {Alg(x) : x \in files'}
Next == /\ ~Done
        /\ \/ MutexFree /\ Old /\ gcr' = gcr
           \/ MutexFree /\ ~(Eager /\ AnyInternal) /\ Collect
           \/ ~MutexFree /\ Collect
           \/ (\E c \in Copies : CopyCall(c)) /\ gcr' = gcr
        /\ DirsNext
Spec == Init /\ [][Next]_vars

-----------------------------------------------------------------------------
(* Properties.                                                              *)
TypeOK ==
  /\ \A x \in files : x \in Nodes \/ IsTmp(x)
  /\ \A e \in idx : e[2] \in Mans
  /\ \A k \in Keys : modRefs[k].locks \in Nat
  /\ idx # {} => hasidx
  /\ gcr.todo \subseteq dirs /\ {Alg(x) : x \in files} \subseteq dirs
LocksNonNeg == \A k \in Keys : modRefs[k].locks >= 0
\* the lock count of a path is the number of copies in progress with that path; in particular an
\* entry is never deleted (by Close, or by anything else) while it carries a positive count
Holders(k) == Cardinality({c \in Copies : InProg(c) /\ GcKey(CP(c).key) = k /\ (~CP(c).rt \/ LockRefTgt)})
              + Cardinality({c \in Copies : InProg(c) /\ CP(c).rt /\ k = "q"})
              + Cardinality({c \in Copies : InProg(c) /\ ~CP(c).rt /\ CP(c).rk # "" /\ LockRefTgt /\ GcKey(CP(c).rk) = k})
LocksExact == \A k \in Keys : IF modRefs[k].ex THEN modRefs[k].locks = Holders(k) ELSE Holders(k) = 0
\* the mark phase finds exactly what the index reaches (lemma behind O1 and O2)
MarkIsReach == MarkAll(files, idx) \cap files = Reach(files, idx) \cap files
\* an index entry made by the fall-back tag always has its file (referrerPut never errors)
FallbackPresent == RefCur(idx) # "none" => RefCur(idx) \in files

CloseStep == closes' = closes + 1                 \* Close is called (and returns at once unless it collects)
GCStep == gcr.on /\ gcr' # gcr                    \* a step of the sweep, or its end
\* O1: a close removes nothing the index reaches
O1 == [][(CloseStep \/ GCStep) => (files \cap Reach(files, idx)) \subseteq files']_vars
\* O2: when a collection runs, unreachable digests and temp files are gone
O2 == [][(gcr.on /\ ~gcr'.on) => files' \subseteq Reach(files', idx')]_vars
\* O3: no collection between GCLock and GCUnlock of any copy into the layout
O3 == [][((CloseStep /\ gcr'.on) \/ GCStep) => \A c \in Copies : ~InProg(c)]_vars
\* with collection disabled a close removes nothing
O4 == [][(CloseStep /\ ~conf.gc) => (files' = files /\ ~gcr'.on)]_vars
\* files vanish only through Close, ManifestDelete or the rename of a temp file
OnlyCloseDeletes == [][(files \ files') # {} => (GCStep \/ ops' = ops + 1 \/ \A x \in files \ files' : IsTmp(x))]_vars
\* a copy that returns nil was never collected under: everything it handled that the index still
\* reaches is present (no deletes in these configurations)
CopyKeeps == \A c \in Copies : (cst[c] = "ok" /\ MaxOps = 0 /\ ~CP(c).rt) =>
               (Closure(Nodes, {CP(c).root}) \cap Reach(files, idx) \cap fin[c]) \subseteq files
=============================================================================

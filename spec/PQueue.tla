------------------------------ MODULE PQueue ------------------------------
(***************************************************************************)
(* (D) design spec of internal/pqueue (pqueue.go): Acquire, TryAcquire,    *)
(* release and AcquireMulti.  One action per mutex critical section of the *)
(* code; the Go scheduler, context cancellation and the choice made by     *)
(* `select` when both channels are ready are nondeterministic.             *)
(*                                                                         *)
(*   AcqEnter      Acquire: lock; fast admission or enqueue                *)
(*   RecvWake      Acquire: select takes <-w                               *)
(*   SelectCancel  Acquire: select takes <-ctx.Done()                      *)
(*   CancelCS      Acquire: cancel critical section (remove | pass on)     *)
(*   PassOn        Acquire: q.release(&e) after a raced hand-over          *)
(*   Release       release() called by a holder                            *)
(*   TryOnly       TryAcquire                                              *)
(*   MTry/MRel/MUnlock  AcquireMulti: try the others, back off in the      *)
(*                 code's order (lockI first when above i, then i-1..0),   *)
(*                 rotate lockI, final cleanup in reverse order            *)
(*   Cancel        environment: the caller's context is cancelled          *)
(*                                                                         *)
(* Release picks ANY queued entry (covers the default oldest-first and any *)
(* Next function, e.g. reqmeta.DataNext, after the code's clamping).       *)
(* Deliberate deviations: the nil-queue and nested-transaction paths       *)
(* (checkContext) are not modelled; entries are identified with callers.   *)
(* The configuration (who wants which queues in which mode, the limits) is *)
(* chosen in Init from the constant set Confs, so one TLC run covers many  *)
(* configurations.                                                         *)
(***************************************************************************)
EXTENDS Naturals, Sequences, FiniteSets, TLC
CONSTANTS Procs, Queues, Confs
VARIABLES conf, active, queued, woken, pc, ctx, lockI, ti, heldI, relList
vars == <<conf, active, queued, woken, pc, ctx, lockI, ti, heldI, relList>>
Max == conf.max
Want == conf.want
Mode == conf.mode
CanCancel == Procs

Cur(p) == IF Mode[p] = "multi" THEN Want[p][lockI[p]] ELSE Want[p][1]
RemoveAt(s, i) == SubSeq(s, 1, i-1) \o SubSeq(s, i+1, Len(s))
IndexOf(s, e) == CHOOSE i \in 1..Len(s) : s[i] = e
InSeq(s, e) == \E i \in 1..Len(s) : s[i] = e
Rev(n) == [k \in 1..n |-> n + 1 - k]

Init == /\ conf \in Confs
        /\ active = [q \in Queues |-> {}]
        /\ queued = [q \in Queues |-> <<>>]
        /\ woken = {}
        /\ pc = [p \in Procs |-> "start"]
        /\ ctx = [p \in Procs |-> FALSE]
        /\ lockI = [p \in Procs |-> 1]
        /\ ti = [p \in Procs |-> 1]
        /\ heldI = [p \in Procs |-> {}]
        /\ relList = [p \in Procs |-> <<>>]

\* which queued entry a release may promote: any (covers every Next function); generator
\* configs override it with PickOldest to follow the default oldest-first policy
Pick(q) == 1..Len(queued[q])
PickOldest(q) == {1}
\* result of the release critical section on queue q by p
RelActive(p, q) == active[q] \ {p}
ReleaseCS(p, q) ==
  LET a == RelActive(p, q) IN
  IF queued[q] = <<>> \/ Cardinality(a) >= Max[q]
  THEN /\ active' = [active EXCEPT ![q] = a]
       /\ UNCHANGED <<queued, woken>>
  ELSE \E i \in Pick(q) :
         /\ active' = [active EXCEPT ![q] = a \cup {queued[q][i]}]
         /\ queued' = [queued EXCEPT ![q] = RemoveAt(queued[q], i)]
         /\ woken' = woken \cup {<<queued[q][i], q>>}

Got(p) == \* p obtained Cur(p)
  IF Mode[p] = "multi"
  THEN /\ pc' = [pc EXCEPT ![p] = "m_try"]
       /\ heldI' = [heldI EXCEPT ![p] = @ \cup {lockI[p]}]
       /\ ti' = [ti EXCEPT ![p] = 1]
  ELSE /\ pc' = [pc EXCEPT ![p] = "holding"]
       /\ UNCHANGED <<heldI, ti>>

AcqEnter(p) ==
  /\ pc[p] = "start" /\ Mode[p] \in {"acq", "multi"}
  /\ LET q == Cur(p) IN
     IF Cardinality(active[q]) + Len(queued[q]) < Max[q]
     THEN /\ active' = [active EXCEPT ![q] = @ \cup {p}]
          /\ Got(p)
          /\ UNCHANGED <<queued, woken, ctx, lockI, relList>>
     ELSE /\ queued' = [queued EXCEPT ![q] = Append(@, p)]
          /\ pc' = [pc EXCEPT ![p] = "waiting"]
          /\ UNCHANGED <<active, woken, ctx, lockI, ti, heldI, relList>>

RecvWake(p) ==
  /\ pc[p] = "waiting" /\ <<p, Cur(p)>> \in woken
  /\ woken' = woken \ {<<p, Cur(p)>>}
  /\ Got(p)
  /\ UNCHANGED <<active, queued, ctx, lockI, relList>>

SelectCancel(p) ==
  /\ pc[p] = "waiting" /\ ctx[p]
  /\ pc' = [pc EXCEPT ![p] = "cancelling"]
  /\ UNCHANGED <<active, queued, woken, ctx, lockI, ti, heldI, relList>>

CancelCS(p) ==
  /\ pc[p] = "cancelling"
  /\ LET q == Cur(p) IN
     IF InSeq(queued[q], p)
     THEN /\ queued' = [queued EXCEPT ![q] = RemoveAt(@, IndexOf(@, p))]
          /\ pc' = [pc EXCEPT ![p] = "failed"]
          /\ UNCHANGED <<active, woken>>
     ELSE /\ pc' = [pc EXCEPT ![p] = "passon"]
          /\ woken' = woken \ {<<p, q>>}
          /\ UNCHANGED <<active, queued>>
  /\ UNCHANGED <<ctx, lockI, ti, heldI, relList>>

PassOn(p) ==
  /\ pc[p] = "passon"
  /\ ReleaseCS(p, Cur(p))
  /\ pc' = [pc EXCEPT ![p] = "failed"]
  /\ UNCHANGED <<ctx, lockI, ti, heldI, relList>>

Release(p) ==
  /\ pc[p] = "holding"
  /\ ReleaseCS(p, Cur(p))
  /\ pc' = [pc EXCEPT ![p] = "done"]
  /\ UNCHANGED <<ctx, lockI, ti, heldI, relList>>

TryOnly(p) ==
  /\ pc[p] = "start" /\ Mode[p] = "try"
  /\ LET q == Cur(p) IN
     IF Cardinality(active[q]) + Len(queued[q]) < Max[q]
     THEN /\ active' = [active EXCEPT ![q] = @ \cup {p}]
          /\ pc' = [pc EXCEPT ![p] = "holding"]
     ELSE /\ pc' = [pc EXCEPT ![p] = "done"]
          /\ UNCHANGED active
  /\ UNCHANGED <<queued, woken, ctx, lockI, ti, heldI, relList>>

MTry(p) ==
  /\ pc[p] = "m_try"
  /\ LET n == Len(Want[p]) i == ti[p] IN
     IF i > n
     THEN /\ pc' = [pc EXCEPT ![p] = "m_hold"]
          /\ UNCHANGED <<active, ti, heldI, relList, lockI>>
     ELSE IF i = lockI[p]
     THEN /\ ti' = [ti EXCEPT ![p] = i + 1]
          /\ UNCHANGED <<active, pc, heldI, relList, lockI>>
     ELSE LET q == Want[p][i] IN
          IF Cardinality(active[q]) + Len(queued[q]) < Max[q]
          THEN /\ active' = [active EXCEPT ![q] = @ \cup {p}]
               /\ heldI' = [heldI EXCEPT ![p] = @ \cup {i}]
               /\ ti' = [ti EXCEPT ![p] = i + 1]
               /\ UNCHANGED <<pc, relList, lockI>>
          ELSE /\ relList' = [relList EXCEPT ![p] =
                     (IF lockI[p] > i THEN <<lockI[p]>> ELSE <<>>) \o Rev(i - 1)]
               /\ lockI' = [lockI EXCEPT ![p] = i]
               /\ pc' = [pc EXCEPT ![p] = "m_rel"]
               /\ UNCHANGED <<active, heldI, ti>>
  /\ UNCHANGED <<queued, woken, ctx>>

MRel(p) ==
  /\ pc[p] \in {"m_rel", "m_unrel"}
  /\ relList[p] # <<>>
  /\ LET idx == Head(relList[p]) IN
     /\ ReleaseCS(p, Want[p][idx])
     /\ heldI' = [heldI EXCEPT ![p] = @ \ {idx}]
  /\ relList' = [relList EXCEPT ![p] = Tail(@)]
  /\ pc' = [pc EXCEPT ![p] = IF Len(relList[p]) = 1
                              THEN (IF pc[p] = "m_rel" THEN "start" ELSE "done")
                              ELSE pc[p]]
  /\ UNCHANGED <<ctx, lockI, ti>>

MUnlock(p) ==
  /\ pc[p] = "m_hold"
  /\ relList' = [relList EXCEPT ![p] = Rev(Len(Want[p]))]
  /\ pc' = [pc EXCEPT ![p] = "m_unrel"]
  /\ UNCHANGED <<active, queued, woken, ctx, lockI, ti, heldI>>

CancelAt(p) == pc[p] \notin {"done", "failed"}
CancelWhileWaiting(p) == pc[p] = "waiting"
Cancel(p) ==
  /\ p \in CanCancel /\ ~ctx[p] /\ CancelAt(p)
  /\ ctx' = [ctx EXCEPT ![p] = TRUE]
  /\ UNCHANGED <<active, queued, woken, pc, lockI, ti, heldI, relList>>

Finished == \A p \in Procs : pc[p] \in {"done", "failed"}
Idle == Finished /\ UNCHANGED vars

Step(p) == AcqEnter(p) \/ RecvWake(p) \/ SelectCancel(p) \/ CancelCS(p) \/ PassOn(p)
           \/ Release(p) \/ TryOnly(p) \/ MTry(p) \/ MRel(p) \/ MUnlock(p)
Next == ((\E p \in Procs : Step(p) \/ Cancel(p)) /\ UNCHANGED conf) \/ Idle
Spec == Init /\ [][Next]_vars /\ \A p \in Procs : WF_vars(Step(p) /\ UNCHANGED conf)

\* ---- properties
Bound == \A q \in Queues : Cardinality(active[q]) <= Max[q]
HoldsQ(p, q) ==
  \/ pc[p] \in {"holding", "passon"} /\ Cur(p) = q
  \/ \E i \in heldI[p] : Want[p][i] = q
NoOrphan == \A q \in Queues : \A p \in active[q] : HoldsQ(p, q) \/ <<p, q>> \in woken
QueuedWait == \A q \in Queues : \A i \in 1..Len(queued[q]) :
                pc[queued[q][i]] \in {"waiting", "cancelling"} /\ Cur(queued[q][i]) = q
FailedClean == \A p \in Procs : pc[p] \in {"failed", "done"} =>
                 \A q \in Queues : p \notin active[q] /\ ~InSeq(queued[q], p)
QuiescentNoWaiters == (\A q \in Queues : active[q] = {}) => (\A q \in Queues : queued[q] = <<>>)
NoIdleSlotWhileWaiting == \A q \in Queues : queued[q] # <<>> => Cardinality(active[q]) = Max[q]
Termination == <>[]Finished
=============================================================================

CONSTANTS
 Confs <- MCConfs
 FixWaitErr = TRUE
 Reduce = TRUE
 MCShapes = {"idx2", "dtag"}
 MCPairs = {"tworeg"}
 MCOpts <- MCOptsRepeat
 MCFeats <- MCFeatsDefault
 MCInit = "corners"
 MCTag0 = {"none", "same"}
 MCByDigest = {FALSE}
 MCTgtByDigest = {FALSE}
 MaxFaults = 0
 AllowCancel = FALSE
 AllowCrash = FALSE
 Cap = 0
INIT Init
NEXT Next
INVARIANTS TypeOK InvC04 InvFb InvFbListed InvC03 InvC14 InvC14T InvFailTag

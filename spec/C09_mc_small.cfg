SPECIFICATION Spec
CONSTANTS
 DrainBug = FALSE
 LinkCode = FALSE
 DupPathBug = FALSE
 Ids <- SmallIds
INVARIANTS PropHolds PropExact Ordered PassBound
CHECK_DEADLOCK TRUE

CONSTANTS
 Tags = {"t1", "t2", "t3"}
 Mans = {"m1", "m2", "m3"}
SPECIFICATION SSpec
CONSTRAINT HW
POSTCONDITION Accepted
CHECK_DEADLOCK FALSE

SPECIFICATION MSpec
CONSTANTS
 DescPlatStrict = FALSE
 PlatLookupStrict = TRUE
 ReadFaults = TRUE
 EqualAnnStrict = FALSE
 PutFirst = FALSE
 DedupByDigest = FALSE
 DeleteKeepsOne = FALSE
 Faults = TRUE
 Alphabet <- AlphaSmall
 MaxCmds = 2
INVARIANTS Holds TypeOk
CHECK_DEADLOCK FALSE

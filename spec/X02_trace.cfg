SPECIFICATION TSpec
INVARIANT Ok
CHECK_DEADLOCK FALSE

INIT GInit
NEXT GNext
CONSTANTS
 DrainBug = TRUE
 LinkCode = TRUE
 DupPathBug = TRUE
 Ids <- ThoroughIds
INVARIANTS EmitCat Emit
CHECK_DEADLOCK FALSE

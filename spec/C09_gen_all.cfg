INIT GInit
NEXT GNext
CONSTANTS
 DrainBug = FALSE
 LinkCode = FALSE
 DupPathBug = FALSE
 Ids <- ThoroughIds
INVARIANTS EmitCat Emit
CHECK_DEADLOCK FALSE

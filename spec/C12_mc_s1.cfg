CONSTANTS
 Hosts = {"m1", "up"}
 Up = "up"
 Ids = {"A"}
 N = 2
 RA = 50
 Kinds = {"ok", "ok206", "short0", "short1", "short206", "okclbad", "ok200", "reset", "s429", "s429ra", "s408", "s500", "s502", "s504", "s403", "s503", "s404", "s416", "s401n", "s401s", "s401b"}
 MaxFaults = 2
 MaxSeeks = 0
 Conc = 8
 LinkEntries = FALSE
 Directs = {"none"}
 StoreAnchor = TRUE
 RelNR = TRUE
 FixLeak = TRUE
 PrioAsc = TRUE
 Rs = {2}
 Prios = {0, 1}
 Meths = {"GET"}
 Waive <- WaiveNone
 Confs <- AllConfs
INIT MCInit
NEXT MCNext
INVARIANTS Ok
CHECK_DEADLOCK FALSE

CONSTANTS
 ProcSeq <- P3
 Confs <- SensibleConfs
 Modes = {"tag"}
 Caches = {0, 1}
 Pages = {0}
 TagDels = {0, 1}
 SubjSel = {"ror"}
 Spells = {"dig"}
 Dopts = {"check"}
 Inits <- InitsMC0
 NAs <- NAsNone
 MaxOps = 3
 MaxConc = 3
 SameSubject = TRUE
 MixSameArt = FALSE
 LockPut = TRUE
 LockDel = TRUE
 LockDelEarly = TRUE
 ObsFilters = {"none", "t1", "x"}
 ListConc = FALSE
 CowIndex = TRUE
 InvAfterDel = TRUE
 NormKey = TRUE
 TrustApplied = FALSE
 PlainIds = {}
 FeatFromPut = FALSE
 LockStyle = "global"
INIT MInit
NEXT MNext
VIEW MView
INVARIANTS Ok TagExact CacheRLExact CacheCoherent LockSane NoApiTag TagMutex
CHECK_DEADLOCK FALSE

CONSTANTS
 Scenarios <- MutSet
 MaxCrash = 1
 Variant = "nochmod"
INIT Init
NEXT Next
INVARIANTS StateOk EndOk RaceEndOk FreshOk RetryOk TypeOk
CHECK_DEADLOCK FALSE

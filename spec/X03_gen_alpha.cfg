INIT GInit
NEXT GNext
CONSTANTS
 DescPlatStrict = FALSE
 PlatLookupStrict = FALSE
 ReadFaults = FALSE
 EqualAnnStrict = FALSE
 PutFirst = FALSE
 DedupByDigest = FALSE
 DeleteKeepsOne = FALSE
 Faults = FALSE
 GenMode = "alpha"
INVARIANTS Emit
CHECK_DEADLOCK FALSE

\* one pass over a log without stopping: REJECT lines name every scenario whose latch was set (see PathSafeTrace)
CONSTANTS TitleClean = "rooted" ExtractGuard = "reroot" Whiteout = "none" LinkPolicy = "skip" DeleteValidates = TRUE MaxFull = 1 MaxCore = 1
SPECIFICATION TSpec
CONSTRAINT HW
POSTCONDITION Accepted
CHECK_DEADLOCK FALSE

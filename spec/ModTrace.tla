------------------------------- MODULE ModTrace -------------------------------
(* Trace spec for C13: replays the ndjson log recorded by harness/cmd/c13drv    *)
(* around the real mod.Apply (env VERIF_TRACE) through the monitor ModProp.     *)
(* The invariant Ok (C13_trace.cfg) rejects a bad event; a batch of traces is    *)
(* validated in one run with -continue (see below).                              *)
EXTENDS ModProp, Json, IOUtils, Integers
Log == ndJsonDeserialize(IOEnv.VERIF_TRACE)
\* every trace of the batch (it starts with a reset line) is a behaviour of its own: with TLC's -continue one run
\* rejects every bad event of every trace, each with a short counterexample
Starts == {i \in 1..Len(Log) : Log[i].ev = "reset"}
VARIABLES l, t0
Ev == Log[l]
TInit == PInit /\ t0 \in Starts /\ l = t0
TNext ==
  /\ l <= Len(Log)
  /\ l' = l + 1 /\ t0' = t0
  /\ \/ Ev.ev = "reset" /\ l = t0 /\ PReset
     \/ Ev.ev = "src_before" /\ PSrcBefore(Ev.tag, Ev.closure)
     \/ Ev.ev = "apply" /\ PApply(Ev.ok, Ev.same, Ev.replace, Ev.noop, Ev.hist)
     \/ Ev.ev = "root" /\ PRoot(Ev.dig, Ev.present, Ev.tagged)
     \/ Ev.ev = "desc" /\ PDesc(Ev.ext, Ev.present, Ev.sha, Ev.size, Ev.data, Ev.mt)
     \/ Ev.ev = "image" /\ PImage(Ev.nl, Ev.nd, Ev.diff, Ev.lids, Ev.hids, Ev.nohist)
     \/ Ev.ev = "unparsable" /\ PUnparsable
     \/ Ev.ev = "panic" /\ PPanic
     \/ Ev.ev = "written" /\ PWritten(Ev.orphans)
     \/ Ev.ev = "src_after" /\ PSrcAfter(Ev.tag, Ev.closure, Ev.refs_lost)
     \/ Ev.ev = "twice" /\ PTwice(Ev.ok1, Ev.ok2, Ev.d1, Ev.d2)
     \/ Ev.ev = "skip" /\ PSkip
TSpec == TInit /\ [][TNext]_<<pvars, l, t0>>
HW == TLCSet(1, IF TLCGet(1) > l THEN TLCGet(1) ELSE l)
Accepted == PrintT(<<"HIGHWATER", TLCGet(1), Len(Log)>>)
ASSUME TLCSet(1, 0)
=============================================================================

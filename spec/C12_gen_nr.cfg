CONSTANTS
 Hosts = {"up"}
 Up = "up"
 Ids = {"A", "B", "C"}
 N = 2
 RA = 50
 Kinds = {"ok", "s500", "reset"}
 MaxFaults = 3
 MaxSeeks = 0
 Conc = 2
 LinkEntries = FALSE
 Directs = {"none"}
 StoreAnchor = TRUE
 RelNR = TRUE
 FixLeak = TRUE
 PrioAsc = TRUE
 Rs = {3}
 Prios = {0}
 Meths = {"GET", "PUT"}
 Waive <- WaiveNone
 Confs <- NRConfs
INIT GInit
NEXT GNext
INVARIANTS Emit
CHECK_DEADLOCK FALSE

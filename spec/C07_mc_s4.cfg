CONSTANTS
 Scenarios <- Populated
 MaxCrash = 1
 MarkerMode = "rewrite"
 MarkerWindow = TRUE
INIT Init
NEXT Next
INVARIANTS TypeOK NoStuck CrashStateOK ReturnOK RetryOK
CHECK_DEADLOCK FALSE

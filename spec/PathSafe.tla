------------------------------ MODULE PathSafe ------------------------------
(***************************************************************************)
(* C20 - remote or archive content never causes writes outside the chosen  *)
(* directory.  Segment-level path model (constants and operators only; the *)
(* state machine over it is PathSafeMC, the monitor PathSafeProp).         *)
(*                                                                         *)
(* A path is a sequence of segments.  A hostile name is a sequence of      *)
(* segment CLASSES plus a leading-"/" and a trailing-"/" flag; the driver  *)
(* (harness/cmd/c20drv) turns a class into a lexeme:                       *)
(*   name "nm" | dotdot ".." | dot "." | empty "" (double slash) |         *)
(*   long 300 x "L" (> NAME_MAX) | nul "nu<NUL>l" | xfile "xf" (a file     *)
(*   that exists in the output directory) | xdir "xd" (an existing         *)
(*   directory) | bslash "bs\..\..\w" | victim "victim" (the name of the   *)
(*   file placed NEXT TO the output directory) | a, b, pwn "pwned.txt"     *)
(*   (link vocabulary) | G (the absolute path of the guard directory) |    *)
(*   sibling names that have the designated directory's base name "out"    *)
(*   as a string prefix: sib2 "out2", sibbak "out.bak", sibdir "out-evil", *)
(*   sibtxt "output.txt" (they defeat a containment test written as a      *)
(*   string prefix without a separator; reached through one "..", also     *)
(*   behind "name/..": SiblingSegs) | names that are hostile only AFTER a  *)
(*   transformation an implementation may apply (TransformSegs): whdd      *)
(*   ".wh..." (whiteout prefix + ".."), whdot ".wh..", wh ".wh.", whopq    *)
(*   ".wh..wh..opq", whxf ".wh.xf", ddsp ".. " (trailing space), dots3     *)
(*   "...", tdot "nm." (trailing dot); bslash above is of the same kind.   *)
(*                                                                         *)
(* Mirrors (operator <- code):                                             *)
(*   Res / CleanRooted / CleanRel / Join  <- path.Clean, filepath.Join     *)
(*   ArtPlan        <- cmd/regctl/artifact.go:runArtifactGet (the loop     *)
(*                     body for one layer with --output)                   *)
(*   ExtractTarget  <- pkg/archive/tar.go:Extract (name cleaning)          *)
(*   Phys           <- the kernel's path walk (symbolic links followed     *)
(*                     component by component; ".." taken physically)      *)
(*   Validate / BlobFile / LayoutTouches <- scheme/ocidir: blob.go,        *)
(*                     manifest.go, tag.go, referrer.go, close.go          *)
(*   ImportTouches  <- image.go:ImageImport (entries are read into blobs   *)
(*                     named by computed digests; names are only keys)     *)
(* Deliberate deviations: strings are abstracted to classes (the concrete  *)
(* cleaning is done by the real code; the model predicts its result at     *)
(* segment level); errno behaviour (ENAMETOOLONG, EINVAL for NUL, ENOTDIR) *)
(* is not modelled - a refused call creates nothing, which only shrinks    *)
(* the set of touched paths; permissions, hard-link semantics beyond "the  *)
(* link is another name of its target" and non-Linux separators are out.   *)
(***************************************************************************)
EXTENDS Sequences, Integers, FiniteSets, TLC

CONSTANTS TitleClean,       \* "rooted" = path.Clean("/"+title) (the code) | "stripdots" = Clean, then strip leading "../"
          LinkPolicy,       \* "skip" = link entries are not materialised (the code) | "lexical" = created when the
                            \* target stays lexically inside | "raw" = created unconditionally
          ExtractGuard,     \* "reroot" = filepath.Join(path, Clean("/"+name)) (the code) | "strprefix" = Join(path, name) and
                            \* refuse unless strings.HasPrefix(result, path) - no separator (seeded C20-4)
          Whiteout,         \* "none" = whiteout markers are ordinary names (the code) | "strip" = an entry whose cleaned base name
                            \* starts with ".wh." removes Join(Dir(fn), name without the prefix) (seeded C20-6)
          DeleteValidates,  \* TRUE = ocidir.ManifestDelete validates the reference digest first (the code since fix
                            \* 3b8373e; default of every configuration) | FALSE = the variant found originally (S15):
                            \* no Validate when the caller supplies the manifest (kept as a switch: C20_mc_s15.cfg,
                            \* C20_gen_lay_asis.cfg explain what the reverse of the fix does)
          MaxFull, MaxCore  \* hostile names: all class sequences up to MaxFull, core classes up to MaxCore

Special == {"dotdot", "dot", "empty"}
SibClasses == {"sib2", "sibbak", "sibdir", "sibtxt"}          \* names with the base name of Out as a proper string prefix
Ordinary == {"name", "long", "nul", "xfile", "xdir", "bslash", "victim"}   \* (the alphabet of the general name space)
SegClasses == Ordinary \cup Special
CoreClasses == {"name", "dotdot", "dot", "empty", "victim"}

\* ------------------------------------------------------------------ path algebra
Last(s) == s[Len(s)]
Front(s) == SubSeq(s, 1, Len(s) - 1)
IsPrefix(b, p) == Len(p) >= Len(b) /\ SubSeq(p, 1, Len(b)) = b
Inside(base, p) == IsPrefix(base, p)                       \* the containment predicate of C20
Prefixes(p) == {SubSeq(p, 1, i) : i \in 0..Len(p)}

\* path.Clean at segment level: stack of segments built left to right.  rooted: ".." at the root is dropped;
\* unrooted: leading ".." are kept.
RECURSIVE Res(_, _, _)
Res(stack, segs, rooted) ==
  IF segs = <<>> THEN stack
  ELSE LET s == Head(segs)
           r == Tail(segs) IN
       IF s \in {"dot", "empty"} THEN Res(stack, r, rooted)
       ELSE IF s = "dotdot"
            THEN IF stack # <<>> /\ Last(stack) # "dotdot" THEN Res(Front(stack), r, rooted)
                 ELSE IF rooted THEN Res(stack, r, rooted)
                 ELSE Res(Append(stack, "dotdot"), r, rooted)
            ELSE Res(Append(stack, s), r, rooted)
CleanRooted(segs) == Res(<<>>, segs, TRUE)                 \* path.Clean("/" + f), without the leading "/"
CleanRel(segs, lead) == Res(<<>>, segs, lead = 1)          \* path.Clean(f)
Join(base, rel) == Res(base, rel, TRUE)                    \* filepath.Join(base, rel), base absolute and clean
Resolve(base, segs) == Join(base, segs)                    \* lexical resolution (name used in DESIGN.md)

\* ------------------------------------------------------------------ the world of one scenario
Guard == <<"G">>                                           \* guard directory (harness scratch of the scenario)
Out == <<"G", "out">>                                      \* the directory the user designated
Victim == <<"G", "victim">>                                \* a file next to it that must stay untouched
Src == <<"G", "src">>                                      \* source layout (declared harness scratch)

\* model file system: set of nodes [p, k, t, abs]; k in dir | file | sym
Node(p, k) == [p |-> p, k |-> k, t |-> <<>>, abs |-> 0]
Sym(p, t, abs) == [p |-> p, k |-> "sym", t |-> t, abs |-> abs]
FS0 == {Node(<<>>, "dir"), Node(Guard, "dir"), Node(Out, "dir"), Node(Out \o <<"xfile">>, "file"),
        Node(Out \o <<"xdir">>, "dir"), Node(Victim, "file")}
Has(fs, p) == \E n \in fs : n.p = p
Get(fs, p) == CHOOSE n \in fs : n.p = p
IsSym(fs, p) == Has(fs, p) /\ Get(fs, p).k = "sym"
IsDir(fs, p) == Has(fs, p) /\ Get(fs, p).k = "dir"
Put(fs, n) == {m \in fs : m.p # n.p} \cup {n}

\* the kernel's walk from directory cur along segs, following links at every component (bounded by fuel)
RECURSIVE Phys(_, _, _, _)
Phys(fs, cur, segs, fuel) ==
  IF segs = <<>> \/ fuel = 0 THEN cur
  ELSE LET s == Head(segs)
           r == Tail(segs) IN
       IF s \in {"dot", "empty"} THEN Phys(fs, cur, r, fuel)
       ELSE IF s = "dotdot" THEN Phys(fs, IF cur = <<>> THEN cur ELSE Front(cur), r, fuel)
       ELSE LET nxt == Append(cur, s) IN
            IF IsSym(fs, nxt)
            THEN LET n == Get(fs, nxt) IN Phys(fs, IF n.abs = 1 THEN <<>> ELSE cur, n.t \o r, fuel - 1)
            ELSE Phys(fs, nxt, r, fuel)
Fuel == 8
PhysFollow(fs, p) == Phys(fs, <<>>, p, Fuel)               \* open(O_CREAT), mkdir -p of the last component's parents
PhysNoFollow(fs, p) == IF p = <<>> THEN p ELSE Append(Phys(fs, <<>>, Front(p), Fuel), Last(p))   \* symlink, link, unlink

\* ------------------------------------------------------------------ hostile names
SeqsOver(alpha, lo, hi) == UNION {[1..k -> alpha] : k \in lo..hi}
\* siblings of the designated directory: one ".." (plain, behind "./", behind "name/..", behind "xd/..") then the
\* sibling, optionally a file below it
SibPrefixes == {<<"dotdot">>, <<"dot", "dotdot">>, <<"name", "dotdot", "dotdot">>, <<"xdir", "dotdot", "dotdot">>}
SiblingSegs == {pre \o <<c>> \o post : pre \in SibPrefixes, c \in SibClasses, post \in {<<>>, <<"name">>}}
IsSibling(segs) == \E i \in 1..Len(segs) : segs[i] \in SibClasses
\* names that become hostile only through a transformation (prefix stripping, trimming, separator conversion)
TransformClasses == {"whdd", "whdot", "wh", "whopq", "whxf", "ddsp", "dots3", "tdot"}
TPrefixes == {<<>>, <<"dot">>, <<"name", "dotdot">>, <<"xdir">>, <<"dotdot", "dotdot">>}
TransformSegs == {pre \o <<c>> : pre \in TPrefixes, c \in TransformClasses} \cup {<<c, "name">> : c \in TransformClasses}
IsTransform(segs) == \E i \in 1..Len(segs) : segs[i] \in TransformClasses
Special2(segs) == IsSibling(segs) \/ IsTransform(segs)
NameSegs == SeqsOver(SegClasses, 0, MaxFull) \cup SeqsOver(CoreClasses, MaxFull + 1, MaxCore) \cup SiblingSegs \cup TransformSegs
HostileNames == [segs : NameSegs, lead : {0, 1}, trail : {0, 1}]
\* the assembled string is  (lead ? "/" : "") ++ join(segs, "/") ++ (trail ? "/" : "")
StrEmpty(x) == x.lead = 0 /\ x.trail = 0 /\ (x.segs = <<>> \/ x.segs = <<"empty">>)
EndsSlash(x) == \/ x.trail = 1
                \/ x.segs = <<>> /\ x.lead = 1
                \/ x.segs # <<>> /\ Last(x.segs) = "empty" /\ (Len(x.segs) > 1 \/ x.lead = 1)

\* ------------------------------------------------------------------ regctl artifact get --output (one layer)
\* f after the cleaning step, as segments below the output directory
LeadDD(c) == CHOOSE k \in 0..Len(c) : (\A i \in 1..k : c[i] = "dotdot") /\ (k = Len(c) \/ c[k+1] # "dotdot")
ArtClean(x) ==
  IF StrEmpty(x) THEN <<"digest">>                         \* empty title: the encoded digest is the file name
  ELSE IF TitleClean = "rooted" THEN CleanRooted(x.segs)
  ELSE LET c == CleanRel(x.segs, x.lead)                   \* "stripdots": path.Clean, then drop "../" while it is a prefix
           k == IF LeadDD(c) = Len(c) /\ Len(c) > 0 THEN Len(c) - 1 ELSE LeadDD(c)   \* a bare ".." has no "/" behind it
       IN SubSeq(c, k + 1, Len(c))
\* plan of the loop body: mkdirs (MkdirAll of the directory part), then either create a file or extract into a directory
ArtPlan(x, annot, strip) ==
  LET f == ArtClean(x)
      unpack == EndsSlash(x) \/ annot = 1
      \* "f = f + "/"" for unpack; strip keeps the text after the last "/" before the end
      extract == unpack \/ f = <<>>                         \* cleaned to "/" alone: the suffix test sees a directory
      kept == IF strip = 1 THEN (IF extract THEN <<>> ELSE <<Last(f)>>) ELSE f
      dirpart == IF extract THEN kept ELSE Front(kept)
  IN [mode |-> IF extract THEN "extract" ELSE "file",
      mkdir |-> Join(Out, dirpart),
      target |-> Join(Out, kept)]

\* ------------------------------------------------------------------ archive.Extract
ExtractTarget(base, n) == Join(base, CleanRooted(n.segs))  \* filepath.Join(path, filepath.Clean("/"+hdr.Name))
\* strings.HasPrefix(a, b) on single names, as far as the classes know: equal, or a sibling class against "out"
NameHasPrefix(a, b) == a = b \/ (b = "out" /\ a \in SibClasses)
StrPrefixInside(base, p) == /\ base # <<>> /\ Len(p) >= Len(base) /\ SubSeq(p, 1, Len(base) - 1) = Front(base)
                            /\ NameHasPrefix(p[Len(base)], Last(base))
\* the target of an entry and whether the entry is accepted (a refused entry makes Extract return: halt)
EntryTarget(base, segs) ==
  IF ExtractGuard = "reroot" THEN [ok |-> TRUE, fn |-> ExtractTarget(base, [segs |-> segs])]
  ELSE LET fn == Join(base, segs) IN [ok |-> StrPrefixInside(base, fn), fn |-> fn]
\* would a lexical guard accept the link?  (target resolved relative to the link's directory stays under base)
LinkDest(base, fn, e) == IF e.tl = 1 THEN e.t
                         ELSE IF e.k = "sym" THEN Res(Front(fn), e.t, FALSE)     \* relative to the link's directory
                         ELSE Res(base, e.t, FALSE)                               \* hard link: relative to the archive root
LexLinkOk(base, fn, e) == e.tl = 0 /\ Inside(base, LinkDest(base, fn, e))
Materialise(base, fn, e) ==
  CASE LinkPolicy = "skip" -> FALSE
    [] LinkPolicy = "raw" -> TRUE
    [] LinkPolicy = "lexical" -> LexLinkOk(base, fn, e)

\* one entry applied to the model file system: result [fs, touched, halt] (touched = physical paths created / written)
DirsOk(fs, p) == \A q \in Prefixes(p) : Has(fs, q) => IsDir(fs, q)
ApplyAccepted(fs, base, e, fn) ==
     CASE e.k = "dir" ->                                   \* os.MkdirAll(fn)
            LET p == PhysFollow(fs, fn)
                new == {q \in Prefixes(p) : ~Has(fs, q)} IN
            IF DirsOk(fs, p) THEN [fs |-> fs \cup {Node(q, "dir") : q \in new}, touched |-> new]
            ELSE [fs |-> fs, touched |-> {}]
       [] e.k = "reg" ->                                   \* os.Create(fn): parent must exist, links are followed
            LET p == PhysFollow(fs, fn) IN
            IF p # <<>> /\ IsDir(fs, Front(p)) /\ ~IsDir(fs, p)
            THEN IF Has(fs, p) /\ Get(fs, p).k = "hard"
                 THEN [fs |-> fs, touched |-> {p, Get(fs, p).t}]        \* same inode as the link target
                 ELSE [fs |-> Put(fs, Node(p, "file")), touched |-> {p}]
            ELSE [fs |-> fs, touched |-> {}]
       [] e.k = "sym" ->                                   \* (not in the code) os.Symlink(hdr.Linkname, fn)
            LET p == PhysNoFollow(fs, fn) IN
            IF Materialise(base, fn, e) /\ p # <<>> /\ IsDir(fs, Front(p)) /\ ~Has(fs, p)
            THEN [fs |-> Put(fs, Sym(p, e.t, e.tl)), touched |-> {p}]
            ELSE [fs |-> fs, touched |-> {}]
       [] e.k = "hard" ->                                  \* (not in the code) os.Link(join(path, hdr.Linkname), fn)
            LET p == PhysNoFollow(fs, fn)
                tp == PhysFollow(fs, LinkDest(base, fn, e)) IN
            IF Materialise(base, fn, e) /\ p # <<>> /\ IsDir(fs, Front(p)) /\ ~Has(fs, p) /\ Has(fs, tp) /\ Get(fs, tp).k = "file"
            THEN [fs |-> Put(fs, [p |-> p, k |-> "hard", t |-> tp, abs |-> 0]), touched |-> {p, tp}]   \* the target's inode gets a new name
            ELSE [fs |-> fs, touched |-> {}]
       [] OTHER -> [fs |-> fs, touched |-> {}]             \* fifo, device, ...: header types the loop ignores
\* whiteout markers (not in the code): what is left of the base name after ".wh." is joined to the marker's folder, unchecked
WhMarker(c) == c \in {"whdd", "whdot", "wh", "whopq", "whxf"}
WhStrip(c) == CASE c = "whdd" -> <<"dotdot">> [] c = "whdot" -> <<"dot">> [] c = "wh" -> <<>> [] c = "whxf" -> <<"xfile">> [] OTHER -> <<c>>
ApplyEntry(fs, base, e) ==
  LET t == EntryTarget(base, e.n) IN
  IF t.ok /\ Whiteout = "strip" /\ t.fn # <<>> /\ WhMarker(Last(t.fn))
  THEN IF Last(t.fn) = "whopq" THEN [fs |-> fs, touched |-> {}, halt |-> FALSE]
       ELSE LET tgt == Join(Front(t.fn), WhStrip(Last(t.fn))) IN          \* os.RemoveAll(tgt)
            [fs |-> {n \in fs : ~IsPrefix(tgt, n.p)}, touched |-> {tgt}, halt |-> FALSE]
  ELSE IF t.ok THEN ApplyAccepted(fs, base, e, t.fn) @@ [halt |-> FALSE]
  ELSE [fs |-> fs, touched |-> {}, halt |-> TRUE]          \* "tar entry is outside of the extract path": Extract returns

\* ------------------------------------------------------------------ OCI layout (scheme/ocidir)
\* digest classes: [c, alg, enc, colon, valid]   alg / enc as segment sequences of the text before / after ":"
DigestClasses == {
  [c |-> "valid",    alg |-> <<"sha256">>, enc |-> <<"hex">>, colon |-> 1, valid |-> 1],
  [c |-> "absent",   alg |-> <<"sha256">>, enc |-> <<"nohex">>, colon |-> 1, valid |-> 1],  \* well formed, no such blob
  [c |-> "dd_enc",   alg |-> <<"sha256">>, enc |-> <<"dotdot", "dotdot", "dotdot", "victim">>, colon |-> 1, valid |-> 0],
  [c |-> "dd_enc5",  alg |-> <<"sha256">>, enc |-> <<"dotdot", "dotdot", "dotdot", "dotdot", "dotdot", "name">>, colon |-> 1, valid |-> 0],
  [c |-> "dd_alg",   alg |-> <<"dotdot", "dotdot">>, enc |-> <<"victim">>, colon |-> 1, valid |-> 0],
  [c |-> "slash",    alg |-> <<"sha256">>, enc |-> <<"name", "name">>, colon |-> 1, valid |-> 0],
  [c |-> "emptyalg", alg |-> <<"empty">>, enc |-> <<"hex">>, colon |-> 1, valid |-> 0],
  [c |-> "absenc",   alg |-> <<"sha256">>, enc |-> <<"empty", "G", "victim">>, colon |-> 1, valid |-> 0],   \* "sha256:/G/victim"
  [c |-> "nocolon",  alg |-> <<>>, enc |-> <<"empty", "G", "victim">>, colon |-> 0, valid |-> 0],           \* "/G/victim"
  [c |-> "long",     alg |-> <<"sha256">>, enc |-> <<"long">>, colon |-> 1, valid |-> 0],
  [c |-> "nul",      alg |-> <<"sha256">>, enc |-> <<"nul">>, colon |-> 1, valid |-> 0],
  [c |-> "dotenc",   alg |-> <<"sha256">>, enc |-> <<"dotdot">>, colon |-> 1, valid |-> 0],
  [c |-> "v512",     alg |-> <<"sha512">>, enc |-> <<"hex512">>, colon |-> 1, valid |-> 1],  \* another registered algorithm
  [c |-> "shortenc", alg |-> <<"sha256">>, enc |-> <<"short">>, colon |-> 1, valid |-> 0] }  \* wrong length for the algorithm
Dig(c) == CHOOSE d \in DigestClasses : d.c = c
Validate(d) == d.valid = 1                                 \* digest.Digest.Validate
BlobFile(layout, d) == Join(layout, <<"blobs">> \o d.alg \o d.enc)   \* path.Join(r.Path, "blobs", alg, encoded)
\* tag classes never become file names in a layout (index.json annotations only)
TagClasses == {"valid", "dd", "slash", "abs", "long", "empty", "colon"}

LayoutOps == {"BlobGet", "BlobHead", "BlobPut", "BlobDelete", "ManifestGet", "ManifestHead", "ManifestPut",
              "ManifestDelete", "TagDelete", "TagList", "ReferrerList", "Close", "ImageCopy"}
\* where the hostile value is put
Places(op) ==
  CASE op \in {"BlobGet", "BlobHead", "BlobPut", "BlobDelete"} -> {"desc", "ref", "both"}
    [] op \in {"ManifestGet", "ManifestHead"} -> {"ref", "desc", "index", "tag", "platform"}   \* platform: WithManifestPlatform walks a nested index
    [] op = "ManifestPut" -> {"ref", "desc", "subject", "child", "tag"}
    [] op = "ManifestDelete" -> {"ref", "index"}
    [] op \in {"TagDelete", "TagList"} -> {"tag"}
    [] op = "ReferrerList" -> {"ref", "index", "extsrc"}                 \* extsrc: scheme.WithReferrerSource(other layout)
    [] op = "Close" -> {"index", "nested", "layer"}
    [] op = "ImageCopy" -> {"srcindex", "srcchild", "srclayer", "srcsubject", "tgtref", "tgttag"}
\* caller-supplied manifest for ManifestDelete: none | plain image | artifact with a subject | artifact with hostile subject
WithM(op) == IF op = "ManifestDelete" THEN {"none", "plain", "subject", "hsubject"} ELSE {"none"}
Chk(op) == IF op = "ManifestDelete" THEN {0, 1} ELSE {0}
\* further per-operation input: the Size of the descriptor given to blob calls (ocidir stats the file when it is <= 0, BlobPut
\* compares it), the options of ImageCopy
Opts(op) == CASE op \in {"BlobGet", "BlobHead", "BlobPut", "BlobDelete"} -> {"size_ok", "size_zero", "size_wrong"}
              [] op = "ImageCopy" -> {"none", "referrers", "digesttags", "force"}
              [] OTHER -> {"-"}

IsTagClass(h) == h \in {"tag_" \o t : t \in TagClasses}
\* the digests an operation sees: in the reference, in the descriptor argument, in stored (untrusted) content
RefD(s) == IF s.place \in {"ref", "both", "tgtref"} \/ (s.op = "ManifestDelete" /\ s.place = "index") THEN Dig(s.h) ELSE Dig("valid")
DescD(s) == IF s.place \in {"desc", "both"} THEN Dig(s.h) ELSE Dig("valid")
ContentD(s) == IF s.place \in {"index", "nested", "layer", "child", "subject", "srcindex", "srcchild", "srclayer", "srcsubject", "platform"}
               THEN Dig(s.h) ELSE Dig("valid")
Guarded(layout, d) == IF Validate(d) THEN {BlobFile(layout, d)} ELSE {}          \* "if err := d.Validate(); err != nil { return }"
Unguarded(layout, d) == IF d.colon = 0 THEN {} ELSE {BlobFile(layout, d)}        \* Algorithm() panics without ":"
\* digest-named paths touched per operation (read, created or removed)
BlobAccessT(layout, s) == Guarded(layout, DescD(s))                              \* blob.go: BlobGet, BlobHead, BlobDelete
BlobPutT(layout, s) == Guarded(layout, DescD(s)) \cup {BlobFile(layout, Dig("valid"))}   \* blob.go:BlobPut, computed digest otherwise
ManifestReadT(layout, s) ==                                                      \* manifest.go: manifestGet, ManifestHead
  CASE s.place = "desc" -> Guarded(layout, DescD(s))                             \* WithManifestDesc: r.AddDigest(d.Digest)
    [] s.place \in {"index", "platform"} -> Guarded(layout, ContentD(s))         \* tag -> digest found in index.json / nested index
    [] OTHER -> Guarded(layout, RefD(s))
ManifestPutT(layout, s) ==                                                       \* manifest.go: manifestPut (+ referrerPut)
  CASE s.place = "desc" -> Guarded(layout, DescD(s))                             \* the manifest's own descriptor
    [] OTHER -> {BlobFile(layout, Dig("valid"))}                                 \* ref digest must equal the computed one
ManifestDeleteT(layout, s) ==                                                    \* manifest.go: ManifestDelete
  IF s.wm = "none" THEN Guarded(layout, RefD(s))                                 \* manifestGet refuses first
  ELSE IF s.wm = "hsubject" /\ ~Validate(Dig(s.h)) THEN {}                       \* referrerDelete: FallbackTag cannot parse the subject
  ELSE IF DeleteValidates THEN Guarded(layout, RefD(s))                           \* the code: Validate at the top of ManifestDelete
  ELSE Unguarded(layout, RefD(s))                                                \* switch: variant before the fix (S15)
CloseT(layout, s) == Guarded(layout, ContentD(s))                                \* close.go: marks via manifestGet; sweeps only ReadDir children
CopyT(layout, s) == Guarded(layout, ContentD(s)) \cup Guarded(layout, RefD(s))   \* image.go copy: Manifest/Blob calls above
LayoutTouches(layout, s) ==
  CASE s.op \in {"BlobGet", "BlobHead", "BlobDelete"} -> BlobAccessT(layout, s)
    [] s.op = "BlobPut" -> BlobPutT(layout, s)
    [] s.op \in {"ManifestGet", "ManifestHead"} -> ManifestReadT(layout, s)
    [] s.op = "ManifestPut" -> ManifestPutT(layout, s)
    [] s.op = "ManifestDelete" -> ManifestDeleteT(layout, s)
    [] s.op \in {"TagDelete", "TagList", "ReferrerList"} -> {}                    \* index.json only (FallbackTag parses the digest)
    [] s.op = "Close" -> CloseT(layout, s)
    [] s.op = "ImageCopy" -> CopyT(layout, s)

\* ------------------------------------------------------------------ scenario spaces (uniform record shape)
NoName == [segs |-> <<>>, lead |-> 0, trail |-> 0]
\* secondary input dimensions, held at a default by the generator and assigned by the runner from SecondaryDims (cheap
\* covering at quick, products for the core scenarios at thorough):
\*   odir  how the designated directory is spelled to the code: absolute | relative to the working directory | "." (the
\*         working directory is the designated directory) | absolute with a trailing slash | through a symbolic link in a
\*         PARENT of the designated directory (the user's own, the directory itself contains no links)
\*   comp  compression of the archive (archive.Decompress): none | gzip
\*   hdr   tar header format carrying the name: PAX record | GNU long name | USTAR prefix/name fields
\*   pos   artifact get: the hostile layer is the only one | first of two | second of two (the other is benign, title "ok")
OutSpellings == {"abs", "rel", "dot", "slash", "vialink"}
SecondaryDims == [odir : OutSpellings, comp : {"none", "gzip"}, hdr : {"pax", "gnu", "ustar"}, pos : {"only", "first", "second"}]
Scn(ep, n, unpack, strip, ents, op, h, place, wm, chk, opt) ==
  [ep |-> ep, segs |-> n.segs, lead |-> n.lead, trail |-> n.trail, unpack |-> unpack, strip |-> strip, ents |-> ents,
   op |-> op, h |-> h, place |-> place, wm |-> wm, chk |-> chk, opt |-> opt,
   odir |-> "abs", comp |-> "none", hdr |-> "pax", pos |-> "only"]
Ent(k, n, t, tl) == [k |-> k, n |-> n, t |-> t, tl |-> tl]

\* (i) artifact get: title x annotation x --strip-dirs; the layer is a fixed small tar when unpacked
LayerTar == << Ent("dir", <<"d">>, <<>>, 0), Ent("reg", <<"d", "f">>, <<>>, 0), Ent("reg", <<"victim">>, <<>>, 0),
               Ent("reg", <<"pwn">>, <<>>, 0),
               Ent("reg", <<"dotdot", "sib2">>, <<>>, 0), Ent("dir", <<"dotdot", "sibdir">>, <<>>, 0),       \* siblings of the
               Ent("reg", <<"dotdot", "sibdir", "f">>, <<>>, 0), Ent("reg", <<"d", "dotdot", "dotdot", "sibtxt">>, <<>>, 0),  \* extract dir
               Ent("reg", <<"dotdot", "victim">>, <<>>, 0), Ent("reg", <<"whdd">>, <<>>, 0) >>
ArtScenarios == {Scn("art", n, u, s, <<>>, "-", "-", "-", "-", 0, "-") : n \in HostileNames, u \in {0, 1}, s \in {0, 1}} \cup
  \* no title: the file is named after the layer digest found in the (untrusted) manifest
  {Scn("art", NoName, u, s, <<>>, "-", d.c, "layerdigest", "-", 0, "-") : d \in DigestClasses, u \in {0, 1}, s \in {0, 1}}

\* (ii) archive.Extract: one hostile entry (directory or file; for a file its parent directory goes first) ...
TarScenarios ==
  {Scn("tar", n, 0, 0, IF k = "dir" THEN <<Ent("dir", n.segs, <<>>, 0)>>
                       ELSE <<Ent("dir", IF n.segs = <<>> THEN <<>> ELSE Front(n.segs), <<>>, 0), Ent("reg", n.segs, <<>>, 0)>>,
       "-", "-", "-", "-", 0, "-") : n \in HostileNames, k \in {"dir", "reg"}} \cup
  \* an entry of a type the code ignores (fifo; the driver also uses it for device nodes)
  {Scn("tar", n, 0, 0, <<Ent("fifo", n.segs, <<>>, 0)>>, "-", "-", "-", "-", 0, "-") :
     n \in {m \in HostileNames : (Len(m.segs) \in 1..2 \/ Special2(m.segs)) /\ m.trail = 0}} \cup
  \* every other entry type under a hostile name: character device, symbolic link and hard link (to the existing file)
  {Scn("tar", n, 0, 0, <<Ent(k, n.segs, IF k = "chr" THEN <<>> ELSE <<"xfile">>, 0)>>, "-", "-", "-", "-", 0, "-") :
     n \in {m \in HostileNames : (Len(m.segs) = 1 \/ Special2(m.segs)) /\ m.trail = 0 /\ m.lead = 0}, k \in {"chr", "sym", "hard"}} \cup
  \* a file entry alone (no parent directory entry that an entry guard could trip over first)
  {Scn("tar", n, 0, 0, <<Ent("reg", n.segs, <<>>, 0)>>, "-", "-", "-", "-", 0, "-") :
     n \in {m \in HostileNames : (Len(m.segs) \in 1..2 \/ Special2(m.segs)) /\ m.trail = 0}}
\* ... and link archives: up to two link entries followed by a file or directory written through them
LinkNames == {<<"a">>, <<"b">>, <<"xdir", "a">>}
LinkTargets == {<<"dot">>, <<"dotdot">>, <<"a", "dotdot">>, <<"b", "dotdot">>, <<"dotdot", "victim">>, <<"dotdot", "dotdot">>,
                <<"xdir", "dotdot", "dotdot">>, <<"victim">>, <<"xdir">>}
AbsTargets == {<<"G">>, <<"G", "victim">>}
Links == {Ent(k, n, t, 0) : k \in {"sym", "hard"}, n \in LinkNames, t \in LinkTargets} \cup
         {Ent(k, n, t, 1) : k \in {"sym", "hard"}, n \in LinkNames, t \in AbsTargets}
Payloads == {Ent("reg", <<"a", "pwn">>, <<>>, 0), Ent("reg", <<"b", "pwn">>, <<>>, 0), Ent("reg", <<"b", "victim">>, <<>>, 0),
             Ent("reg", <<"a">>, <<>>, 0), Ent("reg", <<"b">>, <<>>, 0), Ent("dir", <<"b", "pwn">>, <<>>, 0),
             Ent("reg", <<"xdir", "a", "pwn">>, <<>>, 0), Ent("reg", <<"a", "victim">>, <<>>, 0)}
LinkArchives == {<<l, p>> : l \in Links, p \in Payloads} \cup
                {<<l1, l2, p>> : l1 \in {l \in Links : l.k = "sym"}, l2 \in {l \in Links : l.k = "sym" /\ l.tl = 0}, p \in Payloads}
LinkScenarios == {Scn("lnk", NoName, 0, 0, a, "-", "-", "-", "-", 0, "-") : a \in LinkArchives}

\* (iii) ImageImport: the hostile name appears as an extra entry, as a blob path of the docker manifest.json, or as
\* the name under which a referenced blob is stored in the tar
ImportPlaces == {"extra_reg", "extra_dir", "extra_sym", "extra_hard", "docker_config", "docker_layer", "oci_blobname"}
ImpNames == {n \in HostileNames : Len(n.segs) <= 2 \/ Special2(n.segs)}
ImportScenarios == {Scn("imp", n, 0, 0, <<>>, "ImageImport", "-", p, "-", 0, "-") : n \in ImpNames, p \in ImportPlaces} \cup
                   {Scn("imp", NoName, 0, 0, <<>>, "ImageImport", d.c, p, "-", 0, "-") : d \in DigestClasses, p \in {"oci_index", "oci_layer", "oci_child"}}

\* (iv) every layout operation x hostile digest / tag x placement
LayoutSpace ==
  UNION {{Scn("lay", NoName, 0, 0, <<>>, op, h, pl, wm, c, o) :
            h \in {d.c : d \in DigestClasses} \cup {"tag_" \o t : t \in TagClasses}, pl \in Places(op), wm \in WithM(op),
            c \in Chk(op), o \in Opts(op)} : op \in LayoutOps}
LayoutScenarios == {s \in LayoutSpace : IsTagClass(s.h) <=> s.place \in {"tag", "tgttag"}}
DimScenarios == {[Scn("dim", NoName, 0, 0, <<>>, "-", "-", "-", "-", 0, "-") EXCEPT !.odir = d.odir, !.comp = d.comp, !.hdr = d.hdr, !.pos = d.pos] :
                   d \in SecondaryDims}

\* (no union constant: TLC evaluates constants eagerly and normalising 128k records costs a minute; modules choose by
\* entry point instead)
InSpace(x, eps) == \/ "art" \in eps /\ x \in ArtScenarios
                   \/ "tar" \in eps /\ x \in TarScenarios
                   \/ "lnk" \in eps /\ x \in LinkScenarios
                   \/ "imp" \in eps /\ x \in ImportScenarios
                   \/ "lay" \in eps /\ x \in LayoutScenarios
                   \/ "dim" \in eps /\ x \in DimScenarios

\* ------------------------------------------------------------------ what the model says a scenario touches
RECURSIVE RunEntries(_, _, _, _)
RunEntries(fs, base, ents, acc) ==
  IF ents = <<>> THEN acc
  ELSE LET r == ApplyEntry(fs, base, Head(ents)) IN
       IF r.halt THEN acc \cup r.touched ELSE RunEntries(r.fs, base, Tail(ents), acc \cup r.touched)
ArtFS(pl) == FS0 \cup {Node(q, "dir") : q \in {q \in Prefixes(pl.mkdir) : ~Has(FS0, q)}}
ArtTouches(s) ==
  LET pl == ArtPlan([segs |-> s.segs, lead |-> s.lead, trail |-> s.trail], s.unpack, s.strip)
      made == IF DirsOk(FS0, pl.mkdir) THEN {q \in Prefixes(pl.mkdir) : ~Has(FS0, q)} ELSE {}
      other == IF s.pos = "only" THEN {} ELSE {Out \o <<"ok">>}        \* the benign second layer (may be cut off by an error)
  IN IF s.place = "layerdigest" /\ ~Validate(Dig(s.h)) THEN other     \* "layer contains invalid digest"
     ELSE IF ~DirsOk(FS0, pl.mkdir) THEN other
     ELSE other \cup made \cup (IF pl.mode = "file" THEN (IF IsDir(ArtFS(pl), pl.target) THEN {} ELSE {pl.target})
                     ELSE IF IsDir(ArtFS(pl), pl.target) THEN RunEntries(ArtFS(pl), pl.target, LayerTar, {}) ELSE {})
Touches(s) ==
  CASE s.ep = "art" -> ArtTouches(s)
    [] s.ep \in {"tar", "lnk"} -> RunEntries(FS0, Out, s.ents, {})
    [] s.ep = "imp" -> {}                                  \* only computed-digest blobs and housekeeping files
    [] s.ep = "lay" -> LayoutTouches(Out, s)
    [] s.ep = "dim" -> {}
\* the property at model level: everything a scenario touches is inside the designated directory
Contained(s) == \A p \in Touches(s) : Inside(Out, p)
=============================================================================

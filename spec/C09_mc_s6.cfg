SPECIFICATION Spec
CONSTANTS
 DrainBug = TRUE
 LinkCode = FALSE
 DupPathBug = FALSE
 Ids <- S6Ids
INVARIANTS PropHolds
CHECK_DEADLOCK TRUE

INIT MCInit
NEXT MCNext
INVARIANTS Ok
CONSTRAINT Bounded
CHECK_DEADLOCK FALSE
CONSTANTS
 Hosts <- H2
 CredOf <- CredUP
 Reqs <- ReqsH2
 NProcs = 1
 NCalls = 2
 RegMoods <- MoodsBearer
 TokKinds <- KindsAll
 Budget = 2
 RetryLimit = 5
 MaxTok = 5
 Fix <- AllFix
 Mut = {"sharedAuth"}

------------------------------- MODULE AuthMC -------------------------------
(* Configuration space for TLC runs of Auth.tla (C11).  Mirrors the host     *)
(* configuration of harness/cmd/c11drv (config.Host per registry: TLS,       *)
(* user/password and/or identity token, Mirrors, RepoAuth) and the external  *)
(* layer URL variants.  B and M always have user+password and TLS.           *)
EXTENDS Auth
Bools == {TRUE, FALSE}
Conf(op, tlsA, credA, mirror, repoAuth, eh, es) ==
  [op |-> op,
   tls |-> [r \in Regs |-> IF r = "A" THEN tlsA ELSE TRUE],
   cred |-> [r \in Regs |-> IF r = "A" THEN credA ELSE "up"],
   mirror |-> mirror, repoAuth |-> repoAuth, extHost |-> eh, extSch |-> es, ports |-> FALSE]
\* the registries are configured and addressed as host:port (no effect on the design: every comparison
\* in the client is on URL.Host; it is a dimension of the replay, where a change may break that)
WithPorts(c) == [c EXCEPT !.ports = TRUE]
WithCred(c, r, k) == [c EXCEPT !.cred[r] = k]     \* credential kind of B or M
CredKinds == {"none", "up", "tok", "uptok"}
ExtURLs == {<<"E", "https">>, <<"E", "http">>, <<"A", "http">>, <<"P", "https">>}
PullConfs(ops, creds) ==
  {Conf(op, t, c, m, ra, "E", "https") : op \in ops, t \in Bools, c \in creds, m \in Bools, ra \in Bools}
PushConfs(ops, creds) ==
  {Conf(op, t, c, m, FALSE, "E", "https") : op \in ops, t \in Bools, c \in creds, m \in Bools}
\* the rarely used request classes (round 4): chunked push with upload status / cancel, paged tag and referrers
\* listings, referrers fall-back tag read / write, deletes, ping - with and without a mirror that has credentials
RareOps == {"bputc", "tags", "refs", "refsfb", "mputsub", "mdel", "tdel", "bdel", "ping"}
RareConfs == {Conf(op, TRUE, c, m, FALSE, "E", "https") : op \in RareOps, c \in {"up", "tok"}, m \in Bools}
ExtConfs(ops, creds) ==
  {Conf(op, TRUE, c, m, FALSE, e[1], e[2]) : op \in ops, c \in creds, m \in Bools, e \in ExtURLs}
AllConfs == PullConfs({"mget", "mhead", "bget", "bhead", "two"}, CredKinds)
            \cup PushConfs({"mput", "bput", "copy", "mount"}, CredKinds)
            \cup ExtConfs({"ext", "copyext"}, CredKinds)
            \cup RareConfs
\* a smaller space for the deep runs
CoreConfs == PullConfs({"bget", "two"}, {"up", "uptok"})
             \cup PushConfs({"bput", "copy"}, {"up"})
             \cup ExtConfs({"ext"}, {"up", "tok"})
\* generator spaces: exhaustive to depth 2 in the quick tier, wider in the thorough tier
QuickBase ==
  {Conf("bget", TRUE, c, m, FALSE, "E", "https") : c \in {"up", "uptok"}, m \in Bools}
  \cup {Conf("mget", t, "up", TRUE, FALSE, "E", "https") : t \in Bools}
  \cup {Conf("two", TRUE, "up", FALSE, ra, "E", "https") : ra \in Bools}
  \cup {Conf("bput", TRUE, "up", TRUE, FALSE, "E", "https"), Conf("mput", TRUE, "tok", TRUE, FALSE, "E", "https"),
        Conf("copy", TRUE, "up", FALSE, FALSE, "E", "https")}
  \cup {Conf(op, TRUE, "up", TRUE, FALSE, "E", "https") : op \in {"bputc", "tags", "refs"}}
  \cup {Conf("ext", TRUE, "up", FALSE, FALSE, e[1], e[2]) : e \in ExtURLs}
  \cup {Conf("mount", TRUE, "up", FALSE, TRUE, "E", "https")}
QuickGenConfs ==
  {IF c.tls["A"] /\ c.op # "two" THEN WithPorts(c) ELSE c : c \in QuickBase}
  \cup {Conf("bget", TRUE, "up", FALSE, FALSE, "E", "https"), Conf("ext", TRUE, "up", FALSE, FALSE, "A", "http")}
MidBase ==
  {Conf(op, t, c, m, FALSE, "E", "https") : op \in {"bget", "mhead"}, t \in Bools, c \in {"tok", "uptok"}, m \in Bools}
  \cup {Conf("two", TRUE, "tok", FALSE, ra, "E", "https") : ra \in Bools}
  \cup {Conf("bput", TRUE, "tok", FALSE, FALSE, "E", "https"), Conf("copy", TRUE, "tok", FALSE, FALSE, "E", "https"),
        Conf("bhead", TRUE, "up", TRUE, TRUE, "E", "https")}
  \cup {Conf("ext", TRUE, "tok", FALSE, FALSE, e[1], e[2]) : e \in ExtURLs}
MidGenConfs == {IF c.mirror THEN c ELSE WithPorts(c) : c \in MidBase}
  \cup {WithCred(Conf(op, TRUE, "up", TRUE, FALSE, "E", "https"), "M", k) : op \in {"mget", "bget"}, k \in {"tok", "uptok", "none"}}
  \cup {WithCred(Conf("copy", TRUE, "up", FALSE, FALSE, "E", "https"), "B", k) : k \in {"tok", "uptok", "none"}}
  \cup {Conf("mount", TRUE, "tok", FALSE, TRUE, "E", "https"), Conf("mount", TRUE, "uptok", TRUE, FALSE, "E", "https"),
        Conf("mount", TRUE, "up", FALSE, FALSE, "E", "https"), Conf("copy", TRUE, "up", TRUE, FALSE, "E", "https")}
  \cup {Conf(op, TRUE, "up", TRUE, FALSE, "E", "https") : op \in {"refsfb", "mdel", "tdel", "bdel", "ping", "mputsub"}}
  \cup {Conf(op, TRUE, "tok", TRUE, TRUE, "E", "https") : op \in {"bputc", "tags", "refs", "mputsub"}}
OtherCreds == {WithCred(c, "M", k) : c \in {x \in AllConfs : x.mirror}, k \in {"tok", "uptok", "none"}}
              \cup {WithCred(c, "B", k) : c \in {x \in AllConfs : x.op \in {"copy", "copyext"}}, k \in {"tok", "uptok", "none"}}
SimConfs == AllConfs \cup {WithPorts(c) : c \in AllConfs} \cup OtherCreds
\* redirect chains (round 4): three redirects / challenges in a row for one blob GET, targets that net/http
\* regards as the same site (sub domain, same name on another port), the registry itself and a foreign host
ChainConfs == {WithPorts(Conf("bget", TRUE, c, FALSE, FALSE, "E", "https")) : c \in {"up", "uptok"}}
PageConfs == {Conf(op, TRUE, c, TRUE, FALSE, "E", "https") : op \in {"tags", "refs"}, c \in {"up", "tok"}}
ChainChal == {"b1", "t"}
ChainRedir == {<<"S", "https">>, <<"P", "https">>, <<"A", "https">>, <<"R", "https">>}
Nothing == {}
DeepConfs ==
  {Conf("bget", TRUE, "up", FALSE, FALSE, "E", "https"), Conf("ext", TRUE, "up", FALSE, FALSE, "E", "https"),
   Conf("copy", TRUE, "up", FALSE, FALSE, "E", "https")}
QuickChal == {"none", "b1", "t", "bt"}
QuickFaults == {"nf", "err"}
AllChal == {"none", "mal", "uns", "bnr", "b1", "b2", "t", "bt"}
CoreChal == {"none", "b1", "b2", "t", "bt"}
AllFaults == {"nf", "e5", "err"}
AllRedir == {<<"R", "https">>, <<"R", "http">>, <<"S", "https">>, <<"A", "http">>, <<"A", "https">>, <<"E", "https">>,
             <<"P", "https">>, <<"Ac", "http">>}
CoreRedir == {<<"R", "https">>, <<"S", "https">>, <<"A", "http">>, <<"P", "https">>, <<"Ac", "http">>}
AllLoc == {<<"P", "https">>, <<"A", "http">>}
AllTok == {"tokr", "deny", "err", "bad"}
TaRealm == {<<"Ta", "https">>}
=============================================================================

------------------------------- MODULE AuthMC -------------------------------
(* Configuration space for TLC runs of Auth.tla (C11).  Mirrors the host     *)
(* configuration of harness/cmd/c11drv (config.Host per registry: TLS,       *)
(* user/password and/or identity token, Mirrors, RepoAuth) and the external  *)
(* layer URL variants.  B and M always have user+password and TLS.           *)
EXTENDS Auth
Bools == {TRUE, FALSE}
Conf(op, tlsA, credA, mirror, repoAuth, eh, es) ==
  [op |-> op,
   tls |-> [r \in Regs |-> IF r = "A" THEN tlsA ELSE TRUE],
   cred |-> [r \in Regs |-> IF r = "A" THEN credA ELSE "up"],
   mirror |-> mirror, repoAuth |-> repoAuth, extHost |-> eh, extSch |-> es]
CredKinds == {"none", "up", "tok", "uptok"}
ExtURLs == {<<"E", "https">>, <<"E", "http">>, <<"A", "http">>}
PullConfs(ops, creds) ==
  {Conf(op, t, c, m, ra, "E", "https") : op \in ops, t \in Bools, c \in creds, m \in Bools, ra \in Bools}
PushConfs(ops, creds) ==
  {Conf(op, t, c, FALSE, FALSE, "E", "https") : op \in ops, t \in Bools, c \in creds}
ExtConfs(ops, creds) ==
  {Conf(op, TRUE, c, m, FALSE, e[1], e[2]) : op \in ops, c \in creds, m \in Bools, e \in ExtURLs}
AllConfs == PullConfs({"mget", "mhead", "bget", "bhead", "two"}, CredKinds)
            \cup PushConfs({"mput", "bput", "copy"}, CredKinds)
            \cup ExtConfs({"ext", "copyext"}, CredKinds)
\* a smaller space for the deep runs
CoreConfs == PullConfs({"bget", "two"}, {"up", "uptok"})
             \cup PushConfs({"bput", "copy"}, {"up"})
             \cup ExtConfs({"ext"}, {"up", "tok"})
AllChal == {"none", "mal", "uns", "bnr", "b1", "b2", "t", "bt"}
CoreChal == {"none", "b1", "b2", "t", "bt"}
AllFaults == {"nf", "e5", "err"}
AllRedir == {<<"R", "https">>, <<"R", "http">>, <<"S", "https">>, <<"A", "http">>, <<"A", "https">>, <<"E", "https">>}
CoreRedir == {<<"R", "https">>, <<"S", "https">>, <<"A", "http">>}
AllTok == {"tokr", "deny", "err"}
TaRealm == {<<"Ta", "https">>}
=============================================================================

CONSTANTS
 Confs <- MCConfs
 FixWaitErr = TRUE
 Reduce = TRUE
 MCShapes = {"img", "dup", "idx2", "nested", "bentry", "docker", "schema1", "ext", "empty", "inline", "dtag", "dupentry", "inlinebad", "sha512"}
 MCPairs = {"tworeg", "samereg", "reg2dir", "dir2reg"}
 MCOpts <- MCOptsNoRefs
 MCFeats <- MCFeatsDefault
 MCInit = "corners"
 MCTag0 = {"none", "same"}
 MCByDigest = {FALSE}
 MCTgtByDigest = {FALSE}
 MaxFaults = 0
 AllowCancel = FALSE
 AllowCrash = FALSE
 Cap = 0
INIT Init
NEXT Next
INVARIANTS TypeOK InvC04 InvFb InvFbListed InvC03 InvC14 InvC14T InvFailTag

INIT Init
NEXT Next
CONSTANTS
 Procs = {1, 2}
 BlobLen = 2
 FixedTmp = FALSE
INVARIANTS SuccessMeansStored MismatchIsError WellFormedSucceeds NamesMatch

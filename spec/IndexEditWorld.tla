--------------------------- MODULE IndexEditWorld ---------------------------
(***************************************************************************)
(* X03 - the world the `regctl index create / add / delete` checks run in: *)
(* a fixed pool of manifests (images, artifacts, indexes, manifest lists), *)
(* two source repositories holding them under tags (with referrers and a   *)
(* digest tag), the initial states of the target repository, the platform  *)
(* strings that occur (as stored in descriptors / configs and as typed on  *)
(* the command line) and the abstract vocabulary of index entries.         *)
(*                                                                         *)
(* Mirrors no code.  It is the single description of the test content: the *)
(* generator prints it (IndexEditGen!EmitWorld) and harness/cmd/x03drv     *)
(* builds the real manifests, blobs, registries and OCI layouts from that  *)
(* JSON, so the spec and the driver cannot disagree about it.              *)
(*                                                                         *)
(* Platform semantics (what "the entries of platform p" means, statement   *)
(* level, documented in /repo/types/platform): two platforms are the same  *)
(* when OS, architecture and variant agree after normalisation (arm ->     *)
(* arm/v7, arm64/v8 -> arm64, amd64/v1 -> amd64); on windows the OS version *)
(* must also agree up to the build number (first three components); on any *)
(* OS other than linux / windows OS version and OS features must be equal. *)
(***************************************************************************)
EXTENDS Sequences, Integers, FiniteSets, TLC

None == "none"
ParseError == [os |-> "!", arch |-> "", var |-> "", ver |-> "", osf |-> ""]      \* not a platform string

----------------------------------------------------------------------------
(* platforms *)
PF(os, arch, var, ver, osf) == [os |-> os, arch |-> arch, var |-> var, ver |-> ver, osf |-> osf]

\* canonical string the driver prints for a platform object found in a descriptor or a config:
\* os/arch[/variant][;v=os.version][;of=os.features joined by +]   (fields verbatim, no normalisation)
StoredPlat ==
  ("linux/amd64" :> PF("linux", "amd64", "", "", "")) @@
  ("linux/arm64" :> PF("linux", "arm64", "", "", "")) @@
  ("linux/arm64/v8" :> PF("linux", "arm64", "v8", "", "")) @@
  ("linux/arm/v7" :> PF("linux", "arm", "v7", "", "")) @@
  ("linux/s390x" :> PF("linux", "s390x", "", "", "")) @@
  ("linux/amd64;v=5.1" :> PF("linux", "amd64", "", "5.1", "")) @@
  ("unknown/unknown" :> PF("unknown", "unknown", "", "", "")) @@
  ("windows/amd64;v=10.0.17763.5458" :> PF("windows", "amd64", "", "10.0.17763.5458", "")) @@
  ("windows/amd64;v=10.0.17763.5458;of=win32k" :> PF("windows", "amd64", "", "10.0.17763.5458", "win32k")) @@
  ("windows/amd64;v=10.0.20348.2322" :> PF("windows", "amd64", "", "10.0.20348.2322", "")) @@
  ("windows/amd64;v=10.0.17763" :> PF("windows", "amd64", "", "10.0.17763", "")) @@
  ("windows/amd64" :> PF("windows", "amd64", "", "", "")) @@
  ("freebsd/amd64;v=13" :> PF("freebsd", "amd64", "", "13", "")) @@
  ("freebsd/amd64" :> PF("freebsd", "amd64", "", "", ""))

\* platform strings as typed after --platform / --desc-platform: the fields they spell out
\* (ParseError: not a platform string)
CliPlat ==
  ("linux/amd64" :> PF("linux", "amd64", "", "", "")) @@
  ("linux/arm64" :> PF("linux", "arm64", "", "", "")) @@
  ("linux/arm64/v8" :> PF("linux", "arm64", "v8", "", "")) @@
  ("linux/arm/v7" :> PF("linux", "arm", "v7", "", "")) @@
  ("linux/arm" :> PF("linux", "arm", "", "", "")) @@
  ("linux/s390x" :> PF("linux", "s390x", "", "", "")) @@
  ("linux/ppc64le" :> PF("linux", "ppc64le", "", "", "")) @@
  ("linux/amd64,osver=9" :> PF("linux", "amd64", "", "9", "")) @@
  ("unknown/unknown" :> PF("unknown", "unknown", "", "", "")) @@
  ("windows/amd64" :> PF("windows", "amd64", "", "", "")) @@
  ("windows/amd64,osver=10.0.17763.5458" :> PF("windows", "amd64", "", "10.0.17763.5458", "")) @@
  ("windows/amd64,osver=10.0.17763" :> PF("windows", "amd64", "", "10.0.17763", "")) @@
  ("windows/amd64,osver=10.0.20348.2322" :> PF("windows", "amd64", "", "10.0.20348.2322", "")) @@
  ("freebsd/amd64,osver=13" :> PF("freebsd", "amd64", "", "13", "")) @@
  ("freebsd/amd64" :> PF("freebsd", "amd64", "", "", "")) @@
  ("linux/amd64/bad!" :> ParseError) @@
  ("lin ux/amd64" :> ParseError)

Norm(p) ==
  CASE p.arch = "arm" /\ p.var = "" -> [p EXCEPT !.var = "v7"]
    [] p.arch = "arm64" /\ p.var \in {"v8", "8"} -> [p EXCEPT !.var = ""]
    [] p.arch = "amd64" /\ p.var = "v1" -> [p EXCEPT !.var = ""]
    [] OTHER -> p

\* a windows OS version up to the build number
Build3 == ("10.0.17763.5458" :> "10.0.17763") @@ ("10.0.20348.2322" :> "10.0.20348")
Ver3(v) == IF v \in DOMAIN Build3 THEN Build3[v] ELSE v

SamePlat(a, b) ==
  LET x == Norm(a)
      y == Norm(b)
  IN /\ x.os = y.os /\ x.arch = y.arch /\ x.var = y.var
     /\ CASE x.os = "linux" -> TRUE
          [] x.os = "windows" -> Ver3(x.ver) = Ver3(y.ver)
          [] OTHER -> x.ver = y.ver /\ x.osf = y.osf

\* the string stored for a platform given with --desc-platform (normalised fields)
CanonOf(p) ==
  p.os \o "/" \o p.arch \o (IF p.var = "" THEN "" ELSE "/" \o p.var) \o
  (IF p.ver = "" THEN "" ELSE ";v=" \o p.ver) \o (IF p.osf = "" THEN "" ELSE ";of=" \o p.osf)
DescPlatStored(s) == CanonOf(Norm(CliPlat[s]))

----------------------------------------------------------------------------
(* annotations: a sequence of key/value flags denotes a map (a repeated key: the last one wins);  *)
(* canonical string: k=v joined by "," in the order of Keys (the driver sorts by key)             *)
Keys == <<"a", "b", "org.example.keep", "vnd.docker.reference.type">>
KV(k, v) == [k |-> k, v |-> v]
AnnVal(flags, k) ==
  LET idx == {i \in DOMAIN flags : flags[i].k = k} IN
  IF idx = {} THEN None ELSE flags[CHOOSE i \in idx : \A j \in idx : j <= i].v
RECURSIVE AnnJoin(_, _, _)
AnnJoin(flags, n, acc) ==
  IF n > Len(Keys) THEN acc
  ELSE LET v == AnnVal(flags, Keys[n]) IN
       AnnJoin(flags, n + 1, IF v = None THEN acc
                             ELSE (IF acc = "" THEN "" ELSE acc \o ",") \o Keys[n] \o "=" \o v)
AnnStr(flags) == AnnJoin(flags, 1, "")

\* the maps behind the canonical strings that occur (used by (D) to mirror the key-by-key comparison of
\* descriptor.Equal)
AnnPairs ==
  ("" :> {}) @@ ("a=1" :> {<<"a", "1">>}) @@ ("a=2" :> {<<"a", "2">>}) @@ ("a=3" :> {<<"a", "3">>}) @@
  ("a=1,b=2" :> {<<"a", "1">>, <<"b", "2">>}) @@ ("b=" :> {<<"b", "">>}) @@
  ("org.example.keep=1" :> {<<"org.example.keep", "1">>}) @@
  ("vnd.docker.reference.type=attestation-manifest" :> {<<"vnd.docker.reference.type", "attestation-manifest">>})

----------------------------------------------------------------------------
(* the pool of manifests.  kind image: a manifest with a config blob (cplat: the platform the      *)
(* config states, "" when it states none - artifacts, attestations) and one layer; kind index: an  *)
(* OCI index / Docker manifest list with entries.  subj: the manifest it refers to (referrers).    *)
(* mt: ocim = OCI image manifest, ocii = OCI index, dkm = Docker schema2 manifest, dkl = Docker    *)
(* manifest list.                                                                                  *)
Img(mt, cp) == [kind |-> "image", mt |-> mt, cplat |-> cp, ents |-> <<>>, subj |-> ""]
Art(subj) == [kind |-> "image", mt |-> "ocim", cplat |-> "", ents |-> <<>>, subj |-> subj]
Idx(mt, ents) == [kind |-> "index", mt |-> mt, cplat |-> "", ents |-> ents, subj |-> ""]
SE(id, plat, ann) == [id |-> id, plat |-> plat, ann |-> ann]     \* entry of a source index

Man ==
  ("a64" :> Img("ocim", "linux/amd64")) @@
  ("arm64" :> Img("ocim", "linux/arm64")) @@
  ("armv7" :> Img("ocim", "linux/arm/v7")) @@
  ("armv8" :> Img("ocim", "linux/arm64/v8")) @@
  ("w17" :> Img("ocim", "windows/amd64;v=10.0.17763.5458")) @@
  ("w20" :> Img("ocim", "windows/amd64;v=10.0.20348.2322")) @@
  ("bsd" :> Img("ocim", "freebsd/amd64;v=13")) @@
  ("d64" :> Img("dkm", "linux/amd64")) @@
  ("d390" :> Img("dkm", "linux/s390x")) @@
  ("art" :> Art("")) @@
  ("att" :> Art("")) @@
  ("sbom" :> Art("a64")) @@
  ("sigx" :> Art("IX1")) @@
  ("cos" :> Art("")) @@
  ("ghost" :> Img("ocim", "linux/arm64")) @@        \* referenced by IXB, stored nowhere
  ("IX1" :> Idx("ocii", <<SE("a64", "linux/amd64", ""), SE("arm64", "linux/arm64", ""),
                          SE("armv7", "linux/arm/v7", ""),
                          SE("att", "unknown/unknown", "vnd.docker.reference.type=attestation-manifest")>>)) @@
  ("IXW" :> Idx("ocii", <<SE("w17", "windows/amd64;v=10.0.17763.5458", ""),
                          SE("w20", "windows/amd64;v=10.0.20348.2322", ""),
                          SE("a64", "linux/amd64;v=5.1", ""), SE("bsd", "freebsd/amd64;v=13", "")>>)) @@
  ("DL1" :> Idx("dkl", <<SE("d64", "linux/amd64", ""), SE("d390", "linux/s390x", "")>>)) @@
  ("IXN" :> Idx("ocii", <<SE("art", "", ""), SE("IX1", "", ""), SE("armv8", "linux/arm64/v8", "")>>)) @@
  ("IXB" :> Idx("ocii", <<SE("a64", "linux/amd64", ""), SE("ghost", "linux/arm64", "")>>))

Ids == DOMAIN Man
IsList(id) == Man[id].kind = "index"
Children(id) == {Man[id].ents[i].id : i \in DOMAIN Man[id].ents}

\* source repositories: tags, and the manifests they hold (everything reachable from a tag, the
\* referrers and the target of the digest tag; never "ghost")
SrcTags ==
  ("S1" :> (("a64" :> "a64") @@ ("arm64" :> "arm64") @@ ("armv7" :> "armv7") @@ ("art" :> "art") @@
            ("ix1" :> "IX1") @@ ("ixb" :> "IXB"))) @@
  ("S2" :> (("ixw" :> "IXW") @@ ("dl1" :> "DL1") @@ ("ixn" :> "IXN") @@ ("d64" :> "d64") @@ ("w17" :> "w17")))
SrcRefer == ("S1" :> {"sbom", "sigx"}) @@ ("S2" :> {})                \* manifests with a subject, stored untagged
SrcDigestTag == ("S1" :> (("a64" :> "cos"))) @@ ("S2" :> <<>>)         \* subject id -> target of tag sha256-<subject>.sig
Repos == DOMAIN SrcTags

RECURSIVE Reach(_)
Reach(id) == {id} \cup UNION {Reach(c) : c \in Children(id)}
SrcHolds(repo) ==
  (UNION {Reach(SrcTags[repo][t]) : t \in DOMAIN SrcTags[repo]} \cup SrcRefer[repo] \cup
   {SrcDigestTag[repo][s] : s \in DOMAIN SrcDigestTag[repo]}) \ {"ghost"}
Referrers(repo, id) == {r \in SrcRefer[repo] : Man[r].subj = id}
DigestTagged(repo, id) == IF id \in DOMAIN SrcDigestTag[repo] THEN {SrcDigestTag[repo][id]} ELSE {}

\* references usable after --ref: by tag, by digest, a tag that does not exist
SR(repo, by, man) == [repo |-> repo, by |-> by, man |-> man]
Ref ==
  ("S1:a64" :> SR("S1", "tag", "a64")) @@ ("S1:arm64" :> SR("S1", "tag", "arm64")) @@
  ("S1:armv7" :> SR("S1", "tag", "armv7")) @@ ("S1:art" :> SR("S1", "tag", "art")) @@
  ("S1:ix1" :> SR("S1", "tag", "IX1")) @@ ("S1:ixb" :> SR("S1", "tag", "IXB")) @@
  ("S1@IX1" :> SR("S1", "digest", "IX1")) @@ ("S1@arm64" :> SR("S1", "digest", "arm64")) @@
  ("S1:nosuch" :> SR("S1", "tag", None)) @@ ("S1@d64" :> SR("S1", "digest", None)) @@
  ("S2:ixw" :> SR("S2", "tag", "IXW")) @@ ("S2:dl1" :> SR("S2", "tag", "DL1")) @@
  ("S2:ixn" :> SR("S2", "tag", "IXN")) @@ ("S2:d64" :> SR("S2", "tag", "d64")) @@
  ("S2:w17" :> SR("S2", "tag", "w17"))
\* the digest of reference "S1@d64" is the digest of d64, which S1 does not hold
RefDigestOf == ("S1@IX1" :> "IX1") @@ ("S1@arm64" :> "arm64") @@ ("S1@d64" :> "d64")

----------------------------------------------------------------------------
(* entries of the index under edit and the index itself, as observed / as denoted                 *)
(*   id   pool name of the manifest the digest belongs to (a raw digest when unknown)             *)
(*   mt   media type (abstract name)            sz  "ok" when the size is that of the manifest    *)
(*   plat platform (StoredPlat string, "" none) ann annotations (canonical string)                *)
(*   x    every other field of the descriptor: "" none, else a label of Extras (urls, data,       *)
(*        artifactType) or a hash                                                                  *)
En(id, mt, plat, ann, x) == [id |-> id, mt |-> mt, sz |-> "ok", plat |-> plat, ann |-> ann, x |-> x]
IV(mt, ents, ann, at, subj) == [mt |-> mt, ents |-> ents, ann |-> ann, at |-> at, subj |-> subj]
Extras == {"urls", "at", "data"}

\* initial states of the target: what tag v1 resolves to (None, a pool manifest, a seeded index),
\* and further manifests stored there unreferenced
SeedA == IV("ocii", <<En("a64", "ocim", "linux/amd64", "", ""), En("arm64", "ocim", "linux/arm64", "", "urls"),
                      En("art", "ocim", "", "a=1,b=2", "at"),
                      En("w17", "ocim", "windows/amd64;v=10.0.17763.5458;of=win32k", "", ""),
                      En("att", "ocim", "unknown/unknown", "vnd.docker.reference.type=attestation-manifest", "data")>>,
            "org.example.keep=1", "", "")
SeedD == IV("dkl", <<En("d390", "dkm", "linux/s390x", "", ""), En("d64", "dkm", "linux/amd64", "", "")>>, "", "", "")
SeedDup == IV("ocii", <<En("a64", "ocim", "linux/amd64", "a=1", ""), En("arm64", "ocim", "linux/arm64", "", ""),
                        En("a64", "ocim", "linux/amd64", "a=2", ""), En("a64", "ocim", "linux/amd64;v=5.1", "", ""),
                        En("armv7", "ocim", "", "", "")>>, "", "application/vnd.example.idx", "")
Seeds == ("seedA" :> SeedA) @@ ("seedD" :> SeedD) @@ ("seedDup" :> SeedDup)
Inits == {"empty", "image", "seedA", "seedD", "seedDup"}
InitTag(i) == CASE i = "empty" -> [k |-> "none"]
                [] i = "image" -> [k |-> "pool", id |-> "a64"]
                [] OTHER -> [k |-> "idx", v |-> Seeds[i]]
InitExtra == ("empty" :> {"armv7"}) @@ ("image" :> {"arm64"}) @@ ("seedA" :> {"armv7", "IX1"}) @@
             ("seedD" :> {"a64"}) @@ ("seedDup" :> {})
InitHave(i) ==
  UNION {Reach(x) : x \in InitExtra[i]} \cup
  (CASE i = "empty" -> {} [] i = "image" -> {"a64"}
     [] OTHER -> UNION {Reach(Seeds[i].ents[n].id) : n \in DOMAIN Seeds[i].ents})

\* the world as one value, printed once by the generator for the driver
World ==
  [man |-> Man, tags |-> SrcTags, refer |-> SrcRefer, dtag |-> SrcDigestTag, ref |-> Ref, refdig |-> RefDigestOf,
   plat |-> StoredPlat, seeds |-> Seeds, initextra |-> InitExtra,
   inittag |-> [i \in Inits |-> InitTag(i)]]
=============================================================================

-------------------------- MODULE ScanLemmaProof --------------------------
(***************************************************************************)
(* TLAPS proof of the scan lemma behind C16 for lists of ANY length over   *)
(* ANY set of entries: if Better is irreflexive and transitive on the      *)
(* entries, the left-to-right scan "take the first entry, then replace the *)
(* current choice whenever the next entry is better" maintains the         *)
(* invariant that no entry scanned so far beats the current choice, and    *)
(* that a choice exists once an entry has been scanned.  (ScanLemma.tla    *)
(* checks the same statement exhaustively for N = 4 with TLC.)             *)
(***************************************************************************)
EXTENDS Naturals, Sequences, TLAPS
CONSTANTS E, rel, list
NoneVal == CHOOSE x : x \notin E
ASSUME RelAx == /\ rel \subseteq E \X E
                /\ \A a \in E : <<a, a>> \notin rel
                /\ \A a \in E, b \in E, c \in E : <<a, b>> \in rel /\ <<b, c>> \in rel => <<a, c>> \in rel
ASSUME ListAx == list \in Seq(E)
VARIABLES i, cur
vars == <<i, cur>>
Init == i = 1 /\ cur = NoneVal
Better(t, p) == p = NoneVal \/ <<t, p>> \in rel
Next == /\ i <= Len(list)
        /\ cur' = IF Better(list[i], cur) THEN list[i] ELSE cur
        /\ i' = i + 1
Spec == Init /\ [][Next]_vars

Inv == /\ i \in 1..(Len(list) + 1)
       /\ cur = NoneVal \/ cur \in E
       /\ cur # NoneVal => \A j \in 1..(i-1) : <<list[j], cur>> \notin rel
       /\ i > 1 => cur # NoneVal

LEMMA LenNat == Len(list) \in Nat /\ \A k \in 1..Len(list) : list[k] \in E
  BY ListAx

LEMMA NoneNotIn == NoneVal \notin E
  BY NoSetContainsEverything DEF NoneVal

THEOREM InitInv == Init => Inv
  BY ListAx DEF Init, Inv

THEOREM NextInv == Inv /\ [Next]_vars => Inv'
<1> SUFFICES ASSUME Inv, [Next]_vars PROVE Inv'
  OBVIOUS
<1>1. CASE UNCHANGED vars
  BY <1>1 DEF Inv, vars
<1>2. CASE Next
  <2>1. i \in 1..Len(list) /\ list[i] \in E /\ i \in Nat
    BY <1>2, LenNat DEF Next, Inv
  <2>2. i' = i + 1 /\ i' \in 1..(Len(list) + 1)
    <3>1. i' = i + 1
      BY <1>2 DEF Next
    <3>2. i + 1 \in 1..(Len(list) + 1)
      BY <2>1, LenNat
    <3> QED
      BY <3>1, <3>2
  <2>3. CASE Better(list[i], cur)
    <3>1. cur' = list[i]
      BY <1>2, <2>3 DEF Next
    <3>2. cur' \in E /\ cur' # NoneVal
      BY <3>1, <2>1, NoneNotIn
    <3>3. \A j \in 1..(i'-1) : <<list[j], cur'>> \notin rel
      <4> SUFFICES ASSUME NEW j \in 1..i PROVE <<list[j], list[i]>> \notin rel
        BY <2>1, <2>2, <3>1
      <4>1. CASE j = i
        BY <4>1, <2>1, RelAx
      <4>2. CASE j < i
        <5>1. list[j] \in E
          BY <4>2, <2>1, ListAx
        <5>2. CASE cur = NoneVal
          BY <5>2, <4>2, <2>1 DEF Inv
        <5>3. CASE cur # NoneVal
          <6>1. <<list[i], cur>> \in rel /\ cur \in E
            BY <2>3, <5>3 DEF Better, Inv
          <6>2. <<list[j], cur>> \notin rel
            BY <5>3, <4>2, <2>1 DEF Inv
          <6> QED
            BY <6>1, <6>2, <5>1, <2>1, RelAx
        <5> QED
          BY <5>2, <5>3
      <4> QED
        BY <4>1, <4>2
    <3> QED
      BY <2>2, <3>2, <3>3 DEF Inv
  <2>4. CASE ~Better(list[i], cur)
    <3>1. cur' = cur /\ cur # NoneVal /\ <<list[i], cur>> \notin rel
      BY <1>2, <2>4 DEF Next, Better
    <3>2. \A j \in 1..(i'-1) : <<list[j], cur'>> \notin rel
      BY <3>1, <2>2, <2>1 DEF Inv
    <3> QED
      BY <2>2, <3>1, <3>2 DEF Inv
  <2> QED
    BY <2>3, <2>4
<1> QED
  BY <1>1, <1>2

THEOREM Safety == Spec => []Inv
  BY InitInv, NextInv, PTL DEF Spec

\* what the invariant means at the end of the scan: the result is a best entry of the list
Maximal == (i = Len(list) + 1 /\ Len(list) > 0) =>
             /\ cur \in E
             /\ \A j \in 1..Len(list) : <<list[j], cur>> \notin rel
THEOREM InvMaximal == Inv => Maximal
  BY NoneNotIn, LenNat DEF Inv, Maximal
=============================================================================

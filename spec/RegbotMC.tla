------------------------------ MODULE RegbotMC ------------------------------
(***************************************************************************)
(* C19 - model checking configuration of Regbot.tla: the statement         *)
(* alphabet over the reference pool and the "free script" next-state       *)
(* relation: at every step every script may continue with ANY statement of *)
(* the alphabet, so the reachable states cover every script of at most     *)
(* MaxLen statements (histories collapse: the state keeps the world and    *)
(* the Lua variables, not the text).  Mirrors nothing in the code beyond   *)
(* Regbot.tla; the pool is the one the driver (harness/cmd/c19drv) builds. *)
(***************************************************************************)
EXTENDS Regbot

CONSTANTS MaxLen, Pars, Alphabet

S(op, l1, t1, l2, t2) == [op |-> op, l1 |-> l1, t1 |-> t1, l2 |-> l2, t2 |-> t2, p |-> ""]
P(st) == [st EXCEPT !.p = "p"]

(* ---------------------------- reference pool ---------------------------- *)
ReadRefs == (Locs \X {"v1", "ix", "none"}) \cup {<<"bad", "">>}
DigestRefs == {<<"a1", "M1">>, <<"lay", "M1">>, <<"b1", "M1">>}
WriteTgts == Locs \X {"new", "v1"}
BlobIds == {"C1", "L2", "ZZ"}
Files == {"good", "missing", "bad"}

(* --------------------------- statement alphabet ------------------------- *)
ListStmts == {S(op, r, "", "", "") : op \in {"repo.ls", "repo.ls+limit"}, r \in Regs} \cup {S("tag.ls", l, "", "", "") : l \in Locs \cup {"bad"}}
ManifestStmts ==
  {S(op, r[1], r[2], "", "") : op \in {"manifest.get", "manifest.getList", "manifest.head"}, r \in ReadRefs \cup DigestRefs}
  \cup {S("manifest.get", l, "ix", "linux/arm64", "") : l \in {"a1", "lay"}}
  \cup {S(op, r[1], r[2], "", "") : op \in {"image.manifest", "image.manifestHead", "image.manifestList"}, r \in {<<"a1", "v1">>, <<"lay", "ix">>}}
VarReadStmts == {S(op, "", "", "", "") : op \in {"m:get", "m:head", "m:export", "m:config", "c:export", "m:ratelimit", "m:ratelimitWait",
                                                "r:digest", "r:close"}}
                \cup {S(op, "", "", b, "") : op \in {"b:get", "b:head"}, b \in {"C1"}}
                \cup {S("tag.ls", "$c", "", "", ""), S("reference.new", "$c", "", "", ""), S("image.exportTar", "$r", "", "out", "")}
                \cup {S("r:tag", "", "", t, "") : t \in {"", "v1", "new", "none"}}
                \cup {S("image.config", "$m", "", "", ""), S("reference.new", "$m", "", "", ""), S("manifest.head", "$r", "", "", "")}
ConfigStmts == {S("image.config", r[1], r[2], "", "") : r \in ReadRefs}
MiscReadStmts == {S("image.ratelimitWait", r[1], r[2], "", "") : r \in {<<"a1", "v1">>, <<"a1", "none">>, <<"lay", "v1">>}}
                 \cup {S(op, l, "", b, "") : op \in {"blob.get", "blob.head"}, l \in Locs \cup {"bad"}, b \in BlobIds}
                 \cup {S("reference.new", r[1], r[2], "", "") : r \in {<<"a1", "v1">>, <<"lay", "ix">>, <<"a2", "none">>, <<"bad", "">>}}
                 \cup {S("reference.close", r[1], r[2], "", "") : r \in {<<"a1", "v1">>, <<"lay", "v1">>, <<"bad", "">>}}
ReadStmts == ListStmts \cup ManifestStmts \cup VarReadStmts \cup ConfigStmts \cup MiscReadStmts

DeleteStmts == {S("tag.delete", r[1], r[2], "", "") : r \in ReadRefs \cup DigestRefs \cup {<<"$r", "">>}} \cup {S("m:delete", "", "", "", "")}
PutStmts == {S(op, r[1], r[2], "", "") : op \in {"manifest.put", "m:put"}, r \in WriteTgts \cup {<<"bad", "">>}}
            \cup {S("blob.put", l, "", c, "") : l \in Locs \cup {"bad"}, c \in {"str", "$b", "$c"}}
            \cup {S("b:put", "", "", c, "") : c \in {"str", "$b", "$c"}}
            \cup {S(op, "$r", "", "", "") : op \in {"manifest.put", "m:put"}}
            \cup {S("blob.put", "$r", "", c, "") : c \in {"str", "$b", "$c"}}
            \cup {S("manifest.put", l, "M1", "", "") : l \in {"b1", "lay"}}
CopyStmts == {S("image.copy", s[1], s[2], t[1], t[2]) : s \in ReadRefs, t \in WriteTgts \cup {<<"bad", "">>}}
             \cup {S(op, "a1", "ix", t[1], t[2]) : op \in {"image.copy+dt", "image.copy+fr"}, t \in {<<"b1", "new">>, <<"lay", "new">>}}
             \cup {S(op, s[1], s[2], t[1], t[2]) : op \in {"image.copy+pf", "image.copy+ie"},
                      s \in {<<"a1", "ix">>, <<"lay", "ix">>, <<"a1", "v1">>}, t \in {<<"b1", "new">>, <<"lay", "new">>, <<"a1", "new">>}}
             \cup {S("image.copy", l, "M1", t[1], t[2]) : l \in {"a1", "lay"}, t \in {<<"b1", "new">>, <<"lay", "new">>}}
             \cup {S("image.copy", "a1", "v1", "$r", "")}
TarStmts == {S("image.importTar", t[1], t[2], f, "") : t \in WriteTgts \cup {<<"bad", "">>, <<"$r", "">>}, f \in Files}
            \cup {S("image.exportTar", r[1], r[2], f, "") : r \in ReadRefs, f \in {"out", "baddir"}}
WriteStmts == DeleteStmts \cup PutStmts \cup CopyStmts \cup TarStmts
GuardStmts == {S(op, r[1], r[2], "", "") : op \in GuardOps, r \in ReadRefs \cup WriteTgts}
ErrorStmt == S("error", "", "", "", "")
ErrorStmts == {S(op, "", "", "", "") : op \in ErrorOps}
\* statements over the loop reference: "@" = <listed repository>:<current tag>, "l:@" = other place, same tag
LoopStmts == {S(op, "@", "", "", "") : op \in {"manifest.head", "manifest.getList", "manifest.get", "tag.delete", "image.config"}}
             \cup {S("image.copy", "@", "", l, "@") : l \in Locs}
             \cup {S("image.exportTar", "@", "", "out", ""), S("m:delete", "", "", "", "")}
LoopGuards == {S("ifnot.head", l, "@", "", "") : l \in Locs}
Bodies == {<<b>> : b \in LoopStmts} \cup {<<g, b>> : g \in LoopGuards \cup LoopStmts, b \in LoopStmts}
ForeachStmts == {S("foreach", l, "", n, "") : l \in Locs \cup {"bad"}, n \in {"1", "2"}}
Simple == ReadStmts \cup WriteStmts
\* protected (pcall) variants of everything that can fail
Full == Simple \cup {P(st) : st \in Simple} \cup GuardStmts \cup ErrorStmts \cup {P(st) : st \in ErrorStmts}
\* reduced alphabets for the larger configurations
Core == {st \in Simple : st.l1 \in {"a1", "lay", "$m", "$r", "bad", ""} /\ st.l2 \in {"", "b1", "lay", "good", "missing", "out", "str", "$b", "$c", "C1"}
                         /\ st.t1 # "ix" /\ st.op \notin {"image.manifest", "image.manifestHead", "image.manifestList", "image.copy+dt", "image.copy+fr", "image.copy+pf", "image.copy+ie"}}
        \cup ErrorStmts
\* the throttled bindings with their failure paths (before and while holding the slot) and what feeds them
Throttle == {S("image.config", "a1", "v1", "", ""), S("image.config", "a1", "none", "", ""), S("image.config", "$m", "", "", ""),
             P(S("image.config", "$m", "", "", "")), S("manifest.getList", "a1", "ix", "", ""), S("manifest.head", "a1", "v1", "", ""),
             S("image.copy", "a1", "v1", "b1", "new"), S("image.copy", "a1", "none", "b1", "new"), S("image.copy", "bad", "", "b1", "new"),
             S("image.importTar", "b1", "new", "good", ""), P(S("image.importTar", "b1", "new", "missing", "")),
             S("image.exportTar", "a1", "v1", "out", ""), S("image.exportTar", "a1", "none", "baddir", ""), ErrorStmt}
Alpha == CASE Alphabet = "full" -> Full [] Alphabet = "core" -> Core [] Alphabet = "throttle" -> Throttle

MCInit == \E w \in {WorldA, WorldB, WorldN}, m \in {"dry", "nor"}, p \in Pars : InitWith(w, m, p)

MCNext ==
  \/ \E s \in Scripts :
       \/ InLoop(s) /\ (Begin(s, NoStmt) \/ Guard(s, NoStmt) \/ Raise(s, NoStmt))
       \/ ~InLoop(s) /\ ip[s] < MaxLen /\ \E st \in Alpha : Begin(s, st) \/ Guard(s, st) \/ Raise(s, st)
       \/ Alphabet = "full" /\ ~InLoop(s) /\ \E st \in ForeachStmts, body \in Bodies :
            /\ (st.l2 = "1") = (Len(body) = 1)
            /\ ip[s] + 1 + Len(body) <= MaxLen
            /\ Foreach(s, st, body)
       \/ Acquire(s) \/ Body(s) \/ Finish(s)
  \/ AllOver /\ UNCHANGED vars
MCSpec == MCInit /\ [][MCNext]_vars

\* probe set for ReadSame: every read binding on an existing, an index, an absent and a layout reference
ReadProbe == {st \in ReadStmts : <<st.l1, st.t1>> \in {<<"a1", "v1">>, <<"lay", "ix">>, <<"a1", "none">>, <<"a1", "">>, <<"lay", "">>, <<"", "">>, <<"$m", "">>, <<"$r", "">>, <<"rega", "">>}
                                 /\ st.l2 \in {"", "C1", "new"}}
ReadSameMC == ReadSame(ReadProbe)
\* sanity of the model: the interesting things do happen
SomeWrite == W = W0                                   \* expected to be violated (normal runs change the world)
SomeFailure == \A s \in Scripts : pc[s] # "failed"    \* expected to be violated
=============================================================================

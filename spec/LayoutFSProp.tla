--------------------------- MODULE LayoutFSProp ---------------------------
(***************************************************************************)
(* (P) property monitor for C07: an OCI layout survives a crash at any     *)
(* point of any write.                                                     *)
(*                                                                         *)
(* Observation shaped.  It knows nothing about how regclient writes a      *)
(* layout (no system calls, no temp files, no ordering).  An observation   *)
(* is a set of facts about ONE directory state, produced by observers that *)
(* share no code with regclient's writer:                                  *)
(*   - the independent checker (python std lib): is `oci-layout` complete  *)
(*     JSON, is `index.json` complete JSON, the tag table read from it,    *)
(*     every digest-named file re-hashed, the closure of every tag walked; *)
(*   - a FRESH real client opened on that directory (TagList, ManifestGet  *)
(*     of every tag, complete closure read with an independent sha256,     *)
(*     referrer listing) - "readable" in the statement means readable by   *)
(*     the reader that ships with the writer.                              *)
(* Directory states observed:                                              *)
(*   crash(k)   the directory a process death after the k-th mutating      *)
(*              system call leaves behind, for every k    (O1 O2 O3 O4)    *)
(*   fresh(k)   crash(k) as seen by the fresh client      (O2 O3 O4)       *)
(*   retry(k)   crash(k) after the interrupted operation was repeated by   *)
(*              a new process                             (O1-O4, O6)      *)
(*   end        the directory when the uninterrupted operation returned    *)
(*                                                        (O1-O4, O5)      *)
(*   follow(k)  crash(k) after ANOTHER operation (import / copy of the     *)
(*              image concerned) was run on it            (O1-O4, O5)      *)
(*   fault(k)   the directory a process leaves that was interrupted        *)
(*              WITHOUT dying: mutating call k returned an error and the   *)
(*              process went on through its error path    (O1-O4; O5 when  *)
(*              it reported success); fretry(k): the operation repeated on *)
(*              that directory                            (O1-O4, O6)      *)
(*   (an operation whose context is cancelled / whose source connection    *)
(*   fails at request k is an ordinary trace: its crash states are crash   *)
(*   states, its end is judged O1-O4 and, when it reported success, O5)    *)
(* The statement, clause by clause:                                        *)
(*   O1 every file stored under a digest name has that digest              *)
(*   O2 the marker and the index are complete JSON and the layout is       *)
(*      readable - when the layout existed before the operation (a crash   *)
(*      while the FIRST layout is being created in an empty directory has  *)
(*      nothing to lose; there O2 is demanded of retry(k) and end only)    *)
(*   O3 every tag that existed before the operation and is not its target  *)
(*      still resolves to the same image                                   *)
(*   O4 every tag present resolves to an image whose parts are all there   *)
(*   O5 an operation that returned success is fully visible                *)
(*   O6 repeating the interrupted operation reaches the intended state     *)
(* The intended state is derived here from the operation kind and its      *)
(* arguments (header of the trace), not from what the code did.  The kinds *)
(* blob_bad / man_bad offer content that does not match its descriptor:    *)
(* the statement demands nothing of their outcome beyond O1-O4 (whatever   *)
(* the writer does with such content, no digest-named file may hold other  *)
(* content and no tag may be hurt, at any instant).                        *)
(* `bad` is the list of obligations violated by the CURRENT observation    *)
(* (not latched: validation continues past a reported state so that one    *)
(* known defect cannot hide another).                                      *)
(***************************************************************************)
EXTENDS Naturals, Sequences, FiniteSets, TLC

VARIABLES pre,      \* tag -> image: the tag table before the operation
          tgt,      \* tags the operation is allowed to change
          op,       \* [kind, optag, opobj, subj, fbtag, wantrefs, norefs]
          estM,     \* the layout existed before the operation: complete marker
          estI,     \* a complete index existed before the operation
          k,        \* number of mutating system calls observed so far
          bad       \* obligations violated by the current observation
pvars == <<pre, tgt, op, estM, estI, k, bad>>

Range(s) == {s[i] : i \in 1..Len(s)}
\* a table given as two parallel sequences (first occurrence wins)
Tab(ts, ds) == [t \in Range(ts) |-> ds[CHOOSE i \in 1..Len(ts) : ts[i] = t /\ \A j \in 1..(i-1) : ts[j] # t]]
\* names of the failing checks of a list of <<is-violated, name>>
Failing(checks) == LET f == SelectSeq(checks, LAMBDA c : c[1]) IN [i \in 1..Len(f) |-> f[i][2]]

NoOp == [kind |-> "", optag |-> "", opobj |-> "", subj |-> "", fbtag |-> "", wantrefs |-> <<>>, norefs |-> <<>>]
PInit == pre = <<>> /\ tgt = {} /\ op = NoOp /\ estM = FALSE /\ estI = FALSE /\ k = 0 /\ bad = <<>>

\* header of a trace: the operation, and the independent checker's view of the start state
PReset(h) ==
  /\ pre' = Tab(h.pre_t, h.pre_d)
  /\ tgt' = Range(h.tgt)
  /\ op' = [kind |-> h.kind, optag |-> h.optag, opobj |-> h.opobj, subj |-> h.subj, fbtag |-> h.fbtag,
            wantrefs |-> h.wantrefs, norefs |-> h.norefs]
  /\ estM' = (h.marker = "complete")
  /\ estI' = (h.index = "ok")
  /\ k' = 0
  /\ bad' = <<>>

\* X: further tags that a follow-up operation names (empty for the operation itself)
KeptX(tab, X) == \A t \in ((DOMAIN pre) \ tgt) \ X : t \in DOMAIN tab /\ tab[t] = pre[t]
Kept(tab) == KeptX(tab, {})

\* O1-O4 on the independent checker's facts about one directory state
StateChecksX(e, em, ei, X) ==
  << <<e.badfiles # <<>>, "O1">>,
     <<em /\ e.marker # "complete", "O2-marker">>,
     <<ei /\ e.index # "ok", "O2-index">>,
     <<e.index = "ok" /\ ~KeptX(Tab(e.tag_t, e.tag_d), X), "O3">>,
     <<e.dangling # <<>>, "O4">> >>
StateChecks(e, em, ei) == StateChecksX(e, em, ei, {})

\* O2-O4 as seen by the fresh real client
FreshChecksX(e, em, ei, X) ==
  << <<em /\ ei /\ e.tl # "ok", "O2-readable">>,
     <<~KeptX(Tab(e.res_t, e.res_d), X), "O3-fresh">>,
     <<e.unres # <<>> \/ e.broken # <<>>, "O4-fresh">> >>
FreshChecks(e, em, ei) == FreshChecksX(e, em, ei, {})

\* the intended end state of the operation (O5 at the return, O6 after a retry)
GoalChecks(e, o) ==
  LET cur == Tab(e.tag_t, e.tag_d)
      res == Tab(e.res_t, e.res_d)
      Tagged(t, x) == t \in DOMAIN cur /\ cur[t] = x /\ t \in DOMAIN res /\ res[t] = x
      puts == {"put_tag", "put_index", "put_ref", "copy", "rcopy", "copy_ref", "import", "retag"}
  IN << <<op.kind \in puts /\ ~Tagged(op.optag, op.opobj), o \o "-tag">>,
        <<op.kind \in {"put_digest", "put_refd"} /\ (op.opobj \notin Range(e.untagged) \/ e.has # 1), o \o "-entry">>,
        <<op.kind \in {"put_child", "blob_put"} /\ e.has # 1, o \o "-file">>,
        <<op.kind = "blob_delete" /\ e.has # 0, o \o "-file-deleted">>,
        <<op.kind = "tag_delete" /\ (op.optag \in DOMAIN cur \/ op.optag \in DOMAIN res), o \o "-tag-deleted">>,
        <<op.kind = "man_delete" /\ (\/ \E t \in DOMAIN cur : cur[t] = op.opobj
                                     \/ \E t \in DOMAIN res : res[t] = op.opobj
                                     \/ op.opobj \in Range(e.untagged) \/ e.has = 1), o \o "-manifest-deleted">>,
        <<\/ ~(Range(op.wantrefs) \subseteq Range(e.refs))
          \/ Range(op.norefs) \cap Range(e.refs) # {}
          \/ (op.wantrefs # <<>> /\ op.fbtag \notin DOMAIN cur)
          \/ (op.subj # "" /\ e.refs_err # 0), o \o "-referrers">>,
        <<op.kind \notin {"blob_put", "blob_delete", "blob_bad"} /\ e.index # "ok", o \o "-index">> >>

\* the directory after the k-th mutating system call (crash state k)
PSys(e) ==
  /\ k' = k + 1
  /\ bad' = Failing(<< <<e.k # k + 1, "seq">> >> \o StateChecks(e, estM, estI))
  /\ UNCHANGED <<pre, tgt, op, estM, estI>>

\* crash state k opened by a fresh real client
PFresh(e) ==
  /\ bad' = Failing(<< <<e.k # k, "seq">> >> \o FreshChecks(e, estM, estI))
  /\ UNCHANGED <<pre, tgt, op, estM, estI, k>>

\* crash state k after the interrupted operation was repeated (both observers)
PRetry(e) ==
  /\ bad' = Failing(<< <<e.k # k, "seq">> >> \o StateChecks(e, TRUE, estI) \o FreshChecks(e, TRUE, estI)
                    \o GoalChecks(e, "O6"))
  /\ UNCHANGED <<pre, tgt, op, estM, estI, k>>

\* the operation ran to its end: e.n = number of mutating system calls it made.  e.second = 0: the
\* uninterrupted operation returned success (O5); e.second = 1: this process WAS the repetition of an
\* interrupted operation (its own crash states are states after a second crash), so its end is judged as O6
PEnd(e) ==
  \* an operation that reported an error (bad content, cancelled context before anything was written) need not have
  \* created a layout where there was none; one that reported success or is a repetition must leave a marker
  /\ bad' = Failing(<< <<e.n # k, "seq">> >> \o StateChecks(e, estM \/ e.ok = 1 \/ e.second = 1, estI)
                    \o FreshChecks(e, estM \/ e.ok = 1 \/ e.second = 1, estI)
                    \o (IF e.second = 1 THEN GoalChecks(e, "O6")
                        ELSE IF e.ok = 1 THEN GoalChecks(e, "O5") ELSE << >>))     \* O5 speaks of operations that returned success
  /\ UNCHANGED <<pre, tgt, op, estM, estI, k>>

\* crash state k followed by ANOTHER operation that should complete the content (e.kind2 = import / copy of
\* image e.opobj2 under tag e.optag2, run by a new process; e.ok = 1: it returned success).  A crash state is a
\* valid layout, so whatever is done to it next is an ordinary operation on a populated layout: no tag that
\* neither operation names may change (O3), every tag present must have all its parts (O4), and when the
\* follow-up returned success its tag resolves to its image (O5 of the follow-up)
PFollow(e) ==
  LET cur == Tab(e.tag_t, e.tag_d)
      res == Tab(e.res_t, e.res_d)
      X == Range(e.tgt2)
      tagged == e.optag2 \in DOMAIN cur /\ cur[e.optag2] = e.opobj2 /\ e.optag2 \in DOMAIN res /\ res[e.optag2] = e.opobj2
      em == estM \/ e.ok = 1        \* a successful operation leaves a layout, whatever was there before
      ei == estI \/ e.ok = 1
  IN /\ bad' = Failing(<< <<e.k # k, "seq">> >> \o StateChecksX(e, em, ei, X) \o FreshChecksX(e, em, ei, X)
                       \o << <<e.ok = 1 /\ ~tagged, "O5-follow-tag">> >>)
     /\ UNCHANGED <<pre, tgt, op, estM, estI, k>>

\* INTERRUPTION WITHOUT DEATH: the k-th mutating system call returned an error (disk full, file size limit,
\* descriptor table full, permission, I/O error) or the caller's context was cancelled / the connection to the
\* source failed, and the writing process LIVED ON through its error path and returned (e.ok = 1: it even reported
\* success).  Everything that process did after the error it might also not have done (it can die at any
\* instant of its error path), so the directory it leaves is judged exactly like a crash state by both observers
\* (O1-O4); when it returned success the operation must be fully visible (O5).  The repetition of the operation by
\* a new process on that directory (event "fretry") is PRetry: O1-O4 and O6.
PFault(e) ==
  /\ bad' = Failing(<< <<e.k # k, "seq">> >> \o StateChecks(e, estM, estI) \o FreshChecks(e, estM, estI)
                    \o (IF e.ok = 1 THEN GoalChecks(e, "O5") ELSE << >>))
  /\ UNCHANGED <<pre, tgt, op, estM, estI, k>>

PUnknown == bad' = <<"unknown-event">> /\ UNCHANGED <<pre, tgt, op, estM, estI, k>>

Ok == bad = <<>>
=============================================================================

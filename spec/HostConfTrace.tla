---------------------------- MODULE HostConfTrace ----------------------------
(***************************************************************************)
(* X04 - trace spec: replays an ndjson log recorded by harness/cmd/x04drv  *)
(* from the real regclient through the monitor HostConfProp.  One event    *)
(* per line, every trace starts with a reset line.  Host records and       *)
(* observations are JSON objects (always with all their fields).           *)
(*   default  {d}                    regclient.WithConfigHostDefault(d)    *)
(*   host     {e}                    one entry of regclient.WithConfigHost *)
(*   file     {e}                    one hosts entry of a regctl config    *)
(*                                   file as written (name = its key)      *)
(*   dentry   {key,user,pass,token,helper}  one entry of a docker config   *)
(*                                   file given to WithDockerCredsFile, as *)
(*                                   written                               *)
(*   req      {kind,r,o}             one registry address contacted while  *)
(*                                   rc.Ping (kind ping) / rc.ManifestHead *)
(*                                   (kind head) ran for registry r        *)
(*   done     {kind,r,addrs}         end of that call                      *)
(*   tls      {r,o}                  one rc.Ping through real TLS          *)
(*   merge    {b,n,a}                a = b after b.Merge(n)                *)
(*   newname  {hasdef,d,n,r}         r = HostNewDefName(d, n)              *)
(*   json     {h,h2,hdoc,hread,stable}  h2 = Unmarshal(Marshal(h)), ...      *)
(*   TSpec     stops at the first violated obligation (INVARIANT Ok)       *)
(*   TSpecAll  prints <<"REJ", trace, line, obligation>> and goes on       *)
(***************************************************************************)
EXTENDS HostConfProp, Json, IOUtils
Log == ndJsonDeserialize(IOEnv.VERIF_TRACE)
VARIABLES l, tid
Ev == Log[l]
AsSet(x) == IF DOMAIN x = {} THEN {} ELSE {x[i] : i \in DOMAIN x}
TInit == PInit /\ l = 1 /\ tid = ""
TNext ==
  /\ l <= Len(Log)
  /\ l' = l + 1
  /\ tid' = IF Ev.ev = "reset" THEN Ev.trace ELSE tid
  /\ \/ Ev.ev = "reset" /\ PReset
     \/ Ev.ev = "default" /\ PDefault(Ev.d)
     \/ Ev.ev = "host" /\ PSrcHost(Ev.e)
     \/ Ev.ev = "file" /\ PSrcFile(Ev.e)
     \/ Ev.ev = "dentry" /\ PSrcDocker(Ev.key, Ev.user, Ev.pass, Ev.token, Ev.helper)
     \/ Ev.ev = "req" /\ PReq(Ev.kind, Ev.r, Ev.o)
     \/ Ev.ev = "done" /\ PDone(Ev.kind, Ev.r, AsSet(Ev.addrs))
     \/ Ev.ev = "tls" /\ PTls(Ev.r, Ev.o)
     \/ Ev.ev = "merge" /\ PMerge(Ev.b, Ev.n, Ev.a)
     \/ Ev.ev = "newname" /\ PNewName(Ev.hasdef, Ev.d, Ev.n, Ev.r)
     \/ Ev.ev = "json" /\ PJson(Ev.h, Ev.h2, Ev.hdoc, Ev.hread, Ev.stable)
     \/ Ev.ev = "note" /\ PNote
TSpec == TInit /\ [][TNext]_<<pvars, l, tid>>
TNextAll ==
  IF bad # ""
  THEN /\ PrintT(<<"REJ", tid, l - 1, bad>>)
       /\ bad' = ""
       /\ UNCHANGED <<ps, l, tid>>
  ELSE TNext
TSpecAll == TInit /\ [][TNextAll]_<<pvars, l, tid>>
HW == TLCSet(1, IF TLCGet(1) > l THEN TLCGet(1) ELSE l)
Accepted == PrintT(<<"HIGHWATER", TLCGet(1), Len(Log)>>)
ASSUME TLCSet(1, 0)
=============================================================================

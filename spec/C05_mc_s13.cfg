INIT Init
NEXT Next
CONSTANTS
 Confs <- S13Confs
 MaxPartial = 1
 MaxFaults = 0
 DefChunk = 2
 ChunkLimit = 6
 RetryLimit = 10
 HttpRetries = 5
 IgnoreInvalidDigest = FALSE
INVARIANTS O1 O2 NoMinViolation

INIT GInit
NEXT GNext
INVARIANTS Emit
CONSTRAINT Bounded
CHECK_DEADLOCK FALSE
CONSTANTS
 Hosts <- H1
 CredOf <- CredUP
 Reqs <- ReqsA
 NProcs = 1
 NCalls = 2
 RegMoods <- MoodsAll
 TokKinds <- KindsAll
 Budget = 1
 RetryLimit = 5
 MaxTok = 6
 Fix <- TreeFix
 Mut = {}

---------------------------- MODULE HostConfDefs ----------------------------
(***************************************************************************)
(* X04 - shared vocabulary of the host-configuration specs.                *)
(*                                                                         *)
(* A host record abstracts config.Host (/repo/config/host.go, type Host):  *)
(*   name tls hostname user pass token helper expire credhost prefix       *)
(*   mirrors prio repoauth ao1 ao2 chunk bmax rps conc regcert ccert ckey   *)
(*   api scheme                                                             *)
(* String fields keep the Go value ("" = not given); tls is the            *)
(* MarshalText form of TLSConf ("" = TLSUndefined).  Deviations:           *)
(*  - APIOpts is a map in Go; here two fixed keys k1, k2 (fields ao1, ao2, *)
(*    "" = key absent).  nil and empty maps are not told apart.            *)
(*  - Mirrors ([]string) is a comma joined string; MirrorSet gives the     *)
(*    set of names.  CredExpire is a small int (hours).  RepoAuth is 0/1.  *)
(*  - ReqPerSec (float64) only takes integral values.                      *)
(*  - credRefresh (the time of the next helper call) is not modelled: the  *)
(*    drivers use every client for one request.                            *)
(*  - Go strings are arbitrary; TLC has no string functions, so the name   *)
(*    universe is finite and the string functions of the code              *)
(*    (config.parseName, strings.Trim) are tables over that universe.      *)
(***************************************************************************)
EXTENDS Integers, Sequences, FiniteSets, TLC

DockerName == "docker.io"
DockerDNS  == "registry-1.docker.io"
DockerAuth == "https://index.docker.io/v1/"
DockerLegacy == "index.docker.io"

StrFields == {"tls", "hostname", "user", "pass", "token", "helper", "credhost", "prefix", "mirrors",
              "ao1", "ao2", "regcert", "ccert", "ckey", "api", "scheme"}
IntFields == {"expire", "prio", "repoauth", "chunk", "bmax", "rps", "conc"}
Fields == StrFields \cup IntFields          \* all but name

\* the zero value of config.Host
Z == [name |-> "", tls |-> "", hostname |-> "", user |-> "", pass |-> "", token |-> "", helper |-> "",
      expire |-> 0, credhost |-> "", prefix |-> "", mirrors |-> "", prio |-> 0, repoauth |-> 0,
      ao1 |-> "", ao2 |-> "", chunk |-> 0, bmax |-> 0, rps |-> 0, conc |-> 0,
      regcert |-> "", ccert |-> "", ckey |-> "", api |-> "", scheme |-> ""]

NoDef == [none |-> TRUE]                    \* "no WithConfigHostDefault" (a nil *config.Host)

\* ---------------------------------------------------------------- names
\* The finite universe of registry names as a user may write them.
\*   r1.test r2.test m1.test u.test alt.test : plain registries
\*   http://r1.test https://r2.test http://r1.test/ : docker config.json style keys
\*   r1.test/ns : a key with a repository path (not a registry)
BareRegs == {"r1.test", "r2.test", "m1.test", "u.test", "alt.test"}
Names == BareRegs \cup {"", "http://r1.test", "https://r2.test", "http://r1.test/", "r1.test/ns",
                        DockerName, DockerDNS, DockerAuth, DockerLegacy}

\* strings.Trim(prefix, "/") of config.Host.Merge over the prefix universe
TrimSlash(p) == CASE p = "/pp/" -> "pp" [] p = "pp/" -> "pp" [] OTHER -> p

\* the set of names in a comma joined mirror list
MirrorSet(m) == CASE m = "" -> {}
                  [] m = "m1.test" -> {"m1.test"}
                  [] m = "r2.test" -> {"r2.test"}
                  [] m = "m1.test,r2.test" -> {"m1.test", "r2.test"}
                  [] m = "r2.test,m1.test" -> {"m1.test", "r2.test"}
                  [] m = "u.test" -> {"u.test"}
                  [] m = DockerName -> {DockerName}
                  [] OTHER -> {}

\* TLS material is named by labels: the server of address a presents a certificate that only
\* the CA certificate labelled CertOf(a) vouches for; client certificate cc pairs with key KeyOf(cc)
CertOf(a) == CASE a = "r1.test" -> "ca-r1.test" [] a = "r2.test" -> "ca-r2.test"
               [] a = "alt.test" -> "ca-alt.test" [] a = "u.test" -> "ca-u.test"
               [] a = "m1.test" -> "ca-m1.test" [] OTHER -> "ca-other"
KeyOf(cc) == CASE cc = "cc1" -> "ck1" [] cc = "cc2" -> "ck2" [] OTHER -> "none"

TLSRank(t) == CASE t \in {"", "enabled"} -> 2 [] t = "insecure" -> 1 [] t = "disabled" -> 0
=============================================================================

CONSTANTS
 Space = "s14"
 Scenarios <- SpaceScns
 Anchoring = "fixed"
 PlatMatch = "fixed"
 Chars <- CharsDef
 NameOrder <- NameOrderDef
INIT Init
NEXT Next
INVARIANTS PostOk BackupOk ThrottleBound HeldInSection CheckWritesNothing

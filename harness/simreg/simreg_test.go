package simreg_test

// The acceptance test of the model: the REAL regclient client code is driven against
// simreg, and the model's state and request log are checked afterwards.  The second half
// of the file talks plain HTTP to the model for the corners regclient does not reach.

import (
	"bytes"
	"context"
	"encoding/json"
	"errors"
	"fmt"
	"io"
	"net/http"
	"reflect"
	"sort"
	"strings"
	"sync"
	"testing"
	"time"

	"github.com/opencontainers/go-digest"

	"github.com/regclient/regclient"
	"github.com/regclient/regclient/config"
	"github.com/regclient/regclient/scheme"
	"github.com/regclient/regclient/scheme/reg"
	"github.com/regclient/regclient/types/descriptor"
	"github.com/regclient/regclient/types/manifest"
	"github.com/regclient/regclient/types/mediatype"
	v1 "github.com/regclient/regclient/types/oci/v1"
	"github.com/regclient/regclient/types/platform"
	"github.com/regclient/regclient/types/ref"
	"github.com/regclient/regclient/zzverif/simreg"
)

const (
	hostA = "a.test"
	hostB = "b.test:5000"
)

// ---------------------------------------------------------------------------
// helpers
// ---------------------------------------------------------------------------

type env struct {
	net  *simreg.Net
	a, b *simreg.Host
	rc   *regclient.RegClient
}

func setup(t *testing.T, fa, fb simreg.Features, opts ...regclient.Opt) *env {
	t.Helper()
	n := simreg.NewNet()
	e := &env{net: n, a: n.AddHost(hostA, fa), b: n.AddHost(hostB, fb)}
	e.rc = newClient(n, opts...)
	return e
}

func newClient(n *simreg.Net, opts ...regclient.Opt) *regclient.RegClient {
	all := []regclient.Opt{
		regclient.WithConfigHost(
			config.Host{Name: hostA, Hostname: hostA, TLS: config.TLSDisabled},
			config.Host{Name: hostB, Hostname: hostB, TLS: config.TLSDisabled},
		),
		regclient.WithRegOpts(reg.WithHTTPClient(n.Client()), reg.WithDelay(time.Millisecond, 5*time.Millisecond)),
	}
	return regclient.New(append(all, opts...)...)
}

func mkRef(t *testing.T, s string) ref.Ref {
	t.Helper()
	r, err := ref.New(s)
	if err != nil {
		t.Fatalf("ref %q: %v", s, err)
	}
	return r
}

func pattern(n int, seed byte) []byte {
	b := make([]byte, n)
	for i := range b {
		b[i] = byte(i)*7 + seed
	}
	return b
}

func descOf(mt string, b []byte) descriptor.Descriptor {
	return descriptor.Descriptor{MediaType: mt, Digest: digest.FromBytes(b), Size: int64(len(b))}
}

// classes returns the Class of every log entry (optionally only those of one host).
func classes(log []*simreg.Request, host string) []string {
	out := []string{}
	for _, rq := range log {
		if host == "" || rq.Host == host {
			out = append(out, rq.Class)
		}
	}
	return out
}

func filter(log []*simreg.Request, class string) []*simreg.Request {
	out := []*simreg.Request{}
	for _, rq := range log {
		if rq.Class == class {
			out = append(out, rq)
		}
	}
	return out
}

func dumpLog(t *testing.T, log []*simreg.Request) {
	t.Helper()
	for _, rq := range log {
		t.Logf("#%d %s %s %s -> %d class=%s repo=%s ref=%s mut=%v fault=%v note=%q", rq.Seq, rq.Host, rq.Method, rq.URL, rq.Status, rq.Class, rq.Repo, rq.Ref, rq.Mutated, rq.Faulted, rq.Note)
	}
}

// img is a hand made image: blobs and one manifest.
type img struct {
	blobs   [][]byte
	manBody []byte
	manMT   string
	desc    descriptor.Descriptor
}

func buildImage(t *testing.T, seed byte, arch string) img {
	t.Helper()
	conf := []byte(fmt.Sprintf(`{"architecture":%q,"os":"linux","config":{"Labels":{"seed":"%d"}},"rootfs":{"type":"layers","diff_ids":[]}}`, arch, seed))
	l1, l2 := pattern(300, seed), pattern(77, seed+100)
	m := v1.Manifest{
		Versioned: v1.ManifestSchemaVersion,
		MediaType: mediatype.OCI1Manifest,
		Config:    descOf(mediatype.OCI1ImageConfig, conf),
		Layers:    []descriptor.Descriptor{descOf(mediatype.OCI1Layer, l1), descOf(mediatype.OCI1Layer, l2)},
	}
	body, err := json.Marshal(m)
	if err != nil {
		t.Fatal(err)
	}
	d := descOf(mediatype.OCI1Manifest, body)
	d.Platform = &platform.Platform{OS: "linux", Architecture: arch}
	return img{blobs: [][]byte{conf, l1, l2}, manBody: body, manMT: mediatype.OCI1Manifest, desc: d}
}

// seedImage stores an image directly in the model.
func seedImage(h *simreg.Host, repo, tag string, i img) string {
	for _, b := range i.blobs {
		h.PutBlob(repo, b)
	}
	return h.PutManifest(repo, tag, i.manMT, i.manBody)
}

func buildIndex(t *testing.T, imgs ...img) (body []byte, dig string) {
	t.Helper()
	idx := v1.Index{Versioned: v1.IndexSchemaVersion, MediaType: mediatype.OCI1ManifestList}
	for _, i := range imgs {
		idx.Manifests = append(idx.Manifests, i.desc)
	}
	body, err := json.Marshal(idx)
	if err != nil {
		t.Fatal(err)
	}
	return body, simreg.Digest("sha256", body)
}

// snapRepo digs one repository out of a snapshot (after a JSON round trip, which also
// proves that the snapshot is JSON-able).
func snapRepo(t *testing.T, h *simreg.Host, repo string) map[string]any {
	t.Helper()
	raw, err := json.Marshal(h.Snapshot())
	if err != nil {
		t.Fatalf("snapshot not JSON-able: %v", err)
	}
	var snap map[string]any
	if err := json.Unmarshal(raw, &snap); err != nil {
		t.Fatal(err)
	}
	repos := snap["repos"].(map[string]any)
	r, ok := repos[repo].(map[string]any)
	if !ok {
		t.Fatalf("repo %s missing in snapshot of %s: %s", repo, h.Name, raw)
	}
	return r
}

// assertContains checks that every blob, manifest and the given tags of src are in tgt.
func assertContains(t *testing.T, src, tgt map[string]any, tags ...string) {
	t.Helper()
	for _, kind := range []string{"blobsha", "manifests"} {
		for d, v := range src[kind].(map[string]any) {
			got, ok := tgt[kind].(map[string]any)[d]
			if !ok {
				t.Errorf("target misses %s %s", kind, d)
			} else if !reflect.DeepEqual(got, v) {
				t.Errorf("target %s %s differs: %v != %v", kind, d, got, v)
			}
		}
	}
	for _, tag := range tags {
		if tgt["tags"].(map[string]any)[tag] == nil {
			t.Errorf("target misses tag %s", tag)
		}
	}
}

func openUploads(h *simreg.Host) int {
	return h.Snapshot()["uploads"].(int)
}

// ---------------------------------------------------------------------------
// regclient against the model
// ---------------------------------------------------------------------------

func TestBlobPutGetMonolithic(t *testing.T) {
	e := setup(t, simreg.DefaultFeatures(), simreg.DefaultFeatures())
	ctx := context.Background()
	r := mkRef(t, hostA+"/proj/app")
	content := pattern(100, 1)
	d := descOf(mediatype.OCI1Layer, content)

	dOut, err := e.rc.BlobPut(ctx, r, d, bytes.NewReader(content))
	if err != nil {
		dumpLog(t, e.net.Log())
		t.Fatalf("BlobPut: %v", err)
	}
	if dOut.Digest != d.Digest {
		t.Errorf("digest %s != %s", dOut.Digest, d.Digest)
	}
	// anonymous mount attempt (202 with a session), then one PUT
	if got, want := classes(e.net.Log(), hostA), []string{"upload_post", "upload_put"}; !reflect.DeepEqual(got, want) {
		dumpLog(t, e.net.Log())
		t.Errorf("requests %v, want %v", got, want)
	}
	put := filter(e.net.Log(), "upload_put")[0]
	if put.Status != 201 || !put.Mutated || put.Query.Get("state") != "0" || put.Query.Get("digest") != d.Digest.String() {
		t.Errorf("put: status %d mutated %v query %v", put.Status, put.Mutated, put.Query)
	}
	e.a.Lock()
	stored := e.a.Repos["proj/app"].Blobs[d.Digest.String()]
	e.a.Unlock()
	if !bytes.Equal(stored, content) {
		t.Errorf("stored blob differs")
	}
	if n := openUploads(e.a); n != 0 {
		t.Errorf("%d upload sessions left open", n)
	}

	rdr, err := e.rc.BlobGet(ctx, r, d)
	if err != nil {
		t.Fatalf("BlobGet: %v", err)
	}
	got, err := io.ReadAll(rdr)
	_ = rdr.Close()
	if err != nil || !bytes.Equal(got, content) {
		t.Errorf("BlobGet content mismatch (err %v, %d bytes)", err, len(got))
	}
	if _, err := e.rc.BlobHead(ctx, r, d); err != nil {
		t.Errorf("BlobHead: %v", err)
	}
	missing := descOf(mediatype.OCI1Layer, []byte("nope"))
	if _, err := e.rc.BlobHead(ctx, r, missing); err == nil {
		t.Errorf("BlobHead of a missing blob succeeded")
	}
}

func TestBlobPutChunked(t *testing.T) {
	e := setup(t, simreg.DefaultFeatures(), simreg.DefaultFeatures(), regclient.WithBlobSize(16, 32))
	ctx := context.Background()
	r := mkRef(t, hostA+"/proj/app")
	content := pattern(100, 2)
	d := descOf(mediatype.OCI1Layer, content)
	if _, err := e.rc.BlobPut(ctx, r, d, bytes.NewReader(content)); err != nil {
		dumpLog(t, e.net.Log())
		t.Fatalf("BlobPut: %v", err)
	}
	log := e.net.Log()
	patches := filter(log, "upload_patch")
	if len(patches) != 7 { // 6*16 + 4
		dumpLog(t, log)
		t.Fatalf("%d PATCH requests, want 7", len(patches))
	}
	off := 0
	for i, p := range patches {
		if p.Status != 202 || !p.Mutated {
			t.Errorf("patch %d: status %d", i, p.Status)
		}
		if want := fmt.Sprintf("%d-%d", off, off+len(p.Body)-1); p.Header.Get("Content-Range") != want {
			t.Errorf("patch %d: Content-Range %q want %q", i, p.Header.Get("Content-Range"), want)
		}
		if want := fmt.Sprint(i); p.Query.Get("state") != want {
			t.Errorf("patch %d: state %q want %q (query of the Location must be preserved)", i, p.Query.Get("state"), want)
		}
		off += len(p.Body)
		if want := fmt.Sprintf("0-%d", off-1); p.RespHeader.Get("Range") != want {
			t.Errorf("patch %d: reply Range %q want %q", i, p.RespHeader.Get("Range"), want)
		}
	}
	puts := filter(log, "upload_put")
	if len(puts) != 1 || puts[0].Status != 201 || len(puts[0].Body) != 0 || puts[0].Query.Get("state") != "7" {
		dumpLog(t, log)
		t.Fatalf("final put wrong")
	}
	if loc := puts[0].RespHeader.Get("Location"); loc != "/v2/proj/app/blobs/"+d.Digest.String() {
		t.Errorf("Location %q", loc)
	}
	rdr, err := e.rc.BlobGet(ctx, r, d)
	if err != nil {
		t.Fatal(err)
	}
	got, _ := io.ReadAll(rdr)
	_ = rdr.Close()
	if !bytes.Equal(got, content) {
		t.Errorf("content mismatch after chunked upload")
	}
	if n := openUploads(e.a); n != 0 {
		t.Errorf("%d upload sessions left open", n)
	}
}

func TestBlobPutChunkMinLen(t *testing.T) {
	fa := simreg.DefaultFeatures()
	fa.ChunkMinLen = 40
	e := setup(t, fa, simreg.DefaultFeatures(), regclient.WithBlobSize(16, 32))
	r := mkRef(t, hostA+"/proj/app")
	content := pattern(100, 3)
	d := descOf(mediatype.OCI1Layer, content)
	if _, err := e.rc.BlobPut(context.Background(), r, d, bytes.NewReader(content)); err != nil {
		dumpLog(t, e.net.Log())
		t.Fatalf("BlobPut: %v", err)
	}
	log := e.net.Log()
	if got := filter(log, "upload_post")[0].RespHeader.Get("OCI-Chunk-Min-Length"); got != "40" {
		t.Errorf("OCI-Chunk-Min-Length %q", got)
	}
	sizes := []int{}
	for _, p := range filter(log, "upload_patch") {
		sizes = append(sizes, len(p.Body))
	}
	// the client raises its chunk size to the announced minimum; only the last is short
	if want := []int{40, 40, 20}; !reflect.DeepEqual(sizes, want) {
		dumpLog(t, log)
		t.Errorf("chunk sizes %v want %v", sizes, want)
	}
	e.a.Lock()
	_, ok := e.a.Repos["proj/app"].Blobs[d.Digest.String()]
	e.a.Unlock()
	if !ok {
		t.Errorf("blob not stored")
	}
}

func TestBlobMountAndDelete(t *testing.T) {
	e := setup(t, simreg.DefaultFeatures(), simreg.DefaultFeatures())
	ctx := context.Background()
	content := pattern(40, 4)
	d := descOf(mediatype.OCI1Layer, content)
	e.a.PutBlob("src/app", content)
	rSrc, rTgt := mkRef(t, hostA+"/src/app"), mkRef(t, hostA+"/tgt/app")
	if err := e.rc.BlobMount(ctx, rSrc, rTgt, d); err != nil {
		dumpLog(t, e.net.Log())
		t.Fatalf("BlobMount: %v", err)
	}
	if rq := e.net.Log()[0]; rq.Class != "upload_post" || rq.Status != 201 || rq.Note != "mounted" || rq.RespHeader.Get("Location") != "/v2/tgt/app/blobs/"+d.Digest.String() {
		dumpLog(t, e.net.Log())
		t.Errorf("mount request wrong")
	}
	if err := e.rc.BlobDelete(ctx, rTgt, d); err != nil {
		t.Fatalf("BlobDelete: %v", err)
	}
	e.a.Lock()
	_, inTgt := e.a.Repos["tgt/app"].Blobs[d.Digest.String()]
	_, inSrc := e.a.Repos["src/app"].Blobs[d.Digest.String()]
	e.a.Unlock()
	if inTgt || !inSrc {
		t.Errorf("after delete: in target %v, in source %v", inTgt, inSrc)
	}
	// a failed mount opens a session, which the client cancels again
	e.net.ResetLog()
	missing := descOf(mediatype.OCI1Layer, []byte("not there"))
	if err := e.rc.BlobMount(ctx, rSrc, rTgt, missing); err == nil {
		t.Errorf("mount of a missing blob succeeded")
	}
	if got, want := classes(e.net.Log(), ""), []string{"upload_post", "upload_delete"}; !reflect.DeepEqual(got, want) {
		dumpLog(t, e.net.Log())
		t.Errorf("requests %v want %v", got, want)
	}
	if n := openUploads(e.a); n != 0 {
		t.Errorf("%d upload sessions left open", n)
	}
}

func TestManifestPutGetHead(t *testing.T) {
	e := setup(t, simreg.DefaultFeatures(), simreg.DefaultFeatures())
	ctx := context.Background()
	im := buildImage(t, 5, "amd64")
	m, err := manifest.New(manifest.WithRaw(im.manBody), manifest.WithDesc(descriptor.Descriptor{MediaType: im.manMT}))
	if err != nil {
		t.Fatal(err)
	}
	rTag := mkRef(t, hostA+"/proj/app:v1")
	if err := e.rc.ManifestPut(ctx, rTag, m); err != nil {
		dumpLog(t, e.net.Log())
		t.Fatalf("ManifestPut by tag: %v", err)
	}
	dig := im.desc.Digest.String()
	rDig := mkRef(t, hostA+"/proj/app@"+dig)
	if err := e.rc.ManifestPut(ctx, rDig, m); err != nil {
		t.Fatalf("ManifestPut by digest: %v", err)
	}
	puts := filter(e.net.Log(), "manifest_put")
	if len(puts) != 2 || !puts[0].IsTag || puts[1].IsTag || !puts[0].Mutated || puts[1].Mutated {
		dumpLog(t, e.net.Log())
		t.Fatalf("manifest puts not as expected")
	}
	for _, p := range puts {
		if p.Status != 201 || p.RespHeader.Get("Docker-Content-Digest") != dig || p.RespHeader.Get("Location") != "/v2/proj/app/manifests/"+dig {
			t.Errorf("put reply: %d %v", p.Status, p.RespHeader)
		}
	}
	e.a.Lock()
	stored := e.a.Repos["proj/app"].Manifests[dig]
	tagged := e.a.Repos["proj/app"].Tags["v1"]
	e.a.Unlock()
	if !bytes.Equal(stored.Body, im.manBody) || stored.MediaType != im.manMT || tagged != dig {
		t.Errorf("stored manifest differs (mt %q, tag -> %q)", stored.MediaType, tagged)
	}

	// a fresh client, so that nothing is answered from regclient's manifest cache
	rc2 := newClient(e.net)
	for _, r := range []ref.Ref{rTag, rDig} {
		mg, err := rc2.ManifestGet(ctx, r)
		if err != nil {
			t.Fatalf("ManifestGet %s: %v", r.CommonName(), err)
		}
		raw, _ := mg.RawBody()
		if !bytes.Equal(raw, im.manBody) || mg.GetDescriptor().Digest.String() != dig || mg.GetDescriptor().MediaType != im.manMT {
			t.Errorf("ManifestGet %s: wrong content", r.CommonName())
		}
	}
	rc3 := newClient(e.net)
	for _, r := range []ref.Ref{rTag, rDig} {
		mh, err := rc3.ManifestHead(ctx, r)
		if err != nil {
			t.Fatalf("ManifestHead %s: %v", r.CommonName(), err)
		}
		if d := mh.GetDescriptor(); d.Digest.String() != dig || d.Size != int64(len(im.manBody)) || d.MediaType != im.manMT {
			t.Errorf("ManifestHead %s: %+v", r.CommonName(), d)
		}
	}
	if _, err := rc3.ManifestHead(ctx, mkRef(t, hostA+"/proj/app:nope")); err == nil {
		t.Errorf("ManifestHead of an unknown tag succeeded")
	}
	// pushing to a digest that is not the digest of the body is refused
	rBad := mkRef(t, hostA+"/proj/app@"+simreg.Digest("sha256", []byte("other")))
	if err := e.rc.ManifestPut(ctx, rBad, m); err == nil {
		t.Errorf("ManifestPut to a wrong digest succeeded")
	}
	last := e.net.Log()[len(e.net.Log())-1]
	if last.Status != 400 || last.Mutated {
		t.Errorf("wrong digest put: status %d mutated %v", last.Status, last.Mutated)
	}
}

func TestManifestHeadWithoutDigestHeader(t *testing.T) {
	fa := simreg.DefaultFeatures()
	fa.HeadDigest = false
	e := setup(t, fa, simreg.DefaultFeatures())
	im := buildImage(t, 6, "amd64")
	dig := seedImage(e.a, "proj/app", "v1", im)
	m, err := e.rc.ManifestHead(context.Background(), mkRef(t, hostA+"/proj/app:v1"), regclient.WithManifestRequireDigest())
	if err != nil {
		t.Fatal(err)
	}
	if m.GetDescriptor().Digest.String() != dig {
		t.Errorf("digest %s want %s", m.GetDescriptor().Digest, dig)
	}
	if got, want := classes(e.net.Log(), ""), []string{"manifest_head", "manifest_get"}; !reflect.DeepEqual(got, want) {
		t.Errorf("requests %v want %v", got, want)
	}
	for _, rq := range e.net.Log() {
		if rq.RespHeader.Get("Docker-Content-Digest") != "" {
			t.Errorf("Docker-Content-Digest sent although HeadDigest is off")
		}
	}
}

func TestTagListPaging(t *testing.T) {
	tags := []string{"t1", "t2", "t3", "t4", "t5"}
	for _, tc := range []struct{ pageSize, wantRequests int }{{0, 1}, {1, 5}, {2, 3}} {
		t.Run(fmt.Sprintf("page%d", tc.pageSize), func(t *testing.T) {
			fa := simreg.DefaultFeatures()
			fa.PageSize = tc.pageSize
			e := setup(t, fa, simreg.DefaultFeatures())
			im := buildImage(t, 7, "amd64")
			for _, tag := range tags {
				seedImage(e.a, "proj/app", tag, im)
			}
			tl, err := e.rc.TagList(context.Background(), mkRef(t, hostA+"/proj/app"))
			if err != nil {
				dumpLog(t, e.net.Log())
				t.Fatalf("TagList: %v", err)
			}
			got, err := tl.GetTags()
			if err != nil {
				t.Fatal(err)
			}
			if !reflect.DeepEqual(got, tags) {
				t.Errorf("tags %v want %v", got, tags)
			}
			reqs := filter(e.net.Log(), "tag_list")
			if len(reqs) != tc.wantRequests {
				dumpLog(t, e.net.Log())
				t.Errorf("%d requests want %d", len(reqs), tc.wantRequests)
			}
			for i, rq := range reqs {
				hasLink := rq.RespHeader.Get("Link") != ""
				if hasLink != (i < len(reqs)-1) {
					t.Errorf("request %d: Link %q", i, rq.RespHeader.Get("Link"))
				}
			}
		})
	}
	t.Run("client-limit", func(t *testing.T) {
		fa := simreg.DefaultFeatures()
		fa.PageSize = 3
		e := setup(t, fa, simreg.DefaultFeatures())
		im := buildImage(t, 7, "amd64")
		for _, tag := range tags {
			seedImage(e.a, "proj/app", tag, im)
		}
		tl, err := e.rc.TagList(context.Background(), mkRef(t, hostA+"/proj/app"), scheme.WithTagLimit(2), scheme.WithTagLast("t1"))
		if err != nil {
			t.Fatal(err)
		}
		got, _ := tl.GetTags()
		if want := []string{"t2", "t3"}; !reflect.DeepEqual(got, want) {
			t.Errorf("tags %v want %v", got, want)
		}
	})
	t.Run("unknown-repo", func(t *testing.T) {
		e := setup(t, simreg.DefaultFeatures(), simreg.DefaultFeatures())
		if _, err := e.rc.TagList(context.Background(), mkRef(t, hostA+"/no/such")); err == nil {
			t.Errorf("TagList of an unknown repo succeeded")
		}
	})
}

func TestRepoListPaging(t *testing.T) {
	fa := simreg.DefaultFeatures()
	fa.PageSize = 2
	e := setup(t, fa, simreg.DefaultFeatures())
	for _, repo := range []string{"c", "a/b", "a", "d/e/f"} {
		e.a.Repo(repo)
	}
	rl, err := e.rc.RepoList(context.Background(), hostA)
	if err != nil {
		t.Fatal(err)
	}
	got, _ := rl.GetRepos()
	if want := []string{"a", "a/b"}; !reflect.DeepEqual(got, want) {
		t.Errorf("repos %v want %v", got, want)
	}
	rq := e.net.Log()[0]
	if rq.Class != "catalog" || rq.RespHeader.Get("Link") != `</v2/_catalog?n=2&last=a%2Fb>; rel="next"` {
		t.Errorf("class %s link %q", rq.Class, rq.RespHeader.Get("Link"))
	}
	rl, err = e.rc.RepoList(context.Background(), hostA, scheme.WithRepoLast("a/b"))
	if err != nil {
		t.Fatal(err)
	}
	got, _ = rl.GetRepos()
	if want := []string{"c", "d/e/f"}; !reflect.DeepEqual(got, want) {
		t.Errorf("repos %v want %v", got, want)
	}
}

func TestTagDelete(t *testing.T) {
	for _, supported := range []bool{true, false} {
		t.Run(fmt.Sprintf("tagdelete=%v", supported), func(t *testing.T) {
			fa := simreg.DefaultFeatures()
			fa.TagDelete = supported
			e := setup(t, fa, simreg.DefaultFeatures())
			im := buildImage(t, 8, "amd64")
			dig := seedImage(e.a, "proj/app", "v1", im)
			seedImage(e.a, "proj/app", "keep", im)
			if err := e.rc.TagDelete(context.Background(), mkRef(t, hostA+"/proj/app:v1")); err != nil {
				dumpLog(t, e.net.Log())
				t.Fatalf("TagDelete: %v", err)
			}
			log := e.net.Log()
			e.a.Lock()
			repo := e.a.Repos["proj/app"]
			_, tagLeft := repo.Tags["v1"]
			keep := repo.Tags["keep"]
			_, manLeft := repo.Manifests[dig]
			nMan := len(repo.Manifests)
			e.a.Unlock()
			if tagLeft || keep != dig || !manLeft || nMan != 1 {
				dumpLog(t, log)
				t.Errorf("after delete: tag left %v, keep -> %s, manifest left %v, %d manifests", tagLeft, keep, manLeft, nMan)
			}
			first := log[0]
			if first.Class != "manifest_delete" || !first.IsTag {
				t.Fatalf("first request is %s", first.Class)
			}
			if supported {
				if len(log) != 1 || first.Status != 202 || !first.Mutated {
					dumpLog(t, log)
					t.Errorf("expected a single 202")
				}
				return
			}
			// fallback: the tag is overwritten with a dummy manifest, which is then deleted by digest
			if first.Status != 405 || first.Mutated || !strings.Contains(first.Note, "tag delete") {
				t.Errorf("first reply %d note %q", first.Status, first.Note)
			}
			dels := filter(log, "manifest_delete")
			lastDel := dels[len(dels)-1]
			puts := filter(log, "manifest_put")
			if len(puts) != 1 || lastDel.IsTag || lastDel.Status != 202 || lastDel.Ref != puts[0].RespHeader.Get("Docker-Content-Digest") {
				dumpLog(t, log)
				t.Errorf("fallback sequence not as expected")
			}
		})
	}
}

func TestManifestDelete(t *testing.T) {
	for _, supported := range []bool{true, false} {
		t.Run(fmt.Sprintf("manifestdelete=%v", supported), func(t *testing.T) {
			fa := simreg.DefaultFeatures()
			fa.ManifestDelete = supported
			e := setup(t, fa, simreg.DefaultFeatures())
			im, other := buildImage(t, 9, "amd64"), buildImage(t, 10, "amd64")
			dig := seedImage(e.a, "proj/app", "v1", im)
			seedImage(e.a, "proj/app", "v2", im)
			seedImage(e.a, "proj/app", "other", other)
			err := e.rc.ManifestDelete(context.Background(), mkRef(t, hostA+"/proj/app@"+dig))
			e.a.Lock()
			repo := e.a.Repos["proj/app"]
			tags := []string{}
			for tag := range repo.Tags {
				tags = append(tags, tag)
			}
			sort.Strings(tags)
			_, manLeft := repo.Manifests[dig]
			e.a.Unlock()
			if supported {
				if err != nil || manLeft || !reflect.DeepEqual(tags, []string{"other"}) {
					t.Errorf("err %v, manifest left %v, tags %v", err, manLeft, tags)
				}
				if err := e.rc.ManifestDelete(context.Background(), mkRef(t, hostA+"/proj/app@"+dig)); err == nil {
					t.Errorf("second delete succeeded")
				}
			} else {
				rq := e.net.Log()[0]
				if err == nil || !manLeft || len(tags) != 3 || rq.Status != 405 || !bytes.Contains(mustBody(t, e, rq), []byte("UNSUPPORTED")) {
					t.Errorf("err %v, manifest left %v, tags %v, status %d", err, manLeft, tags, rq.Status)
				}
			}
		})
	}
}

// mustBody replays a logged request with plain HTTP and returns the reply body (the log
// does not keep reply bodies).
func mustBody(t *testing.T, e *env, rq *simreg.Request) []byte {
	t.Helper()
	req, err := http.NewRequest(rq.Method, rq.URL, bytes.NewReader(rq.Body))
	if err != nil {
		t.Fatal(err)
	}
	resp, err := e.net.Client().Do(req)
	if err != nil {
		t.Fatal(err)
	}
	defer resp.Body.Close()
	b, _ := io.ReadAll(resp.Body)
	return b
}

func TestImageCopy(t *testing.T) {
	amd, arm := buildImage(t, 11, "amd64"), buildImage(t, 12, "arm64")
	idxBody, idxDig := buildIndex(t, amd, arm)
	seed := func(e *env) {
		seedImage(e.a, "src/app", "v1", amd)
		seedImage(e.a, "src/app", "", arm)
		e.a.PutManifest("src/app", "multi", mediatype.OCI1ManifestList, idxBody)
	}

	t.Run("between-hosts", func(t *testing.T) {
		e := setup(t, simreg.DefaultFeatures(), simreg.DefaultFeatures())
		seed(e)
		ctx := context.Background()
		if err := e.rc.ImageCopy(ctx, mkRef(t, hostA+"/src/app:v1"), mkRef(t, hostB+"/dst/app:v1")); err != nil {
			dumpLog(t, e.net.Log())
			t.Fatalf("ImageCopy image: %v", err)
		}
		tgt := snapRepo(t, e.b, "dst/app")
		if n := len(tgt["blobs"].(map[string]any)); n != 3 {
			t.Errorf("%d blobs in target, want 3", n)
		}
		if tgt["tags"].(map[string]any)["v1"] != amd.desc.Digest.String() {
			t.Errorf("tag v1 -> %v", tgt["tags"].(map[string]any)["v1"])
		}
		if err := e.rc.ImageCopy(ctx, mkRef(t, hostA+"/src/app:multi"), mkRef(t, hostB+"/dst/app:multi")); err != nil {
			dumpLog(t, e.net.Log())
			t.Fatalf("ImageCopy index: %v", err)
		}
		tgt = snapRepo(t, e.b, "dst/app")
		assertContains(t, snapRepo(t, e.a, "src/app"), tgt, "v1", "multi")
		if tgt["tags"].(map[string]any)["multi"] != idxDig {
			t.Errorf("tag multi -> %v", tgt["tags"].(map[string]any)["multi"])
		}
		// the source was only read, and the target received every manifest after its blobs
		stored := map[string]bool{}
		for _, rq := range e.net.Log() {
			if rq.Host == hostA && rq.Mutated {
				t.Errorf("source mutated by %s %s", rq.Method, rq.URL)
			}
			if rq.Host != hostB || rq.Status/100 != 2 {
				continue
			}
			switch rq.Class {
			case "upload_put":
				stored[rq.Query.Get("digest")] = true
			case "manifest_put":
				var m struct {
					Config *descriptor.Descriptor
					Layers []descriptor.Descriptor
				}
				_ = json.Unmarshal(rq.Body, &m)
				if m.Config != nil {
					for _, d := range append(m.Layers, *m.Config) {
						if !stored[d.Digest.String()] {
							t.Errorf("manifest %s pushed before blob %s", rq.Ref, d.Digest)
						}
					}
				}
			}
		}
		if n := openUploads(e.b); n != 0 {
			t.Errorf("%d upload sessions left open", n)
		}
	})

	t.Run("same-host-mount", func(t *testing.T) {
		e := setup(t, simreg.DefaultFeatures(), simreg.DefaultFeatures())
		seed(e)
		if err := e.rc.ImageCopy(context.Background(), mkRef(t, hostA+"/src/app:multi"), mkRef(t, hostA+"/other/copy:multi")); err != nil {
			dumpLog(t, e.net.Log())
			t.Fatalf("ImageCopy: %v", err)
		}
		assertContains(t, snapRepo(t, e.a, "src/app"), snapRepo(t, e.a, "other/copy"), "multi")
		mounted := 0
		for _, rq := range e.net.Log() {
			if rq.Class == "upload_post" && rq.Note == "mounted" {
				mounted++
				if rq.Status != 201 || rq.Query.Get("from") != "src/app" || !rq.Mutated {
					t.Errorf("mount reply %d from %q", rq.Status, rq.Query.Get("from"))
				}
			}
			if rq.Class == "blob_get" || rq.Class == "upload_put" || rq.Class == "upload_patch" {
				t.Errorf("blob content moved through the client: %s %s", rq.Method, rq.URL)
			}
		}
		if mounted != 6 {
			dumpLog(t, e.net.Log())
			t.Errorf("%d mounts, want 6", mounted)
		}
	})

	t.Run("same-host-no-mount", func(t *testing.T) {
		fa := simreg.DefaultFeatures()
		fa.Mount = false
		e := setup(t, fa, simreg.DefaultFeatures())
		seed(e)
		if err := e.rc.ImageCopy(context.Background(), mkRef(t, hostA+"/src/app:v1"), mkRef(t, hostA+"/other/copy:v1")); err != nil {
			dumpLog(t, e.net.Log())
			t.Fatalf("ImageCopy: %v", err)
		}
		tgt := snapRepo(t, e.a, "other/copy")
		if len(tgt["blobs"].(map[string]any)) != 3 || tgt["tags"].(map[string]any)["v1"] != amd.desc.Digest.String() {
			t.Errorf("target incomplete: %v", tgt)
		}
		for _, rq := range filter(e.net.Log(), "upload_post") {
			if rq.Status != 202 {
				t.Errorf("POST answered %d although mount is off", rq.Status)
			}
		}
		if n := openUploads(e.a); n != 0 {
			t.Errorf("%d upload sessions left open", n)
		}
	})
}

func TestReferrers(t *testing.T) {
	for _, api := range []bool{true, false} {
		t.Run(fmt.Sprintf("api=%v", api), func(t *testing.T) {
			fa := simreg.DefaultFeatures()
			fa.ReferrersAPI = api
			e := setup(t, fa, simreg.DefaultFeatures())
			ctx := context.Background()
			subject := buildImage(t, 13, "amd64")
			subjDig := seedImage(e.a, "proj/app", "v1", subject)
			rRepo := mkRef(t, hostA+"/proj/app")

			sbom := []byte(`{"sbom":"nothing in here"}`)
			for _, b := range [][]byte{sbom, descriptor.EmptyData} {
				if _, err := e.rc.BlobPut(ctx, rRepo, descOf("", b), bytes.NewReader(b)); err != nil {
					t.Fatalf("BlobPut: %v", err)
				}
			}
			art := v1.Manifest{
				Versioned:    v1.ManifestSchemaVersion,
				MediaType:    mediatype.OCI1Manifest,
				ArtifactType: "application/vnd.example.sbom",
				Config:       descOf(mediatype.OCI1Empty, descriptor.EmptyData),
				Layers:       []descriptor.Descriptor{descOf("application/vnd.example.sbom.layer", sbom)},
				Subject:      &descriptor.Descriptor{MediaType: subject.manMT, Digest: subject.desc.Digest, Size: subject.desc.Size},
				Annotations:  map[string]string{"org.example.kind": "sbom"},
			}
			m, err := manifest.New(manifest.WithOrig(art))
			if err != nil {
				t.Fatal(err)
			}
			artDig := m.GetDescriptor().Digest.String()
			e.net.ResetLog()
			if err := e.rc.ManifestPut(ctx, rRepo.SetDigest(artDig), m); err != nil {
				dumpLog(t, e.net.Log())
				t.Fatalf("ManifestPut artifact: %v", err)
			}
			putLog := e.net.Log()
			fallbackTag := "sha256-" + strings.TrimPrefix(subjDig, "sha256:")
			e.a.Lock()
			fbDig, hasFallback := e.a.Repos["proj/app"].Tags[fallbackTag]
			e.a.Unlock()
			if api {
				if len(putLog) != 1 || putLog[0].RespHeader.Get("OCI-Subject") != subjDig {
					dumpLog(t, putLog)
					t.Errorf("expected a single put answered with OCI-Subject")
				}
				if hasFallback {
					t.Errorf("fallback tag pushed although the referrers API is on")
				}
			} else {
				if putLog[0].RespHeader.Get("OCI-Subject") != "" {
					t.Errorf("OCI-Subject sent although the referrers API is off")
				}
				if !hasFallback {
					dumpLog(t, putLog)
					t.Fatalf("fallback tag %s not maintained", fallbackTag)
				}
				e.a.Lock()
				fb := e.a.Repos["proj/app"].Manifests[fbDig]
				e.a.Unlock()
				if fb.MediaType != mediatype.OCI1ManifestList || !bytes.Contains(fb.Body, []byte(artDig)) {
					t.Errorf("fallback index wrong: %s %s", fb.MediaType, fb.Body)
				}
			}

			// list with a fresh client (no referrer cache)
			rc2 := newClient(e.net)
			e.net.ResetLog()
			rl, err := rc2.ReferrerList(ctx, mkRef(t, hostA+"/proj/app:v1"))
			if err != nil {
				dumpLog(t, e.net.Log())
				t.Fatalf("ReferrerList: %v", err)
			}
			if len(rl.Descriptors) != 1 {
				dumpLog(t, e.net.Log())
				t.Fatalf("%d referrers, want 1", len(rl.Descriptors))
			}
			d := rl.Descriptors[0]
			if d.Digest.String() != artDig || d.ArtifactType != "application/vnd.example.sbom" || d.Annotations["org.example.kind"] != "sbom" || d.MediaType != mediatype.OCI1Manifest {
				t.Errorf("descriptor %+v", d)
			}
			refReqs := filter(e.net.Log(), "referrers")
			if len(refReqs) == 0 {
				t.Fatalf("no referrers request seen")
			}
			if api && (refReqs[0].Status != 200 || refReqs[0].RespHeader.Get("Content-Type") != mediatype.OCI1ManifestList) {
				t.Errorf("referrers reply %d %s", refReqs[0].Status, refReqs[0].RespHeader.Get("Content-Type"))
			}
			if !api && refReqs[0].Status != 404 {
				t.Errorf("referrers reply %d although the API is off", refReqs[0].Status)
			}

			// server side filter
			if api {
				rc3 := newClient(e.net)
				e.net.ResetLog()
				rl, err := rc3.ReferrerList(ctx, mkRef(t, hostA+"/proj/app@"+subjDig), scheme.WithReferrerMatchOpt(descriptor.MatchOpt{ArtifactType: "application/vnd.other"}))
				if err != nil {
					t.Fatal(err)
				}
				rq := filter(e.net.Log(), "referrers")[0]
				if len(rl.Descriptors) != 0 || rq.RespHeader.Get("OCI-Filters-Applied") != "artifactType" {
					t.Errorf("filtered list: %d entries, header %q", len(rl.Descriptors), rq.RespHeader.Get("OCI-Filters-Applied"))
				}
			}
		})
	}
}

func TestReferrersPaging(t *testing.T) {
	fa := simreg.DefaultFeatures()
	fa.PageSize = 2
	e := setup(t, fa, simreg.DefaultFeatures())
	subject := buildImage(t, 14, "amd64")
	subjDig := seedImage(e.a, "proj/app", "v1", subject)
	want := []string{}
	for i := 0; i < 5; i++ {
		art := v1.Manifest{
			Versioned:   v1.ManifestSchemaVersion,
			MediaType:   mediatype.OCI1Manifest,
			Config:      descOf("application/vnd.example.config", descriptor.EmptyData),
			Layers:      []descriptor.Descriptor{descOf(mediatype.OCI1Empty, descriptor.EmptyData)},
			Subject:     &descriptor.Descriptor{MediaType: subject.manMT, Digest: subject.desc.Digest, Size: subject.desc.Size},
			Annotations: map[string]string{"n": fmt.Sprint(i)},
		}
		body, _ := json.Marshal(art)
		want = append(want, e.a.PutManifest("proj/app", "", mediatype.OCI1Manifest, body))
	}
	sort.Strings(want)
	rl, err := e.rc.ReferrerList(context.Background(), mkRef(t, hostA+"/proj/app@"+subjDig))
	if err != nil {
		dumpLog(t, e.net.Log())
		t.Fatal(err)
	}
	got := []string{}
	for _, d := range rl.Descriptors {
		got = append(got, d.Digest.String())
		if d.ArtifactType != "application/vnd.example.config" { // falls back to config.mediaType
			t.Errorf("artifactType %q", d.ArtifactType)
		}
	}
	if !reflect.DeepEqual(got, want) {
		t.Errorf("referrers %v want %v", got, want)
	}
	if n := len(filter(e.net.Log(), "referrers")); n != 3 {
		dumpLog(t, e.net.Log())
		t.Errorf("%d requests want 3", n)
	}
}

func TestTruncateAndRangeResume(t *testing.T) {
	e := setup(t, simreg.DefaultFeatures(), simreg.DefaultFeatures())
	content := pattern(200, 4)
	dig := e.a.PutBlob("proj/app", content)
	var once sync.Once
	e.a.Intercept = func(rq *simreg.Request) *simreg.Reply {
		var rp *simreg.Reply
		if rq.Class == "blob_get" {
			once.Do(func() { rp = &simreg.Reply{ServeThenTruncate: true, TruncateAt: 50} })
		}
		return rp
	}
	rdr, err := e.rc.BlobGet(context.Background(), mkRef(t, hostA+"/proj/app"), descriptor.Descriptor{Digest: digest.Digest(dig), Size: int64(len(content))})
	if err != nil {
		t.Fatalf("BlobGet: %v", err)
	}
	got, err := io.ReadAll(rdr)
	_ = rdr.Close()
	if err != nil || !bytes.Equal(got, content) {
		dumpLog(t, e.net.Log())
		t.Fatalf("content mismatch after resume: err %v, %d bytes", err, len(got))
	}
	log := e.net.Log()
	if len(log) != 2 {
		dumpLog(t, log)
		t.Fatalf("%d requests want 2", len(log))
	}
	if rq := log[0]; rq.Status != 200 || !rq.Truncated || rq.Faulted || rq.RespLen != 50 || rq.RespHeader.Get("Content-Length") != "200" {
		t.Errorf("first: %d trunc %v len %d cl %s", rq.Status, rq.Truncated, rq.RespLen, rq.RespHeader.Get("Content-Length"))
	}
	if rq := log[1]; rq.Status != 206 || !strings.HasPrefix(rq.Header.Get("Range"), "bytes=50-") || rq.RespHeader.Get("Content-Range") != "bytes 50-199/200" || rq.RespLen != 150 {
		t.Errorf("second: %d Range %q Content-Range %q len %d", rq.Status, rq.Header.Get("Range"), rq.RespHeader.Get("Content-Range"), rq.RespLen)
	}
}

func TestInterceptFaults(t *testing.T) {
	im := buildImage(t, 15, "amd64")
	faultOnce := func(rp *simreg.Reply) func(*simreg.Request) *simreg.Reply {
		var once sync.Once
		return func(rq *simreg.Request) *simreg.Reply {
			var out *simreg.Reply
			once.Do(func() { out = rp })
			return out
		}
	}

	t.Run("502-retried", func(t *testing.T) {
		e := setup(t, simreg.DefaultFeatures(), simreg.DefaultFeatures())
		seedImage(e.a, "proj/app", "v1", im)
		e.a.Intercept = faultOnce(&simreg.Reply{Status: 502, Body: []byte("bad gateway")})
		before := e.a.Snapshot()
		m, err := e.rc.ManifestGet(context.Background(), mkRef(t, hostA+"/proj/app:v1"))
		if err != nil {
			dumpLog(t, e.net.Log())
			t.Fatalf("ManifestGet: %v", err)
		}
		if m.GetDescriptor().Digest != im.desc.Digest {
			t.Errorf("wrong manifest")
		}
		log := e.net.Log()
		if len(log) != 2 || log[0].Status != 502 || !log[0].Faulted || log[0].Mutated || log[0].RespLen != 11 || log[1].Status != 200 || log[1].Faulted {
			dumpLog(t, log)
			t.Errorf("log not as expected")
		}
		if !reflect.DeepEqual(before, e.a.Snapshot()) {
			t.Errorf("state changed")
		}
	})

	t.Run("503", func(t *testing.T) {
		// regclient (reghttp) treats 503 as fatal for the host: unlike 429/408/500/502/504
		// it is not retried.  Only the model side is asserted here.
		e := setup(t, simreg.DefaultFeatures(), simreg.DefaultFeatures())
		seedImage(e.a, "proj/app", "v1", im)
		e.a.Intercept = faultOnce(&simreg.Reply{Status: 503, Header: http.Header{"Retry-After": {"1"}}, Body: []byte(`{"errors":[{"code":"UNAVAILABLE","message":"try later"}]}`)})
		_, err := e.rc.ManifestGet(context.Background(), mkRef(t, hostA+"/proj/app:v1"))
		log := e.net.Log()
		t.Logf("regclient on a single 503: err=%v, %d request(s)", err, len(log))
		if log[0].Status != 503 || !log[0].Faulted || log[0].RespHeader.Get("Retry-After") != "1" || log[0].Note != "fault" {
			dumpLog(t, log)
			t.Errorf("faulted entry wrong")
		}
		for _, rq := range log[1:] {
			if rq.Faulted || rq.Status != 200 {
				t.Errorf("later request faulted as well")
			}
		}
	})

	t.Run("connection-error-retried", func(t *testing.T) {
		e := setup(t, simreg.DefaultFeatures(), simreg.DefaultFeatures())
		errReset := errors.New("read: connection reset by peer")
		e.a.Intercept = faultOnce(&simreg.Reply{Err: errReset})
		content := pattern(64, 9)
		d := descOf(mediatype.OCI1Layer, content)
		if _, err := e.rc.BlobPut(context.Background(), mkRef(t, hostA+"/proj/app"), d, bytes.NewReader(content)); err != nil {
			dumpLog(t, e.net.Log())
			t.Fatalf("BlobPut: %v", err)
		}
		log := e.net.Log()
		if log[0].Status != 0 || !log[0].Faulted || log[0].Mutated || !strings.Contains(log[0].Note, "connection reset") {
			dumpLog(t, log)
			t.Errorf("first entry wrong")
		}
		e.a.Lock()
		_, ok := e.a.Repos["proj/app"].Blobs[d.Digest.String()]
		e.a.Unlock()
		if !ok {
			t.Errorf("blob missing after retry")
		}
		// and the plain client sees the very error
		e.a.Intercept = faultOnce(&simreg.Reply{Err: errReset})
		_, err := e.net.Client().Get("http://" + hostA + "/v2/")
		if !errors.Is(err, errReset) {
			t.Errorf("err %v", err)
		}
	})
}

// ---------------------------------------------------------------------------
// plain HTTP against the model
// ---------------------------------------------------------------------------

type reply struct {
	status int
	header http.Header
	body   []byte
}

func do(t *testing.T, n *simreg.Net, method, url string, hdr map[string]string, body []byte) reply {
	t.Helper()
	var rdr io.Reader
	if body != nil {
		rdr = bytes.NewReader(body)
	}
	req, err := http.NewRequest(method, url, rdr)
	if err != nil {
		t.Fatal(err)
	}
	for k, v := range hdr {
		req.Header.Set(k, v)
	}
	resp, err := n.Client().Do(req)
	if err != nil {
		t.Fatalf("%s %s: %v", method, url, err)
	}
	defer resp.Body.Close()
	b, err := io.ReadAll(resp.Body)
	if err != nil {
		t.Fatalf("%s %s: body: %v", method, url, err)
	}
	if cl := resp.Header.Get("Content-Length"); cl == "" {
		t.Errorf("%s %s: no Content-Length header", method, url)
	} else if method != "HEAD" && cl != fmt.Sprint(len(b)) {
		t.Errorf("%s %s: Content-Length %s but %d bytes", method, url, cl, len(b))
	}
	if resp.Request != req {
		t.Errorf("resp.Request not set")
	}
	return reply{resp.StatusCode, resp.Header, b}
}

func wantErrCode(t *testing.T, rp reply, status int, code string) {
	t.Helper()
	var e struct {
		Errors []struct{ Code, Message string }
	}
	if rp.status != status {
		t.Errorf("status %d want %d (%s)", rp.status, status, rp.body)
		return
	}
	if err := json.Unmarshal(rp.body, &e); err != nil || len(e.Errors) != 1 || e.Errors[0].Code != code {
		t.Errorf("error body %s, want code %s", rp.body, code)
	}
}

func TestHTTPBasics(t *testing.T) {
	n := simreg.NewNet()
	h := n.AddHost(hostA, simreg.DefaultFeatures())
	base := "http://" + hostA

	if rp := do(t, n, "GET", base+"/v2/", nil, nil); rp.status != 200 || string(rp.body) != "{}" {
		t.Errorf("ping: %d %s", rp.status, rp.body)
	}
	wantErrCode(t, do(t, n, "POST", base+"/v2/", nil, nil), 405, "UNSUPPORTED")
	wantErrCode(t, do(t, n, "GET", base+"/v1/search", nil, nil), 404, "NOT_FOUND")
	wantErrCode(t, do(t, n, "GET", base+"/v2/foo/bar", nil, nil), 404, "NOT_FOUND")
	wantErrCode(t, do(t, n, "PATCH", base+"/v2/foo/manifests/v1", nil, nil), 405, "UNSUPPORTED")
	wantErrCode(t, do(t, n, "GET", base+"/v2/Foo/manifests/v1", nil, nil), 400, "NAME_INVALID")
	wantErrCode(t, do(t, n, "PUT", base+"/v2/foo/manifests/-bad", map[string]string{"Content-Type": "x"}, []byte("{}")), 400, "TAG_INVALID")
	wantErrCode(t, do(t, n, "GET", base+"/v2/foo/manifests/sha256:abcd", nil, nil), 400, "DIGEST_INVALID")
	wantErrCode(t, do(t, n, "GET", base+"/v2/foo/blobs/sha256:abcd", nil, nil), 400, "DIGEST_INVALID")
	wantErrCode(t, do(t, n, "GET", base+"/v2/foo/blobs/"+simreg.Digest("sha256", nil), nil, nil), 404, "BLOB_UNKNOWN")
	wantErrCode(t, do(t, n, "GET", base+"/v2/foo/tags/list", nil, nil), 404, "NAME_UNKNOWN")
	if _, err := n.Client().Get("http://nowhere.test/v2/"); err == nil {
		t.Errorf("unknown host answered")
	}

	// classification of deep repository names, also such containing marker words
	for _, tc := range []struct{ method, path, class, repo, ref string }{
		{"GET", "/v2/a/b/c/manifests/x", "manifest_get", "a/b/c", "x"},
		{"HEAD", "/v2/a/manifests/b/manifests/x", "manifest_head", "a/manifests/b", "x"},
		{"GET", "/v2/a/blobs/b/tags/list", "tag_list", "a/blobs/b", ""},
		{"POST", "/v2/a/b/blobs/uploads/", "upload_post", "a/b", ""},
		{"GET", "/v2/a/b/blobs/uploads/up1", "upload_get", "a/b", "up1"},
		{"GET", "/v2/a/b/referrers/sha256:00", "referrers", "a/b", "sha256:00"},
		{"DELETE", "/v2/a/blobs/sha256:00", "blob_delete", "a", "sha256:00"},
		{"GET", "/v2/_catalog", "catalog", "", ""},
	} {
		n.ResetLog()
		do(t, n, tc.method, base+tc.path, nil, nil)
		rq := n.Log()[0]
		if rq.Class != tc.class || rq.Repo != tc.repo || rq.Ref != tc.ref {
			t.Errorf("%s %s: class %s repo %q ref %q", tc.method, tc.path, rq.Class, rq.Repo, rq.Ref)
		}
	}
	n.ResetLog()
	h.Lock()
	nRepos := len(h.Repos)
	h.Unlock()
	if nRepos != 0 {
		t.Errorf("reads and refused writes created %d repositories", nRepos)
	}

	// blobs: sha512, HEAD, range, delete
	content := pattern(100, 1)
	d512 := h.PutBlobAlg("foo", "sha512", content)
	if !strings.HasPrefix(d512, "sha512:") || len(d512) != 7+128 {
		t.Fatalf("sha512 digest %q", d512)
	}
	rp := do(t, n, "HEAD", base+"/v2/foo/blobs/"+d512, nil, nil)
	if rp.status != 200 || rp.header.Get("Content-Length") != "100" || len(rp.body) != 0 || rp.header.Get("Docker-Content-Digest") != d512 || rp.header.Get("Content-Type") != "application/octet-stream" {
		t.Errorf("blob head: %d %v", rp.status, rp.header)
	}
	for _, tc := range []struct {
		rng    string
		status int
		cr     string
		a, b   int
	}{
		{"bytes=10-", 206, "bytes 10-99/100", 10, 100},
		{"bytes=10-19", 206, "bytes 10-19/100", 10, 20},
		{"bytes=90-100", 206, "bytes 90-99/100", 90, 100}, // end clamped
		{"bytes=-5", 206, "bytes 95-99/100", 95, 100},
		{"bytes=0-0", 206, "bytes 0-0/100", 0, 1},
		{"bytes=100-", 416, "bytes */100", 0, 0},
		{"bytes=5-1", 200, "", 0, 100}, // invalid: ignored
		{"lines=1-2", 200, "", 0, 100},
	} {
		rp := do(t, n, "GET", base+"/v2/foo/blobs/"+d512, map[string]string{"Range": tc.rng}, nil)
		if rp.status != tc.status || rp.header.Get("Content-Range") != tc.cr {
			t.Errorf("range %s: %d %q", tc.rng, rp.status, rp.header.Get("Content-Range"))
		}
		if tc.status != 416 && !bytes.Equal(rp.body, content[tc.a:tc.b]) {
			t.Errorf("range %s: wrong slice (%d bytes)", tc.rng, len(rp.body))
		}
	}
	if rp := do(t, n, "DELETE", base+"/v2/foo/blobs/"+d512, nil, nil); rp.status != 202 {
		t.Errorf("blob delete: %d", rp.status)
	}
	wantErrCode(t, do(t, n, "DELETE", base+"/v2/foo/blobs/"+d512, nil, nil), 404, "BLOB_UNKNOWN")
	h.Lock()
	h.Feat.BlobDelete = false
	h.Unlock()
	wantErrCode(t, do(t, n, "DELETE", base+"/v2/foo/blobs/"+d512, nil, nil), 405, "UNSUPPORTED")
	// the (now empty) repository still exists
	if rp := do(t, n, "GET", base+"/v2/foo/tags/list", nil, nil); rp.status != 200 || string(rp.body) != `{"name":"foo","tags":[]}` {
		t.Errorf("tags of empty repo: %d %s", rp.status, rp.body)
	}
}

func TestHTTPUploads(t *testing.T) {
	n := simreg.NewNet()
	h := n.AddHost(hostA, simreg.DefaultFeatures())
	base := "http://" + hostA
	content := pattern(50, 3)
	dig := simreg.Digest("sha256", content)

	// session
	rp := do(t, n, "POST", base+"/v2/foo/blobs/uploads/", nil, nil)
	loc := rp.header.Get("Location")
	if rp.status != 202 || loc != "/v2/foo/blobs/uploads/up0001?state=0" || rp.header.Get("Range") != "0-0" || rp.header.Get("Docker-Upload-UUID") != "up0001" {
		t.Fatalf("post: %d %v", rp.status, rp.header)
	}
	// out of order chunk
	rp = do(t, n, "PATCH", base+loc, map[string]string{"Content-Range": "10-19"}, content[10:20])
	wantErrCode(t, rp, 416, "BLOB_UPLOAD_INVALID")
	if rp.header.Get("Range") != "0-0" || rp.header.Get("Location") != loc {
		t.Errorf("416 headers %v", rp.header)
	}
	// content-range not spanning the body
	wantErrCode(t, do(t, n, "PATCH", base+loc, map[string]string{"Content-Range": "0-4"}, content[:20]), 400, "SIZE_INVALID")
	// good chunk, without and with Content-Range
	rp = do(t, n, "PATCH", base+loc, nil, content[:20])
	loc2 := rp.header.Get("Location")
	if rp.status != 202 || rp.header.Get("Range") != "0-19" || loc2 != "/v2/foo/blobs/uploads/up0001?state=1" {
		t.Fatalf("patch: %d %v", rp.status, rp.header)
	}
	// the old location is stale now
	wantErrCode(t, do(t, n, "PATCH", base+loc, map[string]string{"Content-Range": "20-29"}, content[20:30]), 400, "BLOB_UPLOAD_INVALID")
	wantErrCode(t, do(t, n, "GET", base+"/v2/foo/blobs/uploads/up0001", nil, nil), 400, "BLOB_UPLOAD_INVALID")
	rp = do(t, n, "PATCH", base+loc2, map[string]string{"Content-Range": "20-29"}, content[20:30])
	loc3 := rp.header.Get("Location")
	if rp.status != 202 || rp.header.Get("Range") != "0-29" {
		t.Fatalf("patch 2: %d %v", rp.status, rp.header)
	}
	if rp := do(t, n, "GET", base+loc3, nil, nil); rp.status != 204 || rp.header.Get("Range") != "0-29" || rp.header.Get("Location") != loc3 {
		t.Errorf("status: %d %v", rp.status, rp.header)
	}
	// wrong repo, wrong id
	wantErrCode(t, do(t, n, "GET", base+"/v2/bar/blobs/uploads/up0001?state=2", nil, nil), 404, "BLOB_UPLOAD_UNKNOWN")
	wantErrCode(t, do(t, n, "GET", base+"/v2/foo/blobs/uploads/up9?state=2", nil, nil), 404, "BLOB_UPLOAD_UNKNOWN")
	// closing PUT: missing digest, wrong digest (session kept, data untouched), right digest
	wantErrCode(t, do(t, n, "PUT", base+loc3, nil, content[30:]), 400, "DIGEST_INVALID")
	wantErrCode(t, do(t, n, "PUT", base+loc3+"&digest="+simreg.Digest("sha256", []byte("x")), nil, content[30:]), 400, "DIGEST_INVALID")
	h.Lock()
	u := h.Uploads["up0001"]
	kept := u != nil && len(u.Data) == 30 && u.Repo == "foo"
	_, repoExists := h.Repos["foo"]
	h.Unlock()
	if !kept || repoExists {
		t.Fatalf("session not kept unchanged after a digest mismatch (repo exists: %v)", repoExists)
	}
	rp = do(t, n, "PUT", base+loc3+"&digest="+dig, nil, content[30:])
	if rp.status != 201 || rp.header.Get("Location") != "/v2/foo/blobs/"+dig || rp.header.Get("Docker-Content-Digest") != dig {
		t.Fatalf("put: %d %v %s", rp.status, rp.header, rp.body)
	}
	wantErrCode(t, do(t, n, "GET", base+loc3, nil, nil), 404, "BLOB_UPLOAD_UNKNOWN")
	if rp := do(t, n, "GET", base+"/v2/foo/blobs/"+dig, nil, nil); !bytes.Equal(rp.body, content) {
		t.Errorf("stored content differs")
	}

	// sha512 closing digest; cancel
	rp = do(t, n, "POST", base+"/v2/foo/blobs/uploads/", nil, nil)
	loc = rp.header.Get("Location")
	d512 := simreg.Digest("sha512", content)
	if rp := do(t, n, "PUT", base+loc+"&digest="+d512, nil, content); rp.status != 201 || rp.header.Get("Docker-Content-Digest") != d512 {
		t.Errorf("sha512 put: %d", rp.status)
	}
	rp = do(t, n, "POST", base+"/v2/foo/blobs/uploads/", nil, nil)
	loc = rp.header.Get("Location")
	if rp := do(t, n, "DELETE", base+loc, nil, nil); rp.status != 204 {
		t.Errorf("cancel: %d", rp.status)
	}
	wantErrCode(t, do(t, n, "DELETE", base+loc, nil, nil), 404, "BLOB_UPLOAD_UNKNOWN")
	if got := h.Snapshot()["uploads"]; got != 0 {
		t.Errorf("%v uploads open", got)
	}

	// monolithic POST
	c2 := pattern(33, 8)
	d2 := simreg.Digest("sha256", c2)
	wantErrCode(t, do(t, n, "POST", base+"/v2/foo/blobs/uploads/?digest="+dig, nil, c2), 400, "DIGEST_INVALID")
	if rp := do(t, n, "POST", base+"/v2/foo/blobs/uploads/?digest="+d2, nil, c2); rp.status != 201 || rp.header.Get("Location") != "/v2/foo/blobs/"+d2 {
		t.Errorf("monolithic post: %d %v", rp.status, rp.header)
	}
	h.Lock()
	h.Feat.AnonBlobPOSTPut = false
	h.Feat.StrictUploadState = false
	h.Unlock()
	c3 := pattern(34, 9)
	d3 := simreg.Digest("sha256", c3)
	rp = do(t, n, "POST", base+"/v2/foo/blobs/uploads/?digest="+d3, nil, c3)
	if rp.status != 202 || rp.header.Get("Range") != "0-0" {
		t.Errorf("post with AnonBlobPOSTPut off: %d", rp.status)
	}
	h.Lock()
	_, stored := h.Repos["foo"].Blobs[d3]
	h.Unlock()
	if stored {
		t.Errorf("body of the POST was stored although AnonBlobPOSTPut is off")
	}
	// with StrictUploadState off the query may be dropped
	noQuery, _, _ := strings.Cut(rp.header.Get("Location"), "?")
	if rp := do(t, n, "PUT", base+noQuery+"?digest="+d3, nil, c3); rp.status != 201 {
		t.Errorf("put without state: %d %s", rp.status, rp.body)
	}

	// mount
	h.PutBlob("src", c3)
	rp = do(t, n, "POST", base+"/v2/dst/blobs/uploads/?mount="+d3+"&from=src", nil, nil)
	if rp.status != 201 || rp.header.Get("Location") != "/v2/dst/blobs/"+d3 {
		t.Errorf("mount: %d %v", rp.status, rp.header)
	}
	if rp := do(t, n, "POST", base+"/v2/dst/blobs/uploads/?mount="+dig+"&from=src", nil, nil); rp.status != 202 {
		t.Errorf("mount miss: %d", rp.status)
	}
	if rp := do(t, n, "POST", base+"/v2/dst/blobs/uploads/?mount="+d3+"&from=nope", nil, nil); rp.status != 202 {
		t.Errorf("mount from unknown repo: %d", rp.status)
	}
	log := n.Log()
	if got := log[len(log)-3].Note + "|" + log[len(log)-2].Note; got != "mounted|mount miss" {
		t.Errorf("notes %q", got)
	}
}

func TestHTTPChunkMinLen(t *testing.T) {
	n := simreg.NewNet()
	f := simreg.DefaultFeatures()
	f.ChunkMinLen = 10
	n.AddHost(hostA, f)
	base := "http://" + hostA
	content := pattern(30, 1)
	rp := do(t, n, "POST", base+"/v2/foo/blobs/uploads/", nil, nil)
	if rp.header.Get("OCI-Chunk-Min-Length") != "10" {
		t.Fatalf("no OCI-Chunk-Min-Length")
	}
	rp = do(t, n, "PATCH", base+rp.header.Get("Location"), nil, content[:10])
	rp = do(t, n, "PATCH", base+rp.header.Get("Location"), nil, content[10:15]) // short, may be the last
	if rp.status != 202 {
		t.Fatalf("short chunk refused outright: %d", rp.status)
	}
	loc := rp.header.Get("Location")
	// ... but it was not the last
	bad := do(t, n, "PATCH", base+loc, nil, content[15:])
	wantErrCode(t, bad, 416, "SIZE_INVALID")
	if bad.header.Get("Location") != "" || bad.header.Get("Range") != "" {
		t.Errorf("short chunk refusal carries resume headers")
	}
	wantErrCode(t, do(t, n, "PUT", base+loc+"&digest="+simreg.Digest("sha256", content), nil, content[15:]), 416, "SIZE_INVALID")
	// closing without more data is fine
	if rp := do(t, n, "PUT", base+loc+"&digest="+simreg.Digest("sha256", content[:15]), nil, nil); rp.status != 201 {
		t.Errorf("closing put: %d %s", rp.status, rp.body)
	}
}

func TestHTTPManifestsSha512AndListings(t *testing.T) {
	n := simreg.NewNet()
	f := simreg.DefaultFeatures()
	f.PageSize = 2
	h := n.AddHost(hostA, f)
	base := "http://" + hostA
	body := []byte(`{"schemaVersion":2,"mediaType":"application/vnd.oci.image.manifest.v1+json","config":{"mediaType":"application/vnd.example.cfg","digest":"sha256:00","size":2},"layers":[]}`)
	d512 := simreg.Digest("sha512", body)
	ct := map[string]string{"Content-Type": mediatype.OCI1Manifest}

	// by tag with ?digest=sha512:..., and by sha512 digest
	wantErrCode(t, do(t, n, "PUT", base+"/v2/foo/manifests/v1?digest="+simreg.Digest("sha512", []byte("x")), ct, body), 400, "DIGEST_INVALID")
	rp := do(t, n, "PUT", base+"/v2/foo/manifests/v1?digest="+d512, ct, body)
	if rp.status != 201 || rp.header.Get("Docker-Content-Digest") != d512 {
		t.Fatalf("put: %d %v", rp.status, rp.header)
	}
	if rp := do(t, n, "PUT", base+"/v2/foo/manifests/"+d512, ct, body); rp.status != 201 {
		t.Errorf("put by sha512 digest: %d", rp.status)
	}
	if rq := n.Log()[len(n.Log())-1]; rq.Mutated {
		t.Errorf("identical put reported as a mutation")
	}
	rp = do(t, n, "GET", base+"/v2/foo/manifests/v1", map[string]string{"Accept": "text/plain"}, nil)
	if rp.status != 200 || !bytes.Equal(rp.body, body) || rp.header.Get("Content-Type") != mediatype.OCI1Manifest || rp.header.Get("Docker-Content-Digest") != d512 {
		t.Errorf("get: %d %v", rp.status, rp.header)
	}
	h.Lock()
	nMan := len(h.Repos["foo"].Manifests)
	h.Unlock()
	if nMan != 1 {
		t.Errorf("%d manifests stored, want 1 (one digest per push)", nMan)
	}

	// tags with paging and client side n/last
	for _, tag := range []string{"b", "a", "c"} {
		h.PutManifest("foo", tag, mediatype.OCI1Manifest, body)
	}
	rp = do(t, n, "GET", base+"/v2/foo/tags/list", nil, nil)
	if string(rp.body) != `{"name":"foo","tags":["a","b"]}` || rp.header.Get("Link") != `</v2/foo/tags/list?n=2&last=b>; rel="next"` {
		t.Errorf("page 1: %s %q", rp.body, rp.header.Get("Link"))
	}
	rp = do(t, n, "GET", base+"/v2/foo/tags/list?n=2&last=b", nil, nil)
	if string(rp.body) != `{"name":"foo","tags":["c","v1"]}` || rp.header.Get("Link") != "" {
		t.Errorf("page 2: %s %q", rp.body, rp.header.Get("Link"))
	}
	rp = do(t, n, "GET", base+"/v2/foo/tags/list?n=1", nil, nil)
	if string(rp.body) != `{"name":"foo","tags":["a"]}` || rp.header.Get("Link") != `</v2/foo/tags/list?n=1&last=a>; rel="next"` {
		t.Errorf("n=1: %s %q", rp.body, rp.header.Get("Link"))
	}
	rp = do(t, n, "GET", base+"/v2/foo/tags/list?n=5", nil, nil) // capped by the host
	if string(rp.body) != `{"name":"foo","tags":["a","b"]}` {
		t.Errorf("n=5: %s", rp.body)
	}

	// referrers: empty list for unknown subjects and unknown repositories
	for _, repo := range []string{"foo", "unknown"} {
		rp = do(t, n, "GET", base+"/v2/"+repo+"/referrers/"+simreg.Digest("sha256", []byte("s")), nil, nil)
		if rp.status != 200 || string(rp.body) != `{"schemaVersion":2,"mediaType":"application/vnd.oci.image.index.v1+json","manifests":[]}` {
			t.Errorf("referrers of %s: %d %s", repo, rp.status, rp.body)
		}
	}
	// filter + paging keep the filter in the Link
	subj := simreg.Digest("sha256", []byte("subject"))
	digs := []string{}
	for i := 0; i < 3; i++ {
		b := []byte(fmt.Sprintf(`{"schemaVersion":2,"artifactType":"x/y","config":{"mediaType":"application/vnd.oci.empty.v1+json"},"subject":{"digest":%q},"annotations":{"i":"%d"}}`, subj, i))
		digs = append(digs, h.PutManifest("foo", "", mediatype.OCI1Manifest, b))
	}
	h.PutManifest("foo", "", mediatype.OCI1Manifest, []byte(fmt.Sprintf(`{"artifactType":"other","subject":{"digest":%q}}`, subj)))
	sort.Strings(digs)
	rp = do(t, n, "GET", base+"/v2/foo/referrers/"+subj+"?artifactType=x/y", nil, nil)
	wantLink := fmt.Sprintf(`</v2/foo/referrers/%s?n=2&last=%s&artifactType=x%%2Fy>; rel="next"`, subj, strings.Replace(digs[1], ":", "%3A", 1))
	if rp.header.Get("Link") != wantLink || rp.header.Get("OCI-Filters-Applied") != "artifactType" {
		t.Errorf("Link %q want %q", rp.header.Get("Link"), wantLink)
	}
	var idx v1.Index
	if err := json.Unmarshal(rp.body, &idx); err != nil || len(idx.Manifests) != 2 || idx.Manifests[0].Digest.String() != digs[0] || idx.Manifests[0].ArtifactType != "x/y" || idx.Manifests[0].Annotations["i"] == "" {
		t.Errorf("referrers page: %s", rp.body)
	}
	rp = do(t, n, "GET", base+"/v2/foo/referrers/"+subj+"?n=2&last="+digs[1]+"&artifactType=x/y", nil, nil)
	if err := json.Unmarshal(rp.body, &idx); err != nil || len(idx.Manifests) != 1 || idx.Manifests[0].Digest.String() != digs[2] || rp.header.Get("Link") != "" {
		t.Errorf("referrers page 2: %s", rp.body)
	}
}

func TestSnapshotAndClone(t *testing.T) {
	n := simreg.NewNet()
	h := n.AddHost(hostA, simreg.DefaultFeatures())
	blob := []byte("hello")
	bd := h.PutBlob("foo", blob)
	md := h.PutManifest("foo", "v1", "mt", []byte("{}"))
	do(t, n, "POST", "http://"+hostA+"/v2/foo/blobs/uploads/", nil, nil)
	want := map[string]any{
		"repos": map[string]any{"foo": map[string]any{
			"blobs":     map[string]any{bd: 5},
			"blobsha":   map[string]any{bd: strings.TrimPrefix(bd, "sha256:")},
			"manifests": map[string]any{md: map[string]any{"mediaType": "mt", "sha": strings.TrimPrefix(md, "sha256:"), "len": 2}},
			"tags":      map[string]any{"v1": md},
		}},
		"uploads": 1,
	}
	if got := h.Snapshot(); !reflect.DeepEqual(got, want) {
		t.Errorf("snapshot %v\nwant %v", got, want)
	}
	c := h.Clone()
	h.PutBlob("foo", []byte("more"))
	h.Lock()
	h.Repos["foo"].Blobs[bd][0] = 'J'
	delete(h.Repos["foo"].Tags, "v1")
	h.Uploads["up0001"].Data = append(h.Uploads["up0001"].Data, 1)
	h.Unlock()
	if got := c.Snapshot(); !reflect.DeepEqual(got, want) {
		t.Errorf("clone follows the original: %v", got)
	}
	if c.Name != hostA || c.Feat != h.Feat || c.Intercept != nil || c.After != nil {
		t.Errorf("clone metadata wrong")
	}
}

func TestOrderingAndCallbacks(t *testing.T) {
	n := simreg.NewNet()
	h := n.AddHost(hostA, simreg.DefaultFeatures())
	base := "http://" + hostA

	// After sees every request in log order, with the reply filled in, under the mutex
	var afterSeqs []int
	var afterUploads []int
	h.After = func(rq *simreg.Request) {
		afterSeqs = append(afterSeqs, rq.Seq)
		afterUploads = append(afterUploads, h.SnapshotLocked()["uploads"].(int))
		if rq.Status == 0 {
			t.Errorf("After before the status is known")
		}
	}
	var wg sync.WaitGroup
	for i := 0; i < 20; i++ {
		wg.Add(1)
		go func(i int) {
			defer wg.Done()
			c := pattern(10+i, byte(i))
			req, _ := http.NewRequest("POST", base+"/v2/foo/blobs/uploads/?digest="+simreg.Digest("sha256", c), bytes.NewReader(c))
			resp, err := n.Client().Do(req)
			if err != nil || resp.StatusCode != 201 {
				t.Errorf("post %d: %v", i, err)
			}
		}(i)
	}
	wg.Wait()
	logSeqs := []int{}
	for _, rq := range n.Log() {
		logSeqs = append(logSeqs, rq.Seq)
	}
	if len(logSeqs) != 20 || !reflect.DeepEqual(logSeqs, afterSeqs) {
		t.Errorf("log order %v, After order %v", logSeqs, afterSeqs)
	}
	sorted := append([]int{}, logSeqs...)
	sort.Ints(sorted)
	for i, s := range sorted {
		if s != i+1 {
			t.Errorf("sequence numbers %v", sorted)
			break
		}
	}
	h.Lock()
	nBlobs := len(h.Repos["foo"].Blobs)
	h.After = nil
	h.Unlock()
	if nBlobs != 20 {
		t.Errorf("%d blobs", nBlobs)
	}

	// a gated request arrives first but takes effect last
	n.ResetLog()
	gate := make(chan struct{})
	arrived := make(chan struct{})
	h.Lock()
	h.Intercept = func(rq *simreg.Request) *simreg.Reply {
		if rq.Method == "POST" {
			close(arrived)
			<-gate
		}
		return nil
	}
	h.Unlock()
	done := make(chan int)
	go func() {
		resp, err := n.Client().Post(base+"/v2/foo/blobs/uploads/", "", nil)
		if err != nil {
			done <- 0
			return
		}
		done <- resp.StatusCode
	}()
	<-arrived
	if rp := do(t, n, "GET", base+"/v2/foo/tags/list", nil, nil); rp.status != 200 {
		t.Errorf("ungated request blocked")
	}
	close(gate)
	if st := <-done; st != 202 {
		t.Errorf("gated request: %d", st)
	}
	log := n.Log()
	if len(log) != 2 || log[0].Class != "tag_list" || log[1].Class != "upload_post" || log[0].Seq != log[1].Seq+1 {
		dumpLog(t, log)
		t.Errorf("serving order wrong")
	}

	// a body shorter than announced (a drained reader) breaks the request, as with net/http
	n.ResetLog()
	h.Lock()
	h.Intercept = func(rq *simreg.Request) *simreg.Reply {
		t.Errorf("broken request reached Intercept")
		return nil
	}
	h.Unlock()
	c := pattern(10, 1)
	drained := bytes.NewReader(c)
	_, _ = io.ReadAll(drained)
	req0, _ := http.NewRequest("POST", base+"/v2/foo/blobs/uploads/?digest="+simreg.Digest("sha256", c), io.NopCloser(drained))
	req0.ContentLength = int64(len(c))
	if _, err := n.Client().Do(req0); err == nil || !strings.Contains(err.Error(), "ContentLength=10 with Body length 0") {
		t.Errorf("err %v", err)
	}
	if log := n.Log(); len(log) != 1 || log[0].Status != 0 || log[0].Mutated || log[0].ContentLength != 10 || !strings.HasPrefix(log[0].Note, "request broken") {
		dumpLog(t, log)
		t.Errorf("broken request not logged as such")
	}

	// cancellation while gated: nothing is served
	n.ResetLog()
	before := h.Snapshot()
	ctx, cancel := context.WithCancel(context.Background())
	h.Lock()
	h.Intercept = func(rq *simreg.Request) *simreg.Reply {
		cancel()
		<-rq.Ctx.Done()
		return nil
	}
	h.Unlock()
	req, _ := http.NewRequestWithContext(ctx, "POST", base+"/v2/foo/blobs/uploads/", nil)
	_, err := n.Client().Do(req)
	if !errors.Is(err, context.Canceled) {
		t.Errorf("err %v", err)
	}
	log = n.Log()
	if len(log) != 1 || log[0].Status != 0 || log[0].Note != "canceled" || log[0].Mutated || !reflect.DeepEqual(before, h.Snapshot()) {
		dumpLog(t, log)
		t.Errorf("cancelled request had an effect")
	}
}

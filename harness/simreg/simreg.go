// Package simreg is an in-process reference model of the server side of the OCI
// distribution spec (and the Docker registry v2 API it grew out of), packaged as an
// http.RoundTripper.
//
// It is used by the verification harness as environment and oracle while driving the
// real regclient client code.  It is written independently from regclient and olareg
// (only the Go standard library is imported) so that a bug shared with the code under
// test is unlikely.
//
// Design goals:
//
//   - deterministic: no clocks, no random ids, no goroutines, no sockets;
//   - observable: every request is logged (Net.Log) together with its classification,
//     the reply and whether the host state changed; optional callbacks run before
//     (Host.Intercept: gates and scripted faults) and after (Host.After: snapshots)
//     a request is served;
//   - plain state: a Host is a handful of maps (Repos, Uploads), so that it can be
//     dumped to JSON (Host.Snapshot) in the shape of a TLA+ spec state and edited
//     directly by a driver (under Host.Lock).
//
// Concurrency contract: the request body is read completely first; Intercept runs
// without any lock held (it may block for as long as it likes); serving, the append to
// the global log and After all happen inside the host mutex, and the Net log mutex is
// only ever taken inside a host critical section, so the order of the log is the order
// in which requests took effect on the host state.
package simreg

import (
	"bytes"
	"context"
	"crypto/sha256"
	"crypto/sha512"
	"encoding/hex"
	"encoding/json"
	"fmt"
	"io"
	"net/http"
	"net/url"
	"regexp"
	"sort"
	"strconv"
	"strings"
	"sync"
)

// ---------------------------------------------------------------------------
// public types
// ---------------------------------------------------------------------------

// Features selects the optional parts of the API a Host implements.
type Features struct {
	TagDelete       bool // DELETE /v2/<repo>/manifests/<tag> supported, else 405 UNSUPPORTED
	ManifestDelete  bool // DELETE by digest supported (removes the manifest and every tag pointing at it), else 405
	BlobDelete      bool // DELETE /v2/<repo>/blobs/<digest> supported, else 405
	ReferrersAPI    bool // referrers endpoint + OCI-Subject header on manifest PUT; when false: 404 and no header
	HeadDigest      bool // send Docker-Content-Digest on manifest/blob GET+HEAD replies
	Mount           bool // cross repository blob mount (POST ?mount=&from=); when false always fall through to a 202 session
	PageSize        int  // 0 = unlimited; max entries per page of tags/list, _catalog and referrers
	ChunkMinLen     int  // >0: announce OCI-Chunk-Min-Length on POST and reject (416) data following a PATCH chunk shorter than this
	AnonBlobPOSTPut bool // POST ?digest= with the content = monolithic single request upload (201); when false a plain session start (202)

	// StrictUploadState (an addition to the requested API): every Location of an
	// upload session carries "?state=<n>" and n changes with every accepted PATCH.
	// When true, PATCH/PUT/GET/DELETE on a session must present the most recent
	// state value, else 400 BLOB_UPLOAD_INVALID (this is what makes dropping or
	// mangling the query string of a Location observable).  When false the query
	// is still sent but never checked.
	StrictUploadState bool
}

// DefaultFeatures returns a registry supporting everything, without paging and without a
// minimum chunk size.
func DefaultFeatures() Features {
	return Features{
		TagDelete:         true,
		ManifestDelete:    true,
		BlobDelete:        true,
		ReferrersAPI:      true,
		HeadDigest:        true,
		Mount:             true,
		PageSize:          0,
		ChunkMinLen:       0,
		AnonBlobPOSTPut:   true,
		StrictUploadState: true,
	}
}

// Manifest is a stored manifest: the media type it was pushed with and the exact bytes.
type Manifest struct {
	MediaType string
	Body      []byte
}

// Repo is the content of one repository.
type Repo struct {
	Blobs     map[string][]byte   // digest string ("sha256:..." / "sha512:...") -> content
	Manifests map[string]Manifest // digest -> manifest
	Tags      map[string]string   // tag -> digest
}

// Upload is an open blob upload session.
type Upload struct {
	Repo string
	ID   string
	Data []byte
	// State is the value of the "state" query parameter of the most recent Location
	// sent for this session; it is incremented by every accepted PATCH.
	State int
	// ShortChunk records that the last accepted PATCH was shorter than
	// Features.ChunkMinLen.  That is fine for the final chunk only: any further data
	// for the session is rejected.
	ShortChunk bool
}

// Host is one registry.  All exported fields may be edited directly by a driver while
// holding Lock (or before the host is used).
type Host struct {
	Name    string
	Feat    Features
	Repos   map[string]*Repo
	Uploads map[string]*Upload // keyed by Upload.ID (ids are unique per host)

	// Intercept, if set, is called BEFORE the request is served and WITHOUT the host
	// mutex held; it may block (gate).  A non-nil result is sent instead of serving
	// (scripted fault); the host state is then untouched (except with
	// Reply.ServeThenTruncate).  Set it before traffic starts or while holding Lock.
	Intercept func(rq *Request) *Reply
	// After, if set, is called for every request right after its log entry has been
	// appended, with the host mutex still held (so it must not call Lock, Repo,
	// PutBlob, ...; it may read the maps and call SnapshotLocked).  It is also called
	// for faulted and cancelled requests (Faulted / Status tell them apart).
	After func(rq *Request)

	mu         sync.Mutex
	net        *Net
	nextUpload int // number of upload sessions ever opened; source of session ids
}

// Request is the model's view of one HTTP request, and after serving, of its reply.
type Request struct {
	Seq    int         // global, per Net, assigned on arrival (1,2,3,...)
	Host   string      // name of the Host serving it
	Method string      //
	URL    string      // full URL string
	Path   string      // URL path
	Query  url.Values  // parsed query
	Header http.Header // clone of the request headers
	// Class is one of: ping, blob_head, blob_get, blob_delete, upload_post,
	// upload_patch, upload_put, upload_get, upload_delete, manifest_head,
	// manifest_get, manifest_put, manifest_delete, tag_list, referrers, catalog,
	// unknown.  A known path with an unsupported method is "unknown" (answered 405)
	// with Repo and Ref still filled in.
	Class string
	Repo  string
	Ref   string // digest or tag or upload id ("" where not applicable)
	IsTag bool   // for manifest_* classes: Ref is a tag
	Body  []byte // full request body (read completely before serving)

	// ContentLength is http.Request.ContentLength (an addition to the requested API):
	// -1 unknown, 0 none/unknown, >0 announced.  When it is >0 and differs from
	// len(Body) RoundTrip fails like net/http's transport does ("http:
	// ContentLength=N with Body length M"); the request is logged with Status 0 and
	// is neither intercepted nor served.
	ContentLength int64

	// Ctx is the context of the http request (an addition to the requested API): an
	// Intercept that gates a request can select on Ctx.Done().
	Ctx context.Context `json:"-"`

	// filled in after serving:

	Status     int         // 0 when no reply was sent (Reply.Err, context cancelled, broken request)
	RespHeader http.Header //
	RespLen    int         // number of body bytes delivered (0 for HEAD; TruncateAt when truncated)
	Faulted    bool        // the reply (or error) came from Intercept; the state was not touched
	Truncated  bool        // Reply.ServeThenTruncate was applied: served normally, body cut short
	Mutated    bool        // the host state (Repos or Uploads) changed because of this request
	Note       string      // free text, e.g. "mounted", "digest mismatch"

	unknownStatus int // for Class "unknown": 404 or 405
}

// Reply is a scripted reply returned by Host.Intercept.
type Reply struct {
	Status int
	Header http.Header
	Body   []byte
	// Err non-nil: RoundTrip returns this error (connection reset); all other fields
	// are ignored.
	Err error
	// ServeThenTruncate: serve the request normally (the state may change) but cut
	// the response body after TruncateAt bytes: the body reader then returns
	// io.ErrUnexpectedEOF, while Content-Length still announces the full length.
	// Status, Header and Body are ignored.  When TruncateAt is not inside
	// [0, len(body)) (e.g. a HEAD reply) the reply is delivered unharmed.
	TruncateAt        int
	ServeThenTruncate bool
}

// Net is a set of hosts reachable through one http.RoundTripper.  It is safe for
// concurrent use.
type Net struct {
	mu    sync.Mutex // guards hosts, log, seq; never held while taking a host mutex
	hosts map[string]*Host
	log   []*Request
	seq   int
}

// ---------------------------------------------------------------------------
// Net
// ---------------------------------------------------------------------------

// NewNet returns an empty network.
func NewNet() *Net {
	return &Net{hosts: map[string]*Host{}}
}

// AddHost creates (or replaces) the host answering for URL host name, e.g. "reg-a.test"
// or "reg-a.test:5000".  The name is matched case-insensitively and literally (no
// default port is added or stripped).
func (n *Net) AddHost(name string, f Features) *Host {
	h := &Host{
		Name:    name,
		Feat:    f,
		Repos:   map[string]*Repo{},
		Uploads: map[string]*Upload{},
		net:     n,
	}
	n.mu.Lock()
	n.hosts[strings.ToLower(name)] = h
	n.mu.Unlock()
	return h
}

// Host returns the host registered under name, or nil.
func (n *Net) Host(name string) *Host {
	n.mu.Lock()
	defer n.mu.Unlock()
	return n.hosts[strings.ToLower(name)]
}

// Client returns an http client sending everything into this Net.
func (n *Net) Client() *http.Client {
	return &http.Client{Transport: n}
}

// Log returns a copy of the global log, in serving order (the order in which the
// requests took effect).  The entries themselves are shared and must not be modified.
func (n *Net) Log() []*Request {
	n.mu.Lock()
	defer n.mu.Unlock()
	out := make([]*Request, len(n.log))
	copy(out, n.log)
	return out
}

// ResetLog empties the log.  The sequence counter keeps running.
func (n *Net) ResetLog() {
	n.mu.Lock()
	n.log = nil
	n.mu.Unlock()
}

func (n *Net) appendLog(rq *Request) {
	n.mu.Lock()
	n.log = append(n.log, rq)
	n.mu.Unlock()
}

// RoundTrip implements http.RoundTripper.  An unknown host yields an error, like a
// failing dial.
func (n *Net) RoundTrip(req *http.Request) (*http.Response, error) {
	hostName := req.URL.Host
	if hostName == "" {
		hostName = req.Host
	}
	h := n.Host(hostName)
	if h == nil {
		if req.Body != nil {
			_ = req.Body.Close()
		}
		return nil, fmt.Errorf("simreg: dial tcp: lookup %s: no such host", hostName)
	}

	// arrival
	n.mu.Lock()
	n.seq++
	seq := n.seq
	n.mu.Unlock()

	// the body is read completely before anything else happens
	var body []byte
	if req.Body != nil && req.Body != http.NoBody {
		var err error
		body, err = io.ReadAll(req.Body)
		_ = req.Body.Close()
		if err != nil {
			return nil, fmt.Errorf("simreg: reading request body: %w", err)
		}
	}
	rq := &Request{
		Seq:           seq,
		Host:          h.Name,
		Method:        req.Method,
		URL:           req.URL.String(),
		Path:          req.URL.Path,
		Query:         req.URL.Query(),
		Header:        req.Header.Clone(),
		Body:          body,
		ContentLength: req.ContentLength,
		Ctx:           req.Context(),
	}
	if rq.Header == nil {
		rq.Header = http.Header{}
	}
	classify(rq)

	// Like net/http's transport: a body that does not have the announced length
	// breaks the request while it is being sent (e.g. an already drained reader).
	// The server never acts on it.
	if req.ContentLength > 0 && int64(len(body)) != req.ContentLength {
		err := fmt.Errorf("http: ContentLength=%d with Body length %d", req.ContentLength, len(body))
		rq.Note = "request broken: " + err.Error()
		h.mu.Lock()
		h.record(rq)
		h.mu.Unlock()
		return nil, err
	}

	// gate / scripted fault, no lock held
	h.mu.Lock()
	intercept := h.Intercept
	h.mu.Unlock()
	var rp *Reply
	if intercept != nil {
		rp = intercept(rq)
	}
	if err := req.Context().Err(); err != nil {
		rq.Note = "canceled"
		h.mu.Lock()
		h.record(rq)
		h.mu.Unlock()
		return nil, err
	}

	if rp != nil && rp.Err != nil {
		rq.Faulted = true
		rq.Note = "fault error: " + rp.Err.Error()
		h.mu.Lock()
		h.record(rq)
		h.mu.Unlock()
		return nil, rp.Err
	}
	if rp != nil && !rp.ServeThenTruncate {
		res := &result{status: rp.Status, header: http.Header{}, body: rp.Body, note: "fault"}
		if rp.Header != nil {
			res.header = rp.Header.Clone()
		}
		if res.status == 0 {
			res.status = http.StatusOK
		}
		if res.header.Get("Content-Length") == "" {
			res.header.Set("Content-Length", strconv.Itoa(len(res.body)))
		}
		rq.Faulted = true
		h.mu.Lock()
		resp := h.finish(req, rq, res, -1)
		h.mu.Unlock()
		return resp, nil
	}

	// normal service
	truncateAt := -1
	h.mu.Lock()
	res := h.serve(rq)
	if res.header.Get("Content-Length") == "" {
		res.header.Set("Content-Length", strconv.Itoa(len(res.body)))
	}
	if rp != nil && rp.ServeThenTruncate && req.Method != http.MethodHead &&
		rp.TruncateAt >= 0 && rp.TruncateAt < len(res.body) {
		truncateAt = rp.TruncateAt
	}
	resp := h.finish(req, rq, res, truncateAt)
	h.mu.Unlock()
	return resp, nil
}

// record appends rq to the global log and runs After.  The host mutex is held.
func (h *Host) record(rq *Request) {
	if h.net != nil {
		h.net.appendLog(rq)
	}
	if h.After != nil {
		h.After(rq)
	}
}

// finish copies the result into rq, records it and builds the http response.  The host
// mutex is held.
func (h *Host) finish(req *http.Request, rq *Request, res *result, truncateAt int) *http.Response {
	rq.Status = res.status
	rq.RespHeader = res.header.Clone()
	rq.Mutated = res.mutated
	if rq.Note == "" {
		rq.Note = res.note
	}
	announced := int64(len(res.body))
	if cl, err := strconv.ParseInt(res.header.Get("Content-Length"), 10, 64); err == nil && cl >= 0 {
		announced = cl
	}
	var rdr io.Reader
	switch {
	case req.Method == http.MethodHead:
		rq.RespLen = 0
		rdr = bytes.NewReader(nil)
	case truncateAt >= 0:
		rq.Truncated = true
		rq.RespLen = truncateAt
		if rq.Note != "" {
			rq.Note += "; "
		}
		rq.Note += fmt.Sprintf("truncated at %d", truncateAt)
		rdr = &truncReader{r: bytes.NewReader(res.body[:truncateAt])}
	default:
		rq.RespLen = len(res.body)
		rdr = bytes.NewReader(res.body)
	}
	h.record(rq)
	return &http.Response{
		Status:        fmt.Sprintf("%d %s", res.status, http.StatusText(res.status)),
		StatusCode:    res.status,
		Proto:         "HTTP/1.1",
		ProtoMajor:    1,
		ProtoMinor:    1,
		Header:        res.header,
		Body:          io.NopCloser(rdr),
		ContentLength: announced,
		Request:       req,
	}
}

// truncReader delivers its content and then fails like a connection that died early.
type truncReader struct{ r *bytes.Reader }

func (t *truncReader) Read(p []byte) (int, error) {
	n, err := t.r.Read(p)
	if err == io.EOF {
		return n, io.ErrUnexpectedEOF
	}
	return n, err
}

// ---------------------------------------------------------------------------
// Host: direct state access for drivers
// ---------------------------------------------------------------------------

// Lock takes the host mutex, for drivers that edit or read the state directly.
func (h *Host) Lock() { h.mu.Lock() }

// Unlock releases the host mutex.
func (h *Host) Unlock() { h.mu.Unlock() }

// Repo returns the repository, creating it when needed.  It takes the host mutex
// itself.  (A repository "exists" for tags/list and _catalog once it is in Host.Repos.)
func (h *Host) Repo(name string) *Repo {
	h.mu.Lock()
	defer h.mu.Unlock()
	r, _ := h.repo(name, true)
	return r
}

// repo is Repo with the mutex already held; created reports that the repo was added.
func (h *Host) repo(name string, create bool) (r *Repo, created bool) {
	if h.Repos == nil {
		h.Repos = map[string]*Repo{}
	}
	r = h.Repos[name]
	if r == nil {
		if !create {
			return nil, false
		}
		r = &Repo{}
		h.Repos[name] = r
		created = true
	}
	// tolerate repos built by hand with nil maps
	if r.Blobs == nil {
		r.Blobs = map[string][]byte{}
	}
	if r.Manifests == nil {
		r.Manifests = map[string]Manifest{}
	}
	if r.Tags == nil {
		r.Tags = map[string]string{}
	}
	return r, created
}

// PutBlob stores content directly and returns its sha256 digest string.
func (h *Host) PutBlob(repo string, content []byte) string {
	return h.PutBlobAlg(repo, "sha256", content)
}

// PutBlobAlg stores content directly under its digest computed with alg ("sha256" or
// "sha512").
func (h *Host) PutBlobAlg(repo, alg string, content []byte) string {
	d := Digest(alg, content)
	h.mu.Lock()
	defer h.mu.Unlock()
	r, _ := h.repo(repo, true)
	r.Blobs[d] = clone(content)
	return d
}

// PutManifest stores a manifest directly under its sha256 digest, points tag at it
// (unless tag is "") and returns the digest.
func (h *Host) PutManifest(repo, tag, mediaType string, body []byte) string {
	d := Digest("sha256", body)
	h.mu.Lock()
	defer h.mu.Unlock()
	r, _ := h.repo(repo, true)
	r.Manifests[d] = Manifest{MediaType: mediaType, Body: clone(body)}
	if tag != "" {
		r.Tags[tag] = d
	}
	return d
}

// Snapshot returns a deep, JSON-able copy of the state (it takes the host mutex):
//
//	{"repos": {repo: {"blobs":     {digest: len},
//	                  "blobsha":   {digest: hex sha256 of the content},
//	                  "manifests": {digest: {"mediaType": .., "sha": hex sha256 of body, "len": n}},
//	                  "tags":      {tag: digest}}},
//	 "uploads": n}
func (h *Host) Snapshot() map[string]any {
	h.mu.Lock()
	defer h.mu.Unlock()
	return h.SnapshotLocked()
}

// SnapshotLocked is Snapshot for callers already holding the host mutex (e.g. After).
func (h *Host) SnapshotLocked() map[string]any {
	repos := map[string]any{}
	for name, r := range h.Repos {
		blobs := map[string]any{}
		blobsha := map[string]any{}
		for d, b := range r.Blobs {
			blobs[d] = len(b)
			blobsha[d] = hexSHA256(b)
		}
		mans := map[string]any{}
		for d, m := range r.Manifests {
			mans[d] = map[string]any{"mediaType": m.MediaType, "sha": hexSHA256(m.Body), "len": len(m.Body)}
		}
		tags := map[string]any{}
		for t, d := range r.Tags {
			tags[t] = d
		}
		repos[name] = map[string]any{"blobs": blobs, "blobsha": blobsha, "manifests": mans, "tags": tags}
	}
	return map[string]any{"repos": repos, "uploads": len(h.Uploads)}
}

// Clone returns a deep copy of the state (name, features, repos, uploads, id counter)
// without the callbacks and detached from any Net.
func (h *Host) Clone() *Host {
	h.mu.Lock()
	defer h.mu.Unlock()
	c := &Host{
		Name:       h.Name,
		Feat:       h.Feat,
		Repos:      map[string]*Repo{},
		Uploads:    map[string]*Upload{},
		nextUpload: h.nextUpload,
	}
	for name, r := range h.Repos {
		nr := &Repo{Blobs: map[string][]byte{}, Manifests: map[string]Manifest{}, Tags: map[string]string{}}
		for d, b := range r.Blobs {
			nr.Blobs[d] = clone(b)
		}
		for d, m := range r.Manifests {
			nr.Manifests[d] = Manifest{MediaType: m.MediaType, Body: clone(m.Body)}
		}
		for t, d := range r.Tags {
			nr.Tags[t] = d
		}
		c.Repos[name] = nr
	}
	for id, u := range h.Uploads {
		nu := *u
		nu.Data = clone(u.Data)
		c.Uploads[id] = &nu
	}
	return c
}

// Digest returns "<alg>:<hex>" of b for alg "sha256" or "sha512", and "" for any other
// algorithm.
func Digest(alg string, b []byte) string {
	switch alg {
	case "sha256":
		s := sha256.Sum256(b)
		return "sha256:" + hex.EncodeToString(s[:])
	case "sha512":
		s := sha512.Sum512(b)
		return "sha512:" + hex.EncodeToString(s[:])
	}
	return ""
}

func hexSHA256(b []byte) string {
	s := sha256.Sum256(b)
	return hex.EncodeToString(s[:])
}

// clone copies a byte slice; the result is never nil so that empty content and absent
// content stay distinguishable in the maps.
func clone(b []byte) []byte {
	out := make([]byte, len(b))
	copy(out, b)
	return out
}

// ---------------------------------------------------------------------------
// request classification
// ---------------------------------------------------------------------------

var (
	reRepo   = regexp.MustCompile(`^[a-z0-9]+(?:(?:\.|_|__|-+)[a-z0-9]+)*(?:/[a-z0-9]+(?:(?:\.|_|__|-+)[a-z0-9]+)*)*$`)
	reTag    = regexp.MustCompile(`^[a-zA-Z0-9_][a-zA-Z0-9._-]{0,127}$`)
	reDigest = regexp.MustCompile(`^(?:sha256:[a-f0-9]{64}|sha512:[a-f0-9]{128})$`)
)

// classify fills in Class, Repo, Ref and IsTag from method and path.  Repository names
// may contain slashes, so the path is parsed from the right: the rightmost of the
// markers /blobs/uploads/, /blobs/, /manifests/, /referrers/ (or the suffix /tags/list)
// separates the repository from the reference.
func classify(rq *Request) {
	rq.Class = "unknown"
	rq.unknownStatus = http.StatusNotFound
	p := rq.Path
	method := func(m map[string]string) {
		if c, ok := m[rq.Method]; ok {
			rq.Class = c
		} else {
			rq.unknownStatus = http.StatusMethodNotAllowed
		}
	}
	if p == "/v2/" || p == "/v2" {
		method(map[string]string{"GET": "ping", "HEAD": "ping"})
		return
	}
	if !strings.HasPrefix(p, "/v2/") {
		return
	}
	rest := p[len("/v2/"):]
	if rest == "_catalog" {
		method(map[string]string{"GET": "catalog"})
		return
	}
	if strings.HasSuffix(rest, "/tags/list") {
		rq.Repo = strings.TrimSuffix(rest, "/tags/list")
		method(map[string]string{"GET": "tag_list"})
		return
	}
	if strings.HasSuffix(rest, "/blobs/uploads") { // POST without the trailing slash
		rest += "/"
	}
	// rightmost marker wins; on a tie (/blobs/ vs /blobs/uploads/) the longer one
	marker, at := "", -1
	for _, m := range []string{"/blobs/uploads/", "/blobs/", "/manifests/", "/referrers/"} {
		if i := strings.LastIndex(rest, m); i > at {
			marker, at = m, i
		}
	}
	if at < 0 {
		return
	}
	rq.Repo = rest[:at]
	rq.Ref = rest[at+len(marker):]
	if strings.Contains(rq.Ref, "/") || rq.Repo == "" {
		rq.Repo, rq.Ref = "", ""
		return
	}
	switch marker {
	case "/blobs/uploads/":
		if rq.Ref == "" {
			method(map[string]string{"POST": "upload_post"})
		} else {
			method(map[string]string{"PATCH": "upload_patch", "PUT": "upload_put", "GET": "upload_get", "DELETE": "upload_delete"})
		}
	case "/blobs/":
		if rq.Ref == "" {
			return
		}
		method(map[string]string{"HEAD": "blob_head", "GET": "blob_get", "DELETE": "blob_delete"})
	case "/manifests/":
		if rq.Ref == "" {
			return
		}
		rq.IsTag = !strings.Contains(rq.Ref, ":")
		method(map[string]string{"HEAD": "manifest_head", "GET": "manifest_get", "PUT": "manifest_put", "DELETE": "manifest_delete"})
	case "/referrers/":
		if rq.Ref == "" {
			return
		}
		method(map[string]string{"GET": "referrers"})
	}
}

// ---------------------------------------------------------------------------
// serving (host mutex held)
// ---------------------------------------------------------------------------

// result is what a handler produces.
type result struct {
	status  int
	header  http.Header
	body    []byte
	mutated bool
	note    string
}

func newResult(status int) *result {
	h := http.Header{}
	h.Set("Docker-Distribution-Api-Version", "registry/2.0")
	return &result{status: status, header: h}
}

// errResult builds the standard JSON error reply.
func errResult(status int, code, msg string) *result {
	res := newResult(status)
	type e struct {
		Code    string `json:"code"`
		Message string `json:"message"`
	}
	res.body, _ = json.Marshal(map[string][]e{"errors": {{Code: code, Message: msg}}})
	res.header.Set("Content-Type", "application/json")
	res.note = strings.ToLower(msg)
	return res
}

func jsonResult(status int, contentType string, v any) *result {
	res := newResult(status)
	res.body, _ = json.Marshal(v)
	res.header.Set("Content-Type", contentType)
	return res
}

func (h *Host) serve(rq *Request) *result {
	if rq.Class == "unknown" {
		if rq.unknownStatus == http.StatusMethodNotAllowed {
			return errResult(http.StatusMethodNotAllowed, "UNSUPPORTED", "method not allowed")
		}
		return errResult(http.StatusNotFound, "NOT_FOUND", "unknown endpoint")
	}
	if rq.Class == "ping" {
		return jsonResult(http.StatusOK, "application/json", map[string]any{})
	}
	if rq.Class == "catalog" {
		return h.serveCatalog(rq)
	}
	if !reRepo.MatchString(rq.Repo) {
		return errResult(http.StatusBadRequest, "NAME_INVALID", "invalid repository name")
	}
	switch rq.Class {
	case "blob_head", "blob_get":
		return h.serveBlobGet(rq)
	case "blob_delete":
		return h.serveBlobDelete(rq)
	case "upload_post":
		return h.serveUploadPost(rq)
	case "upload_patch":
		return h.serveUploadPatch(rq)
	case "upload_put":
		return h.serveUploadPut(rq)
	case "upload_get":
		return h.serveUploadGet(rq)
	case "upload_delete":
		return h.serveUploadDelete(rq)
	case "manifest_head", "manifest_get":
		return h.serveManifestGet(rq)
	case "manifest_put":
		return h.serveManifestPut(rq)
	case "manifest_delete":
		return h.serveManifestDelete(rq)
	case "tag_list":
		return h.serveTagList(rq)
	case "referrers":
		return h.serveReferrers(rq)
	}
	return errResult(http.StatusNotFound, "NOT_FOUND", "unknown endpoint")
}

// ----- blobs -----

func (h *Host) serveBlobGet(rq *Request) *result {
	if !reDigest.MatchString(rq.Ref) {
		return errResult(http.StatusBadRequest, "DIGEST_INVALID", "invalid digest")
	}
	r, _ := h.repo(rq.Repo, false)
	var content []byte
	ok := false
	if r != nil {
		content, ok = r.Blobs[rq.Ref]
	}
	if !ok {
		return errResult(http.StatusNotFound, "BLOB_UNKNOWN", "blob unknown to registry")
	}
	total := len(content)
	res := newResult(http.StatusOK)
	res.header.Set("Content-Type", "application/octet-stream")
	res.header.Set("Accept-Ranges", "bytes")
	if h.Feat.HeadDigest {
		res.header.Set("Docker-Content-Digest", rq.Ref)
	}
	res.body = content
	if rng := rq.Header.Get("Range"); rng != "" && rq.Method == http.MethodGet {
		a, b, state := parseByteRange(rng, total)
		switch state {
		case rangeOK:
			res.status = http.StatusPartialContent
			res.header.Set("Content-Range", fmt.Sprintf("bytes %d-%d/%d", a, b, total))
			res.body = content[a : b+1]
			res.note = fmt.Sprintf("range %d-%d", a, b)
		case rangeUnsatisfiable:
			res = errResult(http.StatusRequestedRangeNotSatisfiable, "RANGE_INVALID", "requested range not satisfiable")
			res.header.Set("Content-Range", fmt.Sprintf("bytes */%d", total))
			return res
		case rangeIgnore:
			// syntactically not a single byte range: served in full, as RFC 7233 allows
		}
	}
	res.header.Set("Content-Length", strconv.Itoa(len(res.body)))
	if rq.Method == http.MethodHead {
		res.body = nil
	}
	return res
}

const (
	rangeOK = iota
	rangeUnsatisfiable
	rangeIgnore
)

// parseByteRange handles "bytes=a-", "bytes=a-b" and "bytes=-n" against a
// representation of total bytes.  The end is clamped to total-1.
func parseByteRange(v string, total int) (a, b, state int) {
	spec, ok := strings.CutPrefix(strings.TrimSpace(v), "bytes=")
	if !ok || strings.Contains(spec, ",") {
		return 0, 0, rangeIgnore
	}
	first, last, ok := strings.Cut(strings.TrimSpace(spec), "-")
	if !ok {
		return 0, 0, rangeIgnore
	}
	first, last = strings.TrimSpace(first), strings.TrimSpace(last)
	if first == "" { // suffix range: the last n bytes
		n, err := strconv.Atoi(last)
		if err != nil || n < 0 {
			return 0, 0, rangeIgnore
		}
		if n == 0 || total == 0 {
			return 0, 0, rangeUnsatisfiable
		}
		if n > total {
			n = total
		}
		return total - n, total - 1, rangeOK
	}
	a, err := strconv.Atoi(first)
	if err != nil || a < 0 {
		return 0, 0, rangeIgnore
	}
	b = total - 1
	if last != "" {
		b, err = strconv.Atoi(last)
		if err != nil || b < a {
			return 0, 0, rangeIgnore
		}
		if b > total-1 {
			b = total - 1
		}
	}
	if a >= total {
		return 0, 0, rangeUnsatisfiable
	}
	return a, b, rangeOK
}

func (h *Host) serveBlobDelete(rq *Request) *result {
	if !h.Feat.BlobDelete {
		return errResult(http.StatusMethodNotAllowed, "UNSUPPORTED", "blob delete is not supported")
	}
	if !reDigest.MatchString(rq.Ref) {
		return errResult(http.StatusBadRequest, "DIGEST_INVALID", "invalid digest")
	}
	r, _ := h.repo(rq.Repo, false)
	if r == nil {
		return errResult(http.StatusNotFound, "BLOB_UNKNOWN", "blob unknown to registry")
	}
	if _, ok := r.Blobs[rq.Ref]; !ok {
		return errResult(http.StatusNotFound, "BLOB_UNKNOWN", "blob unknown to registry")
	}
	delete(r.Blobs, rq.Ref)
	res := newResult(http.StatusAccepted)
	res.mutated = true
	return res
}

// ----- uploads -----

func blobLocation(repo, dig string) string {
	return "/v2/" + repo + "/blobs/" + dig
}

func (u *Upload) location() string {
	return "/v2/" + u.Repo + "/blobs/uploads/" + u.ID + "?state=" + strconv.Itoa(u.State)
}

// offsetRange renders the Range header of an upload session holding n bytes.  By
// convention an empty session is announced as "0-0", like a session holding one byte.
func offsetRange(n int) string {
	if n <= 0 {
		return "0-0"
	}
	return "0-" + strconv.Itoa(n-1)
}

// sessionHeaders adds Location, Range and Docker-Upload-UUID of u.
func (u *Upload) sessionHeaders(res *result) {
	res.header.Set("Location", u.location())
	res.header.Set("Range", offsetRange(len(u.Data)))
	res.header.Set("Docker-Upload-UUID", u.ID)
}

// commitBlob stores content in the repository.
func (h *Host) commitBlob(repo, dig string, content []byte) (changed bool) {
	r, created := h.repo(repo, true)
	old, ok := r.Blobs[dig]
	r.Blobs[dig] = clone(content)
	return created || !ok || !bytes.Equal(old, content)
}

func blobCreated(repo, dig string) *result {
	res := newResult(http.StatusCreated)
	res.header.Set("Location", blobLocation(repo, dig))
	res.header.Set("Docker-Content-Digest", dig)
	return res
}

func (h *Host) serveUploadPost(rq *Request) *result {
	note := ""
	// cross repository mount
	if mount := rq.Query.Get("mount"); mount != "" {
		from := rq.Query.Get("from")
		switch {
		case !h.Feat.Mount:
			note = "mount unsupported"
		case !reDigest.MatchString(mount):
			return errResult(http.StatusBadRequest, "DIGEST_INVALID", "invalid mount digest")
		case from == "":
			note = "mount without from"
		default:
			if src, _ := h.repo(from, false); src != nil {
				if content, ok := src.Blobs[mount]; ok {
					changed := h.commitBlob(rq.Repo, mount, content)
					res := blobCreated(rq.Repo, mount)
					res.mutated = changed
					res.note = "mounted"
					return res
				}
			}
			note = "mount miss"
		}
	} else if dig := rq.Query.Get("digest"); dig != "" && h.Feat.AnonBlobPOSTPut {
		// single request monolithic upload
		if !reDigest.MatchString(dig) {
			return errResult(http.StatusBadRequest, "DIGEST_INVALID", "invalid digest")
		}
		alg, _, _ := strings.Cut(dig, ":")
		if Digest(alg, rq.Body) != dig {
			res := errResult(http.StatusBadRequest, "DIGEST_INVALID", "digest mismatch")
			return res
		}
		changed := h.commitBlob(rq.Repo, dig, rq.Body)
		res := blobCreated(rq.Repo, dig)
		res.mutated = changed
		res.note = "monolithic post"
		return res
	} else if dig != "" {
		note = "post digest ignored"
	}
	// open a session; ids are deterministic in serving order
	h.nextUpload++
	u := &Upload{Repo: rq.Repo, ID: fmt.Sprintf("up%04d", h.nextUpload), Data: []byte{}}
	if h.Uploads == nil {
		h.Uploads = map[string]*Upload{}
	}
	h.Uploads[u.ID] = u
	res := newResult(http.StatusAccepted)
	u.sessionHeaders(res)
	if h.Feat.ChunkMinLen > 0 {
		res.header.Set("OCI-Chunk-Min-Length", strconv.Itoa(h.Feat.ChunkMinLen))
	}
	res.mutated = true
	res.note = note
	return res
}

// session looks up the upload session addressed by rq and validates the state query.
func (h *Host) session(rq *Request) (*Upload, *result) {
	u := h.Uploads[rq.Ref]
	if u == nil || u.Repo != rq.Repo {
		return nil, errResult(http.StatusNotFound, "BLOB_UPLOAD_UNKNOWN", "blob upload unknown to registry")
	}
	if h.Feat.StrictUploadState && rq.Query.Get("state") != strconv.Itoa(u.State) {
		res := errResult(http.StatusBadRequest, "BLOB_UPLOAD_INVALID", "bad upload state")
		res.note = fmt.Sprintf("bad upload state: got %q want %d", rq.Query.Get("state"), u.State)
		return nil, res
	}
	return u, nil
}

// parseContentRange parses the "a-b" form used by the distribution spec on PATCH (a
// leading "bytes " and a trailing "/total" are tolerated).
func parseContentRange(v string) (a, b int, ok bool) {
	v = strings.TrimSpace(v)
	v = strings.TrimPrefix(v, "bytes ")
	v = strings.TrimPrefix(v, "bytes=")
	v, _, _ = strings.Cut(v, "/")
	first, last, found := strings.Cut(v, "-")
	if !found {
		return 0, 0, false
	}
	a, err1 := strconv.Atoi(strings.TrimSpace(first))
	b, err2 := strconv.Atoi(strings.TrimSpace(last))
	if err1 != nil || err2 != nil || a < 0 {
		return 0, 0, false
	}
	return a, b, true
}

// checkAppend validates the body of a PATCH or PUT against the session: Content-Range
// (when present) must start at the current offset and span exactly the body, and no
// data may follow a chunk that was below the minimum chunk length.
func (h *Host) checkAppend(rq *Request, u *Upload) *result {
	if cr := rq.Header.Get("Content-Range"); cr != "" && (len(rq.Body) > 0 || rq.Class == "upload_patch") {
		a, b, ok := parseContentRange(cr)
		if !ok {
			return errResult(http.StatusBadRequest, "BLOB_UPLOAD_INVALID", "invalid content-range")
		}
		if a != len(u.Data) {
			res := errResult(http.StatusRequestedRangeNotSatisfiable, "BLOB_UPLOAD_INVALID", "range mismatch")
			res.note = fmt.Sprintf("range mismatch: chunk starts at %d, session offset %d", a, len(u.Data))
			u.sessionHeaders(res)
			return res
		}
		if b-a+1 != len(rq.Body) {
			res := errResult(http.StatusBadRequest, "SIZE_INVALID", "content-range length mismatch")
			res.note = fmt.Sprintf("content-range %d-%d does not span the %d byte body", a, b, len(rq.Body))
			return res
		}
	}
	if u.ShortChunk && len(rq.Body) > 0 {
		// The previous chunk turned out not to be the final one.  No Location/Range
		// is sent: this is not a recoverable offset problem.
		res := errResult(http.StatusRequestedRangeNotSatisfiable, "SIZE_INVALID", "short chunk")
		res.note = fmt.Sprintf("short chunk: data follows a chunk below OCI-Chunk-Min-Length %d", h.Feat.ChunkMinLen)
		return res
	}
	return nil
}

func (h *Host) serveUploadPatch(rq *Request) *result {
	u, bad := h.session(rq)
	if bad != nil {
		return bad
	}
	if bad = h.checkAppend(rq, u); bad != nil {
		return bad
	}
	u.Data = append(u.Data, rq.Body...)
	u.State++
	if len(rq.Body) > 0 {
		u.ShortChunk = h.Feat.ChunkMinLen > 0 && len(rq.Body) < h.Feat.ChunkMinLen
	}
	res := newResult(http.StatusAccepted)
	u.sessionHeaders(res)
	res.mutated = true
	return res
}

func (h *Host) serveUploadPut(rq *Request) *result {
	u, bad := h.session(rq)
	if bad != nil {
		return bad
	}
	dig := rq.Query.Get("digest")
	if !reDigest.MatchString(dig) {
		return errResult(http.StatusBadRequest, "DIGEST_INVALID", "missing or invalid digest")
	}
	if bad = h.checkAppend(rq, u); bad != nil {
		return bad
	}
	// the final body only becomes part of the session when the digest verifies, so a
	// failed PUT can be repeated
	all := append(clone(u.Data), rq.Body...)
	alg, _, _ := strings.Cut(dig, ":")
	if got := Digest(alg, all); got != dig {
		res := errResult(http.StatusBadRequest, "DIGEST_INVALID", "digest mismatch")
		res.note = fmt.Sprintf("digest mismatch: %d bytes received hash to %s", len(all), got)
		return res
	}
	h.commitBlob(rq.Repo, dig, all)
	delete(h.Uploads, u.ID)
	res := blobCreated(rq.Repo, dig)
	res.mutated = true
	return res
}

func (h *Host) serveUploadGet(rq *Request) *result {
	u, bad := h.session(rq)
	if bad != nil {
		return bad
	}
	res := newResult(http.StatusNoContent)
	u.sessionHeaders(res)
	return res
}

func (h *Host) serveUploadDelete(rq *Request) *result {
	u, bad := h.session(rq)
	if bad != nil {
		return bad
	}
	delete(h.Uploads, u.ID)
	res := newResult(http.StatusNoContent)
	res.mutated = true
	return res
}

// ----- manifests -----

// resolve maps the reference of a manifest request to the digest it is stored under.
func resolve(r *Repo, rq *Request) (string, bool) {
	if r == nil {
		return "", false
	}
	dig := rq.Ref
	if rq.IsTag {
		var ok bool
		if dig, ok = r.Tags[rq.Ref]; !ok {
			return "", false
		}
	}
	_, ok := r.Manifests[dig]
	return dig, ok
}

func (h *Host) checkManifestRef(rq *Request) *result {
	if rq.IsTag {
		if !reTag.MatchString(rq.Ref) {
			return errResult(http.StatusBadRequest, "TAG_INVALID", "invalid tag")
		}
	} else if !reDigest.MatchString(rq.Ref) {
		return errResult(http.StatusBadRequest, "DIGEST_INVALID", "invalid digest")
	}
	return nil
}

func (h *Host) serveManifestGet(rq *Request) *result {
	if bad := h.checkManifestRef(rq); bad != nil {
		return bad
	}
	r, _ := h.repo(rq.Repo, false)
	dig, ok := resolve(r, rq)
	if !ok {
		return errResult(http.StatusNotFound, "MANIFEST_UNKNOWN", "manifest unknown to registry")
	}
	m := r.Manifests[dig]
	res := newResult(http.StatusOK)
	if m.MediaType != "" {
		res.header.Set("Content-Type", m.MediaType)
	}
	res.header.Set("Content-Length", strconv.Itoa(len(m.Body)))
	if h.Feat.HeadDigest {
		res.header.Set("Docker-Content-Digest", dig)
	}
	if rq.Method != http.MethodHead {
		res.body = m.Body
	}
	return res
}

// manifestFields are the parts of a manifest body the model looks at.
type manifestFields struct {
	MediaType    string `json:"mediaType"`
	ArtifactType string `json:"artifactType"`
	Config       *struct {
		MediaType string `json:"mediaType"`
	} `json:"config"`
	Subject *struct {
		Digest string `json:"digest"`
	} `json:"subject"`
	Annotations map[string]string `json:"annotations"`
}

func parseManifest(body []byte) manifestFields {
	var f manifestFields
	_ = json.Unmarshal(body, &f) // bodies that are not JSON simply have no fields
	return f
}

func (h *Host) serveManifestPut(rq *Request) *result {
	if bad := h.checkManifestRef(rq); bad != nil {
		return bad
	}
	// The manifest is stored under exactly one digest: the reference when that is a
	// digest, else the digest named by ?digest= (how a client pushes by tag with a
	// non default algorithm), else the sha256 of the body.
	dig := ""
	switch {
	case !rq.IsTag:
		dig = rq.Ref
	case rq.Query.Get("digest") != "":
		dig = rq.Query.Get("digest")
		if !reDigest.MatchString(dig) {
			return errResult(http.StatusBadRequest, "DIGEST_INVALID", "invalid digest parameter")
		}
	default:
		dig = Digest("sha256", rq.Body)
	}
	alg, _, _ := strings.Cut(dig, ":")
	if got := Digest(alg, rq.Body); got != dig {
		res := errResult(http.StatusBadRequest, "DIGEST_INVALID", "digest mismatch")
		res.note = "digest mismatch: body hashes to " + got
		return res
	}
	fields := parseManifest(rq.Body)
	mt := rq.Header.Get("Content-Type")
	if mt == "" {
		mt = fields.MediaType
	}
	r, changed := h.repo(rq.Repo, true)
	if old, ok := r.Manifests[dig]; !ok || old.MediaType != mt || !bytes.Equal(old.Body, rq.Body) {
		r.Manifests[dig] = Manifest{MediaType: mt, Body: clone(rq.Body)}
		changed = true
	}
	if rq.IsTag && r.Tags[rq.Ref] != dig {
		r.Tags[rq.Ref] = dig
		changed = true
	}
	res := newResult(http.StatusCreated)
	res.header.Set("Location", "/v2/"+rq.Repo+"/manifests/"+dig)
	res.header.Set("Docker-Content-Digest", dig)
	if h.Feat.ReferrersAPI && fields.Subject != nil && fields.Subject.Digest != "" {
		res.header.Set("OCI-Subject", fields.Subject.Digest)
	}
	res.mutated = changed
	return res
}

func (h *Host) serveManifestDelete(rq *Request) *result {
	if bad := h.checkManifestRef(rq); bad != nil {
		return bad
	}
	if rq.IsTag && !h.Feat.TagDelete {
		return errResult(http.StatusMethodNotAllowed, "UNSUPPORTED", "tag delete is not supported")
	}
	if !rq.IsTag && !h.Feat.ManifestDelete {
		return errResult(http.StatusMethodNotAllowed, "UNSUPPORTED", "manifest delete is not supported")
	}
	r, _ := h.repo(rq.Repo, false)
	if r == nil {
		return errResult(http.StatusNotFound, "MANIFEST_UNKNOWN", "manifest unknown to registry")
	}
	if rq.IsTag {
		if _, ok := r.Tags[rq.Ref]; !ok {
			return errResult(http.StatusNotFound, "MANIFEST_UNKNOWN", "tag unknown to registry")
		}
		delete(r.Tags, rq.Ref)
	} else {
		if _, ok := r.Manifests[rq.Ref]; !ok {
			return errResult(http.StatusNotFound, "MANIFEST_UNKNOWN", "manifest unknown to registry")
		}
		delete(r.Manifests, rq.Ref)
		for t, d := range r.Tags {
			if d == rq.Ref {
				delete(r.Tags, t)
			}
		}
	}
	res := newResult(http.StatusAccepted)
	res.mutated = true
	return res
}

// ----- listings -----

// pageBounds applies last=, n= and the host page size to a sorted list of keys and
// returns the half open interval of the page and the effective limit (0 = none).  More
// entries remain when end < len(keys).
func pageBounds(keys []string, q url.Values, pageSize int) (start, end, limit int) {
	if last := q.Get("last"); last != "" {
		start = sort.Search(len(keys), func(i int) bool { return keys[i] > last })
	}
	limit = pageSize
	if n, err := strconv.Atoi(q.Get("n")); err == nil && n > 0 && (limit <= 0 || n < limit) {
		limit = n
	}
	if limit < 0 {
		limit = 0
	}
	end = len(keys)
	if limit > 0 && start+limit < end {
		end = start + limit
	}
	return start, end, limit
}

// nextLink renders the Link header pointing at the page after lastKey.
func nextLink(path string, limit int, lastKey string, extra url.Values) string {
	q := "n=" + strconv.Itoa(limit) + "&last=" + url.QueryEscape(lastKey)
	if len(extra) > 0 {
		q += "&" + extra.Encode()
	}
	return "<" + path + "?" + q + `>; rel="next"`
}

func (h *Host) serveTagList(rq *Request) *result {
	r, _ := h.repo(rq.Repo, false)
	if r == nil {
		return errResult(http.StatusNotFound, "NAME_UNKNOWN", "repository name not known to registry")
	}
	tags := make([]string, 0, len(r.Tags))
	for t := range r.Tags {
		tags = append(tags, t)
	}
	sort.Strings(tags)
	start, end, limit := pageBounds(tags, rq.Query, h.Feat.PageSize)
	type tagList struct {
		Name string   `json:"name"`
		Tags []string `json:"tags"`
	}
	res := jsonResult(http.StatusOK, "application/json", tagList{Name: rq.Repo, Tags: tags[start:end]})
	if end < len(tags) {
		res.header.Set("Link", nextLink("/v2/"+rq.Repo+"/tags/list", limit, tags[end-1], nil))
	}
	return res
}

func (h *Host) serveCatalog(rq *Request) *result {
	repos := make([]string, 0, len(h.Repos))
	for name := range h.Repos {
		repos = append(repos, name)
	}
	sort.Strings(repos)
	start, end, limit := pageBounds(repos, rq.Query, h.Feat.PageSize)
	type catalog struct {
		Repositories []string `json:"repositories"`
	}
	res := jsonResult(http.StatusOK, "application/json", catalog{Repositories: repos[start:end]})
	if end < len(repos) {
		res.header.Set("Link", nextLink("/v2/_catalog", limit, repos[end-1], nil))
	}
	return res
}

const mtOCIIndex = "application/vnd.oci.image.index.v1+json"

func (h *Host) serveReferrers(rq *Request) *result {
	if !h.Feat.ReferrersAPI {
		return errResult(http.StatusNotFound, "NOT_FOUND", "referrers api is not supported")
	}
	if !reDigest.MatchString(rq.Ref) {
		return errResult(http.StatusBadRequest, "DIGEST_INVALID", "invalid digest")
	}
	type desc struct {
		MediaType    string            `json:"mediaType"`
		Digest       string            `json:"digest"`
		Size         int               `json:"size"`
		ArtifactType string            `json:"artifactType,omitempty"`
		Annotations  map[string]string `json:"annotations,omitempty"`
	}
	filter := rq.Query.Get("artifactType")
	byDigest := map[string]desc{}
	keys := []string{}
	if r, _ := h.repo(rq.Repo, false); r != nil { // an unknown repository has no referrers
		for dig, m := range r.Manifests {
			f := parseManifest(m.Body)
			if f.Subject == nil || f.Subject.Digest != rq.Ref {
				continue
			}
			at := f.ArtifactType
			if at == "" && f.Config != nil {
				at = f.Config.MediaType
			}
			if filter != "" && at != filter {
				continue
			}
			mt := m.MediaType
			if mt == "" {
				mt = f.MediaType
			}
			byDigest[dig] = desc{MediaType: mt, Digest: dig, Size: len(m.Body), ArtifactType: at, Annotations: f.Annotations}
			keys = append(keys, dig)
		}
	}
	sort.Strings(keys)
	start, end, limit := pageBounds(keys, rq.Query, h.Feat.PageSize)
	list := make([]desc, 0, end-start)
	for _, k := range keys[start:end] {
		list = append(list, byDigest[k])
	}
	type index struct {
		SchemaVersion int    `json:"schemaVersion"`
		MediaType     string `json:"mediaType"`
		Manifests     []desc `json:"manifests"`
	}
	res := jsonResult(http.StatusOK, mtOCIIndex, index{SchemaVersion: 2, MediaType: mtOCIIndex, Manifests: list})
	extra := url.Values{}
	if filter != "" {
		res.header.Set("OCI-Filters-Applied", "artifactType")
		extra.Set("artifactType", filter)
	}
	if end < len(keys) {
		res.header.Set("Link", nextLink("/v2/"+rq.Repo+"/referrers/"+rq.Ref, limit, keys[end-1], extra))
	}
	return res
}

// Package vtrace holds small helpers shared by the drivers: scenario input and trace output as
// JSON lines.
package vtrace

import (
	"bufio"
	"encoding/json"
	"fmt"
	"os"
	"sync"
)

// Event is one flat trace event: strings and ints only.
type Event map[string]any

// Trace is the record of one scenario executed on the real code.
type Trace struct {
	ID     string         `json:"id"`
	Header map[string]any `json:"header,omitempty"`
	Events []Event        `json:"events"`
	Meta   map[string]any `json:"meta,omitempty"` // not validated: drift notes, exactness, errors
}

// ReadLines calls fn for each non-empty line of a JSON-lines file.
func ReadLines(fn string, f func(line []byte) error) error {
	fh, err := os.Open(fn)
	if err != nil {
		return err
	}
	defer fh.Close()
	sc := bufio.NewScanner(fh)
	sc.Buffer(make([]byte, 1<<20), 1<<28)
	for sc.Scan() {
		b := sc.Bytes()
		if len(b) == 0 {
			continue
		}
		if err := f(append([]byte(nil), b...)); err != nil {
			return err
		}
	}
	return sc.Err()
}

// Writer appends traces to a JSON-lines file; safe for concurrent use.
type Writer struct {
	mu sync.Mutex
	f  *os.File
	w  *bufio.Writer
}

func NewWriter(fn string) (*Writer, error) {
	f, err := os.Create(fn)
	if err != nil {
		return nil, err
	}
	return &Writer{f: f, w: bufio.NewWriterSize(f, 1<<20)}, nil
}

func (w *Writer) Write(t *Trace) error {
	b, err := json.Marshal(t)
	if err != nil {
		return fmt.Errorf("marshal trace %s: %w", t.ID, err)
	}
	w.mu.Lock()
	defer w.mu.Unlock()
	_, err = w.w.Write(append(b, '\n'))
	return err
}

func (w *Writer) Close() error {
	w.mu.Lock()
	defer w.mu.Unlock()
	if err := w.w.Flush(); err != nil {
		return err
	}
	return w.f.Close()
}

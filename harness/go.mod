module github.com/regclient/regclient/zzverif

go 1.22

require (
	github.com/klauspost/compress v1.18.0
	github.com/opencontainers/go-digest v1.0.0
	github.com/regclient/regclient v0.0.0
	github.com/ulikunitz/xz v0.5.12
)

require (
	github.com/docker/libtrust v0.0.0-20160708172513-aabc10ec26b7 // indirect
	github.com/sirupsen/logrus v1.9.3 // indirect
	golang.org/x/sys v0.30.0 // indirect
)

replace github.com/regclient/regclient => /repo

module github.com/regclient/regclient/zzverif

go 1.24.0

require github.com/regclient/regclient v0.0.0

replace github.com/regclient/regclient => /repo

// x04drv executes TLC generated host-configuration scenarios (spec/HostConfGen.tla) on the real
// regclient code and records what happened, for the extra area X04 (how the effective
// per-registry host configuration is resolved).  It only records, it does not judge: the traces
// are validated by TLC against the monitor spec/HostConfProp.tla.
//
// Families (field "fam" of a scenario line):
//
//	merge    config.Host.Merge on a pair of records            -> event merge {b,n,a}
//	newname  config.HostNewDefName / HostNewName               -> event newname {hasdef,d,n,r}
//	json     json.Marshal / Unmarshal round trip of config.Host -> event json {h,h2,stable}
//	resolve  regclient.New(options...) for every prefix of the option list, then rc.Ping and
//	         rc.ManifestHead for the probe registries through the model registry (simreg):
//	         which address, scheme, path prefix, credentials and credential helper each
//	         request really used                               -> events default/host/dentry/req/done
//	regctl   the real regctl binary (config file, docker config, --host flags) behind an HTTP(S)
//	         proxy on 127.0.0.1 that plays every registry  -> events dentry/default/file/host/req/done
//	tls      regclient.New(WithConfigHost...) over a real TLS handshake on in-memory pipes, with
//	         the default transport or one transport given by the user -> events host/tls
//
// Invoked under the name docker-credential-<label> (a symlink made by the driver) it acts as a
// docker credential helper: it answers get / list deterministically and appends what it was
// asked to $X04_HELPER_DIR/helper.log.
package main

import (
	"bufio"
	"bytes"
	"context"
	"crypto/ecdsa"
	"crypto/elliptic"
	"crypto/rand"
	"crypto/tls"
	"crypto/x509"
	"crypto/x509/pkix"
	"encoding/base64"
	"encoding/json"
	"encoding/pem"
	"flag"
	"fmt"
	"io"
	"log"
	"math/big"
	"net"
	"net/http"
	"net/url"
	"os"
	"os/exec"
	"path/filepath"
	"sort"
	"strings"
	"sync"
	"time"

	"github.com/regclient/regclient"
	"github.com/regclient/regclient/config"
	"github.com/regclient/regclient/internal/timejson"
	"github.com/regclient/regclient/scheme/reg"
	"github.com/regclient/regclient/types/ref"
	"github.com/regclient/regclient/zzverif/simreg"
	"github.com/regclient/regclient/zzverif/vtrace"
)

const helperPre = "docker-credential-"

// ----------------------------------------------------------------------------- helper mode

type helperLine struct {
	Label  string `json:"label"`
	Op     string `json:"op"`
	Server string `json:"server"`
	User   string `json:"user"`
	Secret string `json:"secret"`
}

func helperMain(label string, args []string) int {
	dir := os.Getenv("X04_HELPER_DIR")
	if dir == "" || len(args) < 1 {
		return 1
	}
	in, _ := io.ReadAll(os.Stdin)
	server := strings.TrimSpace(string(in))
	ln := helperLine{Label: label, Op: args[0], Server: server}
	var out []byte
	switch args[0] {
	case "get":
		// helpers whose label ends in 2 hand out identity tokens
		if strings.HasSuffix(label, "2") {
			ln.User, ln.Secret = "<token>", "ht-"+label+"@"+server
		} else {
			ln.User, ln.Secret = "hu-"+label, "hs-"+label+"@"+server
		}
		out, _ = json.Marshal(map[string]string{"ServerURL": server, "Username": ln.User, "Secret": ln.Secret})
	case "list":
		b, err := os.ReadFile(filepath.Join(dir, "store-"+label+".json"))
		if err != nil {
			return 1
		}
		out = b
	default:
		return 1
	}
	f, err := os.OpenFile(filepath.Join(dir, "helper.log"), os.O_APPEND|os.O_CREATE|os.O_WRONLY, 0o600)
	if err != nil {
		return 1
	}
	b, _ := json.Marshal(ln)
	_, _ = f.Write(append(b, '\n'))
	_ = f.Close()
	_, _ = os.Stdout.Write(out)
	return 0
}

// --------------------------------------------------------------------- records <-> config.Host

// Rec is the abstract host record of the specs (spec/HostConfDefs.tla).
type Rec map[string]any

func (r Rec) s(k string) string {
	v, _ := r[k].(string)
	return v
}

func (r Rec) i(k string) int64 {
	switch v := r[k].(type) {
	case float64:
		return int64(v)
	case int:
		return int64(v)
	case int64:
		return v
	}
	return 0
}

// certs maps the labels of TLS material to PEM text (tls family only; nil: labels are kept)
type certs struct {
	pemOf map[string]string
}

func (c *certs) get(label string) string {
	if c == nil || label == "" {
		return label
	}
	if p, ok := c.pemOf[label]; ok {
		return p
	}
	return label
}

func toHost(r Rec, c *certs) config.Host {
	h := config.Host{
		Name:          r.s("name"),
		RegCert:       c.get(r.s("regcert")),
		ClientCert:    c.get(r.s("ccert")),
		ClientKey:     c.get(r.s("ckey")),
		Hostname:      r.s("hostname"),
		User:          r.s("user"),
		Pass:          r.s("pass"),
		Token:         r.s("token"),
		CredExpire:    timejson.Duration(time.Duration(r.i("expire")) * time.Hour),
		CredHost:      r.s("credhost"),
		PathPrefix:    r.s("prefix"),
		Priority:      uint(r.i("prio")),
		RepoAuth:      r.i("repoauth") == 1,
		API:           r.s("api"),
		BlobChunk:     r.i("chunk"),
		BlobMax:       r.i("bmax"),
		ReqPerSec:     float64(r.i("rps")),
		ReqConcurrent: r.i("conc"),
		Scheme:        r.s("scheme"),
	}
	_ = h.TLS.UnmarshalText([]byte(r.s("tls")))
	if l := r.s("helper"); l != "" {
		h.CredHelper = helperPre + l
	}
	if m := r.s("mirrors"); m != "" {
		h.Mirrors = strings.Split(m, ",")
	}
	if r.s("ao1") != "" || r.s("ao2") != "" {
		h.APIOpts = map[string]string{}
		if v := r.s("ao1"); v != "" {
			h.APIOpts["k1"] = v
		}
		if v := r.s("ao2"); v != "" {
			h.APIOpts["k2"] = v
		}
	}
	return h
}

func fromHost(h config.Host) Rec {
	tlsText, _ := h.TLS.MarshalText()
	exp := int64(-999)
	if time.Duration(h.CredExpire)%time.Hour == 0 {
		exp = int64(time.Duration(h.CredExpire) / time.Hour)
	}
	rps := int64(h.ReqPerSec)
	if float64(rps) != h.ReqPerSec {
		rps = -999
	}
	r := Rec{
		"name": h.Name, "tls": string(tlsText), "hostname": h.Hostname, "user": h.User, "pass": h.Pass,
		"token": h.Token, "helper": strings.TrimPrefix(h.CredHelper, helperPre), "expire": exp,
		"credhost": h.CredHost, "prefix": h.PathPrefix, "mirrors": strings.Join(h.Mirrors, ","),
		"prio": int64(h.Priority), "repoauth": b2i(h.RepoAuth), "ao1": h.APIOpts["k1"], "ao2": h.APIOpts["k2"],
		"chunk": h.BlobChunk, "bmax": h.BlobMax, "rps": rps, "conc": h.ReqConcurrent,
		"regcert": h.RegCert, "ccert": h.ClientCert, "ckey": h.ClientKey, "api": h.API, "scheme": h.Scheme,
	}
	for k := range h.APIOpts {
		if k != "k1" && k != "k2" {
			r["ao1"] = "!unexpected-key:" + k
		}
	}
	return r
}

func b2i(b bool) int64 {
	if b {
		return 1
	}
	return 0
}

// ------------------------------------------------------------------------------- scenarios

type dockerAuth struct {
	Key   string `json:"key"`
	User  string `json:"user"`
	Pass  string `json:"pass"`
	Token string `json:"token"`
}

type dockerHelper struct {
	Key    string `json:"key"`
	Helper string `json:"helper"`
}

type dockerList struct {
	Key  string `json:"key"`
	User string `json:"user"`
}

type dockerConf struct {
	Auths   []dockerAuth   `json:"auths"`
	Helpers []dockerHelper `json:"helpers"`
	Store   string         `json:"store"`
	List    []dockerList   `json:"list"`
}

type source struct {
	K  string      `json:"k"`
	Es []Rec       `json:"es"`
	D  Rec         `json:"d"`
	Dc *dockerConf `json:"dc"`
}

type probe struct {
	Kind string `json:"kind"`
	R    string `json:"r"`
}

type regctlHost struct {
	K string `json:"k"`
	H Rec    `json:"h"`
}

// regctlConf is a regctl set-up: docker / def are absent when they carry the field "none"
type regctlConf struct {
	Docker json.RawMessage `json:"docker"`
	Def    Rec             `json:"def"`
	Hosts  []regctlHost    `json:"hosts"`
	Flags  []Rec           `json:"flags"`
}

type scenario struct {
	ID     string      `json:"id"`
	Conf   *regctlConf `json:"conf"`
	Fam    string      `json:"fam"`
	B      Rec         `json:"b"`
	N      any         `json:"n"`
	D      Rec         `json:"d"`
	H      Rec         `json:"h"`
	HasDef int         `json:"hasdef"`
	Srcs   []source    `json:"srcs"`
	Probes []probe     `json:"probelist"`
	TMode  string      `json:"tmode"`
	Es     []Rec       `json:"es"`
	TProbe []string    `json:"probes"`
}

type driver struct {
	scratch   string
	helperDir string
	tlsEnv    *tlsEnv
	regctl    string
	proxy     *proxyEnv
}

// ---------------------------------------------------------------------------- direct calls

func (d *driver) runMerge(s *scenario, t *vtrace.Trace) {
	n, _ := s.N.(map[string]any)
	b := toHost(s.B, nil)
	err := (&b).Merge(toHost(Rec(n), nil), nil)
	t.Events = append(t.Events, vtrace.Event{"ev": "merge", "b": s.B, "n": Rec(n), "a": fromHost(b)})
	if err != nil {
		t.Meta["merge_err"] = err.Error()
	}
}

func (d *driver) runNewName(s *scenario, t *vtrace.Trace) {
	name, _ := s.N.(string)
	var h *config.Host
	if s.HasDef == 1 {
		def := toHost(s.D, nil)
		h = config.HostNewDefName(&def, name)
	} else {
		h = config.HostNewName(name)
	}
	t.Events = append(t.Events, vtrace.Event{"ev": "newname", "hasdef": s.HasDef, "d": s.D, "n": name, "r": fromHost(*h)})
}

func (d *driver) runJSON(s *scenario, t *vtrace.Trace) {
	h := toHost(s.H, nil)
	m1, err1 := json.Marshal(h)
	var h2 config.Host
	err2 := json.Unmarshal(m1, &h2)
	m2, err3 := json.Marshal(h2)
	stable := 0
	if err1 == nil && err2 == nil && err3 == nil && bytes.Equal(m1, m2) {
		stable = 1
	}
	want := Rec{}
	for k, v := range s.H {
		want[k] = v
	}
	want["name"] = "" // json:"-"
	// independent oracles: the document re-parsed generically and read by its documented keys,
	// and a document written by hand with the documented keys read by the real Unmarshal
	hdoc := docToRec(m1)
	written, _ := json.Marshal(hostJSON(s.H))
	var h3 config.Host
	hread := Rec{}
	if err := json.Unmarshal(written, &h3); err == nil {
		hread = fromHost(h3)
	} else {
		hread = fromHost(config.Host{})
		hread["api"] = "!unmarshal: " + err.Error()
	}
	t.Events = append(t.Events, vtrace.Event{"ev": "json", "h": want, "h2": fromHost(h2), "hdoc": hdoc, "hread": hread, "stable": stable})
	t.Meta["json"] = string(m1)
}

// docToRec reads a marshalled config.Host by the documented keys of the configuration file
// (encoding/json into a generic map; no regclient code involved)
func docToRec(doc []byte) Rec {
	r := fromHost(config.Host{})
	var m map[string]any
	if err := json.Unmarshal(doc, &m); err != nil {
		r["api"] = "!not a json object"
		return r
	}
	str := func(key, field string) {
		if v, ok := m[key].(string); ok {
			r[field] = v
		}
		delete(m, key)
	}
	num := func(key, field string) {
		if v, ok := m[key].(float64); ok {
			r[field] = int64(v)
		}
		delete(m, key)
	}
	str("tls", "tls")
	str("regcert", "regcert")
	str("clientCert", "ccert")
	str("clientKey", "ckey")
	str("hostname", "hostname")
	str("user", "user")
	str("pass", "pass")
	str("token", "token")
	str("credHost", "credhost")
	str("pathPrefix", "prefix")
	str("api", "api")
	str("scheme", "scheme")
	num("priority", "prio")
	num("blobChunk", "chunk")
	num("blobMax", "bmax")
	num("reqPerSec", "rps")
	num("reqConcurrent", "conc")
	if v, ok := m["credHelper"].(string); ok {
		r["helper"] = strings.TrimPrefix(v, helperPre)
	}
	delete(m, "credHelper")
	if v, ok := m["credExpire"].(string); ok {
		if dur, err := time.ParseDuration(v); err == nil && dur%time.Hour == 0 {
			r["expire"] = int64(dur / time.Hour)
		} else {
			r["expire"] = int64(-999)
		}
	}
	delete(m, "credExpire")
	if v, ok := m["repoAuth"].(bool); ok && v {
		r["repoauth"] = int64(1)
	}
	delete(m, "repoAuth")
	if v, ok := m["mirrors"].([]any); ok {
		ms := []string{}
		for _, x := range v {
			if sx, ok := x.(string); ok {
				ms = append(ms, sx)
			}
		}
		r["mirrors"] = strings.Join(ms, ",")
	}
	delete(m, "mirrors")
	if v, ok := m["apiOpts"].(map[string]any); ok {
		if x, ok := v["k1"].(string); ok {
			r["ao1"] = x
		}
		if x, ok := v["k2"].(string); ok {
			r["ao2"] = x
		}
	}
	delete(m, "apiOpts")
	for k := range m {
		r["api"] = "!undocumented key " + k
	}
	return r
}

// ---------------------------------------------------------------- resolve: model registry

var regAddrs = []string{"r1.test", "r2.test", "m1.test", "u.test", "alt.test", "docker.io",
	"registry-1.docker.io", "index.docker.io"}

const authHost = "auth.test"

type authRec struct {
	service string
	method  string
	user    string
	pass    string
	rtoken  string
	helper  []helperLine
}

type resolveEnv struct {
	net       *simreg.Net
	mu        sync.Mutex
	auths     []authRec
	helperLog string
	helperOff int64
}

func (e *resolveEnv) newHelperLines() []helperLine {
	f, err := os.Open(e.helperLog)
	if err != nil {
		return nil
	}
	defer f.Close()
	if _, err := f.Seek(e.helperOff, io.SeekStart); err != nil {
		return nil
	}
	b, _ := io.ReadAll(f)
	e.helperOff += int64(len(b))
	var out []helperLine
	for _, ln := range bytes.Split(b, []byte("\n")) {
		if len(ln) == 0 {
			continue
		}
		var hl helperLine
		// only credential requests count; a credsStore is also asked to list its servers when the
		// docker config is loaded
		if json.Unmarshal(ln, &hl) == nil && hl.Op == "get" {
			out = append(out, hl)
		}
	}
	return out
}

func newResolveEnv(helperLog string) *resolveEnv {
	e := &resolveEnv{net: simreg.NewNet(), helperLog: helperLog}
	if st, err := os.Stat(helperLog); err == nil {
		e.helperOff = st.Size()
	}
	for _, a := range regAddrs {
		name := a
		h := e.net.AddHost(name, simreg.DefaultFeatures())
		h.Intercept = func(rq *simreg.Request) *simreg.Reply {
			if rq.Header.Get("Authorization") == "" {
				return &simreg.Reply{Status: http.StatusUnauthorized, Header: http.Header{
					"Www-Authenticate": {`Bearer realm="https://` + authHost + `/token",service="` + name + `"`}}}
			}
			return nil
		}
	}
	ah := e.net.AddHost(authHost, simreg.DefaultFeatures())
	ah.Intercept = func(rq *simreg.Request) *simreg.Reply {
		e.mu.Lock()
		defer e.mu.Unlock()
		rec := authRec{method: rq.Method, helper: e.newHelperLines()}
		if rq.Method == http.MethodPost {
			form, _ := url.ParseQuery(string(rq.Body))
			rec.service = form.Get("service")
			rec.rtoken = form.Get("refresh_token")
			rec.user = form.Get("username")
			rec.pass = form.Get("password")
			e.auths = append(e.auths, rec)
			return &simreg.Reply{Status: http.StatusUnauthorized}
		}
		rec.service = rq.Query.Get("service")
		if a := rq.Header.Get("Authorization"); strings.HasPrefix(a, "Basic ") {
			if dec, err := base64.StdEncoding.DecodeString(strings.TrimPrefix(a, "Basic ")); err == nil {
				up := strings.SplitN(string(dec), ":", 2)
				rec.user = up[0]
				if len(up) == 2 {
					rec.pass = up[1]
				}
			}
		}
		e.auths = append(e.auths, rec)
		body, _ := json.Marshal(map[string]any{"token": "tk-" + rec.service, "expires_in": 300})
		return &simreg.Reply{Status: http.StatusOK, Header: http.Header{"Content-Type": {"application/json"}}, Body: body}
	}
	return e
}

const probeRepo = "lib/img"
const probeTag = "v1"

// prefixOf recovers the configured path prefix from a request path
func prefixOf(kind, path string) string {
	p := strings.TrimPrefix(path, "/v2")
	if kind == "head" {
		p = strings.TrimSuffix(p, "/"+probeRepo+"/manifests/"+probeTag)
	} else {
		p = strings.TrimSuffix(p, "/")
	}
	return strings.TrimPrefix(p, "/")
}

func (d *driver) probeResolve(opts []regclient.Opt, p probe, t *vtrace.Trace) {
	env := newResolveEnv(filepath.Join(d.helperDir, "helper.log"))
	all := append([]regclient.Opt{}, opts...)
	all = append(all, regclient.WithRegOpts(reg.WithHTTPClient(&http.Client{Transport: env.net}),
		reg.WithDelay(time.Millisecond, 5*time.Millisecond), reg.WithRetryLimit(20)))
	rc := regclient.New(all...)
	ctx, cancel := context.WithTimeout(context.Background(), 20*time.Second)
	defer cancel()
	var err error
	if p.Kind == "ping" {
		var r ref.Ref
		r, err = ref.NewHost(p.R)
		if err == nil {
			_, err = rc.Ping(ctx, r)
		}
	} else {
		var r ref.Ref
		r, err = ref.New(p.R + "/" + probeRepo + ":" + probeTag)
		if err == nil {
			_, err = rc.ManifestHead(ctx, r)
		}
	}
	errS := ""
	if err != nil {
		errS = err.Error()
	}
	env.mu.Lock()
	leftover := env.newHelperLines()
	env.mu.Unlock()
	reqs := []proxyReq{}
	ai := 0
	for _, rq := range env.net.Log() {
		if rq.Host == authHost {
			// the intercept appended one record per request to the token service, in this order
			if ai < len(env.auths) {
				reqs = append(reqs, proxyReq{auth: &env.auths[ai]})
				ai++
			}
			continue
		}
		u, _ := url.Parse(rq.URL)
		reqs = append(reqs, proxyReq{host: rq.Host, scheme: u.Scheme, path: rq.Path, hasAuth: rq.Header.Get("Authorization") != ""})
	}
	d.condense(reqs, leftover, p, t, errS)
}

// condense turns the ordered log of one probe into events.  A request without Authorization
// header opens an exchange with that address (the registries answer 401); the token requests for
// that service and the authorized retry belong to it.  One req event per distinct exchange, in
// order of first occurrence, and a closing done event.
func (d *driver) condense(reqs []proxyReq, leftover []helperLine, p probe, t *vtrace.Trace, errS string) {
	type exch struct {
		o                 map[string]any
		nget, npost, nhlp int
	}
	var all []*exch
	latest := map[string]*exch{}
	addrs := []string{}
	addrSeen := map[string]bool{}
	for _, rq := range reqs {
		if rq.auth != nil {
			a := rq.auth
			x := latest[a.service]
			if x == nil {
				t.Meta["inconsistent"] = "token request for " + a.service + " without a request to it"
				continue
			}
			if a.method == http.MethodPost {
				x.npost++
				if x.npost == 1 {
					x.o["token"] = a.rtoken
				} else if x.o["token"] != a.rtoken {
					t.Meta["inconsistent"] = "refresh tokens differ within one exchange with " + a.service
				}
			} else {
				x.nget++
				if x.nget == 1 {
					x.o["user"], x.o["pass"] = a.user, a.pass
				} else if x.o["user"] != a.user || x.o["pass"] != a.pass {
					t.Meta["inconsistent"] = "basic credentials differ within one exchange with " + a.service
				}
			}
			for _, hl := range a.helper {
				x.nhlp++
				if x.nhlp > 1 {
					t.Meta["inconsistent"] = "more than one helper call within one exchange with " + a.service
					continue
				}
				x.o["hasked"], x.o["hserver"] = hl.Label, hl.Server
				if hl.User == "<token>" {
					x.o["htok"] = hl.Secret
				} else {
					x.o["huser"], x.o["hpass"] = hl.User, hl.Secret
				}
			}
			continue
		}
		if !addrSeen[rq.host] {
			addrSeen[rq.host] = true
			addrs = append(addrs, rq.host)
		}
		prefix := prefixOf(p.Kind, rq.path)
		if x := latest[rq.host]; rq.hasAuth && x != nil && x.o["scheme"] == rq.scheme && x.o["prefix"] == prefix {
			continue // the authorized retry of the open exchange
		}
		x := &exch{o: map[string]any{"addr": rq.host, "scheme": rq.scheme, "prefix": prefix, "user": "", "pass": "",
			"token": "", "hasked": "", "hserver": "", "huser": "", "hpass": "", "htok": ""}}
		all = append(all, x)
		latest[rq.host] = x
	}
	emitted := map[string]bool{}
	for _, x := range all {
		b, _ := json.Marshal(x.o)
		if emitted[string(b)] {
			continue
		}
		emitted[string(b)] = true
		t.Events = append(t.Events, vtrace.Event{"ev": "req", "kind": p.Kind, "r": p.R, "o": x.o})
	}
	if len(leftover) > 0 {
		t.Meta["inconsistent"] = fmt.Sprintf("helper call without token request: %+v", leftover)
	}
	sort.Strings(addrs)
	t.Events = append(t.Events, vtrace.Event{"ev": "done", "kind": p.Kind, "r": p.R, "addrs": addrs, "err": errS})
}

func (d *driver) writeDocker(s *scenario, idx int, dc *dockerConf) (string, []vtrace.Event, error) {
	type authJSON struct {
		Username      string `json:"username,omitempty"`
		Password      string `json:"password,omitempty"`
		Auth          string `json:"auth,omitempty"`
		IdentityToken string `json:"identitytoken,omitempty"`
	}
	doc := map[string]any{}
	auths := map[string]authJSON{}
	evs := []vtrace.Event{}
	helperOf := map[string]string{}
	for _, h := range dc.Helpers {
		helperOf[h.Key] = h.Helper
	}
	hasAuth := map[string]bool{}
	for i, a := range dc.Auths {
		aj := authJSON{IdentityToken: a.Token}
		// alternate between the two spellings of user:password docker writes
		if (idx+i)%2 == 0 && a.User != "" && a.Pass != "" {
			aj.Auth = base64.StdEncoding.EncodeToString([]byte(a.User + ":" + a.Pass))
		} else {
			aj.Username, aj.Password = a.User, a.Pass
		}
		auths[a.Key] = aj
		hasAuth[a.Key] = true
		evs = append(evs, vtrace.Event{"ev": "dentry", "key": a.Key, "user": a.User, "pass": a.Pass,
			"token": a.Token, "helper": helperOf[a.Key]})
	}
	doc["auths"] = auths
	if len(dc.Helpers) > 0 {
		doc["credHelpers"] = helperOf
		for _, h := range dc.Helpers {
			if !hasAuth[h.Key] {
				evs = append(evs, vtrace.Event{"ev": "dentry", "key": h.Key, "user": "", "pass": "", "token": "", "helper": h.Helper})
			}
		}
	}
	if dc.Store != "" {
		doc["credsStore"] = dc.Store
		list := map[string]string{}
		for _, l := range dc.List {
			list[l.Key] = l.User
			evs = append(evs, vtrace.Event{"ev": "dentry", "key": l.Key, "user": l.User, "pass": "", "token": "", "helper": dc.Store})
		}
		b, _ := json.Marshal(list)
		if err := os.WriteFile(filepath.Join(d.helperDir, "store-"+dc.Store+".json"), b, 0o600); err != nil {
			return "", nil, err
		}
	}
	b, _ := json.MarshalIndent(doc, "", " ")
	fn := filepath.Join(d.scratch, fmt.Sprintf("docker-%s-%d.json", s.ID, idx))
	if err := os.WriteFile(fn, b, 0o600); err != nil {
		return "", nil, err
	}
	return fn, evs, nil
}

func (d *driver) runResolve(s *scenario, t *vtrace.Trace) error {
	opts := []regclient.Opt{}
	for i, src := range s.Srcs {
		switch src.K {
		case "host":
			hs := []config.Host{}
			for _, e := range src.Es {
				hs = append(hs, toHost(e, nil))
				t.Events = append(t.Events, vtrace.Event{"ev": "host", "e": e})
			}
			opts = append(opts, regclient.WithConfigHost(hs...))
		case "default":
			opts = append(opts, regclient.WithConfigHostDefault(toHost(src.D, nil)))
			t.Events = append(t.Events, vtrace.Event{"ev": "default", "d": src.D})
		case "docker":
			fn, evs, err := d.writeDocker(s, i, src.Dc)
			if err != nil {
				return err
			}
			opts = append(opts, regclient.WithDockerCredsFile(fn))
			t.Events = append(t.Events, evs...)
		default:
			return fmt.Errorf("unknown source kind %q", src.K)
		}
		for _, p := range s.Probes {
			d.probeResolve(opts, p, t)
		}
	}
	return nil
}

// ------------------------------------------------------ regctl: the real binary behind a proxy

// proxyEnv is an HTTP(S) proxy on 127.0.0.1 that answers for every registry and for the token
// service itself: plain requests arrive with an absolute URL, https requests through CONNECT, which
// is answered with a certificate for the requested name signed by a CA the regctl process trusts
// (SSL_CERT_FILE).  It records what it was asked, like the model registry does in the resolve family.
type proxyEnv struct {
	addr      string
	caPEM     string
	caCert    *x509.Certificate
	caKey     *ecdsa.PrivateKey
	mu        sync.Mutex
	leaf      map[string]*tls.Certificate
	reqs      []proxyReq
	helperLog string
	helperOff int64
}

// proxyReq is one item of the ordered log of a probe: a request to a registry address, or (auth
// set) a request to the token service
type proxyReq struct {
	host, scheme, path string
	hasAuth            bool
	auth               *authRec
}

func newProxyEnv(helperLog string) (*proxyEnv, error) {
	key, err := ecdsa.GenerateKey(elliptic.P256(), rand.Reader)
	if err != nil {
		return nil, err
	}
	tmpl := &x509.Certificate{
		SerialNumber: big.NewInt(1), Subject: pkix.Name{CommonName: "x04 proxy ca"},
		NotBefore: time.Now().Add(-time.Hour), NotAfter: time.Now().Add(24 * time.Hour),
		KeyUsage: x509.KeyUsageCertSign | x509.KeyUsageDigitalSignature, BasicConstraintsValid: true, IsCA: true,
	}
	der, err := x509.CreateCertificate(rand.Reader, tmpl, tmpl, &key.PublicKey, key)
	if err != nil {
		return nil, err
	}
	ca, err := x509.ParseCertificate(der)
	if err != nil {
		return nil, err
	}
	p := &proxyEnv{caPEM: pemCert(der), caCert: ca, caKey: key, leaf: map[string]*tls.Certificate{}, helperLog: helperLog}
	ln, err := net.Listen("tcp", "127.0.0.1:0")
	if err != nil {
		return nil, err
	}
	p.addr = ln.Addr().String()
	go func() {
		for {
			c, err := ln.Accept()
			if err != nil {
				return
			}
			go p.serveConn(c, "http", "")
		}
	}()
	return p, nil
}

func (p *proxyEnv) leafFor(host string) (*tls.Certificate, error) {
	p.mu.Lock()
	defer p.mu.Unlock()
	if c, ok := p.leaf[host]; ok {
		return c, nil
	}
	key, err := ecdsa.GenerateKey(elliptic.P256(), rand.Reader)
	if err != nil {
		return nil, err
	}
	serial, _ := rand.Int(rand.Reader, big.NewInt(1<<62))
	tmpl := &x509.Certificate{
		SerialNumber: serial, Subject: pkix.Name{CommonName: host}, DNSNames: []string{host},
		NotBefore: time.Now().Add(-time.Hour), NotAfter: time.Now().Add(24 * time.Hour),
		KeyUsage: x509.KeyUsageDigitalSignature, ExtKeyUsage: []x509.ExtKeyUsage{x509.ExtKeyUsageServerAuth},
	}
	der, err := x509.CreateCertificate(rand.Reader, tmpl, p.caCert, &key.PublicKey, p.caKey)
	if err != nil {
		return nil, err
	}
	c := &tls.Certificate{Certificate: [][]byte{der}, PrivateKey: key}
	p.leaf[host] = c
	return c, nil
}

func (p *proxyEnv) newHelperLines() []helperLine {
	e := resolveEnv{helperLog: p.helperLog, helperOff: p.helperOff}
	out := e.newHelperLines()
	p.helperOff = e.helperOff
	return out
}

// serveConn answers the requests of one connection; tunnel is the host of an established CONNECT
func (p *proxyEnv) serveConn(c net.Conn, scheme, tunnel string) {
	defer c.Close()
	br := bufio.NewReader(c)
	for {
		_ = c.SetReadDeadline(time.Now().Add(30 * time.Second))
		req, err := http.ReadRequest(br)
		if err != nil {
			return
		}
		body, _ := io.ReadAll(req.Body)
		if req.Method == http.MethodConnect {
			host, _, err := net.SplitHostPort(req.Host)
			if err != nil {
				host = req.Host
			}
			leaf, err := p.leafFor(host)
			if err != nil {
				return
			}
			_, _ = io.WriteString(c, "HTTP/1.1 200 Connection Established\r\n\r\n")
			tc := tls.Server(c, &tls.Config{Certificates: []tls.Certificate{*leaf}, MinVersion: tls.VersionTLS12})
			if err := tc.Handshake(); err != nil {
				p.mu.Lock()
				p.reqs = append(p.reqs, proxyReq{host: host, scheme: "https-handshake-failed", path: err.Error()})
				p.mu.Unlock()
				return
			}
			p.serveConn(tc, "https", host)
			return
		}
		host := tunnel
		if host == "" {
			host = req.URL.Host
		}
		if h, port, err := net.SplitHostPort(host); err == nil && (port == "80" || port == "443") {
			host = h
		}
		status, hdr, out := p.answer(req, body, scheme, host)
		var b bytes.Buffer
		fmt.Fprintf(&b, "HTTP/1.1 %d %s\r\n", status, http.StatusText(status))
		for k, v := range hdr {
			fmt.Fprintf(&b, "%s: %s\r\n", k, v)
		}
		if req.Method == http.MethodHead {
			out = nil
		}
		fmt.Fprintf(&b, "Content-Length: %d\r\n\r\n", len(out))
		b.Write(out)
		if _, err := c.Write(b.Bytes()); err != nil {
			return
		}
	}
}

func (p *proxyEnv) answer(req *http.Request, body []byte, scheme, host string) (int, map[string]string, []byte) {
	p.mu.Lock()
	defer p.mu.Unlock()
	if host == authHost {
		rec := &authRec{method: req.Method, helper: p.newHelperLines()}
		p.reqs = append(p.reqs, proxyReq{auth: rec})
		if req.Method == http.MethodPost {
			form, _ := url.ParseQuery(string(body))
			rec.service, rec.rtoken = form.Get("service"), form.Get("refresh_token")
			return http.StatusUnauthorized, nil, nil
		}
		rec.service = req.URL.Query().Get("service")
		if u, pw, ok := req.BasicAuth(); ok {
			rec.user, rec.pass = u, pw
		}
		out, _ := json.Marshal(map[string]any{"token": "tk-" + rec.service, "expires_in": 300})
		return http.StatusOK, map[string]string{"Content-Type": "application/json"}, out
	}
	p.reqs = append(p.reqs, proxyReq{host: host, scheme: scheme, path: req.URL.Path, hasAuth: req.Header.Get("Authorization") != ""})
	if req.Header.Get("Authorization") == "" {
		return http.StatusUnauthorized, map[string]string{
			"Www-Authenticate": `Bearer realm="http://` + authHost + `/token",service="` + host + `"`}, nil
	}
	if req.URL.Path == "/v2/" {
		return http.StatusOK, nil, nil
	}
	return http.StatusNotFound, nil, nil
}

// hostJSON writes a host record in the documented syntax of the regctl config file (independent
// of the marshaller of config.Host)
func hostJSON(r Rec) map[string]any {
	m := map[string]any{}
	put := func(k, v string) {
		if v != "" {
			m[k] = v
		}
	}
	putN := func(k string, v int64) {
		if v != 0 {
			m[k] = v
		}
	}
	put("tls", r.s("tls"))
	put("regcert", r.s("regcert"))
	put("clientCert", r.s("ccert"))
	put("clientKey", r.s("ckey"))
	put("hostname", r.s("hostname"))
	put("user", r.s("user"))
	put("pass", r.s("pass"))
	put("token", r.s("token"))
	if l := r.s("helper"); l != "" {
		m["credHelper"] = helperPre + l
	}
	if v := r.i("expire"); v != 0 {
		m["credExpire"] = (time.Duration(v) * time.Hour).String()
	}
	put("credHost", r.s("credhost"))
	put("pathPrefix", r.s("prefix"))
	if ms := r.s("mirrors"); ms != "" {
		m["mirrors"] = strings.Split(ms, ",")
	}
	putN("priority", r.i("prio"))
	if r.i("repoauth") == 1 {
		m["repoAuth"] = true
	}
	put("api", r.s("api"))
	ao := map[string]string{}
	if v := r.s("ao1"); v != "" {
		ao["k1"] = v
	}
	if v := r.s("ao2"); v != "" {
		ao["k2"] = v
	}
	if len(ao) > 0 {
		m["apiOpts"] = ao
	}
	putN("blobChunk", r.i("chunk"))
	putN("blobMax", r.i("bmax"))
	putN("reqPerSec", r.i("rps"))
	putN("reqConcurrent", r.i("conc"))
	put("scheme", r.s("scheme"))
	return m
}

func isNone(raw json.RawMessage) bool {
	var m map[string]any
	if len(raw) == 0 || json.Unmarshal(raw, &m) != nil {
		return true
	}
	_, none := m["none"]
	return none
}

func (d *driver) runRegctl(s *scenario, t *vtrace.Trace) error {
	if d.regctl == "" {
		return fmt.Errorf("family regctl needs -regctl")
	}
	if d.proxy == nil {
		p, err := newProxyEnv(filepath.Join(d.helperDir, "helper.log"))
		if err != nil {
			return err
		}
		d.proxy = p
		if err := os.WriteFile(filepath.Join(d.scratch, "proxy-ca.pem"), []byte(p.caPEM), 0o600); err != nil {
			return err
		}
	}
	p := d.proxy
	dir := filepath.Join(d.scratch, "regctl-"+s.ID)
	dockerDir := filepath.Join(dir, "docker")
	if err := os.MkdirAll(dockerDir, 0o700); err != nil {
		return err
	}
	// the docker config (an empty one when the scenario has none)
	if !isNone(s.Conf.Docker) {
		var dc dockerConf
		if err := json.Unmarshal(s.Conf.Docker, &dc); err != nil {
			return err
		}
		fn, evs, err := d.writeDocker(s, 0, &dc)
		if err != nil {
			return err
		}
		b, err := os.ReadFile(fn)
		if err != nil {
			return err
		}
		if err := os.WriteFile(filepath.Join(dockerDir, "config.json"), b, 0o600); err != nil {
			return err
		}
		t.Events = append(t.Events, evs...)
	}
	conf := map[string]any{}
	if _, none := s.Conf.Def["none"]; !none && s.Conf.Def != nil {
		conf["hostDefault"] = hostJSON(s.Conf.Def)
		t.Events = append(t.Events, vtrace.Event{"ev": "default", "d": s.Conf.Def})
	}
	hosts := map[string]any{}
	for _, h := range s.Conf.Hosts {
		hosts[h.K] = hostJSON(h.H)
		e := Rec{}
		for k, v := range h.H {
			e[k] = v
		}
		e["name"] = h.K
		t.Events = append(t.Events, vtrace.Event{"ev": "file", "e": e})
	}
	if len(hosts) > 0 {
		conf["hosts"] = hosts
	}
	cb, _ := json.MarshalIndent(conf, "", "  ")
	confFile := filepath.Join(dir, "config.json")
	if err := os.WriteFile(confFile, cb, 0o600); err != nil {
		return err
	}
	args := []string{}
	for _, f := range s.Conf.Flags {
		v := "reg=" + f.s("name")
		if f.s("user") != "" {
			v += ",user=" + f.s("user") + ",pass=" + f.s("pass")
		}
		if f.s("tls") != "" {
			v += ",tls=" + f.s("tls")
		}
		args = append(args, "--host", v)
		t.Events = append(t.Events, vtrace.Event{"ev": "host", "e": f})
	}
	env := []string{
		"HOME=" + dir, "PATH=" + os.Getenv("PATH"), "X04_HELPER_DIR=" + d.helperDir,
		"REGCTL_CONFIG=" + confFile, "DOCKER_CONFIG=" + dockerDir,
		"HTTP_PROXY=http://" + p.addr, "HTTPS_PROXY=http://" + p.addr, "NO_PROXY=",
		"SSL_CERT_FILE=" + filepath.Join(d.scratch, "proxy-ca.pem"), "SSL_CERT_DIR=" + filepath.Join(dir, "no-certs"),
	}
	for _, pr := range s.Probes {
		p.mu.Lock()
		p.reqs = nil
		_ = p.newHelperLines()
		p.mu.Unlock()
		ctx, cancel := context.WithTimeout(context.Background(), 60*time.Second)
		cmd := exec.CommandContext(ctx, d.regctl, append(append([]string{}, args...), "manifest", "head", pr.R+"/"+probeRepo+":"+probeTag)...)
		cmd.Env = env
		cmd.Dir = dir
		outB, runErr := cmd.CombinedOutput()
		timedOut := ctx.Err() != nil
		cancel()
		p.mu.Lock()
		reqs := p.reqs
		leftover := p.newHelperLines()
		p.mu.Unlock()
		if timedOut {
			return fmt.Errorf("regctl timed out: %s", outB)
		}
		d.condense(reqs, leftover, pr, t, errText(runErr, outB))
	}
	return nil
}

func errText(err error, out []byte) string {
	if err == nil {
		return ""
	}
	// the last line is the error message, the lines before are time stamped log output
	s := strings.TrimSpace(string(out))
	if i := strings.LastIndex(s, "\n"); i >= 0 {
		s = s[i+1:]
	}
	return err.Error() + ": " + s
}

// ------------------------------------------------------------------- tls: pipes and servers

type tlsSeen struct {
	host  string
	tls   bool
	ccert string
}

type pipeListener struct {
	ch   chan net.Conn
	done chan struct{}
}

func (l *pipeListener) Accept() (net.Conn, error) {
	select {
	case c := <-l.ch:
		return c, nil
	case <-l.done:
		return nil, net.ErrClosed
	}
}
func (l *pipeListener) Close() error   { return nil }
func (l *pipeListener) Addr() net.Addr { return &net.TCPAddr{IP: net.IPv4(127, 0, 0, 1)} }

type tlsEnv struct {
	certs   *certs
	srvCert map[string]*tls.Certificate
	plain   *pipeListener
	secure  *pipeListener
	mu      sync.Mutex
	seen    []tlsSeen
	dialed  []string
}

func pemCert(der []byte) string {
	return string(pem.EncodeToMemory(&pem.Block{Type: "CERTIFICATE", Bytes: der}))
}

func selfSigned(cn string, dns []string, ca bool) (certPEM, keyPEM string, cert *tls.Certificate, err error) {
	key, err := ecdsa.GenerateKey(elliptic.P256(), rand.Reader)
	if err != nil {
		return "", "", nil, err
	}
	serial, _ := rand.Int(rand.Reader, big.NewInt(1<<62))
	tmpl := &x509.Certificate{
		SerialNumber: serial, Subject: pkix.Name{CommonName: cn}, DNSNames: dns,
		NotBefore: time.Now().Add(-time.Hour), NotAfter: time.Now().Add(24 * time.Hour),
		KeyUsage:              x509.KeyUsageDigitalSignature | x509.KeyUsageCertSign,
		ExtKeyUsage:           []x509.ExtKeyUsage{x509.ExtKeyUsageServerAuth, x509.ExtKeyUsageClientAuth},
		BasicConstraintsValid: true, IsCA: ca,
	}
	der, err := x509.CreateCertificate(rand.Reader, tmpl, tmpl, &key.PublicKey, key)
	if err != nil {
		return "", "", nil, err
	}
	kb, err := x509.MarshalECPrivateKey(key)
	if err != nil {
		return "", "", nil, err
	}
	certPEM = pemCert(der)
	keyPEM = string(pem.EncodeToMemory(&pem.Block{Type: "EC PRIVATE KEY", Bytes: kb}))
	c, err := tls.X509KeyPair([]byte(certPEM), []byte(keyPEM))
	if err != nil {
		return "", "", nil, err
	}
	return certPEM, keyPEM, &c, nil
}

func newTLSEnv() (*tlsEnv, error) {
	e := &tlsEnv{certs: &certs{pemOf: map[string]string{}}, srvCert: map[string]*tls.Certificate{},
		plain:  &pipeListener{ch: make(chan net.Conn), done: make(chan struct{})},
		secure: &pipeListener{ch: make(chan net.Conn), done: make(chan struct{})}}
	for _, a := range []string{"r1.test", "r2.test", "alt.test", "u.test", "m1.test"} {
		cp, _, c, err := selfSigned(a, []string{a}, true)
		if err != nil {
			return nil, err
		}
		e.certs.pemOf["ca-"+a] = cp
		e.srvCert[a] = c
	}
	for _, l := range []string{"1", "2"} {
		cp, kp, _, err := selfSigned("cc"+l, nil, false)
		if err != nil {
			return nil, err
		}
		e.certs.pemOf["cc"+l] = cp
		e.certs.pemOf["ck"+l] = kp
	}
	handler := http.HandlerFunc(func(w http.ResponseWriter, r *http.Request) {
		s := tlsSeen{host: r.Host, tls: r.TLS != nil}
		if r.TLS != nil && len(r.TLS.PeerCertificates) > 0 {
			s.ccert = r.TLS.PeerCertificates[0].Subject.CommonName
		}
		e.mu.Lock()
		e.seen = append(e.seen, s)
		e.mu.Unlock()
		w.Header().Set("Docker-Distribution-API-Version", "registry/2.0")
		w.WriteHeader(http.StatusOK)
	})
	quiet := log.New(io.Discard, "", 0)
	go func() { _ = (&http.Server{Handler: handler, ErrorLog: quiet}).Serve(e.plain) }()
	tcfg := &tls.Config{
		MinVersion: tls.VersionTLS12,
		ClientAuth: tls.RequestClientCert,
		GetCertificate: func(hello *tls.ClientHelloInfo) (*tls.Certificate, error) {
			if c, ok := e.srvCert[hello.ServerName]; ok {
				return c, nil
			}
			return nil, fmt.Errorf("no certificate for %q", hello.ServerName)
		},
	}
	go func() { _ = (&http.Server{Handler: handler, ErrorLog: quiet}).Serve(tls.NewListener(e.secure, tcfg)) }()
	return e, nil
}

func (e *tlsEnv) dial(ctx context.Context, network, addr string) (net.Conn, error) {
	host, port, err := net.SplitHostPort(addr)
	if err != nil {
		return nil, err
	}
	e.mu.Lock()
	e.dialed = append(e.dialed, host)
	e.mu.Unlock()
	c1, c2 := net.Pipe()
	l := e.plain
	if port == "443" {
		l = e.secure
	}
	select {
	case l.ch <- c2:
		return c1, nil
	case <-ctx.Done():
		return nil, ctx.Err()
	}
}

func (d *driver) runTLS(s *scenario, t *vtrace.Trace) error {
	if d.tlsEnv == nil {
		e, err := newTLSEnv()
		if err != nil {
			return err
		}
		d.tlsEnv = e
	}
	e := d.tlsEnv
	hs := []config.Host{}
	for _, r := range s.Es {
		hs = append(hs, toHost(r, e.certs))
		t.Events = append(t.Events, vtrace.Event{"ev": "host", "e": r})
	}
	tr := &http.Transport{DialContext: e.dial, DisableKeepAlives: true}
	opts := []regclient.Opt{regclient.WithConfigHost(hs...)}
	regOpts := []reg.Opts{reg.WithDelay(time.Millisecond, 2*time.Millisecond), reg.WithRetryLimit(2)}
	saved := http.DefaultTransport
	defer func() { http.DefaultTransport = saved }()
	switch s.TMode {
	case "default":
		// the path without any transport option: reghttp clones http.DefaultTransport per host
		http.DefaultTransport = tr
	case "shared":
		regOpts = append(regOpts, reg.WithTransport(tr))
	default:
		return fmt.Errorf("unknown transport mode %q", s.TMode)
	}
	rc := regclient.New(append(opts, regclient.WithRegOpts(regOpts...))...)
	for _, name := range s.TProbe {
		e.mu.Lock()
		e.seen, e.dialed = nil, nil
		e.mu.Unlock()
		r, err := ref.NewHost(name)
		if err != nil {
			return err
		}
		ctx, cancel := context.WithTimeout(context.Background(), 10*time.Second)
		_, err = rc.Ping(ctx, r)
		cancel()
		e.mu.Lock()
		seen, dialed := e.seen, e.dialed
		e.mu.Unlock()
		o := map[string]any{"addr": "", "conn": "", "ccert": ""}
		errS := ""
		if err != nil {
			errS = err.Error()
		}
		switch {
		case len(seen) > 0:
			h := seen[0].host
			if hh, _, e2 := net.SplitHostPort(h); e2 == nil {
				h = hh
			}
			o["addr"] = h
			o["conn"] = "plain"
			if seen[0].tls {
				o["conn"] = "tls-ok"
			}
			o["ccert"] = seen[0].ccert
		case len(dialed) > 0 && (strings.Contains(errS, "x509:") || strings.Contains(errS, "certificate")):
			o["addr"] = dialed[0]
			o["conn"] = "tls-verify-fail"
		default:
			o["conn"] = "error"
			t.Meta["tls_error"] = errS
		}
		t.Events = append(t.Events, vtrace.Event{"ev": "tls", "r": name, "o": o, "err": errS})
	}
	return nil
}

// ------------------------------------------------------------------------------------ main

func main() {
	base := filepath.Base(os.Args[0])
	if strings.HasPrefix(base, helperPre) {
		os.Exit(helperMain(strings.TrimPrefix(base, helperPre), os.Args[1:]))
	}
	in := flag.String("in", "", "scenarios (JSON lines)")
	out := flag.String("out", "", "traces (JSON lines)")
	scratch := flag.String("scratch", "", "scratch directory")
	regctl := flag.String("regctl", "", "regctl binary built from the tree under test (family regctl)")
	flag.Parse()
	if *in == "" || *out == "" || *scratch == "" {
		fmt.Fprintln(os.Stderr, "usage: x04drv -in scn.jsonl -out traces.jsonl -scratch dir")
		os.Exit(2)
	}
	d := &driver{scratch: *scratch, helperDir: filepath.Join(*scratch, "helper"), regctl: *regctl}
	binDir := filepath.Join(*scratch, "bin")
	for _, dir := range []string{d.helperDir, binDir} {
		if err := os.MkdirAll(dir, 0o700); err != nil {
			fatal(err)
		}
	}
	self, err := os.Executable()
	if err != nil {
		fatal(err)
	}
	for _, l := range []string{"h1", "h2", "s1", "s2"} {
		ln := filepath.Join(binDir, helperPre+l)
		_ = os.Remove(ln)
		if err := os.Symlink(self, ln); err != nil {
			fatal(err)
		}
	}
	os.Setenv("PATH", binDir+string(os.PathListSeparator)+os.Getenv("PATH"))
	os.Setenv("X04_HELPER_DIR", d.helperDir)
	// no ambient docker / proxy configuration
	for _, k := range []string{"DOCKER_CONFIG", "HTTP_PROXY", "HTTPS_PROXY", "http_proxy", "https_proxy", "NO_PROXY", "no_proxy"} {
		os.Unsetenv(k)
	}
	w, err := vtrace.NewWriter(*out)
	if err != nil {
		fatal(err)
	}
	n := 0
	err = vtrace.ReadLines(*in, func(line []byte) error {
		var s scenario
		if err := json.Unmarshal(line, &s); err != nil {
			return fmt.Errorf("scenario %d: %w", n, err)
		}
		n++
		t := &vtrace.Trace{ID: s.ID, Events: []vtrace.Event{}, Meta: map[string]any{"fam": s.Fam}}
		var err error
		switch s.Fam {
		case "merge":
			d.runMerge(&s, t)
		case "newname":
			d.runNewName(&s, t)
		case "json":
			d.runJSON(&s, t)
		case "resolve":
			err = d.runResolve(&s, t)
		case "tls":
			err = d.runTLS(&s, t)
		case "regctl":
			err = d.runRegctl(&s, t)
		default:
			err = fmt.Errorf("unknown family %q", s.Fam)
		}
		if err != nil {
			return fmt.Errorf("scenario %s: %w", s.ID, err)
		}
		return w.Write(t)
	})
	if err != nil {
		fatal(err)
	}
	if err := w.Close(); err != nil {
		fatal(err)
	}
}

func fatal(err error) {
	fmt.Fprintln(os.Stderr, "x04drv:", err)
	os.Exit(1)
}

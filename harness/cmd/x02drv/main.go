// Command x02drv is the driver of area X02 (persistence of the configuration file).
//
// It only executes and records, it never judges.  Modes:
//
//	save  one conffile.Write of given bytes through a reader that delivers them in chunks and may
//	      fail after k chunks (the failing-reader fault of the scenarios); result as JSON
//	race  several conffile.Write calls on the same path from goroutines whose readers are gates:
//	      a schedule (list of writer numbers, produced by TLC from spec/ConfFileGen.tla) says
//	      which writer runs from its current gate to its next one
//
// The system calls the real code makes are recorded from outside (strace, tools/props/x02.py).
package main

import (
	"bytes"
	"encoding/json"
	"errors"
	"flag"
	"fmt"
	"io"
	"os"

	"github.com/regclient/regclient/internal/conffile"
)

type writerSpec struct {
	Content   string `json:"content"`   // file holding the bytes to save
	Chunk     int    `json:"chunk"`     // bytes per Read, 0 = a bytes.Reader (one WriteTo)
	FailAfter int    `json:"failafter"` // the reader fails instead of delivering chunk k (0-based), -1 = never
}

type raceSpec struct {
	File     string       `json:"file"`
	Writers  []writerSpec `json:"writers"`
	Schedule []int        `json:"schedule"` // 1-based writer numbers
}

type result struct {
	OK  int    `json:"ok"`
	Err string `json:"err"`
}

var errReader = errors.New("x02drv: injected reader failure")

// chunkReader delivers data in pieces of n bytes; before every Read it passes the gate (if any).
type chunkReader struct {
	data      []byte
	n         int
	k         int
	failAfter int
	gate      func()
}

func (r *chunkReader) Read(p []byte) (int, error) {
	if r.gate != nil {
		r.gate()
	}
	if r.failAfter >= 0 && r.k >= r.failAfter {
		return 0, errReader
	}
	if len(r.data) == 0 {
		return 0, io.EOF
	}
	n := r.n
	if n > len(r.data) {
		n = len(r.data)
	}
	if n > len(p) {
		n = len(p)
	}
	copy(p, r.data[:n])
	r.data = r.data[n:]
	r.k++
	return n, nil
}

func newReader(ws writerSpec, gate func()) (io.Reader, error) {
	b, err := os.ReadFile(ws.Content)
	if err != nil {
		return nil, err
	}
	if ws.Chunk <= 0 && ws.FailAfter < 0 && gate == nil {
		return bytes.NewReader(b), nil
	}
	n := ws.Chunk
	if n <= 0 {
		n = len(b) + 1
	}
	return &chunkReader{data: b, n: n, failAfter: ws.FailAfter, gate: gate}, nil
}

func toResult(err error) result {
	if err != nil {
		return result{OK: 0, Err: err.Error()}
	}
	return result{OK: 1}
}

func writeJSON(fn string, v any) error {
	b, err := json.Marshal(v)
	if err != nil {
		return err
	}
	return os.WriteFile(fn, append(b, '\n'), 0o644)
}

func modeSave(file string, ws writerSpec, res string) error {
	rdr, err := newReader(ws, nil)
	if err != nil {
		return err
	}
	cf := conffile.New(conffile.WithFullname(file))
	if cf == nil {
		return fmt.Errorf("conffile.New returned nil")
	}
	return writeJSON(res, toResult(cf.Write(rdr)))
}

// modeRace runs the writers under the schedule.  Every writer waits at a gate before it starts and
// before every Read of its source; a schedule entry w releases writer w from its gate and waits until
// it has reached the next gate or returned.  When the schedule is used up the remaining writers are run
// to their end one after the other.
func modeRace(spec raceSpec, res string) error {
	n := len(spec.Writers)
	type wstate struct {
		grant chan struct{} // scheduler -> writer: go on
		event chan bool     // writer -> scheduler: true = at a gate, false = returned
		done  bool
	}
	ws := make([]*wstate, n)
	results := make([]result, n)
	for i := range ws {
		ws[i] = &wstate{grant: make(chan struct{}), event: make(chan bool)}
	}
	for i := range ws {
		go func(i int) {
			st := ws[i]
			gate := func() {
				st.event <- true
				<-st.grant
			}
			rdr, err := newReader(spec.Writers[i], gate)
			if err == nil {
				gate() // the gate before the save starts
				cf := conffile.New(conffile.WithFullname(spec.File))
				err = cf.Write(rdr)
			}
			results[i] = toResult(err)
			st.event <- false
		}(i)
	}
	// every writer first arrives at its initial gate
	for i := range ws {
		if !<-ws[i].event {
			ws[i].done = true
		}
	}
	step := func(i int) {
		st := ws[i]
		if st.done {
			return
		}
		st.grant <- struct{}{}
		if !<-st.event {
			st.done = true
		}
	}
	for _, w := range spec.Schedule {
		if w < 1 || w > n {
			return fmt.Errorf("schedule names writer %d of %d", w, n)
		}
		step(w - 1)
	}
	for i := range ws {
		for !ws[i].done {
			step(i)
		}
	}
	return writeJSON(res, results)
}

func main() {
	mode := flag.String("mode", "", "save | race")
	file := flag.String("file", "", "config file path")
	content := flag.String("content", "", "file with the bytes to save")
	chunk := flag.Int("chunk", 0, "bytes per read of the source (0: bytes.Reader)")
	failAfter := flag.Int("failafter", -1, "the source fails instead of delivering this chunk (-1: never)")
	specFn := flag.String("spec", "", "race: JSON file with writers and schedule")
	res := flag.String("res", "", "result file")
	flag.Parse()
	var err error
	switch *mode {
	case "save":
		err = modeSave(*file, writerSpec{Content: *content, Chunk: *chunk, FailAfter: *failAfter}, *res)
	case "race":
		var b []byte
		b, err = os.ReadFile(*specFn)
		if err == nil {
			var spec raceSpec
			if err = json.Unmarshal(b, &spec); err == nil {
				err = modeRace(spec, *res)
			}
		}
	default:
		err = fmt.Errorf("unknown mode %q", *mode)
	}
	if err != nil {
		fmt.Fprintln(os.Stderr, "x02drv:", err)
		os.Exit(3)
	}
}

// x06drv runs the real regclient.ImageCheckBase on worlds printed by spec/CheckBaseGen.tla
// (extra area X06) and records one trace per world for spec/CheckBaseTrace.tla.
//
// Input (JSON lines): {"id": .., "rk": "tag"|"dig", "w": {opt, img, base, fault}} - the abstract
// world: options, image graph, base graph (single image / index / missing, per entry the platform,
// the base annotations, the layer symbols and the history entries) and the resource class whose
// requests the registry refuses.
//
// For every world the driver builds real OCI content (layer blobs, config blobs with history and
// platform, image manifests, indexes, annotations) on two model registries (simreg: img.test and
// base.test), calls ImageCheckBase with the options, and writes
//
//	reset  the facts of the world, RE-READ from the registry state after the call with
//	       encoding/json (what the references resolve to, platform of each index entry, layer
//	       symbols recovered from the blob contents, history entries from the config blobs,
//	       annotation classes by comparison with the digest the base reference resolves to now)
//	req    one event per request that reached a registry (method, class, target, refused)
//	done   the result class (nil / mismatch = errors.Is(err, errs.ErrMismatch) / err / panic) and
//	       whether the state of a registry differs from the state before the call
//
// The driver only records; spec/CheckBaseProp.tla judges.
package main

import (
	"context"
	"crypto/sha256"
	"encoding/hex"
	"encoding/json"
	"errors"
	"flag"
	"fmt"
	"io"
	"log/slog"
	"net/http"
	"os"
	"reflect"
	"regexp"
	"runtime/debug"
	"sort"
	"strings"
	"sync"
	"time"

	"github.com/regclient/regclient"
	"github.com/regclient/regclient/config"
	"github.com/regclient/regclient/scheme/reg"
	"github.com/regclient/regclient/types/errs"
	"github.com/regclient/regclient/types/ref"
	"github.com/regclient/regclient/zzverif/simreg"
	"github.com/regclient/regclient/zzverif/vtrace"
)

const (
	imgHost  = "img.test"
	imgRepo  = "proj/app"
	imgTag   = "v1"
	baseHost = "base.test"
	baseRepo = "lib/base"
	baseTag  = "stable"
	baseRef  = baseHost + "/" + baseRepo + ":" + baseTag
	annName  = "org.opencontainers.image.base.name"
	annDig   = "org.opencontainers.image.base.digest"
	mtMan    = "application/vnd.oci.image.manifest.v1+json"
	mtIdx    = "application/vnd.oci.image.index.v1+json"
	mtCfg    = "application/vnd.oci.image.config.v1+json"
	mtLayer  = "application/vnd.oci.image.layer.v1.tar+gzip"
	badDig   = "sha256:nothex"
	badName  = "Not A Reference!"
)

type hist struct {
	ID string `json:"id"`
	E  int    `json:"e"`
	NC int    `json:"nc"`
}
type ent struct {
	Plat   string   `json:"plat"`
	Ann    string   `json:"ann"`
	Layers []string `json:"layers"`
	Hist   []hist   `json:"hist"`
}
type graph struct {
	Kind string `json:"kind"`
	Ann  string `json:"ann"`
	Ents []ent  `json:"ents"`
}
type opt struct {
	Ref  int    `json:"ref"`
	Dig  string `json:"dig"`
	Skip int    `json:"skip"`
	Plat string `json:"plat"`
}
type world struct {
	Opt   opt    `json:"opt"`
	Img   graph  `json:"img"`
	Base  graph  `json:"base"`
	Fault string `json:"fault"`
}
type scenario struct {
	ID string `json:"id"`
	RK string `json:"rk"`
	W  world  `json:"w"`
}

func sha(b []byte) string {
	s := sha256.Sum256(b)
	return "sha256:" + hex.EncodeToString(s[:])
}

func mustJSON(v any) []byte {
	b, err := json.Marshal(v)
	if err != nil {
		panic(err)
	}
	return b
}

// ---------------------------------------------------------------- building the world

func layerBlob(sym string) []byte {
	return []byte("LAYER:" + sym + ":" + strings.Repeat(sym, 64))
}

var histTime = map[string]string{"x": "2024-01-01T00:00:00Z", "x2": "2024-02-02T00:00:00Z", "y": "2024-01-03T00:00:00Z",
	"z": "2024-01-04T00:00:00Z", "e": "2024-01-02T00:00:00Z", "q": "2024-01-05T00:00:00Z"}

func platParts(p string) (string, string) {
	if p == "" {
		return "linux", "amd64"
	}
	f := strings.SplitN(p, "/", 2)
	return f[0], f[1]
}

type desc map[string]any

// putImage stores layers, config and manifest of one entry; returns the descriptor of the manifest.
// cfgPlat is the platform written into the config (distinct manifests per platform).
func putImage(h *simreg.Host, repo string, e ent, cfgPlat string, annots map[string]string, tag string) desc {
	layers := []desc{}
	diff := []string{}
	for _, s := range e.Layers {
		b := layerBlob(s)
		d := h.PutBlob(repo, b)
		layers = append(layers, desc{"mediaType": mtLayer, "digest": d, "size": len(b)})
		diff = append(diff, sha([]byte("diff:"+s)))
	}
	hs := []map[string]any{}
	for _, he := range e.Hist {
		m := map[string]any{"created_by": "RUN " + he.ID}
		if he.NC == 0 {
			t, ok := histTime[he.ID]
			if !ok {
				t = "2024-03-01T00:00:00Z"
			}
			m["created"] = t
		}
		if he.E == 1 {
			m["empty_layer"] = true
		}
		hs = append(hs, m)
	}
	osn, arch := platParts(cfgPlat)
	cfg := mustJSON(map[string]any{"architecture": arch, "os": osn, "config": map[string]any{},
		"rootfs": map[string]any{"type": "layers", "diff_ids": diff}, "history": hs})
	cd := h.PutBlob(repo, cfg)
	man := map[string]any{"schemaVersion": 2, "mediaType": mtMan,
		"config": desc{"mediaType": mtCfg, "digest": cd, "size": len(cfg)}, "layers": layers}
	if len(annots) > 0 {
		man["annotations"] = annots
	}
	mb := mustJSON(man)
	md := h.PutManifest(repo, tag, mtMan, mb)
	return desc{"mediaType": mtMan, "digest": md, "size": len(mb)}
}

func annots(class, curDig, oldDig string) map[string]string {
	switch class {
	case "name":
		return map[string]string{annName: baseRef}
	case "cur":
		return map[string]string{annName: baseRef, annDig: curDig}
	case "old":
		return map[string]string{annName: baseRef, annDig: oldDig}
	case "baddig":
		return map[string]string{annName: baseRef, annDig: badDig}
	case "badname":
		return map[string]string{annName: badName}
	}
	return nil
}

// putGraph stores a graph under tag; returns the digest the tag points to ("" for a missing graph).
func putGraph(h *simreg.Host, repo, tag string, g graph, curDig, oldDig string) string {
	switch g.Kind {
	case "single":
		d := putImage(h, repo, g.Ents[0], g.Ents[0].Plat, annots(g.Ann, curDig, oldDig), tag)
		return d["digest"].(string)
	case "index":
		ms := []desc{}
		for _, e := range g.Ents {
			cp := e.Plat
			if cp == "" {
				cp = "linux/riscv64" // an entry without platform still is a manifest of its own
			}
			d := putImage(h, repo, e, cp, annots(e.Ann, curDig, oldDig), "")
			if e.Plat != "" {
				osn, arch := platParts(e.Plat)
				d["platform"] = map[string]string{"os": osn, "architecture": arch}
			}
			ms = append(ms, d)
		}
		idx := map[string]any{"schemaVersion": 2, "mediaType": mtIdx, "manifests": ms}
		if a := annots(g.Ann, curDig, oldDig); len(a) > 0 {
			idx["annotations"] = a
		}
		return h.PutManifest(repo, tag, mtIdx, mustJSON(idx))
	}
	return ""
}

// ---------------------------------------------------------------- reading the facts back

type facts struct {
	Kind string `json:"kind"`
	Ann  string `json:"ann"`
	Ents []ent  `json:"ents"`
}

var reDigest = regexp.MustCompile(`^sha(256:[a-f0-9]{64}|512:[a-f0-9]{128})$`)
var reLayer = regexp.MustCompile(`^LAYER:([a-z0-9]+):`)

func annClass(a map[string]any, curBase string) string {
	n, okN := a[annName].(string)
	d, okD := a[annDig].(string)
	if !okN {
		return "none"
	}
	if n != baseRef {
		return "badname"
	}
	if !okD {
		return "name"
	}
	if !reDigest.MatchString(d) {
		return "baddig"
	}
	if d == curBase {
		return "cur"
	}
	return "old"
}

func readEnt(r *simreg.Repo, body []byte, plat, curBase string) (ent, error) {
	var m map[string]any
	e := ent{Plat: plat, Layers: []string{}, Hist: []hist{}}
	if err := json.Unmarshal(body, &m); err != nil {
		return e, err
	}
	a, _ := m["annotations"].(map[string]any)
	e.Ann = annClass(a, curBase)
	ls, _ := m["layers"].([]any)
	for _, l := range ls {
		d, _ := l.(map[string]any)["digest"].(string)
		b, ok := r.Blobs[d]
		if !ok {
			return e, fmt.Errorf("layer blob %s not stored", d)
		}
		sm := reLayer.FindSubmatch(b)
		if sm == nil {
			return e, fmt.Errorf("layer blob %s has no symbol", d)
		}
		e.Layers = append(e.Layers, string(sm[1]))
	}
	cd, _ := m["config"].(map[string]any)["digest"].(string)
	cb, ok := r.Blobs[cd]
	if !ok {
		return e, fmt.Errorf("config blob %s not stored", cd)
	}
	var c map[string]any
	if err := json.Unmarshal(cb, &c); err != nil {
		return e, err
	}
	hs, _ := c["history"].([]any)
	for _, x := range hs {
		hm, _ := x.(map[string]any)
		he := hist{}
		cb, _ := hm["created_by"].(string)
		he.ID = strings.TrimPrefix(cb, "RUN ")
		if b, _ := hm["empty_layer"].(bool); b {
			he.E = 1
		}
		if _, ok := hm["created"]; !ok {
			he.NC = 1
		}
		e.Hist = append(e.Hist, he)
	}
	return e, nil
}

// readGraph resolves ref (a tag or digest) in the repository state and describes what is there.
func readGraph(h *simreg.Host, repo, refr, curBase string) (facts, error) {
	f := facts{Kind: "missing", Ann: "none", Ents: []ent{}}
	r := h.Repos[repo]
	if r == nil {
		return f, nil
	}
	d := refr
	if !strings.Contains(refr, ":") {
		var ok bool
		if d, ok = r.Tags[refr]; !ok {
			return f, nil
		}
	}
	m, ok := r.Manifests[d]
	if !ok {
		return f, nil
	}
	var top map[string]any
	if err := json.Unmarshal(m.Body, &top); err != nil {
		return f, err
	}
	if ms, isIdx := top["manifests"].([]any); isIdx {
		f.Kind = "index"
		a, _ := top["annotations"].(map[string]any)
		f.Ann = annClass(a, curBase)
		for _, x := range ms {
			dm, _ := x.(map[string]any)
			cd, _ := dm["digest"].(string)
			plat := ""
			if p, ok := dm["platform"].(map[string]any); ok {
				plat = fmt.Sprintf("%v/%v", p["os"], p["architecture"])
			}
			cm, ok := r.Manifests[cd]
			if !ok {
				return f, fmt.Errorf("child %s not stored", cd)
			}
			e, err := readEnt(r, cm.Body, plat, curBase)
			if err != nil {
				return f, err
			}
			f.Ents = append(f.Ents, e)
		}
		return f, nil
	}
	f.Kind = "single"
	e, err := readEnt(r, m.Body, "", curBase)
	if err != nil {
		return f, err
	}
	f.Ann = e.Ann
	f.Ents = append(f.Ents, e)
	return f, nil
}

// ---------------------------------------------------------------- one world

func run(s scenario) (tr *vtrace.Trace) {
	tr = &vtrace.Trace{ID: s.ID, Header: map[string]any{}, Meta: map[string]any{}}
	defer func() {
		if r := recover(); r != nil {
			tr.Meta["error"] = fmt.Sprintf("driver panic: %v\n%s", r, debug.Stack())
		}
	}()
	w := s.W
	net := simreg.NewNet()
	hi := net.AddHost(imgHost, simreg.DefaultFeatures())
	hb := net.AddHost(baseHost, simreg.DefaultFeatures())
	// an earlier base the tag pointed to once (the "old" digest), still stored untagged
	oldDesc := putImage(hb, baseRepo, ent{Layers: []string{"o"}, Hist: []hist{{ID: "x"}}}, "", nil, "")
	oldDig := oldDesc["digest"].(string)
	curDig := putGraph(hb, baseRepo, baseTag, w.Base, "", "")
	if curDig == "" {
		curDig = sha([]byte("the base reference resolves to nothing"))
	}
	topDig := putGraph(hi, imgRepo, imgTag, w.Img, curDig, oldDig)

	// which requests are refused: every request for a resource of the class w.Fault
	childPlat := map[string]string{} // host/digest -> platform of that index entry
	for _, hh := range []*simreg.Host{hi, hb} {
		for _, r := range hh.Repos {
			for _, m := range r.Manifests {
				var top map[string]any
				_ = json.Unmarshal(m.Body, &top)
				ms, _ := top["manifests"].([]any)
				for _, x := range ms {
					dm, _ := x.(map[string]any)
					p := ""
					if pm, ok := dm["platform"].(map[string]any); ok {
						p = fmt.Sprintf("%v/%v", pm["os"], pm["architecture"])
					}
					childPlat[hh.Name+"/"+dm["digest"].(string)] = p
				}
			}
		}
	}
	target := func(rq *simreg.Request) string {
		pre := "img"
		top := topDig
		if rq.Host == baseHost {
			pre, top = "base", curDig
		}
		switch {
		case strings.HasPrefix(rq.Class, "manifest"):
			if rq.IsTag || rq.Ref == top {
				return pre
			}
			if p, ok := childPlat[rq.Host+"/"+rq.Ref]; ok {
				return pre + "c:" + p
			}
			return pre + "?"
		case strings.HasPrefix(rq.Class, "blob"):
			return pre[:1] + "cfg"
		}
		return rq.Class
	}
	faultKey := func(t string) string {
		if i := strings.Index(t, ":"); i >= 0 {
			return t[:i]
		}
		return t
	}
	intercept := func(rq *simreg.Request) *simreg.Reply {
		if w.Fault != "none" && faultKey(target(rq)) == w.Fault {
			return &simreg.Reply{Status: http.StatusForbidden, Header: http.Header{"Content-Type": {"application/json"}},
				Body: []byte(`{"errors":[{"code":"DENIED","message":"refused by the model registry"}]}`)}
		}
		return nil
	}
	hi.Intercept, hb.Intercept = intercept, intercept
	before := []any{hi.Snapshot(), hb.Snapshot()}

	// the call
	rc := regclient.New(
		regclient.WithConfigHost(
			config.Host{Name: imgHost, Hostname: imgHost, TLS: config.TLSDisabled},
			config.Host{Name: baseHost, Hostname: baseHost, TLS: config.TLSDisabled}),
		regclient.WithSlog(slog.New(slog.NewTextHandler(io.Discard, nil))),
		regclient.WithRegOpts(reg.WithHTTPClient(&http.Client{Transport: net}),
			reg.WithDelay(time.Millisecond, 5*time.Millisecond), reg.WithRetryLimit(3)))
	rs := imgHost + "/" + imgRepo + ":" + imgTag
	if s.RK == "dig" && topDig != "" {
		rs = imgHost + "/" + imgRepo + "@" + topDig
	}
	r, err := ref.New(rs)
	if err != nil {
		tr.Meta["error"] = "ref.New: " + err.Error()
		return tr
	}
	opts := []regclient.ImageOpts{}
	if w.Opt.Dig != "" {
		d := map[string]string{"cur": curDig, "old": oldDig, "baddig": badDig}[w.Opt.Dig]
		opts = append(opts, regclient.ImageWithCheckBaseDigest(d))
	}
	if w.Opt.Ref == 1 {
		opts = append(opts, regclient.ImageWithCheckBaseRef(baseRef))
	}
	if w.Opt.Skip == 1 {
		opts = append(opts, regclient.ImageWithCheckSkipConfig())
	}
	if w.Opt.Plat != "" {
		opts = append(opts, regclient.ImageWithPlatform(w.Opt.Plat))
	}
	res, errText := "", ""
	func() {
		defer func() {
			if p := recover(); p != nil {
				res, errText = "panic", fmt.Sprintf("panic: %v", p)
				tr.Meta["stack"] = string(debug.Stack())
			}
		}()
		ctx, cancel := context.WithTimeout(context.Background(), 30*time.Second)
		defer cancel()
		e := rc.ImageCheckBase(ctx, r, opts...)
		switch {
		case e == nil:
			res = "nil"
		case errors.Is(e, errs.ErrMismatch):
			res, errText = "mismatch", e.Error()
		default:
			res, errText = "err", e.Error()
		}
		_ = rc.Close(ctx, r)
	}()

	// facts, re-read from the state of the registries
	after := []any{hi.Snapshot(), hb.Snapshot()}
	mutated := 0
	if !reflect.DeepEqual(before, after) {
		mutated = 1
	}
	hb.Lock()
	curNow := ""
	if rp := hb.Repos[baseRepo]; rp != nil {
		curNow = rp.Tags[baseTag]
	}
	bf, errB := readGraph(hb, baseRepo, baseTag, curNow)
	hb.Unlock()
	hi.Lock()
	iref := imgTag
	if s.RK == "dig" && topDig != "" {
		iref = topDig
	}
	imf, errI := readGraph(hi, imgRepo, iref, curNow)
	hi.Unlock()
	if errB != nil || errI != nil {
		tr.Meta["error"] = fmt.Sprintf("cannot read the world back: %v %v", errB, errI)
		return tr
	}
	bf.Ann = "none"
	for i := range bf.Ents {
		bf.Ents[i].Ann = "none"
	}
	optDig := ""
	if w.Opt.Dig != "" {
		d := map[string]string{"cur": curDig, "old": oldDig, "baddig": badDig}[w.Opt.Dig]
		switch {
		case !reDigest.MatchString(d):
			optDig = "baddig"
		case d == curNow:
			optDig = "cur"
		default:
			optDig = "old"
		}
	}
	tr.Header["opt"] = map[string]any{"ref": w.Opt.Ref, "dig": optDig, "skip": w.Opt.Skip, "plat": w.Opt.Plat}
	tr.Header["img"] = imf
	tr.Header["base"] = bf
	reqs := []string{}
	for _, rq := range net.Log() {
		t := target(rq)
		refused := 0
		if rq.Faulted {
			refused = 1
		}
		changed := 0
		if rq.Mutated {
			changed = 1
		}
		tr.Events = append(tr.Events, vtrace.Event{"ev": "req", "method": rq.Method, "class": rq.Class, "target": t,
			"refused": refused, "status": rq.Status, "changed": changed})
		reqs = append(reqs, rq.Method+" "+t)
	}
	tr.Events = append(tr.Events, vtrace.Event{"ev": "done", "res": res, "mutated": mutated})
	tr.Meta["err"] = errText
	tr.Meta["reqs"] = reqs
	tr.Meta["ref"] = rs
	return tr
}

func main() {
	in := flag.String("in", "", "worlds (JSON lines)")
	out := flag.String("out", "", "traces (JSON lines)")
	workers := flag.Int("workers", 4, "parallel worlds")
	flag.Parse()
	var scns []scenario
	err := vtrace.ReadLines(*in, func(line []byte) error {
		var s scenario
		if err := json.Unmarshal(line, &s); err != nil {
			return err
		}
		scns = append(scns, s)
		return nil
	})
	if err != nil {
		fmt.Fprintln(os.Stderr, "x06drv:", err)
		os.Exit(2)
	}
	wr, err := vtrace.NewWriter(*out)
	if err != nil {
		fmt.Fprintln(os.Stderr, "x06drv:", err)
		os.Exit(2)
	}
	res := make([]*vtrace.Trace, len(scns))
	var wg sync.WaitGroup
	ch := make(chan int)
	for i := 0; i < *workers; i++ {
		wg.Add(1)
		go func() {
			defer wg.Done()
			for k := range ch {
				res[k] = run(scns[k])
			}
		}()
	}
	for k := range scns {
		ch <- k
	}
	close(ch)
	wg.Wait()
	ids := make([]int, len(res))
	for i := range ids {
		ids[i] = i
	}
	sort.Ints(ids)
	for _, i := range ids {
		if err := wr.Write(res[i]); err != nil {
			fmt.Fprintln(os.Stderr, "x06drv:", err)
			os.Exit(2)
		}
	}
	if err := wr.Close(); err != nil {
		fmt.Fprintln(os.Stderr, "x06drv:", err)
		os.Exit(2)
	}
}

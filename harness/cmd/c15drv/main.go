// c15drv executes the scenarios of spec/RefGrammar.tla (emitted by TLC from RefGen) on the real
// types/ref package and records what it did, plus character-level mutants of a sample of the
// scenario strings, for validation against spec/RefTrace.tla (property C15).
package main

import (
	"bufio"
	"encoding/hex"
	"encoding/json"
	"flag"
	"fmt"
	"math/rand"
	"os"
	"strings"

	"github.com/regclient/regclient/types/ref"
	"github.com/regclient/regclient/zzverif/vtrace"
)

const (
	newTag = "newtag-1.0"
	newDig = "sha256:ffffffffffffffffffffffffffffffffffffffffffffffffffffffffffffffff"
)

func fields(ev map[string]any, pre string, r ref.Ref) {
	ev[pre+"scheme"], ev[pre+"registry"], ev[pre+"repository"] = r.Scheme, r.Registry, r.Repository
	ev[pre+"tag"], ev[pre+"digest"], ev[pre+"path"] = r.Tag, r.Digest, r.Path
}

func b2i(b bool) int {
	if b {
		return 1
	}
	return 0
}

// record everything the laws talk about for a string given to ref.New
func parseAll(ev map[string]any, s string) bool {
	// parsing is a function of the string alone: the sibling of the string under the other scheme (the same
	// text with / without a layout scheme in front) is parsed first, and the string itself is parsed twice
	sib := "ocidir://" + s
	if t, ok := strings.CutPrefix(s, "ocidir://"); ok {
		sib = t
	} else if t, ok := strings.CutPrefix(s, "ocifile://"); ok {
		sib = t
	}
	_, _ = ref.New(sib)
	r, err := ref.New(s)
	ev["ok"] = b2i(err == nil)
	_, _ = ref.New(sib)
	r3, err3 := ref.New(s)
	ev["again"] = b2i((err3 == nil) == (err == nil) && (err != nil || r3 == r))
	if err != nil {
		return false
	}
	fields(ev, "", r)
	cn := r.CommonName()
	ev["cn"] = cn
	r2, err := ref.New(cn)
	ev["ok2"] = b2i(err == nil)
	fields(ev, "c_", r2)
	fields(ev, "st_", r.SetTag(newTag))
	fields(ev, "sd_", r.SetDigest(newDig))
	fields(ev, "ad_", r.AddDigest(newDig))
	return true
}

var alphabet = []string{"/", ":", "@", ".", "-", "_", " ", "A", "z", "0", "%", "\x00", "\n", "\xc3\xa9", "..", "//", "::", "@@", "~", "+", "localhost", "sha256:",
	// letters and digits outside ASCII, among them the two that Unicode simple case folding maps to ASCII
	// letters (KELVIN SIGN -> k, LATIN SMALL LETTER LONG S -> s)
	"\u212a", "\u017f", "\u0131", "\u0130", "\uff41", "\u0663", "\u00b2"}

// alien reports whether s has a character outside the alphabet of the reference grammar (registry
// references: letters, digits and . _ - : / @ +; layout references also space and ~), decided without
// regular expressions
func alien(s string, layout bool) int {
	for _, r := range s {
		switch {
		case r >= 'a' && r <= 'z', r >= 'A' && r <= 'Z', r >= '0' && r <= '9':
		case r == '.' || r == '_' || r == '-' || r == ':' || r == '/' || r == '@' || r == '+':
		case layout && (r == ' ' || r == '~'):
		default:
			return 1
		}
	}
	return 0
}

func main() {
	in := flag.String("in", "", "scenarios (jsonl)")
	out := flag.String("out", "", "ndjson log")
	seed := flag.Int64("seed", 1, "seed")
	nMut := flag.Int("mutbases", 100, "number of scenario strings to mutate")
	flag.Parse()
	rng := rand.New(rand.NewSource(*seed))
	f, err := os.Create(*out)
	if err != nil {
		fail(err)
	}
	w := bufio.NewWriterSize(f, 1<<20)
	enc := json.NewEncoder(w)
	enc.SetEscapeHTML(false)
	var bases []string
	n, accepted := 0, 0
	err = vtrace.ReadLines(*in, func(line []byte) error {
		var ev map[string]any
		if err := json.Unmarshal(line, &ev); err != nil {
			return err
		}
		s, _ := ev["s"].(string)
		n++
		if ev["kind"] == "host" {
			ev["ev"] = "host"
			r, err := ref.NewHost(s)
			ev["ok"] = b2i(err == nil)
			if err == nil {
				fields(ev, "", r)
			}
		} else {
			ev["ev"] = "ref"
			if parseAll(ev, s) {
				accepted++
			}
			bases = append(bases, s)
		}
		return enc.Encode(ev)
	})
	if err != nil {
		fail(err)
	}
	// mutants: insert / delete / replace at every position, from a hostile alphabet
	rng.Shuffle(len(bases), func(i, j int) { bases[i], bases[j] = bases[j], bases[i] })
	if len(bases) > *nMut {
		bases = bases[:*nMut]
	}
	mut, mutAcc := 0, 0
	seen := map[string]bool{}
	for _, b := range bases {
		if len(b) > 90 {
			continue // the long tag / digest lexemes add nothing per position
		}
		for pos := 0; pos <= len(b); pos++ {
			var ms []string
			for _, a := range alphabet {
				ms = append(ms, b[:pos]+a+b[pos:])
				if pos < len(b) {
					ms = append(ms, b[:pos]+a+b[pos+1:])
				}
			}
			if pos < len(b) {
				ms = append(ms, b[:pos]+b[pos+1:])
			}
			for _, m := range ms {
				if seen[m] {
					continue
				}
				seen[m] = true
				mut++
				ev := map[string]any{"ev": "mutant", "shex": hex.EncodeToString([]byte(m))}
				if parseAll(ev, m) {
					mutAcc++
					sch, _ := ev["scheme"].(string)
					ev["alien"] = alien(m, sch == "ocidir" || sch == "ocifile")
					if err := enc.Encode(ev); err != nil {
						fail(err)
					}
				}
			}
		}
	}
	if err := w.Flush(); err != nil {
		fail(err)
	}
	if err := f.Close(); err != nil {
		fail(err)
	}
	_ = json.NewEncoder(os.Stdout).Encode(map[string]any{"scenarios": n, "accepted": accepted, "mutants": mut, "mutants_accepted": mutAcc})
}

func fail(err error) {
	fmt.Fprintln(os.Stderr, "c15drv:", err)
	os.Exit(2)
}

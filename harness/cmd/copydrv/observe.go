package main

// observe.go: everything the driver records.  Requests are taken from simreg's After callback (in
// serving order, under the host mutex), target states from the raw simreg maps or from the files
// of the target layout.  Manifests are parsed with encoding/json into the small structs below and
// content is hashed with crypto/sha256; regclient types are not used on this side.

import (
	"crypto/sha256"
	"crypto/sha512"
	"encoding/hex"
	"encoding/json"
	"os"
	"path/filepath"
	"regexp"
	"sort"
	"strings"
	"sync"

	"github.com/regclient/regclient/zzverif/simreg"
	"github.com/regclient/regclient/zzverif/vtrace"
)

type rawDesc struct {
	MediaType string   `json:"mediaType"`
	Digest    string   `json:"digest"`
	URLs      []string `json:"urls"`
}

type rawMan struct {
	SchemaVersion int       `json:"schemaVersion"`
	Config        *rawDesc  `json:"config"`
	Layers        []rawDesc `json:"layers"`
	Manifests     []rawDesc `json:"manifests"`
	Blobs         []rawDesc `json:"blobs"`
	FSLayers      []struct {
		BlobSum string `json:"blobSum"`
	} `json:"fsLayers"`
}

// parseKids lists the digests a manifest body references (hosted ones and those with urls).
func parseKids(raw []byte) (kids, xkids []string, ok bool) {
	var m rawMan
	if err := json.Unmarshal(raw, &m); err != nil || m.SchemaVersion == 0 {
		return nil, nil, false
	}
	if m.Config == nil && m.Layers == nil && m.Manifests == nil && m.Blobs == nil && m.FSLayers == nil {
		return nil, nil, false
	}
	add := func(d rawDesc) {
		if d.Digest == "" {
			return
		}
		if len(d.URLs) > 0 {
			xkids = append(xkids, d.Digest)
		} else {
			kids = append(kids, d.Digest)
		}
	}
	if m.Config != nil {
		add(*m.Config)
	}
	for _, d := range m.Layers {
		add(d)
	}
	for _, d := range m.Manifests {
		add(d)
	}
	for _, d := range m.Blobs {
		add(d)
	}
	for _, l := range m.FSLayers {
		add(rawDesc{Digest: l.BlobSum})
	}
	return kids, xkids, true
}

func hexSum(b []byte) string {
	s := sha256.Sum256(b)
	return hex.EncodeToString(s[:])
}

// snap is the abstract view of the target repository / layout.
type snap struct {
	Blobs, Mans, Bad []string
	TagK, TagV       []string
	newDerived       map[string][]byte // name -> body of manifests not known before
}

func (s *snap) sig() string {
	return strings.Join(s.Blobs, ",") + "|" + strings.Join(s.Mans, ",") + "|" + strings.Join(s.Bad, ",") + "|" +
		strings.Join(s.TagK, ",") + "|" + strings.Join(s.TagV, ",")
}

func (s *snap) into(ev vtrace.Event) {
	ev["blobs"], ev["mans"], ev["bad"], ev["tagk"], ev["tagv"] = nn(s.Blobs), nn(s.Mans), nn(s.Bad), nn(s.TagK), nn(s.TagV)
}

func nn(s []string) []string {
	if s == nil {
		return []string{}
	}
	return s
}

// identical reports whether content stored under dig is what the source holds under that digest
// (or, for objects the source does not have, whether it hashes to its own name).
func (w *world) identical(dig string, content []byte) bool {
	h := hexSum(content)
	own := "sha256:" + h
	if strings.HasPrefix(dig, "sha512:") {
		s5 := sha512.Sum512(content)
		own = "sha512:" + hex.EncodeToString(s5[:])
	}
	if n, ok := w.byDig[dig]; ok {
		return h == hexSum(w.nodes[n].Raw) && own == dig
	}
	return own == dig
}

func (s *snap) finish() {
	sort.Strings(s.Blobs)
	sort.Strings(s.Mans)
	sort.Strings(s.Bad)
	// tags: sort pairs by key
	idx := make([]int, len(s.TagK))
	for i := range idx {
		idx[i] = i
	}
	sort.Slice(idx, func(a, b int) bool { return s.TagK[idx[a]] < s.TagK[idx[b]] })
	k, v := make([]string, len(idx)), make([]string, len(idx))
	for i, j := range idx {
		k[i], v[i] = s.TagK[j], s.TagV[j]
	}
	s.TagK, s.TagV = k, v
}

// snapRegLocked reads the target repository (and the referrer target repository, names prefixed
// "r/") out of the simreg state (host mutex held).
func (w *world) snapRegLocked() *snap {
	s := &snap{newDerived: map[string][]byte{}}
	w.snapRepoLocked(s, w.tgtRepo, "")
	if w.refsTgt != "" {
		w.snapRepoLocked(s, refRepo, refPfx)
	}
	s.finish()
	return s
}

func (w *world) snapRepoLocked(s *snap, repo, pfx string) {
	r := w.tgtHost.Repos[repo]
	if r == nil {
		return
	}
	for d, b := range r.Blobs {
		n := w.name(d)
		if w.identical(d, b) {
			s.Blobs = append(s.Blobs, pfx+n)
		} else {
			s.Bad = append(s.Bad, pfx+n)
		}
	}
	for d, m := range r.Manifests {
		n := w.name(d)
		if w.identical(d, m.Body) {
			s.Mans = append(s.Mans, pfx+n)
		} else {
			s.Bad = append(s.Bad, pfx+n)
		}
		if _, known := w.nodes[n]; !known && !w.derived[pfx+n] {
			s.newDerived[pfx+n] = m.Body
		}
	}
	for t, d := range r.Tags {
		s.TagK = append(s.TagK, pfx+w.tagSym(t))
		s.TagV = append(s.TagV, pfx+w.name(d))
	}
}

// snapDir reads the target layout: index.json first, then the blob directory, so that with
// content that only grows a tag seen here implies that everything below it was already there
// when the directory was listed.
func (w *world) snapDir() *snap {
	s := &snap{newDerived: map[string][]byte{}}
	w.snapOneDir(s, w.tgtDir, "")
	if w.refDir != "" {
		w.snapOneDir(s, w.refDir, refPfx)
	}
	s.finish()
	return s
}

func (w *world) snapOneDir(s *snap, dir, pfx string) {
	var idx struct {
		Manifests []struct {
			Digest      string            `json:"digest"`
			Annotations map[string]string `json:"annotations"`
		} `json:"manifests"`
	}
	if ib, err := os.ReadFile(filepath.Join(dir, "index.json")); err == nil {
		if json.Unmarshal(ib, &idx) == nil {
			for _, m := range idx.Manifests {
				if t, ok := m.Annotations["org.opencontainers.image.ref.name"]; ok {
					s.TagK = append(s.TagK, pfx+w.tagSym(t))
					s.TagV = append(s.TagV, pfx+w.name(m.Digest))
				}
			}
		}
	}
	for _, alg := range []string{"sha256", "sha512"} {
		ents, _ := os.ReadDir(filepath.Join(dir, "blobs", alg))
		for _, e := range ents {
			fn := e.Name()
			if e.IsDir() || strings.HasSuffix(fn, ".tmp") || (len(fn) != 64 && len(fn) != 128) {
				continue
			}
			b, err := os.ReadFile(filepath.Join(dir, "blobs", alg, fn))
			if err != nil {
				continue
			}
			d := alg + ":" + fn
			n := w.name(d)
			isMan := false
			if nd, ok := w.nodes[n]; ok {
				isMan = nd.isMan()
			} else if _, _, ok := parseKids(b); ok {
				isMan = true
				if !w.derived[pfx+n] {
					s.newDerived[pfx+n] = b
				}
			}
			switch {
			case !w.identical(d, b):
				s.Bad = append(s.Bad, pfx+n)
			case isMan:
				s.Mans = append(s.Mans, pfx+n)
			default:
				s.Blobs = append(s.Blobs, pfx+n)
			}
		}
	}
}

// recorder collects the events of one scenario.
type recorder struct {
	dirMu   sync.Mutex // serialises layout snapshots so that the order of the events is the order of the reads
	mu      sync.Mutex
	w       *world
	events  []vtrace.Event
	lastSig string
	reqs    int
	muted   bool // the prior phase of the scenario: nothing is recorded
}

func (r *recorder) emit(ev vtrace.Event) {
	r.mu.Lock()
	if r.muted {
		r.mu.Unlock()
		return
	}
	r.events = append(r.events, ev)
	r.mu.Unlock()
}

// derivedFacts announces manifests that are not part of the source (client made referrer
// indexes): their descriptor edges, parsed from the stored body.  Caller holds r.mu.
func (r *recorder) derivedFactsLocked(s *snap) {
	for _, n := range sortedKeys(s.newDerived) {
		if r.w.derived[n] {
			continue
		}
		r.w.derived[n] = true
		base := strings.TrimPrefix(n, refPfx)
		if !r.w.derived["base:"+base] {
			r.w.derived["base:"+base] = true
			r.events = append(r.events, vtrace.Event{"ev": "man", "n": base, "kind": "derived"})
			kids, _, _ := parseKids(s.newDerived[n])
			for _, k := range kids {
				r.events = append(r.events, vtrace.Event{"ev": "edge", "p": base, "c": r.w.name(k), "role": "entry", "psel": 1, "hosted": 1})
			}
		}
		if base != n {
			r.events = append(r.events, vtrace.Event{"ev": "alias", "q": n, "n": base, "pfx": refPfx})
		}
	}
}

// snapEvent appends an event carrying a target snapshot.
func (r *recorder) snapEvent(ev vtrace.Event, s *snap) {
	r.mu.Lock()
	defer r.mu.Unlock()
	if r.muted {
		return
	}
	r.derivedFactsLocked(s)
	s.into(ev)
	r.lastSig = s.sig()
	r.events = append(r.events, ev)
}

// dirSnap reads the target layout and appends ev with that snapshot.
func (r *recorder) dirSnap(ev vtrace.Event) {
	r.dirMu.Lock()
	defer r.dirMu.Unlock()
	r.snapEvent(ev, r.w.snapDir())
}

func b2i(b bool) int {
	if b {
		return 1
	}
	return 0
}

var reFBTag = regexp.MustCompile(`^sha(256|512)-[0-9a-f]{64,128}$`)

// side tells which end of the copy a request addresses.
func (w *world) side(rq *simreg.Request) string {
	switch {
	case rq.Host == extHost:
		return "ext"
	case w.sameRepo():
		return "both"
	case w.tgtHost != nil && rq.Host == w.tgtHost.Name && (rq.Repo == w.tgtRepo || (w.refsTgt != "" && rq.Repo == refRepo)):
		return "tgt"
	case w.srcHost != nil && rq.Host == w.srcHost.Name && rq.Repo == w.srcRepo:
		return "src"
	}
	return "other"
}

// key gives the (side, class, name) under which scripts, fault positions and traces refer to a
// request.
func (w *world) key(rq *simreg.Request) (side, class, n string) {
	side, class = w.side(rq), rq.Class
	switch rq.Class {
	case "blob_head", "blob_get", "blob_delete", "referrers":
		n = w.name(rq.Ref)
	case "manifest_head", "manifest_get", "manifest_put", "manifest_delete":
		if rq.IsTag {
			n = w.tagSym(rq.Ref)
		} else {
			n = w.name(rq.Ref)
		}
	case "upload_post":
		if m := rq.Query.Get("mount"); m != "" {
			n = w.name(m)
			if rq.Query.Get("from") != "" {
				class = "mount_post"
			}
		} else if d := rq.Query.Get("digest"); d != "" {
			n = w.name(d)
		}
	case "upload_put":
		if d := rq.Query.Get("digest"); d != "" {
			n = w.name(d)
		}
	}
	if side == "ext" {
		class, n = "ext_"+strings.ToLower(rq.Method), filepath.Base(rq.Path)
	}
	if side == "tgt" && w.refsTgt != "" && rq.Repo == refRepo && n != "" {
		n = refPfx + n
	}
	return side, class, n
}

// onRequest is simreg's After callback for every host of the scenario.
func (r *recorder) onRequest(rq *simreg.Request) {
	w := r.w
	r.mu.Lock()
	muted := r.muted
	r.mu.Unlock()
	if muted {
		return
	}
	side, class, n := w.key(rq)
	ev := vtrace.Event{"ev": "req", "seq": rq.Seq, "side": side, "class": class, "n": n, "st": rq.Status,
		"flt": b2i(rq.Faulted || rq.Truncated), "data": len(rq.Body)}
	isTgt := side == "tgt" || side == "both"
	if rq.Class == "manifest_put" {
		ev["pn"] = w.name(digestOf(rq.Body))
		if w.refsTgt != "" && rq.Repo == refRepo {
			ev["pn"] = refPfx + w.name(digestOf(rq.Body))
		}
		ev["fb"] = b2i(rq.IsTag && reFBTag.MatchString(rq.Ref))
		ev["istag"] = b2i(rq.IsTag)
	}
	if !isTgt || w.tgtHost == nil || rq.Host != w.tgtHost.Name {
		ev["wr"] = 0
		r.mu.Lock()
		r.reqs++
		r.events = append(r.events, ev)
		r.mu.Unlock()
		return
	}
	s := w.snapRegLocked()
	created := rq.Status == 201 && !rq.Faulted
	wr := (rq.Class == "manifest_put" || rq.Class == "upload_put" || rq.Class == "upload_post") && created
	r.mu.Lock()
	r.reqs++
	if s.sig() != r.lastSig {
		wr = true
	}
	r.mu.Unlock()
	ev["wr"] = b2i(wr)
	if wr {
		r.snapEvent(ev, s)
	} else {
		r.emit(ev)
	}
}

package main

// Concrete content for the graph catalogue of C03 / C04 / C14.  Everything here is built with
// encoding/json over plain maps and hashed with crypto/sha256: no regclient type is involved, so
// the byte strings and digests are an independent statement of "what the source holds".

import (
	"crypto/sha256"
	"crypto/sha512"
	"encoding/hex"
	"encoding/json"
	"fmt"
	"sort"
	"strings"
)

const (
	mtOCIIndex    = "application/vnd.oci.image.index.v1+json"
	mtOCIMan      = "application/vnd.oci.image.manifest.v1+json"
	mtOCIConfig   = "application/vnd.oci.image.config.v1+json"
	mtOCILayer    = "application/vnd.oci.image.layer.v1.tar+gzip"
	mtOCIEmpty    = "application/vnd.oci.empty.v1+json"
	mtDockList    = "application/vnd.docker.distribution.manifest.list.v2+json"
	mtDockMan     = "application/vnd.docker.distribution.manifest.v2+json"
	mtDockCfg     = "application/vnd.docker.container.image.v1+json"
	mtDockLayer   = "application/vnd.docker.image.rootfs.diff.tar.gzip"
	mtDockS1      = "application/vnd.docker.distribution.manifest.v1+json"
	mtUnknown     = "application/vnd.zzverif.unknown.v1"
	mtOCIForeign  = "application/vnd.oci.image.layer.nondistributable.v1.tar+gzip"
	mtDockForeign = "application/vnd.docker.image.rootfs.foreign.diff.tar.gzip"
	atSBOM        = "application/vnd.zzverif.sbom.v1"
	atSig         = "application/vnd.zzverif.sig.v1"
	extHost       = "ext.test"
)

// edge is one descriptor inside a manifest.
type edge struct {
	C      string `json:"c"`              // child node name
	Role   string `json:"role"`           // config | layer | ext | entry | bentry | uentry
	Plat   string `json:"plat,omitempty"` // os/arch of an index entry ("" = none)
	Inline bool   `json:"inline,omitempty"`
}

// node is one content addressed object of the source.
type node struct {
	Name    string `json:"name"`
	Kind    string `json:"kind"` // index | image | artifact | schema1 | blob
	MT      string `json:"mt,omitempty"`
	Raw     []byte `json:"-"`
	Dig     string `json:"dig"`
	Edges   []edge `json:"edges,omitempty"`
	Subject string `json:"subject,omitempty"`
	AType   string `json:"atype,omitempty"`
	Alg     string `json:"alg,omitempty"` // digest algorithm the source names this object by ("" = sha256)
}

func (n *node) isMan() bool  { return n.Kind != "blob" }
func (n *node) hexd() string { return n.Dig[strings.IndexByte(n.Dig, ':')+1:] }
func (n *node) alg() string  { return n.Dig[:strings.IndexByte(n.Dig, ':')] }

// shape is one entry of the catalogue.
type shape struct {
	Name  string
	Root  string
	Nodes map[string]*node
	Order []string          // creation order (children before parents)
	DTags map[string]string // symbolic digest-tag name -> "of>to>suffix" (filled by addDTag)
	dtags []dtag
	// Universe lists the nodes that belong to the image together with its referrers and digest
	// tags (what may be pre-seeded at the target).
}

type dtag struct {
	Sym    string // symbolic name used in traces ("dt:<to>")
	Of, To string
	Suffix string // tag = sha256-<hex(of)><suffix>
}

func digestOf(b []byte) string {
	s := sha256.Sum256(b)
	return "sha256:" + hex.EncodeToString(s[:])
}

func digestOf512(b []byte) string {
	s := sha512.Sum512(b)
	return "sha512:" + hex.EncodeToString(s[:])
}

// use512 makes the source name n by its sha512 digest (call before n is referenced).
func use512(n *node) *node {
	n.Alg = "sha512"
	n.Dig = digestOf512(n.Raw)
	return n
}

func (s *shape) add(n *node) *node {
	n.Dig = digestOf(n.Raw)
	if o, ok := s.Nodes[n.Name]; ok {
		panic("duplicate node " + o.Name)
	}
	s.Nodes[n.Name] = n
	s.Order = append(s.Order, n.Name)
	return n
}

func (s *shape) blob(name string, size int) *node {
	b := []byte(fmt.Sprintf("%s/%s|", s.Name, name))
	for i := 0; len(b) < size; i++ {
		b = append(b, byte('a'+(i*7+len(name))%26))
	}
	if size >= 0 && len(b) > size {
		b = b[:size]
	}
	return s.add(&node{Name: name, Kind: "blob", Raw: b})
}

func (s *shape) rawBlob(name string, raw []byte) *node {
	return s.add(&node{Name: name, Kind: "blob", Raw: raw})
}

func (s *shape) config(name, arch string) *node {
	raw, _ := json.Marshal(map[string]any{
		"architecture": arch, "os": "linux",
		"config": map[string]any{"Labels": map[string]string{"zzverif": s.Name + "/" + name}},
		"rootfs": map[string]any{"type": "layers", "diff_ids": []string{}},
	})
	return s.add(&node{Name: name, Kind: "blob", Raw: raw})
}

type dopt struct {
	mt     string
	plat   string
	urls   []string
	inline bool
	atype  string
	bad    string // inline data that does not belong to the descriptor: "bytes" (same length, other bytes) | "len" (truncated)
}

func desc(n *node, o dopt) map[string]any {
	mt := o.mt
	if mt == "" {
		mt = n.MT
	}
	d := map[string]any{"mediaType": mt, "digest": n.Dig, "size": len(n.Raw)}
	if o.plat != "" {
		os, arch, _ := strings.Cut(o.plat, "/")
		d["platform"] = map[string]any{"os": os, "architecture": arch}
	}
	if len(o.urls) > 0 {
		d["urls"] = o.urls
	}
	if o.inline {
		d["data"] = n.Raw // encoding/json renders []byte as base64, which is what the spec asks for
	}
	switch o.bad {
	case "bytes":
		d["data"] = []byte(strings.Repeat("x", len(n.Raw)))
	case "len":
		d["data"] = n.Raw[:len(n.Raw)-3]
	}
	if o.atype != "" {
		d["artifactType"] = o.atype
	}
	return d
}

type lref struct {
	n *node
	o dopt
}

func L(n *node) lref { return lref{n: n} }

// image builds an OCI or Docker schema2 image manifest.
func (s *shape) image(name string, docker bool, cfg lref, layers []lref, subject *node, atype string) *node {
	mt, cmt, lmt := mtOCIMan, mtOCIConfig, mtOCILayer
	if docker {
		mt, cmt, lmt = mtDockMan, mtDockCfg, mtDockLayer
	}
	if cfg.o.mt == "" {
		cfg.o.mt = cmt
	}
	m := map[string]any{"schemaVersion": 2, "mediaType": mt, "config": desc(cfg.n, cfg.o)}
	n := &node{Name: name, Kind: "image", MT: mt}
	n.Edges = append(n.Edges, edge{C: cfg.n.Name, Role: "config", Inline: cfg.o.inline})
	ls := []any{}
	for _, l := range layers {
		if l.o.mt == "" {
			l.o.mt = lmt
		}
		ls = append(ls, desc(l.n, l.o))
		role := "layer"
		if len(l.o.urls) > 0 {
			role = "ext"
		}
		n.Edges = append(n.Edges, edge{C: l.n.Name, Role: role, Inline: l.o.inline})
	}
	m["layers"] = ls
	if subject != nil {
		m["subject"] = desc(subject, dopt{})
		n.Subject = subject.Name
		n.Kind = "artifact"
	}
	if atype != "" {
		m["artifactType"] = atype
		n.AType = atype
	}
	n.Raw, _ = json.Marshal(m)
	return s.add(n)
}

// index builds an OCI index or a Docker manifest list.
func (s *shape) index(name string, docker bool, entries []lref, subject *node, atype string) *node {
	mt := mtOCIIndex
	if docker {
		mt = mtDockList
	}
	m := map[string]any{"schemaVersion": 2, "mediaType": mt}
	n := &node{Name: name, Kind: "index", MT: mt}
	es := []any{}
	for _, e := range entries {
		es = append(es, desc(e.n, e.o))
		role := "entry"
		if !e.n.isMan() {
			role = "bentry" // blob behind a known blob media type
			if e.o.mt == mtUnknown {
				role = "uentry" // unknown media type: the copy tries a manifest first, then a blob
			}
		}
		n.Edges = append(n.Edges, edge{C: e.n.Name, Role: role, Plat: e.o.plat, Inline: e.o.inline})
	}
	m["manifests"] = es
	if subject != nil {
		m["subject"] = desc(subject, dopt{})
		n.Subject = subject.Name
	}
	if atype != "" {
		m["artifactType"] = atype
		n.AType = atype
	}
	n.Raw, _ = json.Marshal(m)
	return s.add(n)
}

// schema1 builds an unsigned Docker schema 1 manifest.
func (s *shape) schema1(name string, layers []*node) *node {
	fs := []any{}
	hist := []any{}
	n := &node{Name: name, Kind: "schema1", MT: mtDockS1}
	for _, l := range layers {
		fs = append(fs, map[string]any{"blobSum": l.Dig})
		hist = append(hist, map[string]any{"v1Compatibility": `{"id":"` + l.hexd() + `"}`})
		n.Edges = append(n.Edges, edge{C: l.Name, Role: "layer"})
	}
	n.Raw, _ = json.MarshalIndent(map[string]any{
		"schemaVersion": 1, "name": "zzverif/" + s.Name, "tag": "v1", "architecture": "amd64",
		"fsLayers": fs, "history": hist,
	}, "", "   ")
	return s.add(n)
}

func (s *shape) addDTag(of, to *node, suffix string) {
	s.dtags = append(s.dtags, dtag{Sym: "dt:" + to.Name, Of: of.Name, To: to.Name, Suffix: suffix})
}

func (d dtag) tag(s *shape) string {
	return s.Nodes[d.Of].alg() + "-" + s.Nodes[d.Of].hexd() + d.Suffix
}

// fallbackIndex is the client managed referrers index stored under the tag sha256-<hex> when the
// registry has no referrers API.
func fallbackIndexRaw(refs []*node) []byte {
	es := []any{}
	for _, r := range refs {
		d := desc(r, dopt{})
		if r.AType != "" {
			d["artifactType"] = r.AType
		}
		es = append(es, d)
	}
	raw, _ := json.Marshal(map[string]any{"schemaVersion": 2, "mediaType": mtOCIIndex, "manifests": es})
	return raw
}

func newShape(name string) *shape {
	return &shape{Name: name, Nodes: map[string]*node{}}
}

// referrers returns the nodes whose subject is n, in creation order.
func (s *shape) referrers(n string) []*node {
	out := []*node{}
	for _, k := range s.Order {
		if s.Nodes[k].Subject == n {
			out = append(out, s.Nodes[k])
		}
	}
	return out
}

var shapeNames = []string{"img", "dup", "idx2", "nested", "art", "artidx", "bentry", "docker", "schema1",
	"ext", "empty", "inline", "dtag", "loop", "diamond", "diamond2", "artshare", "sha512", "inlinebad", "dupentry", "sigloop", "foreign", "big", "xref"}

func buildShape(name string) *shape {
	s := newShape(name)
	switch name {
	case "img": // single image
		c, l1, l2 := s.config("C", "amd64"), s.blob("L1", 300), s.blob("L2", 1100)
		s.image("M", false, L(c), []lref{L(l1), L(l2)}, nil, "")
		s.Root = "M"
	case "dup": // image with a duplicate layer
		c, l1, l2 := s.config("C", "amd64"), s.blob("L1", 257), s.blob("L2", 64)
		s.image("M", false, L(c), []lref{L(l1), L(l1), L(l2), L(l1)}, nil, "")
		s.Root = "M"
	case "idx2": // index of two images sharing a layer
		l, l1 := s.blob("L", 900), s.blob("L1", 120)
		c1, c2 := s.config("C1", "amd64"), s.config("C2", "arm64")
		m1 := s.image("M1", false, L(c1), []lref{L(l), L(l1)}, nil, "")
		m2 := s.image("M2", false, L(c2), []lref{L(l)}, nil, "")
		s.index("I", false, []lref{{m1, dopt{plat: "linux/amd64"}}, {m2, dopt{plat: "linux/arm64"}}}, nil, "")
		s.Root = "I"
	case "nested": // three levels of indexes: O -> N -> I -> M1, and O -> M2; the two leaf images share a layer
		l1 := s.blob("L1", 333)
		c1, c2 := s.config("C1", "amd64"), s.config("C2", "arm64")
		m1 := s.image("M1", false, L(c1), []lref{L(l1)}, nil, "")
		m2 := s.image("M2", false, L(c2), []lref{L(l1)}, nil, "")
		i := s.index("I", false, []lref{{m1, dopt{plat: "linux/amd64"}}}, nil, "")
		n := s.index("N", false, []lref{{i, dopt{plat: "linux/amd64"}}}, nil, "")
		s.index("O", false, []lref{{n, dopt{plat: "linux/amd64"}}, {m2, dopt{plat: "linux/arm64"}}}, nil, "")
		s.Root = "O"
	case "art": // image with two referrers of different artifact types, one of them with a referrer of its own
		c, l1 := s.config("C", "amd64"), s.blob("L1", 200)
		m := s.image("M", false, L(c), []lref{L(l1)}, nil, "")
		e := s.rawBlob("E", []byte("{}"))
		b1, b2, b3 := s.blob("B1", 90), s.blob("B2", 70), s.blob("B3", 50)
		r1 := s.image("R1", false, lref{e, dopt{mt: mtOCIEmpty}}, []lref{{b1, dopt{mt: atSBOM}}}, m, atSBOM)
		s.image("R2", false, lref{e, dopt{mt: mtOCIEmpty}}, []lref{{b2, dopt{mt: atSig}}}, m, atSig)
		s.image("RR", false, lref{e, dopt{mt: mtOCIEmpty}}, []lref{{b3, dopt{mt: atSig}}}, r1, atSig)
		s.Root = "M"
	case "artidx": // index whose platform image carries a referrer, plus a referrer on the index itself
		l1 := s.blob("L1", 210)
		c1, c2 := s.config("C1", "amd64"), s.config("C2", "arm64")
		m1 := s.image("M1", false, L(c1), []lref{L(l1)}, nil, "")
		m2 := s.image("M2", false, L(c2), []lref{L(l1)}, nil, "")
		i := s.index("I", false, []lref{{m1, dopt{plat: "linux/amd64"}}, {m2, dopt{plat: "linux/arm64"}}}, nil, "")
		e := s.rawBlob("E", []byte("{}"))
		b1, b2 := s.blob("B1", 80), s.blob("B2", 60)
		s.image("R1", false, lref{e, dopt{mt: mtOCIEmpty}}, []lref{{b1, dopt{mt: atSBOM}}}, m1, atSBOM)
		s.image("RI", false, lref{e, dopt{mt: mtOCIEmpty}}, []lref{{b2, dopt{mt: atSig}}}, i, atSig)
		s.Root = "I"
	case "bentry": // index with a blob-typed entry (known layer media type) and one of unknown media type
		c1, l1 := s.config("C1", "amd64"), s.blob("L1", 150)
		m1 := s.image("M1", false, L(c1), []lref{L(l1)}, nil, "")
		x, y := s.blob("X", 400), s.blob("Y", 77)
		s.index("I", false, []lref{{m1, dopt{plat: "linux/amd64"}}, {x, dopt{mt: mtOCILayer}}, {y, dopt{mt: mtUnknown}}}, nil, "")
		s.Root = "I"
	case "docker": // Docker manifest list of two schema2 images sharing a layer
		l := s.blob("L", 500)
		c1, c2 := s.config("C1", "amd64"), s.config("C2", "arm64")
		d1 := s.image("D1", true, L(c1), []lref{L(l)}, nil, "")
		d2 := s.image("D2", true, L(c2), []lref{L(l)}, nil, "")
		s.index("DL", true, []lref{{d1, dopt{plat: "linux/amd64"}}, {d2, dopt{plat: "linux/arm64"}}}, nil, "")
		s.Root = "DL"
	case "schema1": // Docker schema 1 (no config object)
		l1, l2 := s.blob("L1", 128), s.blob("L2", 512)
		s.schema1("S1", []*node{l1, l2})
		s.Root = "S1"
	case "ext": // image with a foreign layer (urls) that the source happens to host as well
		c, l1, lx := s.config("C", "amd64"), s.blob("L1", 140), s.blob("LX", 700)
		s.image("M", false, L(c), []lref{L(l1), {lx, dopt{urls: []string{"http://" + extHost + "/download/LX"}}}}, nil, "")
		s.Root = "M"
	case "empty": // empty layer blob (size 0) and the two byte empty JSON config
		c, l0, l1 := s.rawBlob("C", []byte("{}")), s.rawBlob("L0", []byte{}), s.blob("L1", 99)
		s.image("M", false, L(c), []lref{L(l0), L(l1)}, nil, "")
		s.Root = "M"
	case "inline": // descriptors carrying their content inline (data field), for a manifest and for a blob
		c, l1 := s.config("C", "amd64"), s.blob("L1", 180)
		m := s.image("M", false, lref{c, dopt{inline: true}}, []lref{L(l1)}, nil, "")
		s.index("I", false, []lref{{m, dopt{plat: "linux/amd64", inline: true}}}, nil, "")
		s.Root = "I"
	case "dtag": // image with a cosign style digest tag sha256-<hex>.sig pointing at a signature image
		c, l1 := s.config("C", "amd64"), s.blob("L1", 160)
		m := s.image("M", false, L(c), []lref{L(l1)}, nil, "")
		cs, ls := s.config("CS", "amd64"), s.blob("LS", 45)
		sg := s.image("S", false, L(cs), []lref{L(ls)}, nil, "")
		s.addDTag(m, sg, ".sig")
		s.Root = "M"
	case "loop": // digest tags forming a cycle: sha256-<M>.sig -> S and sha256-<S>.att -> M
		c, l1 := s.config("C", "amd64"), s.blob("L1", 130)
		m := s.image("M", false, L(c), []lref{L(l1)}, nil, "")
		cs, ls := s.config("CS", "amd64"), s.blob("LS", 40)
		sg := s.image("S", false, L(cs), []lref{L(ls)}, nil, "")
		s.addDTag(m, sg, ".sig")
		s.addDTag(sg, m, ".att")
		s.Root = "M"
	case "artshare": // an artifact and its referrer sharing the empty config blob {} (the OCI guidance for artifacts)
		e := s.rawBlob("E", []byte("{}"))
		la, lr := s.blob("LA", 120), s.blob("LR", 70)
		a := s.image("A", false, lref{e, dopt{mt: mtOCIEmpty}}, []lref{{la, dopt{mt: atSBOM}}}, nil, atSBOM)
		s.image("R", false, lref{e, dopt{mt: mtOCIEmpty}}, []lref{{lr, dopt{mt: atSig}}}, a, atSig)
		s.Root = "A"
	case "sha512": // objects named by sha512 digests: blobs, a child manifest (with a referrer), shared with sha256-named ones
		l5, l1 := use512(s.blob("L5", 400)), s.blob("L1", 90)
		c5, c2 := use512(s.config("C5", "amd64")), s.config("C2", "arm64")
		m5 := use512(s.image("M5", false, L(c5), []lref{L(l5), L(l1)}, nil, ""))
		m2 := s.image("M2", false, L(c2), []lref{L(l5)}, nil, "")
		// a referrer of the sha512-named image (its fall-back tag is sha512-<first 64 hex digits>; a digest tag
		// sha512-<128 hex>.sig would exceed the 128 characters a tag may have)
		e, b5 := s.rawBlob("E", []byte("{}")), use512(s.blob("B5", 60))
		s.image("R5", false, lref{e, dopt{mt: mtOCIEmpty}}, []lref{{b5, dopt{mt: atSig}}}, m5, atSig)
		s.index("I", false, []lref{{m5, dopt{plat: "linux/amd64"}}, {m2, dopt{plat: "linux/arm64"}}}, nil, "")
		s.Root = "I"
	case "inlinebad": // descriptors whose inline data does NOT belong to them (other bytes / truncated): must be ignored
		c, l1 := s.config("C", "amd64"), s.blob("L1", 180)
		m := s.image("M", false, lref{c, dopt{bad: "bytes"}}, []lref{L(l1)}, nil, "")
		s.index("I", false, []lref{{m, dopt{plat: "linux/amd64", bad: "len"}}}, nil, "")
		s.Root = "I"
	case "sigloop": // a platform image X (copied by digest) whose digest tag sha256-<X>.sig is an index that lists X itself
		cx, lx := s.config("CX", "amd64"), s.blob("LX", 170)
		x := s.image("X", false, L(cx), []lref{L(lx)}, nil, "")
		ca, la := s.config("CA", "amd64"), s.blob("LA", 55)
		a := s.image("A", false, L(ca), []lref{L(la)}, nil, "")
		sg := s.index("SG", false, []lref{{x, dopt{plat: "linux/amd64"}}, {a, dopt{plat: "linux/amd64"}}}, nil, "")
		s.addDTag(x, sg, ".sig")
		s.index("I", false, []lref{{x, dopt{plat: "linux/amd64"}}}, nil, "")
		s.Root = "I"
	case "foreign": // layers of the foreign / non-distributable media types: without urls (hosted, has to be copied) and with urls
		c, l1 := s.config("C", "amd64"), s.blob("L1", 140)
		lf, ld, lx := s.blob("LF", 260), s.blob("LD", 230), s.blob("LX", 300)
		s.image("M", false, L(c), []lref{L(l1), {lf, dopt{mt: mtOCIForeign}}, {ld, dopt{mt: mtDockForeign}},
			{lx, dopt{mt: mtOCIForeign, urls: []string{"http://" + extHost + "/download/LX"}}}}, nil, "")
		s.Root = "M"
	case "dupentry": // the same image listed twice in one index (two platforms), next to another one sharing its layer
		c, l := s.config("C", "amd64"), s.blob("L", 210)
		m := s.image("M", false, L(c), []lref{L(l)}, nil, "")
		c2 := s.config("C2", "arm64")
		m2 := s.image("M2", false, L(c2), []lref{L(l)}, nil, "")
		s.index("I", false, []lref{{m, dopt{plat: "linux/amd64"}}, {m, dopt{plat: "linux/386"}}, {m2, dopt{plat: "linux/arm64"}}}, nil, "")
		s.Root = "I"
	case "diamond": // one platform image under two different parent indexes: T -> IA -> {SH, OA}, T -> IB -> {SH, OB}
		l, la, lb := s.blob("L", 140), s.blob("LA", 90), s.blob("LB", 80)
		cs, ca, cb := s.config("CS", "amd64"), s.config("CA", "arm64"), s.config("CB", "arm")
		sh := s.image("SH", false, L(cs), []lref{L(l)}, nil, "")
		oa := s.image("OA", false, L(ca), []lref{L(la)}, nil, "")
		ob := s.image("OB", false, L(cb), []lref{L(lb)}, nil, "")
		ia := s.index("IA", false, []lref{{sh, dopt{plat: "linux/amd64"}}, {oa, dopt{plat: "linux/arm64"}}}, nil, "")
		ib := s.index("IB", false, []lref{{sh, dopt{plat: "linux/amd64"}}, {ob, dopt{plat: "linux/arm"}}}, nil, "")
		s.index("T", false, []lref{{ia, dopt{plat: "linux/amd64"}}, {ib, dopt{plat: "linux/amd64"}}}, nil, "")
		s.Root = "T"
	case "diamond2": // the same image directly under the top index and below a nested index: T -> {M, I -> {M}}
		c, l := s.config("C", "amd64"), s.blob("L", 150)
		m := s.image("M", false, L(c), []lref{L(l)}, nil, "")
		i := s.index("I", false, []lref{{m, dopt{plat: "linux/amd64"}}}, nil, "")
		s.index("T", false, []lref{{m, dopt{plat: "linux/amd64"}}, {i, dopt{plat: "linux/amd64"}}}, nil, "")
		s.Root = "T"
	case "xref": // two platform images whose referrers are indexes that list the *other* platform image
		l1 := s.blob("L1", 100)
		c1, c2 := s.config("C1", "amd64"), s.config("C2", "arm64")
		m1 := s.image("M1", false, L(c1), []lref{L(l1)}, nil, "")
		m2 := s.image("M2", false, L(c2), []lref{L(l1)}, nil, "")
		s.index("I", false, []lref{{m1, dopt{plat: "linux/amd64"}}, {m2, dopt{plat: "linux/arm64"}}}, nil, "")
		s.index("X1", false, []lref{{m2, dopt{plat: "linux/arm64"}}}, m1, atSig)
		s.index("X2", false, []lref{{m1, dopt{plat: "linux/amd64"}}}, m2, atSig)
		s.Root = "I"
	case "big": // one layer large enough that writing it takes a while (demonstrates findings/C04-1 reliably)
		c, lb, l2 := s.config("C", "amd64"), s.blob("LB", 6<<20), s.blob("L2", 64)
		s.image("M", false, L(c), []lref{L(lb), L(l2)}, nil, "")
		s.Root = "M"
	default:
		return nil
	}
	return s
}

// closure returns the names reachable from n through descriptor edges.
func (s *shape) closure(n string, into map[string]bool) {
	if into[n] {
		return
	}
	into[n] = true
	for _, e := range s.Nodes[n].Edges {
		s.closure(e.C, into)
	}
}

func sortedKeys[T any](m map[string]T) []string {
	out := make([]string, 0, len(m))
	for k := range m {
		out = append(out, k)
	}
	sort.Strings(out)
	return out
}

package main

// gate.go: runs one scenario on the real regclient.ImageCopy.  Every request of every model host
// passes the gate (simreg Host.Intercept): it is held until the controller releases it, which is
// how a schedule ("release the pending request matching (side, class, name) next"), a fault ("fail
// it with F"), a cancellation ("cancel the context now") or a process death ("stop serving") is
// imposed on unmodified client code.  When the request a script waits for does not arrive the
// controller declares the pending set settled and falls back to arrival order (drift; the trace
// is validated all the same).  The driver only records.

import (
	"context"
	"encoding/json"
	"errors"
	"fmt"
	"io"
	"log/slog"
	"math/rand"
	"net/http"
	"path/filepath"
	"sort"
	"strings"
	"sync"
	"time"

	"github.com/regclient/regclient"
	"github.com/regclient/regclient/config"
	"github.com/regclient/regclient/scheme"
	"github.com/regclient/regclient/scheme/reg"
	"github.com/regclient/regclient/types"
	"github.com/regclient/regclient/types/descriptor"
	"github.com/regclient/regclient/types/ref"
	"github.com/regclient/regclient/zzverif/simreg"
	"github.com/regclient/regclient/zzverif/vtrace"
)

type pend struct {
	rq             *simreg.Request
	side, class, n string
	ch             chan *simreg.Reply
	gone           bool // context ended while gated
	stalled        bool
}

type ctl struct {
	w   *world
	rec *recorder
	sc  *scenario
	rng *rand.Rand

	mu        sync.Mutex
	pending   []*pend
	wake      chan struct{} // signalled on arrival / departure / return of the copy
	occ       map[string]int
	resetAll  map[string]bool // (side|class|n) whose every further attempt fails (persistent connection error)
	dead      bool
	gated     bool
	cancel    context.CancelFunc
	cancelled bool
	served    int
	injected  int
	drift     string
	scriptAt  int
	warm      bool      // the prior phase is running
	mounts    int       // cross-repository mount requests seen so far
	slowUntil time.Time // after an injected fault the client sleeps in a back-off: settle more patiently
	closeFn   func()    // the second user of the client (scenario fields closer / closer_cb)
	wantClose bool      // the request being decided is the closer position
	closed    int
}

func (c *ctl) poke() {
	select {
	case c.wake <- struct{}{}:
	default:
	}
}

func keyStr(side, class, n string) string { return side + "|" + class + "|" + n }

var errReset = errors.New("read: connection reset by peer")
var errRefused = errors.New("connect: connection refused")

func errBody(code, msg string) []byte {
	return []byte(`{"errors":[{"code":"` + code + `","message":"` + msg + `"}]}`)
}

// faultReply renders fault kind k for request p.
func (c *ctl) faultReply(p *pend, k string) *simreg.Reply {
	switch k {
	case "503":
		return &simreg.Reply{Status: 503, Body: errBody("UNAVAILABLE", "injected")}
	case "404":
		return &simreg.Reply{Status: 404, Body: errBody("NOT_FOUND", "injected")}
	case "401":
		return &simreg.Reply{Status: 401, Body: errBody("UNAUTHORIZED", "injected")}
	case "403":
		return &simreg.Reply{Status: 403, Body: errBody("DENIED", "injected")}
	case "429":
		return &simreg.Reply{Status: 429, Body: errBody("TOOMANYREQUESTS", "injected")}
	case "500":
		return &simreg.Reply{Status: 500, Body: errBody("UNKNOWN", "injected")}
	case "502":
		return &simreg.Reply{Status: 502, Body: []byte("bad gateway")}
	case "504":
		return &simreg.Reply{Status: 504, Body: []byte("gateway timeout")}
	case "408":
		return &simreg.Reply{Status: 408, Body: []byte("request timeout")}
	case "reset":
		return &simreg.Reply{Err: errReset}
	case "resetall":
		c.resetAll[keyStr(p.side, p.class, p.n)] = true
		return &simreg.Reply{Err: errReset}
	case "trunc":
		return &simreg.Reply{ServeThenTruncate: true, TruncateAt: 7}
	}
	return &simreg.Reply{Status: 503, Body: errBody("UNAVAILABLE", "injected "+k)}
}

// override answers a request in the driver instead of simreg, for registry flavours simreg does not
// have: the DELETE of an upload session answered 202 Accepted (simreg: 204), the status regclient's
// blobUploadCancel takes for success.  The session is removed from the host state all the same.
func (c *ctl) override(p *pend) *simreg.Reply {
	if p.class == "mount_post" {
		return c.mountPolicy(p)
	}
	if c.sc.ListOrder != "" && c.sc.PageSize == 0 && (p.rq.Class == "tag_list" || p.rq.Class == "referrers") {
		return c.listing(p)
	}
	if c.sc.Cancel202 == 0 || p.rq.Class != "upload_delete" {
		return nil
	}
	h := c.w.net.Host(p.rq.Host)
	if h == nil {
		return nil
	}
	h.Lock()
	u, ok := h.Uploads[p.rq.Ref]
	if ok && u.Repo == p.rq.Repo {
		delete(h.Uploads, p.rq.Ref)
	}
	h.Unlock()
	if !ok {
		return nil
	}
	return &simreg.Reply{Status: 202}
}

// permute orders a sorted list the way the scenario's registry lists things.
func (c *ctl) permute(l []string, isDigestTag func(string) bool) []string {
	out := append([]string(nil), l...)
	switch c.sc.ListOrder {
	case "rev":
		for i, j := 0, len(out)-1; i < j; i, j = i+1, j-1 {
			out[i], out[j] = out[j], out[i]
		}
	case "ins": // creation order: the named tags first, what was attached to them (digest tags) afterwards
		a, b := []string{}, []string{}
		for _, t := range out {
			if isDigestTag(t) {
				b = append(b, t)
			} else {
				a = append(a, t)
			}
		}
		out = append(a, b...)
	case "rand":
		r := rand.New(rand.NewSource(c.sc.Seed + int64(len(l))))
		r.Shuffle(len(out), func(i, j int) { out[i], out[j] = out[j], out[i] })
	}
	return out
}

// listing answers tags/list and the referrers API in the order of the scenario (simreg always sorts; the
// distribution spec only recently asked for an order of tag listings and never for one of referrers).
// Unpaged requests only.  c.mu held.
func (c *ctl) listing(p *pend) *simreg.Reply {
	h := c.w.net.Host(p.rq.Host)
	if h == nil || p.rq.Query.Get("n") != "" || p.rq.Query.Get("last") != "" {
		return nil
	}
	hdr := http.Header{}
	hdr.Set("Content-Type", "application/json")
	if p.rq.Class == "tag_list" {
		h.Lock()
		r := h.Repos[p.rq.Repo]
		tags := []string{}
		if r != nil {
			for t := range r.Tags {
				tags = append(tags, t)
			}
		}
		h.Unlock()
		if r == nil {
			return nil
		}
		sort.Strings(tags)
		tags = c.permute(tags, func(t string) bool { return strings.HasPrefix(t, "sha256-") || strings.HasPrefix(t, "sha512-") })
		b, _ := json.Marshal(map[string]any{"name": p.rq.Repo, "tags": tags})
		return &simreg.Reply{Status: 200, Header: hdr, Body: b}
	}
	// referrers API of the source repository, from the driver's own knowledge of the source
	if c.w.srcHost == nil || p.rq.Host != c.w.srcHost.Name || p.rq.Repo != c.w.srcRepo || !c.w.srcHost.Feat.ReferrersAPI {
		return nil
	}
	names := []string{}
	for _, r := range c.w.refs {
		if c.w.nodes[r[1]].Dig == p.rq.Ref {
			names = append(names, r[0])
		}
	}
	sort.Strings(names)
	filter := p.rq.Query.Get("artifactType")
	if c.sc.Seed%2 == 1 {
		filter = "" // a registry that does not filter on its side (no OCI-Filters-Applied): the client has to
	}
	ms := []any{}
	for _, n := range c.permute(names, func(string) bool { return false }) {
		nd := c.w.nodes[n]
		if filter != "" && nd.AType != filter {
			continue
		}
		d := map[string]any{"mediaType": nd.MT, "digest": nd.Dig, "size": len(nd.Raw)}
		if nd.AType != "" {
			d["artifactType"] = nd.AType
		}
		ms = append(ms, d)
	}
	if filter != "" {
		hdr.Set("OCI-Filters-Applied", "artifactType")
	}
	hdr.Set("Content-Type", mtOCIIndex)
	b, _ := json.Marshal(map[string]any{"schemaVersion": 2, "mediaType": mtOCIIndex, "manifests": ms})
	return &simreg.Reply{Status: 200, Header: hdr, Body: b}
}

// mountPolicy makes the registry's answer to a cross-repository mount a per-request decision (simreg's
// Features.Mount is one flag): a declined mount is answered the way registries do, 202 with a fresh upload
// session, which is created in the host state so that the client's cancel finds it.  c.mu held.
func (c *ctl) mountPolicy(p *pend) *simreg.Reply {
	c.mounts++
	decline := false
	for _, k := range c.sc.MountDeclK {
		decline = decline || k == c.mounts
	}
	for _, n := range c.sc.MountDeclN {
		decline = decline || n == p.n
	}
	h := c.w.net.Host(p.rq.Host)
	if !decline || h == nil {
		return nil
	}
	id := fmt.Sprintf("decl%04d", c.mounts)
	h.Lock()
	h.Uploads[id] = &simreg.Upload{Repo: p.rq.Repo, ID: id, Data: []byte{}}
	h.Unlock()
	hdr := http.Header{}
	hdr.Set("Location", "/v2/"+p.rq.Repo+"/blobs/uploads/"+id+"?state=0")
	hdr.Set("Range", "0-0")
	hdr.Set("Docker-Upload-UUID", id)
	return &simreg.Reply{Status: 202, Header: hdr}
}

// decide is called (with c.mu held) when p is about to be served: positional faults, cancel and
// death positions are keyed by the occurrence number of (side, class, name) in serving order.
// It returns the reply to send (nil = serve) and whether the request must stay held (stall).
func (c *ctl) decide(p *pend, scripted string) (rp *simreg.Reply, act string) {
	ks := keyStr(p.side, p.class, p.n)
	if c.resetAll[ks] {
		return &simreg.Reply{Err: errReset}, ""
	}
	c.occ[ks]++
	o := c.occ[ks]
	match := func(x *pos) bool {
		return x != nil && x.Host == p.side && x.Class == p.class && x.N == p.n && (x.Occ == o || x.Occ == 0 && o == 1)
	}
	if match(c.sc.Closer) {
		c.wantClose = true
	}
	if match(c.sc.Death) {
		return nil, "death"
	}
	if match(c.sc.Cancel) {
		return nil, "cancel"
	}
	if scripted != "" {
		c.injected++
		c.slowUntil = time.Now().Add(40 * time.Millisecond)
		return c.faultReply(p, scripted), ""
	}
	for i := range c.sc.Faults {
		if match(&c.sc.Faults[i]) {
			c.injected++
			c.slowUntil = time.Now().Add(40 * time.Millisecond)
			if c.sc.Faults[i].Kind == "stall" {
				return nil, "stall"
			}
			return c.faultReply(p, c.sc.Faults[i].Kind), ""
		}
	}
	return nil, ""
}

// intercept is installed on every host.
func (c *ctl) intercept(rq *simreg.Request) *simreg.Reply {
	side, class, n := c.w.key(rq)
	if side == "ext" {
		// the download server behind foreign layer urls: reachable or stale, never gated
		if c.sc.ExtUp != 0 {
			if lx, ok := c.w.nodes[n]; ok {
				return &simreg.Reply{Status: 200, Body: lx.Raw, Header: http.Header{"Content-Type": {"application/octet-stream"}}}
			}
		}
		return &simreg.Reply{Status: 404, Body: []byte("not found")}
	}
	p := &pend{rq: rq, side: side, class: class, n: n, ch: make(chan *simreg.Reply, 1)}
	c.mu.Lock()
	if c.warm {
		// the client's earlier activity (scenario field prior): served at once, not part of the trace
		c.mu.Unlock()
		return nil
	}
	if c.dead {
		c.mu.Unlock()
		return &simreg.Reply{Err: errRefused}
	}
	if rq.Ctx.Err() != nil {
		c.mu.Unlock()
		return nil // simreg reports the cancelled context
	}
	if !c.gated {
		rp, act := c.decide(p, "")
		switch act {
		case "cancel":
			c.doCancelLocked(p)
			c.mu.Unlock()
			return nil
		case "death":
			c.doDeathLocked()
			c.mu.Unlock()
			return &simreg.Reply{Err: errRefused}
		case "stall":
			// ungated stall: the request never completes and the caller gives up
			c.doCancelLocked(p)
			c.mu.Unlock()
			return nil
		}
		c.served++
		if rp == nil {
			rp = c.override(p)
		}
		c.runCloserLocked()
		c.mu.Unlock()
		if c.w.tgtIsDir {
			c.rec.dirSnap(vtrace.Event{"ev": "snap", "at": "req"})
		}
		return rp
	}
	c.pending = append(c.pending, p)
	c.mu.Unlock()
	c.poke()
	select {
	case rp := <-p.ch:
		return rp
	case <-rq.Ctx.Done():
		c.mu.Lock()
		p.gone = true
		for i, q := range c.pending {
			if q == p {
				c.pending = append(c.pending[:i], c.pending[i+1:]...)
				break
			}
		}
		c.mu.Unlock()
		c.poke()
		return nil
	}
}

// runCloserLocked lets the second user of the client act now (c.mu held; released while it runs: what the
// copy's goroutines have in flight goes on meanwhile, requests arriving at the gate wait).
func (c *ctl) runCloserLocked() {
	if !c.wantClose || c.closeFn == nil {
		c.wantClose = false
		return
	}
	c.wantClose = false
	c.closed++
	c.mu.Unlock()
	// what is being written to a layout target right now comes to rest first (a few quiet milliseconds)
	time.Sleep(3 * time.Millisecond)
	c.closeFn()
	c.mu.Lock()
}

func (c *ctl) doCancelLocked(p *pend) {
	if c.cancelled {
		return
	}
	c.cancelled = true
	at := ""
	if p != nil {
		at = keyStr(p.side, p.class, p.n)
	}
	c.rec.emit(vtrace.Event{"ev": "cancel", "at": at})
	c.cancel()
}

func (c *ctl) doDeathLocked() {
	if c.dead {
		return
	}
	c.dead = true
	// the state at this instant is what a killed process leaves behind
	ev := vtrace.Event{"ev": "death"}
	if c.w.tgtIsDir {
		c.rec.dirSnap(ev)
	} else {
		c.rec.snapEvent(ev, c.w.snapReg())
	}
	c.cancel()
	for _, q := range c.pending {
		q.ch <- &simreg.Reply{Err: errRefused}
	}
	c.pending = nil
}

func (w *world) snapReg() *snap {
	w.tgtHost.Lock()
	defer w.tgtHost.Unlock()
	return w.snapRegLocked()
}

// release serves (or faults) pending request p.  c.mu held.
func (c *ctl) releaseLocked(p *pend, scripted string) {
	for i, q := range c.pending {
		if q == p {
			c.pending = append(c.pending[:i], c.pending[i+1:]...)
			break
		}
	}
	rp, act := c.decide(p, scripted)
	switch act {
	case "cancel":
		c.pending = append(c.pending, p) // stays gated; its context ends now
		c.doCancelLocked(p)
		return
	case "death":
		c.pending = append(c.pending, p)
		c.doDeathLocked()
		return
	case "stall":
		p.stalled = true
		c.pending = append(c.pending, p)
		return
	}
	c.runCloserLocked()
	if c.w.tgtIsDir {
		// layout target: the only observation points are the moments the copy talks to the source
		c.rec.dirSnap(vtrace.Event{"ev": "snap", "at": "gate"})
	}
	c.served++
	if rp == nil {
		rp = c.override(p)
	}
	p.ch <- rp
}

const (
	settleWindow = 1500 * time.Microsecond
	stallLimit   = 8 * time.Second
)

// waitChange blocks until something happens at the gate or the copy returns; it reports false
// when nothing happened for d.
func (c *ctl) waitChange(done <-chan struct{}, d time.Duration) (changed, finished bool) {
	t := time.NewTimer(d)
	defer t.Stop()
	select {
	case <-c.wake:
		return true, false
	case <-done:
		return true, true
	case <-t.C:
		return false, false
	}
}

// settle waits until the pending set has been unchanged for the settle window.
func (c *ctl) settle(done <-chan struct{}) (finished bool) {
	for {
		win := settleWindow
		c.mu.Lock()
		if c.sc.Mode == "delay" {
			win = 5 * time.Millisecond
		}
		if time.Now().Before(c.slowUntil) {
			win = 12 * time.Millisecond
		}
		c.mu.Unlock()
		ch, fin := c.waitChange(done, win)
		if fin {
			return true
		}
		if !ch {
			return false
		}
	}
}

// held reports whether p is one of the scenario's slow requests.
func (c *ctl) held(p *pend) bool {
	for _, h := range c.sc.Hold {
		if (h.Host == "" || h.Host == p.side) && h.Class == p.class && h.N == p.n {
			return true
		}
	}
	return false
}

func (c *ctl) livePending() []*pend {
	out := []*pend{}
	for _, p := range c.pending {
		if !p.stalled {
			out = append(out, p)
		}
	}
	return out
}

// control is the scheduler loop; it returns when the copy has returned (or died).
func (c *ctl) control(done <-chan struct{}) (stalled bool) {
	mode := c.sc.Mode
	script := c.sc.Script
	idle := time.Duration(0)
	for {
		select {
		case <-done:
			return false
		default:
		}
		c.mu.Lock()
		if c.dead {
			c.mu.Unlock()
			<-done
			return false
		}
		live := c.livePending()
		var pick *pend
		scripted := ""
		needSettle := false
		switch {
		case mode == "script" && c.scriptAt < len(script):
			st := script[c.scriptAt]
			switch st.Op {
			case "cancel":
				c.doCancelLocked(nil)
				c.scriptAt++
				c.mu.Unlock()
				continue
			case "death":
				c.doDeathLocked()
				c.scriptAt++
				c.mu.Unlock()
				continue
			case "settle":
				// let everything that can run without a further release come to rest (a layout target
				// is written between the copy's source requests)
				c.scriptAt++
				c.mu.Unlock()
				for quiet := 0; quiet < 6; {
					if ch, fin := c.waitChange(done, 2*time.Millisecond); fin {
						return false
					} else if ch {
						quiet = 0
					} else {
						quiet++
					}
				}
				continue
			}
			for _, p := range live {
				if p.side == st.Host && p.class == st.Class && p.n == st.N {
					pick = p
					break
				}
			}
			if pick != nil {
				c.scriptAt++
				if st.Op == "fault" {
					scripted = st.Kind
				}
			} else {
				needSettle = true
			}
		case mode == "random":
			needSettle = true
		case mode == "delay":
			// everything but the held requests is served in arrival order; a held request only when
			// nothing else can move any more (per-request latency pushed to the extreme)
			for _, p := range live {
				if !c.held(p) {
					pick = p
					break
				}
			}
			if pick == nil && len(live) > 0 {
				needSettle = true
			}
		default: // fifo, or a script that ran out / drifted
			if len(live) > 0 {
				pick = live[0]
			}
		}
		if pick != nil {
			c.releaseLocked(pick, scripted)
			c.mu.Unlock()
			idle = 0
			continue
		}
		stalledOnly := len(live) == 0 && len(c.pending) > 0
		c.mu.Unlock()
		if needSettle || stalledOnly {
			if c.settle(done) {
				return false
			}
			c.mu.Lock()
			live = c.livePending()
			if len(live) > 0 {
				idle = 0
				switch {
				case mode == "delay":
					free := false
					for _, p := range live {
						if !c.held(p) {
							free = true
						}
					}
					if !free {
						c.releaseLocked(live[0], "")
					}
				case mode == "random":
					c.releaseLocked(live[c.rng.Intn(len(live))], "")
				case mode == "script" && c.scriptAt < len(script):
					st := script[c.scriptAt]
					offered := false
					for _, p := range live {
						if p.side == st.Host && p.class == st.Class && p.n == st.N {
							offered = true
						}
					}
					if offered {
						break // it arrived while settling: take it in the next round
					}
					// the request the script waits for is not coming: drift
					if c.drift == "" {
						st := script[c.scriptAt]
						c.drift = fmt.Sprintf("step %d (%s %s %s %s) not offered; pending %s", c.scriptAt, st.Op, st.Host, st.Class, st.N, pendStr(live))
					}
					mode = "fifo"
				}
				c.mu.Unlock()
				continue
			}
			if len(c.pending) > 0 && !c.cancelled {
				// only stalled requests are left: the caller gives up (timeout = cancellation)
				c.doCancelLocked(nil)
				c.mu.Unlock()
				continue
			}
			c.mu.Unlock()
		}
		// nothing pending: the copy is computing, doing file I/O or sleeping in a back-off
		ch, fin := c.waitChange(done, 50*time.Millisecond)
		if fin {
			return false
		}
		if !ch {
			idle += 50 * time.Millisecond
			if idle > stallLimit {
				return true
			}
		} else {
			idle = 0
		}
	}
}

func pendStr(ps []*pend) string {
	s := []string{}
	for _, p := range ps {
		s = append(s, keyStr(p.side, p.class, p.n))
	}
	return strings.Join(s, " ")
}

// drain serves whatever still arrives after the copy returned (requests of goroutines the copy
// did not wait for) until the gate has been quiet for a while.
func (c *ctl) drain() {
	for quiet := 0; quiet < 3; {
		c.mu.Lock()
		if c.dead {
			c.mu.Unlock()
			return
		}
		live := c.livePending()
		if len(live) > 0 {
			c.releaseLocked(live[0], "")
			c.mu.Unlock()
			quiet = 0
			continue
		}
		c.mu.Unlock()
		if ch, _ := c.waitChange(nil, settleWindow); ch {
			quiet = 0
		} else {
			quiet++
		}
	}
}

func errClass(err error) string {
	switch {
	case err == nil:
		return ""
	case errors.Is(err, context.Canceled):
		return "canceled"
	}
	s := err.Error()
	if len(s) > 160 {
		s = s[:160]
	}
	return s
}

// runScenario executes sc and returns its trace.
func runScenario(sc *scenario, scratch string) (*vtrace.Trace, error) {
	w, err := newWorld(sc, scratch)
	if err != nil {
		return nil, err
	}
	rec := &recorder{w: w}
	c := &ctl{w: w, rec: rec, sc: sc, rng: rand.New(rand.NewSource(sc.Seed)), wake: make(chan struct{}, 1),
		occ: map[string]int{}, resetAll: map[string]bool{}, gated: sc.Mode != "ungated"}
	ctx, cancel := context.WithCancel(context.Background())
	defer cancel()
	c.cancel = cancel

	// ----- facts about the source and the initial target
	tr := &vtrace.Trace{ID: sc.ID}
	plats := map[string]bool{}
	for _, p := range strings.Split(sc.Opts.Platforms, ",") {
		if p != "" {
			plats[p] = true
		}
	}
	for _, k := range w.order {
		n := w.nodes[k]
		if !n.isMan() {
			continue
		}
		rec.emit(vtrace.Event{"ev": "man", "n": n.Name, "kind": n.Kind})
		for _, e := range n.Edges {
			psel := 1
			if (e.Role == "entry" || e.Role == "bentry" || e.Role == "uentry") && len(plats) > 0 && !plats[e.Plat] {
				psel = 0
			}
			rec.emit(vtrace.Event{"ev": "edge", "p": n.Name, "c": e.C, "role": e.Role, "psel": psel, "hosted": 1})
		}
	}
	for _, r := range w.refs {
		m := 1
		if sc.Opts.RefFilter != "" || sc.Opts.RefFilter2 != "" {
			// the union of what the filter options select
			at := w.nodes[r[0]].AType
			m = b2i((sc.Opts.RefFilter != "" && at == sc.Opts.RefFilter) || (sc.Opts.RefFilter2 != "" && at == sc.Opts.RefFilter2))
		}
		rec.emit(vtrace.Event{"ev": "referrer", "r": r[0], "s": r[1], "match": m})
	}
	if w.refsTgt != "" {
		for _, k := range w.order {
			rec.emit(vtrace.Event{"ev": "alias", "q": refPfx + k, "n": k, "pfx": refPfx})
		}
	}
	for _, d := range w.dtags {
		if d.NoFact {
			continue
		}
		rec.emit(vtrace.Event{"ev": "dtag", "t": d.Sym, "on": d.Of, "to": d.To, "fb": b2i(d.FB)})
	}
	snapEv := func(ev vtrace.Event) {
		if w.tgtIsDir {
			rec.dirSnap(ev)
		} else {
			rec.snapEvent(ev, w.snapReg())
		}
	}

	faultfree := len(sc.Faults) == 0 && sc.Cancel == nil && sc.Death == nil && sc.CancelCB == nil
	for _, st := range sc.Script {
		if st.Op != "rel" {
			faultfree = false
		}
	}
	// only transient, retryable faults, fewer than the retry limit (reghttp absorbs them)
	transient, nflt := !faultfree && sc.Cancel == nil && sc.Death == nil && sc.CancelCB == nil, 0
	isTransient := func(k string) bool {
		return k == "429" || k == "500" || k == "reset" || k == "502" || k == "504" || k == "408"
	}
	for _, f := range sc.Faults {
		nflt++
		transient = transient && isTransient(f.Kind)
	}
	for _, st := range sc.Script {
		switch st.Op {
		case "fault":
			nflt++
			transient = transient && isTransient(st.Kind)
		case "cancel", "death":
			transient = false
		}
	}
	transient = transient && nflt >= 1 && nflt <= 2
	tr.Header = map[string]any{
		"shape": sc.Shape, "pair": sc.Pair, "root": w.sh.Root,
		"samerepo": b2i(w.sameRepo()), "samereg": b2i(w.sameReg()),
		"mountok": b2i(sc.Mount != 0 && sc.Pair == "samereg"),
		"srcdir":  b2i(w.srcIsDir), "tgtdir": b2i(w.tgtIsDir),
		"force": b2i(sc.Opts.Force != 0), "referrers": b2i(sc.Opts.Referrers != 0), "dtags": b2i(sc.Opts.DTags != 0),
		"inclext": b2i(sc.Opts.InclExt != 0), "fast": b2i(sc.Opts.Fast != 0), "plats": b2i(len(plats) > 0),
		"tagged": b2i(sc.TgtByDigest == 0), "faultfree": b2i(faultfree), "transient": b2i(transient), "reftgt": b2i(w.refsTgt != ""), "refapi_tgt": b2i(sc.RefAPITgt != 0),
	}

	// ----- the client under test
	for _, h := range []*simreg.Host{w.srcHost, w.tgtHost, w.extHost} {
		if h != nil {
			h.Intercept = c.intercept
			h.After = rec.onRequest
		}
	}
	conc := int64(sc.Conc)
	if conc <= 0 {
		conc = 3
	}
	hosts := []config.Host{}
	for _, hn := range []string{hostA, hostB} {
		h := config.Host{Name: hn, Hostname: hn, TLS: config.TLSDisabled, ReqConcurrent: conc}
		// a mirror in the client's configuration of the source / target registry (the mirror holds nothing)
		if (hn == hostA && (sc.Mirror == "src" || sc.Mirror == "both" || (sc.Mirror == "tgt" && w.sameReg()))) ||
			(hn == hostB && (sc.Mirror == "tgt" || sc.Mirror == "both")) {
			m := mirrorA
			if hn == hostB {
				m = mirrorB
			}
			h.Mirrors = []string{m}
			hosts = append(hosts, config.Host{Name: m, Hostname: m, TLS: config.TLSDisabled, ReqConcurrent: conc})
		}
		hosts = append(hosts, h)
	}
	regOpts := []reg.Opts{reg.WithHTTPClient(&http.Client{Transport: w.net}), reg.WithDelay(time.Millisecond, 4*time.Millisecond)}
	if sc.Cache != 0 {
		regOpts = append(regOpts, reg.WithCache(5*time.Minute, 500))
	}
	if sc.Chunked != 0 {
		regOpts = append(regOpts, reg.WithBlobSize(96, 128))
	}
	newRC := func() *regclient.RegClient {
		return regclient.New(
			regclient.WithConfigHost(hosts...),
			regclient.WithRegOpts(regOpts...),
			regclient.WithSlog(slog.New(slog.NewTextHandler(io.Discard, nil))),
		)
	}
	rc := newRC()
	rSrc, err := ref.New(w.refSrc)
	if err != nil {
		return nil, fmt.Errorf("source ref: %w", err)
	}
	rTgt, err := ref.New(w.refTgt)
	if err != nil {
		return nil, fmt.Errorf("target ref: %w", err)
	}
	if sc.Closer != nil || sc.CloserCB != nil {
		var rOther, rOtherTgt ref.Ref
		haveOther := false
		if sc.CloserOp == "copyclose" && !w.sameRepo() {
			od := filepath.Join(scratch, "other")
			if err := w.writeLayout(od, []string{"OLDM", "OLDC", "OLDL"}, map[string]string{srcTag: "OLDM"}); err != nil {
				return nil, err
			}
			base := w.refTgt
			if i := strings.LastIndexAny(base, "@"); i >= 0 {
				base = base[:i]
			} else if i := strings.LastIndex(base, ":"+tgtTag); i >= 0 {
				base = base[:i]
			}
			r1, err1 := ref.New("ocidir://" + od + ":" + srcTag)
			r2, err2 := ref.New(base + ":other")
			if err1 == nil && err2 == nil {
				rOther, rOtherTgt, haveOther = r1, r2, true
			}
		}
		c.closeFn = func() {
			fin := make(chan struct{})
			go func() {
				defer close(fin)
				if haveOther {
					_ = rc.ImageCopy(context.Background(), rOther, rOtherTgt)
				}
				_ = rc.Close(context.Background(), rTgt)
			}()
			select {
			case <-fin:
			case <-time.After(5 * time.Second):
			}
			if w.tgtIsDir {
				rec.dirSnap(vtrace.Event{"ev": "snap", "at": "close"})
			} else {
				rec.emit(vtrace.Event{"ev": "note", "what": "close"})
			}
		}
	}
	opts := []regclient.ImageOpts{}
	if sc.Opts.Force != 0 {
		opts = append(opts, regclient.ImageWithForceRecursive())
	}
	if sc.Opts.Referrers != 0 {
		n := 0
		for _, f := range []string{sc.Opts.RefFilter, sc.Opts.RefFilter2} {
			if f != "" {
				opts = append(opts, regclient.ImageWithReferrers(scheme.WithReferrerMatchOpt(descriptor.MatchOpt{ArtifactType: f})))
				n++
			}
		}
		if n == 0 {
			opts = append(opts, regclient.ImageWithReferrers())
		}
		if w.refsTgt != "" {
			rRef, err := ref.New(w.refsTgt)
			if err != nil {
				return nil, fmt.Errorf("referrer target ref: %w", err)
			}
			opts = append(opts, regclient.ImageWithReferrerTgt(rRef))
		}
	}
	if sc.Opts.DTags != 0 {
		opts = append(opts, regclient.ImageWithDigestTags())
	}
	if sc.Opts.InclExt != 0 {
		opts = append(opts, regclient.ImageWithIncludeExternal())
	}
	if sc.Opts.Fast != 0 {
		opts = append(opts, regclient.ImageWithFastCheck())
	}
	if len(plats) > 0 {
		opts = append(opts, regclient.ImageWithPlatforms(strings.Split(sc.Opts.Platforms, ",")))
	}
	if w.tgtIsDir || sc.CancelCB != nil || sc.Callback != 0 || sc.CloserCB != nil {
		// the progress callback runs inside the copy's goroutines: further observation points of a
		// layout target (the only ones when the source is a layout as well), and a place to cancel
		// "after the blob has been fetched, before it is stored"
		cbSeen, cbClose := 0, 0
		opts = append(opts, regclient.ImageWithCallback(func(kind types.CallbackKind, instance string, state types.CallbackState, cur, total int64) {
			if sc.CancelCB != nil && kind == types.CallbackBlob && state == types.CallbackStarted && w.name(instance) == sc.CancelCB.N {
				c.mu.Lock()
				cbSeen++
				if cbSeen == sc.CancelCB.Occ {
					c.doCancelLocked(nil)
				}
				c.mu.Unlock()
			}
			if sc.CloserCB != nil && kind == types.CallbackBlob && state == types.CallbackFinished && w.name(instance) == sc.CloserCB.N {
				c.mu.Lock()
				cbClose++
				if cbClose == sc.CloserCB.Occ || (sc.CloserCB.Occ == 0 && cbClose == 1) {
					c.wantClose = true
					c.runCloserLocked()
				}
				c.mu.Unlock()
			}
			if !w.tgtIsDir {
				return
			}
			if state == types.CallbackFinished || state == types.CallbackSkipped || state == types.CallbackStarted {
				c.mu.Lock()
				dead := c.dead
				c.mu.Unlock()
				if !dead {
					rec.dirSnap(vtrace.Event{"ev": "snap", "at": "cb"})
				}
			}
		}))
	}

	// ----- what the same client did before (its caches and feature memos carry over)
	// A copy made in this phase runs ungated and unobserved; should it never return (a hang of the code under
	// test, outside these properties) the scenario is given up instead of blocking the driver for good.
	priorHung := false
	priorCopy := func(r *regclient.RegClient, tgt ref.Ref) {
		pctx, pcancel := context.WithCancel(ctx)
		defer pcancel()
		fin := make(chan struct{})
		go func() {
			defer close(fin)
			_ = r.ImageCopy(pctx, rSrc, tgt, opts...)
		}()
		select {
		case <-fin:
		case <-time.After(30 * time.Second):
			priorHung = true
			pcancel()
			select {
			case <-fin:
			case <-time.After(5 * time.Second):
			}
		}
	}
	if (sc.Prior == "recopy" || sc.Prior == "recopy-other") && !w.sameRepo() {
		// the same copy was made before; then content vanished from the target behind the client's back
		c.mu.Lock()
		c.warm = true
		c.mu.Unlock()
		rec.mu.Lock()
		rec.muted = true
		rec.mu.Unlock()
		if sc.Prior == "recopy-other" {
			// somebody else made the copy (and closed the target, as regctl does): the observed client is fresh
			rc0 := newRC()
			priorCopy(rc0, rTgt)
			_ = rc0.Close(ctx, rTgt)
		} else {
			priorCopy(rc, rTgt)
			if sc.Seed%2 == 0 {
				_ = rc.Close(ctx, rTgt)
			}
		}
		w.wipe(sc.Wipe)
		c.mu.Lock()
		c.warm = false
		c.mu.Unlock()
		rec.mu.Lock()
		rec.muted = false
		rec.mu.Unlock()
	} else if sc.Prior != "" && (w.tgtHost != nil || (sc.Prior != "copy" && sc.Prior != "get")) && !w.sameRepo() {
		c.mu.Lock()
		c.warm = true
		c.mu.Unlock()
		rec.mu.Lock()
		rec.muted = true
		rec.mu.Unlock()
		switch sc.Prior {
		case "copy":
			if w.refsTgt != "" {
				break // (the referrer target is observed from its initial state)
			}
			if rWarm, err := ref.New(w.tgtHost.Name + "/proj/warm:" + tgtTag); err == nil {
				priorCopy(rc, rWarm)
			}
		case "reflist", "taglist", "head":
			// listings and HEADs the same client made before (artifact list / tag ls / manifest head): with the
			// cache on their answers are what the copy sees
			if w.srcIsDir {
				break
			}
			if sc.Prior == "taglist" {
				if r, err := ref.New(hostA + "/" + srcRepo); err == nil {
					_, _ = rc.TagList(ctx, r)
				}
				break
			}
			for _, k := range w.order {
				n := w.nodes[k]
				if !n.isMan() || strings.HasPrefix(k, "OLD") {
					continue
				}
				r, err := ref.New(hostA + "/" + srcRepo + "@" + n.Dig)
				if err != nil {
					continue
				}
				if sc.Prior == "head" {
					_, _ = rc.ManifestHead(ctx, r)
					continue
				}
				ro := []scheme.ReferrerOpts{}
				if sc.PriorArg != "" {
					ro = append(ro, scheme.WithReferrerMatchOpt(descriptor.MatchOpt{ArtifactType: sc.PriorArg}))
				}
				_, _ = rc.ReferrerList(ctx, r, ro...)
			}
		case "get":
			if !w.srcIsDir {
				for _, k := range w.order {
					if n := w.nodes[k]; n.isMan() && !strings.HasPrefix(k, "OLD") {
						if r, err := ref.New(hostA + "/" + srcRepo + "@" + n.Dig); err == nil {
							_, _ = rc.ManifestGet(ctx, r)
						}
					}
				}
			}
		}
		c.mu.Lock()
		c.warm = false
		c.mu.Unlock()
		rec.mu.Lock()
		rec.muted = false
		rec.mu.Unlock()
	}

	if priorHung {
		tr.Meta = map[string]any{"prior_hang": "the copy made before the observed one (prior = " + sc.Prior + ") did not return within 30 s"}
		tr.Events = rec.events
		cancel()
		return tr, nil
	}
	snapEv(vtrace.Event{"ev": "init"})

	done := make(chan struct{})
	var copyErr error
	go func() {
		defer close(done)
		defer func() {
			if r := recover(); r != nil {
				copyErr = fmt.Errorf("PANIC: %v", r)
			}
		}()
		copyErr = rc.ImageCopy(ctx, rSrc, rTgt, opts...)
	}()
	stalled := c.control(done)
	if stalled {
		c.mu.Lock()
		pend := pendStr(c.pending)
		c.mu.Unlock()
		tr.Meta = map[string]any{"stall": "copy neither returned nor issued a request; pending: " + pend}
		tr.Events = rec.events
		cancel()
		return tr, nil
	}
	c.mu.Lock()
	dead := c.dead
	c.mu.Unlock()
	if !dead {
		snapEv(vtrace.Event{"ev": "result", "ok": b2i(copyErr == nil), "err": errClass(copyErr)})
		// requests of goroutines the copy did not wait for
		c.drain()
		snapEv(vtrace.Event{"ev": "final"})
	}
	cancel()
	c.mu.Lock()
	c.dead = true // anything arriving from now on is refused and not part of the trace
	for _, q := range c.pending {
		q.ch <- &simreg.Reply{Err: errRefused}
	}
	c.pending = nil
	exact := sc.Mode != "script" || (c.drift == "" && c.scriptAt >= len(sc.Script))
	drift := c.drift
	if sc.Mode == "script" && drift == "" && c.scriptAt < len(sc.Script) {
		drift = fmt.Sprintf("copy returned at script step %d of %d", c.scriptAt, len(sc.Script))
	}
	meta := map[string]any{"mode": sc.Mode, "exact": exact, "drift": drift, "served": c.served, "injected": c.injected,
		"err": errClass(copyErr), "dead": dead, "cancelled": c.cancelled, "origin": sc.Origin}
	c.mu.Unlock()
	rec.mu.Lock()
	tr.Events = append([]vtrace.Event(nil), rec.events...)
	rec.mu.Unlock()
	tr.Meta = meta
	return tr, nil
}

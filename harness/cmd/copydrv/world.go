package main

// world.go: a scenario and the concrete environment (model registries / OCI layout directories)
// it runs in.  Source and target content is placed directly into the simreg state or written as
// plain files, never through regclient.

import (
	"encoding/json"
	"fmt"
	"os"
	"path/filepath"
	"sort"
	"strings"

	"github.com/regclient/regclient/zzverif/simreg"
)

type step struct {
	Op    string `json:"op"` // rel | fault | cancel | death | settle
	Host  string `json:"host,omitempty"`
	Class string `json:"class,omitempty"`
	N     string `json:"n,omitempty"`
	Kind  string `json:"kind,omitempty"` // fault kind
}

type pos struct {
	Host  string `json:"host"`
	Class string `json:"class"`
	N     string `json:"n"`
	Occ   int    `json:"occ"`            // 1-based occurrence of (host,class,n) in serving order
	Kind  string `json:"kind,omitempty"` // fault kind
}

type copyOpts struct {
	Force      int    `json:"force,omitempty"`
	Referrers  int    `json:"referrers,omitempty"`
	RefFilter  string `json:"reffilter,omitempty"`
	RefFilter2 string `json:"reffilter2,omitempty"` // a second ImageWithReferrers(filter) option (the union is copied)
	RefTgt     int    `json:"reftgt,omitempty"`     // ImageWithReferrerTgt: referrers go to a second repository / layout
	DTags      int    `json:"dtags,omitempty"`
	InclExt    int    `json:"inclext,omitempty"`
	Fast       int    `json:"fast,omitempty"`
	Platforms  string `json:"platforms,omitempty"` // comma separated os/arch list
}

type scenario struct {
	ID          string   `json:"id"`
	Shape       string   `json:"shape"`
	Pair        string   `json:"pair"` // samerepo | samereg | tworeg | reg2dir | dir2reg | dir2dir
	Mount       int      `json:"mount"`
	HeadDigest  int      `json:"headdigest"`
	RefAPISrc   int      `json:"refapi_src"`
	RefAPITgt   int      `json:"refapi_tgt"`
	ExtUp       int      `json:"extup,omitempty"`
	MountDeclK  []int    `json:"mount_decline_k,omitempty"` // the registry declines the k-th cross-repository mount request it sees (202 + upload session), grants the others
	MountDeclN  []string `json:"mount_decline_n,omitempty"` // ... declines the mount of these blobs
	Cancel202   int      `json:"cancel202,omitempty"`
	Leftover    int      `json:"leftover,omitempty"`  // the source has the referrers API AND bare sha256-<digest> tags (indexes of the referrers) left over
	Wipe        string   `json:"wipe,omitempty"`      // prior "recopy": what vanished from the target afterwards, behind the client's back: all | blobs (blobs and tags)
	Mirror      string   `json:"mirror,omitempty"`    // client host config names an (empty) mirror for: tgt | src | both
	Prior       string   `json:"prior,omitempty"`     // what the same client did before the observed copy: "copy" = copied the image to another repository of the target registry, "get" = fetched every manifest of the source by digest, "recopy" = made the same copy before (then Wipe happened; Wipe "" = nothing vanished: the observed copy is a repeat onto an identical target), "recopy-other" = ANOTHER client made the same copy before, "reflist" = listed the referrers of every source manifest (filter PriorArg), "taglist" = listed the source tags, "head" = ManifestHead of every source manifest by digest
	ListOrder   string   `json:"listorder,omitempty"` // order in which registries list tags / referrers: "" sorted | rev | ins (named tags first, digest tags after) | rand (seeded)
	Callback    int      `json:"callback,omitempty"`  // ImageWithCallback installed (always for layout targets: observation points)
	Cache       int      `json:"cache,omitempty"`     // reg.WithCache: manifest / referrer cache of the reg scheme on
	Chunked     int      `json:"chunked,omitempty"`   // WithBlobSize(chunk 96, max 128): blobs above 128 bytes go up in chunks (PATCH)
	PageSize    int      `json:"pagesize,omitempty"`  // registries page tag and referrer listings with this many entries       // registries answer 202 (not 204) to the DELETE of an upload session, which is what regclient takes for success
	Opts        copyOpts `json:"opts"`
	ByDigest    int      `json:"bydigest,omitempty"`
	TgtByDigest int      `json:"tgtbydigest,omitempty"`
	Init        []string `json:"init"`
	Tag0        string   `json:"tag0"` // none | stale | same
	Conc        int      `json:"conc,omitempty"`
	Mode        string   `json:"mode"`           // script | random | fifo | ungated | delay
	Hold        []pos    `json:"hold,omitempty"` // mode delay: requests served only when nothing else can move (a slow request)
	Script      []step   `json:"script,omitempty"`
	Faults      []pos    `json:"faults,omitempty"`
	Cancel      *pos     `json:"cancel,omitempty"`
	Death       *pos     `json:"death,omitempty"`
	CancelCB    *pos     `json:"cancel_cb,omitempty"` // cancel when the progress callback reports "blob N started" the Occ-th time
	// a second user of the same RegClient while the copy runs (round 5): at the request position Closer (before that
	// request is served) or when the progress callback reports "blob N finished" the Occ-th time (CloserCB), another
	// goroutine does CloserOp on the target: "close" = rc.Close(target) (what regctl does after every copy),
	// "copyclose" = copies another small image from a layout into the same target under another tag, then rc.Close
	Closer   *pos   `json:"closer,omitempty"`
	CloserCB *pos   `json:"closer_cb,omitempty"`
	CloserOp string `json:"closer_op,omitempty"`
	// argument of Prior "reflist": the artifact type filter of the earlier listing ("" = unfiltered)
	PriorArg string `json:"prior_arg,omitempty"`
	Seed     int64  `json:"seed,omitempty"`
	Origin   string `json:"origin,omitempty"` // free text: which generator made it
}

const (
	hostA   = "reg-a.test"
	hostB   = "reg-b.test"
	mirrorA = "mirror-a.test"
	mirrorB = "mirror-b.test"
	srcRepo = "proj/src"
	tgtRepo = "proj/tgt"
	refRepo = "proj/refs" // referrer target (ImageWithReferrerTgt), on the target's registry
	refPfx  = "r/"        // prefix of the names of objects in the referrer target
	srcTag  = "v1"
	tgtTag  = "v2"
)

type world struct {
	sc  *scenario
	sh  *shape
	net *simreg.Net
	// universe: every named object (shape nodes, fall-back indexes of the source, the stale image)
	nodes map[string]*node
	order []string
	byDig map[string]string // digest -> name
	dtags []wdtag
	refs  [][2]string // referrer, subject

	srcHost, tgtHost *simreg.Host // nil for a layout side
	extHost          *simreg.Host
	srcRepo, tgtRepo string
	srcDir, tgtDir   string
	refDir           string // referrer target layout
	refsTgt          string // referrer target reference ("" = none)
	refSrc, refTgt   string
	srcIsDir         bool
	tgtIsDir         bool
	tagSyms          map[string]string // literal tag -> symbolic name
	derived          map[string]bool   // names of derived (client made) manifests already announced
}

type wdtag struct {
	Sym, Tag, Of, To string
	FB               bool
	NoFact           bool // the tag exists at the source but is not a digest tag (no dtag fact)
}

func (w *world) sameRepo() bool { return w.sc.Pair == "samerepo" }
func (w *world) sameReg() bool  { return w.sc.Pair == "samerepo" || w.sc.Pair == "samereg" }

func (w *world) addNode(n *node) {
	w.nodes[n.Name] = n
	w.order = append(w.order, n.Name)
	w.byDig[n.Dig] = n.Name
}

// name maps a digest string to its symbolic name; unknown digests get "?<8 hex>".
func (w *world) name(dig string) string {
	if n, ok := w.byDig[dig]; ok {
		return n
	}
	h := dig
	if i := strings.IndexByte(dig, ':'); i >= 0 {
		h = dig[i+1:]
	}
	if len(h) > 8 {
		h = h[:8]
	}
	return "?" + h
}

func (w *world) tagSym(tag string) string {
	if s, ok := w.tagSyms[tag]; ok {
		return s
	}
	if len(tag) > 12 {
		tag = tag[:12]
	}
	return "?" + tag
}

func featFor(headDigest, refAPI, mount, pageSize int) simreg.Features {
	f := simreg.DefaultFeatures()
	f.PageSize = pageSize
	f.HeadDigest = headDigest != 0
	f.ReferrersAPI = refAPI != 0
	f.Mount = mount != 0
	return f
}

func newWorld(sc *scenario, scratch string) (*world, error) {
	sh := buildShape(sc.Shape)
	if sh == nil {
		return nil, fmt.Errorf("unknown shape %q", sc.Shape)
	}
	w := &world{sc: sc, sh: sh, net: simreg.NewNet(), nodes: map[string]*node{}, byDig: map[string]string{},
		tagSyms: map[string]string{srcTag: "S", tgtTag: "T"}, derived: map[string]bool{}}
	for _, k := range sh.Order {
		w.addNode(sh.Nodes[k])
	}
	w.srcIsDir = sc.Pair == "dir2reg" || sc.Pair == "dir2dir"
	w.tgtIsDir = sc.Pair == "reg2dir" || sc.Pair == "dir2dir"
	if w.sameReg() || w.srcIsDir {
		// one host (or a layout, which always lists referrers through the fall-back tag)
		if w.srcIsDir {
			sc.RefAPISrc = 0
		} else {
			sc.RefAPITgt = sc.RefAPISrc
		}
	}
	if w.tgtIsDir {
		sc.RefAPITgt = 0
	}
	// referrer relation and fall-back indexes of the source
	for _, k := range sh.Order {
		n := sh.Nodes[k]
		if n.Subject != "" {
			w.refs = append(w.refs, [2]string{n.Name, n.Subject})
		}
	}
	for _, d := range sh.dtags {
		t := d.tag(sh)
		w.dtags = append(w.dtags, wdtag{Sym: d.Sym, Tag: t, Of: d.Of, To: d.To})
		w.tagSyms[t] = d.Sym
	}
	for _, k := range sh.Order {
		n := sh.Nodes[k]
		if !n.isMan() {
			continue
		}
		fbTag := n.alg() + "-" + n.hexd()
		if len(n.hexd()) > 64 {
			fbTag = n.alg() + "-" + n.hexd()[:64] // referrer.FallbackTag: "%.32s-%.64s"
		}
		w.tagSyms[fbTag] = "fb:" + n.Name
		rs := sh.referrers(n.Name)
		if len(rs) == 0 || (sc.RefAPISrc != 0 && sc.Leftover == 0) {
			continue
		}
		fb := &node{Name: "FB:" + n.Name, Kind: "index", MT: mtOCIIndex, Raw: fallbackIndexRaw(rs)}
		fb.Dig = digestOf(fb.Raw)
		for _, r := range rs {
			fb.Edges = append(fb.Edges, edge{C: r.Name, Role: "entry"})
		}
		w.addNode(fb)
		// (only a fall-back tag that carries the whole digest is a digest tag of n: not for sha512)
		w.dtags = append(w.dtags, wdtag{Sym: "fb:" + n.Name, Tag: fbTag, Of: n.Name, To: fb.Name, FB: sc.RefAPISrc == 0, NoFact: len(n.hexd()) > 64})
	}
	// the image a stale target tag points at
	old := newShape("old")
	oc, ol := old.config("OLDC", "amd64"), old.blob("OLDL", 111)
	old.image("OLDM", false, L(oc), []lref{L(ol)}, nil, "")
	for _, k := range old.Order {
		w.addNode(old.Nodes[k])
	}

	// ----- source
	if w.srcIsDir {
		w.srcDir = filepath.Join(scratch, "src")
		tags := map[string]string{srcTag: sh.Root}
		for _, d := range w.dtags {
			tags[d.Tag] = d.To
		}
		present := []string{}
		for _, k := range w.order {
			if !strings.HasPrefix(k, "OLD") {
				present = append(present, k)
			}
		}
		if err := w.writeLayout(w.srcDir, present, tags); err != nil {
			return nil, err
		}
		w.refSrc = "ocidir://" + w.srcDir + ":" + srcTag
		if sc.ByDigest != 0 {
			w.refSrc = "ocidir://" + w.srcDir + "@" + sh.Nodes[sh.Root].Dig
		}
	} else {
		w.srcHost = w.net.AddHost(hostA, featFor(sc.HeadDigest, sc.RefAPISrc, sc.Mount, sc.PageSize))
		w.srcRepo = srcRepo
		w.srcHost.Repo(srcRepo)
		for _, k := range w.order {
			n := w.nodes[k]
			if strings.HasPrefix(k, "OLD") {
				continue
			}
			seed(w.srcHost, srcRepo, n)
		}
		w.srcHost.Lock()
		// unrelated tags around the digest tags in any listing order
		for _, t := range []string{"aa-first", "stable", "zz-last"} {
			w.srcHost.Repos[srcRepo].Tags[t] = sh.Nodes[sh.Root].Dig
		}
		w.srcHost.Repos[srcRepo].Tags[srcTag] = sh.Nodes[sh.Root].Dig
		for _, d := range w.dtags {
			w.srcHost.Repos[srcRepo].Tags[d.Tag] = w.nodes[d.To].Dig
		}
		w.srcHost.Unlock()
		w.refSrc = hostA + "/" + srcRepo + ":" + srcTag
		switch sc.ByDigest {
		case 1:
			w.refSrc = hostA + "/" + srcRepo + "@" + sh.Nodes[sh.Root].Dig
		case 2: // tag and digest
			w.refSrc = hostA + "/" + srcRepo + ":" + srcTag + "@" + sh.Nodes[sh.Root].Dig
		}
	}

	// ----- target
	init := map[string]bool{}
	for _, k := range sc.Init {
		if _, ok := w.nodes[k]; !ok {
			return nil, fmt.Errorf("init names unknown node %q", k)
		}
		init[k] = true
	}
	tags := map[string]string{}
	switch sc.Tag0 {
	case "stale":
		init["OLDM"], init["OLDC"], init["OLDL"] = true, true, true
		tags[tgtTag] = "OLDM"
	case "same":
		init[sh.Root] = true
		tags[tgtTag] = sh.Root
	case "", "none":
		sc.Tag0 = "none"
	default:
		return nil, fmt.Errorf("bad tag0 %q", sc.Tag0)
	}
	switch {
	case w.sameRepo():
		w.tgtHost, w.tgtRepo = w.srcHost, srcRepo
		w.srcHost.Lock()
		for t, n := range tags {
			nd := w.nodes[n]
			if strings.HasPrefix(n, "OLD") {
				w.srcHost.Repos[srcRepo].Manifests[nd.Dig] = simreg.Manifest{MediaType: nd.MT, Body: nd.Raw}
				w.srcHost.Repos[srcRepo].Blobs[w.nodes["OLDC"].Dig] = w.nodes["OLDC"].Raw
				w.srcHost.Repos[srcRepo].Blobs[w.nodes["OLDL"].Dig] = w.nodes["OLDL"].Raw
			}
			w.srcHost.Repos[srcRepo].Tags[t] = nd.Dig
		}
		w.srcHost.Unlock()
	case w.tgtIsDir:
		w.tgtDir = filepath.Join(scratch, "tgt")
		if len(init) > 0 {
			if err := w.writeLayout(w.tgtDir, sortedKeys(init), tags); err != nil {
				return nil, err
			}
		}
	default:
		if w.sameReg() {
			w.tgtHost = w.srcHost
		} else {
			w.tgtHost = w.net.AddHost(hostB, featFor(sc.HeadDigest, sc.RefAPITgt, sc.Mount, sc.PageSize))
		}
		w.tgtRepo = tgtRepo
		w.tgtHost.Repo(tgtRepo)
		for _, k := range sortedKeys(init) {
			seed(w.tgtHost, tgtRepo, w.nodes[k])
		}
		w.tgtHost.Lock()
		for t, n := range tags {
			w.tgtHost.Repos[tgtRepo].Tags[t] = w.nodes[n].Dig
		}
		w.tgtHost.Unlock()
	}
	base := ""
	switch {
	case w.tgtIsDir:
		base = "ocidir://" + w.tgtDir
	case w.sameReg():
		base = hostA + "/" + w.tgtRepo
	default:
		base = hostB + "/" + w.tgtRepo
	}
	if sc.TgtByDigest != 0 {
		w.refTgt = base + "@" + sh.Nodes[sh.Root].Dig
	} else {
		w.refTgt = base + ":" + tgtTag
	}

	// ----- a separate target for the referrers
	if sc.Opts.RefTgt != 0 {
		switch {
		case w.sameRepo():
			return nil, fmt.Errorf("reftgt with samerepo is not supported")
		case w.tgtIsDir:
			w.refDir = filepath.Join(scratch, "tgtrefs")
			w.refsTgt = "ocidir://" + w.refDir
		default:
			w.tgtHost.Repo(refRepo)
			w.refsTgt = w.tgtHost.Name + "/" + refRepo
		}
	}

	// ----- empty mirrors named by the client's host configuration
	if sc.Mirror != "" {
		// (a mirror that has nothing says so to every request, listings included)
		for _, m := range []string{mirrorA, mirrorB} {
			w.net.AddHost(m, simreg.DefaultFeatures()).Intercept = func(*simreg.Request) *simreg.Reply {
				return &simreg.Reply{Status: 404, Body: []byte(`{"errors":[{"code":"NAME_UNKNOWN","message":"not mirrored"}]}`)}
			}
		}
	}

	// ----- the host behind the urls of foreign layers
	w.extHost = w.net.AddHost(extHost, simreg.DefaultFeatures())
	return w, nil
}

// seed places object n into a repository of a model registry under the digest the source names it by.
func seed(h *simreg.Host, repo string, n *node) {
	h.Repo(repo)
	h.Lock()
	defer h.Unlock()
	if n.isMan() {
		h.Repos[repo].Manifests[n.Dig] = simreg.Manifest{MediaType: n.MT, Body: append([]byte{}, n.Raw...)}
	} else {
		h.Repos[repo].Blobs[n.Dig] = append([]byte{}, n.Raw...)
	}
}

// wipe removes content from the target the way someone else would (registry GC, repository deleted and
// recreated, files removed): "all" = everything, "blobs" = the blobs and the tags (manifests stay).
func (w *world) wipe(what string) {
	if what == "" {
		return
	}
	if w.tgtIsDir {
		if what == "all" {
			_ = os.RemoveAll(w.tgtDir)
			return
		}
		for _, alg := range []string{"sha256", "sha512"} {
			ents, _ := os.ReadDir(filepath.Join(w.tgtDir, "blobs", alg))
			for _, e := range ents {
				if n, ok := w.nodes[w.name(alg+":"+e.Name())]; ok && !n.isMan() {
					_ = os.Remove(filepath.Join(w.tgtDir, "blobs", alg, e.Name()))
				}
			}
		}
		_ = os.WriteFile(filepath.Join(w.tgtDir, "index.json"), []byte(`{"schemaVersion":2,"mediaType":"`+mtOCIIndex+`","manifests":[]}`), 0o666)
		return
	}
	if w.tgtHost == nil {
		return
	}
	w.tgtHost.Lock()
	defer w.tgtHost.Unlock()
	r := w.tgtHost.Repos[w.tgtRepo]
	if r == nil {
		return
	}
	r.Blobs = map[string][]byte{}
	r.Tags = map[string]string{}
	if what == "all" {
		r.Manifests = map[string]simreg.Manifest{}
	}
}

// writeLayout writes an OCI image layout by hand.
func (w *world) writeLayout(dir string, present []string, tags map[string]string) error {
	for _, a := range []string{"sha256", "sha512"} {
		if err := os.MkdirAll(filepath.Join(dir, "blobs", a), 0o777); err != nil {
			return err
		}
	}
	if err := os.WriteFile(filepath.Join(dir, "oci-layout"), []byte(`{"imageLayoutVersion":"1.0.0"}`), 0o666); err != nil {
		return err
	}
	for _, k := range present {
		n := w.nodes[k]
		if err := os.WriteFile(filepath.Join(dir, "blobs", n.alg(), n.hexd()), n.Raw, 0o666); err != nil {
			return err
		}
	}
	ms := []any{}
	tl := sortedKeys(tags)
	for _, t := range tl {
		n := w.nodes[tags[t]]
		ms = append(ms, map[string]any{"mediaType": n.MT, "digest": n.Dig, "size": len(n.Raw),
			"annotations": map[string]string{"org.opencontainers.image.ref.name": t}})
	}
	ib, _ := json.Marshal(map[string]any{"schemaVersion": 2, "mediaType": mtOCIIndex, "manifests": ms})
	return os.WriteFile(filepath.Join(dir, "index.json"), ib, 0o666)
}

// universeNames returns the nodes that belong to the copied image with its referrers and digest
// tags (everything of the shape), children first.
func (w *world) shapeNames() []string {
	return append([]string(nil), w.sh.Order...)
}

func sortStrings(s []string) []string {
	sort.Strings(s)
	return s
}

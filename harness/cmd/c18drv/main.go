// c18drv executes the scenarios of spec/RegSync.tla (emitted by TLC from RegSyncGen) on the real
// regsync binary (built from the tree under test) and records what an outside observer sees, for
// validation against spec/RegSyncProp.tla through spec/RegSyncTrace.tla (property C18).
//
// Per scenario: three model registries (zzverif/simreg: "src", "tgt", "oth") are populated from the
// abstract populations, served over 127.0.0.1 listeners (plain http, `tls: disabled` in the creds
// section), a YAML configuration is generated from the abstract configuration (the allow/deny
// subsets are spelled as concrete regular expressions: top level alternations, groups, character
// classes), and for every "run" step the binary is exec'ed (`once`, `once --missing`, `check`).
// The driver only records: the tag table of every registry before and after (image names looked up
// through independently computed sha256 digests, completeness of the closure established by an
// independent walk over the raw registry state with encoding/json), a hash over the raw bytes of
// every repository, an audit that nothing that existed before was lost, every tag-level write in
// serving order with the completeness of the written image at that instant, the number of
// state-changing requests, and the exit status.  It does not judge.
//
// A run step may carry one scripted fault (round 5): the nth request of one class at one registry
// is answered with an error status (404 with / without body, 410, 416, 403, 400, 405; for the rest
// of the run for that resource) or fails once (500, connection reset).  Whether it was met is
// written to the meta data of the trace, not to the events: the monitor judges the run by its exit
// status and the registries' contents as for any other run.
package main

import (
	"bytes"
	"context"
	"crypto/sha256"
	"encoding/hex"
	"encoding/json"
	"errors"
	"flag"
	"fmt"
	"io"
	"net"
	"net/http"
	"os"
	"os/exec"
	"path/filepath"
	"regexp"
	"sort"
	"strings"
	"sync"
	"time"

	"github.com/regclient/regclient/zzverif/simreg"
	"github.com/regclient/regclient/zzverif/vtrace"
)

// ---------------------------------------------------------------------------
// scenario (abstract, as emitted by TLC)
// ---------------------------------------------------------------------------

type filter struct {
	Tags  []string `json:"tags"`  // the subset of the pool the expression matches (full match)
	Style string   `json:"style"` // alt | group | class
}

type entry struct {
	Type       string   `json:"type"` // image | repository | registry
	SRepo      string   `json:"srepo"`
	STag       string   `json:"stag"`
	TReg       string   `json:"treg"` // registry of the target: tgt | src (a mirror inside the source registry)
	TRepo      string   `json:"trepo"`
	TTag       string   `json:"ttag"`
	Allow      []filter `json:"allow"`
	Deny       []filter `json:"deny"`
	RAllow     []filter `json:"rallow"`
	RDeny      []filter `json:"rdeny"`
	Platform   string   `json:"platform"` // "" | amd64 | arm64 | s390x
	Mts        []string `json:"mts"`      // short names; empty = default list
	Backup     string   `json:"backup"`   // none | tagtpl | const | fullref | othreg
	Referrers  bool     `json:"referrers"`
	DigestTags bool     `json:"digestTags"`
	FastCheck  bool     `json:"fastCheck"`
	Force      bool     `json:"force"`
}

type conf struct {
	Parallel int     `json:"parallel"`
	Entries  []entry `json:"entries"`
}

type step struct {
	Op    string     `json:"op"`   // run | move | del
	Mode  string     `json:"mode"` // once | missing | check
	Repo  string     `json:"repo"`
	Tag   string     `json:"tag"`
	Img   string     `json:"img"`
	Fault *faultSpec `json:"fault"` // run steps only: one scripted fault during this run (absent: none)
}

// faultSpec: the Nth request of class Cls that registry Reg receives during the run is answered
// with the fault Kind (and, for the not-found kinds 404 / 404e / 416, so is every later request of
// that class for the same repository / reference: the resource stays lost for the rest of the run).
// Requests on the backup path (backup names, backup repositories, reads of target side
// repositories of the source registry) are neither counted nor faulted.
type faultSpec struct {
	Reg  string `json:"reg"`  // src | tgt
	Cls  string `json:"cls"`  // simreg request class
	Nth  int    `json:"nth"`  // 1..
	Kind string `json:"kind"` // 404 | 404e | 410 | 416 | 403 | 400 | 405 | 500once | reset1
}

var errFaultReset = errors.New("c18drv: scripted connection reset")

type faultInj struct {
	mu      sync.Mutex
	f       *faultSpec
	count   int
	fired   bool
	hits    int
	vRepo   string
	vRef    string
	vMethod string
}

func (fi *faultInj) arm(f *faultSpec) {
	fi.mu.Lock()
	defer fi.mu.Unlock()
	if f != nil && f.Cls == "" {
		f = nil
	}
	fi.f, fi.count, fi.fired, fi.hits, fi.vRepo, fi.vRef, fi.vMethod = f, 0, false, 0, "", "", ""
}

func backupPath(host string, rq *simreg.Request) bool {
	if host == "oth" || strings.HasPrefix(rq.Repo, "backups/") || strings.HasPrefix(rq.Repo, "bk/") {
		return true
	}
	if strings.HasPrefix(rq.Class, "manifest_") && rq.IsTag {
		return strings.HasPrefix(rq.Ref, "bak-") || rq.Ref == "old" || strings.HasSuffix(rq.Ref, "-old") || strings.HasPrefix(rq.Ref, "dflt-")
	}
	return false
}

func (fi *faultInj) intercept(host string, rq *simreg.Request) *simreg.Reply {
	fi.mu.Lock()
	defer fi.mu.Unlock()
	f := fi.f
	if f == nil || f.Reg != host || f.Cls != rq.Class || backupPath(host, rq) {
		return nil
	}
	if host == "src" && strings.HasPrefix(rq.Repo, "mirror/") && (rq.Method == "GET" || rq.Method == "HEAD") && rq.Class != "tag_list" {
		return nil // reads of a target side repository: may belong to a backup copy
	}
	// only the kinds after which regclient does not back off stay for the resource (a lost blob
	// stays lost); a refusal that makes it back off (403, 400, 405, 410: seconds, doubling) and the
	// transient kinds are answered once
	sticky := f.Kind == "404" || f.Kind == "404e" || f.Kind == "416"
	if fi.fired {
		if !sticky || rq.Ref == "" || rq.Repo != fi.vRepo || rq.Ref != fi.vRef {
			return nil
		}
	} else {
		fi.count++
		if fi.count != f.Nth {
			return nil
		}
		fi.fired, fi.vRepo, fi.vRef, fi.vMethod = true, rq.Repo, rq.Ref, rq.Method
	}
	fi.hits++
	code := map[string]string{"blob_get": "BLOB_UNKNOWN", "blob_head": "BLOB_UNKNOWN", "manifest_get": "MANIFEST_UNKNOWN",
		"manifest_head": "MANIFEST_UNKNOWN", "manifest_put": "MANIFEST_UNKNOWN", "tag_list": "NAME_UNKNOWN", "catalog": "NAME_UNKNOWN",
		"referrers": "NAME_UNKNOWN"}[rq.Class]
	if code == "" {
		code = "BLOB_UPLOAD_UNKNOWN"
	}
	body := func(c, msg string) []byte {
		return []byte(`{"errors":[{"code":"` + c + `","message":"` + msg + `"}]}`)
	}
	hdr := http.Header{"Content-Type": []string{"application/json"}}
	switch f.Kind {
	case "404":
		return &simreg.Reply{Status: 404, Header: hdr, Body: body(code, "unknown to registry")}
	case "404e":
		return &simreg.Reply{Status: 404}
	case "410":
		return &simreg.Reply{Status: 410, Header: hdr, Body: body(code, "gone")}
	case "416":
		return &simreg.Reply{Status: 416, Header: hdr, Body: body("RANGE_INVALID", "invalid content range")}
	case "403":
		return &simreg.Reply{Status: 403, Header: hdr, Body: body("DENIED", "requested access to the resource is denied")}
	case "400":
		return &simreg.Reply{Status: 400, Header: hdr, Body: body("UNSUPPORTED", "bad request")}
	case "405":
		return &simreg.Reply{Status: 405, Header: hdr, Body: body("UNSUPPORTED", "the operation is unsupported")}
	case "500once":
		return &simreg.Reply{Status: 500, Header: hdr, Body: body("UNKNOWN", "internal error")}
	case "reset1":
		return &simreg.Reply{Err: errFaultReset}
	}
	fatal("fault kind %q", f.Kind)
	return nil
}

func (fi *faultInj) report() map[string]any {
	fi.mu.Lock()
	defer fi.mu.Unlock()
	if fi.f == nil {
		return nil
	}
	return map[string]any{"reg": fi.f.Reg, "cls": fi.f.Cls, "nth": fi.f.Nth, "kind": fi.f.Kind, "hit": fi.fired, "faulted": fi.hits,
		"seen": fi.count, "repo": fi.vRepo, "ref": fi.vRef}
}

// env is the environment of the runs, which the abstract scenario does not look at.
type env struct {
	Page    int    `json:"page"`    // page size of tag / repository listings (0: one page)
	NoDig   string `json:"nodig"`   // registries that omit Docker-Content-Digest: "" | src | tgt | both
	Mount   bool   `json:"mount"`   // registries support cross repository blob mounts
	PostPut bool   `json:"postput"` // registries support the single POST blob upload
	Cache   bool   `json:"cache"`   // defaults.cacheCount / cacheTime set
	Chunk   bool   `json:"chunk"`   // creds blobChunk / blobMax force chunked blob uploads
	Direct  bool   `json:"direct"`  // registries named by 127.0.0.1:port instead of alias + hostname
	Verb    string `json:"verb"`    // -v
	JSON    bool   `json:"json"`    // --logopt json
	Stdin   bool   `json:"stdin"`   // --config - (configuration on stdin)
	RL      bool   `json:"rl"`      // source sends RateLimit headers, defaults.ratelimit.min set (not exceeded)
}

type scenario struct {
	ID    string          `json:"id"`
	Conf  conf            `json:"conf"`
	Src   [][]string      `json:"src"` // [repo, tag, img]
	Tgt   [][]string      `json:"tgt"`
	Steps []step          `json:"steps"`
	Env   env             `json:"env"`
	Raw   json.RawMessage `json:"-"`
}

// ---------------------------------------------------------------------------
// concrete image universe
// ---------------------------------------------------------------------------

const (
	mtOCIMan     = "application/vnd.oci.image.manifest.v1+json"
	mtOCIIndex   = "application/vnd.oci.image.index.v1+json"
	mtDockerMan  = "application/vnd.docker.distribution.manifest.v2+json"
	mtDockerList = "application/vnd.docker.distribution.manifest.list.v2+json"
	mtOCIConfig  = "application/vnd.oci.image.config.v1+json"
	mtDockerCfg  = "application/vnd.docker.container.image.v1+json"
	mtOCILayer   = "application/vnd.oci.image.layer.v1.tar+gzip"
	mtDockerLay  = "application/vnd.docker.image.rootfs.diff.tar.gzip"
	mtEmpty      = "application/vnd.oci.empty.v1+json"
)

var mtShort = map[string]string{mtOCIMan: "ociman", mtOCIIndex: "ociindex", mtDockerMan: "dockerman", mtDockerList: "dockerlist"}
var mtLong = map[string]string{"ociman": mtOCIMan, "ociindex": mtOCIIndex, "dockerman": mtDockerMan, "dockerlist": mtDockerList}

type image struct {
	name     string
	mt       string
	body     []byte
	digest   string
	blobs    [][]byte
	children []string // names of child manifests
}

type universe struct {
	img    map[string]*image
	byDig  map[string]string // digest -> name
	digTag string            // concrete name of the abstract tag "dtA"
}

func dig(b []byte) string {
	s := sha256.Sum256(b)
	return "sha256:" + hex.EncodeToString(s[:])
}

type desc struct {
	MediaType    string            `json:"mediaType"`
	Digest       string            `json:"digest"`
	Size         int               `json:"size"`
	Platform     map[string]string `json:"platform,omitempty"`
	ArtifactType string            `json:"artifactType,omitempty"`
}

func blob(label string, n int) []byte {
	var b bytes.Buffer
	for b.Len() < n {
		b.WriteString(label)
		b.WriteByte('.')
	}
	return b.Bytes()[:n]
}

func buildUniverse() *universe {
	u := &universe{img: map[string]*image{}, byDig: map[string]string{}}
	add := func(im *image) {
		im.digest = dig(im.body)
		if im.name == "A5" { // an image the source registry knows by a sha512 digest
			im.digest = simreg.Digest("sha512", im.body)
		}
		u.img[im.name] = im
		u.byDig[im.digest] = im.name
	}
	single := func(name string, docker bool, arch string, layers ...string) {
		cfgMT, layMT, manMT := mtOCIConfig, mtOCILayer, mtOCIMan
		if docker {
			cfgMT, layMT, manMT = mtDockerCfg, mtDockerLay, mtDockerMan
		}
		cfg, _ := json.Marshal(map[string]any{"architecture": arch, "os": "linux", "config": map[string]any{"Labels": map[string]string{"img": name}},
			"rootfs": map[string]any{"type": "layers", "diff_ids": []string{}}})
		im := &image{name: name, mt: manMT, blobs: [][]byte{cfg}}
		ls := []desc{}
		for i, l := range layers {
			b := blob("layer-"+l, 700+37*i)
			im.blobs = append(im.blobs, b)
			ls = append(ls, desc{MediaType: layMT, Digest: dig(b), Size: len(b)})
		}
		im.body, _ = json.Marshal(map[string]any{"schemaVersion": 2, "mediaType": manMT,
			"config": desc{MediaType: cfgMT, Digest: dig(cfg), Size: len(cfg)}, "layers": ls})
		add(im)
	}
	list := func(name string, docker bool, kids ...string) {
		mt := mtOCIIndex
		if docker {
			mt = mtDockerList
		}
		ms := []desc{}
		arch := []string{"amd64", "arm64"}
		for i, k := range kids {
			c := u.img[k]
			ms = append(ms, desc{MediaType: c.mt, Digest: c.digest, Size: len(c.body), Platform: map[string]string{"architecture": arch[i], "os": "linux"}})
		}
		im := &image{name: name, mt: mt, children: kids}
		im.body, _ = json.Marshal(map[string]any{"schemaVersion": 2, "mediaType": mt, "manifests": ms})
		add(im)
	}
	single("A", false, "amd64", "L0", "LA")
	single("B", true, "amd64", "L0", "LB")
	single("C", false, "amd64", "LC")
	single("H", false, "amd64", "LH1", "LH2")
	single("A5", false, "amd64", "L0", "LA5")
	// D: like an OCI image, but the manifest body carries no mediaType field
	{
		cfg, _ := json.Marshal(map[string]any{"architecture": "amd64", "os": "linux", "config": map[string]any{"Labels": map[string]string{"img": "D"}},
			"rootfs": map[string]any{"type": "layers", "diff_ids": []string{}}})
		l := blob("layer-LD", 640)
		im := &image{name: "D", mt: mtOCIMan, blobs: [][]byte{cfg, l}}
		im.body, _ = json.Marshal(map[string]any{"schemaVersion": 2,
			"config": desc{MediaType: mtOCIConfig, Digest: dig(cfg), Size: len(cfg)}, "layers": []desc{{MediaType: mtOCILayer, Digest: dig(l), Size: len(l)}}})
		add(im)
	}
	single("Xa", false, "amd64", "L0", "LXa")
	single("Xb", false, "arm64", "LXb")
	list("X", false, "Xa", "Xb")
	single("Ya", true, "amd64", "LB", "LYa")
	single("Yb", true, "arm64", "LYb")
	list("Y", true, "Ya", "Yb")
	// S: a signature-like artifact reachable through the digest tag of A; R: a referrer of A
	art := func(name, payload string, subject *image) {
		empty := []byte("{}")
		p := blob(payload, 300)
		m := map[string]any{"schemaVersion": 2, "mediaType": mtOCIMan, "artifactType": "application/vnd.example." + name,
			"config": desc{MediaType: mtEmpty, Digest: dig(empty), Size: len(empty)},
			"layers": []desc{{MediaType: "application/vnd.example.payload", Digest: dig(p), Size: len(p)}}}
		if subject != nil {
			m["subject"] = desc{MediaType: subject.mt, Digest: subject.digest, Size: len(subject.body)}
		}
		im := &image{name: name, mt: mtOCIMan, blobs: [][]byte{empty, p}}
		im.body, _ = json.Marshal(m)
		add(im)
	}
	art("S", "sig-of-A", nil)
	art("R", "sbom-of-A", u.img["A"])
	u.digTag = "sha256-" + strings.TrimPrefix(u.img["A"].digest, "sha256:") + ".sig"
	return u
}

func (u *universe) conc(tag string) string {
	if tag == "dtA" {
		return u.digTag
	}
	return tag
}

func (u *universe) abs(tag string) string {
	return strings.ReplaceAll(tag, u.digTag, "dtA")
}

// put stores the image with everything it references in the repository (no tag).  holed: image H
// is stored without its last layer (what target side repositories hold).
func (u *universe) put(h *simreg.Host, repo, name string, holed bool) string {
	im := u.img[name]
	if im == nil {
		fatal("unknown image %q", name)
	}
	for _, c := range im.children {
		u.put(h, repo, c, holed)
	}
	for i, b := range im.blobs {
		if holed && name == "H" && i == len(im.blobs)-1 {
			continue
		}
		h.PutBlob(repo, b)
	}
	if strings.HasPrefix(im.digest, "sha512:") {
		h.Repo(repo)
		h.Lock()
		h.Repos[repo].Manifests[im.digest] = simreg.Manifest{MediaType: im.mt, Body: append([]byte(nil), im.body...)}
		h.Unlock()
		return im.digest
	}
	return h.PutManifest(repo, "", im.mt, im.body)
}

func targetSide(h *simreg.Host, repo string) bool {
	return h.Name != "src" || strings.HasPrefix(repo, "mirror/")
}

func (u *universe) setTag(h *simreg.Host, repo, tag, name string) {
	d := u.put(h, repo, name, targetSide(h, repo))
	h.Lock()
	h.Repos[repo].Tags[u.conc(tag)] = d
	h.Unlock()
}

// table of the universe as derived from the concrete bytes (re-parsed), for the trace header
func (u *universe) table() [][]string {
	names := make([]string, 0, len(u.img))
	for n := range u.img {
		names = append(names, n)
	}
	sort.Strings(names)
	out := [][]string{}
	for _, n := range names {
		im := u.img[n]
		var m struct {
			MediaType string `json:"mediaType"`
			Manifests []struct {
				Digest   string            `json:"digest"`
				Platform map[string]string `json:"platform"`
			} `json:"manifests"`
		}
		if err := json.Unmarshal(im.body, &m); err != nil {
			fatal("universe: %v", err)
		}
		if m.MediaType == "" {
			m.MediaType = im.mt // no mediaType field in the body: what the registry announces
		}
		row := []string{n, mtShort[m.MediaType], "", ""}
		for _, c := range m.Manifests {
			switch c.Platform["architecture"] {
			case "amd64":
				row[2] = u.byDig[c.Digest]
			case "arm64":
				row[3] = u.byDig[c.Digest]
			}
		}
		out = append(out, row)
	}
	return out
}

// ---------------------------------------------------------------------------
// independent observations over the raw registry state
// ---------------------------------------------------------------------------

// complete walks the closure of a manifest inside one repository: every child manifest, config and
// layer must be stored there with the bytes its digest and size announce.  Host mutex held.
func complete(r *simreg.Repo, d string, depth int) bool {
	m, ok := r.Manifests[d]
	alg, _, _ := strings.Cut(d, ":")
	if !ok || simreg.Digest(alg, m.Body) != d || depth > 4 {
		return false
	}
	var f struct {
		Config    *desc  `json:"config"`
		Layers    []desc `json:"layers"`
		Manifests []desc `json:"manifests"`
	}
	if err := json.Unmarshal(m.Body, &f); err != nil {
		return false
	}
	bl := f.Layers
	if f.Config != nil {
		bl = append([]desc{*f.Config}, bl...)
	}
	for _, b := range bl {
		c, ok := r.Blobs[b.Digest]
		if !ok || dig(c) != b.Digest || len(c) != b.Size {
			return false
		}
	}
	for _, c := range f.Manifests {
		cm, ok := r.Manifests[c.Digest]
		if !ok || len(cm.Body) != c.Size || !complete(r, c.Digest, depth+1) {
			return false
		}
	}
	return true
}

func b2i(b bool) int {
	if b {
		return 1
	}
	return 0
}

func (u *universe) imgName(d string) string {
	if n, ok := u.byDig[d]; ok {
		return n
	}
	if len(d) > 15 {
		return "?" + d[7:15]
	}
	return "?" + d
}

// repoHash is a hash over the raw bytes of a repository (blobs, manifests with media type, tags).
func repoHash(r *simreg.Repo) string {
	lines := []string{}
	for d, b := range r.Blobs {
		lines = append(lines, "B "+d+" "+dig(b))
	}
	for d, m := range r.Manifests {
		lines = append(lines, "M "+d+" "+m.MediaType+" "+dig(m.Body))
	}
	for t, d := range r.Tags {
		lines = append(lines, "T "+t+" "+d)
	}
	sort.Strings(lines)
	return dig([]byte(strings.Join(lines, "\n")))[7:23]
}

type world struct {
	u     *universe
	net   *simreg.Net
	names []string // src, tgt, oth
	hosts map[string]*simreg.Host
}

// tags: [reg, repo, tag, img, complete]; repos: [reg, repo, hash]
func (w *world) snapshot() (tags [][]any, repos [][]any, raw map[string]*simreg.Host) {
	tags, repos = [][]any{}, [][]any{}
	raw = map[string]*simreg.Host{}
	for _, n := range w.names {
		h := w.hosts[n]
		raw[n] = h.Clone()
		c := raw[n]
		rn := make([]string, 0, len(c.Repos))
		for r := range c.Repos {
			rn = append(rn, r)
		}
		sort.Strings(rn)
		for _, r := range rn {
			rp := c.Repos[r]
			repos = append(repos, []any{n, r, repoHash(rp)})
			tn := make([]string, 0, len(rp.Tags))
			for t := range rp.Tags {
				tn = append(tn, t)
			}
			sort.Strings(tn)
			for _, t := range tn {
				tags = append(tags, []any{n, r, w.u.abs(t), w.u.imgName(rp.Tags[t]), b2i(complete(rp, rp.Tags[t], 0))})
			}
		}
	}
	return
}

// lost lists the repositories in which something that existed before is gone or has other bytes.
func lost(before, after map[string]*simreg.Host) [][]any {
	out := [][]any{}
	for n, hb := range before {
		for r, rb := range hb.Repos {
			ok := true
			ra := after[n].Repos[r]
			if ra == nil {
				ok = false
			} else {
				for d, b := range rb.Blobs {
					if a, f := ra.Blobs[d]; !f || !bytes.Equal(a, b) {
						ok = false
					}
				}
				for d, m := range rb.Manifests {
					if a, f := ra.Manifests[d]; !f || !bytes.Equal(a.Body, m.Body) || a.MediaType != m.MediaType {
						ok = false
					}
				}
			}
			if !ok {
				out = append(out, []any{n, r})
			}
		}
	}
	sort.Slice(out, func(i, j int) bool { return fmt.Sprint(out[i]) < fmt.Sprint(out[j]) })
	return out
}

// ---------------------------------------------------------------------------
// serving the model registries on loopback
// ---------------------------------------------------------------------------

type hostHandler struct {
	net       *simreg.Net
	name      string
	jitter    *jitter
	rateLimit bool // announce a (not exceeded) pull rate limit on manifest replies, like Docker Hub
}

// jitter delays requests by a few hundred microseconds, as a fixed function of the scenario and
// the arrival count, to vary the interleaving of entries that regsync runs in parallel.  It has no
// part in any verdict.
type jitter struct {
	mu   sync.Mutex
	n    uint64
	seed uint64
}

func (j *jitter) wait() {
	if j == nil {
		return
	}
	j.mu.Lock()
	j.n++
	x := (j.n + j.seed) * 0x9E3779B97F4A7C15
	j.mu.Unlock()
	if d := (x >> 40) % 5; d > 1 {
		time.Sleep(time.Duration(d) * 150 * time.Microsecond)
	}
}

func (hh hostHandler) ServeHTTP(w http.ResponseWriter, r *http.Request) {
	hh.jitter.wait()
	r2 := r.Clone(r.Context())
	r2.URL.Scheme, r2.URL.Host, r2.Host, r2.RequestURI = "http", hh.name, hh.name, ""
	resp, err := hh.net.RoundTrip(r2)
	if err != nil {
		if hj, ok := w.(http.Hijacker); ok && errors.Is(err, errFaultReset) {
			// scripted connection reset: the client sees the connection closed without a reply
			if c, _, e := hj.Hijack(); e == nil {
				_ = c.Close()
				return
			}
		}
		http.Error(w, err.Error(), http.StatusBadGateway)
		return
	}
	defer resp.Body.Close()
	for k, v := range resp.Header {
		w.Header()[k] = v
	}
	if hh.rateLimit && strings.Contains(r.URL.Path, "/manifests/") {
		w.Header().Set("RateLimit-Limit", "100;w=21600")
		w.Header().Set("RateLimit-Remaining", "76;w=21600")
	}
	w.WriteHeader(resp.StatusCode)
	_, _ = io.Copy(w, resp.Body)
}

// ---------------------------------------------------------------------------
// concrete spelling of the abstract filters
// ---------------------------------------------------------------------------

var tagPool = []string{"v1", "v10", "xv2", "v2", "latest", "V2"}
var repoPool = []string{"r1", "r10", "r2", "xr2"}

var classTable = map[string]string{
	"v1,v2":                `v[12]`,
	"v1,v10":               `v10?`,
	"v1,v10,v2":            `v\d+`,
	"v2,xv2":               `x?v2`,
	"v1,v10,v2,xv2":        `x?v\d+`,
	"latest":               `l.*t`,
	"latest,v1,v10,v2,xv2": `[lvx].*`,
	"v10":                  `v\d{2}`,
	"v1":                   `v1`,
	"v2":                   `.2`,
	"xv2":                  `x.*`,
	"latest,v1":            `(v1|l[a-z]+)`,
	"v1,v10,xv2":           `(v1.?|xv2)`,
	"":                     `[^\s\S]`,
	"r1,r2":                `r[12]`,
	"r1,r10":               `r10?`,
	"r1,r10,r2":            `r\d+`,
	"r2,xr2":               `x?r2`,
	"r1,r10,r2,xr2":        `.*`,
	"r1":                   `r1`,
	"r2":                   `r2`,
}

// lowerUniq: the names in lower case, each once, in order
func lowerUniq(names []string) []string {
	out := []string{}
	seen := map[string]bool{}
	for _, n := range names {
		l := strings.ToLower(n)
		if !seen[l] {
			seen[l] = true
			out = append(out, l)
		}
	}
	return out
}

// candidate spells the subset in the requested style without looking at the pool; spell falls back
// to a plain group when that candidate does not select exactly the subset.
//
//	alt      a|b           top level alternation
//	group    (a|b)
//	class    table of character class / quantifier forms (v\d+, x?v2, l.*t, ...)
//	iflag    (?i)a|b       unclosed inline flag at the start of the entry + top level alternation
//	iscoped  (?i:a|b)      flag scoped to its own group
//	sflag    (?s)a|b       a flag that changes nothing for these names
//	uflag    (?U)(a|b)     ungreedy
//	anch     ^(a|b)$       the user's own anchors inside the entry
//	quant    [a]{1}rest|.. every name with a class and a counted repetition
//	empty    ""            the empty entry (only for the empty subset)
func candidate(f filter) string {
	none := "nomatch"
	join := strings.Join(f.Tags, "|")
	if len(f.Tags) == 0 {
		join = none
	}
	switch f.Style {
	case "alt":
		return join
	case "group":
		return "(" + join + ")"
	case "class":
		s := append([]string(nil), f.Tags...)
		sort.Strings(s)
		if c, ok := classTable[strings.Join(s, ",")]; ok {
			return c
		}
		return "(?:" + join + ")"
	case "iflag":
		if len(f.Tags) == 0 {
			return "(?i)" + none
		}
		return "(?i)" + strings.Join(lowerUniq(f.Tags), "|")
	case "iscoped":
		if len(f.Tags) == 0 {
			return "(?i:" + none + ")"
		}
		return "(?i:" + strings.Join(lowerUniq(f.Tags), "|") + ")"
	case "sflag":
		return "(?s)" + join
	case "uflag":
		return "(?U)(" + join + ")"
	case "anch":
		return "^(" + join + ")$"
	case "quant":
		parts := []string{}
		for _, t := range f.Tags {
			parts = append(parts, "["+t[:1]+"]{1}"+t[1:])
		}
		if len(parts) == 0 {
			return "[n]{1}omatch"
		}
		return strings.Join(parts, "|")
	case "empty":
		if len(f.Tags) == 0 {
			return ""
		}
		return "(" + join + ")"
	}
	fatal("unknown filter style %q", f.Style)
	return ""
}

// exact: the expression, as ONE entry bound to both ends, selects exactly the subset of the pool.
// (Go's regexp on "^(?:entry)$" for one entry at a time is the independent reading of "entry e
// matches name n"; how regsync combines the entries of a list is what is under test.)
func exact(expr string, f filter, pool []string) bool {
	re, err := regexp.Compile(`^(?:` + expr + `)$`)
	if err != nil {
		return false
	}
	in := map[string]bool{}
	for _, t := range f.Tags {
		in[t] = true
	}
	for _, t := range pool {
		if re.MatchString(t) != in[t] {
			return false
		}
	}
	return true
}

func spell(f filter, pool []string) string {
	if c := candidate(f); exact(c, f, pool) {
		return c
	}
	if len(f.Tags) == 0 {
		return "nomatch"
	}
	return "(?:" + strings.Join(f.Tags, "|") + ")"
}

// selfCheck: the spelled expression, matched against the whole string, selects exactly the abstract
// subset of the pool (tooling sanity; the abstract subset is what the property monitor uses).
func selfCheck(f filter, pool []string, extra []string) {
	expr := spell(f, pool)
	if !exact(expr, f, pool) {
		fatal("spelling %q of %v (%s) is wrong on the pool", expr, f.Tags, f.Style)
	}
	re := regexp.MustCompile(`^(?:` + expr + `)$`)
	for _, t := range extra {
		if re.MatchString(t) {
			fatal("spelling %q of %v matches %q", expr, f.Tags, t)
		}
	}
}

func yq(s string) string { return "'" + strings.ReplaceAll(s, "'", "''") + "'" }

var platLong = map[string]string{"amd64": "linux/amd64", "arm64": "linux/arm64", "s390x": "linux/s390x"}

var backupTpl = map[string]string{
	"tagtpl":  `bak-{{.Ref.Tag}}`,
	"const":   `old`,
	"fullref": `{{.Ref.Registry}}/backups/{{.Ref.Repository}}:{{.Ref.Tag}}`,
	"othreg":  `oth.test/bk/{{.Ref.Repository}}:{{.Ref.Tag}}-old`,
}

// optLines renders the options of an entry that the `defaults` section knows too.  explicit: also
// write the switches that are off and the full default media type list.
func optLines(e entry, indent string, explicit bool, tpl map[string]string) string {
	var b strings.Builder
	mts := e.Mts
	if len(mts) == 0 && explicit {
		mts = []string{"dockerman", "dockerlist", "ociman", "ociindex"}
	}
	if len(mts) > 0 {
		b.WriteString(indent + "mediaTypes:\n")
		for _, m := range mts {
			fmt.Fprintf(&b, "%s  - %s\n", indent, mtLong[m])
		}
	}
	if e.Backup != "" && e.Backup != "none" {
		fmt.Fprintf(&b, "%sbackup: %s\n", indent, yq(tpl[e.Backup]))
	}
	for _, sw := range []struct {
		k string
		v bool
	}{{"referrers", e.Referrers}, {"digestTags", e.DigestTags}, {"fastCheck", e.FastCheck}, {"forceRecursive", e.Force}} {
		if sw.v || explicit {
			fmt.Fprintf(&b, "%s%s: %v\n", indent, sw.k, sw.v)
		}
	}
	return b.String()
}

// writeConfig spells the abstract configuration as YAML.  variant (a fixed function of the scenario
// id) picks one of three equivalent spellings of the options that `defaults` can carry:
// 0 per entry only; 1 hoisted into `defaults` when all entries agree; 2 `defaults` holds other
// values and every entry overrides all of them explicitly.
func writeConfig(fn string, c conf, u *universe, addr map[string]string, variant int, ev env) {
	var b strings.Builder
	b.WriteString("version: 1\ncreds:\n")
	name := map[string]string{}
	for _, n := range []string{"src", "tgt", "oth"} {
		if ev.Direct {
			name[n] = addr[n]
			fmt.Fprintf(&b, "  - registry: %s\n    tls: disabled\n", addr[n])
		} else {
			name[n] = n + ".test"
			fmt.Fprintf(&b, "  - registry: %s.test\n    hostname: %s\n    tls: disabled\n", n, addr[n])
		}
		if ev.Chunk {
			b.WriteString("    blobChunk: 256\n    blobMax: 128\n")
		}
	}
	b.WriteString("defaults:\n  skipDockerConfig: true\n")
	if c.Parallel > 0 {
		fmt.Fprintf(&b, "  parallel: %d\n", c.Parallel)
	}
	if ev.Cache {
		b.WriteString("  cacheCount: 50\n  cacheTime: 5m\n")
	}
	if ev.RL {
		b.WriteString("  ratelimit:\n    min: 10\n")
	}
	tpl := map[string]string{}
	for k, v := range backupTpl {
		tpl[k] = strings.ReplaceAll(v, "oth.test", name["oth"])
	}
	same, allBackup := true, true
	for _, e := range c.Entries {
		if optLines(e, "", true, tpl) != optLines(c.Entries[0], "", true, tpl) {
			same = false
		}
		if e.Backup == "" || e.Backup == "none" {
			allBackup = false
		}
	}
	if variant == 1 && !same {
		variant = 0
	}
	switch variant {
	case 1:
		b.WriteString(optLines(c.Entries[0], "  ", false, tpl))
	case 2:
		// values no entry uses; every entry overrides them below
		b.WriteString("  mediaTypes:\n    - application/vnd.example.unused\n")
		b.WriteString("  referrers: true\n  digestTags: true\n  fastCheck: true\n  forceRecursive: true\n")
		if allBackup {
			b.WriteString("  backup: 'dflt-{{.Ref.Tag}}'\n")
		}
	}
	b.WriteString("sync:\n")
	fl := func(key string, allow, deny []filter, pool []string) {
		if len(allow) == 0 && len(deny) == 0 {
			return
		}
		fmt.Fprintf(&b, "    %s:\n", key)
		for _, p := range []struct {
			k string
			l []filter
		}{{"allow", allow}, {"deny", deny}} {
			if len(p.l) == 0 {
				continue
			}
			fmt.Fprintf(&b, "      %s:\n", p.k)
			for _, f := range p.l {
				selfCheck(f, pool, []string{u.digTag, "old", "bak-v1", "v1-old", "backups/r1", "keep"})
				fmt.Fprintf(&b, "        - %s\n", yq(spell(f, pool)))
			}
		}
	}
	for _, e := range c.Entries {
		if e.TReg != "tgt" && e.TReg != "src" {
			fatal("entry target registry %q", e.TReg)
		}
		switch e.Type {
		case "image":
			fmt.Fprintf(&b, "  - source: %s/%s:%s\n    target: %s/%s:%s\n", name["src"], e.SRepo, u.conc(e.STag), name[e.TReg], e.TRepo, u.conc(e.TTag))
		case "repository":
			fmt.Fprintf(&b, "  - source: %s/%s\n    target: %s/%s\n", name["src"], e.SRepo, name[e.TReg], e.TRepo)
		case "registry":
			fmt.Fprintf(&b, "  - source: %s\n    target: %s\n", name["src"], name["tgt"])
		default:
			fatal("entry type %q", e.Type)
		}
		fmt.Fprintf(&b, "    type: %s\n", e.Type)
		fl("tags", e.Allow, e.Deny, tagPool)
		fl("repos", e.RAllow, e.RDeny, repoPool)
		if e.Platform != "" {
			fmt.Fprintf(&b, "    platform: %s\n", platLong[e.Platform])
		}
		if variant != 1 {
			b.WriteString(optLines(e, "    ", variant == 2, tpl))
		}
	}
	if err := os.WriteFile(fn, []byte(b.String()), 0o600); err != nil {
		fatal("%v", err)
	}
}

// ---------------------------------------------------------------------------
// one scenario
// ---------------------------------------------------------------------------

type recorder struct {
	mu     sync.Mutex
	events []vtrace.Event
	nwr    int // requests with a state-changing method
	nmut   int // requests that changed the state of a model registry
	reqs   int
	on     bool
	shadow map[string]map[string]map[string]string // host -> repo -> tag -> digest, as of the last write seen
	compl  map[string]map[string]map[string]int    // host -> repo -> tag -> completeness, as of the last write seen
}

func sortedKeys(m map[string]bool) []string {
	out := make([]string, 0, len(m))
	for k := range m {
		out = append(out, k)
	}
	sort.Strings(out)
	return out
}

func runScenario(s *scenario, u *universe, regsync, work string, timeout time.Duration, keep bool) *vtrace.Trace {
	tr := &vtrace.Trace{ID: s.ID, Meta: map[string]any{}}
	var rawConf any
	_ = json.Unmarshal(s.Raw, &rawConf)
	tr.Header = map[string]any{"conf": rawConf, "imgs": u.table()}

	w := &world{u: u, net: simreg.NewNet(), names: []string{"src", "tgt", "oth"}, hosts: map[string]*simreg.Host{}}
	rec := &recorder{}
	fi := &faultInj{}
	var jit *jitter
	if s.Conf.Parallel > 0 && len(s.Conf.Entries) > 1 {
		h := sha256.Sum256([]byte(s.ID))
		jit = &jitter{seed: uint64(h[0])<<8 | uint64(h[1])}
	}
	addr := map[string]string{}
	var servers []*http.Server
	for _, n := range w.names {
		feat := simreg.DefaultFeatures()
		feat.PageSize = s.Env.Page
		feat.Mount, feat.AnonBlobPOSTPut = s.Env.Mount, s.Env.PostPut
		if s.Env.NoDig == "both" || s.Env.NoDig == n {
			feat.HeadDigest = false
		}
		h := w.net.AddHost(n, feat)
		w.hosts[n] = h
		name := n
		h.Intercept = func(rq *simreg.Request) *simreg.Reply { return fi.intercept(name, rq) }
		h.After = func(rq *simreg.Request) {
			rec.mu.Lock()
			defer rec.mu.Unlock()
			if !rec.on {
				return
			}
			rec.reqs++
			wr := rq.Method == "PUT" || rq.Method == "POST" || rq.Method == "PATCH" || rq.Method == "DELETE"
			if wr {
				rec.nwr++
			}
			if rq.Mutated {
				rec.nmut++
			}
			if !wr && !rq.Mutated {
				return
			}
			// every tag-level change of this host since the last write (whatever request caused
			// it), then the tag named by a served manifest PUT even when it did not move
			sh := rec.shadow[name]
			seen := false
			repos := map[string]bool{}
			for r := range sh {
				repos[r] = true
			}
			for r := range h.Repos {
				repos[r] = true
			}
			for _, r := range sortedKeys(repos) {
				tags := map[string]bool{}
				for t := range sh[r] {
					tags[t] = true
				}
				if rp := h.Repos[r]; rp != nil {
					for t := range rp.Tags {
						tags[t] = true
					}
				}
				for _, t := range sortedKeys(tags) {
					d := ""
					if rp := h.Repos[r]; rp != nil {
						d = rp.Tags[t]
					}
					if d == sh[r][t] {
						// same manifest: did a blob arrive (or vanish) that changes its completeness?
						if c := b2i(complete(h.Repos[r], d, 0)); d != "" && c != rec.compl[name][r][t] {
							rec.compl[name][r][t] = c
							rec.events = append(rec.events, vtrace.Event{"ev": "compl", "reg": name, "repo": r, "tag": u.abs(t), "complete": c})
						}
						continue
					}
					ev := vtrace.Event{"ev": "tagput", "reg": name, "repo": r, "tag": u.abs(t), "img": "", "complete": 0}
					if d != "" {
						ev["img"], ev["complete"] = u.imgName(d), b2i(complete(h.Repos[r], d, 0))
						if sh[r] == nil {
							sh[r] = map[string]string{}
						}
						sh[r][t] = d
						if rec.compl[name][r] == nil {
							rec.compl[name][r] = map[string]int{}
						}
						rec.compl[name][r][t] = ev["complete"].(int)
					} else {
						delete(sh[r], t)
					}
					rec.events = append(rec.events, ev)
					if r == rq.Repo && t == rq.Ref {
						seen = true
					}
				}
			}
			if !seen && rq.IsTag && rq.Class == "manifest_put" && rq.Status >= 200 && rq.Status < 300 {
				if rp := h.Repos[rq.Repo]; rp != nil {
					d := rp.Tags[rq.Ref]
					rec.events = append(rec.events, vtrace.Event{"ev": "tagput", "reg": name, "repo": rq.Repo, "tag": u.abs(rq.Ref),
						"img": u.imgName(d), "complete": b2i(complete(rp, d, 0))})
				}
			}
		}
		ln, err := net.Listen("tcp4", "127.0.0.1:0")
		if err != nil {
			fatal("listen on loopback: %v", err)
		}
		addr[n] = ln.Addr().String()
		srv := &http.Server{Handler: hostHandler{net: w.net, name: n, jitter: jit, rateLimit: s.Env.RL && n == "src"}}
		servers = append(servers, srv)
		go func() { _ = srv.Serve(ln) }()
	}
	defer func() {
		for _, srv := range servers {
			_ = srv.Close()
		}
	}()

	// populations
	for _, t := range s.Src {
		u.setTag(w.hosts["src"], t[0], t[1], t[2])
	}
	// the source repository of a repository entry exists even when it has no tags; every source
	// repository carries R, a referrer of image A (only the referrers switch makes it travel)
	for _, e := range s.Conf.Entries {
		if e.Type == "repository" {
			w.hosts["src"].Repo(e.SRepo)
		}
	}
	for r := range w.hosts["src"].Clone().Repos {
		u.put(w.hosts["src"], r, "R", false)
	}
	for _, t := range s.Tgt {
		u.setTag(w.hosts["tgt"], t[0], t[1], t[2])
	}
	// bystanders: a repository of the target registry that no entry names, and a third registry
	u.setTag(w.hosts["tgt"], "keep", "v1", "C")
	u.setTag(w.hosts["tgt"], "keep", "stable", "X")
	u.setTag(w.hosts["oth"], "r1", "v1", "B")
	u.setTag(w.hosts["oth"], "bk/r1", "latest-old", "C")

	dir := filepath.Join(work, s.ID)
	if err := os.MkdirAll(dir, 0o700); err != nil {
		fatal("%v", err)
	}
	if !keep {
		defer os.RemoveAll(dir)
	}
	cfg := filepath.Join(dir, "regsync.yml")
	hv := sha256.Sum256([]byte("variant " + s.ID))
	writeConfig(cfg, s.Conf, u, addr, int(hv[0])%3, s.Env)

	nrun := 0
	for _, st := range s.Steps {
		switch st.Op {
		case "move":
			u.setTag(w.hosts["src"], st.Repo, st.Tag, st.Img)
			tr.Events = append(tr.Events, vtrace.Event{"ev": "env", "op": "move", "repo": st.Repo, "tag": st.Tag, "img": st.Img})
		case "del":
			h := w.hosts["src"]
			h.Lock()
			if r := h.Repos[st.Repo]; r != nil {
				delete(r.Tags, u.conc(st.Tag))
			}
			h.Unlock()
			tr.Events = append(tr.Events, vtrace.Event{"ev": "env", "op": "del", "repo": st.Repo, "tag": st.Tag, "img": ""})
		case "run":
			nrun++
			tags, repos, rawBefore := w.snapshot()
			tr.Events = append(tr.Events, vtrace.Event{"ev": "begin", "mode": st.Mode, "tags": tags, "repos": repos})
			rec.mu.Lock()
			rec.events, rec.nwr, rec.nmut, rec.reqs, rec.on = nil, 0, 0, 0, true
			rec.shadow = map[string]map[string]map[string]string{}
			rec.compl = map[string]map[string]map[string]int{}
			for n, h := range rawBefore {
				rec.shadow[n] = map[string]map[string]string{}
				rec.compl[n] = map[string]map[string]int{}
				for r, rp := range h.Repos {
					rec.shadow[n][r] = map[string]string{}
					rec.compl[n][r] = map[string]int{}
					for t, d := range rp.Tags {
						rec.shadow[n][r][t] = d
						rec.compl[n][r][t] = b2i(complete(rp, d, 0))
					}
				}
			}
			rec.mu.Unlock()
			fi.arm(st.Fault)
			cfgArg := cfg
			if s.Env.Stdin {
				cfgArg = "-"
			}
			args := []string{"once", "--config", cfgArg}
			switch st.Mode {
			case "missing":
				args = append(args, "--missing")
			case "check":
				args = []string{"check", "--config", cfgArg}
			case "once":
			default:
				fatal("run mode %q", st.Mode)
			}
			if s.Env.Verb != "" && s.Env.Verb != "info" {
				args = append(args, "-v", s.Env.Verb)
			}
			if s.Env.JSON {
				args = append(args, "--logopt", "json")
			}
			ctx, cancel := context.WithTimeout(context.Background(), timeout)
			cmd := exec.CommandContext(ctx, regsync, args...)
			cmd.Env = []string{"HOME=" + dir, "PATH=/usr/bin:/bin", "NO_PROXY=*"}
			cmd.Dir = dir
			var stderr bytes.Buffer
			cmd.Stderr = &stderr
			cmd.Stdout = &stderr
			if s.Env.Stdin {
				fh, err := os.Open(cfg)
				if err != nil {
					fatal("%v", err)
				}
				defer fh.Close()
				cmd.Stdin = fh
			}
			err := cmd.Run()
			timedOut := ctx.Err() != nil
			cancel()
			exit := 0
			if err != nil {
				exit = 1
				if ee, ok := err.(*exec.ExitError); ok && ee.ExitCode() > 0 {
					exit = ee.ExitCode()
				} else if !ok {
					fatal("cannot run %s: %v", regsync, err)
				}
			}
			rec.mu.Lock()
			rec.on = false
			evs, nwr, nmut, reqs := rec.events, rec.nwr, rec.nmut, rec.reqs
			rec.mu.Unlock()
			frep := fi.report()
			fi.arm(nil)
			tr.Events = append(tr.Events, evs...)
			tagsA, reposA, rawAfter := w.snapshot()
			tr.Events = append(tr.Events, vtrace.Event{"ev": "end", "mode": st.Mode, "exit": exit, "nwr": nwr, "nmut": nmut,
				"tags": tagsA, "repos": reposA, "lost": lost(rawBefore, rawAfter)})
			tr.Meta[fmt.Sprintf("run%d", nrun)] = map[string]any{"reqs": reqs, "exit": exit, "stderr": tail(stderr.String(), 1500)}
			if frep != nil {
				tr.Meta[fmt.Sprintf("run%d", nrun)].(map[string]any)["fault"] = frep
			}
			if timedOut {
				tr.Meta["timeout"] = fmt.Sprintf("run %d (%s) did not finish within %s", nrun, st.Mode, timeout)
				return tr
			}
			if reqs == 0 && len(s.Conf.Entries) > 0 {
				tr.Meta["noreq"] = fmt.Sprintf("run %d: the binary sent no request: %s", nrun, tail(stderr.String(), 400))
			}
		default:
			fatal("step op %q", st.Op)
		}
	}
	if keep {
		b, _ := os.ReadFile(cfg)
		tr.Meta["config"] = string(b)
	}
	return tr
}

func tail(s string, n int) string {
	if len(s) > n {
		return s[len(s)-n:]
	}
	return s
}

func fatal(f string, a ...any) {
	fmt.Fprintf(os.Stderr, "c18drv: "+f+"\n", a...)
	os.Exit(3)
}

func main() {
	in := flag.String("in", "", "scenarios (jsonl)")
	out := flag.String("out", "", "traces (jsonl)")
	regsync := flag.String("regsync", "", "path of the regsync binary under test")
	work := flag.String("work", "", "scratch directory")
	jobs := flag.Int("j", 8, "scenarios executed concurrently")
	keep := flag.Bool("keep", false, "keep the generated configs (also copied into meta)")
	timeout := flag.Duration("timeout", 60*time.Second, "limit for one exec of the binary")
	flag.Parse()
	if *in == "" || *out == "" || *regsync == "" || *work == "" {
		fatal("need -in -out -regsync -work")
	}
	u := buildUniverse()
	var scns []*scenario
	err := vtrace.ReadLines(*in, func(line []byte) error {
		s := &scenario{}
		if err := json.Unmarshal(line, s); err != nil {
			return fmt.Errorf("%w in %s", err, tail(string(line), 300))
		}
		var raw struct {
			Conf json.RawMessage `json:"conf"`
		}
		_ = json.Unmarshal(line, &raw)
		s.Raw = raw.Conf
		scns = append(scns, s)
		return nil
	})
	if err != nil {
		fatal("reading scenarios: %v", err)
	}
	wr, err := vtrace.NewWriter(*out)
	if err != nil {
		fatal("%v", err)
	}
	res := make([]*vtrace.Trace, len(scns))
	var wg sync.WaitGroup
	sem := make(chan struct{}, *jobs)
	for i, s := range scns {
		wg.Add(1)
		sem <- struct{}{}
		go func() {
			defer wg.Done()
			defer func() { <-sem }()
			res[i] = runScenario(s, u, *regsync, *work, *timeout, *keep)
		}()
	}
	wg.Wait()
	for _, t := range res {
		if err := wr.Write(t); err != nil {
			fatal("%v", err)
		}
	}
	if err := wr.Close(); err != nil {
		fatal("%v", err)
	}
	fmt.Printf("{\"scenarios\": %d}\n", len(scns))
}

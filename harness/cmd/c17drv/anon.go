package main

// anon mode: the throttle with entry types that have no identity of their own.
//
// regsync and regbot use pqueue.Queue[struct{}] (resp. an empty struct type): all entries of a
// zero-size type share one address, so the queue cannot tell its entries apart by pointer. The
// other modes identify a caller by its entry; here every event is attributed to the goroutine that
// emits it (goroutine id -> caller), which works for any T. Callers run freely; the scheduler does
// one action at a time (start a caller, release a holder, cancel a waiter) and then lets the system
// settle: it waits until every caller goroutine is parked (inside Acquire's select, or waiting for
// the scheduler) as shown by a goroutine dump, so a wake-up that was sent has been consumed. The
// event stream is validated against spec/PQueueAnonProp.tla.

import (
	"bytes"
	"context"
	"fmt"
	"math/rand"
	"os"
	"runtime"
	"strconv"
	"strings"
	"sync"
	"time"

	"github.com/regclient/regclient/internal/pqueue"
	"github.com/regclient/regclient/internal/reqmeta"
	"github.com/regclient/regclient/zzverif/vtrace"
)

type zeroT struct{}

type aproc struct {
	name      string
	q         string
	mode      string // acq | try
	ctx       context.Context
	cancel    context.CancelFunc
	cancelled bool
	state     string // new | inside | holding | failed | tryfail | done
	done      func()
	goid      int64
}

type asched struct {
	mu     sync.Mutex
	events []vtrace.Event
	byGoid map[int64]*aproc
	acting *aproc // the scheduler goroutine acts for this caller (release)
	sgoid  int64
	qname  map[any]string
	procs  []*aproc
	notes  chan *aproc
}

var acur *asched

func goid() int64 {
	var buf [64]byte
	b := buf[:runtime.Stack(buf[:], false)]
	b = bytes.TrimPrefix(b, []byte("goroutine "))
	i := bytes.IndexByte(b, ' ')
	n, _ := strconv.ParseInt(string(b[:i]), 10, 64)
	return n
}

func (s *asched) actor() *aproc {
	g := goid()
	if g == s.sgoid {
		return s.acting
	}
	return s.byGoid[g]
}

func (s *asched) emit(ev vtrace.Event) {
	s.events = append(s.events, ev)
}

func installAnonHooks() {
	pqueue.VerifGate = nil
	pqueue.VerifMulti = nil
	pqueue.VerifEvent = func(kind string, q any, e any, max, active, queued int, locked bool) {
		s := acur
		if s == nil {
			return
		}
		s.mu.Lock()
		defer s.mu.Unlock()
		p := s.actor()
		name := "?"
		if p != nil {
			name = p.name
		}
		s.emit(vtrace.Event{"ev": "a_" + kind, "q": s.qname[q], "p": name, "max": max, "act": active, "que": queued})
	}
}

// queue abstraction over the entry type
type aqueue interface {
	acquire(ctx context.Context) (func(), error)
	try(ctx context.Context) (func(), error)
	key() any
}

type zq struct{ q *pqueue.Queue[zeroT] }

func (z zq) acquire(ctx context.Context) (func(), error) { return z.q.Acquire(ctx, zeroT{}) }
func (z zq) try(ctx context.Context) (func(), error)     { return z.q.TryAcquire(ctx, zeroT{}) }
func (z zq) key() any                                    { return z.q }

type dq struct{ q *pqueue.Queue[reqmeta.Data] }

func (d dq) acquire(ctx context.Context) (func(), error) {
	return d.q.Acquire(ctx, reqmeta.Data{Kind: reqmeta.Blob, Size: 1})
}
func (d dq) try(ctx context.Context) (func(), error) {
	return d.q.TryAcquire(ctx, reqmeta.Data{Kind: reqmeta.Blob, Size: 1})
}
func (d dq) key() any { return d.q }

// parked reports how many caller goroutines are parked inside Acquire's select, and whether every
// caller goroutine that is still alive is parked (select inside pqueue, or waiting for nothing)
func (s *asched) settle() (inSelect int, ok bool) {
	deadline := time.Now().Add(20 * time.Second)
	buf := make([]byte, 1<<20)
	sched := fmt.Sprintf("goroutine %d ", s.sgoid)
	for {
		for drained := true; drained; {
			select {
			case <-s.notes:
			default:
				drained = false
			}
		}
		n := runtime.Stack(buf, true)
		inSelect = 0
		busy := false
		for _, g := range strings.Split(string(buf[:n]), "\n\n") {
			// caller goroutines: everything that runs code of this file except the scheduler itself
			// (a goroutine that has not started yet only shows its go-statement wrapper)
			if !strings.Contains(g, "c17drv/anon.go") || strings.HasPrefix(g, sched) {
				continue
			}
			head := g[:strings.IndexByte(g, '\n')]
			switch {
			case strings.Contains(head, "[select") && strings.Contains(g, "pqueue.(*Queue"):
				inSelect++
			default:
				// running, runnable, or blocked on something that will clear by itself (mutex, notes)
				busy = true
			}
		}
		if !busy {
			// the callers that returned have reported: make sure their notes are in
			time.Sleep(200 * time.Microsecond)
			select {
			case <-s.notes:
				continue
			default:
			}
			return inSelect, true
		}
		if time.Now().After(deadline) {
			return inSelect, false
		}
		runtime.Gosched()
		time.Sleep(100 * time.Microsecond)
	}
}

func (s *asched) runAnonProc(p *aproc, q aqueue) {
	s.mu.Lock()
	s.byGoid[goid()] = p
	s.mu.Unlock()
	var done func()
	var err error
	if p.mode == "try" {
		done, err = q.try(p.ctx)
	} else {
		done, err = q.acquire(p.ctx)
	}
	s.mu.Lock()
	switch {
	case err != nil:
		p.state = "failed"
		s.emit(vtrace.Event{"ev": "gaveup", "p": p.name})
	case done == nil:
		p.state = "tryfail"
	default:
		p.state, p.done = "holding", done
		s.emit(vtrace.Event{"ev": "holding", "q": p.q, "p": p.name})
	}
	s.mu.Unlock()
	s.notes <- p
}

func runAnon(id string, rng *rand.Rand, zero bool) *vtrace.Trace {
	nq := 1 + rng.Intn(2)
	np := 3 + rng.Intn(3)
	s := &asched{byGoid: map[int64]*aproc{}, qname: map[any]string{}, notes: make(chan *aproc, 64), sgoid: goid()}
	queues := map[string]aqueue{}
	maxes := map[string]int{}
	qn := []string{}
	for i := 1; i <= nq; i++ {
		name := fmt.Sprintf("q%d", i)
		mx := 1 + rng.Intn(2)
		var q aqueue
		if zero {
			q = zq{pqueue.New(pqueue.Opts[zeroT]{Max: mx})}
		} else {
			q = dq{pqueue.New(pqueue.Opts[reqmeta.Data]{Max: mx})}
		}
		queues[name], maxes[name] = q, mx
		s.qname[q.key()] = name
		qn = append(qn, name)
	}
	for i := 1; i <= np; i++ {
		ctx, cancel := context.WithCancel(context.Background())
		mode := "acq"
		if rng.Intn(5) == 0 {
			mode = "try"
		}
		s.procs = append(s.procs, &aproc{name: fmt.Sprintf("p%d", i), q: qn[rng.Intn(nq)], mode: mode, ctx: ctx, cancel: cancel, state: "new"})
	}
	conf := map[string]any{"max": maxes, "zero_size_entries": zero}
	tr := &vtrace.Trace{ID: id, Meta: map[string]any{"mode": "anon", "conf": conf}}
	acur = s
	defer func() { acur = nil }()
	step := func() bool { // false: stuck
		n, ok := s.settle()
		if !ok {
			tr.Meta["stall"] = "anon: callers did not settle"
			return false
		}
		s.mu.Lock()
		defer s.mu.Unlock()
		inside := 0
		for _, p := range s.procs {
			if p.state == "inside" {
				inside++
			}
		}
		if n != inside {
			// a caller is inside Acquire but not parked in its select although nothing runs
			tr.Meta["stall"] = fmt.Sprintf("anon: %d callers inside Acquire, %d parked in select", inside, n)
			if os.Getenv("VERIF_DEBUG") != "" {
				buf := make([]byte, 1<<20)
				fmt.Fprintf(os.Stderr, "%s\n", buf[:runtime.Stack(buf, true)])
			}
			return false
		}
		s.emit(vtrace.Event{"ev": "quiescent"})
		return true
	}
	for {
		// mark the callers that returned
		if !step() {
			break
		}
		var acts []func()
		var names []string
		s.mu.Lock()
		holders := map[string]int{}
		for _, p := range s.procs {
			if p.state == "holding" {
				holders[p.q]++
			}
		}
		for _, p := range s.procs {
			p := p
			switch p.state {
			case "new":
				names = append(names, "start "+p.name)
				acts = append(acts, func() {
					p.state = "inside"
					go s.runAnonProc(p, queues[p.q])
				})
			case "holding":
				names = append(names, "release "+p.name)
				acts = append(acts, func() {
					s.mu.Lock()
					s.acting = p
					p.state = "done"
					d := p.done
					s.mu.Unlock()
					d()
					s.mu.Lock()
					s.acting = nil
					s.mu.Unlock()
				})
			case "inside":
				if !p.cancelled && rng.Intn(3) == 0 {
					names = append(names, "cancel "+p.name)
					acts = append(acts, func() {
						p.cancelled = true
						p.cancel()
					})
				}
			}
		}
		waiting := 0
		for _, p := range s.procs {
			if p.state == "inside" && !p.cancelled {
				waiting++
			}
		}
		s.mu.Unlock()
		if len(acts) == 0 {
			s.mu.Lock()
			if waiting > 0 {
				// callers wait although nobody holds a slot and nothing can happen any more
				s.emit(vtrace.Event{"ev": "stuck"})
			} else {
				s.emit(vtrace.Event{"ev": "final"})
			}
			s.mu.Unlock()
			break
		}
		i := rng.Intn(len(acts))
		_ = names
		acts[i]()
	}
	// the trace ends here; afterwards cancel whoever is still inside so that the goroutines end
	s.mu.Lock()
	tr.Events = append([]vtrace.Event(nil), s.events...)
	s.mu.Unlock()
	for _, p := range s.procs {
		p.cancel()
	}
	s.settle()
	return tr
}

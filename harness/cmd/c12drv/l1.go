package main

import (
	"bytes"
	"context"
	"errors"
	"fmt"
	"io"
	"net/http"
	"net/url"
	"strconv"
	"strings"
	"sync"
	"time"

	"github.com/regclient/regclient/config"
	"github.com/regclient/regclient/internal/reghttp"
	"github.com/regclient/regclient/internal/reqmeta"
	"github.com/regclient/regclient/types/errs"
	"github.com/regclient/regclient/zzverif/vtrace"
)

// ---- scenario (output of spec/RegHttpGen.tla, or built by tools/props/c12.py) ----

type l1Req struct {
	Meth   string `json:"meth"`
	Nomir  bool   `json:"nomir"`
	Ie     bool   `json:"ie"`
	Expect bool   `json:"expect"`
	// Oneshot: the body function works once; its second call fails with ErrNotRetryable (what
	// scheme/reg blobPutUploadFull builds for a source that is no io.Seeker)
	Oneshot bool `json:"oneshot"`
	// Direct: the request for a pagination link the way scheme/reg sends it since ac54726: DirectURL on that host,
	// Host = that host, NoMirrors ("" or "none": an ordinary request)
	Direct string `json:"direct"`
}

type l1Conf struct {
	R     int              `json:"R"`
	Dmax  int              `json:"dmax"` // delayMax in units of delayInit
	Up    string           `json:"up"`
	Hosts []string         `json:"hosts"`
	Prio  []int            `json:"prio"`
	N     int              `json:"n"`
	Conc  int              `json:"conc"` // throttle slots; >= 8 means "ample"
	Req   map[string]l1Req `json:"req"`
	DIus  int              `json:"di_us"` // delayInit in micro seconds (default 3000)
	Tail  string           `json:"tail"`  // reply kind once the script is used up ("" = ok)
	// further input dimensions of the driver (zero values = the setting of the first round)
	DmaxReal int     `json:"dmax_real"` // delayMax in units of delayInit on the real client (0: Dmax; -1: WithDelay(init, 0))
	TLS      bool    `json:"tls"`       // hosts with TLS enabled: https URLs
	HostPort bool    `json:"hostport"`  // config.Host.Hostname = Name + ":5000" (name and address differ)
	RPS      float64 `json:"rps"`       // config.Host.ReqPerSec
	RBuf     int     `json:"rbuf"`      // buffer size of the reads (0: io.ReadAll)
	Whence   int     `json:"whence"`    // how Seek is spelled: 0 SeekStart, 1 SeekCurrent, 2 SeekEnd
	Close2   bool    `json:"close2"`    // Close is called twice
}

type l1Scn struct {
	ID      string           `json:"id"`
	Conf    l1Conf           `json:"conf"`
	Steps   []map[string]any `json:"steps"`
	Blocked int              `json:"blocked"`
}

const l1Block = 64 // bytes per content symbol

type l1Run struct {
	s      *l1Scn
	clk    *clock
	rec    recorder
	mu     sync.Mutex
	queue  []string // reply kinds for the call in progress
	curID  string
	realm  map[string]string
	nrealm int
	counts map[string]int
	cap    int
	raEnd  int64 // latest end of a Retry-After window
	active int64 // time of the last activity (watchdog)
	under  int   // attempts answered from the tail, not from the script
	gid    int64 // goroutine performing the calls
	hosts  map[string]*config.Host
	di     time.Duration
	idle   time.Duration // longer than any back-off delay of this client
}

func (r *l1Run) content(id string) []byte {
	b := make([]byte, 0, r.s.Conf.N*l1Block)
	for i := 0; i < r.s.Conf.N; i++ {
		b = append(b, bytes.Repeat([]byte{byte('a' + i), id[0]}, l1Block/2)...)
	}
	return b
}

func (r *l1Run) touch() {
	r.mu.Lock()
	r.active = r.clk.now()
	r.mu.Unlock()
}

func (r *l1Run) hostCfg(name string) *config.Host {
	r.mu.Lock()
	defer r.mu.Unlock()
	if h, ok := r.hosts[name]; ok {
		return h
	}
	h := config.HostNewName(name)
	h.Name, h.Hostname, h.TLS = name, name, config.TLSDisabled
	if r.s.Conf.TLS {
		h.TLS = config.TLSEnabled
	}
	if r.s.Conf.HostPort {
		h.Hostname = name + ":5000"
	}
	h.ReqPerSec = r.s.Conf.RPS
	h.User, h.Pass = "user-"+name, "pass-"+name
	h.ReqConcurrent = 100
	if r.s.Conf.Conc > 0 && r.s.Conf.Conc < 8 {
		h.ReqConcurrent = int64(r.s.Conf.Conc)
	}
	for i, n := range r.s.Conf.Hosts {
		if n == name && i < len(r.s.Conf.Prio) {
			h.Priority = uint(r.s.Conf.Prio[i])
		}
		if name == r.s.Conf.Up && n != name {
			h.Mirrors = append(h.Mirrors, n)
		}
	}
	r.hosts[name] = h
	return h
}

type cutBody struct {
	data  []byte
	off   int
	cut   bool
	fired bool
	onCut func()
}

func (b *cutBody) Read(p []byte) (int, error) {
	if b.off < len(b.data) {
		n := copy(p, b.data[b.off:])
		b.off += n
		return n, nil
	}
	if b.cut {
		if !b.fired {
			b.fired = true
			b.onCut()
		}
		return 0, io.ErrUnexpectedEOF
	}
	return 0, io.EOF
}
func (b *cutBody) Close() error { return nil }

func parseRange(v string, total int) (a, b int, ok bool) {
	spec, found := strings.CutPrefix(v, "bytes=")
	if !found {
		return 0, 0, false
	}
	first, last, found := strings.Cut(spec, "-")
	if !found {
		return 0, 0, false
	}
	a, err := strconv.Atoi(first)
	if err != nil {
		return 0, 0, false
	}
	b = total - 1
	if last != "" {
		if b, err = strconv.Atoi(last); err != nil {
			return 0, 0, false
		}
	}
	if b > total-1 {
		b = total - 1
	}
	return a, b, true
}

// RoundTrip is the scripted host: it answers with the next reply kind of the script.
func (r *l1Run) RoundTrip(req *http.Request) (*http.Response, error) {
	ta := r.clk.now()
	if req.Body != nil {
		_, _ = io.Copy(io.Discard, req.Body)
		_ = req.Body.Close()
	}
	host := strings.TrimSuffix(req.URL.Host, ":5000")
	r.mu.Lock()
	r.active = ta
	id := r.curID
	kind := r.s.Conf.Tail
	if len(r.queue) > 0 {
		kind, r.queue = r.queue[0], r.queue[1:]
	} else {
		r.under++
	}
	key := req.Method + " " + req.URL.String() + " " + req.Header.Get("Range")
	r.counts[key]++
	runaway := r.counts[key] > r.cap
	r.mu.Unlock()

	rq := r.s.Conf.Req[id]
	content := r.content(id)
	total := len(content)
	rng := req.Header.Get("Range")
	hasRange := rng != ""
	// a kind that does not fit the request (the real client took another path than the
	// design spec predicted) is replaced by the plain success of that request
	switch kind {
	case "", "ok", "ok206":
		kind = "ok"
		if hasRange {
			kind = "ok206"
		}
	case "short0", "short1", "okclbad":
		if hasRange || req.Method != "GET" || (kind == "okclbad" && !rq.Expect) {
			kind = "ok"
			if hasRange {
				kind = "ok206"
			}
		}
	case "short206", "ok200":
		if !hasRange || req.Method != "GET" {
			kind = "ok"
		}
	}
	hdr := http.Header{}
	status := 0
	var body []byte
	cut := false
	pk := ""
	switch kind {
	case "ok":
		switch req.Method {
		case "GET":
			status, body = 200, content
		case "HEAD":
			status = 200
			hdr.Set("Content-Length", strconv.Itoa(total))
		case "DELETE":
			status = 202
		default:
			status = 201
		}
	case "ok206", "short206":
		a, b, ok := parseRange(rng, total)
		if !ok || a >= total || a > b {
			status = 416
			hdr.Set("Content-Range", fmt.Sprintf("bytes */%d", total))
		} else {
			status = 206
			hdr.Set("Content-Range", fmt.Sprintf("bytes %d-%d/%d", a, b, total))
			hdr.Set("Content-Length", strconv.Itoa(b+1-a))
			if kind == "ok206" {
				body = content[a : b+1]
			} else {
				cut = true
			}
		}
	case "short0", "short1":
		status, cut = 200, true
		hdr.Set("Content-Length", strconv.Itoa(total))
		if kind == "short1" {
			body = content[:l1Block]
		}
	case "okclbad":
		status, pk = 200, "badok"
		body = append(append([]byte{}, content...), 'x')
	case "ok200":
		status, body, pk = 200, content, "badok"
	case "reset":
	case "s429ra":
		status = 429
		hdr.Set("Retry-After", "1")
	case "s500ra": // Retry-After on another transient status
		status = 500
		hdr.Set("Retry-After", "1")
	case "s429ra0": // a zero delay is no server-requested delay
		status = 429
		hdr.Set("Retry-After", "0")
	case "s429rad": // the HTTP-date form (not understood by the client: treated as absent by the monitor too)
		status = 429
		hdr.Set("Retry-After", time.Now().Add(time.Second).UTC().Format(http.TimeFormat))
	case "s401n", "s401s":
		status = 401
		r.mu.Lock()
		if kind == "s401n" || r.realm[host] == "" {
			r.nrealm++
			r.realm[host] = fmt.Sprintf("realm-%d", r.nrealm)
		}
		hdr.Set("WWW-Authenticate", fmt.Sprintf(`Basic realm="%s"`, r.realm[host]))
		r.mu.Unlock()
	case "s401b":
		status = 401
	default:
		if n, err := strconv.Atoi(strings.TrimPrefix(kind, "s")); err == nil && strings.HasPrefix(kind, "s") {
			status = n
		} else {
			status = 500
		}
	}
	if runaway {
		status, pk = 0, "cap"
	}
	if status >= 300 {
		body = []byte(`{"errors":[{"code":"SCRIPTED","message":"scripted reply"}]}`)
	}
	if pk == "" {
		pk = statusKind(status, hdr.Get("Retry-After"), cut)
	}
	tr := r.clk.now()
	ev := vtrace.Event{"ev": "att", "id": id, "h": host, "ta": ta, "tr": tr, "k": pk,
		"ra": retryAfterUS(hdr.Get("Retry-After")), "mut": bit(isMut(req.Method)),
		"mir": bit(!rq.Nomir && !isMut(req.Method) && (rq.Direct == "" || rq.Direct == "none")), "sig": req.Method + " " + req.URL.Path,
		"inj": bit(pk != "ok"), "raw": kind, "st": status, "rng": rng}
	if pk == "ra" {
		r.mu.Lock()
		if e := tr + retryAfterUS(hdr.Get("Retry-After")); e > r.raEnd {
			r.raEnd = e
		}
		r.mu.Unlock()
	}
	r.rec.add(ev)
	if status == 0 {
		if runaway {
			return nil, errors.New("scripted host: run-away cut-off, identical request repeated too often")
		}
		return nil, errors.New("scripted host: connection reset by peer")
	}
	if hdr.Get("Content-Length") == "" {
		hdr.Set("Content-Length", strconv.Itoa(len(body)))
	}
	cl, _ := strconv.ParseInt(hdr.Get("Content-Length"), 10, 64)
	if req.Method == "HEAD" {
		body, cut = nil, false
	}
	cb := &cutBody{data: body, cut: cut, onCut: func() {
		r.rec.add(vtrace.Event{"ev": "cut", "id": id, "h": host, "t": r.clk.now()})
	}}
	return &http.Response{Status: fmt.Sprintf("%d %s", status, http.StatusText(status)), StatusCode: status,
		Proto: "HTTP/1.1", ProtoMajor: 1, ProtoMinor: 1, Header: hdr, Body: cb, ContentLength: cl, Request: req}, nil
}

func apiStep(st map[string]any) bool {
	switch st["ev"] {
	case "do", "read", "seek", "note", "cancel":
		return true
	}
	return false
}

func str(v any) string {
	s, _ := v.(string)
	return s
}

func num(v any) int {
	f, _ := v.(float64)
	return int(f)
}

// l1Exec performs the API calls of the script, one after the other.
func (r *l1Run) l1Exec(ctx context.Context, client *reghttp.Client, done chan<- struct{}) {
	defer close(done)
	r.mu.Lock()
	r.gid = goid()
	r.mu.Unlock()
	resps := map[string]*reghttp.Resp{}
	pos := map[string]int{}
	open := map[string]bool{} // the last Do / Seek succeeded: the body may be read
	cancels := map[string]context.CancelFunc{}
	steps := r.s.Steps
	for i, st := range steps {
		if !apiStep(st) || ctx.Err() != nil {
			continue
		}
		// the replies of the attempts the design spec predicts for this call
		var q []string
		for _, nx := range steps[i+1:] {
			if apiStep(nx) {
				break
			}
			if nx["ev"] == "att" {
				q = append(q, str(nx["raw"]))
			}
		}
		id := str(st["id"])
		r.mu.Lock()
		r.queue, r.curID = q, id
		r.mu.Unlock()
		r.touch()
		rq := r.s.Conf.Req[id]
		switch st["ev"] {
		case "do":
			req := &reghttp.Req{MetaKind: reqmeta.Blob, Host: r.s.Conf.Up, Method: rq.Meth, Repository: "proj/app",
				Path: "blobs/" + id, NoMirrors: rq.Nomir, IgnoreErr: rq.Ie}
			if rq.Meth == "HEAD" {
				req.MetaKind = reqmeta.Head
			}
			to := r.s.Conf.Up
			if rq.Direct != "" && rq.Direct != "none" {
				to = rq.Direct
				hc := r.hostCfg(to)
				scheme := "http"
				if hc.TLS != config.TLSDisabled {
					scheme = "https"
				}
				u, err := url.Parse(scheme + "://" + hc.Hostname + "/v2/proj/app/blobs/" + id + "?last=x&n=2")
				if err != nil {
					fatal("%v", err)
				}
				req.Host, req.DirectURL, req.NoMirrors = to, u, true
			}
			if rq.Expect {
				req.ExpectLen = int64(r.s.Conf.N * l1Block)
			}
			if isMut(rq.Meth) && rq.Meth != "DELETE" {
				req.BodyBytes = r.content(id)
				req.BodyLen = int64(len(req.BodyBytes))
				if rq.Oneshot {
					body, used := req.BodyBytes, false
					req.BodyBytes = nil
					req.BodyFunc = func() (io.ReadCloser, error) {
						if used {
							return nil, fmt.Errorf("driver: body source is not a seeker%.0w", errs.ErrNotRetryable)
						}
						used = true
						return io.NopCloser(bytes.NewReader(body)), nil
					}
				}
			}
			r.rec.add(vtrace.Event{"ev": "do", "id": id, "mut": bit(isMut(rq.Meth)), "nomir": bit(req.NoMirrors),
				"ie": bit(rq.Ie), "tc": r.clk.now(), "os": bit(rq.Oneshot), "to": to})
			cctx, cancel := context.WithCancel(ctx)
			cancels[id] = cancel
			resp, err := client.Do(cctx, req)
			resps[id], pos[id], open[id] = resp, 0, err == nil
			r.rec.add(vtrace.Event{"ev": "ret", "id": id, "call": "do", "ok": bit(err == nil), "eq": 1, "t": r.clk.now()})
		case "read":
			resp := resps[id]
			if resp == nil || !open[id] {
				continue
			}
			r.rec.add(vtrace.Event{"ev": "read", "id": id, "tc": r.clk.now()})
			var data []byte
			var err error
			if n := r.s.Conf.RBuf; n > 0 {
				buf := make([]byte, n)
				for err == nil {
					var k int
					k, err = resp.Read(buf)
					data = append(data, buf[:k]...)
				}
				if err == io.EOF {
					err = nil
				}
			} else {
				data, err = io.ReadAll(resp)
			}
			want := []byte{}
			if rq.Meth == "GET" && pos[id] <= r.s.Conf.N*l1Block {
				want = r.content(id)[pos[id]:]
			}
			pos[id], open[id] = r.s.Conf.N*l1Block, err == nil
			r.rec.add(vtrace.Event{"ev": "ret", "id": id, "call": "read", "ok": bit(err == nil),
				"eq": bit(bytes.Equal(data, want)), "n": len(data), "t": r.clk.now()})
		case "seek":
			resp := resps[id]
			if resp == nil || !open[id] {
				continue
			}
			off := num(st["off"]) * l1Block
			r.rec.add(vtrace.Event{"ev": "seek", "id": id, "tc": r.clk.now(), "off": off})
			var err error
			switch total := r.s.Conf.N * l1Block; {
			case r.s.Conf.Whence == 1 && pos[id] <= total:
				_, err = resp.Seek(int64(off-pos[id]), io.SeekCurrent)
			case r.s.Conf.Whence == 2:
				_, err = resp.Seek(int64(off-total), io.SeekEnd)
			default:
				_, err = resp.Seek(int64(off), io.SeekStart)
			}
			pos[id], open[id] = off, err == nil
			r.rec.add(vtrace.Event{"ev": "ret", "id": id, "call": "seek", "ok": bit(err == nil), "eq": 1, "t": r.clk.now()})
		case "cancel":
			if c := cancels[id]; c != nil {
				c()
			}
			r.rec.add(vtrace.Event{"ev": "cancel", "id": id, "t": r.clk.now()})
		case "note":
			switch st["what"] {
			case "close":
				if resp := resps[id]; resp != nil {
					_ = resp.Close()
					if r.s.Conf.Close2 {
						_ = resp.Close()
					}
				}
				r.rec.add(vtrace.Event{"ev": "note", "what": "close", "id": id, "t": r.clk.now()})
			case "pass":
				r.mu.Lock()
				end := r.raEnd
				r.mu.Unlock()
				if d := time.Until(r.clk.at(end + 50000)); d > 0 {
					time.Sleep(d)
				}
				r.rec.add(vtrace.Event{"ev": "note", "what": "pass", "t": r.clk.now()})
			case "idle":
				// the client is not used for longer than any back-off delay (this makes the scenario, the
				// verdict only uses the observed request times)
				time.Sleep(r.idle)
				r.rec.add(vtrace.Event{"ev": "note", "what": "idle", "t": r.clk.now()})
			}
		}
		r.touch()
	}
	for _, c := range cancels {
		defer c()
	}
	if ctx.Err() != nil {
		return
	}
	// quiescence: every response is closed, so every throttle slot of every host must be free
	for _, h := range r.s.Conf.Hosts {
		q := client.GetThrottle(h)
		if q == nil {
			continue
		}
		conc := int(r.hostCfg(h).ReqConcurrent)
		var held []func()
		for i := 0; i < conc; i++ {
			done, err := q.TryAcquire(context.Background(), reqmeta.Data{})
			if err != nil || done == nil {
				break
			}
			held = append(held, done)
		}
		for _, d := range held {
			d()
		}
		r.rec.add(vtrace.Event{"ev": "quiet", "h": h, "free": len(held), "conc": conc, "t": r.clk.now()})
	}
}

func runL1(s *l1Scn) *vtrace.Trace {
	r := &l1Run{s: s, clk: newClock(), realm: map[string]string{}, counts: map[string]int{},
		hosts: map[string]*config.Host{}}
	di := s.Conf.DIus
	if di <= 0 {
		di = 3000
	}
	r.di = time.Duration(di) * time.Microsecond
	dmax := s.Conf.Dmax
	if dmax < 1 {
		dmax = 4
	}
	r.cap = 16 * (s.Conf.R + 1) * len(s.Conf.Hosts)
	dmaxD := time.Duration(dmax) * r.di
	if s.Conf.DmaxReal > 0 {
		dmaxD = time.Duration(s.Conf.DmaxReal) * r.di
	} else if s.Conf.DmaxReal < 0 {
		dmaxD = 0 // WithDelay then takes 30 x delayInit
	}
	r.idle = dmaxD
	if dmaxD == 0 {
		r.idle = 30 * r.di
	}
	if lim := r.di << uint(s.Conf.R+3); lim < r.idle {
		r.idle = lim // the delay never exceeds delayInit << backoffCur, and a host is dropped at backoffCur = R
	}
	r.idle += 3 * time.Millisecond
	client := reghttp.NewClient(reghttp.WithConfigHostFn(r.hostCfg), reghttp.WithHTTPClient(&http.Client{Transport: r}),
		reghttp.WithDelay(r.di, dmaxD), reghttp.WithRetryLimit(s.Conf.R))
	ctx, cancel := context.WithCancel(context.Background())
	defer cancel()
	done := make(chan struct{})
	r.touch()
	go r.l1Exec(ctx, client, done)
	meta := map[string]any{"mode": "l1"}
	tick := time.NewTicker(20 * time.Millisecond)
	defer tick.Stop()
	parked := 0
wait:
	for {
		select {
		case <-done:
			break wait
		case <-tick.C:
			r.mu.Lock()
			idle := r.clk.now() - r.active
			id, gid := r.curID, r.gid
			r.mu.Unlock()
			if idle < 200000 {
				parked = 0
				continue
			}
			if ok, head := parkedIn(gid, "pqueue.(*Queue"); ok {
				parked++
				if parked >= 3 {
					// parked in the throttle for good: nobody else can release a slot
					r.rec.add(vtrace.Event{"ev": "hang", "id": id, "where": "throttle", "t": r.clk.now(), "g": head})
					meta["hang"] = "throttle"
					cancel()
					<-done
					break wait
				}
				continue
			}
			parked = 0
			if idle > 60000000 {
				meta["stall"] = fmt.Sprintf("no activity for %d us, not parked in the throttle", idle)
				cancel()
				break wait
			}
		}
	}
	hdr := map[string]any{"R": s.Conf.R, "D": di, "up": s.Conf.Up, "hosts": s.Conf.Hosts, "prio": s.Conf.Prio,
		"slack": 500000, "waive": []string{}, "layer": 1}
	r.mu.Lock()
	meta["under"] = r.under
	r.mu.Unlock()
	meta["predicted_blocked"] = s.Blocked
	// drift: does the real run follow the behaviour of the design spec?
	meta["exact"], meta["why"] = l1Compare(s.Steps, r.rec.events)
	return &vtrace.Trace{ID: s.ID, Header: hdr, Events: r.rec.events, Meta: meta}
}

// l1Compare compares the events predicted by (D) with the recorded ones: kinds, logical
// request, result of each call and (raw) reply kind of each attempt; times are ignored, and
// so is the host (equal mirrors may be tried in either order).
func l1Compare(pred []map[string]any, got []vtrace.Event) (bool, string) {
	key := func(ev string, m map[string]any) string {
		switch ev {
		case "att":
			return "att " + str(m["id"]) + " " + str(m["raw"])
		case "ret":
			return fmt.Sprintf("ret %s %s %v", str(m["id"]), str(m["call"]), m["ok"])
		case "cut":
			return "cut " + str(m["id"])
		case "note":
			return "note " + str(m["what"])
		case "quiet":
			return ""
		}
		return ev + " " + str(m["id"])
	}
	var a, b []string
	for _, p := range pred {
		a = append(a, key(str(p["ev"]), p))
	}
	for _, g := range got {
		if g["ev"] == "quiet" {
			continue // an observation of the driver, not a step of the design
		}
		m := map[string]any(g)
		if m["ok"] != nil {
			m = map[string]any{"id": m["id"], "call": m["call"], "ok": float64(m["ok"].(int)), "ev": m["ev"]}
		}
		b = append(b, key(str(g["ev"]), m))
	}
	for i := 0; i < len(a) || i < len(b); i++ {
		x, y := "<end>", "<end>"
		if i < len(a) {
			x = a[i]
		}
		if i < len(b) {
			y = b[i]
		}
		if x != y {
			return false, fmt.Sprintf("event %d: design %q, code %q", i, x, y)
		}
	}
	return true, ""
}

package main

import "github.com/regclient/regclient/zzverif/vtrace"

type upScn struct {
	ID string `json:"id"`
}

func runUp(s *upScn) *vtrace.Trace { return &vtrace.Trace{ID: s.ID} }

package main

import (
	"bytes"
	"context"
	"errors"
	"fmt"
	"io"
	"log/slog"
	"net/http"
	"sort"
	"sync"
	"time"

	"github.com/regclient/regclient/config"
	"github.com/regclient/regclient/scheme/reg"
	"github.com/regclient/regclient/types/ref"
	"github.com/regclient/regclient/zzverif/simreg"
	"github.com/regclient/regclient/zzverif/vtrace"
)

// ---- scenario (output of spec/RegHttpUploadGen.tla) ----

type upReply struct {
	K  string `json:"k"`  // 202 | 201 | 4xxLR | other | doerr
	R  int    `json:"r"`  // offset the registry claims to hold (0: no Range header)
	St string `json:"st"` // other: the upload status GET that follows: ok | fail
}

type upScn struct {
	ID        string    `json:"id"`
	B         int       `json:"b"`
	C         int       `json:"c"`
	Script    []upReply `json:"script"`
	Predicted string    `json:"predicted"`
	R         int       `json:"R"`
}

const upUnit = 100 // bytes per offset unit of the spec

type upRun struct {
	s       *upScn
	clk     *clock
	mu      sync.Mutex
	idx     int    // script entry of the logical PATCH in progress
	lastKey string // the previous PATCH (URL + Content-Range)
	resets  int    // attempts of the current logical PATCH answered with a reset
	started bool
	ta, tr  map[int]int64
	capped  map[int]bool
	counts  map[string]int
	cap     int
	active  int64
	gid     int64
}

func (u *upRun) entry() upReply {
	if len(u.s.Script) == 0 {
		return upReply{K: "202"}
	}
	if u.idx >= len(u.s.Script) {
		return u.s.Script[len(u.s.Script)-1] // the registry repeats itself for ever
	}
	return u.s.Script[u.idx]
}

func (u *upRun) intercept(rq *simreg.Request) *simreg.Reply {
	now := u.clk.now()
	u.mu.Lock()
	defer u.mu.Unlock()
	u.ta[rq.Seq], u.active = now, now
	key := rq.Method + " " + rq.URL + " " + rq.Header.Get("Content-Range")
	u.counts[key]++
	if u.counts[key] > u.cap || rq.Seq > 40*u.cap {
		u.capped[rq.Seq] = true
		return &simreg.Reply{Err: errRunaway}
	}
	loc := rq.Path
	if q := rq.Query.Encode(); q != "" {
		loc += "?" + q
	}
	session := func(st int, r int) *simreg.Reply {
		h := http.Header{"Location": {loc}, "Docker-Upload-UUID": {rq.Ref}}
		if r > 0 {
			h.Set("Range", fmt.Sprintf("0-%d", r*upUnit-1))
		}
		return &simreg.Reply{Status: st, Header: h}
	}
	switch rq.Class {
	case "upload_patch":
		// a PATCH identical to the previous one that was answered with a reset is a retry of the
		// same logical request; anything else is the next logical request
		if u.started && !(key == u.lastKey && u.resets > 0 && u.resets <= u.s.R && u.entry().K == "doerr") {
			u.idx++
			u.resets = 0
		}
		u.started, u.lastKey = true, key
		e := u.entry()
		switch e.K {
		case "202":
			return session(202, e.R)
		case "201":
			return session(201, e.R)
		case "4xxLR":
			return session(416, e.R)
		case "other":
			return &simreg.Reply{Status: 404, Body: []byte(`{"errors":[{"code":"BLOB_UPLOAD_UNKNOWN"}]}`)}
		case "doerr":
			u.resets++
			return &simreg.Reply{Err: errors.New("model host: connection reset by peer")}
		}
		panic("c12drv: unknown upload reply " + e.K)
	case "upload_get":
		e := u.entry()
		if e.K == "other" && e.St == "ok" {
			return session(204, e.R)
		}
		return &simreg.Reply{Status: 404, Body: []byte(`{"errors":[{"code":"BLOB_UPLOAD_UNKNOWN"}]}`)}
	}
	return nil
}

func (u *upRun) upExec(ctx context.Context, net *simreg.Net, done chan<- struct{}, rerr *error) {
	defer close(done)
	u.mu.Lock()
	u.gid = goid()
	u.mu.Unlock()
	up := config.HostNewName(l2Up)
	up.Hostname, up.TLS = l2Up, config.TLSDisabled
	di := 2 * time.Millisecond
	rg := reg.New(reg.WithConfigHosts([]*config.Host{up}), reg.WithHTTPClient(net.Client()),
		reg.WithDelay(di, 4*di), reg.WithRetryLimit(u.s.R), reg.WithBlobSize(int64(u.s.C*upUnit), 1),
		reg.WithSlog(slog.New(slog.NewTextHandler(io.Discard, &slog.HandlerOptions{}))))
	r, err := ref.New(l2Up + "/" + l2Repo)
	if err != nil {
		fatal("%v", err)
	}
	blob := fill(u.s.B*upUnit, 'u')
	_, *rerr = rg.BlobPut(ctx, r, desc(mtLayer, blob), bytes.NewReader(blob))
}

func runUp(s *upScn) *vtrace.Trace {
	if s.R <= 0 {
		s.R = 3
	}
	u := &upRun{s: s, clk: newClock(), ta: map[int]int64{}, tr: map[int]int64{}, capped: map[int]bool{},
		counts: map[string]int{}, cap: 16 * (s.R + 1)}
	net := simreg.NewNet()
	h := net.AddHost(l2Up, simreg.DefaultFeatures())
	h.Intercept = u.intercept
	h.After = func(rq *simreg.Request) {
		now := u.clk.now()
		u.mu.Lock()
		u.tr[rq.Seq], u.active = now, now
		u.mu.Unlock()
	}
	ctx, cancel := context.WithCancel(context.Background())
	defer cancel()
	done := make(chan struct{})
	var rerr error
	u.active = u.clk.now()
	tc := u.clk.now()
	go u.upExec(ctx, net, done, &rerr)
	meta := map[string]any{"mode": "up", "predicted": s.Predicted}
	tick := time.NewTicker(20 * time.Millisecond)
	defer tick.Stop()
	parked := 0
	hang := ""
wait:
	for {
		select {
		case <-done:
			break wait
		case <-tick.C:
			u.mu.Lock()
			idle, gid := u.clk.now()-u.active, u.gid
			u.mu.Unlock()
			if idle < 200000 {
				parked = 0
				continue
			}
			if ok, _ := parkedIn(gid, "pqueue.(*Queue"); ok {
				parked++
				if parked >= 3 {
					hang = "throttle"
					cancel()
					<-done
					break wait
				}
				continue
			}
			parked = 0
			if idle > 60000000 {
				meta["stall"] = fmt.Sprintf("no activity for %d us", idle)
				cancel()
				break wait
			}
		}
	}
	te := u.clk.now()
	hdr := map[string]any{"R": s.R, "D": 2000, "up": l2Up, "hosts": []string{l2Up}, "prio": []int{0},
		"slack": 500000, "waive": []string{}, "layer": 2}
	evs := []vtrace.Event{{"ev": "op", "name": "blob-put-scripted", "tc": tc}}
	log := net.Log()
	sort.SliceStable(log, func(i, j int) bool { return log[i].Seq < log[j].Seq })
	outcome := "done"
	if rerr != nil {
		outcome = "fail"
	}
	for _, rq := range log {
		u.mu.Lock()
		ta, okA := u.ta[rq.Seq]
		tr, okR := u.tr[rq.Seq]
		capped := u.capped[rq.Seq]
		u.mu.Unlock()
		if !okR {
			tr = ta
		}
		if !okA {
			ta = tr
		}
		k := statusKind(rq.Status, rq.RespHeader.Get("Retry-After"), rq.Truncated)
		if capped {
			k, outcome = "cap", "runaway"
		}
		sig := rq.Method + " " + rq.Path
		if q := rq.Query.Encode(); q != "" {
			sig += "?" + q
		}
		evs = append(evs, vtrace.Event{"ev": "att", "id": "-", "h": rq.Host, "ta": ta, "tr": tr, "k": k, "ra": 0,
			"mut": bit(isMut(rq.Method)), "mir": 0, "sig": sig, "inj": bit(rq.Faulted && !capped), "st": rq.Status,
			"cl": rq.Class, "seq": rq.Seq, "crng": rq.Header.Get("Content-Range"), "note": rq.Note,
			"rrng": rq.RespHeader.Get("Range")})
	}
	if hang != "" {
		evs = append(evs, vtrace.Event{"ev": "hang", "id": "-", "where": hang, "t": te})
		outcome = "hang"
	}
	evs = append(evs, vtrace.Event{"ev": "result", "eqret": 1, "eqstate": 1, "ret": outcome, "t": te})
	meta["outcome"] = outcome
	// the spec abstracts the final PUT (the scripted registry stored nothing, so it fails): only
	// "keeps repeating" versus "returns" is compared
	meta["exact"] = (outcome == "runaway") == (s.Predicted == "runaway")
	meta["n"] = len(log)
	return &vtrace.Trace{ID: s.ID, Header: hdr, Events: evs, Meta: meta}
}

package main

import (
	"bytes"
	"context"
	"crypto/sha256"
	"encoding/hex"
	"encoding/json"
	"errors"
	"fmt"
	"io"
	"log/slog"
	"net/http"
	"sort"
	"strings"
	"sync"
	"time"

	"github.com/opencontainers/go-digest"

	"github.com/regclient/regclient/config"
	"github.com/regclient/regclient/internal/reqmeta"
	"github.com/regclient/regclient/scheme"
	"github.com/regclient/regclient/scheme/reg"
	"github.com/regclient/regclient/types/descriptor"
	"github.com/regclient/regclient/types/errs"
	"github.com/regclient/regclient/types/manifest"
	"github.com/regclient/regclient/types/ref"
	"github.com/regclient/regclient/zzverif/simreg"
	"github.com/regclient/regclient/zzverif/vtrace"
)

// ---- scenario (built by tools/props/c12.py from the probe results) ----

type l2Mirror struct {
	Name   string `json:"name"`
	Prio   int    `json:"prio"`
	Mode   string `json:"mode"`   // has | lacks | fails
	Prefix string `json:"prefix"` // config.Host.PathPrefix: the mirror serves the repositories below this name
}

type l2Fault struct {
	Pos  int    `json:"pos"` // 1-based arrival index of the request, all hosts together
	Kind string `json:"kind"`
}

type l2Persist struct {
	Class string `json:"class"` // simreg request class, "" = every request
	Kind  string `json:"kind"`
	From  int    `json:"from"` // from the n-th request of that class on
}

type l2Scn struct {
	ID      string     `json:"id"`
	Op      string     `json:"op"`
	R       int        `json:"R"`
	UpPrio  int        `json:"upprio"`
	Mirrors []l2Mirror `json:"mirrors"`
	Faults  []l2Fault  `json:"faults"`
	Persist *l2Persist `json:"persist,omitempty"`
	DIus    int        `json:"di_us"`
	Conc    int        `json:"conc"` // ReqConcurrent of every host (0: the default, 3)
	// further input dimensions (all false / empty = the setting of the first round)
	Cache  bool `json:"cache"`  // reg.WithCache(5 min, 100)
	Port   bool `json:"port"`   // the registry is named up.test:5000 (mirror names are given by the scenario)
	TLS    bool `json:"tls"`    // hosts configured with TLS enabled: https URLs
	NoHead bool `json:"nohead"` // APIOpts disableHead=true on every host
	Dmax   int  `json:"dmax"`   // delayMax in units of delayInit (0: 4)
	// DefMirrors: the mirrors are listed on the default host (reg.WithConfigHostDefault) instead of the entry of
	// the registry; no host has an entry of its own (priorities and prefixes are then those of the default)
	DefMirrors bool `json:"defmirrors"`
}

// up2: a second registry used by the operations that read from two registries one after the other
func (s *l2Scn) up2() string { return "up2." + strings.TrimPrefix(s.up(), "up.") }

func (s *l2Scn) up() string {
	if s.Port {
		return l2Up + ":5000"
	}
	return l2Up
}

const (
	l2Up    = "up.test"
	l2Repo  = "proj/app"
	l2Other = "proj/other"
	mtMan   = "application/vnd.oci.image.manifest.v1+json"
	mtIndex = "application/vnd.oci.image.index.v1+json"
	mtConf  = "application/vnd.oci.image.config.v1+json"
	mtLayer = "application/vnd.oci.image.layer.v1.tar+gzip"
	mtEmpty = "application/vnd.oci.empty.v1+json"
)

// ---- fixture: the content every host starts with ----

type fixture struct {
	conf, layer1, layer2, other, empty, newBlob     []byte
	man1, man2, art1, art2, newMan, newArt, fbIndex []byte
}

func sha(b []byte) string {
	s := sha256.Sum256(b)
	return "sha256:" + hex.EncodeToString(s[:])
}

func fill(n int, seed byte) []byte {
	b := make([]byte, n)
	for i := range b {
		b[i] = seed + byte(i%23) + byte(i/251)
	}
	return b
}

type jdesc struct {
	MediaType    string `json:"mediaType"`
	Digest       string `json:"digest"`
	Size         int    `json:"size"`
	ArtifactType string `json:"artifactType,omitempty"`
}

func jd(mt string, b []byte) jdesc { return jdesc{MediaType: mt, Digest: sha(b), Size: len(b)} }

func mustJSON(v any) []byte {
	b, err := json.Marshal(v)
	if err != nil {
		panic(err)
	}
	return b
}

func imageManifest(conf, layer []byte, note string) []byte {
	return mustJSON(map[string]any{"schemaVersion": 2, "mediaType": mtMan, "config": jd(mtConf, conf),
		"layers": []jdesc{jd(mtLayer, layer)}, "annotations": map[string]string{"note": note}})
}

func artifactManifest(empty, subject []byte, at string) []byte {
	return mustJSON(map[string]any{"schemaVersion": 2, "mediaType": mtMan, "artifactType": at,
		"config": jd(mtEmpty, empty), "layers": []jdesc{jd(mtEmpty, empty)}, "subject": jd(mtMan, subject)})
}

var theFixture = func() *fixture {
	f := &fixture{}
	f.conf = []byte(`{"architecture":"amd64","os":"linux","rootfs":{"type":"layers","diff_ids":[]}}`)
	f.layer1 = fill(3000, 'A')
	f.layer2 = fill(1800, 'K')
	f.other = fill(900, 'q')
	f.empty = []byte(`{}`)
	f.newBlob = fill(2500, 'n')
	f.man1 = imageManifest(f.conf, f.layer1, "one")
	f.man2 = imageManifest(f.conf, f.layer2, "two")
	f.art1 = artifactManifest(f.empty, f.man1, "application/vnd.example.sbom")
	f.art2 = artifactManifest(f.empty, f.man1, "application/vnd.example.sig")
	f.newMan = imageManifest(f.conf, f.layer1, "new")
	f.newArt = artifactManifest(f.empty, f.man1, "application/vnd.example.new")
	a1, a2 := jd(mtMan, f.art1), jd(mtMan, f.art2)
	a1.ArtifactType, a2.ArtifactType = "application/vnd.example.sbom", "application/vnd.example.sig"
	f.fbIndex = mustJSON(map[string]any{"schemaVersion": 2, "mediaType": mtIndex, "manifests": []jdesc{a1, a2}})
	return f
}()

func fallbackTag(dig string) string { return strings.Replace(dig, ":", "-", 1) }

func (f *fixture) seed(h *simreg.Host, withFallback bool, prefix string) {
	l2Repo, l2Other := l2Repo, l2Other
	if prefix != "" {
		l2Repo, l2Other = prefix+"/"+l2Repo, prefix+"/"+l2Other
	}
	for _, b := range [][]byte{f.conf, f.layer1, f.layer2, f.empty} {
		h.PutBlob(l2Repo, b)
	}
	h.PutBlob(l2Other, f.other)
	h.PutManifest(l2Repo, "v1", mtMan, f.man1)
	h.PutManifest(l2Repo, "v2", mtMan, f.man2)
	for _, t := range []string{"t1", "t2", "t3"} {
		h.PutManifest(l2Repo, t, mtMan, f.man1)
	}
	h.PutManifest(l2Repo, "", mtMan, f.art1)
	h.PutManifest(l2Repo, "", mtMan, f.art2)
	if withFallback {
		h.PutManifest(l2Repo, fallbackTag(sha(f.man1)), mtIndex, f.fbIndex)
	}
}

// ---- operations ----

type l2Op struct {
	two   bool                     // reads from two registries one after the other
	feat  func(f *simreg.Features) // host features of this variant
	fb    bool                     // seed the referrers fall-back tag
	chunk bool                     // small chunks, chunked upload forced
	run   func(ctx context.Context, rg *reg.Reg, f *fixture, r ref.Ref) (string, error)
}

func desc(mt string, b []byte) descriptor.Descriptor {
	return descriptor.Descriptor{MediaType: mt, Digest: digest.Digest(sha(b)), Size: int64(len(b))}
}

func putManifest(ctx context.Context, rg *reg.Reg, r ref.Ref, raw []byte) (string, error) {
	m, err := manifest.New(manifest.WithRaw(raw), manifest.WithDesc(desc(mtMan, raw)))
	if err != nil {
		return "", fmt.Errorf("driver: %w", err)
	}
	return "done", rg.ManifestPut(ctx, r, m)
}

var l2Ops = map[string]l2Op{
	"ping": {run: func(ctx context.Context, rg *reg.Reg, f *fixture, r ref.Ref) (string, error) {
		_, err := rg.Ping(ctx, r)
		return "pong", err
	}},
	"repo-list": {run: func(ctx context.Context, rg *reg.Reg, f *fixture, r ref.Ref) (string, error) {
		rl, err := rg.RepoList(ctx, r.Registry)
		if err != nil {
			return "", err
		}
		l, err := rl.GetRepos()
		return strings.Join(l, ","), err
	}},
	"tag-list":       {run: tagList},
	"tag-list-paged": {feat: func(f *simreg.Features) { f.PageSize = 2 }, run: tagList},
	"manifest-get": {run: func(ctx context.Context, rg *reg.Reg, f *fixture, r ref.Ref) (string, error) {
		m, err := rg.ManifestGet(ctx, r.SetTag("v1"))
		if err != nil {
			return "", err
		}
		b, err := m.RawBody()
		return sha(b), err
	}},
	"manifest-get-digest": {run: func(ctx context.Context, rg *reg.Reg, f *fixture, r ref.Ref) (string, error) {
		m, err := rg.ManifestGet(ctx, r.SetDigest(sha(f.man2)))
		if err != nil {
			return "", err
		}
		b, err := m.RawBody()
		return sha(b), err
	}},
	"manifest-head": {run: func(ctx context.Context, rg *reg.Reg, f *fixture, r ref.Ref) (string, error) {
		m, err := rg.ManifestHead(ctx, r.SetTag("v1"))
		if err != nil {
			return "", err
		}
		return m.GetDescriptor().Digest.String(), nil
	}},
	"manifest-put": {run: func(ctx context.Context, rg *reg.Reg, f *fixture, r ref.Ref) (string, error) {
		return putManifest(ctx, rg, r.SetTag("new"), f.newMan)
	}},
	"manifest-put-subject": {run: func(ctx context.Context, rg *reg.Reg, f *fixture, r ref.Ref) (string, error) {
		return putManifest(ctx, rg, r.SetTag("newart"), f.newArt)
	}},
	"manifest-put-subject-fb": {feat: func(f *simreg.Features) { f.ReferrersAPI = false }, fb: true,
		run: func(ctx context.Context, rg *reg.Reg, f *fixture, r ref.Ref) (string, error) {
			return putManifest(ctx, rg, r.SetTag("newart"), f.newArt)
		}},
	"manifest-delete": {run: func(ctx context.Context, rg *reg.Reg, f *fixture, r ref.Ref) (string, error) {
		return "done", rg.ManifestDelete(ctx, r.SetDigest(sha(f.man2)))
	}},
	"manifest-delete-ref-fb": {feat: func(f *simreg.Features) { f.ReferrersAPI = false }, fb: true,
		run: func(ctx context.Context, rg *reg.Reg, f *fixture, r ref.Ref) (string, error) {
			return "done", rg.ManifestDelete(ctx, r.SetDigest(sha(f.art2)), scheme.WithManifestCheckReferrers())
		}},
	"tag-delete": {run: func(ctx context.Context, rg *reg.Reg, f *fixture, r ref.Ref) (string, error) {
		return "done", rg.TagDelete(ctx, r.SetTag("v2"))
	}},
	"tag-delete-fb": {feat: func(f *simreg.Features) { f.TagDelete = false },
		run: func(ctx context.Context, rg *reg.Reg, f *fixture, r ref.Ref) (string, error) {
			return "done", rg.TagDelete(ctx, r.SetTag("v2"))
		}},
	"blob-get": {run: func(ctx context.Context, rg *reg.Reg, f *fixture, r ref.Ref) (string, error) {
		br, err := rg.BlobGet(ctx, r, desc(mtLayer, f.layer1))
		if err != nil {
			return "", err
		}
		defer br.Close()
		b, err := io.ReadAll(br)
		return sha(b), err
	}},
	"blob-head": {run: func(ctx context.Context, rg *reg.Reg, f *fixture, r ref.Ref) (string, error) {
		br, err := rg.BlobHead(ctx, r, desc(mtLayer, f.layer1))
		if err != nil {
			return "", err
		}
		defer br.Close()
		return fmt.Sprintf("%d", br.GetDescriptor().Size), nil
	}},
	"blob-delete": {run: func(ctx context.Context, rg *reg.Reg, f *fixture, r ref.Ref) (string, error) {
		return "done", rg.BlobDelete(ctx, r, desc(mtLayer, f.layer2))
	}},
	"blob-mount": {run: func(ctx context.Context, rg *reg.Reg, f *fixture, r ref.Ref) (string, error) {
		src, err := ref.New(r.Registry + "/" + l2Other)
		if err != nil {
			return "", fmt.Errorf("driver: %w", err)
		}
		return "done", rg.BlobMount(ctx, src, r, desc(mtLayer, f.other))
	}},
	"blob-put": {run: func(ctx context.Context, rg *reg.Reg, f *fixture, r ref.Ref) (string, error) {
		d, err := rg.BlobPut(ctx, r, desc(mtLayer, f.newBlob), bytes.NewReader(f.newBlob))
		return d.Digest.String(), err
	}},
	"blob-put-chunked": {chunk: true, run: func(ctx context.Context, rg *reg.Reg, f *fixture, r ref.Ref) (string, error) {
		d, err := rg.BlobPut(ctx, r, desc(mtLayer, f.newBlob), bytes.NewReader(f.newBlob))
		return d.Digest.String(), err
	}},
	"blob-put-stream": {chunk: true, run: func(ctx context.Context, rg *reg.Reg, f *fixture, r ref.Ref) (string, error) {
		d, err := rg.BlobPut(ctx, r, descriptor.Descriptor{}, bytes.NewReader(f.newBlob))
		return d.Digest.String(), err
	}},
	// ---- round 4: several operations in sequence on one client (state left behind by the earlier one), with and
	// without an idle gap longer than any back-off delay; one or two registries ----
	"seq-manifest-get": {run: func(ctx context.Context, rg *reg.Reg, f *fixture, r ref.Ref) (string, error) {
		m1, err := rg.ManifestGet(ctx, r.SetTag("v1"))
		if err != nil {
			return "", err
		}
		idleGap(ctx)
		mark(ctx, "op", "")
		m2, err := rg.ManifestGet(ctx, r.SetDigest(sha(f.man2)))
		if err != nil {
			return "", err
		}
		return m1.GetDescriptor().Digest.String() + "," + m2.GetDescriptor().Digest.String(), nil
	}},
	"seq-blob-get-head": {run: func(ctx context.Context, rg *reg.Reg, f *fixture, r ref.Ref) (string, error) {
		br, err := rg.BlobGet(ctx, r, desc(mtLayer, f.layer1))
		if err != nil {
			return "", err
		}
		b, err := io.ReadAll(br)
		_ = br.Close()
		if err != nil {
			return "", err
		}
		idleGap(ctx)
		mark(ctx, "op", "")
		bh, err := rg.BlobHead(ctx, r, desc(mtLayer, f.layer2))
		if err != nil {
			return "", err
		}
		_ = bh.Close()
		return sha(b), nil
	}},
	"seq-tag-list-head-nogap": {run: func(ctx context.Context, rg *reg.Reg, f *fixture, r ref.Ref) (string, error) {
		l, err := tagList(ctx, rg, f, r)
		if err != nil {
			return "", err
		}
		mark(ctx, "op", "")
		m, err := rg.ManifestHead(ctx, r.SetTag("v2"))
		if err != nil {
			return "", err
		}
		return l + "," + m.GetDescriptor().Digest.String(), nil
	}},
	"seq2-manifest-get": {two: true, run: func(ctx context.Context, rg *reg.Reg, f *fixture, r ref.Ref) (string, error) {
		m1, err := rg.ManifestGet(ctx, r.SetTag("v1"))
		if err != nil {
			return "", err
		}
		idleGap(ctx)
		r2 := ref2(ctx, r)
		mark(ctx, "op", r2.Registry)
		m2, err := rg.ManifestGet(ctx, r2.SetTag("v2"))
		if err != nil {
			return "", err
		}
		return m1.GetDescriptor().Digest.String() + "," + m2.GetDescriptor().Digest.String(), nil
	}},
	"seq2-blob-head-tag-list": {two: true, run: func(ctx context.Context, rg *reg.Reg, f *fixture, r ref.Ref) (string, error) {
		bh, err := rg.BlobHead(ctx, r, desc(mtLayer, f.layer1))
		if err != nil {
			return "", err
		}
		_ = bh.Close()
		r2 := ref2(ctx, r)
		mark(ctx, "op", r2.Registry)
		l, err := tagList(ctx, rg, f, r2)
		if err != nil {
			return "", err
		}
		mark(ctx, "op", r.Registry)
		m, err := rg.ManifestHead(ctx, r.SetTag("v1"))
		if err != nil {
			return "", err
		}
		return l + "," + m.GetDescriptor().Digest.String(), nil
	}},
	// ---- second round: feature flags of the registry, digest algorithm, reference spelling, Seek ----
	"manifest-head-nodigest": {feat: func(f *simreg.Features) { f.HeadDigest = false },
		run: func(ctx context.Context, rg *reg.Reg, f *fixture, r ref.Ref) (string, error) {
			m, err := rg.ManifestHead(ctx, r.SetTag("v1"))
			if err != nil {
				return "", err
			}
			return m.GetDescriptor().MediaType, nil
		}},
	"manifest-head-digest": {run: func(ctx context.Context, rg *reg.Reg, f *fixture, r ref.Ref) (string, error) {
		m, err := rg.ManifestHead(ctx, r.SetDigest(sha(f.man2)))
		if err != nil {
			return "", err
		}
		return m.GetDescriptor().Digest.String(), nil
	}},
	"blob-put-chunked-minlen": {chunk: true, feat: func(f *simreg.Features) { f.ChunkMinLen = 1200 },
		run: func(ctx context.Context, rg *reg.Reg, f *fixture, r ref.Ref) (string, error) {
			d, err := rg.BlobPut(ctx, r, desc(mtLayer, f.newBlob), bytes.NewReader(f.newBlob))
			return d.Digest.String(), err
		}},
	"blob-put-chunked-sha512": {chunk: true, run: func(ctx context.Context, rg *reg.Reg, f *fixture, r ref.Ref) (string, error) {
		d := descriptor.Descriptor{MediaType: mtLayer, Digest: digest.SHA512.FromBytes(f.newBlob), Size: int64(len(f.newBlob))}
		d, err := rg.BlobPut(ctx, r, d, bytes.NewReader(f.newBlob))
		return d.Digest.String(), err
	}},
	"blob-mount-refused": {feat: func(f *simreg.Features) { f.Mount = false },
		run: func(ctx context.Context, rg *reg.Reg, f *fixture, r ref.Ref) (string, error) {
			src, err := ref.New(r.Registry + "/" + l2Other)
			if err != nil {
				return "", fmt.Errorf("driver: %w", err)
			}
			err = rg.BlobMount(ctx, src, r, desc(mtLayer, f.other))
			if errors.Is(err, errs.ErrMountReturnedLocation) {
				return "refused", nil // the registry opened an upload instead, BlobMount cancelled it
			}
			return "done", err
		}},
	"blob-get-seek": {run: func(ctx context.Context, rg *reg.Reg, f *fixture, r ref.Ref) (string, error) {
		br, err := rg.BlobGet(ctx, r, desc(mtLayer, f.layer1))
		if err != nil {
			return "", err
		}
		defer br.Close()
		if _, err = io.ReadFull(br, make([]byte, 500)); err != nil {
			return "", err
		}
		// the caller's Seek is not visible at the hosts: tell the monitor that a new call begins here
		mark(ctx, "seek", "")
		if _, err = br.Seek(0, io.SeekStart); err != nil {
			return "", err
		}
		b, err := io.ReadAll(br)
		return sha(b), err
	}},
	// a source that is only an io.Reader (stdin, a pipe): the single PUT cannot be repeated.  As many
	// uploads as the host has throttle slots, then an ordinary request to the same host.
	"blob-put-oneshot": {run: func(ctx context.Context, rg *reg.Reg, f *fixture, r ref.Ref) (string, error) {
		n := 3
		if h := ctx.Value(concKey{}); h != nil {
			n = h.(int)
		}
		var first error
		for i := 0; i < n; i++ {
			blob := append([]byte{byte('0' + i)}, f.newBlob...)
			_, err := rg.BlobPut(ctx, r, desc(mtLayer, blob), struct{ io.Reader }{bytes.NewReader(blob)})
			if err != nil && first == nil {
				first = err
			}
		}
		br, err := rg.BlobHead(ctx, r, desc(mtLayer, f.layer1))
		if err != nil {
			return "", err
		}
		_ = br.Close()
		return "done", first
	}},
	"referrer-list":       {run: referrerList},
	"referrer-list-paged": {feat: func(f *simreg.Features) { f.PageSize = 1 }, run: referrerList},
	"referrer-list-fb":    {feat: func(f *simreg.Features) { f.ReferrersAPI = false }, fb: true, run: referrerList},
}

func tagList(ctx context.Context, rg *reg.Reg, f *fixture, r ref.Ref) (string, error) {
	tl, err := rg.TagList(ctx, r)
	if err != nil {
		return "", err
	}
	l, err := tl.GetTags()
	return strings.Join(l, ","), err
}

func referrerList(ctx context.Context, rg *reg.Reg, f *fixture, r ref.Ref) (string, error) {
	rl, err := rg.ReferrerList(ctx, r.SetDigest(sha(f.man1)))
	if err != nil {
		return "", err
	}
	var l []string
	for _, d := range rl.Descriptors {
		l = append(l, d.Digest.String())
	}
	sort.Strings(l)
	return strings.Join(l, ","), nil
}

// ---- one execution ----

type concKey struct{}
type markKey struct{}

// l2Mark is an announcement of the operation itself: a Seek on its open response, or the start of its next
// sub-operation (with the registry that one names, "" = the same).
type l2Mark struct {
	n    int // requests seen so far
	kind string
	up   string
	t    int64
}

func mark(ctx context.Context, kind, up string) {
	if f, ok := ctx.Value(markKey{}).(func(kind, up string)); ok {
		f(kind, up)
	}
}

// idleGap: the client is not used for longer than any back-off delay (delayMax of the scenario).
func idleGap(ctx context.Context) {
	if d, ok := ctx.Value(idleKey{}).(time.Duration); ok {
		time.Sleep(d)
	}
}

type idleKey struct{}
type up2Key struct{}

// ref2 is the same repository on the second registry.
func ref2(ctx context.Context, r ref.Ref) ref.Ref {
	r2, err := ref.New(ctx.Value(up2Key{}).(string) + "/" + r.Repository)
	if err != nil {
		panic(err)
	}
	return r2
}

// markEvents renders the announcements made when i requests had been seen.
func markEvents(s *l2Scn, marks []l2Mark, i int, first bool) []vtrace.Event {
	var out []vtrace.Event
	set := func(up string) []string {
		l := []string{}
		for _, m := range s.Mirrors {
			l = append(l, m.Name)
		}
		return append(l, up)
	}
	if first {
		return []vtrace.Event{{"up": s.up(), "set": set(s.up())}}
	}
	for _, mk := range marks {
		if mk.n != i {
			continue
		}
		switch mk.kind {
		case "seek":
			out = append(out, vtrace.Event{"ev": "lseek", "tc": mk.t})
		case "op":
			ev := vtrace.Event{"ev": "op", "name": "next", "tc": mk.t}
			if mk.up != "" {
				ev["up"], ev["set"] = mk.up, set(mk.up)
			}
			out = append(out, ev)
		}
	}
	return out
}

type hostState struct {
	Tags      map[string]string
	Manifests map[string]bool
	Blobs     map[string]bool
}

func project(n *simreg.Net, names []string) map[string]hostState {
	out := map[string]hostState{}
	for _, name := range names {
		h := n.Host(name)
		st := hostState{Tags: map[string]string{}, Manifests: map[string]bool{}, Blobs: map[string]bool{}}
		h.Lock()
		for rn, r := range h.Repos {
			for t, d := range r.Tags {
				st.Tags[rn+":"+t] = d
			}
			for d := range r.Manifests {
				st.Manifests[rn+"@"+d] = true
			}
			for d := range r.Blobs {
				st.Blobs[rn+"@"+d] = true
			}
		}
		h.Unlock()
		out[name] = st
	}
	return out
}

// fixtureBlobs: digests of the contents the operations upload (other new blobs, e.g. the
// time-stamped dummy config of the tag-delete fall-back, differ from run to run).
var fixtureBlobs = func() map[string]bool {
	f := theFixture
	out := map[string]bool{}
	for _, b := range [][]byte{f.conf, f.layer1, f.layer2, f.other, f.empty, f.newBlob} {
		out[sha(b)] = true
	}
	return out
}()

// sameEffect: the tags and manifests are those of the fault-free run; a blob that existed
// before the operation is present exactly when it is after the fault-free run; a blob of the
// fixture that the fault-free run created exists; additional blobs (left-overs of a fall-back,
// time-stamped dummies) do not count.
func sameEffect(init, ff, got map[string]hostState) bool {
	for name, f := range ff {
		g, i := got[name], init[name]
		if len(f.Tags) != len(g.Tags) || len(f.Manifests) != len(g.Manifests) {
			return false
		}
		for k, v := range f.Tags {
			if g.Tags[k] != v {
				return false
			}
		}
		for k := range f.Manifests {
			if !g.Manifests[k] {
				return false
			}
		}
		for k := range i.Blobs {
			if f.Blobs[k] != g.Blobs[k] {
				return false
			}
		}
		for k := range f.Blobs {
			if _, dig, _ := strings.Cut(k, "@"); fixtureBlobs[dig] && !g.Blobs[k] {
				return false
			}
		}
	}
	return true
}

type l2Exec struct {
	s       *l2Scn
	clk     *clock
	mu      sync.Mutex
	ta, tr  map[int]int64
	capped  map[int]bool
	natural map[int]bool
	counts  map[string]int
	nclass  map[string]int
	cap     int
	active  int64
	faulty  bool
	net     *simreg.Net
	names   []string
	gid     int64
	quiet   []vtrace.Event
	marks   []l2Mark
	def     *config.Host
}

var errRunaway = errors.New("model host: run-away cut-off, identical request repeated too often")

func (x *l2Exec) intercept(h *simreg.Host, mode string) func(rq *simreg.Request) *simreg.Reply {
	return func(rq *simreg.Request) *simreg.Reply {
		now := x.clk.now()
		x.mu.Lock()
		x.ta[rq.Seq], x.active = now, now
		bh := sha256.Sum256(rq.Body)
		key := rq.Host + " " + rq.Method + " " + rq.URL + " " + rq.Header.Get("Content-Range") + " " + rq.Header.Get("Range") + " " + hex.EncodeToString(bh[:8])
		x.counts[key]++
		x.nclass[rq.Class]++
		nc := x.nclass[rq.Class]
		runaway := x.counts[key] > x.cap || rq.Seq > 40*x.cap
		if runaway {
			x.capped[rq.Seq] = true
		}
		kind := ""
		if x.faulty {
			for _, f := range x.s.Faults {
				if f.Pos == rq.Seq {
					kind = f.Kind
				}
			}
			if p := x.s.Persist; p != nil && (p.Class == "" || p.Class == rq.Class) {
				n := nc
				if p.Class == "" {
					n = rq.Seq
				}
				if n >= p.From {
					kind = p.Kind
				}
			}
		}
		if mode == "fails" {
			// a mirror that fails to serve fails whatever the fault plan says
			kind = "500"
			x.natural[rq.Seq] = true
		}
		x.mu.Unlock()
		if runaway {
			return &simreg.Reply{Err: errRunaway}
		}
		return faultReply(kind, rq, h)
	}
}

func faultReply(kind string, rq *simreg.Request, h *simreg.Host) *simreg.Reply {
	body := []byte(`{"errors":[{"code":"INJECTED","message":"injected fault"}]}`)
	hd := http.Header{"Content-Type": {"application/json"}}
	switch kind {
	case "":
		return nil
	case "500", "502", "504", "408", "429", "404", "503", "403":
		st := 0
		fmt.Sscanf(kind, "%d", &st)
		return &simreg.Reply{Status: st, Header: hd, Body: body}
	case "429ra":
		hd.Set("Retry-After", "1")
		return &simreg.Reply{Status: 429, Header: hd, Body: body}
	case "401":
		hd.Set("WWW-Authenticate", `Basic realm="sim"`)
		return &simreg.Reply{Status: 401, Header: hd, Body: body}
	case "416r":
		// a recoverable range error: the session's true offset, and where to go on
		if strings.HasPrefix(rq.Class, "upload_") && rq.Ref != "" {
			n := 0
			h.Lock()
			if u := h.Uploads[rq.Ref]; u != nil {
				n = len(u.Data)
			}
			h.Unlock()
			rng := "0-0"
			if n > 0 {
				rng = fmt.Sprintf("0-%d", n-1)
			}
			loc := rq.Path
			if q := rq.Query.Encode(); q != "" {
				loc += "?" + q
			}
			hd.Set("Location", loc)
			hd.Set("Range", rng)
		} else {
			hd.Set("Content-Range", "bytes */0")
		}
		return &simreg.Reply{Status: 416, Header: hd, Body: body}
	case "reset":
		return &simreg.Reply{Err: errors.New("model host: connection reset by peer")}
	case "trunc0":
		return &simreg.Reply{ServeThenTruncate: true, TruncateAt: 0}
	case "trunc700":
		return &simreg.Reply{ServeThenTruncate: true, TruncateAt: 700}
	}
	panic("c12drv: unknown fault kind " + kind)
}

// l2Exec runs the operation once.
func (x *l2Exec) l2Exec(ctx context.Context, op l2Op, done chan<- struct{}, res *string, rerr *error) {
	defer close(done)
	x.mu.Lock()
	x.gid = goid()
	x.mu.Unlock()
	s := x.s
	hosts := []*config.Host{}
	tls := config.TLSDisabled
	if s.TLS {
		tls = config.TLSEnabled
	}
	up := config.HostNewName(s.up())
	up.Hostname, up.TLS, up.Priority = s.up(), tls, uint(s.UpPrio)
	if s.NoHead {
		up.APIOpts = map[string]string{"disableHead": "true"}
	}
	up.User, up.Pass = "user-up", "pass-up"
	if s.Conc > 0 {
		up.ReqConcurrent = int64(s.Conc)
	}
	for _, m := range s.Mirrors {
		mh := config.HostNewName(m.Name)
		mh.Hostname, mh.TLS, mh.Priority, mh.PathPrefix = m.Name, tls, uint(m.Prio), m.Prefix
		if s.NoHead {
			mh.APIOpts = map[string]string{"disableHead": "true"}
		}
		mh.User, mh.Pass = "user-"+m.Name, "pass-"+m.Name
		if s.Conc > 0 {
			mh.ReqConcurrent = int64(s.Conc)
		}
		hosts = append(hosts, mh)
		up.Mirrors = append(up.Mirrors, m.Name)
	}
	hosts = append(hosts, up)
	// the second registry is configured like the first one
	up2 := *up
	up2.Name, up2.Hostname = s.up2(), s.up2()
	up2.Mirrors = append([]string{}, up.Mirrors...)
	hosts = append(hosts, &up2)
	di := time.Duration(s.DIus) * time.Microsecond
	dmax := 4 * di
	if s.Dmax > 0 {
		dmax = time.Duration(s.Dmax) * di
	}
	if s.DefMirrors {
		// the mirror list comes from the default host: no entry of its own for any registry or mirror
		def := config.HostNew()
		def.TLS, def.User, def.Pass = tls, "user-default", "pass-default"
		def.Mirrors = append([]string{}, up.Mirrors...)
		def.ReqConcurrent = up.ReqConcurrent
		if s.NoHead {
			def.APIOpts = map[string]string{"disableHead": "true"}
		}
		hosts = nil
		x.def = def
	}
	opts := []reg.Opts{reg.WithConfigHosts(hosts), reg.WithConfigHostDefault(x.def), reg.WithHTTPClient(x.net.Client()),
		reg.WithDelay(di, dmax), reg.WithRetryLimit(s.R),
		reg.WithSlog(slog.New(slog.NewTextHandler(io.Discard, &slog.HandlerOptions{})))}
	if op.chunk {
		opts = append(opts, reg.WithBlobSize(1000, 1500))
	}
	if s.Cache {
		opts = append(opts, reg.WithCache(5*time.Minute, 100))
	}
	rg := reg.New(opts...)
	r, err := ref.New(s.up() + "/" + l2Repo)
	if err != nil {
		*rerr = fmt.Errorf("driver: %w", err)
		return
	}
	conc := 3
	if s.Conc > 0 {
		conc = s.Conc
	}
	octx := context.WithValue(context.WithValue(ctx, concKey{}, conc), markKey{}, func(kind, up string) {
		n := len(x.net.Log())
		x.mu.Lock()
		x.marks = append(x.marks, l2Mark{n: n, kind: kind, up: up, t: x.clk.now()})
		x.mu.Unlock()
	})
	octx = context.WithValue(octx, idleKey{}, dmax+3*time.Millisecond)
	octx = context.WithValue(octx, up2Key{}, s.up2())
	*res, *rerr = op.run(octx, rg, theFixture, r)
	if ctx.Err() != nil {
		return
	}
	// quiescence: the operation returned and closed its responses, every throttle slot must be free
	for i, q := range rg.Throttle(r, false) {
		name := s.up()
		if i > 0 && i-1 < len(s.Mirrors) {
			name = s.Mirrors[i-1].Name
		}
		var held []func()
		for j := 0; j < conc; j++ {
			done, err := q.TryAcquire(context.Background(), reqmeta.Data{})
			if err != nil || done == nil {
				break
			}
			held = append(held, done)
		}
		for _, d := range held {
			d()
		}
		x.mu.Lock()
		x.quiet = append(x.quiet, vtrace.Event{"ev": "quiet", "h": name, "free": len(held), "conc": conc, "t": x.clk.now()})
		x.mu.Unlock()
	}
}

type l2Outcome struct {
	ret    string
	state  map[string]hostState
	init   map[string]hostState
	log    []*simreg.Request
	x      *l2Exec
	hang   string
	stall  string
	tc, te int64
}

func runL2Once(s *l2Scn, faulty bool) *l2Outcome {
	op, ok := l2Ops[s.Op]
	if !ok {
		fatal("unknown operation %q", s.Op)
	}
	x := &l2Exec{s: s, clk: newClock(), ta: map[int]int64{}, tr: map[int]int64{}, capped: map[int]bool{},
		natural: map[int]bool{}, counts: map[string]int{}, nclass: map[string]int{}, faulty: faulty, net: simreg.NewNet()}
	x.cap = 16 * (s.R + 1) * (len(s.Mirrors) + 1)
	feat := simreg.DefaultFeatures()
	if op.feat != nil {
		op.feat(&feat)
	}
	type hm struct{ name, mode, prefix string }
	all := []hm{}
	for _, m := range s.Mirrors {
		all = append(all, hm{m.Name, m.Mode, m.Prefix})
	}
	all = append(all, hm{s.up(), "has", ""}, hm{s.up2(), "has", ""})
	for _, a := range all {
		h := x.net.AddHost(a.name, feat)
		if a.mode != "lacks" {
			theFixture.seed(h, op.fb, a.prefix)
		}
		h.Intercept = x.intercept(h, a.mode)
		h.After = func(rq *simreg.Request) {
			now := x.clk.now()
			x.mu.Lock()
			x.tr[rq.Seq], x.active = now, now
			x.mu.Unlock()
		}
		x.names = append(x.names, a.name)
	}
	out := &l2Outcome{x: x, init: project(x.net, x.names)}
	ctx, cancel := context.WithCancel(context.Background())
	defer cancel()
	done := make(chan struct{})
	var res string
	var rerr error
	x.mu.Lock()
	x.active = x.clk.now()
	x.mu.Unlock()
	out.tc = x.clk.now()
	go x.l2Exec(ctx, op, done, &res, &rerr)
	tick := time.NewTicker(20 * time.Millisecond)
	defer tick.Stop()
	parked := 0
wait:
	for {
		select {
		case <-done:
			break wait
		case <-tick.C:
			x.mu.Lock()
			idle, gid := x.clk.now()-x.active, x.gid
			x.mu.Unlock()
			if idle < 200000 {
				parked = 0
				continue
			}
			if ok, _ := parkedIn(gid, "pqueue.(*Queue"); ok {
				parked++
				if parked >= 3 {
					out.hang = "throttle"
					cancel()
					<-done
					break wait
				}
				continue
			}
			parked = 0
			if idle > 60000000 {
				out.stall = fmt.Sprintf("no activity for %d us", idle)
				cancel()
				break wait
			}
		}
	}
	out.te = x.clk.now()
	if rerr != nil && strings.HasPrefix(rerr.Error(), "driver:") {
		fatal("%s: %v", s.ID, rerr)
	}
	out.ret = "ok:" + res
	if rerr != nil {
		out.ret = "err"
	}
	out.state = project(x.net, x.names)
	out.log = x.net.Log()
	return out
}

var mirrorable = map[string]bool{"blob_get": true, "blob_head": true, "manifest_get": true, "manifest_head": true,
	"tag_list": true, "referrers": true}

func runL2(s *l2Scn, probe bool) *vtrace.Trace {
	if s.DIus <= 0 {
		s.DIus = 2000
	}
	ff := runL2Once(s, false)
	if ff.stall != "" {
		return &vtrace.Trace{ID: s.ID, Meta: map[string]any{"mode": "l2", "stall": "fault-free run did not finish: " + ff.stall}}
	}
	meta := map[string]any{"mode": "l2", "op": s.Op, "ff_ret": ff.ret, "ff_n": len(ff.log)}
	if ff.hang != "" {
		// the operation hangs even without a fault (proven from the goroutine dump): that run is the trace
		probe = true
	}
	if probe {
		var cl []string
		for _, rq := range ff.log {
			cl = append(cl, rq.Class)
		}
		meta["classes"] = cl
	}
	run := ff
	if !probe {
		run = runL2Once(s, true)
	}
	x := run.x
	hostNames, prios := []string{}, []int{}
	for _, m := range s.Mirrors {
		hostNames, prios = append(hostNames, m.Name), append(prios, m.Prio)
	}
	hostNames, prios = append(hostNames, s.up()), append(prios, s.UpPrio)
	if l2Ops[s.Op].two {
		hostNames, prios = append(hostNames, s.up2()), append(prios, s.UpPrio)
	}
	prefixes := map[string]string{}
	for _, m := range s.Mirrors {
		if m.Prefix != "" {
			prefixes[m.Name] = m.Prefix
		}
	}
	hdr := map[string]any{"R": s.R, "D": s.DIus, "up": s.up(), "hosts": hostNames, "prio": prios,
		"slack": 500000, "waive": []string{}, "layer": 2}
	evs := []vtrace.Event{{"ev": "op", "name": s.Op, "tc": run.tc}}
	if l2Ops[s.Op].two {
		for k, v := range markEvents(s, nil, 0, true)[0] {
			evs[0][k] = v
		}
	}
	log := run.log
	sort.SliceStable(log, func(i, j int) bool { return log[i].Seq < log[j].Seq })
	for i, rq := range log {
		x.mu.Lock()
		evs = append(evs, markEvents(s, x.marks, i, false)...)
		ta, okA := x.ta[rq.Seq]
		tr, okR := x.tr[rq.Seq]
		capped, natural := x.capped[rq.Seq], x.natural[rq.Seq]
		x.mu.Unlock()
		if !okR {
			tr = ta
		}
		if !okA {
			ta = tr
		}
		k := statusKind(rq.Status, rq.RespHeader.Get("Retry-After"), rq.Truncated)
		if capped {
			k = "cap"
		}
		// the same logical request has the same signature on every host: a mirror's path prefix is left out
		path := rq.Path
		if pf := prefixes[rq.Host]; pf != "" {
			path = strings.Replace(path, "/v2/"+pf+"/", "/v2/", 1)
		}
		sig := rq.Method + " " + path
		if q := rq.Query.Encode(); q != "" {
			sig += "?" + q
		}
		evs = append(evs, vtrace.Event{"ev": "att", "id": "-", "h": rq.Host, "ta": ta, "tr": tr, "k": k,
			"ra": retryAfterUS(rq.RespHeader.Get("Retry-After")), "mut": bit(isMut(rq.Method)),
			"mir": bit(mirrorable[rq.Class] && rq.Query.Get("last") == ""), "sig": sig,
			"inj": bit((rq.Faulted || rq.Truncated) && !natural && !capped), "st": rq.Status, "cl": rq.Class, "seq": rq.Seq,
			"crng": rq.Header.Get("Content-Range"), "note": rq.Note})
	}
	x.mu.Lock()
	evs = append(evs, x.quiet...)
	x.mu.Unlock()
	if run.hang != "" {
		evs = append(evs, vtrace.Event{"ev": "hang", "id": "-", "where": run.hang, "t": run.te})
		meta["hang"] = run.hang
	}
	if run.stall != "" {
		meta["stall"] = run.stall
	}
	evs = append(evs, vtrace.Event{"ev": "result", "eqret": bit(run.ret == ff.ret),
		"eqstate": bit(sameEffect(ff.init, ff.state, run.state)), "ret": run.ret, "t": run.te,
		"os": bit(s.Op == "blob-put-oneshot")})
	meta["ret"] = run.ret
	meta["n"] = len(log)
	return &vtrace.Trace{ID: s.ID, Header: hdr, Events: evs, Meta: meta}
}

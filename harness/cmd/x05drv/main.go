// x05drv executes TLC generated scenarios of the extra area X05 (bearer token and scope
// lifecycle of internal/auth as driven by internal/reghttp) on the real code and records what
// happened on the wire.  It only records; the verdict is TLC's (spec/TokenLifeProp.tla).
//
// A scenario is a set of registries (credential kind each), one or more threads of API requests
// (reghttp.Client.Do: host, repository, method) and per registry a script of registry moods
// (consumed one per request on the wire) and of token service reply kinds (one per token request).
// The registries and the token service are an in-process http.RoundTripper written here
// (independent of regclient): a registry answers 200 only to a bearer token that the token service
// issued for its service name with a grant covering the request.
package main

import (
	"context"
	"encoding/base64"
	"encoding/json"
	"flag"
	"fmt"
	"io"
	"math/rand"
	"net/http"
	"net/url"
	"os"
	"sort"
	"strings"
	"sync"
	"time"

	"github.com/regclient/regclient/config"
	"github.com/regclient/regclient/internal/reghttp"
	"github.com/regclient/regclient/zzverif/vtrace"
)

type call struct {
	H    string `json:"h"`
	Repo string `json:"repo"`
	Meth string `json:"meth"`
}

type scenario struct {
	ID      string              `json:"id"`
	Hosts   map[string]string   `json:"hosts"`   // registry -> none | userpass | idtoken
	Threads [][]call            `json:"threads"` // API requests per thread
	RS      map[string][]string `json:"rs"`      // registry -> moods
	TS      map[string][]string `json:"ts"`      // registry -> token reply kinds
	Gate    int                 `json:"gate"`    // 1: release concurrent wire requests in a seeded order
	SSeed   int64               `json:"sseed"`
}

const (
	authHost = "auth.test"
	retryLim = 5
)

type ctxKey struct{}

func svcOf(h string) string  { return "svc-" + h }
func userOf(h string) string { return "u-" + h }
func passOf(h string) string { return "p-" + h }
func idtOf(h string) string  { return "idt-" + h }

type pair [2]string

type tokInfo struct {
	svc    string
	grants map[pair]bool
	asked  map[pair]bool
}

// model is the registries plus the token service.
type model struct {
	mu      sync.Mutex
	scn     *scenario
	events  []vtrace.Event
	rsPos   map[string]int
	tsPos   map[string]int
	tokens  map[string]tokInfo
	refresh map[string]string // refresh token -> service
	nTok    int
	nRt     int
	g       *gate
}

func need(meth string) []string {
	switch meth {
	case "GET", "HEAD":
		return []string{"pull"}
	case "DELETE":
		return []string{"delete"}
	}
	return []string{"pull", "push"}
}

func pairsJSON(ps []pair) []any {
	out := make([]any, 0, len(ps))
	for _, p := range ps {
		out = append(out, []any{p[0], p[1]})
	}
	return out
}

func normScopes(raw []string) []pair {
	set := map[pair]bool{}
	for _, s := range raw {
		if s == "" {
			continue
		}
		parts := strings.SplitN(s, ":", 3)
		if len(parts) == 3 && parts[0] == "repository" && parts[2] != "" {
			for _, a := range strings.Split(parts[2], ",") {
				set[pair{parts[1], a}] = true
			}
		} else {
			set[pair{s, "raw"}] = true
		}
	}
	out := make([]pair, 0, len(set))
	for p := range set {
		out = append(out, p)
	}
	sort.Slice(out, func(i, j int) bool {
		if out[i][0] != out[j][0] {
			return out[i][0] < out[j][0]
		}
		return out[i][1] < out[j][1]
	})
	return out
}

func reply(req *http.Request, status int, hdr http.Header, body string) *http.Response {
	if hdr == nil {
		hdr = http.Header{}
	}
	hdr.Set("Content-Length", fmt.Sprint(len(body)))
	var rc io.ReadCloser = io.NopCloser(strings.NewReader(body))
	if req.Method == "HEAD" {
		rc = io.NopCloser(strings.NewReader(""))
	}
	return &http.Response{StatusCode: status, Status: fmt.Sprintf("%d %s", status, http.StatusText(status)),
		Proto: "HTTP/1.1", ProtoMajor: 1, ProtoMinor: 1, Header: hdr, Body: rc,
		ContentLength: int64(len(body)), Request: req}
}

func (m *model) RoundTrip(req *http.Request) (*http.Response, error) {
	if req.Body != nil {
		defer req.Body.Close()
	}
	var form url.Values
	if req.URL.Host == authHost && req.Method == "POST" && req.Body != nil {
		b, _ := io.ReadAll(req.Body)
		form, _ = url.ParseQuery(string(b))
	}
	if m.g != nil {
		m.g.arrive(req)
		defer m.g.served()
	}
	m.mu.Lock()
	defer m.mu.Unlock()
	if req.URL.Host == authHost {
		return m.serveToken(req, form), nil
	}
	if _, ok := m.scn.Hosts[req.URL.Host]; ok {
		return m.serveRegistry(req), nil
	}
	m.events = append(m.events, vtrace.Event{"ev": "note", "what": "request to unknown host " + req.URL.Host})
	return reply(req, 404, nil, ""), nil
}

func (m *model) serveRegistry(req *http.Request) *http.Response {
	h := req.URL.Host
	cid, _ := req.Context().Value(ctxKey{}).(int)
	parts := strings.Split(strings.TrimPrefix(req.URL.Path, "/v2/"), "/")
	repo := parts[0]
	nd := need(req.Method)
	ah := req.Header.Get("Authorization")
	akind, aid, auser, tsvc := "none", "", "", ""
	tknown, tcov, tasked := 0, 0, 0
	switch {
	case ah == "":
	case strings.HasPrefix(ah, "Bearer "):
		akind = "bearer"
		t := strings.TrimPrefix(ah, "Bearer ")
		aid = "b:" + t
		if ti, ok := m.tokens[t]; ok {
			tknown = 1
			tsvc = ti.svc
			tcov, tasked = 1, 1
			for _, a := range nd {
				if !ti.grants[pair{repo, a}] {
					tcov = 0
				}
				if !ti.asked[pair{repo, a}] {
					tasked = 0
				}
			}
		}
	case strings.HasPrefix(ah, "Basic "):
		akind = "basic"
		b, err := base64.StdEncoding.DecodeString(strings.TrimPrefix(ah, "Basic "))
		if err == nil {
			auser, _, _ = strings.Cut(string(b), ":")
		}
		aid = "basic:" + string(b)
	default:
		akind = "other"
		aid = "o:" + ah
	}
	mood := "std"
	if p := m.rsPos[h]; p < len(m.scn.RS[h]) {
		mood = m.scn.RS[h][p]
	}
	m.rsPos[h]++
	covered := akind == "bearer" && tknown == 1 && tcov == 1 && tsvc == svcOf(h)
	status, chal, crealm := 401, "good", "t1"
	cscope := []pair{}
	for _, a := range nd {
		cscope = append(cscope, pair{repo, a})
	}
	switch mood {
	case "std":
		if covered {
			status = 200
		}
	case "stub":
	case "nosc":
		if covered {
			status = 200
		} else {
			chal, cscope = "nosc", []pair{}
		}
	case "pullsc":
		if covered {
			status = 200
		} else if len(nd) != 1 || nd[0] != "pull" {
			chal, cscope = "pullsc", []pair{{repo, "pull"}}
		}
	case "realm2":
		if covered {
			status = 200
		} else {
			chal, crealm = "realm2", "t2"
		}
	case "basic":
		if akind == "basic" && auser == userOf(h) {
			status = 200
		} else {
			chal, crealm, cscope = "basic", "", []pair{}
		}
	case "nohdr":
		chal, crealm, cscope = "none", "", []pair{}
	}
	hdr := http.Header{}
	if status == 200 {
		chal, crealm, cscope = "none", "", []pair{}
	} else {
		switch chal {
		case "basic":
			hdr.Set("WWW-Authenticate", `Basic realm="model"`)
		case "none":
		default:
			v := fmt.Sprintf(`Bearer realm="http://%s/%s",service="%s"`, authHost, crealm, svcOf(h))
			if len(cscope) > 0 {
				acts := []string{}
				for _, p := range cscope {
					acts = append(acts, p[1])
				}
				v += fmt.Sprintf(`,scope="repository:%s:%s"`, repo, strings.Join(acts, ","))
			}
			hdr.Set("WWW-Authenticate", v)
		}
	}
	m.events = append(m.events, vtrace.Event{"ev": "reg", "c": cid, "h": h, "repo": repo, "meth": req.Method,
		"akind": akind, "aid": aid, "tknown": tknown, "tsvc": tsvc, "tcov": tcov, "tasked": tasked, "auser": auser,
		"status": status, "chal": chal, "crealm": crealm, "cscope": pairsJSON(cscope), "mood": mood})
	body := ""
	if status != 200 {
		body = `{"errors":[{"code":"UNAUTHORIZED"}]}`
	}
	return reply(req, status, hdr, body)
}

func (m *model) serveToken(req *http.Request, form url.Values) *http.Response {
	realm := strings.TrimPrefix(req.URL.Path, "/")
	var svc, grant, user, rt string
	var raw []string
	pw := 0
	if req.Method == "POST" {
		svc = form.Get("service")
		grant = form.Get("grant_type")
		rt = form.Get("refresh_token")
		if form.Get("password") != "" {
			pw = 1
			user = form.Get("username")
		}
		raw = strings.Fields(form.Get("scope"))
	} else {
		q := req.URL.Query()
		svc = q.Get("service")
		raw = q["scope"]
	}
	if u, p, ok := req.BasicAuth(); ok {
		user = u
		if p != "" {
			pw = 1
		}
	}
	scopes := normScopes(raw)
	rtsvc := ""
	if rt != "" {
		rtsvc = "?"
		if s, ok := m.refresh[rt]; ok {
			rtsvc = s
		}
		for h := range m.scn.Hosts {
			if rt == idtOf(h) {
				rtsvc = svcOf(h)
			}
		}
	}
	h := strings.TrimPrefix(svc, "svc-")
	kind := "ok"
	if p := m.tsPos[h]; p < len(m.scn.TS[h]) {
		kind = m.scn.TS[h][p]
	}
	m.tsPos[h]++
	status, good, tid, rid, body := 200, 0, "", "", ""
	now := time.Now().UTC()
	switch kind {
	case "deny":
		status, body = 401, `{"errors":[{"code":"UNAUTHORIZED"}]}`
	case "empty":
		body = `{}`
	case "junk":
		body = `<html>try again later</html>`
	default:
		good = 1
		m.nTok++
		tid = fmt.Sprintf("tok-%d", m.nTok)
		gr, asked := map[pair]bool{}, map[pair]bool{}
		for _, p := range scopes {
			asked[p] = true
			if kind != "part" || p[1] == "pull" {
				gr[p] = true
			}
		}
		m.tokens[tid] = tokInfo{svc: svc, grants: gr, asked: asked}
		doc := map[string]any{"token": tid, "expires_in": 300, "issued_at": now.Format(time.RFC3339)}
		switch kind {
		case "okr":
			m.nRt++
			rid = fmt.Sprintf("rt-%d", m.nRt)
			m.refresh[rid] = svc
			doc["refresh_token"] = rid
		case "oka":
			delete(doc, "token")
			doc["access_token"] = tid
		case "okpast":
			doc["issued_at"] = now.Add(-2 * time.Hour).Format(time.RFC3339)
		case "okfut":
			doc["issued_at"] = now.Add(2 * time.Hour).Format(time.RFC3339)
		case "okshort":
			doc["expires_in"] = 1
		case "oknoiat":
			delete(doc, "issued_at")
			delete(doc, "expires_in")
		}
		b, _ := json.Marshal(doc)
		body = string(b)
	}
	m.events = append(m.events, vtrace.Event{"ev": "tok", "realm": realm, "svc": svc, "meth": req.Method,
		"grant": grant, "user": user, "pw": pw, "rt": rt, "rtsvc": rtsvc, "scopes": pairsJSON(scopes),
		"reply": kind, "status": status, "good": good, "tid": tid, "rid": rid})
	hdr := http.Header{}
	hdr.Set("Content-Type", "application/json")
	return reply(req, status, hdr, body)
}

// gate holds concurrent wire requests and releases them one at a time in a seeded order.  A wrong
// guess about "nothing else will arrive" only changes the order; it never decides a verdict.
type gate struct {
	mu      sync.Mutex
	pending []*waiter
	live    int
	rng     *rand.Rand
	wake    chan struct{}
	done    chan struct{}
}

type waiter struct {
	key string
	ch  chan struct{}
}

func (g *gate) poke() {
	select {
	case g.wake <- struct{}{}:
	default:
	}
}

func (g *gate) arrive(req *http.Request) {
	cid, _ := req.Context().Value(ctxKey{}).(int)
	w := &waiter{key: fmt.Sprintf("%04d %s %s", cid, req.Method, req.URL.Host), ch: make(chan struct{})}
	g.mu.Lock()
	g.pending = append(g.pending, w)
	g.mu.Unlock()
	g.poke()
	<-w.ch
}

func (g *gate) served() { g.done <- struct{}{} }

func (g *gate) finish() {
	g.mu.Lock()
	g.live--
	g.mu.Unlock()
	g.poke()
}

func (g *gate) run() {
	for {
		g.mu.Lock()
		n, live := len(g.pending), g.live
		g.mu.Unlock()
		if n == 0 {
			if live == 0 {
				return
			}
			<-g.wake
			continue
		}
		if n < live {
			select {
			case <-g.wake:
				continue
			case <-time.After(2 * time.Millisecond):
			}
		}
		g.mu.Lock()
		sort.Slice(g.pending, func(i, j int) bool { return g.pending[i].key < g.pending[j].key })
		i := g.rng.Intn(len(g.pending))
		w := g.pending[i]
		g.pending = append(g.pending[:i], g.pending[i+1:]...)
		g.mu.Unlock()
		close(w.ch)
		<-g.done
	}
}

func runScenario(s *scenario) *vtrace.Trace {
	m := &model{scn: s, rsPos: map[string]int{}, tsPos: map[string]int{}, tokens: map[string]tokInfo{},
		refresh: map[string]string{}}
	seq := 1
	if len(s.Threads) > 1 {
		seq = 0
		if s.Gate == 1 {
			m.g = &gate{live: len(s.Threads), rng: rand.New(rand.NewSource(s.SSeed)),
				wake: make(chan struct{}, 1), done: make(chan struct{})}
		}
	}
	hosts := make([]string, 0, len(s.Hosts))
	for h := range s.Hosts {
		hosts = append(hosts, h)
	}
	sort.Strings(hosts)
	confs := map[string]*config.Host{}
	for _, h := range hosts {
		c := config.HostNewName(h)
		c.TLS = config.TLSDisabled
		idt := ""
		user := ""
		switch s.Hosts[h] {
		case "userpass":
			c.User, c.Pass = userOf(h), passOf(h)
			user = userOf(h)
		case "idtoken":
			c.Token = idtOf(h)
			idt = idtOf(h)
		}
		confs[h] = c
		m.events = append(m.events, vtrace.Event{"ev": "host", "h": h, "svc": svcOf(h), "user": user,
			"cred": s.Hosts[h], "idt": idt})
	}
	cl := reghttp.NewClient(
		reghttp.WithConfigHostFn(func(name string) *config.Host {
			if c, ok := confs[name]; ok {
				return c
			}
			c := config.HostNewName(name)
			c.TLS = config.TLSDisabled
			return c
		}),
		reghttp.WithHTTPClient(&http.Client{Transport: m}),
		reghttp.WithDelay(time.Millisecond, 5*time.Millisecond),
		reghttp.WithRetryLimit(retryLim),
	)
	t0 := time.Now()
	var wg sync.WaitGroup
	if m.g != nil {
		go m.g.run()
	}
	for ti, th := range s.Threads {
		wg.Add(1)
		body := func(ti int, th []call) {
			defer wg.Done()
			if m.g != nil {
				defer m.g.finish()
			}
			for ci, c := range th {
				cid := (ti+1)*100 + ci + 1
				m.mu.Lock()
				m.events = append(m.events, vtrace.Event{"ev": "call", "c": cid, "h": c.H, "repo": c.Repo, "meth": c.Meth})
				m.mu.Unlock()
				ctx := context.WithValue(context.Background(), ctxKey{}, cid)
				resp, err := cl.Do(ctx, &reghttp.Req{Host: c.H, Method: c.Meth, Repository: c.Repo, Path: "manifests/latest"})
				res, es := "ok", ""
				if err != nil {
					res, es = "fail", err.Error()
				}
				if resp != nil && err == nil {
					_ = resp.Close()
				}
				m.mu.Lock()
				m.events = append(m.events, vtrace.Event{"ev": "end", "c": cid, "res": res, "err": es})
				m.mu.Unlock()
			}
		}
		if seq == 1 {
			body(ti, th)
		} else {
			go body(ti, th)
		}
	}
	wg.Wait()
	el := time.Since(t0)
	return &vtrace.Trace{ID: s.ID, Header: map[string]any{"seq": seq, "rl": retryLim}, Events: m.events,
		Meta: map[string]any{"elapsed_ms": el.Milliseconds()}}
}

func main() {
	in := flag.String("in", "", "scenarios (JSON lines)")
	out := flag.String("out", "", "traces (JSON lines)")
	flag.Parse()
	w, err := vtrace.NewWriter(*out)
	if err != nil {
		fmt.Fprintln(os.Stderr, err)
		os.Exit(2)
	}
	err = vtrace.ReadLines(*in, func(line []byte) error {
		var s scenario
		if err := json.Unmarshal(line, &s); err != nil {
			return err
		}
		done := make(chan *vtrace.Trace, 1)
		go func() { done <- runScenario(&s) }()
		select {
		case t := <-done:
			return w.Write(t)
		case <-time.After(60 * time.Second):
			return fmt.Errorf("scenario %s did not finish (driver stuck)", s.ID)
		}
	})
	if err == nil {
		err = w.Close()
	}
	if err != nil {
		fmt.Fprintln(os.Stderr, err)
		os.Exit(2)
	}
}

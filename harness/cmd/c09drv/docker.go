package main

// docker.go: Docker-save format archives (manifest.json + config + layer tar files), generated
// here from the catalogue records and imported with the real ImageImport.

import (
	"archive/tar"
	"bytes"
	"compress/gzip"
	"context"
	"encoding/json"
	"fmt"
	"os"
	"path"
	"strings"

	"github.com/regclient/regclient"
	"github.com/regclient/regclient/types/ref"
	"github.com/regclient/regclient/zzverif/vtrace"
)

// dkContent builds the bytes behind a content id of a Docker archive: ids starting with "CFG" are
// image configs, every other id is a layer (an uncompressed tar with one file).
func dkContent(gname, id string) []byte {
	if strings.HasPrefix(id, "CFG") {
		b, _ := json.Marshal(map[string]any{
			"architecture": "amd64", "os": "linux",
			"config": map[string]any{"Labels": map[string]string{"zzverif": gname + "/" + id}},
			"rootfs": map[string]any{"type": "layers", "diff_ids": []string{}},
		})
		return b
	}
	var buf bytes.Buffer
	tw := tar.NewWriter(&buf)
	body := []byte(fmt.Sprintf("layer %s/%s\n", gname, id))
	for i := 0; len(body) < 400; i++ {
		body = append(body, byte('a'+(i*5+len(id))%26))
	}
	_ = tw.WriteHeader(&tar.Header{Name: "file-" + id + ".txt", Typeflag: tar.TypeReg, Mode: 0o644, Size: int64(len(body)), Format: tar.FormatPAX})
	_, _ = tw.Write(body)
	_ = tw.Close()
	return buf.Bytes()
}

func gz(b []byte) []byte {
	var zb bytes.Buffer
	zw := gzip.NewWriter(&zb)
	_, _ = zw.Write(b)
	_ = zw.Close()
	return zb.Bytes()
}

// resolvePath follows links of the archive by the meaning they have in a tar file (symlink
// relative to its directory, hard link relative to the root) down to a regular file.
func resolvePath(entries []entry, p string) (string, bool) {
	byName := map[string]entry{}
	for _, e := range entries {
		byName[path.Clean(strings.Join(e.Name, "/"))] = e
	}
	cur := path.Clean(p)
	for i := 0; i < 8; i++ {
		e, ok := byName[cur]
		if !ok {
			return "", false
		}
		switch e.Kind {
		case "file":
			return e.C, true
		case "sym":
			ln := strings.Join(e.Ln, "/")
			if e.Abs {
				cur = path.Clean(ln)
			} else {
				cur = path.Clean(path.Join(path.Dir(cur), ln))
			}
		case "hard":
			cur = path.Clean(strings.Join(e.Ln, "/"))
		default:
			return "", false
		}
	}
	return "", false
}

func (d *driver) runDocker(key string, scns []*scenario) ([]*blockOut, error) {
	s0 := scns[0]
	c0 := d.cat[sidKey(s0.Sid)]
	b := &blockOut{Block: key, Kind: "docker", Traces: []*traceOut{}, Meta: map[string]any{"graph": c0.G}}
	// which manifest.json entry is asked for
	idx := 0
	if c0.Sel.By == "name" {
		idx = -1
		for i, de := range c0.Docker {
			for _, t := range de.Tags {
				if t == c0.Sel.V && idx < 0 {
					idx = i
				}
			}
		}
		if idx < 0 {
			return nil, fmt.Errorf("docker graph %s: name %s not in any RepoTags", c0.G, c0.Sel.V)
		}
	}
	// content: as stored in the archive (pool) and uncompressed (unc)
	pool, unc := map[string][]byte{}, map[string][]byte{}
	for _, en := range c0.Entries {
		if en.Kind != "file" || en.C == "docker" || en.C == "junk" {
			continue
		}
		u := dkContent(c0.G, en.C)
		unc[en.C] = u
		pool[en.C] = u
		if !strings.HasPrefix(en.C, "CFG") {
			z, err := compress(u, s0.DkComp)
			if err != nil {
				return nil, err
			}
			pool[en.C] = z
		}
	}
	type dm struct {
		Config       string
		RepoTags     []string
		Layers       []string
		LayerSources map[string]map[string]any `json:",omitempty"`
	}
	var dms []dm
	for _, de := range c0.Docker {
		m := dm{Config: strings.Join(de.Cfg, "/"), RepoTags: de.Tags, Layers: []string{}}
		for _, l := range de.Layers {
			m.Layers = append(m.Layers, strings.Join(l, "/"))
		}
		if s0.DkLS == 1 {
			// LayerSources as docker and regclient write it: descriptors of the layers as they would be
			// distributed, keyed by digest.  The keys are the digests of the gzip form of each layer (what
			// an importer that compresses with the standard gzip writer arrives at).
			m.LayerSources = map[string]map[string]any{}
			for _, l := range de.Layers {
				if id, ok := resolvePath(c0.Entries, strings.Join(l, "/")); ok {
					z := gz(unc[id])
					dg := "sha256:" + sha256hex(z)
					m.LayerSources[dg] = map[string]any{"mediaType": mtOCILayer, "digest": dg, "size": len(z)}
				}
			}
		}
		dms = append(dms, m)
	}
	pool["docker"], _ = json.Marshal(dms)
	// what the archive says the image is
	want := c0.Docker[idx]
	cfgID, ok := resolvePath(c0.Entries, strings.Join(want.Cfg, "/"))
	if !ok || cfgID != c0.DkWant.Cfg {
		return nil, fmt.Errorf("docker graph %s: config resolves to %q, catalogue says %q", c0.G, cfgID, c0.DkWant.Cfg)
	}
	kl := []string{}
	for i, l := range want.Layers {
		id, ok := resolvePath(c0.Entries, strings.Join(l, "/"))
		if !ok || i >= len(c0.DkWant.Layers) || id != c0.DkWant.Layers[i] {
			return nil, fmt.Errorf("docker graph %s: layer %d resolves to %q, catalogue says %v", c0.G, i+1, id, c0.DkWant.Layers)
		}
		kl = append(kl, sha256hex(unc[id]))
	}
	b.Lines = append(b.Lines, vtrace.Event{"ev": "dk_archive", "block": key, "cfg": sha256hex(unc[cfgID]), "layers": kl,
		"layercomp": s0.DkComp, "layersources": s0.DkLS, "images": len(c0.Docker)})
	idOf := map[string]string{}
	for id, u := range unc {
		idOf[sha256hex(u)] = id
	}

	for _, s := range scns {
		c := d.cat[sidKey(s.Sid)]
		t := &traceOut{ID: s.ID, Scn: s, Meta: map[string]any{}}
		t.Events = append(t.Events, vtrace.Event{"ev": "dk_begin", "id": s.ID})
		archive, err := repack(s.Arch, nil, pool, s.RComp, s.TarFmt)
		if err != nil {
			return nil, err
		}
		e := newEnv("default", s.TFeat, s.Chunk)
		d.nRepo++
		repo := fmt.Sprintf("tgt/r%06d", d.nRepo)
		var dir, rstr string
		if s.Tgt == "reg" {
			rstr = fmt.Sprintf("%s/%s:%s", tgtHost, repo, impTag)
		} else {
			dir = d.newDir("tgt")
			rstr = fmt.Sprintf("ocidir://%s:%s", dir, impTag)
		}
		rt, err := ref.New(rstr)
		if err != nil {
			return nil, err
		}
		var opts []regclient.ImageOpts
		if c.Sel.By == "name" {
			opts = append(opts, regclient.ImageWithImportName(c.Sel.V))
		}
		e.net.ResetLog()
		sk := &seekCounter{Reader: bytes.NewReader(archive)}
		ierr := e.rc.ImageImport(context.Background(), rt, sk, opts...)
		if s.Tgt == "dir" {
			_ = e.rc.Close(context.Background(), rt)
		}
		t.Events = append(t.Events, vtrace.Event{"ev": "dk_result", "id": s.ID, "ok": b2i(ierr == nil)})
		t.Meta["passes"] = sk.n
		if ierr != nil {
			t.Meta["err"] = ierr.Error()
		}
		var st *store
		if s.Tgt == "reg" {
			st = storeOfRepo(e.tgt, repo)
		} else {
			st, err = storeOfDir(dir)
			if err != nil {
				return nil, err
			}
		}
		name := func(dig string, body []byte) string {
			if body != nil {
				return "dkman"
			}
			if bb, ok := st.objs[dig]; ok {
				if u, _, err := gunzipIfNeeded(bb); err == nil {
					if id, ok := idOf[sha256hex(u)]; ok {
						return id
					}
				}
			}
			return "?" + dig
		}
		if s.Tgt == "reg" {
			t.Meta["pushes"] = pushesOf(e.net.Log(), repo, name)
		}
		found, gcfg, glayers := dockerTarget(st)
		t.Events = append(t.Events, vtrace.Event{"ev": "dk_target", "id": s.ID, "found": found, "cfg": gcfg, "layers": glayers, "skip": 0})
		if dir != "" {
			_ = os.RemoveAll(dir)
		} else {
			e.tgt.Lock()
			delete(e.tgt.Repos, repo)
			e.tgt.Unlock()
		}
		b.Traces = append(b.Traces, t)
	}
	return []*blockOut{b}, nil
}

// dockerTarget inspects the image the import tag resolves to in a raw target store: the sha256 of
// its config bytes and of every layer after decompression; found = manifest, config and layers exist.
func dockerTarget(st *store) (int, string, []string) {
	found, gcfg, glayers := 0, "", []string{}
	top, ok := st.tags[impTag]
	if !ok {
		return found, gcfg, glayers
	}
	var m struct {
		Config *jdesc  `json:"config"`
		Layers []jdesc `json:"layers"`
	}
	mb, ok := st.objs[top]
	if !ok || json.Unmarshal(mb, &m) != nil || m.Config == nil {
		return found, gcfg, glayers
	}
	found = 1
	if cb, ok := st.objs[m.Config.Digest]; ok {
		gcfg = sha256hex(cb)
	} else {
		found = 0
	}
	for _, l := range m.Layers {
		lb, ok := st.objs[l.Digest]
		if !ok {
			found = 0
			glayers = append(glayers, "absent")
			continue
		}
		u, _, err := gunzipIfNeeded(lb)
		if err != nil {
			glayers = append(glayers, "undecodable")
			continue
		}
		glayers = append(glayers, sha256hex(u))
	}
	return found, gcfg, glayers
}

// importDockerRest imports what is left of a single image export when oci-layout and index.json are
// taken away: a Docker format archive (manifest.json + blobs/...), selected by the plain name:tag of
// the export name.  The archive's own statement of the image (config, layers of manifest.json)
// is the expectation.
func (d *driver) importDockerRest(key string, g *graph, ex *export, pool map[string][]byte, scns []*scenario) *blockOut {
	b := &blockOut{Block: key + "#dkrest", Kind: "docker", Traces: []*traceOut{}, Meta: map[string]any{"graph": g.name, "name": ex.dockerName}}
	byName := map[string][]byte{}
	for _, en := range ex.entries {
		if en.typ == "file" {
			byName[en.name] = en.data
		}
	}
	kcfg, kl := "", []string{}
	var dm []struct {
		Config string
		Layers []string
	}
	if json.Unmarshal(pool["docker"], &dm) == nil && len(dm) > 0 {
		if cb, ok := byName[path.Clean(dm[0].Config)]; ok {
			kcfg = sha256hex(cb)
		}
		for _, l := range dm[0].Layers {
			lb, ok := byName[path.Clean(l)]
			if !ok {
				kl = append(kl, "not in the archive")
				continue
			}
			u, _, err := gunzipIfNeeded(lb)
			if err != nil {
				u = lb
			}
			kl = append(kl, sha256hex(u))
		}
	}
	b.Lines = append(b.Lines, vtrace.Event{"ev": "dk_archive", "block": b.Block, "cfg": kcfg, "layers": kl, "layercomp": "asexported", "layersources": 1, "images": len(dm)})
	for _, s := range scns {
		if ex.dockerName == "" {
			fail(fmt.Errorf("scenario %s: the Docker name of an export from a layout without override is not known", s.ID))
		}
		t := &traceOut{ID: s.ID, Scn: s, Meta: map[string]any{"name": ex.dockerName}}
		t.Events = append(t.Events, vtrace.Event{"ev": "dk_begin", "id": s.ID})
		archive, err := repack(s.Arch, g, pool, s.RComp, s.TarFmt)
		if err != nil {
			fail(err)
		}
		e := newEnv("default", s.TFeat, s.Chunk)
		d.nRepo++
		repo := fmt.Sprintf("tgt/r%06d", d.nRepo)
		var dir, rstr string
		if s.Tgt == "reg" {
			rstr = fmt.Sprintf("%s/%s:%s", tgtHost, repo, impTag)
		} else {
			dir = d.newDir("tgt")
			rstr = fmt.Sprintf("ocidir://%s:%s", dir, impTag)
		}
		rt, err := ref.New(rstr)
		if err != nil {
			fail(err)
		}
		e.net.ResetLog()
		sk := &seekCounter{Reader: bytes.NewReader(archive)}
		ierr := e.rc.ImageImport(context.Background(), rt, sk, regclient.ImageWithImportName(ex.dockerName))
		if s.Tgt == "dir" {
			_ = e.rc.Close(context.Background(), rt)
		}
		t.Events = append(t.Events, vtrace.Event{"ev": "dk_result", "id": s.ID, "ok": b2i(ierr == nil)})
		t.Meta["passes"] = sk.n
		if ierr != nil {
			t.Meta["err"] = ierr.Error()
		}
		var st *store
		if s.Tgt == "reg" {
			st = storeOfRepo(e.tgt, repo)
			t.Meta["pushes"] = pushesOf(e.net.Log(), repo, func(dig string, body []byte) string {
				if body != nil {
					return "dkman"
				}
				if n, ok := g.byDig[dig]; ok {
					return n
				}
				if bb, ok := st.objs[dig]; ok {
					if u, _, err := gunzipIfNeeded(bb); err == nil {
						if n, ok := g.byDig["sha256:"+sha256hex(u)]; ok {
							return n
						}
						if n, ok := g.byDig["sha512:"+sha512hex(u)]; ok {
							return n
						}
					}
				}
				return "?" + dig
			})
		} else {
			st, err = storeOfDir(dir)
			if err != nil {
				fail(err)
			}
		}
		found, gcfg, glayers := dockerTarget(st)
		t.Events = append(t.Events, vtrace.Event{"ev": "dk_target", "id": s.ID, "found": found, "cfg": gcfg, "layers": glayers, "skip": 0})
		if dir != "" {
			_ = os.RemoveAll(dir)
		} else {
			e.tgt.Lock()
			delete(e.tgt.Repos, repo)
			e.tgt.Unlock()
		}
		b.Traces = append(b.Traces, t)
	}
	return b
}

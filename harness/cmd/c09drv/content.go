package main

// content.go: concrete bytes for the abstract image graphs of spec/TarImportCat.tla.  Everything is
// built with encoding/json over plain maps and hashed with crypto/sha256; no regclient type is
// involved, so the byte strings and digests are an independent statement of what the source holds.

import (
	"crypto/sha256"
	"crypto/sha512"
	"encoding/hex"
	"encoding/json"
	"fmt"
	"os"
	"path/filepath"
	"strings"
)

const (
	mtOCIIndex  = "application/vnd.oci.image.index.v1+json"
	mtOCIMan    = "application/vnd.oci.image.manifest.v1+json"
	mtOCIConfig = "application/vnd.oci.image.config.v1+json"
	mtOCILayer  = "application/vnd.oci.image.layer.v1.tar+gzip"
	mtOCIEmpty  = "application/vnd.oci.empty.v1+json"
	mtDockList  = "application/vnd.docker.distribution.manifest.list.v2+json"
	mtDockMan   = "application/vnd.docker.distribution.manifest.v2+json"
	mtDockCfg   = "application/vnd.docker.container.image.v1+json"
	mtDockLayer = "application/vnd.docker.image.rootfs.diff.tar.gzip"
	mtUnknown   = "application/vnd.zzverif.unknown.v1"
	atArtifact  = "application/vnd.zzverif.sbom.v1"
)

func sha256hex(b []byte) string {
	s := sha256.Sum256(b)
	return hex.EncodeToString(s[:])
}

func sha512hex(b []byte) string {
	s := sha512.Sum512(b)
	return hex.EncodeToString(s[:])
}

type object struct {
	name  string
	raw   []byte
	dig   string // sha256:<hex>
	mt    string // media type of a manifest
	isMan bool
}

type graph struct {
	name  string
	objs  map[string]*object
	order []string          // children before parents
	byDig map[string]string // digest -> node name
}

func (o *object) alg() string { a, _, _ := strings.Cut(o.dig, ":"); return a }
func (o *object) hex() string { _, h, _ := strings.Cut(o.dig, ":"); return h }

func (g *graph) nameOf(dig string) string {
	if n, ok := g.byDig[dig]; ok {
		return n
	}
	return "?" + dig
}

func manifestMT(n nodeRec) string {
	switch {
	case n.K == "index" && n.F == "docker":
		return mtDockList
	case n.K == "index":
		return mtOCIIndex
	case n.F == "docker":
		return mtDockMan
	}
	return mtOCIMan
}

// buildGraph turns the node records of a catalogue entry into bytes, children first.
func buildGraph(gname string, nodes map[string]nodeRec) (*graph, error) {
	g := &graph{name: gname, objs: map[string]*object{}, byDig: map[string]string{}}
	var build func(name string, depth int) (*object, error)
	build = func(name string, depth int) (*object, error) {
		if o, ok := g.objs[name]; ok {
			return o, nil
		}
		n, ok := nodes[name]
		if !ok {
			return nil, fmt.Errorf("graph %s: unknown node %q", gname, name)
		}
		if depth > 8 {
			return nil, fmt.Errorf("graph %s: too deep at %q", gname, name)
		}
		o := &object{name: name}
		switch n.K {
		case "blob":
			switch n.A {
			case "empty":
				o.raw = []byte{}
			case "emptyjson":
				o.raw = []byte("{}")
			case "sha512":
				if name != "l5" {
					return nil, fmt.Errorf("graph %s: node %q: the catalogue addresses only node l5 by sha512", gname, name)
				}
				o.raw = []byte(fmt.Sprintf("blob %s/%s| addressed by sha512 %s", gname, name, strings.Repeat("z", 200)))
			case "cfg":
				o.raw, _ = json.Marshal(map[string]any{
					"architecture": "amd64", "os": "linux",
					"config": map[string]any{"Labels": map[string]string{"zzverif": gname + "/" + name}},
					"rootfs": map[string]any{"type": "layers", "diff_ids": []string{}},
				})
			default:
				b := []byte(fmt.Sprintf("blob %s/%s|", gname, name))
				for i := 0; len(b) < 300; i++ {
					b = append(b, byte('a'+(i*7+len(name))%26))
				}
				o.raw = b
			}
		case "image":
			cmt, lmt := mtOCIConfig, mtOCILayer
			if n.F == "docker" {
				cmt, lmt = mtDockCfg, mtDockLayer
			}
			m := map[string]any{"schemaVersion": 2, "mediaType": manifestMT(n)}
			layers := []any{}
			for i, k := range n.Kids {
				ko, err := build(k.N, depth+1)
				if err != nil {
					return nil, err
				}
				dsc := map[string]any{"digest": ko.dig, "size": len(ko.raw)}
				if i == 0 {
					dsc["mediaType"] = cmt
					if nodes[k.N].A == "emptyjson" {
						dsc["mediaType"] = mtOCIEmpty
					}
					m["config"] = dsc
					continue
				}
				dsc["mediaType"] = lmt
				if nodes[k.N].A == "emptyjson" {
					dsc["mediaType"] = mtOCIEmpty
				}
				switch k.T {
				case "ext":
					dsc["urls"] = []string{"https://ext.test/foreign/" + ko.hex()}
				case "inl":
					dsc["data"] = ko.raw // base64 by encoding/json
				}
				layers = append(layers, dsc)
			}
			m["layers"] = layers
			if n.A == "art" {
				m["artifactType"] = atArtifact
			} else if n.A != "" {
				m["annotations"] = map[string]string{"zzverif.variant": n.A}
			}
			if n.Subj != "" {
				so, err := build(n.Subj, depth+1)
				if err != nil {
					return nil, err
				}
				m["subject"] = map[string]any{"mediaType": so.mt, "digest": so.dig, "size": len(so.raw)}
			}
			o.raw, _ = json.Marshal(m)
			o.isMan, o.mt = true, manifestMT(n)
		case "index":
			m := map[string]any{"schemaVersion": 2, "mediaType": manifestMT(n)}
			entries := []any{}
			archs := []string{"amd64", "arm64", "ppc64le", "s390x"}
			for i, k := range n.Kids {
				ko, err := build(k.N, depth+1)
				if err != nil {
					return nil, err
				}
				dsc := map[string]any{"digest": ko.dig, "size": len(ko.raw)}
				switch k.T {
				case "man":
					dsc["mediaType"] = ko.mt
					if nodes[k.N].K == "image" {
						dsc["platform"] = map[string]any{"os": "linux", "architecture": archs[i%len(archs)]}
					}
				case "lay":
					dsc["mediaType"] = mtOCILayer
				default:
					dsc["mediaType"] = mtUnknown
				}
				entries = append(entries, dsc)
			}
			m["manifests"] = entries
			if n.A != "" {
				m["annotations"] = map[string]string{"zzverif.variant": n.A}
			}
			o.raw, _ = json.Marshal(m)
			o.isMan, o.mt = true, manifestMT(n)
		default:
			return nil, fmt.Errorf("graph %s: node %q has unknown kind %q", gname, name, n.K)
		}
		o.dig = "sha256:" + sha256hex(o.raw)
		if (n.K == "blob" && n.A == "sha512") || name == "m5" {
			// (catalogue convention Sha512Nodes: l5 and m5 are addressed by sha512)
			o.dig = "sha512:" + sha512hex(o.raw)
		}
		g.objs[name] = o
		g.order = append(g.order, name)
		if other, dup := g.byDig[o.dig]; dup && other != name {
			return nil, fmt.Errorf("graph %s: nodes %s and %s have the same content", gname, other, name)
		}
		g.byDig[o.dig] = name
		return o, nil
	}
	var names []string
	for n := range nodes {
		names = append(names, n)
	}
	sortStrings(names)
	for _, n := range names {
		if _, err := build(n, 0); err != nil {
			return nil, err
		}
	}
	return g, nil
}

func sortStrings(s []string) {
	for i := 1; i < len(s); i++ {
		for j := i; j > 0 && s[j] < s[j-1]; j-- {
			s[j], s[j-1] = s[j-1], s[j]
		}
	}
}

// writeLayout writes the graph as an OCI image layout directory with plain file operations.
func writeLayout(dir string, g *graph, roots []rootRec) error {
	if err := os.MkdirAll(filepath.Join(dir, "blobs", "sha256"), 0o755); err != nil {
		return err
	}
	for _, n := range g.order {
		o := g.objs[n]
		bd := filepath.Join(dir, "blobs", o.alg())
		if err := os.MkdirAll(bd, 0o755); err != nil {
			return err
		}
		if err := os.WriteFile(filepath.Join(bd, o.hex()), o.raw, 0o644); err != nil {
			return err
		}
	}
	ms := []any{}
	for _, r := range roots {
		o := g.objs[r.N]
		ms = append(ms, map[string]any{"mediaType": o.mt, "digest": o.dig, "size": len(o.raw),
			"annotations": map[string]string{"org.opencontainers.image.ref.name": r.Tag}})
	}
	idx, _ := json.Marshal(map[string]any{"schemaVersion": 2, "mediaType": mtOCIIndex, "manifests": ms})
	if err := os.WriteFile(filepath.Join(dir, "index.json"), idx, 0o644); err != nil {
		return err
	}
	return os.WriteFile(filepath.Join(dir, "oci-layout"), []byte(`{"imageLayoutVersion":"1.0.0"}`), 0o644)
}

package main

// tar.go: the independent reading (audit) and writing (re-pack) of archives with archive/tar.

import (
	"archive/tar"
	"bytes"
	"compress/gzip"
	"encoding/json"
	"fmt"
	"io"
	"path"
	"regexp"
	"strings"

	"github.com/regclient/regclient/pkg/archive"
	"github.com/regclient/regclient/zzverif/vtrace"
)

type tarEntry struct {
	name string // cleaned, slash separated
	typ  string // file | dir | sym | hard | other
	link string
	data []byte
}

func gunzipIfNeeded(b []byte) ([]byte, bool, error) {
	if len(b) >= 2 && b[0] == 0x1f && b[1] == 0x8b {
		zr, err := gzip.NewReader(bytes.NewReader(b))
		if err != nil {
			return nil, true, err
		}
		out, err := io.ReadAll(zr)
		return out, true, err
	}
	return b, false, nil
}

func readTar(stream []byte) ([]tarEntry, bool, error) {
	plain, gz, err := gunzipIfNeeded(stream)
	if err != nil {
		return nil, gz, err
	}
	var out []tarEntry
	tr := tar.NewReader(bytes.NewReader(plain))
	for {
		h, err := tr.Next()
		if err == io.EOF {
			return out, gz, nil
		}
		if err != nil {
			return out, gz, err
		}
		e := tarEntry{name: path.Clean(strings.ReplaceAll(h.Name, "\\", "/")), link: h.Linkname}
		switch h.Typeflag {
		case tar.TypeReg:
			e.typ = "file"
			e.data, err = io.ReadAll(tr)
			if err != nil {
				return out, gz, err
			}
			if int64(len(e.data)) != h.Size {
				return out, gz, fmt.Errorf("entry %s: header size %d, content %d", e.name, h.Size, len(e.data))
			}
		case tar.TypeDir:
			e.typ = "dir"
		case tar.TypeSymlink:
			e.typ = "sym"
		case tar.TypeLink:
			e.typ = "hard"
		default:
			e.typ = "other"
		}
		out = append(out, e)
	}
}

// reRepoTag is the shape docker accepts as a RepoTags entry: [host[:port]/]path:tag, no digest.
var reRepoTag = regexp.MustCompile(`^(?:[a-zA-Z0-9][a-zA-Z0-9.-]*(?::[0-9]+)?/)?[a-z0-9]+(?:(?:[._]|__|-+)[a-z0-9]+)*(?:/[a-z0-9]+(?:(?:[._]|__|-+)[a-z0-9]+)*)*:([A-Za-z0-9_][A-Za-z0-9._-]{0,127})$`)

// repoTagForm classifies a RepoTags entry syntactically and returns its tag part.
func repoTagForm(t string) (form, tag string) {
	if m := reRepoTag.FindStringSubmatch(t); m != nil {
		return "nametag", m[1]
	}
	if strings.Contains(t, "@") {
		return "digest", ""
	}
	return "invalid", ""
}

var reBlobPath = regexp.MustCompile(`^blobs/([a-z0-9]+)/([a-f0-9]+)$`)

// auditTar parses the stream written by ImageExport and states what it holds as one event.
func auditTar(stream []byte) (vtrace.Event, []tarEntry, error) {
	entries, gz, err := readTar(stream)
	names, types, alg, hexs, calc, shas := []string{}, []string{}, []string{}, []string{}, []string{}, []string{}
	ev := vtrace.Event{"ev": "tar", "gzip": b2i(gz), "layoutN": 0, "layoutV": "", "indexN": 0, "dockN": 0, "dcfg": ""}
	idigs, irefs, dlayers, dtags, dforms := []string{}, []string{}, []string{}, []string{}, []string{}
	for _, e := range entries {
		names = append(names, e.name)
		types = append(types, e.typ)
		a, h, c, s := "", "", "", ""
		if e.typ == "file" {
			s = sha256hex(e.data)
			if m := reBlobPath.FindStringSubmatch(e.name); m != nil {
				a, h = m[1], m[2]
				switch a {
				case "sha256":
					c = s
				case "sha512":
					c = sha512hex(e.data)
				default:
					c = "unsupported-algorithm"
				}
			}
			switch e.name {
			case "oci-layout":
				ev["layoutN"] = ev["layoutN"].(int) + 1
				var l struct {
					V string `json:"imageLayoutVersion"`
				}
				_ = json.Unmarshal(e.data, &l)
				ev["layoutV"] = l.V
			case "index.json":
				ev["indexN"] = ev["indexN"].(int) + 1
				var idx struct {
					Manifests []struct {
						Digest      string            `json:"digest"`
						Annotations map[string]string `json:"annotations"`
					} `json:"manifests"`
				}
				_ = json.Unmarshal(e.data, &idx)
				idigs, irefs = []string{}, []string{}
				for _, m := range idx.Manifests {
					idigs = append(idigs, m.Digest)
					irefs = append(irefs, m.Annotations["org.opencontainers.image.ref.name"])
				}
			case "manifest.json":
				var dm []struct {
					Config   string
					RepoTags []string
					Layers   []string
				}
				_ = json.Unmarshal(e.data, &dm)
				ev["dockN"] = len(dm)
				if len(dm) > 0 {
					ev["dcfg"] = path.Clean(dm[0].Config)
					dlayers, dtags, dforms = []string{}, []string{}, []string{}
					for _, l := range dm[0].Layers {
						dlayers = append(dlayers, path.Clean(l))
					}
					for _, t := range dm[0].RepoTags {
						form, tag := repoTagForm(t)
						dforms = append(dforms, form)
						dtags = append(dtags, tag)
					}
				}
			}
		}
		alg, hexs, calc, shas = append(alg, a), append(hexs, h), append(calc, c), append(shas, s)
	}
	ev["names"], ev["types"], ev["alg"], ev["hex"], ev["calc"], ev["sha"] = names, types, alg, hexs, calc, shas
	ev["idigs"], ev["irefs"], ev["dlayers"], ev["dtags"], ev["dforms"] = idigs, irefs, dlayers, dtags, dforms
	return ev, entries, err
}

// mergeExports gathers the content the re-packed archives are made of: everything comes out of
// the exported streams (the source is not consulted).  Keys: "layout", "index", "docker" and the
// digest names of the blobs.  With several exports (one per root of a multi image source) the
// index.json is the union of the exported ones, as another tool would write it.
func mergeExports(exports []*export) (map[string][]byte, error) {
	pool := map[string][]byte{}
	var descs []json.RawMessage
	for _, ex := range exports {
		for _, e := range ex.entries {
			if e.typ != "file" {
				continue
			}
			switch e.name {
			case "oci-layout":
				if _, ok := pool["layout"]; !ok {
					pool["layout"] = e.data
				}
			case "manifest.json":
				if _, ok := pool["docker"]; !ok {
					pool["docker"] = e.data
				}
			case "index.json":
				if len(exports) == 1 {
					pool["index"] = e.data
				}
				var idx struct {
					Manifests []json.RawMessage `json:"manifests"`
				}
				if err := json.Unmarshal(e.data, &idx); err != nil {
					return pool, fmt.Errorf("exported index.json: %w", err)
				}
				descs = append(descs, idx.Manifests...)
				if len(idx.Manifests) > 0 {
					ex.desc = idx.Manifests[0]
				}
			default:
				if m := reBlobPath.FindStringSubmatch(e.name); m != nil {
					pool[m[1]+":"+m[2]] = e.data
				}
			}
		}
	}
	if len(exports) > 1 {
		b, err := json.Marshal(map[string]any{"schemaVersion": 2, "mediaType": mtOCIIndex, "manifests": descs})
		if err != nil {
			return pool, err
		}
		pool["index"] = b
	}
	return pool, nil
}

var reNodeRef = regexp.MustCompile(`#([A-Za-z0-9]+)`)

// concrete turns a path of the model (segments, "#x" = hex digest of node x) into a string.
func concrete(segs []string, g *graph) string {
	s := strings.Join(segs, "/")
	if g == nil {
		return s
	}
	return reNodeRef.ReplaceAllStringFunc(s, func(m string) string {
		if o, ok := g.objs[m[1:]]; ok {
			return o.hex()
		}
		return m
	})
}

// contentOf resolves the content id of a model entry.
func contentOf(c string, g *graph, pool map[string][]byte) ([]byte, bool) {
	switch c {
	case "layout", "index", "docker":
		b, ok := pool[c]
		return b, ok
	case "junk":
		return []byte("superfluous entry\n"), true
	}
	if g != nil {
		if o, ok := g.objs[c]; ok {
			b, ok := pool[o.dig]
			return b, ok
		}
	}
	b, ok := pool[c]
	return b, ok
}

// repack writes the archive of a scenario.  An entry whose content the export did not deliver is
// left out (the archive then lacks what the export lacked).
func repack(arch []entry, g *graph, pool map[string][]byte, comp, tarfmt string) ([]byte, error) {
	var buf bytes.Buffer
	tw := tar.NewWriter(&buf)
	format := tar.FormatPAX
	switch tarfmt {
	case "gnu":
		format = tar.FormatGNU
	case "ustar":
		format = tar.FormatUSTAR
	}
	for _, e := range arch {
		name := concrete(e.Name, g)
		h := &tar.Header{Name: name, Mode: 0o644, Format: format}
		if format == tar.FormatUSTAR && (len(name) > 99 || len(concrete(e.Ln, g)) > 99) {
			h.Format = tar.FormatPAX // USTAR cannot hold the name of a sha512 blob
		}
		switch e.Kind {
		case "file":
			data, ok := contentOf(e.C, g, pool)
			if !ok {
				continue
			}
			h.Typeflag, h.Size = tar.TypeReg, int64(len(data))
			if err := tw.WriteHeader(h); err != nil {
				return nil, err
			}
			if _, err := tw.Write(data); err != nil {
				return nil, err
			}
			continue
		case "dir":
			h.Typeflag, h.Name, h.Mode = tar.TypeDir, name+"/", 0o755
		case "sym":
			h.Typeflag, h.Linkname = tar.TypeSymlink, concrete(e.Ln, g)
			if e.Abs {
				h.Linkname = "/" + h.Linkname
			}
		case "hard":
			h.Typeflag, h.Linkname = tar.TypeLink, concrete(e.Ln, g)
		default:
			return nil, fmt.Errorf("entry kind %q", e.Kind)
		}
		if err := tw.WriteHeader(h); err != nil {
			return nil, err
		}
	}
	if err := tw.Close(); err != nil {
		return nil, err
	}
	return compress(buf.Bytes(), comp)
}

// compress: gzip with the standard library; zstd and xz with the writers regclient ships in
// pkg/archive (the standard library has none; they only produce input here, nothing is judged by them).
func compress(b []byte, comp string) ([]byte, error) {
	var ct archive.CompressType
	switch comp {
	case "", "none":
		return b, nil
	case "gzip":
		var zb bytes.Buffer
		zw := gzip.NewWriter(&zb)
		if _, err := zw.Write(b); err != nil {
			return nil, err
		}
		if err := zw.Close(); err != nil {
			return nil, err
		}
		return zb.Bytes(), nil
	case "zstd":
		ct = archive.CompressZstd
	case "xz":
		ct = archive.CompressXz
	default:
		return nil, fmt.Errorf("compression %q", comp)
	}
	rc, err := archive.Compress(bytes.NewReader(b), ct)
	if err != nil {
		return nil, err
	}
	defer rc.Close()
	return io.ReadAll(rc)
}

// c09drv: driver for property C09 (export then import reproduces the image; the archive is a
// valid OCI layout).
//
// It only executes and records.  Input (JSON lines): the catalogue records ("cat") and the
// scenarios ("scn") emitted by the TLC generator spec/TarImportGen.tla, with endpoint pairing,
// gzip and naming parameters added by tools/props/c09.py.  For every export configuration
// (graph x source endpoint x gzip x export name override) the driver
//
//  1. builds the image graph as plain bytes (encoding/json + crypto/sha256, content.go) and puts
//     it into a model registry (simreg) or writes it as an OCI layout directory, never through
//     regclient;
//  2. scans that raw source store independently (objects, edges, tag)           -> event "src";
//  3. runs the real regclient.ImageExport and audits the stream with archive/tar -> event "tar",
//     "export";
//  4. per scenario re-packs the exported entries in the order / through the links / with the
//     compression chosen by TLC, runs the real regclient.ImageImport into a fresh repository of a
//     referentially strict model registry or a fresh layout directory, and scans the raw target
//     store                                          -> events "imp_begin", "imp_result", "imp_target".
//
// Docker-save format archives are generated here (docker.go) and imported the same way
// (events "dk_archive", "dk_begin", "dk_result", "dk_target").
//
// What the importer did that (P) does not care about (seeks to the start of the archive,
// order of accepted writes at the target, error text) goes into the trace's meta section, where
// the runner compares it with the prediction of the design spec (drift, never a verdict).
package main

import (
	"bytes"
	"context"
	"encoding/json"
	"flag"
	"fmt"
	"io"
	"log/slog"
	"net/http"
	"os"
	"path/filepath"
	"regexp"
	"sort"
	"strings"
	"time"

	"github.com/regclient/regclient"
	"github.com/regclient/regclient/config"
	"github.com/regclient/regclient/scheme/reg"
	"github.com/regclient/regclient/types/ref"
	"github.com/regclient/regclient/zzverif/simreg"
	"github.com/regclient/regclient/zzverif/vtrace"
)

// ---------------------------------------------------------------------------- input

type kid struct {
	N string `json:"n"`
	T string `json:"t"`
}

type nodeRec struct {
	K    string `json:"k"` // blob | image | index
	F    string `json:"f"` // oci | docker
	Kids []kid  `json:"kids"`
	A    string `json:"a"`
	Subj string `json:"subj"`
}

type rootRec struct {
	N   string `json:"n"`
	T   string `json:"t"`
	Tag string `json:"tag"`
	Ref string `json:"ref"` // value of the ref.name annotation in a hand-built index.json (default: the tag)
}

type dkEntry struct {
	Cfg    []string   `json:"cfg"`
	Layers [][]string `json:"layers"`
	Tags   []string   `json:"tags"`
}

type entry struct {
	Name []string `json:"name"`
	Kind string   `json:"kind"` // file | sym | hard | dir
	Ln   []string `json:"ln"`
	Abs  bool     `json:"abs"`
	C    string   `json:"c"`
}

type selRec struct {
	By  string `json:"by"`
	V   string `json:"v"`
	Pre string `json:"pre"` // none | blobs | all: what the target holds before the import
}

type catRec struct {
	Kind    string             `json:"kind"` // oci | docker
	G       string             `json:"g"`
	Lp      string             `json:"lp"`
	Sel     selRec             `json:"sel"`
	Nodes   map[string]nodeRec `json:"nodes"`
	Roots   []rootRec          `json:"roots"`
	Docker  []dkEntry          `json:"docker"`
	Entries []entry            `json:"entries"`
	Want    string             `json:"want"`
	DkWant  struct {
		Cfg    string   `json:"cfg"`
		Layers []string `json:"layers"`
	} `json:"dkwant"`
	Bad string `json:"bad"`
}

type pred struct {
	OK     bool     `json:"ok"`
	Passes int      `json:"passes"`
	Pushes []string `json:"pushes"`
	Err    string   `json:"err"`
}

type scenario struct {
	ID     string   `json:"id"`
	Sid    []string `json:"sid"`
	Arch   []entry  `json:"arch"` // empty: import the exported stream as it is
	Pred   *pred    `json:"pred,omitempty"`
	Src    string   `json:"src"`    // reg | dir
	Tgt    string   `json:"tgt"`    // reg | dir
	Gzip   int      `json:"gzip"`   // export with ImageWithExportCompress
	XRef   int      `json:"xref"`   // export under another name (ImageWithExportRef)
	XN     string   `json:"xn"`     // the export name carries: tag | dig | tagdig
	DkComp string   `json:"dkcomp"` // Docker-save archive: compression of the layer files none | gzip | zstd | xz
	DkLS   int      `json:"dkls"`   // Docker-save archive: manifest.json carries LayerSources
	SFeat  string   `json:"sfeat"`  // feature set of the source registry: default | minimal
	TFeat  string   `json:"tfeat"`  // feature set of the target registry: default | minimal
	Chunk  int      `json:"chunk"`  // 1: the client uploads blobs in small chunks (reg.WithBlobSize)
	RComp  string   `json:"rcomp"`  // compression of the re-packed archive: none | gzip | zstd | xz
	TarFmt string   `json:"tarfmt"` // header format of the re-packed archive: pax | gnu | ustar
	SPath  string   `json:"spath"`  // spelling of the directory of a layout source: plain | odd (a component ends with "_")
	Origin string   `json:"origin"` // which generator run made it
}

type inLine struct {
	Type string          `json:"type"` // cat | scn
	Sid  []string        `json:"sid,omitempty"`
	Cat  *catRec         `json:"cat,omitempty"`
	Scn  json.RawMessage `json:"scn,omitempty"`
}

// ---------------------------------------------------------------------------- output

type traceOut struct {
	ID     string         `json:"id"`
	Scn    *scenario      `json:"scn"`
	Events []vtrace.Event `json:"events"`
	Meta   map[string]any `json:"meta"`
}

type blockOut struct {
	Block  string         `json:"block"`
	Kind   string         `json:"kind"`
	Lines  []vtrace.Event `json:"lines"`
	Traces []*traceOut    `json:"traces"`
	Meta   map[string]any `json:"meta,omitempty"`
}

// ---------------------------------------------------------------------------- main

const (
	srcHost = "src.test"
	tgtHost = "tgt.test"
	impTag  = "imp"
)

type driver struct {
	scratch string
	cat     map[string]*catRec
	nDir    int
	nRepo   int
}

func sidKey(sid []string) string { return strings.Join(sid, "/") }

func main() {
	in := flag.String("in", "", "catalogue + scenarios (JSON lines)")
	out := flag.String("out", "", "blocks with traces (JSON lines)")
	scratch := flag.String("scratch", "", "directory for OCI layouts")
	flag.Parse()
	if *in == "" || *out == "" || *scratch == "" {
		fmt.Fprintln(os.Stderr, "usage: c09drv -in f -out f -scratch dir")
		os.Exit(2)
	}
	d := &driver{scratch: *scratch, cat: map[string]*catRec{}}
	// layout directories are named relative to the working directory when they lie below it: the name
	// ImageExport derives for a layout source (Ref.ToReg) then does not depend on the random name of the
	// scratch directory
	if cwd, err := os.Getwd(); err == nil {
		if rel, err := filepath.Rel(cwd, *scratch); err == nil && !strings.HasPrefix(rel, "..") && !filepath.IsAbs(rel) {
			d.scratch = rel
		}
	}
	var scns []*scenario
	err := vtrace.ReadLines(*in, func(line []byte) error {
		var l inLine
		if err := json.Unmarshal(line, &l); err != nil {
			return err
		}
		switch l.Type {
		case "cat":
			d.cat[sidKey(l.Sid)] = l.Cat
		case "scn":
			var s scenario
			if err := json.Unmarshal(l.Scn, &s); err != nil {
				return err
			}
			scns = append(scns, &s)
		default:
			return fmt.Errorf("unknown line type %q", l.Type)
		}
		return nil
	})
	if err != nil {
		fail(err)
	}
	// group by export configuration, in order of first appearance
	type group struct {
		key  string
		scns []*scenario
	}
	var groups []*group
	byKey := map[string]*group{}
	for _, s := range scns {
		c := d.cat[sidKey(s.Sid)]
		if c == nil {
			fail(fmt.Errorf("scenario %s: no catalogue record for %v", s.ID, s.Sid))
		}
		var key string
		dflt := func(p *string, v string) {
			if *p == "" {
				*p = v
			}
		}
		dflt(&s.XN, "tag")
		dflt(&s.DkComp, "none")
		dflt(&s.SFeat, "default")
		dflt(&s.TFeat, "default")
		dflt(&s.RComp, "none")
		dflt(&s.TarFmt, "pax")
		dflt(&s.SPath, "plain")
		if c.Kind == "docker" && c.Lp != "dkrest" {
			key = fmt.Sprintf("dk/%s/%s/%s/ls%d", c.G, c.Sel.By, s.DkComp, s.DkLS)
		} else {
			key = fmt.Sprintf("oci/%s/%s/%s/gz%d/x%d/%s/%s", c.G, s.Src, s.SFeat, s.Gzip, s.XRef, s.XN, s.SPath)
		}
		g := byKey[key]
		if g == nil {
			g = &group{key: key}
			byKey[key] = g
			groups = append(groups, g)
		}
		g.scns = append(g.scns, s)
	}
	f, err := os.Create(*out)
	if err != nil {
		fail(err)
	}
	enc := json.NewEncoder(f)
	stats := map[string]int{}
	for _, g := range groups {
		c := d.cat[sidKey(g.scns[0].Sid)]
		var blocks []*blockOut
		if c.Kind == "docker" && c.Lp != "dkrest" {
			blocks, err = d.runDocker(g.key, g.scns)
		} else {
			blocks, err = d.runOCI(g.key, g.scns)
		}
		if err != nil {
			fail(fmt.Errorf("group %s: %w", g.key, err))
		}
		for _, b := range blocks {
			stats["blocks"]++
			stats["traces"] += len(b.Traces)
			if err := enc.Encode(b); err != nil {
				fail(err)
			}
		}
	}
	if err := f.Close(); err != nil {
		fail(err)
	}
	b, _ := json.Marshal(stats)
	fmt.Println(string(b))
}

func fail(err error) {
	fmt.Fprintln(os.Stderr, "c09drv:", err)
	os.Exit(2)
}

// ---------------------------------------------------------------------------- environment

type env struct {
	net *simreg.Net
	src *simreg.Host
	tgt *simreg.Host
	rc  *regclient.RegClient
}

// features of a model registry: everything (default) or nothing optional (minimal: no referrers
// API, no digest header on HEAD / GET, no mount, no single request upload, no deletes).
func features(name string) simreg.Features {
	f := simreg.DefaultFeatures()
	if name == "minimal" {
		f.TagDelete, f.ManifestDelete, f.BlobDelete = false, false, false
		f.ReferrersAPI, f.HeadDigest, f.Mount, f.AnonBlobPOSTPut = false, false, false, false
	}
	return f
}

// newEnv: one client and its two model registries.  chunk = 1 makes the client upload every blob of
// more than 200 bytes in chunks of 128 bytes.
func newEnv(sfeat, tfeat string, chunk int) *env {
	e := &env{net: simreg.NewNet()}
	e.src = e.net.AddHost(srcHost, features(sfeat))
	e.tgt = e.net.AddHost(tgtHost, features(tfeat))
	e.tgt.Intercept = func(rq *simreg.Request) *simreg.Reply { return strictManifestPut(e.tgt, rq) }
	regOpts := []reg.Opts{reg.WithHTTPClient(&http.Client{Transport: e.net}), reg.WithDelay(time.Millisecond, 5*time.Millisecond)}
	if chunk == 1 {
		regOpts = append(regOpts, reg.WithBlobSize(128, 200))
	}
	e.rc = regclient.New(
		regclient.WithConfigHost(
			config.Host{Name: srcHost, Hostname: srcHost, TLS: config.TLSDisabled},
			config.Host{Name: tgtHost, Hostname: tgtHost, TLS: config.TLSDisabled}),
		regclient.WithRegOpts(regOpts...),
		regclient.WithSlog(slog.New(slog.NewTextHandler(io.Discard, nil))),
	)
	return e
}

// strictManifestPut makes the target a registry with referential integrity, as the distribution
// spec allows (MANIFEST_BLOB_UNKNOWN): a manifest is refused while a config, layer or index entry
// it names is absent from the repository.  Descriptors with urls (foreign layers) and the
// subject are exempt.  This is what turns a wrong order of pushes into a failed import.
func strictManifestPut(h *simreg.Host, rq *simreg.Request) *simreg.Reply {
	if rq.Class != "manifest_put" {
		return nil
	}
	var m struct {
		Config    *jdesc  `json:"config"`
		Layers    []jdesc `json:"layers"`
		Manifests []jdesc `json:"manifests"`
	}
	if json.Unmarshal(rq.Body, &m) != nil {
		return nil
	}
	var need []jdesc
	if m.Config != nil {
		need = append(need, *m.Config)
	}
	need = append(need, m.Layers...)
	need = append(need, m.Manifests...)
	h.Lock()
	defer h.Unlock()
	r := h.Repos[rq.Repo]
	for _, d := range need {
		if len(d.URLs) > 0 || d.Digest == "" {
			continue
		}
		ok := false
		if r != nil {
			_, b := r.Blobs[d.Digest]
			_, mm := r.Manifests[d.Digest]
			ok = b || mm
		}
		if !ok {
			body, _ := json.Marshal(map[string]any{"errors": []any{map[string]any{
				"code": "MANIFEST_BLOB_UNKNOWN", "message": "blob unknown to registry", "detail": d.Digest}}})
			return &simreg.Reply{Status: http.StatusBadRequest, Header: http.Header{"Content-Type": {"application/json"}}, Body: body}
		}
	}
	return nil
}

type jdesc struct {
	MediaType string   `json:"mediaType"`
	Digest    string   `json:"digest"`
	Size      int64    `json:"size"`
	URLs      []string `json:"urls"`
}

// seekCounter counts the seeks to the start of the archive (= passes of tarReadAll).
type seekCounter struct {
	*bytes.Reader
	n int
}

func (s *seekCounter) Seek(off int64, whence int) (int64, error) {
	if off == 0 && whence == io.SeekStart {
		s.n++
	}
	return s.Reader.Seek(off, whence)
}

// ---------------------------------------------------------------------------- raw stores

type rawObj struct {
	D   string // digest name
	Sha string // sha256 of the bytes
	A   string // algorithm named by D
	H   string // hash of the bytes computed with A
}

type rawEdge struct {
	P, C, Role string
	I          int
}

// store is the independent view of a repository or a layout: named byte strings and tags.
type store struct {
	objs map[string][]byte // digest -> bytes
	tags map[string]string
}

func storeOfRepo(h *simreg.Host, repo string) *store {
	s := &store{objs: map[string][]byte{}, tags: map[string]string{}}
	h.Lock()
	defer h.Unlock()
	r := h.Repos[repo]
	if r == nil {
		return s
	}
	for d, b := range r.Blobs {
		s.objs[d] = append([]byte(nil), b...)
	}
	for d, m := range r.Manifests {
		s.objs[d] = append([]byte(nil), m.Body...)
	}
	for t, d := range r.Tags {
		s.tags[t] = d
	}
	return s
}

// storeOfDir reads an OCI layout directory with os + encoding/json only.
func storeOfDir(dir string) (*store, error) {
	s := &store{objs: map[string][]byte{}, tags: map[string]string{}}
	algs, err := os.ReadDir(filepath.Join(dir, "blobs"))
	if err != nil && !os.IsNotExist(err) {
		return nil, err
	}
	for _, a := range algs {
		files, err := os.ReadDir(filepath.Join(dir, "blobs", a.Name()))
		if err != nil {
			return nil, err
		}
		for _, f := range files {
			b, err := os.ReadFile(filepath.Join(dir, "blobs", a.Name(), f.Name()))
			if err != nil {
				return nil, err
			}
			s.objs[a.Name()+":"+f.Name()] = b
		}
	}
	ib, err := os.ReadFile(filepath.Join(dir, "index.json"))
	if err != nil {
		if os.IsNotExist(err) {
			return s, nil
		}
		return nil, err
	}
	var idx struct {
		Manifests []struct {
			Digest      string            `json:"digest"`
			Annotations map[string]string `json:"annotations"`
		} `json:"manifests"`
	}
	if err := json.Unmarshal(ib, &idx); err != nil {
		return s, nil // an unreadable index names nothing
	}
	for _, m := range idx.Manifests {
		if t := m.Annotations["org.opencontainers.image.ref.name"]; t != "" {
			s.tags[t] = m.Digest
		}
	}
	return s, nil
}

func (s *store) objList() []rawObj {
	var out []rawObj
	for d, b := range s.objs {
		o := rawObj{D: d, Sha: sha256hex(b)}
		o.A, _, _ = strings.Cut(d, ":")
		switch o.A {
		case "sha256":
			o.H = o.Sha
		case "sha512":
			o.H = sha512hex(b)
		default:
			o.H = "unsupported-algorithm"
		}
		out = append(out, o)
	}
	sort.Slice(out, func(i, j int) bool { return out[i].D < out[j].D })
	return out
}

// edges parses every object that is JSON with manifest shape and lists its descriptors.
func (s *store) edges() []rawEdge {
	var out []rawEdge
	var ds []string
	for d := range s.objs {
		ds = append(ds, d)
	}
	sort.Strings(ds)
	for _, d := range ds {
		var m struct {
			SchemaVersion int     `json:"schemaVersion"`
			Config        *jdesc  `json:"config"`
			Layers        []jdesc `json:"layers"`
			Manifests     []jdesc `json:"manifests"`
		}
		if json.Unmarshal(s.objs[d], &m) != nil || m.SchemaVersion != 2 {
			continue
		}
		if m.Config != nil && m.Config.Digest != "" {
			out = append(out, rawEdge{P: d, C: m.Config.Digest, Role: "config", I: 1})
		}
		for i, l := range m.Layers {
			out = append(out, rawEdge{P: d, C: l.Digest, Role: "layer", I: i + 1})
		}
		for i, l := range m.Manifests {
			out = append(out, rawEdge{P: d, C: l.Digest, Role: "entry", I: i + 1})
		}
	}
	return out
}

// isSingleImage: the object is an image manifest with an image config (what docker can load).
func (s *store) isSingleImage(d string) bool {
	var m struct {
		MediaType    string  `json:"mediaType"`
		ArtifactType string  `json:"artifactType"`
		Config       *jdesc  `json:"config"`
		Manifests    []jdesc `json:"manifests"`
	}
	if json.Unmarshal(s.objs[d], &m) != nil || m.Config == nil || m.Manifests != nil || m.ArtifactType != "" {
		return false
	}
	return m.Config.MediaType == mtOCIConfig || m.Config.MediaType == mtDockCfg
}

func objEvent(ev vtrace.Event, objs []rawObj) {
	od, os, oa, oh := []string{}, []string{}, []string{}, []string{}
	for _, o := range objs {
		od, os, oa, oh = append(od, o.D), append(os, o.Sha), append(oa, o.A), append(oh, o.H)
	}
	ev["od"], ev["os"], ev["oa"], ev["oh"] = od, os, oa, oh
}

func b2i(b bool) int {
	if b {
		return 1
	}
	return 0
}

// ---------------------------------------------------------------------------- OCI round trip

func (d *driver) newDir(prefix string) string {
	d.nDir++
	p := filepath.Join(d.scratch, fmt.Sprintf("%s%05d", prefix, d.nDir))
	if err := os.MkdirAll(p, 0o755); err != nil {
		fail(err)
	}
	return p
}

// export is one audited run of ImageExport.
type export struct {
	root    rootRec
	top     string
	tag     string
	raw     []byte // the stream as written
	entries []tarEntry
	ok      bool
	desc    json.RawMessage // the descriptor of the exported index.json
	// dockerName is the name:tag a Docker format import of the archive selects the image by ("" unknown)
	dockerName string
}

func (d *driver) runOCI(key string, scns []*scenario) ([]*blockOut, error) {
	s0 := scns[0]
	c0 := d.cat[sidKey(s0.Sid)]
	g, err := buildGraph(c0.G, c0.Nodes)
	if err != nil {
		return nil, err
	}
	e := newEnv(s0.SFeat, "default", 0)
	srcRepo := "src/" + c0.G
	var srcDir string
	// place the whole graph (also what lies outside the exported closure) in the source
	if s0.Src == "reg" {
		for _, n := range g.order {
			o := g.objs[n]
			if o.isMan && o.alg() != "sha256" {
				// (PutManifest stores under sha256; a manifest addressed otherwise is placed directly)
				e.src.Repo(srcRepo)
				e.src.Lock()
				e.src.Repos[srcRepo].Manifests[o.dig] = simreg.Manifest{MediaType: o.mt, Body: append([]byte(nil), o.raw...)}
				e.src.Unlock()
			} else if o.isMan {
				e.src.PutManifest(srcRepo, "", o.mt, o.raw)
			} else {
				e.src.PutBlobAlg(srcRepo, o.alg(), o.raw)
			}
		}
		for _, r := range c0.Roots {
			o := g.objs[r.N]
			e.src.PutManifest(srcRepo, r.Tag, o.mt, o.raw)
		}
	} else {
		srcDir = d.newDir("src")
		if s0.SPath == "odd" {
			srcDir = d.newDir("src_") + "_"
			if err := os.MkdirAll(srcDir, 0o755); err != nil {
				return nil, err
			}
		}
		if err := writeLayout(srcDir, g, c0.Roots); err != nil {
			return nil, err
		}
	}
	scan := func() (*store, error) {
		if s0.Src == "reg" {
			return storeOfRepo(e.src, srcRepo), nil
		}
		return storeOfDir(srcDir)
	}
	var blocks []*blockOut
	var exports []*export
	for ri, root := range c0.Roots {
		st, err := scan()
		if err != nil {
			return nil, err
		}
		top := st.tags[root.Tag]
		if top != g.objs[root.N].dig {
			return nil, fmt.Errorf("source tag %s does not name %s", root.Tag, root.N)
		}
		b := &blockOut{Block: fmt.Sprintf("%s#%d", key, ri+1), Kind: "oci", Traces: []*traceOut{}, Meta: map[string]any{"graph": c0.G, "root": root.N, "srcpath": s0.SPath}}
		// the name the image is exported under carries a tag, a digest or both (xn); it is the source
		// reference, or the override given with ImageWithExportRef (the source is then named by tag)
		suffix := func(tag, xn string) string {
			switch xn {
			case "dig":
				return "@" + top
			case "tagdig":
				return ":" + tag + "@" + top
			}
			return ":" + tag
		}
		srcXN := s0.XN
		if s0.XRef == 1 {
			srcXN = "tag"
		}
		var rs ref.Ref
		if s0.Src == "reg" {
			rs, err = ref.New(fmt.Sprintf("%s/%s%s", srcHost, srcRepo, suffix(root.Tag, srcXN)))
		} else {
			rs, err = ref.New(fmt.Sprintf("ocidir://%s%s", srcDir, suffix(root.Tag, srcXN)))
		}
		if err != nil {
			return nil, err
		}
		xtag, xbase := root.Tag, srcHost+"/"+srcRepo
		var opts []regclient.ImageOpts
		if s0.Gzip == 1 {
			opts = append(opts, regclient.ImageWithExportCompress())
		}
		if s0.XRef == 1 {
			xtag, xbase = "ov-"+root.Tag, "registry.example.test/over/ride"
			xr, err := ref.New(xbase + suffix(xtag, s0.XN))
			if err != nil {
				return nil, err
			}
			opts = append(opts, regclient.ImageWithExportRef(xr))
		}
		// the plain name:tag docker knows the image by ("latest" when the export name has no tag, as the
		// documentation of ImageExport says); not predictable for a layout source without override
		dockerName := xbase + ":" + xtag
		if s0.XN == "dig" {
			xtag = ""
			dockerName = xbase + ":latest"
		}
		if s0.Src == "dir" && s0.XRef == 0 {
			dockerName = ""
		}
		src := vtrace.Event{"ev": "src", "block": b.Block, "top": top, "tag": xtag, "single": b2i(st.isSingleImage(top))}
		objEvent(src, st.objList())
		ep, ec, er, ei := []string{}, []string{}, []string{}, []int{}
		for _, ed := range st.edges() {
			ep, ec, er, ei = append(ep, ed.P), append(ec, ed.C), append(er, ed.Role), append(ei, ed.I)
		}
		src["ep"], src["ec"], src["er"], src["ei"] = ep, ec, er, ei
		b.Lines = append(b.Lines, src)

		var buf bytes.Buffer
		xerr := e.rc.ImageExport(context.Background(), rs, &buf, opts...)
		ex := &export{root: root, top: top, tag: xtag, raw: buf.Bytes(), ok: xerr == nil, dockerName: dockerName}
		tev, entries, aerr := auditTar(buf.Bytes())
		if aerr != nil && xerr == nil {
			// the stream of a successful export cannot be read as a tar archive: recorded as an
			// empty archive, which (P) rejects
			b.Meta["audit_error"] = aerr.Error()
		}
		ex.entries = entries
		// the entry order in the vocabulary of the model ("#x" = hex digest of node x), for the runner
		order := []string{}
		for _, en := range entries {
			nm := en.name
			if m := reBlobPath.FindStringSubmatch(nm); m != nil {
				if n, ok := g.byDig[m[1]+":"+m[2]]; ok {
					nm = "blobs/" + m[1] + "/#" + n
				}
			}
			order = append(order, nm)
		}
		b.Meta["order"] = order
		b.Lines = append(b.Lines, tev)
		xev := vtrace.Event{"ev": "export", "ok": b2i(xerr == nil), "skip": 0}
		if xerr != nil {
			b.Meta["export_error"] = xerr.Error()
		}
		b.Lines = append(b.Lines, xev)
		if s0.Src == "dir" {
			_ = e.rc.Close(context.Background(), rs)
		}
		exports = append(exports, ex)
		blocks = append(blocks, b)
	}
	// the imports follow the last export block (its src event covers the whole source store)
	last := blocks[len(blocks)-1]
	pool, err := mergeExports(exports)
	if err != nil {
		last.Meta["merge_error"] = err.Error()
	}
	var rest []*scenario
	for _, s := range scns {
		c := d.cat[sidKey(s.Sid)]
		if c.Lp == "dkrest" {
			rest = append(rest, s)
			continue
		}
		t := d.importOCI(newEnv("default", s.TFeat, s.Chunk), g, c, s, exports, pool)
		last.Traces = append(last.Traces, t)
	}
	if len(rest) > 0 {
		blocks = append(blocks, d.importDockerRest(key, g, exports[0], pool, rest))
	}
	return blocks, nil
}

// importOCI re-packs and imports one scenario.
func (d *driver) importOCI(e *env, g *graph, c *catRec, s *scenario, exports []*export, pool map[string][]byte) *traceOut {
	t := &traceOut{ID: s.ID, Scn: s, Meta: map[string]any{}}
	want := ""
	if o, ok := g.objs[c.Want]; ok {
		want = o.dig
	}
	begin := vtrace.Event{"ev": "imp_begin", "id": s.ID, "want": want, "req": "", "reqtag": "",
		"ids": []string{}, "refs": []string{}, "reftags": []string{}, "names": []string{}, "nametags": []string{}}
	var err error
	if len(c.Roots) > 1 {
		// an archive as another tool writes it: index.json with one entry per exported image, in the order and
		// with the ref.name annotations of the scenario; every descriptor comes out of a real export
		idx, facts, err := buildIndex(c.Roots, exports)
		if err != nil {
			fail(fmt.Errorf("scenario %s: %w", s.ID, err))
		}
		p2 := map[string][]byte{}
		for k, v := range pool {
			p2[k] = v
		}
		p2["index"] = idx
		pool = p2
		if c.Sel.By != "digest" {
			// selection by tag / name: what index.json says per entry goes into the trace, (P) decides
			// which digests the archive names with exactly the request
			for k, v := range facts {
				begin[k] = v
			}
			begin["want"], begin["req"], begin["reqtag"] = "", c.Sel.V, tagPart(c.Sel.V)
		}
	}
	t.Events = append(t.Events, begin)
	var archive []byte
	if len(s.Arch) == 0 {
		archive = exports[0].raw
	} else {
		archive, err = repack(s.Arch, g, pool, s.RComp, s.TarFmt)
		if err != nil {
			fail(fmt.Errorf("scenario %s: %w", s.ID, err))
		}
	}
	// target
	d.nRepo++
	repo := fmt.Sprintf("tgt/r%06d", d.nRepo)
	var dir string
	tag := impTag
	var rstr string
	var opts []regclient.ImageOpts
	switch c.Sel.By {
	case "tag", "default":
		tag = c.Sel.V
	case "name":
		opts = append(opts, regclient.ImageWithImportName(c.Sel.V))
	}
	if s.Tgt == "reg" {
		rstr = fmt.Sprintf("%s/%s:%s", tgtHost, repo, tag)
		if c.Sel.By == "default" {
			rstr = fmt.Sprintf("%s/%s", tgtHost, repo) // no tag: the default tag selects
		}
		if c.Sel.By == "digest" {
			rstr = fmt.Sprintf("%s/%s@%s", tgtHost, repo, g.objs[c.Sel.V].dig)
		}
	} else {
		dir = d.newDir("tgt")
		rstr = fmt.Sprintf("ocidir://%s:%s", dir, tag)
		if c.Sel.By == "default" {
			rstr = fmt.Sprintf("ocidir://%s", dir)
		}
		if c.Sel.By == "digest" {
			rstr = fmt.Sprintf("ocidir://%s@%s", dir, g.objs[c.Sel.V].dig)
		}
	}
	rt, err := ref.New(rstr)
	if err != nil {
		fail(err)
	}
	// the tag exists already and names something else
	if c.Sel.Pre == "stale" {
		stale := &object{name: "stale", isMan: true, mt: mtOCIIndex,
			raw: []byte(`{"schemaVersion":2,"mediaType":"` + mtOCIIndex + `","manifests":[],"annotations":{"zzverif":"stale"}}`)}
		stale.dig = "sha256:" + sha256hex(stale.raw)
		if s.Tgt == "reg" {
			e.tgt.PutManifest(repo, tag, stale.mt, stale.raw)
		} else {
			sub := &graph{name: g.name, objs: map[string]*object{"stale": stale}, order: []string{"stale"}}
			if err := writeLayout(dir, sub, []rootRec{{N: "stale", Tag: tag}}); err != nil {
				fail(err)
			}
		}
	}
	// a target that is not empty: the blobs (and manifests) of the image are placed there directly
	if c.Sel.Pre == "blobs" || c.Sel.Pre == "all" {
		sub := &graph{name: g.name, objs: map[string]*object{}, byDig: g.byDig}
		for _, n := range closureOf(c.Nodes, c.Want) {
			o := g.objs[n]
			if o.isMan && c.Sel.Pre != "all" {
				continue
			}
			sub.objs[n] = o
			sub.order = append(sub.order, n)
			if s.Tgt == "reg" {
				if o.isMan && o.alg() != "sha256" {
					e.tgt.Repo(repo)
					e.tgt.Lock()
					e.tgt.Repos[repo].Manifests[o.dig] = simreg.Manifest{MediaType: o.mt, Body: append([]byte(nil), o.raw...)}
					e.tgt.Unlock()
				} else if o.isMan {
					e.tgt.PutManifest(repo, "", o.mt, o.raw)
				} else {
					e.tgt.PutBlobAlg(repo, o.alg(), o.raw)
				}
			}
		}
		if s.Tgt == "dir" {
			if err := writeLayout(dir, sub, nil); err != nil {
				fail(err)
			}
		}
	}
	e.net.ResetLog()
	sk := &seekCounter{Reader: bytes.NewReader(archive)}
	ierr := e.rc.ImageImport(context.Background(), rt, sk, opts...)
	if s.Tgt == "dir" {
		_ = e.rc.Close(context.Background(), rt)
	}
	t.Events = append(t.Events, vtrace.Event{"ev": "imp_result", "id": s.ID, "ok": b2i(ierr == nil)})
	t.Meta["passes"] = sk.n
	if ierr != nil {
		t.Meta["err"] = ierr.Error()
	}
	// what reached the target
	var st *store
	if s.Tgt == "reg" {
		st = storeOfRepo(e.tgt, repo)
		t.Meta["pushes"] = pushesOf(e.net.Log(), repo, func(dig string, body []byte) string {
			if n, ok := g.byDig[dig]; ok {
				return n
			}
			// the Docker fall-back re-compresses layers: name the blob by what it decompresses to
			if bb, ok := st.objs[dig]; ok {
				if u, _, err := gunzipIfNeeded(bb); err == nil {
					if n, ok := g.byDig["sha256:"+sha256hex(u)]; ok {
						return n
					}
					if n, ok := g.byDig["sha512:"+sha512hex(u)]; ok {
						return n
					}
				}
			}
			return "?" + dig
		})
	} else {
		st, err = storeOfDir(dir)
		if err != nil {
			fail(err)
		}
	}
	top := st.tags[tag]
	if c.Sel.By == "digest" {
		// imported by digest: nothing is tagged; the target names the digest when it holds it
		top = ""
		if _, ok := st.objs[g.objs[c.Sel.V].dig]; ok {
			top = g.objs[c.Sel.V].dig
		}
	}
	tev := vtrace.Event{"ev": "imp_target", "id": s.ID, "top": top, "skip": 0}
	objEvent(tev, st.objList())
	t.Events = append(t.Events, tev)
	if dir != "" {
		_ = os.RemoveAll(dir)
	} else {
		// keep the model registry small
		e.tgt.Lock()
		delete(e.tgt.Repos, repo)
		e.tgt.Unlock()
	}
	return t
}

// tagPart is the tag of a full image name ("registry/repo:tag", "repo:tag"), "" for a bare tag.
func tagPart(name string) string {
	i := strings.LastIndex(name, ":")
	if i < 0 || i < strings.LastIndex(name, "/") {
		return ""
	}
	return name[i+1:]
}

// buildIndex writes an index.json with one entry per root, in the given order.  The descriptors are the ones
// the real exports wrote; only the ref.name annotation is replaced when the scenario asks for another value.
// It also returns what the file says per entry (digest, the two name annotations and their tag parts).
func buildIndex(roots []rootRec, exports []*export) ([]byte, map[string][]string, error) {
	facts := map[string][]string{"ids": {}, "refs": {}, "reftags": {}, "names": {}, "nametags": {}}
	var descs []any
	for _, r := range roots {
		var ex *export
		// (one export per root: the same node may be exported under several tags)
		for _, x := range exports {
			if x.root.N == r.N && (ex == nil || x.root.Tag == r.Tag) {
				ex = x
			}
		}
		if ex == nil || ex.desc == nil {
			return nil, nil, fmt.Errorf("no exported descriptor for root %s", r.N)
		}
		var dsc map[string]any
		if err := json.Unmarshal(ex.desc, &dsc); err != nil {
			return nil, nil, err
		}
		ann, _ := dsc["annotations"].(map[string]any)
		if ann == nil {
			ann = map[string]any{}
			dsc["annotations"] = ann
		}
		if r.Ref != "" && r.Ref != r.Tag {
			ann["org.opencontainers.image.ref.name"] = r.Ref
		}
		refName, _ := ann["org.opencontainers.image.ref.name"].(string)
		imgName, _ := ann["io.containerd.image.name"].(string)
		dig, _ := dsc["digest"].(string)
		facts["ids"] = append(facts["ids"], dig)
		facts["refs"] = append(facts["refs"], refName)
		facts["reftags"] = append(facts["reftags"], tagPart(refName))
		facts["names"] = append(facts["names"], imgName)
		facts["nametags"] = append(facts["nametags"], tagPart(imgName))
		descs = append(descs, dsc)
	}
	b, err := json.Marshal(map[string]any{"schemaVersion": 2, "mediaType": mtOCIIndex, "manifests": descs})
	return b, facts, err
}

// closureOf lists the nodes reachable from n (n included), in a fixed order.
func closureOf(nodes map[string]nodeRec, n string) []string {
	seen := map[string]bool{}
	var out []string
	var walk func(x string)
	walk = func(x string) {
		if seen[x] {
			return
		}
		seen[x] = true
		for _, k := range nodes[x].Kids {
			walk(k.N)
		}
		out = append(out, x)
	}
	walk(n)
	return out
}

var reFallbackTag = regexp.MustCompile(`^sha(256|512)-[0-9a-f]{64,128}`)

// pushesOf lists the accepted writes of one repository in serving order.
func pushesOf(log []*simreg.Request, repo string, name func(dig string, body []byte) string) []string {
	out := []string{}
	for _, rq := range log {
		if rq.Repo != repo || rq.Status != http.StatusCreated {
			continue
		}
		switch rq.Class {
		case "upload_put", "upload_post":
			dig := rq.Query.Get("digest")
			if dig == "" {
				dig = rq.RespHeader.Get("Docker-Content-Digest")
			}
			out = append(out, "b:"+name(dig, nil))
		case "manifest_put":
			dig := rq.RespHeader.Get("Docker-Content-Digest")
			if rq.IsTag && reFallbackTag.MatchString(rq.Ref) {
				continue // referrers fall-back tag kept by the client for a manifest with a subject
			}
			if rq.IsTag {
				out = append(out, "t:"+name(dig, rq.Body))
			} else {
				out = append(out, "m:"+name(dig, rq.Body))
			}
		}
	}
	return out
}

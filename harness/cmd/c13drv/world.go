package main

// Worlds: where the source image lives and where the modified image goes. Registries are model
// registries (zzverif/simreg, in process), layouts are plain directories written and read here with
// os / encoding/json only. A store is the auditor's raw view of one repository.

import (
	"encoding/json"
	"fmt"
	"io"
	"log/slog"
	"net/http"
	"os"
	"path/filepath"
	"sort"
	"strings"
	"time"

	"github.com/regclient/regclient"
	"github.com/regclient/regclient/config"
	"github.com/regclient/regclient/scheme/reg"
	"github.com/regclient/regclient/zzverif/simreg"
)

type store interface {
	get(dig string) ([]byte, bool)
	tag(t string) (string, bool)
	tags() map[string]string
	digests() []string // every stored object
	isManifest(dig string) bool
}

// ---- registry repository

type regStore struct {
	h    *simreg.Host
	repo string
}

func (s *regStore) r() *simreg.Repo {
	return s.h.Repos[s.repo]
}

func (s *regStore) get(dig string) ([]byte, bool) {
	s.h.Lock()
	defer s.h.Unlock()
	r := s.r()
	if r == nil {
		return nil, false
	}
	if m, ok := r.Manifests[dig]; ok {
		return append([]byte(nil), m.Body...), true
	}
	if b, ok := r.Blobs[dig]; ok {
		return append([]byte(nil), b...), true
	}
	return nil, false
}

func (s *regStore) tag(t string) (string, bool) {
	s.h.Lock()
	defer s.h.Unlock()
	r := s.r()
	if r == nil {
		return "", false
	}
	d, ok := r.Tags[t]
	return d, ok
}

func (s *regStore) tags() map[string]string {
	s.h.Lock()
	defer s.h.Unlock()
	out := map[string]string{}
	if r := s.r(); r != nil {
		for t, d := range r.Tags {
			out[t] = d
		}
	}
	return out
}

func (s *regStore) digests() []string {
	s.h.Lock()
	defer s.h.Unlock()
	out := []string{}
	if r := s.r(); r != nil {
		for d := range r.Manifests {
			out = append(out, d)
		}
		for d := range r.Blobs {
			if _, dup := r.Manifests[d]; !dup {
				out = append(out, d)
			}
		}
	}
	sort.Strings(out)
	return out
}

func (s *regStore) isManifest(dig string) bool {
	s.h.Lock()
	defer s.h.Unlock()
	if r := s.r(); r != nil {
		_, ok := r.Manifests[dig]
		return ok
	}
	return false
}

// ---- OCI layout directory

type dirStore struct{ dir string }

func (s *dirStore) file(dig string) string {
	alg, hx, ok := strings.Cut(dig, ":")
	if !ok || strings.ContainsAny(hx, "/.") || strings.ContainsAny(alg, "/.") {
		return filepath.Join(s.dir, "blobs", "invalid", "invalid")
	}
	return filepath.Join(s.dir, "blobs", alg, hx)
}

func (s *dirStore) get(dig string) ([]byte, bool) {
	b, err := os.ReadFile(s.file(dig))
	if err != nil {
		return nil, false
	}
	return b, true
}

func (s *dirStore) tags() map[string]string {
	out := map[string]string{}
	b, err := os.ReadFile(filepath.Join(s.dir, "index.json"))
	if err != nil {
		return out
	}
	var idx struct {
		Manifests []struct {
			Digest      string            `json:"digest"`
			Annotations map[string]string `json:"annotations"`
		} `json:"manifests"`
	}
	if json.Unmarshal(b, &idx) != nil {
		return out
	}
	for _, m := range idx.Manifests {
		if t := m.Annotations["org.opencontainers.image.ref.name"]; t != "" {
			out[t] = m.Digest
		}
	}
	return out
}

func (s *dirStore) tag(t string) (string, bool) {
	d, ok := s.tags()[t]
	return d, ok
}

func (s *dirStore) digests() []string {
	out := []string{}
	algs, _ := os.ReadDir(filepath.Join(s.dir, "blobs"))
	for _, a := range algs {
		fs, _ := os.ReadDir(filepath.Join(s.dir, "blobs", a.Name()))
		for _, f := range fs {
			out = append(out, a.Name()+":"+f.Name())
		}
	}
	sort.Strings(out)
	return out
}

func (s *dirStore) isManifest(dig string) bool {
	b, ok := s.get(dig)
	if !ok {
		return false
	}
	var m struct {
		SchemaVersion int             `json:"schemaVersion"`
		Manifests     json.RawMessage `json:"manifests"`
		Layers        json.RawMessage `json:"layers"`
	}
	return json.Unmarshal(b, &m) == nil && m.SchemaVersion == 2 && (m.Manifests != nil || m.Layers != nil)
}

// ---- populating

// putReg writes the image into the model registry's state directly. fallback: also write the referrers of
// every subject as an index under the fall-back tag (for hosts without the referrers API).
func putReg(h *simreg.Host, repo string, b *built, tag string, fallback bool) {
	h.Repo(repo)
	h.Lock()
	defer h.Unlock()
	r := h.Repos[repo]
	for _, d := range b.Order {
		o := b.Objs[d]
		if o.IsMa {
			r.Manifests[d] = simreg.Manifest{MediaType: o.MT, Body: append([]byte(nil), o.Raw...)}
		} else {
			r.Blobs[d] = append([]byte(nil), o.Raw...)
		}
	}
	if tag != "" {
		r.Tags[tag] = b.Root
	}
	if fallback {
		for s, rl := range b.Refs {
			l := []any{}
			for _, e := range rl {
				l = append(l, e)
			}
			rb := mustJSON(map[string]any{"schemaVersion": 2, "mediaType": mtOCIIndex, "manifests": l})
			rd := digOf("sha256", rb)
			r.Manifests[rd] = simreg.Manifest{MediaType: mtOCIIndex, Body: rb}
			r.Tags[fallbackTag(s)] = rd
		}
	}
}

// putDir adds the image to a layout directory (creating it when needed) by hand.
func putDir(dir string, b *built, tag string) error {
	for _, a := range []string{"sha256", b.Alg} {
		if err := os.MkdirAll(filepath.Join(dir, "blobs", a), 0o777); err != nil {
			return err
		}
	}
	if err := os.WriteFile(filepath.Join(dir, "oci-layout"), []byte(`{"imageLayoutVersion":"1.0.0"}`), 0o666); err != nil {
		return err
	}
	for _, d := range b.Order {
		o := b.Objs[d]
		if err := os.WriteFile(filepath.Join(dir, "blobs", b.Alg, strings.TrimPrefix(d, b.Alg+":")), o.Raw, 0o666); err != nil {
			return err
		}
	}
	idx := map[string]any{"schemaVersion": 2, "mediaType": mtOCIIndex, "manifests": []any{}}
	if old, err := os.ReadFile(filepath.Join(dir, "index.json")); err == nil {
		_ = json.Unmarshal(old, &idx)
	}
	ms, _ := idx["manifests"].([]any)
	o := b.Objs[b.Root]
	e := desc(o.MT, o.Dig, len(o.Raw))
	e["annotations"] = map[string]string{"org.opencontainers.image.ref.name": tag}
	ms = append(ms, e)
	// referrers: fall-back tag <alg>-<hex> naming an index of the referrer descriptors
	subs := []string{}
	for s := range b.Refs {
		subs = append(subs, s)
	}
	sort.Strings(subs)
	for _, s := range subs {
		rl := []any{}
		for _, r := range b.Refs[s] {
			rl = append(rl, r)
		}
		rb := mustJSON(map[string]any{"schemaVersion": 2, "mediaType": mtOCIIndex, "manifests": rl})
		rd := digOf("sha256", rb)
		if err := os.WriteFile(filepath.Join(dir, "blobs", "sha256", strings.TrimPrefix(rd, "sha256:")), rb, 0o666); err != nil {
			return err
		}
		re := desc(mtOCIIndex, rd, len(rb))
		re["annotations"] = map[string]string{"org.opencontainers.image.ref.name": fallbackTag(s)}
		ms = append(ms, re)
	}
	idx["manifests"] = ms
	return os.WriteFile(filepath.Join(dir, "index.json"), mustJSON(idx), 0o666)
}

// ---- world

const (
	hostSrc  = "src.test"
	hostTgt  = "tgt.test"
	repoSrc  = "proj/app"
	repoOut  = "proj/out"
	repoBase = "lib/base"
	srcTag   = "v1"
	outTag   = "out"
)

type world struct {
	net      *simreg.Net
	rc       *regclient.RegClient
	src, tgt store
	refSrc   string // source reference (by tag)
	refTgt   string // "" = Apply's default (same repository, by digest)
	refOld   string
	refNew   string
	same     bool   // source and target are the same repository
	replace  bool   // the target is the source tag
	tgtTag   string // tag the result is expected under ("" = by digest only)
	tgtIsDir bool
	tgtRepo  string
	tgtHost  *simreg.Host
}

func newWorld(sc *scenario, img, bOld, bNew *built, scratch string) (*world, error) {
	w := &world{net: simreg.NewNet()}
	feat := simreg.DefaultFeatures()
	switch sc.Feat {
	case "", "default":
	case "noref": // no referrers API: regclient falls back to the tag scheme
		feat.ReferrersAPI = false
	case "nomount": // no cross repository mount, no single request upload
		feat.Mount = false
		feat.AnonBlobPOSTPut = false
	case "nohead": // no Docker-Content-Digest header
		feat.HeadDigest = false
	default:
		return nil, fmt.Errorf("unknown feature set %q", sc.Feat)
	}
	hs := w.net.AddHost(hostSrc, feat)
	ht := w.net.AddHost(hostTgt, feat)
	fb := !feat.ReferrersAPI
	srcDir := filepath.Join(scratch, "src")
	outDir := filepath.Join(scratch, "out")
	baseDir := sc.baseDir
	srcIsDir := strings.HasPrefix(sc.Place, "dir")
	if srcIsDir {
		if err := putDir(srcDir, img, srcTag); err != nil {
			return nil, err
		}
		if err := putDir(baseDir, bOld, "old"); err != nil {
			return nil, err
		}
		if err := putDir(baseDir, bNew, "new"); err != nil {
			return nil, err
		}
		w.src = &dirStore{srcDir}
		w.refSrc = "ocidir://" + srcDir + ":" + srcTag
		w.refOld = "ocidir://" + baseDir + ":old"
		w.refNew = "ocidir://" + baseDir + ":new"
	} else {
		putReg(hs, repoSrc, img, srcTag, fb)
		putReg(hs, repoBase, bOld, "old", fb)
		putReg(hs, repoBase, bNew, "new", fb)
		w.src = &regStore{hs, repoSrc}
		w.refSrc = hostSrc + "/" + repoSrc + ":" + srcTag
		w.refOld = hostSrc + "/" + repoBase + ":old"
		w.refNew = hostSrc + "/" + repoBase + ":new"
	}
	tgtBase := ""
	switch sc.Place {
	case "reg-same":
		w.same, w.tgt, tgtBase = true, w.src, hostSrc+"/"+repoSrc
		w.tgtHost, w.tgtRepo = hs, repoSrc
	case "reg-cross":
		w.tgt, tgtBase = &regStore{hs, repoOut}, hostSrc+"/"+repoOut
		w.tgtHost, w.tgtRepo = hs, repoOut
	case "reg-xhost", "dir2reg":
		w.tgt, tgtBase = &regStore{ht, repoOut}, hostTgt+"/"+repoOut
		w.tgtHost, w.tgtRepo = ht, repoOut
	case "dir-same":
		w.same, w.tgt, tgtBase, w.tgtIsDir = true, w.src, "ocidir://"+srcDir, true
	case "dir-cross", "reg2dir":
		w.tgt, tgtBase, w.tgtIsDir = &dirStore{outDir}, "ocidir://"+outDir, true
	default:
		return nil, fmt.Errorf("unknown placement %q", sc.Place)
	}
	// the target may already hold the source image under another tag (blobs and manifests present)
	if sc.Pre == 1 && !w.same {
		if w.tgtIsDir {
			if err := putDir(outDir, img, "old"); err != nil {
				return nil, err
			}
		} else {
			putReg(w.tgtHost, w.tgtRepo, img, "old", fb)
		}
	}
	// the source may be named by digest instead of by tag
	if sc.SrcRef == "digest" && sc.Tgt == "replace" {
		return nil, fmt.Errorf("source by digest cannot be replaced")
	}
	if sc.SrcRef == "digest" {
		if srcIsDir {
			w.refSrc = "ocidir://" + srcDir + "@" + img.Root
		} else {
			w.refSrc = hostSrc + "/" + repoSrc + "@" + img.Root
		}
	}
	switch {
	case w.same && sc.Tgt == "digest":
		w.refTgt, w.tgtTag = "", ""
	case w.same && sc.Tgt == "replace":
		w.refTgt, w.tgtTag, w.replace = w.refSrc, srcTag, true
	default:
		w.refTgt, w.tgtTag = tgtBase+":"+outTag, outTag
	}
	hosts := []config.Host{}
	for _, hn := range []string{hostSrc, hostTgt} {
		hosts = append(hosts, config.Host{Name: hn, Hostname: hn, TLS: config.TLSDisabled})
	}
	w.rc = regclient.New(
		regclient.WithConfigHost(hosts...),
		regclient.WithRegOpts(reg.WithHTTPClient(&http.Client{Transport: w.net}), reg.WithDelay(time.Millisecond, 4*time.Millisecond)),
		regclient.WithSlog(slog.New(slog.NewTextHandler(io.Discard, nil))),
	)
	return w, nil
}

package main

// The catalogue: small images built by hand (archive/tar, compress/gzip, zstd, encoding/json,
// crypto/sha256 - nothing of regclient) from a parameter record chosen by the scenario.

import (
	"archive/tar"
	"bytes"
	"compress/gzip"
	"crypto/sha256"
	"crypto/sha512"
	"encoding/hex"
	"encoding/json"
	"fmt"
	"strings"
	"time"

	"github.com/klauspost/compress/zstd"
)

const (
	mtOCIManifest    = "application/vnd.oci.image.manifest.v1+json"
	mtOCIIndex       = "application/vnd.oci.image.index.v1+json"
	mtOCIConfig      = "application/vnd.oci.image.config.v1+json"
	mtOCILayer       = "application/vnd.oci.image.layer.v1.tar"
	mtOCIForeignGzip = "application/vnd.oci.image.layer.nondistributable.v1.tar+gzip"
	mtOCIEmpty       = "application/vnd.oci.empty.v1+json"
	mtDockerManifest = "application/vnd.docker.distribution.manifest.v2+json"
	mtDockerList     = "application/vnd.docker.distribution.manifest.list.v2+json"
	mtDockerConfig   = "application/vnd.docker.container.image.v1+json"
	mtDockerLayer    = "application/vnd.docker.image.rootfs.diff.tar"
	mtDockerForeign  = "application/vnd.docker.image.rootfs.foreign.diff.tar.gzip"
	mtInToto         = "application/vnd.in-toto+json"
	mtSBOM           = "application/vnd.example.sbom.v1+json"
)

// imgSpec selects one catalogue image.
type imgSpec struct {
	N     int    `json:"n"`     // layers 1..3
	Hist  string `json:"hist"`  // history pattern over {L,E}; number of L = N ("" = no history at all)
	Comp  string `json:"comp"`  // gzip | zstd | none | mixed
	MT    string `json:"mt"`    // oci | docker
	Shape string `json:"shape"` // image | index | attest   (attest = index with docker reference type entries)
	Refs  int    `json:"refs"`  // 1: OCI referrers (subject) point at the image / the index and its first child
	Data  int    `json:"data"`  // 1: descriptors of config, first layer (and index children) carry inline data
	Ext   int    `json:"ext"`   // 1: the first layer is a foreign layer with external urls (blob present at the source)
	Alg   string `json:"alg"`   // digest algorithm of every digest of the source: "" = sha256 | sha512
	Base  int    `json:"base"`  // 1: OCI manifests carry the base image annotations (name = the new base, digest = the old one)
	UT    int    `json:"ut"`    // 1: uniform time: every time stamp of the image (tar headers, nested tar, config, history) is 2020-01-01T00:00:00Z
	Ser   string `json:"ser"`   // how the layers were serialised: "" = Go defaults | alt = gzip best speed with a header name, zstd fastest, tar with extra end padding

	baseName, baseDigest string // filled in by the driver for Base = 1
}

type blobT struct {
	Dig  string
	Raw  []byte
	IsMa bool   // manifest
	MT   string // media type for manifests
}

// built is the concrete image with everything it needs.
type built struct {
	Alg   string            // digest algorithm
	Order []string          // digests, children first
	Objs  map[string]*blobT // digest -> object
	Root  string
	Refs  map[string][]map[string]any // subject digest -> referrer descriptors (for the layout fall-back tag)
}

func shaHex(b []byte) string {
	s := sha256.Sum256(b)
	return hex.EncodeToString(s[:])
}

func digOf(alg string, b []byte) string {
	if alg == "sha512" {
		s := sha512.Sum512(b)
		return "sha512:" + hex.EncodeToString(s[:])
	}
	return "sha256:" + shaHex(b)
}

func (b *built) add(raw []byte, isMan bool, mt string) string {
	d := digOf(b.Alg, raw)
	if _, ok := b.Objs[d]; !ok {
		b.Objs[d] = &blobT{Dig: d, Raw: raw, IsMa: isMan, MT: mt}
		b.Order = append(b.Order, d)
	}
	return d
}

var t2020 = time.Date(2020, 1, 1, 0, 0, 0, 0, time.UTC)

type tfile struct {
	Name string
	Body string
	Dir  bool
	PAX  bool
}

// mkTar writes a deterministic tar: owner names set (so that the reproducible option has work),
// mtimes in January 2020, one PAX entry with access / change times.
func mkTar(files []tfile, day int) []byte {
	var buf bytes.Buffer
	tw := tar.NewWriter(&buf)
	mt := t2020.AddDate(0, 0, day)
	uniform := day < 0 // every time of every entry is t2020
	if uniform {
		mt = t2020
	}
	for _, f := range files {
		h := &tar.Header{Name: f.Name, Mode: 0o644, ModTime: mt, Uname: "root", Gname: "root", Uid: 0, Gid: 0}
		if f.Dir {
			h.Typeflag = tar.TypeDir
			h.Mode = 0o755
		} else {
			h.Typeflag = tar.TypeReg
			h.Size = int64(len(f.Body))
		}
		if f.PAX {
			h.Format = tar.FormatPAX
			h.AccessTime = mt.Add(time.Hour)
			h.ChangeTime = mt.Add(2 * time.Hour)
			if uniform {
				h.AccessTime, h.ChangeTime = mt, mt
			}
		}
		if err := tw.WriteHeader(h); err != nil {
			panic(err)
		}
		if !f.Dir {
			_, _ = tw.Write([]byte(f.Body))
		}
	}
	_ = tw.Close()
	return buf.Bytes()
}

// layerTar: every entry of layer <tag><i> lives below the directory <tag><i>/ so that stripping
// that directory empties the layer; <tag><i>/marker identifies the layer to the audit.
func layerTar(sp imgSpec, tag string, i int, arch string) []byte {
	d := fmt.Sprintf("%s%d", tag, i)
	innerDay, day := 20, i
	if sp.UT == 1 {
		innerDay, day = -1, -1
	}
	inner := mkTar([]tfile{{Name: "in.txt", Body: "inner " + d}}, innerDay)
	fs := []tfile{
		{Name: d + "/", Dir: true},
		{Name: d + "/marker", Body: strings.ToUpper(d)},
		{Name: d + "/data.txt", Body: strings.Repeat(fmt.Sprintf("data of %s for %s\n", d, arch), 4), PAX: true},
		{Name: d + "/shared.txt", Body: "shared " + d},
	}
	if i == 1 {
		fs = append(fs, tfile{Name: d + "/inner.tar", Body: string(inner)})
	}
	t := mkTar(fs, day)
	if sp.Ser == "alt" {
		t = append(t, make([]byte, 1024)...) // more end-of-archive padding than Go writes: still the same archive
	}
	return t
}

func addTar() []byte {
	return mkTar([]tfile{{Name: "add/", Dir: true}, {Name: "add/marker", Body: "NEW"}, {Name: "add/file.txt", Body: "added content"}}, 9)
}

func compress(kind string, b []byte, ser string) []byte {
	switch kind {
	case "gzip":
		var buf bytes.Buffer
		w := gzip.NewWriter(&buf)
		if ser == "alt" {
			w, _ = gzip.NewWriterLevel(&buf, gzip.BestSpeed)
			w.Header.Name = "layer.tar"
		}
		_, _ = w.Write(b)
		_ = w.Close()
		return buf.Bytes()
	case "zstd":
		var buf bytes.Buffer
		lvl := zstd.SpeedDefault
		if ser == "alt" {
			lvl = zstd.SpeedFastest
		}
		w, err := zstd.NewWriter(&buf, zstd.WithEncoderLevel(lvl))
		if err != nil {
			panic(err)
		}
		_, _ = w.Write(b)
		_ = w.Close()
		return buf.Bytes()
	}
	return b
}

func layerMT(family, comp string) string {
	base := mtOCILayer
	sep := "+"
	if family == "docker" {
		base = mtDockerLayer
		sep = "."
	}
	switch comp {
	case "gzip":
		return base + sep + "gzip"
	case "zstd":
		return base + sep + "zstd"
	}
	return base
}

func compOf(spec string, i int) string {
	if spec == "mixed" {
		return []string{"gzip", "zstd", "none"}[(i-1)%3]
	}
	return spec
}

func mustJSON(v any) []byte {
	b, err := json.Marshal(v)
	if err != nil {
		panic(err)
	}
	return b
}

func desc(mt, dig string, size int) map[string]any {
	return map[string]any{"mediaType": mt, "digest": dig, "size": size}
}

// oneImage builds config + layers + manifest for one platform. tag names the layer family ("l" the
// image proper, "n" the new base image); hist is the L/E pattern; first is the index of the first
// layer (so that a base image can share layer 1 of the image).
func (b *built) oneImage(sp imgSpec, tag string, n int, hist, arch string, annotations map[string]string) string {
	family := sp.MT
	layers := []any{}
	diffs := []string{}
	for i := 1; i <= n; i++ {
		tarb := layerTar(sp, tag, i, arch)
		c := compOf(sp.Comp, i)
		ext := sp.Ext == 1 && i == 1 && tag == "l"
		if ext {
			c = "gzip"
		}
		raw := compress(c, tarb, sp.Ser)
		d := b.add(raw, false, "")
		ld := desc(layerMT(family, c), d, len(raw))
		if ext {
			ld["mediaType"] = mtOCIForeignGzip
			if family == "docker" {
				ld["mediaType"] = mtDockerForeign
			}
			ld["urls"] = []string{"https://ext.test/blobs/" + d}
		}
		if sp.Data == 1 && i == 1 {
			ld["data"] = raw // []byte marshals as base64
		}
		layers = append(layers, ld)
		diffs = append(diffs, digOf(b.Alg, tarb))
	}
	history := []any{}
	li, ei := 0, 0
	for k, ch := range hist {
		created := t2020.AddDate(0, 0, k).Format(time.RFC3339)
		if sp.UT == 1 {
			created = t2020.Format(time.RFC3339)
		}
		if ch == 'L' {
			li++
			history = append(history, map[string]any{"created": created, "created_by": fmt.Sprintf("ADD %s%d", strings.ToUpper(tag), li)})
		} else {
			ei++
			history = append(history, map[string]any{"created": created, "created_by": fmt.Sprintf("ARG a%d", ei), "empty_layer": true})
		}
	}
	cfg := map[string]any{
		"created":      t2020.AddDate(0, 1-sp.UT, 0).Format(time.RFC3339),
		"architecture": arch,
		"os":           "linux",
		"config": map[string]any{
			"Env":          []string{"PATH=/bin", "E1=v1"},
			"Cmd":          []string{"/bin/app"},
			"Entrypoint":   []string{"/entry"},
			"ExposedPorts": map[string]any{"8080/tcp": map[string]any{}},
			"Volumes":      map[string]any{"/data": map[string]any{}},
			"Labels":       map[string]string{"keep": "v", "stamp": "2019-06-01T00:00:00Z"},
		},
		"rootfs": map[string]any{"type": "layers", "diff_ids": diffs},
	}
	if hist != "" {
		cfg["history"] = history
	}
	cb := mustJSON(cfg)
	cd := b.add(cb, false, "")
	cmt, mmt := mtOCIConfig, mtOCIManifest
	if family == "docker" {
		cmt, mmt = mtDockerConfig, mtDockerManifest
	}
	cdesc := desc(cmt, cd, len(cb))
	if sp.Data == 1 {
		cdesc["data"] = cb
	}
	man := map[string]any{"schemaVersion": 2, "mediaType": mmt, "config": cdesc, "layers": layers}
	if len(annotations) > 0 && family != "docker" {
		man["annotations"] = annotations
	}
	mb := mustJSON(man)
	return b.add(mb, true, mmt)
}

// referrer builds an OCI artifact with a subject.
func (b *built) referrer(subject string, name string) {
	sub := b.Objs[subject]
	payload := []byte("sbom for " + name)
	pd := b.add(payload, false, "")
	ed := b.add([]byte("{}"), false, "")
	man := map[string]any{
		"schemaVersion": 2, "mediaType": mtOCIManifest, "artifactType": mtSBOM,
		"config":      desc(mtOCIEmpty, ed, 2),
		"layers":      []any{desc(mtSBOM, pd, len(payload))},
		"subject":     desc(sub.MT, sub.Dig, len(sub.Raw)),
		"annotations": map[string]string{"ref.for": name},
	}
	mb := mustJSON(man)
	d := b.add(mb, true, mtOCIManifest)
	rd := desc(mtOCIManifest, d, len(mb))
	rd["artifactType"] = mtSBOM
	rd["annotations"] = map[string]string{"ref.for": name}
	b.Refs[subject] = append(b.Refs[subject], rd)
}

// attestation builds a buildkit style attestation manifest (image config of an unknown platform,
// one in-toto layer) that the index ties to its image with docker reference annotations.
func (b *built) attestation(forDig string) string {
	payload := []byte(`{"_type":"https://in-toto.io/Statement/v0.1","subject":"` + forDig + `"}`)
	pd := b.add(payload, false, "")
	cfg := map[string]any{"architecture": "unknown", "os": "unknown",
		"rootfs": map[string]any{"type": "layers", "diff_ids": []string{pd}}}
	cb := mustJSON(cfg)
	cd := b.add(cb, false, "")
	man := map[string]any{"schemaVersion": 2, "mediaType": mtOCIManifest,
		"config": desc(mtOCIConfig, cd, len(cb)),
		"layers": []any{desc(mtInToto, pd, len(payload))}}
	mb := mustJSON(man)
	return b.add(mb, true, mtOCIManifest)
}

var archs = []string{"amd64", "arm64"}

func newBuilt(sp imgSpec) *built {
	alg := sp.Alg
	if alg == "" {
		alg = "sha256"
	}
	return &built{Alg: alg, Objs: map[string]*blobT{}, Refs: map[string][]map[string]any{}}
}

func (sp imgSpec) annos(m map[string]string) map[string]string {
	if sp.Base == 1 {
		m["org.opencontainers.image.base.name"] = sp.baseName
		m["org.opencontainers.image.base.digest"] = sp.baseDigest
	}
	return m
}

func buildImage(sp imgSpec) *built {
	b := newBuilt(sp)
	if sp.Shape == "image" {
		b.Root = b.oneImage(sp, "l", sp.N, sp.Hist, "amd64", sp.annos(map[string]string{"keep.anno": "v"}))
		if sp.Refs == 1 {
			b.referrer(b.Root, "image")
		}
		return b
	}
	imt, mmt := mtOCIIndex, mtOCIManifest
	if sp.MT == "docker" {
		imt, mmt = mtDockerList, mtDockerManifest
	}
	entries := []any{}
	kids := []string{}
	for _, a := range archs {
		d := b.oneImage(sp, "l", sp.N, sp.Hist, a, sp.annos(map[string]string{"keep.anno": "v", "common.anno": "c"}))
		kids = append(kids, d)
		e := desc(mmt, d, len(b.Objs[d].Raw))
		e["platform"] = map[string]any{"architecture": a, "os": "linux"}
		if sp.Data == 1 {
			e["data"] = b.Objs[d].Raw
		}
		entries = append(entries, e)
	}
	if sp.Shape == "attest" {
		for _, k := range kids {
			d := b.attestation(k)
			e := desc(mtOCIManifest, d, len(b.Objs[d].Raw))
			e["platform"] = map[string]any{"architecture": "unknown", "os": "unknown"}
			e["annotations"] = map[string]string{"vnd.docker.reference.type": "attestation-manifest", "vnd.docker.reference.digest": k}
			entries = append(entries, e)
		}
	}
	idx := map[string]any{"schemaVersion": 2, "mediaType": imt, "manifests": entries}
	if sp.MT != "docker" {
		idx["annotations"] = sp.annos(map[string]string{"keep.anno": "v"})
	}
	ib := mustJSON(idx)
	b.Root = b.add(ib, true, imt)
	if sp.Refs == 1 {
		b.referrer(b.Root, "index")
		b.referrer(kids[0], "child")
	}
	return b
}

// buildBases returns the old base (layer 1 of the image and the history prefix up to it) and the
// new base (two layers N1 N2 with one empty entry between them) for the rebase option.
func buildBases(sp imgSpec) (old, nw *built) {
	old = newBuilt(sp)
	nw = newBuilt(sp)
	prefix := ""
	for _, ch := range sp.Hist {
		prefix += string(ch)
		if ch == 'L' {
			break
		}
	}
	s := sp
	s.Ext, s.Data = 0, 0
	if sp.Shape == "image" {
		old.Root = old.oneImage(s, "l", 1, prefix, "amd64", nil)
		nw.Root = nw.oneImage(s, "n", 2, "LEL", "amd64", nil)
		return
	}
	// multi platform bases
	for _, bb := range []struct {
		b    *built
		tag  string
		n    int
		hist string
	}{{old, "l", 1, prefix}, {nw, "n", 2, "LEL"}} {
		imt, mmt := mtOCIIndex, mtOCIManifest
		if sp.MT == "docker" {
			imt, mmt = mtDockerList, mtDockerManifest
		}
		entries := []any{}
		for _, a := range archs {
			d := bb.b.oneImage(s, bb.tag, bb.n, bb.hist, a, nil)
			e := desc(mmt, d, len(bb.b.Objs[d].Raw))
			e["platform"] = map[string]any{"architecture": a, "os": "linux"}
			entries = append(entries, e)
		}
		ib := mustJSON(map[string]any{"schemaVersion": 2, "mediaType": imt, "manifests": entries})
		bb.b.Root = bb.b.add(ib, true, imt)
	}
	return
}

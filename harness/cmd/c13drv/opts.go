package main

// Option programs: the scenario names each option by kind and small parameters; here they are
// turned into real mod.Opts values (fresh for every Apply, readers are consumed).

import (
	"bytes"
	"compress/bzip2"
	"encoding/base64"
	"fmt"
	"io"
	"os"
	"path/filepath"
	"regexp"
	"sync"
	"testing/iotest"
	"time"

	"github.com/ulikunitz/xz"

	"github.com/opencontainers/go-digest"

	"github.com/regclient/regclient/mod"
	"github.com/regclient/regclient/pkg/archive"
	"github.com/regclient/regclient/types/platform"
	"github.com/regclient/regclient/types/ref"
)

type optSpec struct {
	K string `json:"k"`
	A string `json:"a,omitempty"`
	V string `json:"v,omitempty"`
	I int    `json:"i,omitempty"`
	F string `json:"f,omitempty"` // form of the stream handed to the option (WithLayerAddTar): see addInput
}

// Forms of the stream handed to WithLayerAddTar (the documented input is a tar stream):
//
//	""          the plain tar of addTar()
//	gzip, zstd, xz, bzip2  that tar already compressed (every format archive.Decompress recognises)
//	gzipalt     gzip best speed with a header name (the gzip other tools write)
//	empty       a tar without entries (two zero blocks)
//	notrailer   the tar without its end-of-archive blocks
//
// and how the reader delivers it (scenario field rdr): "" a bytes.Reader, "plain" a bare io.Reader that
// returns one byte per call, "file" an *os.File as regctl --layer-add tar=... passes, "pipe" the read end of an
// io.Pipe fed in small chunks as regctl --layer-add dir=... passes.
const addTarBz2 = "QlpoOTFBWSZTWRnQy4IAAJb/kMuAAEBAAf+AAgEFhG8vnkAEAAQYMAC5sGUgAAAAANDIRqjanqAABoAAAEUojEyA9Q0aGgAB4XvXZnih/O2GmoEZS1Us5imGxrctOGdqQIVhC/jDIwImtgELt2+ptYQsgaLggZm26cIizBGG6CaKKVEQOBUb5GYQKu8ZK9gi9+MrRzEu47gIShxO/eqWX/fGwWAWYQNDaVFsFallClme8kfi7kinChIDOhlwQA=="

var (
	addInputOnce sync.Once
	addInputs    map[string][]byte
)

func addInput(form string) ([]byte, error) {
	addInputOnce.Do(func() {
		t := addTar()
		m := map[string][]byte{"": t, "gzip": compress("gzip", t, ""), "gzipalt": compress("gzip", t, "alt"), "zstd": compress("zstd", t, ""),
			"empty": make([]byte, 1024), "notrailer": t[:len(t)-1024]}
		var buf bytes.Buffer
		if xw, err := xz.NewWriter(&buf); err == nil {
			_, _ = xw.Write(t)
			if xw.Close() == nil {
				m["xz"] = append([]byte{}, buf.Bytes()...)
			}
		}
		if bz, err := base64.StdEncoding.DecodeString(addTarBz2); err == nil {
			// (the standard library has no bzip2 writer: the stream was made with python's bz2 from addTar() and is
			// checked here against it)
			if back, err := io.ReadAll(bzip2.NewReader(bytes.NewReader(bz))); err == nil && bytes.Equal(back, t) {
				m["bzip2"] = bz
			}
		}
		addInputs = m
	})
	b, ok := addInputs[form]
	if !ok {
		return nil, fmt.Errorf("input form %q of the added layer is not available", form)
	}
	return b, nil
}

// knownInput: the streams this driver hands in, by sha256, so that the audit can name the added layer also when
// what is under its compression is not a tar with a marker file.
func knownInput(uc []byte) bool {
	_, _ = addInput("")
	h := shaHex(uc)
	for _, b := range addInputs {
		if shaHex(b) == h {
			return true
		}
	}
	return false
}

func addReader(form, kind, scratch string, n int, cleanup *[]func()) (io.Reader, error) {
	b, err := addInput(form)
	if err != nil {
		return nil, err
	}
	switch kind {
	case "":
		return bytes.NewReader(b), nil
	case "plain":
		return iotest.OneByteReader(bytes.NewReader(b)), nil
	case "file":
		fn := filepath.Join(scratch, fmt.Sprintf("layer-add-%d.tar", n))
		if err := os.WriteFile(fn, b, 0o600); err != nil {
			return nil, err
		}
		fh, err := os.Open(fn)
		if err != nil {
			return nil, err
		}
		*cleanup = append(*cleanup, func() { _ = fh.Close() })
		return fh, nil
	case "pipe":
		pr, pw := io.Pipe()
		go func() {
			for at := 0; at < len(b); at += 97 {
				end := min(at+97, len(b))
				if _, err := pw.Write(b[at:end]); err != nil {
					return
				}
			}
			_ = pw.Close()
		}()
		*cleanup = append(*cleanup, func() { _ = pr.Close() })
		return pr, nil
	}
	return nil, fmt.Errorf("unknown reader kind %q", kind)
}

var (
	tSet    = time.Date(2001, 2, 3, 4, 5, 6, 0, time.UTC)
	tFuture = time.Date(2099, 1, 1, 0, 0, 0, 0, time.UTC)
)

func optTime(a string, w *world) (mod.OptTime, error) {
	switch a {
	case "", "set":
		return mod.OptTime{Set: tSet}, nil
	case "after": // only times after 2099 are changed: none
		return mod.OptTime{Set: tFuture, After: tFuture}, nil
	case "max": // times after the set time are pulled back to it (all of them)
		return mod.OptTime{Set: tSet, After: tSet}, nil
	case "base1":
		return mod.OptTime{Set: tSet, BaseLayers: 1}, nil
	case "baseref":
		r, err := ref.New(w.refOld)
		if err != nil {
			return mod.OptTime{}, err
		}
		return mod.OptTime{Set: tSet, BaseRef: r}, nil
	case "label":
		return mod.OptTime{FromLabel: "stamp"}, nil
	// the instant every time stamp of a uniform-time image already has, in several spellings of that instant
	case "same": // UTC, as parsed from ...Z
		return mod.OptTime{Set: t2020}, nil
	case "samezone": // a fixed zone, as parsed from ...+01:00
		return mod.OptTime{Set: t2020.In(time.FixedZone("", 3600))}, nil
	case "samelocal": // the local zone, as built with time.Unix
		return mod.OptTime{Set: time.Unix(t2020.Unix(), 0)}, nil
	case "sameafter": // with an `after` guard that lies before it
		return mod.OptTime{Set: t2020.In(time.FixedZone("", -7200)), After: t2020.Add(-time.Hour)}, nil
	}
	return mod.OptTime{}, fmt.Errorf("unknown time variant %q", a)
}

func buildOpts(prog []optSpec, w *world, rdrKind, scratch string, cleanup *[]func()) ([]mod.Opts, error) {
	out := []mod.Opts{}
	for n, o := range prog {
		switch o.K {
		case "AddLayer":
			ps := []platform.Platform{}
			if o.A != "" {
				p, err := platform.Parse(o.A)
				if err != nil {
					return nil, err
				}
				ps = append(ps, p)
			}
			rdr, err := addReader(o.F, rdrKind, scratch, n, cleanup)
			if err != nil {
				return nil, err
			}
			out = append(out, mod.WithLayerAddTar(rdr, o.V, ps))
		case "RmIndex":
			out = append(out, mod.WithLayerRmIndex(o.I))
		case "RmCreatedBy":
			re, err := regexp.Compile(o.A)
			if err != nil {
				return nil, err
			}
			out = append(out, mod.WithLayerRmCreatedBy(*re))
		case "StripFile":
			out = append(out, mod.WithLayerStripFile(o.A))
		case "Compress":
			var c archive.CompressType
			switch o.A {
			case "gzip":
				c = archive.CompressGzip
			case "zstd":
				c = archive.CompressZstd
			case "none":
				c = archive.CompressNone
			default:
				return nil, fmt.Errorf("unknown compression %q", o.A)
			}
			out = append(out, mod.WithLayerCompression(c))
		case "Reproducible":
			out = append(out, mod.WithLayerReproducible())
		case "LayerTime":
			if o.A == "fromlabel" { // the deprecated spelling
				out = append(out, mod.WithLayerTimestampFromLabel("stamp"))
				continue
			}
			ot, err := optTime(o.A, w)
			if err != nil {
				return nil, err
			}
			out = append(out, mod.WithLayerTimestamp(ot))
		case "ConfigTime":
			if o.A == "fromlabel" {
				out = append(out, mod.WithConfigTimestampFromLabel("stamp"))
				continue
			}
			ot, err := optTime(o.A, w)
			if err != nil {
				return nil, err
			}
			out = append(out, mod.WithConfigTimestamp(ot))
		case "FileTarTime":
			ot, err := optTime(o.A, w)
			if err != nil {
				return nil, err
			}
			out = append(out, mod.WithFileTarTime("l1/inner.tar", ot))
		case "DigestAlgo":
			out = append(out, mod.WithDigestAlgo(digest.Algorithm(o.A)))
		case "LayerDigest":
			out = append(out, mod.WithLayerDigestAlgo(digest.Algorithm(o.A)))
		case "ConfigDigest":
			out = append(out, mod.WithConfigDigestAlgo(digest.Algorithm(o.A)))
		case "ManifestDigest":
			out = append(out, mod.WithManifestDigestAlgo(digest.Algorithm(o.A)))
		case "ToOCI":
			out = append(out, mod.WithManifestToOCI())
		case "ToDocker":
			out = append(out, mod.WithManifestToDocker())
		case "ToOCIReferrers":
			out = append(out, mod.WithManifestToOCIReferrers())
		case "Data":
			out = append(out, mod.WithData(int64(o.I)))
		case "Annotation":
			out = append(out, mod.WithAnnotation(o.A, o.V))
		case "AnnotationBase":
			r, err := ref.New("registry.example.org/lib/base:old")
			if err != nil {
				return nil, err
			}
			out = append(out, mod.WithAnnotationOCIBase(r, digest.FromString("base")))
		case "AnnotationPromote":
			out = append(out, mod.WithAnnotationPromoteCommon())
		case "LabelToAnnotation":
			out = append(out, mod.WithLabelToAnnotation())
		case "Label":
			out = append(out, mod.WithLabel(o.A, o.V))
		case "Env":
			out = append(out, mod.WithEnv(o.A, o.V))
		case "Cmd":
			out = append(out, mod.WithConfigCmd([]string{o.A}))
		case "Entrypoint":
			out = append(out, mod.WithConfigEntrypoint([]string{o.A}))
		case "Platform":
			p, err := platform.Parse(o.A)
			if err != nil {
				return nil, err
			}
			out = append(out, mod.WithConfigPlatform(p))
		case "ExposeAdd":
			out = append(out, mod.WithExposeAdd(o.A))
		case "ExposeRm":
			out = append(out, mod.WithExposeRm(o.A))
		case "VolumeAdd":
			out = append(out, mod.WithVolumeAdd(o.A))
		case "VolumeRm":
			out = append(out, mod.WithVolumeRm(o.A))
		case "BuildArgRm":
			out = append(out, mod.WithBuildArgRm(o.A, regexp.MustCompile(".*")))
		case "ExternalURLsRm":
			out = append(out, mod.WithExternalURLsRm())
		case "RebaseAnnot": // by the base image annotations of the image
			out = append(out, mod.WithRebase())
		case "Rebase":
			rOld, err := ref.New(w.refOld)
			if err != nil {
				return nil, err
			}
			rNew, err := ref.New(w.refNew)
			if err != nil {
				return nil, err
			}
			out = append(out, mod.WithRebaseRefs(rOld, rNew))
		default:
			return nil, fmt.Errorf("unknown option kind %q", o.K)
		}
	}
	return out, nil
}

package main

// The independent audit: walks the closure of a manifest in a store with encoding/json,
// crypto/sha256|sha512, compress/gzip, zstd and archive/tar only, and records one fact line per
// descriptor found and one per image config. It never judges.

import (
	"archive/tar"
	"bytes"
	"compress/gzip"
	"encoding/json"
	"fmt"
	"io"
	"regexp"
	"sort"
	"strings"

	"github.com/klauspost/compress/zstd"

	"github.com/regclient/regclient/zzverif/vtrace"
)

type gdesc struct {
	MediaType   string            `json:"mediaType"`
	Digest      string            `json:"digest"`
	Size        int64             `json:"size"`
	Data        []byte            `json:"data"`
	URLs        []string          `json:"urls"`
	Annotations map[string]string `json:"annotations"`
	Platform    *struct {
		Architecture string `json:"architecture"`
		OS           string `json:"os"`
	} `json:"platform"`
}

type gman struct {
	MediaType string  `json:"mediaType"`
	Manifests []gdesc `json:"manifests"`
	Config    *gdesc  `json:"config"`
	Layers    []gdesc `json:"layers"`
	Subject   *gdesc  `json:"subject"`
}

type gconfig struct {
	Architecture string `json:"architecture"`
	OS           string `json:"os"`
	RootFS       struct {
		DiffIDs []string `json:"diff_ids"`
	} `json:"rootfs"`
	History []struct {
		CreatedBy  string `json:"created_by"`
		Comment    string `json:"comment"`
		EmptyLayer bool   `json:"empty_layer"`
	} `json:"history"`
	Config struct {
		Labels map[string]string `json:"Labels"`
	} `json:"config"`
}

func b2i(b bool) int {
	if b {
		return 1
	}
	return 0
}

func detect(b []byte) string {
	switch {
	case len(b) >= 2 && b[0] == 0x1f && b[1] == 0x8b:
		return "gzip"
	case len(b) >= 4 && b[0] == 0x28 && b[1] == 0xb5 && b[2] == 0x2f && b[3] == 0xfd:
		return "zstd"
	}
	return "none"
}

func decompress(b []byte) ([]byte, error) {
	switch detect(b) {
	case "gzip":
		r, err := gzip.NewReader(bytes.NewReader(b))
		if err != nil {
			return nil, err
		}
		return io.ReadAll(r)
	case "zstd":
		r, err := zstd.NewReader(bytes.NewReader(b))
		if err != nil {
			return nil, err
		}
		defer r.Close()
		return io.ReadAll(r)
	}
	return b, nil
}

var (
	tarMTs = map[string]string{
		"application/vnd.oci.image.layer.v1.tar":                             "none",
		"application/vnd.oci.image.layer.v1.tar+gzip":                        "gzip",
		"application/vnd.oci.image.layer.v1.tar+zstd":                        "zstd",
		"application/vnd.docker.image.rootfs.diff.tar":                       "none",
		"application/vnd.docker.image.rootfs.diff.tar.gzip":                  "gzip",
		"application/vnd.docker.image.rootfs.diff.tar.zstd":                  "zstd",
		"application/vnd.oci.image.layer.nondistributable.v1.tar":            "none",
		"application/vnd.oci.image.layer.nondistributable.v1.tar+gzip":       "gzip",
		"application/vnd.oci.image.layer.nondistributable.v1.tar+zstd":       "zstd",
		"application/vnd.docker.image.rootfs.foreign.diff.tar.gzip":          "gzip",
		"application/vnd.docker.image.rootfs.foreign.diff.tar.gzip+disabled": "gzip",
	}
	reMarker = regexp.MustCompile(`^([ln])(\d)/marker$`)
	reHist   = regexp.MustCompile(`^ADD ([LN]\d)$`)
)

// layerID lists the tar and names the layer after its marker file.
func layerID(uncompressed []byte) string {
	tr := tar.NewReader(bytes.NewReader(uncompressed))
	for {
		h, err := tr.Next()
		if err != nil {
			return "X"
		}
		if h.Name == "add/marker" {
			return "NEW"
		}
		if m := reMarker.FindStringSubmatch(h.Name); m != nil {
			return strings.ToUpper(m[1]) + m[2]
		}
	}
}

type auditor struct {
	noRefs  bool // do not follow referrers (descriptor closure only)
	st      store
	ev      []vtrace.Event
	seen    map[string]bool
	first   map[string]string       // digest -> name it was first reached under
	closure map[string]bool         // every digest reached (manifests and blobs)
	mans    map[string]bool         // manifests reached
	refs    map[string]bool         // of these: reached as referrer (names a reached manifest as subject)
	bySubj  map[string][]string     // subject digest -> manifests in the store naming it
	facts   map[string]vtrace.Event // name -> image facts (for drift comparison outside the trace)
	record  bool
}

func newAuditor(st store, record bool) *auditor {
	a := &auditor{st: st, seen: map[string]bool{}, first: map[string]string{}, closure: map[string]bool{}, mans: map[string]bool{},
		refs: map[string]bool{}, bySubj: map[string][]string{}, facts: map[string]vtrace.Event{}, record: record}
	for _, d := range st.digests() {
		if !st.isManifest(d) {
			continue
		}
		b, ok := st.get(d)
		if !ok {
			continue
		}
		var m gman
		if json.Unmarshal(b, &m) == nil && m.Subject != nil && m.Subject.Digest != "" {
			a.bySubj[m.Subject.Digest] = append(a.bySubj[m.Subject.Digest], d)
		}
	}
	for k := range a.bySubj {
		sort.Strings(a.bySubj[k])
	}
	return a
}

func (a *auditor) emit(e vtrace.Event) {
	if a.record {
		a.ev = append(a.ev, e)
	}
}

// check records the facts about one descriptor and returns the stored content.
func (a *auditor) check(in, role string, i int, d gdesc, plat int) ([]byte, bool) {
	ext := len(d.URLs) > 0
	content, present := a.st.get(d.Digest)
	if present {
		a.closure[d.Digest] = true
	}
	alg, _, _ := strings.Cut(d.Digest, ":")
	shaOK := present && digOf(alg, content) == d.Digest && (alg == "sha256" || alg == "sha512")
	sizeOK := present && int64(len(content)) == d.Size
	data := 0
	if len(d.Data) > 0 {
		data = 2
		if digOf(alg, d.Data) == d.Digest && int64(len(d.Data)) == d.Size && (!present || bytes.Equal(d.Data, content)) {
			data = 1
		}
	}
	mt := 1
	switch role {
	case "layer":
		if d.MediaType == "" {
			mt = 0
		} else if want, ok := tarMTs[d.MediaType]; ok && present {
			mt = b2i(detect(content) == want)
		}
	case "config":
		mt = b2i(d.MediaType != "")
	default: // manifests
		if d.MediaType == "" {
			mt = 0
		} else if present {
			var m gman
			if json.Unmarshal(content, &m) == nil && m.MediaType != "" {
				mt = b2i(m.MediaType == d.MediaType)
			}
		}
	}
	a.emit(vtrace.Event{"ev": "desc", "in": in, "role": role, "i": i, "ext": b2i(ext), "present": b2i(present),
		"sha": b2i(shaOK), "size": b2i(sizeOK), "data": data, "mt": mt, "plat": plat, "dig": short(d.Digest)})
	return content, present
}

// isReferrerList recognises the index a layout stores under a fall-back tag: an index (no config, no layers)
// with at least one entry, every entry of which names a stored manifest that has a subject.
func isReferrerList(st store, dig string) bool {
	b, ok := st.get(dig)
	if !ok {
		return false
	}
	var m gman
	if json.Unmarshal(b, &m) != nil || m.Config != nil || len(m.Layers) > 0 || len(m.Manifests) == 0 {
		return false
	}
	for _, e := range m.Manifests {
		eb, ok := st.get(e.Digest)
		if !ok {
			return false
		}
		var em gman
		if json.Unmarshal(eb, &em) != nil || em.Subject == nil {
			return false
		}
	}
	return true
}

func fallbackTag(dig string) string {
	alg, hx, _ := strings.Cut(dig, ":")
	if len(hx) > 64 {
		hx = hx[:64]
	}
	return alg + "-" + hx
}

func short(d string) string {
	if len(d) > 19 {
		return d[:19]
	}
	return d
}

// manifest walks one manifest that is stored under dig.
func (a *auditor) manifest(name, dig string) {
	if a.seen[dig] {
		// the same manifest under a second name (e.g. two index entries that became identical): same facts
		if f, ok := a.facts[a.first[dig]]; ok {
			a.facts[name] = f
		}
		return
	}
	a.seen[dig] = true
	a.first[dig] = name
	a.closure[dig] = true
	a.mans[dig] = true
	body, ok := a.st.get(dig)
	if !ok {
		return
	}
	var m gman
	if err := json.Unmarshal(body, &m); err != nil {
		a.emit(vtrace.Event{"ev": "unparsable", "in": name})
		return
	}
	if m.Subject != nil {
		a.check(name, "subject", 0, *m.Subject, -1)
	}
	for i, e := range m.Manifests {
		plat := -1
		if cb, ok := a.st.get(e.Digest); ok && e.Platform != nil {
			var cm gman
			if json.Unmarshal(cb, &cm) == nil && cm.Config != nil {
				if cfgb, ok := a.st.get(cm.Config.Digest); ok {
					var c gconfig
					if json.Unmarshal(cfgb, &c) == nil && c.Architecture != "" {
						plat = b2i(c.Architecture == e.Platform.Architecture && c.OS == e.Platform.OS)
					}
				}
			}
		}
		if _, ok := a.check(name, "manifest", i, e, plat); ok {
			a.manifest(fmt.Sprintf("%s/m%d", name, i), e.Digest)
		}
	}
	if m.Config != nil {
		cfgb, cok := a.check(name, "config", 0, *m.Config, -1)
		layers := make([][]byte, len(m.Layers))
		have := make([]bool, len(m.Layers))
		for i, l := range m.Layers {
			layers[i], have[i] = a.check(name, "layer", i, l, -1)
		}
		if cok && (m.Config.MediaType == mtOCIConfig || m.Config.MediaType == mtDockerConfig) {
			a.image(name, cfgb, m.Layers, layers, have)
		}
	}
	if a.noRefs {
		return
	}
	// referrers: every stored manifest whose subject is this manifest
	for i, r := range a.bySubj[dig] {
		a.refs[r] = true
		a.manifest(fmt.Sprintf("%s/ref%d", name, i), r)
	}
	// layout fall-back tag <alg>-<first 64 hex> naming the referrers index
	if fb, ok := a.st.tag(fallbackTag(dig)); ok {
		if fbb, ok := a.st.get(fb); ok {
			a.closure[fb] = true
			a.mans[fb] = true
			var fm gman
			if json.Unmarshal(fbb, &fm) == nil {
				for i, e := range fm.Manifests {
					a.check(name+"/fallback", "manifest", i, e, -1)
				}
			}
		}
	}
}

func (a *auditor) image(name string, cfgb []byte, descs []gdesc, layers [][]byte, have []bool) {
	var c gconfig
	if err := json.Unmarshal(cfgb, &c); err != nil {
		a.emit(vtrace.Event{"ev": "unparsable", "in": name + "/config"})
		return
	}
	diff := []int{}
	lids := []string{}
	for i := range descs {
		id := "X"
		ok := 0
		if !have[i] && len(descs[i].URLs) > 0 {
			id, ok = "EXT", 2 // external layer that is not stored: nothing to compare with
		}
		if have[i] {
			if uc, err := decompress(layers[i]); err == nil {
				if tarMTs[descs[i].MediaType] != "" || descs[i].MediaType == "" {
					id = layerID(uc)
					if id == "X" && knownInput(uc) {
						id = "NEW" // a stream this driver handed to WithLayerAddTar that is not a tar with a marker file
					}
				} else {
					id = "A" // not a file system layer (artifact content)
				}
				if i < len(c.RootFS.DiffIDs) {
					alg, _, _ := strings.Cut(c.RootFS.DiffIDs[i], ":")
					ok = b2i(digOf(alg, uc) == c.RootFS.DiffIDs[i] && (alg == "sha256" || alg == "sha512"))
				}
			}
		}
		diff = append(diff, ok)
		lids = append(lids, id)
	}
	hids := []string{}
	hseq := []string{}
	for _, h := range c.History {
		id := "?"
		switch {
		case h.EmptyLayer:
			hseq = append(hseq, "E")
			continue
		case h.CreatedBy == "" && h.Comment == "regclient":
			id = "NEW"
		default:
			if m := reHist.FindStringSubmatch(h.CreatedBy); m != nil {
				id = m[1]
			}
		}
		hids = append(hids, id)
		hseq = append(hseq, id)
	}
	e := vtrace.Event{"ev": "image", "in": name, "nl": len(descs), "nd": len(c.RootFS.DiffIDs), "diff": diff,
		"lids": lids, "hids": hids, "nohist": b2i(c.History == nil)}
	a.emit(e)
	a.facts[name] = vtrace.Event{"lids": lids, "hseq": hseq, "arch": c.Architecture}
}

// closureHash identifies the content reachable from root through descriptors in a store, and lists the
// referrers (manifests naming a member of that closure, or of a referrer, as subject) found next to it.
func closureHash(st store, root string) (string, []string) {
	a := newAuditor(st, false)
	a.noRefs = true
	a.manifest("root", root)
	withRefs := newAuditor(st, false)
	withRefs.manifest("root", root)
	refs := []string{}
	for d := range withRefs.refs {
		if !a.mans[d] {
			refs = append(refs, d)
		}
	}
	sort.Strings(refs)
	ds := []string{}
	for d := range a.closure {
		ds = append(ds, d)
	}
	sort.Strings(ds)
	var sb strings.Builder
	for _, d := range ds {
		b, ok := st.get(d)
		if ok {
			sb.WriteString(d + "=" + shaHex(b) + "\n")
		} else {
			sb.WriteString(d + "=missing\n")
		}
	}
	return shaHex([]byte(sb.String()))[:16], refs
}

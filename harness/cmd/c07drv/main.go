// c07drv drives the real regclient on ocidir:// layouts for property C07 (an OCI layout survives a
// crash at any point of any write). It only performs operations and records facts; it judges
// nothing. The runner (tools/props/c07.py) runs `-mode op` under strace, reconstructs the directory
// after every prefix of mutating system calls, and hands those crash directories back to
// `-mode probe` (fresh real client, re-run of the interrupted operation).
//
//	-mode mksrc  -src S            write the source layout S and the OCI tars by hand (std lib only:
//	                               the content catalogue is independent of regclient) + catalog.json
//	-mode setup  -dir D -state X   build start state X in D with the real client (not traced)
//	-mode op     -dir D -op O      perform ONE layout operation O with the real client (traced by strace)
//	-mode probe  -jobs J -out F    for each job {id, dir, op}: open dir with a FRESH real client (TagList,
//	                               ManifestGet of every tag, closure read with independent sha256,
//	                               referrers of every subject); when op != "" re-run op with another
//	                               fresh client and probe again
//
// Operations (O):  blob_put:<L>[:nd|:ns]  blob_bad:<claimed>:<sent>:digest|size  man_bad:<refobj>:<M>  put_tag:<tag>:<M>  put_digest:<M>  put_child:<M>  put_index:<tag>:<IX>
// put_ref:<tag>:<A>  put_refd:<A>  tag_delete:<tag>  man_delete:<M>  blob_delete:<L>  retag:<tag>:<oldtag>  copy:<tag>:<srctag>
// copy_ref:<tag>:<srctag>  import:<tag>:<tarname>  rcopy:<tag>:<srctag> (ImageCopy from a REGISTRY - the in-process model registry
// zzverif/simreg holding the same catalogue - into the layout) ; the suffix "~c<k>" CANCELS the caller's context when
// the k-th registry request of the copy arrives (the process lives on and returns through its error path), "~e<k>" lets
// request k fail with a connection error, "~h<k>" answers it with status 500, "~t<k>" cuts its reply body short;
// the suffix "~rel" spells the target
// layout with a relative path, "~td" gives the tagged put a reference with tag and digest; the suffix "+gc" calls rc.Close (garbage collection)
// after the operation, like regctl does.
package main

import (
	"archive/tar"
	"bytes"
	"context"
	"crypto/sha256"
	"crypto/sha512"
	"encoding/hex"
	"encoding/json"
	"errors"
	"flag"
	"fmt"
	"io"
	"log/slog"
	"os"
	"path/filepath"
	"sort"
	"strconv"
	"strings"
	"sync"
	"sync/atomic"
	"time"

	"github.com/regclient/regclient"
	"github.com/regclient/regclient/config"
	"github.com/regclient/regclient/scheme/reg"
	"github.com/regclient/regclient/types/descriptor"
	"github.com/regclient/regclient/types/manifest"
	"github.com/regclient/regclient/types/ref"
	"github.com/regclient/regclient/zzverif/simreg"
	"github.com/regclient/regclient/zzverif/vtrace"

	"github.com/opencontainers/go-digest"
)

const (
	mtLayer       = "application/vnd.oci.image.layer.v1.tar+gzip"
	mtConfig      = "application/vnd.oci.image.config.v1+json"
	mtMan         = "application/vnd.oci.image.manifest.v1+json"
	mtIndex       = "application/vnd.oci.image.index.v1+json"
	mtEmpty       = "application/vnd.oci.empty.v1+json"
	mtCacheConfig = "application/vnd.buildkit.cacheconfig.v0"
	refName       = "org.opencontainers.image.ref.name"
)

// ---------------------------------------------------------------- catalogue (independent of regclient)

type obj struct {
	Name      string   `json:"name"`
	Kind      string   `json:"kind"` // layer config image index artifact
	MediaType string   `json:"mediaType"`
	Digest    string   `json:"digest"`
	Digest512 string   `json:"digest512"`
	Size      int64    `json:"size"`
	Children  []string `json:"children"`
	Subject   string   `json:"subject,omitempty"`
	data      []byte
}

type jdesc struct {
	MediaType    string            `json:"mediaType"`
	Digest       string            `json:"digest"`
	Size         int64             `json:"size"`
	Platform     map[string]string `json:"platform,omitempty"`
	ArtifactType string            `json:"artifactType,omitempty"`
	Annotations  map[string]string `json:"annotations,omitempty"`
}

type jman struct {
	SchemaVersion int               `json:"schemaVersion"`
	MediaType     string            `json:"mediaType"`
	ArtifactType  string            `json:"artifactType,omitempty"`
	Config        *jdesc            `json:"config,omitempty"`
	Layers        []jdesc           `json:"layers,omitempty"`
	Manifests     []jdesc           `json:"manifests,omitempty"`
	Subject       *jdesc            `json:"subject,omitempty"`
	Annotations   map[string]string `json:"annotations,omitempty"`
}

var cat = map[string]*obj{}
var catOrder []string

func sha(b []byte) string {
	h := sha256.Sum256(b)
	return "sha256:" + hex.EncodeToString(h[:])
}

func sha5(b []byte) string {
	h := sha512.Sum512(b)
	return "sha512:" + hex.EncodeToString(h[:])
}

func addObj(name, kind, mt string, data []byte, children []string, subject string) *obj {
	o := &obj{Name: name, Kind: kind, MediaType: mt, Digest: sha(data), Digest512: sha5(data), Size: int64(len(data)),
		Children: children, Subject: subject, data: data}
	cat[name] = o
	catOrder = append(catOrder, name)
	return o
}

func pseudo(name string, n int) []byte {
	out := make([]byte, 0, n+32)
	seed := sha256.Sum256([]byte("c07:" + name))
	for len(out) < n {
		out = append(out, seed[:]...)
		seed = sha256.Sum256(seed[:])
	}
	return out[:n]
}

func descOf(name string) jdesc {
	o := cat[name]
	return jdesc{MediaType: o.MediaType, Digest: o.Digest, Size: o.Size}
}

func mustJSON(v any) []byte {
	b, err := json.Marshal(v)
	if err != nil {
		panic(err)
	}
	return b
}

func addImage(name, cfg string, layers []string) {
	c := descOf(cfg)
	m := jman{SchemaVersion: 2, MediaType: mtMan, Config: &c}
	for _, l := range layers {
		m.Layers = append(m.Layers, descOf(l))
	}
	addObj(name, "image", mtMan, mustJSON(m), append([]string{cfg}, layers...), "")
}

func addArtifact(name, layer, subject, atype string) {
	c := descOf("CE")
	s := descOf(subject)
	m := jman{SchemaVersion: 2, MediaType: mtMan, ArtifactType: atype, Config: &c,
		Layers: []jdesc{descOf(layer)}, Subject: &s, Annotations: map[string]string{"c07.name": name}}
	addObj(name, "artifact", mtMan, mustJSON(m), []string{"CE", layer}, subject)
}

func buildCatalogue() {
	addObj("L1", "layer", mtLayer, pseudo("L1", 40000), nil, "") // two write calls (32 KiB copy buffer)
	addObj("L2", "layer", mtLayer, pseudo("L2", 300), nil, "")
	addObj("L3", "layer", mtLayer, pseudo("L3", 500), nil, "")
	addObj("L4", "layer", mtLayer, pseudo("L4", 70000), nil, "")   // three write calls
	addObj("L0", "layer", mtLayer, []byte{}, nil, "")              // empty blob: no write call at all
	addObj("LK", "layer", mtLayer, pseudo("LK", 32768), nil, "")   // exactly one copy buffer
	addObj("LK1", "layer", mtLayer, pseudo("LK1", 32769), nil, "") // one byte more: two write calls
	addObj("LA", "layer", "application/vnd.c07.sig", pseudo("LA", 120), nil, "")
	addObj("LB", "layer", "application/vnd.c07.sbom", pseudo("LB", 150), nil, "")
	addObj("CE", "config", mtEmpty, []byte("{}"), nil, "")
	for _, c := range []struct{ n, arch string }{{"C1", "amd64"}, {"C2", "arm64"}, {"C3", "amd64"}} {
		addObj(c.n, "config", mtConfig, mustJSON(map[string]any{"architecture": c.arch, "os": "linux",
			"config": map[string]any{"Labels": map[string]string{"c07": c.n}},
			"rootfs": map[string]any{"type": "layers", "diff_ids": []string{}}}), nil, "")
	}
	addImage("M1", "C1", []string{"L1", "L2"})
	addImage("M2", "C2", []string{"L1", "L3"}) // shares L1 with M1
	addImage("M3", "C3", []string{"L4"})
	ix := jman{SchemaVersion: 2, MediaType: mtIndex}
	for _, e := range []struct{ n, arch string }{{"M1", "amd64"}, {"M2", "arm64"}} {
		d := descOf(e.n)
		d.Platform = map[string]string{"architecture": e.arch, "os": "linux"}
		ix.Manifests = append(ix.Manifests, d)
	}
	addObj("IX", "index", mtIndex, mustJSON(ix), []string{"M1", "M2"}, "")
	// stored shapes other than "every index entry is a manifest": a buildkit cache export (an index whose
	// entries are layer blobs plus a cache config blob) and an index nested in an index
	addObj("LC1", "layer", mtLayer, pseudo("LC1", 210), nil, "")
	addObj("LC2", "layer", mtLayer, pseudo("LC2", 330), nil, "")
	addObj("CC", "config", mtCacheConfig, mustJSON(map[string]any{"layers": []any{map[string]any{"blob": sha(pseudo("LC1", 210)), "parent": -1}},
		"records": []any{map[string]any{"digest": "sha256:c07"}}}), nil, "")
	addObj("IB", "index", mtIndex, mustJSON(jman{SchemaVersion: 2, MediaType: mtIndex,
		Manifests: []jdesc{descOf("LC1"), descOf("LC2"), descOf("CC")}}), []string{"LC1", "LC2", "CC"}, "")
	addObj("IN", "index", mtIndex, mustJSON(jman{SchemaVersion: 2, MediaType: mtIndex, Manifests: []jdesc{descOf("IX")}}),
		[]string{"IX"}, "")
	addArtifact("A1", "LA", "M1", "application/vnd.c07.sig")
	addArtifact("A2", "LB", "M1", "application/vnd.c07.sbom")
	// referrers list of M1 in the source layout (fall-back tag), as a registry client would keep it
	a1 := descOf("A1")
	a1.ArtifactType = "application/vnd.c07.sig"
	a1.Annotations = map[string]string{"c07.name": "A1"}
	addObj("RLsrc", "index", mtIndex, mustJSON(jman{SchemaVersion: 2, MediaType: mtIndex, Manifests: []jdesc{a1}}),
		[]string{"A1"}, "")
}

func fallbackTag(subject string) string {
	return strings.Replace(cat[subject].Digest, ":", "-", 1)
}

func closure(name string, acc map[string]bool) {
	if acc[name] {
		return
	}
	acc[name] = true
	for _, c := range cat[name].Children {
		closure(c, acc)
	}
}

// ---------------------------------------------------------------- mksrc: hand-written source layout + tars

func writeFile(p string, b []byte) {
	if err := os.MkdirAll(filepath.Dir(p), 0o777); err != nil {
		fatal(err)
	}
	if err := os.WriteFile(p, b, 0o666); err != nil {
		fatal(err)
	}
}

func fatal(err error) {
	fmt.Fprintln(os.Stderr, "c07drv:", err)
	os.Exit(3)
}

func blobPath(root, dig string) string {
	return filepath.Join(root, "blobs", "sha256", strings.TrimPrefix(dig, "sha256:"))
}

func tagged(name, tag string) jdesc {
	d := descOf(name)
	d.Annotations = map[string]string{refName: tag}
	return d
}

func mksrc(src string) {
	for _, n := range catOrder {
		writeFile(blobPath(src, cat[n].Digest), cat[n].data)
	}
	writeFile(filepath.Join(src, "oci-layout"), []byte(`{"imageLayoutVersion":"1.0.0"}`))
	idx := jman{SchemaVersion: 2, MediaType: mtIndex, Manifests: []jdesc{
		tagged("M1", "m1"), tagged("M2", "m2"), tagged("M3", "m3"), tagged("IX", "ix"), tagged("IB", "ib"), tagged("IN", "in"),
		tagged("RLsrc", fallbackTag("M1"))}}
	writeFile(filepath.Join(src, "index.json"), mustJSON(idx))
	// OCI layout tars: index first (single pass) and index last (the importer has to re-read)
	for _, t := range []struct {
		file, top, tag string
		indexFirst     bool
	}{{"m1.tar", "M1", "m1", true}, {"m2.tar", "M2", "m2", true}, {"m3r.tar", "M3", "m3", false}, {"ix.tar", "IX", "ix", true}} {
		var buf bytes.Buffer
		tw := tar.NewWriter(&buf)
		add := func(name string, b []byte) {
			if err := tw.WriteHeader(&tar.Header{Name: name, Mode: 0o644, Size: int64(len(b)), Typeflag: tar.TypeReg}); err != nil {
				fatal(err)
			}
			if _, err := tw.Write(b); err != nil {
				fatal(err)
			}
		}
		head := func() {
			add("oci-layout", []byte(`{"imageLayoutVersion":"1.0.0"}`))
			add("index.json", mustJSON(jman{SchemaVersion: 2, MediaType: mtIndex, Manifests: []jdesc{tagged(t.top, t.tag)}}))
		}
		if t.indexFirst {
			head()
		}
		cl := map[string]bool{}
		closure(t.top, cl)
		names := []string{}
		for n := range cl {
			names = append(names, n)
		}
		sort.Strings(names)
		for _, n := range names {
			add("blobs/sha256/"+strings.TrimPrefix(cat[n].Digest, "sha256:"), cat[n].data)
		}
		if !t.indexFirst {
			head()
		}
		if err := tw.Close(); err != nil {
			fatal(err)
		}
		writeFile(filepath.Join(src, "..", t.file), buf.Bytes())
	}
	list := []*obj{}
	for _, n := range catOrder {
		list = append(list, cat[n])
	}
	writeFile(filepath.Join(src, "..", "catalog.json"), mustJSON(list))
}

// ---------------------------------------------------------------- operations on the real client

// spelling of the target layout's path in references (-mode op only): absolute (default) or relative to the
// working directory; tagDigest makes the tagged manifest put use a reference that carries tag AND digest
var spell = map[string]string{}
var tagDigest, tag512 bool

func tref(dir, tag string) ref.Ref {
	if sp, ok := spell[dir]; ok {
		dir = sp
	}
	s := "ocidir://" + dir
	if strings.HasPrefix(tag, "sha256:") {
		s += "@" + tag
	} else if tag != "" {
		s += ":" + tag
	}
	r, err := ref.New(s)
	if err != nil {
		fatal(fmt.Errorf("ref %s: %w", s, err))
	}
	return r
}

func putBlob(ctx context.Context, rc *regclient.RegClient, dir, name string) error {
	return putBlobAs(ctx, rc, dir, name, "")
}

// putBlobAs: variant "" = descriptor with digest and size; "nd" = neither digest nor size (the layout computes
// them, as the docker-archive import does); "ns" = digest without size
func putBlobAs(ctx context.Context, rc *regclient.RegClient, dir, name, variant string) error {
	o := cat[name]
	d := descriptor.Descriptor{MediaType: o.MediaType, Digest: digest.Digest(o.Digest), Size: o.Size}
	switch variant {
	case "nd":
		d.Digest, d.Size = "", 0
	case "ns":
		d.Size = 0
	case "s512":
		d.Digest = digest.Digest(o.Digest512)
	}
	got, err := rc.BlobPut(ctx, tref(dir, ""), d, bytes.NewReader(o.data))
	if err == nil && ((got.Digest.String() != o.Digest && got.Digest.String() != o.Digest512) || got.Size != o.Size) {
		err = fmt.Errorf("BlobPut returned descriptor %s/%d for %s", got.Digest, got.Size, name)
	}
	return err
}

func manOf(name string) (manifest.Manifest, error) {
	return manifest.New(manifest.WithRaw(cat[name].data),
		manifest.WithDesc(descriptor.Descriptor{MediaType: cat[name].MediaType, Digest: digest.Digest(cat[name].Digest), Size: cat[name].Size}))
}

// putParts uploads what a manifest needs before the manifest itself (blobs, child manifests), the way a
// client pushes an image piece by piece
func putParts(ctx context.Context, rc *regclient.RegClient, dir, name string) error {
	for _, c := range cat[name].Children {
		switch cat[c].Kind {
		case "layer", "config":
			if err := putBlob(ctx, rc, dir, c); err != nil {
				return err
			}
		default:
			if err := putParts(ctx, rc, dir, c); err != nil {
				return err
			}
			m, err := manOf(c)
			if err != nil {
				return err
			}
			if err := rc.ManifestPut(ctx, tref(dir, cat[c].Digest), m, regclient.WithManifestChild()); err != nil {
				return err
			}
		}
	}
	return nil
}

// ---------------------------------------------------------------- registry source (model registry, in process)

const srcHost = "src.c07.test"

// interruption of the traced first attempt of an rcopy (set in main from the "~c<k>" ... suffixes): what happens
// when the k-th request reaches the source registry. 0 = nothing.
var intrKind byte
var intrAt int
var nreq atomic.Int64 // requests the last rcopy sent to the source registry

// regSource builds a model registry holding the catalogue (repository "c07", the tags of the source layout) and a
// client that reaches it without any socket.
func regSource() (*regclient.RegClient, *simreg.Net) {
	net := simreg.NewNet()
	h := net.AddHost(srcHost, simreg.DefaultFeatures())
	for _, n := range catOrder {
		o := cat[n]
		switch o.Kind {
		case "layer", "config":
			h.PutBlob("c07", o.data)
		default:
			tag := ""
			for t, on := range map[string]string{"m1": "M1", "m2": "M2", "m3": "M3", "ix": "IX", "ib": "IB", "in": "IN"} {
				if on == n {
					tag = t
				}
			}
			h.PutManifest("c07", tag, o.MediaType, o.data)
		}
	}
	rc := regclient.New(
		regclient.WithConfigHost(config.Host{Name: srcHost, Hostname: srcHost, TLS: config.TLSDisabled}),
		regclient.WithRegOpts(reg.WithHTTPClient(net.Client()), reg.WithDelay(time.Millisecond, 5*time.Millisecond)),
		regclient.WithSlog(slog.New(slog.NewTextHandler(io.Discard, nil))),
	)
	return rc, net
}

// arm installs the interruption: the request with sequence number intrAt cancels the caller's context and is held
// until the client hangs up ('c'), fails with a connection error ('e'), is answered 500 ('h') or is served with its
// body cut after 10 bytes ('t'). Only that one request is touched; a cancelled context stays cancelled.
func arm(net *simreg.Net, cancel context.CancelFunc) {
	if intrKind == 0 {
		return
	}
	net.Host(srcHost).Intercept = func(rq *simreg.Request) *simreg.Reply {
		if rq.Seq != intrAt {
			return nil
		}
		switch intrKind {
		case 'c':
			cancel()
			<-rq.Ctx.Done()
			return &simreg.Reply{Err: rq.Ctx.Err()}
		case 'e':
			return &simreg.Reply{Err: errors.New("read tcp: connection reset by peer")}
		case 'h':
			return &simreg.Reply{Status: 500, Body: []byte(`{"errors":[{"code":"UNKNOWN","message":"c07"}]}`)}
		case 't':
			return &simreg.Reply{ServeThenTruncate: true, TruncateAt: 10}
		}
		return nil
	}
}

func runOp(ctx context.Context, rc *regclient.RegClient, dir, src, op string) (err error) {
	defer func() {
		if p := recover(); p != nil {
			err = fmt.Errorf("panic: %v", p)
		}
	}()
	if i := strings.Index(op, "~"); i >= 0 {
		op = op[:i] // spelling variants only apply to the traced first attempt (set up in main)
	}
	gc := strings.HasSuffix(op, "+gc")
	op = strings.TrimSuffix(op, "+gc")
	a := strings.Split(op, ":")
	arg := func(i int) string {
		if i < len(a) {
			return a[i]
		}
		return ""
	}
	closeRef := tref(dir, "")
	switch a[0] {
	case "blob_put":
		err = putBlobAs(ctx, rc, dir, arg(1), arg(2))
	case "blob_bad":
		// content that does not match its descriptor: arg1 = object whose digest is claimed, arg2 = object whose
		// bytes are sent, arg3 = "digest" (claimed digest, true size of the bytes) | "size" (true digest, wrong size)
		claimed, actual := cat[arg(1)], cat[arg(2)]
		d := descriptor.Descriptor{MediaType: actual.MediaType, Digest: digest.Digest(claimed.Digest), Size: actual.Size}
		if arg(3) == "size" {
			d.Size = actual.Size + 7
		}
		_, err = rc.BlobPut(ctx, tref(dir, ""), d, bytes.NewReader(actual.data))
	case "man_bad":
		// manifest pushed to a digest reference that is not its digest: arg1 = object named by the reference, arg2 = manifest
		var m manifest.Manifest
		if m, err = manOf(arg(2)); err != nil {
			break
		}
		err = rc.ManifestPut(ctx, tref(dir, cat[arg(1)].Digest), m)
	case "put_tag", "put_index", "put_ref":
		if err = putParts(ctx, rc, dir, arg(2)); err != nil {
			break
		}
		var m manifest.Manifest
		if m, err = manOf(arg(2)); err != nil {
			break
		}
		closeRef = tref(dir, arg(1))
		if tagDigest {
			closeRef = closeRef.AddDigest(cat[arg(2)].Digest)
		}
		if tag512 {
			// the manifest object itself carries a sha512 descriptor (a reference tag@sha512 alone is not enough:
			// ocidir keeps the descriptor the manifest was built with)
			o := cat[arg(2)]
			if m, err = manifest.New(manifest.WithRaw(o.data), manifest.WithDesc(descriptor.Descriptor{MediaType: o.MediaType,
				Digest: digest.Digest(o.Digest512), Size: o.Size})); err != nil {
				break
			}
		}
		err = rc.ManifestPut(ctx, closeRef, m)
	case "put_digest", "put_refd":
		if err = putParts(ctx, rc, dir, arg(1)); err != nil {
			break
		}
		var m manifest.Manifest
		if m, err = manOf(arg(1)); err != nil {
			break
		}
		err = rc.ManifestPut(ctx, tref(dir, cat[arg(1)].Digest), m)
	case "put_child":
		if err = putParts(ctx, rc, dir, arg(1)); err != nil {
			break
		}
		var m manifest.Manifest
		if m, err = manOf(arg(1)); err != nil {
			break
		}
		err = rc.ManifestPut(ctx, tref(dir, cat[arg(1)].Digest), m, regclient.WithManifestChild())
	case "tag_delete":
		closeRef = tref(dir, arg(1))
		err = rc.TagDelete(ctx, closeRef)
	case "man_delete":
		err = rc.ManifestDelete(ctx, tref(dir, cat[arg(1)].Digest))
	case "blob_delete":
		o := cat[arg(1)]
		err = rc.BlobDelete(ctx, tref(dir, ""), descriptor.Descriptor{MediaType: o.MediaType, Digest: digest.Digest(o.Digest), Size: o.Size})
	case "retag":
		// copy inside one layout: only the top manifest is pushed under the new tag
		closeRef = tref(dir, arg(1))
		err = rc.ImageCopy(ctx, tref(dir, arg(2)), closeRef)
	case "copy", "copy_ref":
		closeRef = tref(dir, arg(1))
		opts := []regclient.ImageOpts{}
		if a[0] == "copy_ref" {
			opts = append(opts, regclient.ImageWithReferrers())
		}
		err = rc.ImageCopy(ctx, tref(src, arg(2)), closeRef, opts...)
	case "rcopy":
		// ImageCopy from a registry into the layout; the context handed to the copy can be cancelled by the source
		// registry at a chosen request (the caller's ctrl-c / deadline), the client and the process live on
		closeRef = tref(dir, arg(1))
		var net *simreg.Net
		rc, net = regSource()
		cctx, cancel := context.WithCancel(ctx)
		defer cancel()
		arm(net, cancel)
		var rs ref.Ref
		if rs, err = ref.New(srcHost + "/c07:" + arg(2)); err != nil {
			break
		}
		err = rc.ImageCopy(cctx, rs, closeRef)
		nreq.Store(int64(len(net.Log())))
	case "import":
		closeRef = tref(dir, arg(1))
		var fh *os.File
		if fh, err = os.Open(filepath.Join(src, "..", arg(2)+".tar")); err != nil {
			break
		}
		defer fh.Close()
		err = rc.ImageImport(ctx, closeRef, fh)
	default:
		fatal(fmt.Errorf("unknown op %q", op))
	}
	if gc {
		// regctl closes the reference whether or not the command failed
		errC := rc.Close(ctx, closeRef)
		if err == nil {
			err = errC
		}
	}
	return err
}

func setup(ctx context.Context, dir, src, state string) error {
	rc := regclient.New()
	cp := func(tag, srcTag string, opts ...regclient.ImageOpts) error {
		return rc.ImageCopy(ctx, tref(src, srcTag), tref(dir, tag), opts...)
	}
	var err error
	switch state {
	case "E": // nothing, not even the directory
		return nil
	case "E0": // an existing empty directory
		return os.MkdirAll(dir, 0o777)
	case "P1":
		err = cp("v1", "m1")
	case "P2", "PT", "L1Mp", "L4Mm", "L4Mp", "L8Mp", "L16Mm", "L16Mp":
		if err = cp("v1", "m1"); err == nil {
			err = cp("v2", "m2")
		}
	case "PX":
		if err = cp("v1", "m1"); err == nil {
			err = cp("ix", "ix")
		}
	case "PB": // a tag on an ordinary image, a tag on a cache-export index (blob entries), a tag on a nested index
		if err = cp("v1", "m1"); err == nil {
			if err = cp("cache", "ib"); err == nil {
				err = cp("nest", "in")
			}
		}
	case "PR", "PR2":
		if err = cp("v1", "m1", regclient.ImageWithReferrers()); err == nil && state == "PR2" {
			err = runOp(ctx, rc, dir, src, "put_refd:A2")
		}
	default:
		return fmt.Errorf("unknown state %q", state)
	}
	if err != nil {
		return err
	}
	if err = rc.Close(ctx, tref(dir, "")); err != nil {
		return err
	}
	if size, ok := bigIndex[state]; ok {
		// a layout with a large tag table: index.json padded with an annotation to exactly `size` bytes
		// (thousands of tags or verbose entries give the same file size; the content stays two tags)
		fn := filepath.Join(dir, "index.json")
		b, errR := os.ReadFile(fn)
		if errR != nil {
			return errR
		}
		var idx map[string]any
		if err = json.Unmarshal(b, &idx); err != nil {
			return err
		}
		idx["annotations"] = map[string]string{"c07.pad": ""}
		base := len(mustJSON(idx))
		idx["annotations"] = map[string]string{"c07.pad": strings.Repeat("p", size-base)}
		out := mustJSON(idx)
		if len(out) != size {
			return fmt.Errorf("padded index has %d bytes, wanted %d", len(out), size)
		}
		if err = os.WriteFile(fn, out, 0o644); err != nil {
			return err
		}
	}
	if state == "PT" {
		// leftovers of an earlier interrupted writer: stale temp files and an unreferenced blob
		writeFile(filepath.Join(dir, "index.json.424242.tmp"), []byte(`{"schemaVersion":2,"manif`))
		writeFile(filepath.Join(dir, "blobs", "sha256", "171717.tmp"), pseudo("stale", 90))
		writeFile(blobPath(dir, cat["L4"].Digest), cat["L4"].data)
	}
	return nil
}

// start states with a large index.json: just above / below round sizes
var bigIndex = map[string]int{"L1Mp": 1<<20 + 4096, "L4Mm": 4<<20 - 4096, "L4Mp": 4<<20 + 4096, "L8Mp": 8<<20 + 4096,
	"L16Mm": 16<<20 - 4096, "L16Mp": 16<<20 + 4096}

// ---------------------------------------------------------------- probe: fresh client facts

type facts struct {
	TL      string            `json:"tl"`      // ok | err
	TLErr   string            `json:"tl_err"`  // error text (not validated)
	Res     map[string]string `json:"res"`     // tag -> digest resolved by ManifestGet (body re-hashed independently)
	Unres   []string          `json:"unres"`   // tags listed but not resolvable
	Broken  []string          `json:"broken"`  // tags whose closure cannot be read completely
	Refs    map[string]string `json:"refs"`    // subject digest -> comma joined referrer digests
	RefsErr []string          `json:"refserr"` // subjects whose referrer listing failed
	Notes   []string          `json:"notes"`
}

func readClosure(ctx context.Context, rc *regclient.RegClient, dir string, m manifest.Manifest, depth int) error {
	if depth > 6 {
		return fmt.Errorf("too deep")
	}
	if mi, ok := m.(manifest.Indexer); ok {
		dl, err := mi.GetManifestList()
		if err != nil {
			return err
		}
		for _, d := range dl {
			if d.MediaType != mtMan && d.MediaType != mtIndex && !strings.Contains(d.MediaType, "manifest") {
				// an index entry that is a blob (cache export): it must be readable as a blob
				br, err := rc.BlobGet(ctx, tref(dir, ""), d)
				if err != nil {
					return fmt.Errorf("blob entry %s: %w", d.Digest, err)
				}
				b, err := io.ReadAll(br)
				_ = br.Close()
				if err != nil || sha(b) != d.Digest.String() {
					return fmt.Errorf("blob entry %s: content does not match digest", d.Digest)
				}
				continue
			}
			cm, err := rc.ManifestGet(ctx, tref(dir, d.Digest.String()))
			if err != nil {
				return fmt.Errorf("child %s: %w", d.Digest, err)
			}
			body, err := cm.RawBody()
			if err != nil || sha(body) != d.Digest.String() {
				return fmt.Errorf("child %s: body does not match digest", d.Digest)
			}
			if err := readClosure(ctx, rc, dir, cm, depth+1); err != nil {
				return err
			}
		}
	}
	if mi, ok := m.(manifest.Imager); ok {
		descs := []descriptor.Descriptor{}
		if cd, err := mi.GetConfig(); err == nil {
			descs = append(descs, cd)
		}
		layers, err := mi.GetLayers()
		if err != nil {
			return err
		}
		descs = append(descs, layers...)
		for _, d := range descs {
			br, err := rc.BlobGet(ctx, tref(dir, ""), d)
			if err != nil {
				return fmt.Errorf("blob %s: %w", d.Digest, err)
			}
			b, err := io.ReadAll(br)
			_ = br.Close()
			if err != nil {
				return fmt.Errorf("blob %s: %w", d.Digest, err)
			}
			if sha(b) != d.Digest.String() {
				return fmt.Errorf("blob %s: content does not match digest", d.Digest)
			}
		}
	}
	return nil
}

func probe(ctx context.Context, dir string) (f facts) {
	f = facts{TL: "ok", Res: map[string]string{}, Unres: []string{}, Broken: []string{}, Refs: map[string]string{},
		RefsErr: []string{}, Notes: []string{}}
	defer func() {
		if p := recover(); p != nil {
			f.TL = "err"
			f.TLErr = fmt.Sprintf("panic: %v", p)
		}
	}()
	rc := regclient.New()
	tl, err := rc.TagList(ctx, tref(dir, ""))
	var tags []string
	if err == nil {
		tags, err = tl.GetTags()
	}
	if err != nil {
		f.TL = "err"
		f.TLErr = err.Error()
	}
	sort.Strings(tags)
	for _, t := range tags {
		m, err := rc.ManifestGet(ctx, tref(dir, t))
		if err != nil {
			f.Unres = append(f.Unres, t)
			f.Notes = append(f.Notes, t+": "+err.Error())
			continue
		}
		body, err := m.RawBody()
		if err != nil {
			f.Unres = append(f.Unres, t)
			continue
		}
		f.Res[t] = sha(body)
		if strings.HasPrefix(m.GetDescriptor().Digest.String(), "sha512:") {
			f.Res[t] = sha5(body)
		}
		if d := m.GetDescriptor().Digest.String(); d != f.Res[t] {
			f.Notes = append(f.Notes, fmt.Sprintf("%s: descriptor digest %s differs from body hash", t, d))
			f.Broken = append(f.Broken, t)
			continue
		}
		if err := readClosure(ctx, rc, dir, m, 0); err != nil {
			f.Broken = append(f.Broken, t)
			f.Notes = append(f.Notes, t+": "+err.Error())
		}
	}
	// referrers of every catalogue object that can be a subject
	for _, n := range catOrder {
		if cat[n].Kind != "image" {
			continue
		}
		rl, err := rc.ReferrerList(ctx, tref(dir, cat[n].Digest))
		if err != nil {
			f.RefsErr = append(f.RefsErr, cat[n].Digest)
			continue
		}
		ds := []string{}
		for _, d := range rl.Descriptors {
			ds = append(ds, d.Digest.String())
		}
		sort.Strings(ds)
		if len(ds) > 0 {
			f.Refs[cat[n].Digest] = strings.Join(ds, ",")
		}
	}
	return f
}

type job struct {
	ID  string `json:"id"`
	Dir string `json:"dir"`
	Op  string `json:"op"`
	Src string `json:"src"`
}

type jobOut struct {
	ID       string `json:"id"`
	Fresh    facts  `json:"fresh"`
	Retried  bool   `json:"retried"`
	RetryOK  bool   `json:"retry_ok"`
	RetryErr string `json:"retry_err"`
	After    facts  `json:"after"`
}

func probeAll(ctx context.Context, jobsFile, outFile string, par int) {
	jobs := []job{}
	if err := vtrace.ReadLines(jobsFile, func(line []byte) error {
		var j job
		if err := json.Unmarshal(line, &j); err != nil {
			return err
		}
		jobs = append(jobs, j)
		return nil
	}); err != nil {
		fatal(err)
	}
	outs := make([]jobOut, len(jobs))
	var wg sync.WaitGroup
	ch := make(chan int)
	for w := 0; w < par; w++ {
		wg.Add(1)
		go func() {
			defer wg.Done()
			for i := range ch {
				j := jobs[i]
				o := jobOut{ID: j.ID, Fresh: probe(ctx, j.Dir)}
				if j.Op != "" {
					o.Retried = true
					err := runOp(ctx, regclient.New(), j.Dir, j.Src, j.Op)
					o.RetryOK = err == nil
					if err != nil {
						o.RetryErr = err.Error()
					}
					o.After = probe(ctx, j.Dir)
				}
				outs[i] = o
			}
		}()
	}
	for i := range jobs {
		ch <- i
	}
	close(ch)
	wg.Wait()
	fh, err := os.Create(outFile)
	if err != nil {
		fatal(err)
	}
	enc := json.NewEncoder(fh)
	for _, o := range outs {
		if err := enc.Encode(o); err != nil {
			fatal(err)
		}
	}
	if err := fh.Close(); err != nil {
		fatal(err)
	}
}

func main() {
	mode := flag.String("mode", "", "mksrc | setup | op | probe")
	dir := flag.String("dir", "", "target layout directory")
	src := flag.String("src", "", "source layout directory (catalog.json and tars live next to it)")
	state := flag.String("state", "", "start state for -mode setup")
	op := flag.String("op", "", "operation for -mode op")
	res := flag.String("res", "", "result file for -mode op")
	jobs := flag.String("jobs", "", "job file for -mode probe")
	out := flag.String("out", "", "output file for -mode probe")
	par := flag.Int("par", 8, "parallel probe workers")
	flag.Parse()
	buildCatalogue()
	ctx := context.Background()
	switch *mode {
	case "mksrc":
		mksrc(*src)
	case "setup":
		if err := setup(ctx, *dir, *src, *state); err != nil {
			fatal(fmt.Errorf("setup %s: %w", *state, err))
		}
	case "op":
		if i := strings.Index(*op, "~"); i >= 0 {
			for _, v := range strings.Split((*op)[i+1:], "~") {
				switch v {
				case "rel":
					cwd, errW := os.Getwd()
					if errW != nil {
						fatal(errW)
					}
					rel, errR := filepath.Rel(cwd, *dir)
					if errR != nil {
						fatal(errR)
					}
					spell[*dir] = "./" + rel
				case "td":
					tagDigest = true
				case "s512":
					tag512 = true
				default:
					k, errK := strconv.Atoi(v[1:])
					if errK != nil || k < 1 || !strings.ContainsRune("ceht", rune(v[0])) {
						fatal(fmt.Errorf("unknown variant %q", v))
					}
					intrKind, intrAt = v[0], k
				}
			}
		}
		err := runOp(ctx, regclient.New(), *dir, *src, *op)
		r := map[string]any{"ok": 1, "err": "", "nreq": nreq.Load()}
		if err != nil {
			r["ok"] = 0
			r["err"] = err.Error()
		}
		if *res != "" {
			writeFile(*res, mustJSON(r))
		}
	case "probe":
		probeAll(ctx, *jobs, *out, *par)
	default:
		fatal(fmt.Errorf("unknown mode %q", *mode))
	}
}

package main

import (
	"bufio"
	"fmt"
	"os"
	"path/filepath"
	"regexp"
	"strings"
	"time"
)

// path-taking system calls that can create, modify or remove a directory entry or file content
const straceSet = "open,openat,openat2,creat,mkdir,mkdirat,mknod,mknodat,rename,renameat,renameat2," +
	"unlink,unlinkat,rmdir,link,linkat,symlink,symlinkat,truncate,chmod,fchmodat,chown,lchown,fchownat," +
	"utime,utimes,utimensat,futimesat,setxattr,lsetxattr,removexattr,lremovexattr"

var (
	reLine    = regexp.MustCompile(`^(\d+)\s+(\d+\.\d+)\s+(\w+)\((.*)$`)
	reResumed = regexp.MustCompile(`^(\d+)\s+(\d+\.\d+)\s+<\.\.\. (\w+) resumed>(.*)$`)
	reRet     = regexp.MustCompile(`\)\s+= (-?\d+|\?)(?:[ <].*)?$`)
	reStr     = regexp.MustCompile(`"((?:[^"\\]|\\.)*)"`)
	reDirfd   = regexp.MustCompile(`^(?:AT_FDCWD|\d+)<([^>]*)>`)
	reFlags   = regexp.MustCompile(`\b(O_[A-Z_|]+)`)
)

// parseStrace returns one fact per successful mutating system call on a path at or below root
// (strace -f -y output).  Calls split over "unfinished"/"resumed" lines are joined per thread.
func parseStrace(fn, root string) ([]fsFact, error) {
	f, err := os.Open(fn)
	if err != nil {
		return nil, fmt.Errorf("strace output: %w", err)
	}
	defer f.Close()
	root = filepath.Clean(root)
	pending := map[string]string{} // pid -> "call(args" of an unfinished call
	var out []fsFact
	sc := bufio.NewScanner(f)
	sc.Buffer(make([]byte, 1<<20), 1<<26)
	for sc.Scan() {
		line := sc.Text()
		if m := reResumed.FindStringSubmatch(line); m != nil {
			head, ok := pending[m[1]]
			if !ok {
				continue
			}
			delete(pending, m[1])
			line = m[1] + " " + m[2] + " " + head + m[4]
		} else if strings.HasSuffix(line, "<unfinished ...>") {
			if m := reLine.FindStringSubmatch(line); m != nil {
				pending[m[1]] = m[3] + "(" + strings.TrimSuffix(m[4], "<unfinished ...>")
			}
			continue
		}
		m := reLine.FindStringSubmatch(line)
		if m == nil {
			continue
		}
		call, rest := m[3], m[4]
		var sec, usec int64
		fmt.Sscanf(m[2], "%d.%d", &sec, &usec)
		ts := time.Unix(sec, usec*1000)
		r := reRet.FindStringSubmatch(rest)
		if r == nil || strings.HasPrefix(r[1], "-") || r[1] == "?" {
			continue // failed call: nothing happened
		}
		flags := ""
		if strings.HasPrefix(call, "open") || call == "creat" {
			if fm := reFlags.FindStringSubmatch(rest); fm != nil {
				flags = fm[1]
			}
			if call != "creat" && !strings.Contains(flags, "O_WRONLY") && !strings.Contains(flags, "O_RDWR") &&
				!strings.Contains(flags, "O_CREAT") && !strings.Contains(flags, "O_TRUNC") && !strings.Contains(flags, "O_APPEND") {
				continue // read-only open
			}
		}
		// paths: every quoted string, resolved against the preceding dirfd annotation when relative
		args := rest[:strings.LastIndex(rest, ")")]
		for _, loc := range reStr.FindAllStringSubmatchIndex(args, -1) {
			p := args[loc[2]:loc[3]]
			if !filepath.IsAbs(p) {
				before := strings.TrimRight(args[:loc[0]], ", ")
				if i := strings.LastIndex(before, ","); i >= 0 {
					before = strings.TrimSpace(before[i+1:])
				}
				if d := reDirfd.FindStringSubmatch(before); d != nil {
					p = filepath.Join(d[1], p)
				} else {
					continue
				}
			}
			p = filepath.Clean(p)
			if p != root && !strings.HasPrefix(p, root+"/") {
				continue
			}
			rel, _ := filepath.Rel(root, p)
			out = append(out, fsFact{src: "strace", change: "syscall", path: rel, call: call, flags: flags, t: ts})
		}
	}
	return out, sc.Err()
}

// quiescent reports that the process neither consumed CPU time nor had a request in flight during
// one second: together with "the scripts' timeouts expired long ago" this is recorded as stuck.
func (wk *worker) quiescent(pid int) bool {
	t0, s0 := cpuTicks(pid), wk.served.Load()
	time.Sleep(time.Second)
	return wk.inflight.Load() == 0 && wk.served.Load() == s0 && t0 >= 0 && cpuTicks(pid) == t0
}

func cpuTicks(pid int) int64 {
	b, err := os.ReadFile(fmt.Sprintf("/proc/%d/stat", pid))
	if err != nil {
		return -1
	}
	s := string(b)
	if i := strings.LastIndex(s, ")"); i >= 0 {
		s = s[i+1:]
	}
	f := strings.Fields(s)
	if len(f) < 14 {
		return -1
	}
	var u, k int64
	fmt.Sscan(f[11], &u)
	fmt.Sscan(f[12], &k)
	return u + k
}

package main

import (
	"archive/tar"
	"bytes"
	"crypto/sha256"
	"encoding/hex"
	"fmt"
	"io"
	"net"
	"net/http"
	"os"
	"path/filepath"
	"sort"
	"strings"
	"sync"
	"sync/atomic"
	"time"

	"github.com/regclient/regclient/zzverif/simreg"
)

// Names: the scripts address the registries by the logical names; the regbot config maps them to
// the loopback listeners with `hostname:`.
var (
	hostName  = map[string]string{"rega": "rega.test", "regb": "regb.test"}
	hostShort = map[string]string{"rega.test": "rega", "regb.test": "regb"}
	// location -> (registry, repository); "lay" is the OCI layout directory
	locReg  = map[string]string{"a1": "rega", "a2": "rega", "b1": "regb"}
	locRepo = map[string]string{"a1": "repo1", "a2": "repo2", "b1": "repo1"}
)

// media types of the two content pools ("oci" and "docker")
var mediaTypes = map[string][4]string{ // manifest, index, config, layer
	"oci": {"application/vnd.oci.image.manifest.v1+json", "application/vnd.oci.image.index.v1+json",
		"application/vnd.oci.image.config.v1+json", "application/vnd.oci.image.layer.v1.tar+gzip"},
	"docker": {"application/vnd.docker.distribution.manifest.v2+json", "application/vnd.docker.distribution.manifest.list.v2+json",
		"application/vnd.docker.container.image.v1+json", "application/vnd.docker.image.rootfs.diff.tar.gzip"},
}

// layouts and tar files are OCI layouts whatever the manifests inside are
const mtIndex = "application/vnd.oci.image.index.v1+json"

// content is the fixed pool of blobs and manifests the worlds are made of:
// M1 = linux/amd64 image (config C1, layer L1), M2 = linux/arm64 image (C2, L2), IX = index of both.
type content struct {
	body map[string][]byte // id -> bytes
	dig  map[string]string // id -> sha256:...
	mt   map[string]string // manifest id -> media type
	kids map[string][]string
}

func dg(b []byte) string {
	h := sha256.Sum256(b)
	return "sha256:" + hex.EncodeToString(h[:])
}

func buildContent(kind string) *content {
	mt := mediaTypes[kind]
	mtManifest, mtIndex, mtConfig, mtLayer := mt[0], mt[1], mt[2], mt[3]
	c := &content{body: map[string][]byte{}, dig: map[string]string{}, mt: map[string]string{}, kids: map[string][]string{}}
	put := func(id string, b []byte) {
		c.body[id] = b
		c.dig[id] = dg(b)
	}
	put("L1", bytes.Repeat([]byte("layer one of the amd64 image. "), 64))
	put("L2", bytes.Repeat([]byte("layer two, the arm64 variant.. "), 80))
	for i, arch := range []string{"amd64", "arm64"} {
		n := fmt.Sprint(i + 1)
		put("C"+n, []byte(fmt.Sprintf(`{"architecture":"%s","os":"linux","config":{"Env":["PATH=/bin","N=%s"],"Cmd":["/app"]},"rootfs":{"type":"layers","diff_ids":["%s"]}}`,
			arch, n, c.dig["L"+n])))
		put("M"+n, []byte(fmt.Sprintf(`{"schemaVersion":2,"mediaType":"%s","config":{"mediaType":"%s","digest":"%s","size":%d},"layers":[{"mediaType":"%s","digest":"%s","size":%d}]}`,
			mtManifest, mtConfig, c.dig["C"+n], len(c.body["C"+n]), mtLayer, c.dig["L"+n], len(c.body["L"+n]))))
		c.mt["M"+n] = mtManifest
		c.kids["M"+n] = []string{"C" + n, "L" + n}
	}
	put("IX", []byte(fmt.Sprintf(`{"schemaVersion":2,"mediaType":"%s","manifests":[{"mediaType":"%s","digest":"%s","size":%d,"platform":{"architecture":"amd64","os":"linux"}},{"mediaType":"%s","digest":"%s","size":%d,"platform":{"architecture":"arm64","os":"linux"}}]}`,
		mtIndex, mtManifest, c.dig["M1"], len(c.body["M1"]), mtManifest, c.dig["M2"], len(c.body["M2"]))))
	c.mt["IX"] = mtIndex
	c.kids["IX"] = []string{"M1", "M2"}
	// ZZ: a digest that exists nowhere
	c.dig["ZZ"] = dg([]byte("nowhere"))
	return c
}

// closure lists id and everything below it, manifests first.
func (c *content) closure(id string) []string {
	out := []string{id}
	for _, k := range c.kids[id] {
		out = append(out, c.closure(k)...)
	}
	return out
}

// buildWorld creates the registries and the layout directory for tags (loc -> tag -> manifest id)
// and the tar files used by image.importTar.  A location without tags does not exist at all.
func (c *content) buildWorld(world map[string]map[string]string, feat, lay, files string) (*simreg.Net, error) {
	n := simreg.NewNet()
	hosts := map[string]*simreg.Host{}
	f := simreg.DefaultFeatures()
	feat = strings.TrimSuffix(feat, "+c1")
	if feat == "min" { // a registry without the optional conveniences
		f.TagDelete = false
		f.Mount = false
		f.AnonBlobPOSTPut = false
		f.PageSize = 1
	}
	if feat == "nohd" { // a registry that does not send Docker-Content-Digest (regclient falls back from HEAD to GET)
		f.HeadDigest = false
	}
	for short, name := range hostName {
		hosts[short] = n.AddHost(name, f)
	}
	for loc, tags := range world {
		if loc == "lay" || len(tags) == 0 {
			continue
		}
		h, repo := hosts[locReg[loc]], locRepo[loc]
		if h == nil {
			return nil, fmt.Errorf("unknown location %q", loc)
		}
		for _, tag := range sortedKeys(tags) {
			for _, id := range c.closure(tags[tag]) {
				if mt, ok := c.mt[id]; ok {
					t := ""
					if id == tags[tag] {
						t = tag
					}
					h.PutManifest(repo, t, mt, c.body[id])
				} else {
					h.PutBlob(repo, c.body[id])
				}
			}
		}
	}
	if tags := world["lay"]; len(tags) > 0 {
		if err := c.writeLayout(lay, tags); err != nil {
			return nil, err
		}
	}
	// tar files: good.tar = OCI layout of M1 (one unnamed index entry); bad.tar = not a tar
	var buf bytes.Buffer
	if err := c.writeTar(&buf, map[string]string{"-": "M1"}); err != nil {
		return nil, err
	}
	if err := os.WriteFile(filepath.Join(files, "good.tar"), buf.Bytes(), 0o644); err != nil {
		return nil, err
	}
	if err := os.WriteFile(filepath.Join(files, "bad.tar"), []byte("this is not a tar file"), 0o644); err != nil {
		return nil, err
	}
	return n, nil
}

func sortedKeys(m map[string]string) []string {
	out := make([]string, 0, len(m))
	for k := range m {
		out = append(out, k)
	}
	sort.Strings(out)
	return out
}

// layoutFiles returns the files of an OCI layout holding tags (independent of regclient's ocidir).
func (c *content) layoutFiles(tags map[string]string) map[string][]byte {
	fl := map[string][]byte{"oci-layout": []byte(`{"imageLayoutVersion":"1.0.0"}`)}
	var entries []string
	for _, tag := range sortedKeys(tags) {
		id := tags[tag]
		if tag == "-" { // entry without a name (the tar file)
			entries = append(entries, fmt.Sprintf(`{"mediaType":"%s","digest":"%s","size":%d}`, c.mt[id], c.dig[id], len(c.body[id])))
		} else {
			entries = append(entries, fmt.Sprintf(`{"mediaType":"%s","digest":"%s","size":%d,"annotations":{"org.opencontainers.image.ref.name":"%s"}}`,
				c.mt[id], c.dig[id], len(c.body[id]), tag))
		}
		for _, x := range c.closure(id) {
			fl["blobs/sha256/"+strings.TrimPrefix(c.dig[x], "sha256:")] = c.body[x]
		}
	}
	fl["index.json"] = []byte(fmt.Sprintf(`{"schemaVersion":2,"mediaType":"%s","manifests":[%s]}`, mtIndex, strings.Join(entries, ",")))
	return fl
}

func (c *content) writeLayout(dir string, tags map[string]string) error {
	for p, b := range c.layoutFiles(tags) {
		fp := filepath.Join(dir, p)
		if err := os.MkdirAll(filepath.Dir(fp), 0o755); err != nil {
			return err
		}
		if err := os.WriteFile(fp, b, 0o644); err != nil {
			return err
		}
	}
	return nil
}

func (c *content) writeTar(w io.Writer, tags map[string]string) error {
	tw := tar.NewWriter(w)
	fl := c.layoutFiles(tags)
	names := make([]string, 0, len(fl))
	for p := range fl {
		names = append(names, p)
	}
	sort.Strings(names)
	for _, d := range []string{"blobs/", "blobs/sha256/"} {
		if err := tw.WriteHeader(&tar.Header{Name: d, Typeflag: tar.TypeDir, Mode: 0o755}); err != nil {
			return err
		}
	}
	for _, p := range names {
		if err := tw.WriteHeader(&tar.Header{Name: p, Typeflag: tar.TypeReg, Mode: 0o644, Size: int64(len(fl[p]))}); err != nil {
			return err
		}
		if _, err := tw.Write(fl[p]); err != nil {
			return err
		}
	}
	return tw.Close()
}

// ---------------------------------------------------------------------------------------------
// worker: two loopback listeners in front of the current model network
// ---------------------------------------------------------------------------------------------

type worker struct {
	id       int
	opt      *options
	cont     *content            // pool of the current scenario
	conts    map[string]*content // "oci", "docker"
	dir      string
	addr     map[string]string // rega/regb -> 127.0.0.1:port
	srv      []*http.Server
	mu       sync.Mutex
	net      *simreg.Net
	inflight atomic.Int64
	served   atomic.Int64
	tmu      sync.Mutex
	times    map[int]time.Time // simreg request sequence number -> time it had been served
	// round 5: features / faults of the registries realised in front of the model network (reset by
	// setNet): feat "rl-ok" | "rl-low" | "rl-rec" = RateLimit-* headers on manifest replies,
	// "dmg" | "trunc" = the body of config blob C2 is served with wrong bytes / cut off
	feat  string
	nmreq atomic.Int64 // manifest requests answered in this run (rl-rec)
}

func (wk *worker) servedAt(seq int) time.Time {
	wk.tmu.Lock()
	defer wk.tmu.Unlock()
	return wk.times[seq]
}

func newWorker(id int, opt *options, conts map[string]*content) (*worker, error) {
	wk := &worker{id: id, opt: opt, cont: conts["oci"], conts: conts, addr: map[string]string{}, dir: filepath.Join(opt.scratch, fmt.Sprintf("w%02d", id))}
	if err := os.MkdirAll(wk.dir, 0o755); err != nil {
		return nil, err
	}
	for short, name := range hostName {
		ln, err := net.Listen("tcp4", "127.0.0.1:0")
		if err != nil {
			return nil, err
		}
		wk.addr[short] = ln.Addr().String()
		srv := &http.Server{Handler: wk.handler(name)}
		wk.srv = append(wk.srv, srv)
		go func() { _ = srv.Serve(ln) }()
	}
	return wk, nil
}

func (wk *worker) close() {
	for _, s := range wk.srv {
		_ = s.Close()
	}
}

func (wk *worker) setNet(n *simreg.Net) {
	wk.tmu.Lock()
	wk.times = map[int]time.Time{}
	wk.tmu.Unlock()
	for _, name := range hostName {
		h := n.Host(name)
		h.Lock()
		h.After = func(rq *simreg.Request) {
			wk.tmu.Lock()
			wk.times[rq.Seq] = time.Now()
			wk.tmu.Unlock()
		}
		h.Unlock()
	}
	wk.nmreq.Store(0)
	wk.mu.Lock()
	wk.net = n
	wk.mu.Unlock()
}

// handler hands every request received on the listener of logical host `name` to the model network
// (simreg.Net is an http.RoundTripper) and copies the reply back.
func (wk *worker) handler(name string) http.Handler {
	return http.HandlerFunc(func(rw http.ResponseWriter, r *http.Request) {
		wk.inflight.Add(1)
		defer wk.inflight.Add(-1)
		defer wk.served.Add(1)
		if strings.HasSuffix(r.URL.Path, "/manifests/slow") {
			// the tag `slow`: never answered before the client gives up (its script's timeout), so
			// that the call is cut off by the timeout however slow the machine is
			select {
			case <-time.After(20 * time.Second):
			case <-r.Context().Done():
			}
		}
		wk.mu.Lock()
		n := wk.net
		wk.mu.Unlock()
		body, err := io.ReadAll(r.Body)
		if err != nil || n == nil {
			http.Error(rw, "c19drv: cannot read request", http.StatusBadGateway)
			return
		}
		req, err := http.NewRequestWithContext(r.Context(), r.Method, "http://"+name+r.URL.RequestURI(), bytes.NewReader(body))
		if err != nil {
			http.Error(rw, "c19drv: "+err.Error(), http.StatusBadGateway)
			return
		}
		req.Header = r.Header.Clone()
		resp, err := n.RoundTrip(req)
		if err != nil {
			http.Error(rw, "c19drv: "+err.Error(), http.StatusBadGateway)
			return
		}
		defer resp.Body.Close()
		for k, v := range resp.Header {
			rw.Header()[k] = v
		}
		wk.mu.Lock()
		feat, cont := wk.feat, wk.cont
		wk.mu.Unlock()
		if strings.HasPrefix(feat, "rl-") && strings.Contains(r.URL.Path, "/manifests/") && resp.StatusCode == http.StatusOK &&
			(r.Method == http.MethodHead || r.Method == http.MethodGet) {
			// Docker Hub style pull rate limit; rl-rec: too low for the first manifest request of the run
			remain := "50"
			if feat == "rl-low" || (feat == "rl-rec" && wk.nmreq.Add(1) <= 1) {
				remain = "0"
			}
			rw.Header().Set("RateLimit-Limit", "100;w=21600")
			rw.Header().Set("RateLimit-Remaining", remain+";w=21600")
		}
		// (trunc also cuts the replies to the Range requests regclient retries with: a fault that goes
		// away on retry makes the result depend on reghttp's backoff state, i.e. on the clock)
		if (feat == "dmg" || feat == "trunc") && r.Method == http.MethodGet && cont != nil &&
			(resp.StatusCode == http.StatusOK || (feat == "trunc" && resp.StatusCode == http.StatusPartialContent)) &&
			strings.HasSuffix(r.URL.Path, "/blobs/"+cont.dig["C2"]) {
			// the request succeeds, reading the body fails: wrong bytes of the same length (digest
			// mismatch at the end of the body) or a body that ends in the middle (unexpected EOF)
			b, _ := io.ReadAll(resp.Body)
			rw.Header().Set("Content-Length", fmt.Sprint(len(b)))
			rw.WriteHeader(resp.StatusCode)
			if feat == "dmg" {
				b = bytes.ReplaceAll(b, []byte("arm64"), []byte("arm46"))
				_, _ = rw.Write(b)
			} else {
				_, _ = rw.Write(b[:len(b)/2])
				if f, ok := rw.(http.Flusher); ok {
					f.Flush()
				}
				panic(http.ErrAbortHandler) // closes the connection without the rest of the body
			}
			return
		}
		rw.WriteHeader(resp.StatusCode)
		_, _ = io.Copy(rw, resp.Body)
	})
}

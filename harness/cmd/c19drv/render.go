package main

import (
	"fmt"
	"path/filepath"
	"strings"
)

// opKind classifies the statement alphabet exactly like Regbot.tla (ReadOps / WriteOps / ...); it
// is used only to compute the recorded fact "wprior" (see assemble); the monitor classifies the
// operations itself.
func opKind(op string) string {
	switch op {
	case "tag.delete", "m:delete", "manifest.put", "m:put", "blob.put", "b:put", "image.copy", "image.copy+dt",
		"image.copy+fr", "image.copy+pf", "image.copy+ie", "image.importTar":
		return "write"
	case "image.exportTar":
		return "export"
	case "if.head", "ifnot.head", "foreach":
		return "ctl"
	}
	if isErrorOp(op) {
		return "ctl"
	}
	return "read"
}

func isErrorOp(op string) bool { return op == "error" || strings.HasPrefix(op, "error:") }

// raise is the Lua text of the ways a script can abort.
var raise = map[string]string{
	"error":         `error("boom")`,
	"error:table":   `error({code = 42, msg = "boom"})`,
	"error:number":  `error(42)`,
	"error:bool":    `error(true)`,
	"error:nil":     `error()`,
	"error:level":   `error("boom", 2)`,
	"error:index":   `local nothing = nil; local x = nothing.field`,
	"error:recurse": `local function deep(n) return 1 + deep(n + 1) end; deep(1)`,
}

type renderer struct {
	cont  *content
	lay   string
	files string
	print bool // markers through print instead of log()
}

func q(s string) string { return fmt.Sprintf("%q", s) }

func (rn *renderer) locStr(loc string) string {
	if loc == "lay" {
		return "ocidir://" + rn.lay
	}
	return hostName[locReg[loc]] + "/" + locRepo[loc]
}

// ref renders an abstract reference as a Lua expression.
//
//	"a1:v1"  literal reference string         "a1"    repository without tag
//	"bad"    a string that is no reference    "@"     the loop reference (object) of a foreach
//	"a2:@"   location a2 with the loop's tag  "$m" "$c" "$r"  a variable
func (rn *renderer) ref(x string) string {
	switch {
	case x == "bad":
		return q("rega.test/Bad Repo:v1")
	case x == "@":
		return "lr"
	case strings.HasPrefix(x, "$"):
		return x[1:]
	}
	loc, tag, has := strings.Cut(x, ":")
	switch {
	case !has:
		return q(rn.locStr(loc))
	case tag == "@":
		return q(rn.locStr(loc)+":") + " .. lt"
	case len(tag) == 2 && rn.cont.dig[tag] != "" && tag != "v1":
		// reference by digest, e.g. a1:M1 -> repo@sha256:...
		return q(rn.locStr(loc) + "@" + rn.cont.dig[tag])
	}
	return q(rn.locStr(loc) + ":" + tag)
}

// The markers travel through the sandbox's log() (one JSON log line each, stamped by regbot) or,
// where log() is not visible (verbosity above info, text log format), through Lua's print on
// stdout: one write per marker, the script name in front, newlines escaped.
const markLog = `local function mark(k, tag, v) log("C19|" .. k .. "|" .. tag .. "|" .. tostring(v)) end
`
const markPrint = `local function mark(k, tag, v)
  local s = string.gsub(string.gsub(tostring(v), "\\", "\\\\"), "\n", "\\n")
  print("C19P|%s|" .. k .. "|" .. tag .. "|" .. s .. "\n")
end
`
const prelude = `local function B(k) mark(k, "B", "") end
local function R(k, v) mark(k, "R", v) end
local function E(k, v) mark(k, "E", v) end
local function str(v)
  local ok, s = pcall(tostring, v)
  if ok then return s end
  return "<" .. tostring(s) .. ">"
end
local function list(t)
  if type(t) ~= "table" then return tostring(t) end
  local p = {}
  for _, x in ipairs(t) do p[#p + 1] = tostring(x) end
  return "[" .. table.concat(p, ",") .. "]"
end
local function rl(t)
  if type(t) ~= "table" then return tostring(t) end
  return "ratelimit set=" .. tostring(t.Set) .. " remain=" .. tostring(t.Remain)
end
mark(0, "BEGIN", "")
`

// call returns the Lua call expression of a statement, the variable its (first) result is bound
// to ("" for none) and the Lua expression (over v1, v2) that encodes the result for the log.
func (rn *renderer) call(st stmt) (expr, bind, enc string) {
	x, y := st.X, st.Y
	dig := func(id string) string { return q(rn.cont.dig[id]) }
	file := func(n string) string {
		switch n {
		case "missing":
			return q(filepath.Join(rn.files, "no-such-file.tar"))
		case "baddir":
			return q(filepath.Join(rn.files, "no-such-dir", "out.tar"))
		}
		return q(filepath.Join(rn.files, n+".tar"))
	}
	switch st.Op {
	case "repo.ls":
		return "repo.ls(" + q(hostName[x]) + ")", "", "list(v1)"
	case "repo.ls+limit":
		return "repo.ls(" + q(hostName[x]) + ", {limit = 1})", "", "list(v1)"
	case "m:head":
		return "m:head()", "m", "str(v1)"
	case "m:ratelimitWait":
		return "m:ratelimitWait(5, \"600ms\", \"1s\")", "", "str(v1)"
	case "b:get", "b:head":
		return "b:" + st.Op[2:] + "(" + dig(y) + ")", "b", `"blob"`
	case "r:close":
		return "r:close()", "", `"closed"`
	case "image.copy+pf":
		return "image.copy(" + rn.ref(x) + ", " + rn.ref(y) + ", {platforms = {\"linux/amd64\"}})", "", `"done"`
	case "image.copy+ie":
		return "image.copy(" + rn.ref(x) + ", " + rn.ref(y) + ", {includeExternal = true})", "", `"done"`
	case "tag.ls":
		return "tag.ls(" + rn.ref(x) + ")", "", "list(v1)"
	case "manifest.get", "manifest.getList", "manifest.head", "image.manifest", "image.manifestHead", "image.manifestList":
		if y != "" {
			return st.Op + "(" + rn.ref(x) + ", " + q(y) + ")", "m", "str(v1)"
		}
		return st.Op + "(" + rn.ref(x) + ")", "m", "str(v1)"
	case "m:get":
		return "m:get()", "m", "str(v1)"
	case "m:export":
		return "m:export()", "m", "str(v1)"
	case "m:config":
		return "m:config()", "c", "str(v1)"
	case "c:export":
		return "c:export()", "c", "str(v1)"
	case "image.config":
		return "image.config(" + rn.ref(x) + ")", "c", "str(v1)"
	case "m:ratelimit":
		return "m:ratelimit()", "", "rl(v1)"
	case "image.ratelimitWait":
		return "image.ratelimitWait(" + rn.ref(x) + ", 5, \"600ms\", \"1s\")", "", "str(v1)"
	case "blob.get", "blob.head":
		return st.Op + "(" + rn.ref(x) + ", " + dig(y) + ")", "b", `"blob"`
	case "reference.new":
		return "reference.new(" + rn.ref(x) + ")", "r", "str(v1)"
	case "r:tag":
		if y == "" {
			return "r:tag()", "", "str(v1)"
		}
		return "r:tag(" + q(y) + ")", "", "str(r)"
	case "r:digest":
		if y == "" {
			return "r:digest()", "", "str(v1)"
		}
		return "r:digest(" + dig(y) + ")", "", "str(r)"
	case "reference.close":
		return "reference.close(" + rn.ref(x) + ")", "", `"closed"`
	case "tag.delete":
		return "tag.delete(" + rn.ref(x) + ")", "", `"done"`
	case "m:delete":
		return "m:delete()", "", `"done"`
	case "manifest.put":
		return "manifest.put(m, " + rn.ref(x) + ")", "", `"done"`
	case "m:put":
		return "m:put(" + rn.ref(x) + ")", "", `"done"`
	case "blob.put", "b:put":
		var cnt string
		switch y {
		case "$b":
			cnt = "b"
		case "$c":
			cnt = "c"
		default:
			cnt = q("hello blob")
		}
		if st.Op == "b:put" {
			return "b:put(" + cnt + ")", "", `tostring(v1) .. " " .. tostring(v2)`
		}
		return "blob.put(" + rn.ref(x) + ", " + cnt + ")", "", `tostring(v1) .. " " .. tostring(v2)`
	case "image.copy":
		return "image.copy(" + rn.ref(x) + ", " + rn.ref(y) + ")", "", `"done"`
	case "image.copy+dt":
		return "image.copy(" + rn.ref(x) + ", " + rn.ref(y) + ", {digestTags = true})", "", `"done"`
	case "image.copy+fr":
		return "image.copy(" + rn.ref(x) + ", " + rn.ref(y) + ", {forceRecursive = true})", "", `"done"`
	case "image.importTar":
		return "image.importTar(" + rn.ref(x) + ", " + file(y) + ")", "", `"done"`
	case "image.exportTar":
		return "image.exportTar(" + rn.ref(x) + ", " + file(y) + ")", "", `"done"`
	}
	return "error(" + q("c19drv: unknown op "+st.Op) + ")", "", `"?"`
}

// script renders a list of abstract statements.  A guard (if.head / ifnot.head) governs the next
// statement, a foreach runs the next one or two statements once per tag of the listed repository.
func (rn *renderer) script(name string, ss []stmt) string {
	var b strings.Builder
	if rn.print {
		fmt.Fprintf(&b, markPrint, name)
	} else {
		b.WriteString(markLog)
	}
	b.WriteString(prelude)
	rn.block(&b, ss, 0, "")
	b.WriteString("mark(99, \"END\", \"\")\n")
	return b.String()
}

func (rn *renderer) block(b *strings.Builder, ss []stmt, i int, ind string) {
	for i < len(ss) {
		st := ss[i]
		k := i + 1
		switch st.Op {
		case "error", "error:table", "error:number", "error:bool", "error:nil", "error:level", "error:index", "error:recurse":
			if st.P == "p" {
				fmt.Fprintf(b, "%sB(%d)\n%sdo\n%s  local ok, v1 = pcall(function() %s end)\n%s  if not ok then E(%d, type(v1)) end\n%send\n",
					ind, k, ind, ind, raise[st.Op], ind, k, ind)
			} else {
				fmt.Fprintf(b, "%sB(%d)\n%sE(%d, \"raise\")\n%sdo %s end\n", ind, k, ind, k, ind, raise[st.Op])
			}
			i++
		case "if.head", "ifnot.head":
			neg := ""
			if st.Op == "ifnot.head" {
				neg = "not "
			}
			fmt.Fprintf(b, "%sB(%d)\n%slocal g%d = pcall(manifest.head, %s)\n%sR(%d, g%d)\n", ind, k, ind, k, rn.ref(st.X), ind, k, k)
			fmt.Fprintf(b, "%sif %sg%d then\n", ind, neg, k)
			if i+1 < len(ss) {
				rn.block(b, ss[:i+2], i+1, ind+"  ")
			}
			fmt.Fprintf(b, "%send\n", ind)
			i += 2
		case "foreach":
			// Y = number of statements in the body ("1" or "2"); the script continues after them
			n := 1
			if st.Y == "2" {
				n = 2
			}
			end := i + 1 + n
			if end > len(ss) {
				end = len(ss)
			}
			fmt.Fprintf(b, "%sB(%d)\n%slocal ok%d, tl%d = pcall(tag.ls, %s)\n", ind, k, ind, k, k, rn.ref(st.X))
			fmt.Fprintf(b, "%sif not ok%d then E(%d, tl%d); error(tl%d, 0) end\n%sR(%d, list(tl%d))\n", ind, k, k, k, k, ind, k, k)
			fmt.Fprintf(b, "%sfor _, lt in ipairs(tl%d) do\n%s  lr = reference.new(%s)\n%s  lr:tag(lt)\n", ind, k, ind, rn.ref(st.X), ind)
			rn.block(b, ss[:end], i+1, ind+"  ")
			fmt.Fprintf(b, "%send\n", ind)
			i = end
		default:
			expr, bind, enc := rn.call(st)
			fmt.Fprintf(b, "%sB(%d)\n%sdo\n%s  local ok, v1, v2 = pcall(function() return %s end)\n", ind, k, ind, ind, expr)
			fmt.Fprintf(b, "%s  if not ok then\n%s    E(%d, v1)\n", ind, ind, k)
			if st.P != "p" {
				fmt.Fprintf(b, "%s    error(v1, 0)\n", ind)
			}
			fmt.Fprintf(b, "%s  else\n", ind)
			if bind != "" {
				fmt.Fprintf(b, "%s    %s = v1\n", ind, bind)
			}
			fmt.Fprintf(b, "%s    R(%d, %s)\n%s  end\n%send\n", ind, k, enc, ind, ind)
			i++
		}
	}
}

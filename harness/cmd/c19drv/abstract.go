package main

import (
	"encoding/json"
	"os"
	"path/filepath"
	"strings"

	"github.com/regclient/regclient/zzverif/simreg"
)

// abstractVal maps what a statement logged to the abstract result Regbot.tla computes for it
// (manifest and blob ids instead of bytes, locations instead of names).  Only used to measure
// drift between the design spec and the code; the monitor never sees it.
func (wk *worker) abstractVal(st stmt, tag, payload, lay string) string {
	if tag == "E" {
		return "err"
	}
	c := wk.cont
	idOf := func(d string) string {
		for id, x := range c.dig {
			if x == d {
				return id
			}
		}
		return "?"
	}
	refAbs := func(s string) string {
		s = strings.Replace(s, "ocidir://"+lay, "lay", 1)
		for loc, reg := range locReg {
			s = strings.Replace(s, hostName[reg]+"/"+locRepo[loc], loc, 1)
		}
		if i := strings.Index(s, "@sha256:"); i >= 0 {
			s = s[:i] + ":" + idOf(s[i+1:])
		}
		return s
	}
	manifestID := func(js string) string {
		var m struct {
			Manifests []json.RawMessage `json:"manifests"`
			Config    struct {
				Digest string `json:"digest"`
			} `json:"config"`
		}
		if json.Unmarshal([]byte(js), &m) != nil {
			return "?"
		}
		if len(m.Manifests) > 0 {
			return "IX"
		}
		switch idOf(m.Config.Digest) {
		case "C1":
			return "M1"
		case "C2":
			return "M2"
		}
		return "HM" // a manifest that is none of the pool: the zero manifest of a head object
	}
	switch st.Op {
	case "tag.ls", "foreach":
		return strings.Trim(payload, "[]")
	case "repo.ls", "repo.ls+limit":
		var out []string
		for _, r := range strings.Split(strings.Trim(payload, "[]"), ",") {
			for _, loc := range []string{"a1", "a2", "b1"} {
				if locReg[loc] == st.X && locRepo[loc] == r {
					out = append(out, loc)
				}
			}
		}
		return strings.Join(out, ",")
	case "manifest.head", "image.manifestHead", "m:head":
		return "head"
	case "manifest.get", "manifest.getList", "image.manifest", "image.manifestList", "m:get", "m:export":
		return manifestID(payload)
	case "image.config", "m:config", "c:export":
		switch {
		case strings.Contains(payload, `"amd64"`):
			return "C1"
		case strings.Contains(payload, `"arm64"`):
			return "C2"
		}
		return "?"
	case "reference.new":
		return refAbs(payload)
	case "r:tag":
		if st.Y == "" {
			return payload
		}
		return refAbs(payload)
	case "r:digest":
		if payload == "" {
			return ""
		}
		return idOf(payload)
	case "m:ratelimit":
		return "ratelimit"
	case "blob.put", "b:put":
		d, _, _ := strings.Cut(payload, " ")
		if id := idOf(d); id != "?" {
			return "blob:" + id
		}
		return "blob:S"
	}
	return payload
}

// worldTags reads tag -> manifest id per location from the model registries and from the layout's
// index.json (parsed here, independently of regclient).
func (wk *worker) worldTags(n *simreg.Net, lay string) map[string]map[string]string {
	c := wk.cont
	idOf := func(d string) string {
		for id, x := range c.dig {
			if x == d {
				return id
			}
		}
		return "?"
	}
	out := map[string]map[string]string{}
	for loc, reg := range locReg {
		out[loc] = map[string]string{}
		h := n.Host(hostName[reg])
		h.Lock()
		if r := h.Repos[locRepo[loc]]; r != nil {
			for t, d := range r.Tags {
				out[loc][t] = idOf(d)
				if out[loc][t] == "?" {
					out[loc][t] = "HM"
				}
			}
		}
		h.Unlock()
	}
	out["lay"] = map[string]string{}
	if b, err := os.ReadFile(filepath.Join(lay, "index.json")); err == nil {
		var idx struct {
			Manifests []struct {
				Digest      string            `json:"digest"`
				Annotations map[string]string `json:"annotations"`
			} `json:"manifests"`
		}
		if json.Unmarshal(b, &idx) == nil {
			for _, m := range idx.Manifests {
				if t := m.Annotations["org.opencontainers.image.ref.name"]; t != "" {
					out["lay"][t] = idOf(m.Digest)
					if out["lay"][t] == "?" {
						out["lay"][t] = "HM"
					}
				}
			}
		}
	}
	return out
}

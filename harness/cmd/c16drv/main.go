// c16drv records, from the real types/platform, types/descriptor and types/manifest code, the
// relations and search results that spec/PlatformTrace.tla checks for property C16.
//
// Input: the spelled universe emitted by TLC from spec/PlatformGen.tla (JSON lines, id = 1..N).
// Output: an ndjson log: N "plat" lines (line i = platform i), then per host one "host" line
// followed by "search" lines that refer to it.
package main

import (
	"bufio"
	"context"
	"encoding/json"
	"flag"
	"fmt"
	"math/rand"
	"os"
	"path/filepath"
	"sort"
	"strings"

	"github.com/opencontainers/go-digest"

	"github.com/regclient/regclient"
	"github.com/regclient/regclient/scheme"
	"github.com/regclient/regclient/types/descriptor"
	"github.com/regclient/regclient/types/manifest"
	"github.com/regclient/regclient/types/mediatype"
	v1 "github.com/regclient/regclient/types/oci/v1"
	"github.com/regclient/regclient/types/platform"
	"github.com/regclient/regclient/types/ref"
	"github.com/regclient/regclient/zzverif/vtrace"
)

type uplat struct {
	ID      int    `json:"id"`
	OS      string `json:"os"`
	Arch    string `json:"arch"`
	Variant string `json:"variant"`
	OSVer   string `json:"osver"`
	Canon   string `json:"canon"`
}

func (u uplat) plat() platform.Platform {
	return platform.Platform{OS: u.OS, Architecture: u.Arch, Variant: u.Variant, OSVersion: u.OSVer}
}

func (u uplat) spelling(upper bool) string {
	s := u.OS + "/" + u.Arch
	if u.Variant != "" {
		s += "/" + u.Variant
	}
	if upper {
		s = strings.ToUpper(s)
	}
	if u.OSVer != "" {
		s += ",osver=" + u.OSVer
	}
	return s
}

func b2i(b bool) int {
	if b {
		return 1
	}
	return 0
}

var layoutRoot string

// writeLayout stores the list as an OCI layout: tag -> index (flat) or tag -> outer index -> index (nested);
// every entry is a small image manifest of its own. It returns the descriptors of the list entries.
func writeLayout(dir, shape string, lst []int, host platform.Platform, plat func(t int) platform.Platform) ([]descriptor.Descriptor, []digest.Digest, digest.Digest) {
	put := func(b []byte) digest.Digest {
		d := digest.FromBytes(b)
		p := filepath.Join(dir, "blobs", d.Algorithm().String())
		if err := os.MkdirAll(p, 0o755); err != nil {
			fail(err)
		}
		if err := os.WriteFile(filepath.Join(p, d.Encoded()), b, 0o644); err != nil {
			fail(err)
		}
		return d
	}
	dl := make([]descriptor.Descriptor, len(lst))
	cds := make([]digest.Digest, len(lst))
	for i, t := range lst {
		// every entry has a config of its own, so that entry points that answer with a config identify the entry
		conf := []byte(fmt.Sprintf(`{"architecture":"amd64","os":"linux","config":{"Labels":{"entry":"%d-%d"}},"rootfs":{"type":"layers","diff_ids":[]}}`, i, t))
		cd := put(conf)
		cds[i] = cd
		mb := []byte(fmt.Sprintf(`{"schemaVersion":2,"mediaType":%q,"config":{"mediaType":%q,"digest":%q,"size":%d},"layers":[],"annotations":{"entry":"%d-%d"}}`,
			mediatype.OCI1Manifest, mediatype.OCI1ImageConfig, cd.String(), len(conf), i, t))
		dl[i] = descriptor.Descriptor{MediaType: mediatype.OCI1Manifest, Size: int64(len(mb)), Digest: put(mb)}
		if t != 0 {
			tp := plat(t)
			dl[i].Platform = &tp
		}
	}
	idx, err := json.Marshal(v1.Index{Versioned: v1.IndexSchemaVersion, MediaType: mediatype.OCI1ManifestList, Manifests: dl})
	if err != nil {
		fail(err)
	}
	top := descriptor.Descriptor{MediaType: mediatype.OCI1ManifestList, Size: int64(len(idx)), Digest: put(idx)}
	if shape == "nested" {
		hp := host
		top.Platform = &hp
		outer, err := json.Marshal(v1.Index{Versioned: v1.IndexSchemaVersion, MediaType: mediatype.OCI1ManifestList, Manifests: []descriptor.Descriptor{top}})
		if err != nil {
			fail(err)
		}
		top = descriptor.Descriptor{MediaType: mediatype.OCI1ManifestList, Size: int64(len(outer)), Digest: put(outer)}
	}
	top.Annotations = map[string]string{"org.opencontainers.image.ref.name": "tag"}
	roots := []descriptor.Descriptor{top}
	// one referrer per entry, recorded under the fall-back tag of the entry (an OCI layout keeps referrers that way),
	// so that a referrers query for a platform answers with a subject
	for i := range dl {
		ab := []byte(fmt.Sprintf(`{"schemaVersion":2,"mediaType":%q,"artifactType":"application/x.c16","config":{"mediaType":"application/vnd.oci.empty.v1+json","digest":"sha256:44136fa355b3678a1146ad16f7e8649e94fb4fc21fe77e8310c060f61caaff8a","size":2},"layers":[],"subject":{"mediaType":%q,"digest":%q,"size":%d}}`,
			mediatype.OCI1Manifest, dl[i].MediaType, dl[i].Digest.String(), dl[i].Size))
		ad := descriptor.Descriptor{MediaType: mediatype.OCI1Manifest, Size: int64(len(ab)), Digest: put(ab), ArtifactType: "application/x.c16"}
		rb, err := json.Marshal(v1.Index{Versioned: v1.IndexSchemaVersion, MediaType: mediatype.OCI1ManifestList, Manifests: []descriptor.Descriptor{ad}})
		if err != nil {
			fail(err)
		}
		roots = append(roots, descriptor.Descriptor{MediaType: mediatype.OCI1ManifestList, Size: int64(len(rb)), Digest: put(rb),
			Annotations: map[string]string{"org.opencontainers.image.ref.name": dl[i].Digest.Algorithm().String() + "-" + dl[i].Digest.Encoded()}})
	}
	put([]byte("{}"))
	ij, err := json.Marshal(v1.Index{Versioned: v1.IndexSchemaVersion, MediaType: mediatype.OCI1ManifestList, Manifests: roots})
	if err != nil {
		fail(err)
	}
	if err := os.WriteFile(filepath.Join(dir, "index.json"), ij, 0o644); err != nil {
		fail(err)
	}
	if err := os.WriteFile(filepath.Join(dir, "oci-layout"), []byte(`{"imageLayoutVersion":"1.0.0"}`), 0o644); err != nil {
		fail(err)
	}
	return dl, cds, top.Digest
}

func main() {
	in := flag.String("in", "", "universe (jsonl)")
	out := flag.String("out", "", "ndjson log")
	seed := flag.Int64("seed", 1, "seed")
	nHosts := flag.Int("hosts", 40, "number of hosts (0 = one per canonical class)")
	nLists := flag.Int("lists", 12, "random lists per host")
	flag.Parse()
	var lerr error
	layoutRoot, lerr = os.MkdirTemp(filepath.Dir(*out), "c16-layouts-")
	if lerr != nil {
		fail(lerr)
	}
	defer os.RemoveAll(layoutRoot)
	rng := rand.New(rand.NewSource(*seed))
	var us []uplat
	err := vtrace.ReadLines(*in, func(line []byte) error {
		var u uplat
		if err := json.Unmarshal(line, &u); err != nil {
			return err
		}
		us = append(us, u)
		return nil
	})
	if err != nil {
		fail(err)
	}
	sort.Slice(us, func(i, j int) bool { return us[i].ID < us[j].ID })
	for i, u := range us {
		if u.ID != i+1 {
			fail(fmt.Errorf("universe ids are not 1..N"))
		}
	}
	f, err := os.Create(*out)
	if err != nil {
		fail(err)
	}
	w := bufio.NewWriterSize(f, 1<<20)
	enc := json.NewEncoder(w)
	emit := func(ev map[string]any) {
		if err := enc.Encode(ev); err != nil {
			fail(err)
		}
	}
	// 1. normal form and parsing of every spelled platform
	for _, u := range us {
		p := u.plat()
		str := p.String()
		ev := map[string]any{"ev": "plat", "id": u.ID, "os": u.OS, "arch": u.Arch, "variant": u.Variant, "osver": u.OSVer, "str": str}
		rp, err := platform.Parse(str)
		ev["reparse"] = rp.String()
		if err != nil {
			ev["reparse"] = "error: " + err.Error()
		}
		rp2, err := platform.Parse(rp.String())
		ev["reparse2"] = rp2.String()
		if err != nil {
			ev["reparse2"] = "error: " + err.Error()
		}
		pp, err := platform.Parse(u.spelling(false))
		ev["p_err"] = b2i(err != nil)
		ev["p_os"], ev["p_arch"], ev["p_variant"], ev["p_osver"], ev["p_str"] = pp.OS, pp.Architecture, pp.Variant, pp.OSVersion, pp.String()
		pu, err := platform.Parse(u.spelling(true))
		ev["pu_str"] = pu.String()
		if err != nil {
			ev["pu_str"] = "error: " + err.Error()
		}
		emit(ev)
	}
	line := len(us)
	// 2. canonical classes (by the spec's canonical string + os version) and one spelled member each
	classes := map[string][]uplat{}
	for _, u := range us {
		k := u.Canon + "," + u.OSVer
		classes[k] = append(classes[k], u)
	}
	keys := make([]string, 0, len(classes))
	for k := range classes {
		keys = append(keys, k)
	}
	sort.Strings(keys)
	reps := make([]uplat, len(keys))
	repIDs := make([]int, len(keys))
	for i, k := range keys {
		c := classes[k]
		reps[i] = c[rng.Intn(len(c))]
		repIDs[i] = reps[i].ID
	}
	hostKeys := append([]string(nil), keys...)
	if *nHosts > 0 && *nHosts < len(hostKeys) {
		rng.Shuffle(len(hostKeys), func(i, j int) { hostKeys[i], hostKeys[j] = hostKeys[j], hostKeys[i] })
		hostKeys = hostKeys[:*nHosts]
		sort.Strings(hostKeys)
	}
	n := len(reps)
	for _, hk := range hostKeys {
		c := classes[hk]
		hu := c[rng.Intn(len(c))]
		h := hu.plat()
		cmp := platform.NewCompare(h)
		compat := make([]int, n)
		match := make([]int, n)
		bz := make([]int, n)
		run := []int{}
		for t := 0; t < n; t++ {
			// a fresh random spelling of the target class for every cell binds normalisation inside compare
			tp := pick(rng, classes[keys[t]]).plat()
			compat[t] = b2i(platform.Compatible(h, tp))
			match[t] = b2i(platform.Match(h, pick(rng, classes[keys[t]]).plat()))
			bz[t] = b2i(cmp.Better(pick(rng, classes[keys[t]]).plat(), platform.Platform{}))
			if compat[t] == 1 {
				run = append(run, t+1)
			}
		}
		better := make([][]int, n)
		for t := 0; t < n; t++ {
			better[t] = make([]int, len(run))
			for j, p := range run {
				better[t][j] = b2i(cmp.Better(pick(rng, classes[keys[t]]).plat(), pick(rng, classes[keys[p-1]]).plat()))
			}
		}
		emit(map[string]any{"ev": "host", "h": hu.ID, "reps": repIDs, "compat": compat, "match": match, "bz": bz, "run": run, "better": better})
		line++
		hl := line
		// 3. searches over lists, every permutation
		for k := 0; k < *nLists; k++ {
			ln := 1 + rng.Intn(4)
			lst := make([]int, ln)
			for i := range lst {
				r := rng.Float64()
				switch {
				case r < 0.6 && len(run) > 0:
					lst[i] = run[rng.Intn(len(run))]
				case r < 0.85:
					lst[i] = 1 + rng.Intn(n)
				default:
					lst[i] = 0
				}
			}
			seen := map[string]bool{}
			permute(lst, func(pl []int) {
				key := fmt.Sprint(pl)
				if seen[key] {
					return
				}
				seen[key] = true
				dl := make([]descriptor.Descriptor, len(pl))
				for i, t := range pl {
					dl[i] = descriptor.Descriptor{MediaType: mediatype.OCI1Manifest, Size: int64(100 + i),
						Digest: digest.FromString(fmt.Sprintf("entry-%d-%d", i, t))}
					if t != 0 {
						tp := pick(rng, classes[keys[t-1]]).plat()
						dl[i].Platform = &tp
					}
				}
				res := 0
				hh := h
				d, err := descriptor.DescriptorListSearch(dl, descriptor.MatchOpt{Platform: &hh})
				if err == nil {
					for i := range dl {
						if dl[i].Digest == d.Digest {
							res = i + 1
						}
					}
				}
				emit(map[string]any{"ev": "search", "api": "DescriptorListSearch", "h": hu.ID, "hl": hl, "list": append([]int(nil), pl...), "res": res, "fpass": 1})
				line++
				// the same list through an OCI index and manifest.GetPlatformDesc
				m, err := manifest.New(manifest.WithOrig(v1.Index{Versioned: v1.IndexSchemaVersion, MediaType: mediatype.OCI1ManifestList, Manifests: dl}))
				if err != nil {
					fail(fmt.Errorf("building index: %w", err))
				}
				res2 := 0
				hh2 := h
				d2, err := manifest.GetPlatformDesc(m, &hh2)
				if err == nil && d2 != nil {
					for i := range dl {
						if dl[i].Digest == d2.Digest {
							res2 = i + 1
						}
					}
				}
				emit(map[string]any{"ev": "search", "api": "GetPlatformDesc", "h": hu.ID, "hl": hl, "list": append([]int(nil), pl...), "res": res2, "fpass": 1})
				line++
			})
			// 4. the same list searched with a filter option next to the platform (artifact type, annotation,
			// sort annotation): the statement then speaks about the entries that pass the filter, whatever
			// order the filter leaves them in
			fk := []string{"atype", "annot", "sort", "sortdesc"}[rng.Intn(4)]
			pass := make([]bool, ln)
			ord := make([]string, ln)
			for i := range pass {
				pass[i] = rng.Intn(10) < 7
				if rng.Intn(4) != 0 {
					ord[i] = fmt.Sprint(rng.Intn(3))
				}
			}
			idx := make([]int, ln)
			for i := range idx {
				idx[i] = i
			}
			seenF := map[string]bool{}
			permute(idx, func(pi []int) {
				key := ""
				for _, j := range pi {
					key += fmt.Sprintf("%d/%v/%s,", lst[j], pass[j], ord[j])
				}
				if seenF[key] {
					return
				}
				seenF[key] = true
				dl := make([]descriptor.Descriptor, len(pi))
				eff := make([]int, len(pi))
				okf := make([]bool, len(pi))
				for i, j := range pi {
					t := lst[j]
					dl[i] = descriptor.Descriptor{MediaType: mediatype.OCI1Manifest, Size: int64(100 + i),
						Digest: digest.FromString(fmt.Sprintf("fentry-%d-%d", j, t))}
					if t != 0 {
						tp := pick(rng, classes[keys[t-1]]).plat()
						dl[i].Platform = &tp
					}
					okf[i] = true
					switch fk {
					case "atype":
						dl[i].ArtifactType = "application/vnd.other"
						if pass[j] {
							dl[i].ArtifactType = "application/vnd.wanted"
						}
						okf[i] = pass[j]
					case "annot":
						if pass[j] {
							dl[i].Annotations = map[string]string{"want": "yes", "x": "y"}
						} else if ord[j] != "" {
							dl[i].Annotations = map[string]string{"want": "no"}
						}
						okf[i] = pass[j]
					default:
						if ord[j] != "" {
							dl[i].Annotations = map[string]string{"ord": ord[j]}
						}
					}
					if okf[i] {
						eff[i] = t
					}
				}
				hh := h
				opt := descriptor.MatchOpt{Platform: &hh}
				switch fk {
				case "atype":
					opt.ArtifactType = "application/vnd.wanted"
				case "annot":
					opt.Annotations = map[string]string{"want": "yes"}
				case "sort":
					opt.SortAnnotation = "ord"
				case "sortdesc":
					opt.SortAnnotation, opt.SortDesc = "ord", true
				}
				res, fpass := 0, 1
				d, err := descriptor.DescriptorListSearch(dl, opt)
				if err == nil {
					for i := range dl {
						if dl[i].Digest == d.Digest {
							res = i + 1
							if !okf[i] {
								fpass = 0
							}
						}
					}
				}
				emit(map[string]any{"ev": "search", "api": "DescriptorListSearch+" + fk, "h": hu.ID, "hl": hl, "list": eff, "res": res, "fpass": fpass})
				line++
			})
			// 5. the client's entry points that resolve a platform (ManifestGet / ManifestHead with
			// WithManifestPlatform), on a layout whose tag is this list as a flat index, and as a nested index:
			// an outer index with one entry, for the host's own platform, that is itself the index with the list
			if k < 2 {
				for _, shape := range []string{"flat", "nested"} {
					dir := filepath.Join(layoutRoot, fmt.Sprintf("l-%d-%d-%s", hu.ID, k, shape))
					dl, cds, topDig := writeLayout(dir, shape, lst, h, func(t int) platform.Platform { return pick(rng, classes[keys[t-1]]).plat() })
					rc := regclient.New()
					var r ref.Ref
					// the image is named by tag, by the digest of the (outer) index, and by both
					for _, form := range []string{"tag", "digest", "tagdigest"} {
						name := "ocidir://" + dir
						switch form {
						case "tag":
							name += ":tag"
						case "digest":
							name += "@" + topDig.String()
						default:
							name += ":tag@" + topDig.String()
						}
						var err error
						r, err = ref.New(name)
						if err != nil {
							fail(err)
						}
						for _, api := range []string{"ManifestGet", "ManifestHead", "ReferrerList", "ImageConfig"} {
							hh := h
							var got digest.Digest
							var derr error
							byConf := false
							switch api {
							case "ManifestGet":
								m, e := rc.ManifestGet(context.Background(), r, regclient.WithManifestPlatform(hh))
								derr = e
								if e == nil {
									got = m.GetDescriptor().Digest
								}
							case "ManifestHead":
								m, e := rc.ManifestHead(context.Background(), r, regclient.WithManifestPlatform(hh))
								derr = e
								if e == nil {
									got = m.GetDescriptor().Digest
								}
							case "ReferrerList":
								// the referrers of the entry for the platform: the subject of the answer is the entry chosen
								rl, e := rc.ReferrerList(context.Background(), r, scheme.WithReferrerPlatform(hu.spelling(false)))
								derr = e
								if e == nil {
									got = digest.Digest(rl.Subject.Digest)
								}
							default:
								bc, e := rc.ImageConfig(context.Background(), r, regclient.ImageWithPlatform(hu.spelling(false)))
								derr = e
								byConf = true
								if e == nil {
									got = bc.GetDescriptor().Digest
								}
							}
							res := 0
							if derr == nil {
								for i := range dl {
									if (!byConf && dl[i].Digest == got) || (byConf && cds[i] == got) {
										res = i + 1
									}
								}
								if res == 0 {
									res = -1 // something that is not an entry of the list
								}
							}
							emit(map[string]any{"ev": "search", "api": api + "+platform/" + shape + "/" + form, "h": hu.ID, "hl": hl, "list": append([]int(nil), lst...), "res": res, "fpass": 1})
							line++
						}
					}
					_ = rc.Close(context.Background(), r)
					_ = os.RemoveAll(dir)
				}
			}
		}
	}
	if err := w.Flush(); err != nil {
		fail(err)
	}
	if err := f.Close(); err != nil {
		fail(err)
	}
	meta := map[string]any{"platforms": len(us), "classes": len(keys), "hosts": len(hostKeys), "lines": line}
	_ = json.NewEncoder(os.Stdout).Encode(meta)
}

func pick(rng *rand.Rand, c []uplat) uplat { return c[rng.Intn(len(c))] }

func permute(a []int, f func([]int)) {
	var rec func(int)
	rec = func(k int) {
		if k == len(a) {
			f(a)
			return
		}
		for i := k; i < len(a); i++ {
			a[k], a[i] = a[i], a[k]
			rec(k + 1)
			a[k], a[i] = a[i], a[k]
		}
	}
	rec(0)
}

func fail(err error) {
	fmt.Fprintln(os.Stderr, "c16drv:", err)
	os.Exit(2)
}
